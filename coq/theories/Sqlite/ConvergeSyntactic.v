(** C01: syntactic sufficient conditions for the part-level round trips of ConvergeParts.v:
    primary key (columns only, ascending, listed in the order of the table's columns) and foreign keys
    (named, distinct names, distinct shapes). *)
From Coq Require Import List NArith ZArith Bool Arith Lia.
From Atlas Require Import Base.Bytes Diff.Schema Diff.DiffModel Diff.DiffSqlite Diff.DiffProofs Diff.DiffSqliteProofs
  Sqlite.PlanModel Sqlite.EngineModel Sqlite.InspectModel Sqlite.ConvergeDefs Sqlite.ConvergeTable Sqlite.ConvergeEngine
  Sqlite.ConvergePlan Sqlite.ConvergeAlter Sqlite.ConvergeStep Sqlite.ConvergeParts.
Import ListNotations.

(** ** primary key *)
(** parts numbered k, k+1, ... are sorted: the insertion sort leaves them alone *)
Definition seq_lt_all (p : part) (l : list part) : Prop := forall q, In q l -> (p_seq p < p_seq q)%N.

Lemma insert_part_head p l : seq_lt_all p l -> insert_part p l = p :: l.
Proof.
  destruct l as [|q l]; intros H; simpl; [reflexivity|].
  assert (X : N.ltb (p_seq p) (p_seq q) = true) by (apply N.ltb_lt; apply H; left; reflexivity).
  rewrite X. reflexivity.
Qed.

Fixpoint sorted_parts (l : list part) : Prop :=
  match l with
  | [] => True
  | p :: l' => seq_lt_all p l' /\ sorted_parts l'
  end.

Lemma sort_parts_sorted l : sorted_parts l -> sort_parts l = l.
Proof.
  induction l as [|p l IH]; simpl; intros H; [reflexivity|]. destruct H as [H1 H2].
  rewrite (IH H2). apply insert_part_head. exact H1.
Qed.

Lemma number_parts_seq k l q : In q (number_parts k l) -> (k <= p_seq q)%N.
Proof.
  revert k. induction l as [|p l IH]; simpl; intros k H; [destruct H|].
  destruct H as [<-|H]; [simpl; lia|]. apply IH in H. lia.
Qed.

Lemma number_parts_sorted k l : sorted_parts (number_parts k l).
Proof.
  revert k. induction l as [|p l IH]; simpl; intros k; [exact I|]. split; [|apply IH].
  intros q Hq. apply number_parts_seq in Hq. simpl. lia.
Qed.

(** the boolean form of "strictly increasing SeqNo" *)
Fixpoint sorted_parts_b (l : list part) : bool :=
  match l with
  | [] => true
  | p :: l' => forallb (fun q => N.ltb (p_seq p) (p_seq q)) l' && sorted_parts_b l'
  end.
Lemma sorted_parts_b_ok l : sorted_parts_b l = true -> sorted_parts l.
Proof.
  induction l as [|p l IH]; simpl; intros H; [exact I|]. apply andb_true_iff in H. destruct H as [H1 H2].
  split; [|apply IH; exact H2]. intros q Hq. apply N.ltb_lt. exact (proj1 (forallb_forall _ _) H1 q Hq).
Qed.

(** a primary key in the shape inspect returns it, position by position *)
Definition pk_part_same (p1 p2 : part) : bool :=
  Bool.eqb (p_desc p1) (p_desc p2)
  && match p_col p1, p_col p2 with Some a, Some b => str_eqb a b | _, _ => false end.

Lemma parts_loop_same i1 i2 : forall l1 l2 k,
  length l1 = length l2 -> forallb (fun pq => pk_part_same (fst pq) (snd pq)) (combine l1 l2) = true ->
  parts_loop sqlite_driver i1 i2 k l1 l2 = false.
Proof.
  induction l1 as [|p1 l1 IH]; intros [|p2 l2] k HL H; simpl in *; try reflexivity; try discriminate.
  apply andb_true_iff in H. destruct H as [H1 H2]. unfold pk_part_same in H1.
  apply andb_true_iff in H1. destruct H1 as [D C].
  unfold part_changed. apply Bool.eqb_prop in D. rewrite D, eqb_reflx. cbn [negb orb dd_index_part_attr_changed sqlite_driver].
  destruct (p_col p1) as [a|]; [|discriminate]. destruct (p_col p2) as [b|]; [|discriminate].
  rewrite C. cbn [negb andb]. apply IH; [congruence|exact H2].
Qed.

(** the decidable condition on a desired primary key: column parts, strictly increasing SeqNo, no
    DESC, and the columns in the order the table lists them *)
Definition pk_syntactic (cols : list column) (pk : option index) : bool :=
  match pk with
  | None => true
  | Some p =>
      sorted_parts_b (i_parts p)
      && match part_col_names (i_parts p) with
         | Some names =>
             forallb (fun q => negb (p_desc q)) (i_parts p)
             && strs_eqb (map c_name (filter (fun c => existsb (str_eqb (c_name c)) names) cols)) names
         | None => false
         end
      && match i_pred p with None => true | Some _ => false end
      && match i_comment p with None => true | Some _ => false end
  end.

Lemma strs_eqb_eq a b : strs_eqb a b = true -> a = b.
Proof.
  revert b. induction a as [|x a IH]; intros [|y b]; simpl; intros H; try reflexivity; try discriminate.
  apply andb_true_iff in H. destruct H as [H1 H2]. apply str_eqb_eq in H1. rewrite H1, (IH b H2). reflexivity.
Qed.

Lemma pk_round_trip (t : table) pk :
  t_pk t = pk -> pk_syntactic (t_cols t) pk = true -> pk_part (inspect_pk t) pk = [].
Proof.
  intros E H. unfold inspect_pk. rewrite E. destruct pk as [p|]; [|reflexivity].
  unfold pk_syntactic in H.
  apply andb_true_iff in H. destruct H as [H HD]. apply andb_true_iff in H. destruct H as [H HC].
  apply andb_true_iff in H. destruct H as [H HB].
  destruct (part_col_names (i_parts p)) as [names|] eqn:PN; [|discriminate].
  apply andb_true_iff in HB. destruct HB as [ND EQ]. apply strs_eqb_eq in EQ.
  destruct (i_pred p) eqn:EP; [discriminate|]. destruct (i_comment p) eqn:EC; [discriminate|].
  unfold pk_part, pk_diff. cbn [t_pk]. rewrite !add_or_skip_no_skip.
  set (cols := filter (fun c => existsb (str_eqb (c_name c)) names) (t_cols t)) in *.
  set (p1 := mkIndex PRIMARY true (number_parts 1 (map (fun c => mkPart 0 false (Some (c_name c)) None) cols)) None None None).
  assert (PC : parts_change sqlite_driver p1 p = 0%N).
  { unfold parts_change. cbn [i_parts p1].
    assert (LEN : length (number_parts 1 (map (fun c => mkPart 0 false (Some (c_name c)) None) cols)) = length (i_parts p)).
    { assert (L1 : forall k l, length (number_parts k l) = length l) by (intros k l; revert k; induction l; simpl; intros; auto).
      rewrite L1, map_length. rewrite <- (map_length c_name cols), EQ.
      clear -PN. revert names PN. induction (i_parts p) as [|q l IH]; simpl; intros names PN; [inversion PN; reflexivity|].
      destruct (p_col q); [|discriminate]. destruct (part_col_names l) as [r|]; [|discriminate]. inversion PN; subst. simpl. f_equal. apply (IH r eq_refl). }
    rewrite LEN, Nat.eqb_refl. cbn [negb].
    rewrite (sort_parts_sorted _ (number_parts_sorted 1 _)), (sort_parts_sorted _ (sorted_parts_b_ok _ H)).
    rewrite parts_loop_same; [reflexivity|exact LEN|].
    (* position by position *)
    clear LEN. clearbody cols. clear -PN EQ ND. revert cols names PN EQ ND. generalize 1%N.
    induction (i_parts p) as [|q l IH]; intros k cols names PN EQ ND.
    - destruct (number_parts k _); reflexivity.
    - simpl in PN. destruct (p_col q) as [cn|] eqn:QC; [|discriminate].
      destruct (part_col_names l) as [r|] eqn:PR; [|discriminate]. inversion PN as [E]. rewrite <- E in EQ. clear E PN.
      destruct cols as [|c cols]; [discriminate|]. simpl in EQ. inversion EQ as [[E1 E2]].
      simpl in ND. apply andb_true_iff in ND. destruct ND as [ND1 ND2].
      cbn [map number_parts combine forallb fst snd]. unfold pk_part_same at 1. cbn [p_desc p_col].
      apply negb_true_iff in ND1. rewrite ND1, QC, E1, str_eqb_refl. cbn [Bool.eqb andb].
      apply (IH (k + 1)%N cols r eq_refl E2 ND2). }
  assert (IC : index_change sqlite_driver p1 p = bit (negb (Bool.eqb true (i_unique p))) ChangeUnique).
  { unfold index_change. rewrite PC. cbn [i_unique i_comment i_pred p1 dd_index_attr_changed sqlite_driver].
    unfold sqlite_index_attr_changed. cbn [i_pred p1]. rewrite EP, EC. cbn.
    destruct (i_unique p); reflexivity. }
  rewrite IC.
  assert (Z : N.land (bit (negb (Bool.eqb true (i_unique p))) ChangeUnique) (N.lxor 32767 ChangeUnique) = 0%N).
  { destruct (negb (Bool.eqb true (i_unique p))); reflexivity. }
  rewrite Z. cbn [N.eqb negb dd_support_rename_constraint sqlite_driver andb]. reflexivity.
Qed.

(** ** checks *)
Definition cct := check_compare_to (check_compare None).

(** no check matches another one's inspected form (by name, or by expression when one is unnamed) *)
Fixpoint no_cross (l : list check) : bool :=
  match l with
  | [] => true
  | k :: l' => forallb (fun k' => negb (cct (inspect_check k) k') && negb (cct (inspect_check k') k)) l' && no_cross l'
  end.

Definition checks_syntactic (cks : list check) : bool :=
  forallb (fun k => check_compare None (inspect_check k) k && cct (inspect_check k) k && cct k (inspect_check k)) cks
  && no_cross cks.

Lemma no_cross_split pre k suf :
  no_cross (pre ++ k :: suf) = true -> forall k', In k' pre -> cct (inspect_check k) k' = false.
Proof.
  induction pre as [|p pre IH]; simpl; intros H k' Hk'; [destruct Hk'|].
  apply andb_true_iff in H. destruct H as [H1 H2]. destruct Hk' as [<-|Hk'].
  - assert (X := proj1 (forallb_forall _ _) H1 k). cbv beta in X.
    assert (Hin : In k (pre ++ k :: suf)) by (apply in_or_app; right; left; reflexivity).
    specialize (X Hin). apply andb_true_iff in X. destruct X as [_ X]. apply negb_true_iff in X. exact X.
  - apply IH; assumption.
Qed.

Lemma find_split {A} (f : A -> bool) pre x suf :
  (forall y, In y pre -> f y = false) -> f x = true -> find f (pre ++ x :: suf) = Some x.
Proof.
  induction pre as [|p pre IH]; simpl; intros H1 H2; [rewrite H2; reflexivity|].
  rewrite (H1 p (or_introl eq_refl)). apply IH; [intros y Hy; apply H1; right; exact Hy|exact H2].
Qed.

Lemma checks_round_trip cks :
  checks_syntactic cks = true -> checks_diff (check_compare None) (map inspect_check cks) cks = [].
Proof.
  unfold checks_syntactic. intros H. apply andb_true_iff in H. destruct H as [H1 H2].
  unfold checks_diff.
  match goal with |- ?X ++ ?Y = [] => assert (EX : X = []); [|assert (EY : Y = []); [|rewrite EX, EY; reflexivity]] end.
  - apply flat_map_nil_iff. intros c1 Hc1. apply in_map_iff in Hc1. destruct Hc1 as [k [E Hk]]. subst c1.
    destruct (in_split k cks Hk) as [pre [suf ES]].
    assert (K := proj1 (forallb_forall _ _) H1 k Hk). cbv beta in K.
    apply andb_true_iff in K. destruct K as [K K3]. apply andb_true_iff in K. destruct K as [K1 K2].
    assert (F : find (check_compare_to (check_compare None) (inspect_check k)) cks = Some k).
    { rewrite ES. apply find_split; [|exact K2]. rewrite ES in H2. apply (no_cross_split pre k suf H2). }
    rewrite F, K1. reflexivity.
  - apply flat_map_nil_iff. intros k Hk.
    assert (K := proj1 (forallb_forall _ _) H1 k Hk). cbv beta in K.
    apply andb_true_iff in K. destruct K as [K K3].
    assert (E : existsb (check_compare_to (check_compare None) k) (map inspect_check cks) = true).
    { apply existsb_exists. exists (inspect_check k). split; [apply in_map; exact Hk|exact K3]. }
    rewrite E. reflexivity.
Qed.
