(** C01: syntactic sufficient conditions for the part-level round trips of ConvergeParts.v:
    primary key (columns only, ascending, listed in the order of the table's columns) and foreign keys
    (named, distinct names, distinct shapes). *)
From Coq Require Import List NArith ZArith Bool Arith Lia.
From Atlas Require Import Base.Bytes Diff.Schema Diff.DiffModel Diff.DiffSqlite Diff.DiffProofs Diff.DiffSqliteProofs
  Sqlite.PlanModel Sqlite.EngineModel Sqlite.InspectModel Sqlite.ConvergeDefs Sqlite.ConvergeTable Sqlite.ConvergeEngine
  Sqlite.ConvergePlan Sqlite.ConvergeAlter Sqlite.ConvergeStep Sqlite.ConvergeParts.
Import ListNotations.

(** ** primary key *)
(** parts numbered k, k+1, ... are sorted: the insertion sort leaves them alone *)
Definition seq_lt_all (p : part) (l : list part) : Prop := forall q, In q l -> (p_seq p < p_seq q)%N.

Lemma insert_part_head p l : seq_lt_all p l -> insert_part p l = p :: l.
Proof.
  destruct l as [|q l]; intros H; simpl; [reflexivity|].
  assert (X : N.ltb (p_seq p) (p_seq q) = true) by (apply N.ltb_lt; apply H; left; reflexivity).
  rewrite X. reflexivity.
Qed.

Fixpoint sorted_parts (l : list part) : Prop :=
  match l with
  | [] => True
  | p :: l' => seq_lt_all p l' /\ sorted_parts l'
  end.

Lemma sort_parts_sorted l : sorted_parts l -> sort_parts l = l.
Proof.
  induction l as [|p l IH]; simpl; intros H; [reflexivity|]. destruct H as [H1 H2].
  rewrite (IH H2). apply insert_part_head. exact H1.
Qed.

Lemma number_parts_seq k l q : In q (number_parts k l) -> (k <= p_seq q)%N.
Proof.
  revert k. induction l as [|p l IH]; simpl; intros k H; [destruct H|].
  destruct H as [<-|H]; [simpl; lia|]. apply IH in H. lia.
Qed.

Lemma number_parts_sorted k l : sorted_parts (number_parts k l).
Proof.
  revert k. induction l as [|p l IH]; simpl; intros k; [exact I|]. split; [|apply IH].
  intros q Hq. apply number_parts_seq in Hq. simpl. lia.
Qed.

(** the boolean form of "strictly increasing SeqNo" *)
Fixpoint sorted_parts_b (l : list part) : bool :=
  match l with
  | [] => true
  | p :: l' => forallb (fun q => N.ltb (p_seq p) (p_seq q)) l' && sorted_parts_b l'
  end.
Lemma sorted_parts_b_ok l : sorted_parts_b l = true -> sorted_parts l.
Proof.
  induction l as [|p l IH]; simpl; intros H; [exact I|]. apply andb_true_iff in H. destruct H as [H1 H2].
  split; [|apply IH; exact H2]. intros q Hq. apply N.ltb_lt. exact (proj1 (forallb_forall _ _) H1 q Hq).
Qed.

(** a primary key in the shape inspect returns it, position by position *)
Definition pk_part_same (p1 p2 : part) : bool :=
  Bool.eqb (p_desc p1) (p_desc p2)
  && match p_col p1, p_col p2 with Some a, Some b => str_eqb a b | _, _ => false end.

Lemma parts_loop_same i1 i2 : forall l1 l2 k,
  length l1 = length l2 -> forallb (fun pq => pk_part_same (fst pq) (snd pq)) (combine l1 l2) = true ->
  parts_loop sqlite_driver i1 i2 k l1 l2 = false.
Proof.
  induction l1 as [|p1 l1 IH]; intros [|p2 l2] k HL H; simpl in *; try reflexivity; try discriminate.
  apply andb_true_iff in H. destruct H as [H1 H2]. unfold pk_part_same in H1.
  apply andb_true_iff in H1. destruct H1 as [D C].
  unfold part_changed. apply Bool.eqb_prop in D. rewrite D, eqb_reflx. cbn [negb orb dd_index_part_attr_changed sqlite_driver].
  destruct (p_col p1) as [a|]; [|discriminate]. destruct (p_col p2) as [b|]; [|discriminate].
  rewrite C. cbn [negb andb]. apply IH; [congruence|exact H2].
Qed.

(** the decidable condition on a desired primary key: column parts naming columns of the table, strictly
    increasing SeqNo, no DESC.  (Before the fix "sqlite inspection orders the parts of a composite primary
    key by their position in the key" the columns also had to come in the order the table lists them.) *)
Definition pk_syntactic (cols : list column) (pk : option index) : bool :=
  match pk with
  | None => true
  | Some p =>
      sorted_parts_b (i_parts p)
      && match part_col_names (i_parts p) with
         | Some names =>
             forallb (fun q => negb (p_desc q)) (i_parts p)
             && forallb (fun n => match find_col n cols with Some _ => true | None => false end) names
         | None => false
         end
      && match i_pred p with None => true | Some _ => false end
      && match i_comment p with None => true | Some _ => false end
  end.

Lemma found_names cols names :
  forallb (fun n => match find_col n cols with Some _ => true | None => false end) names = true ->
  flat_map (fun n => match find_col n cols with Some c => [c_name c] | None => [] end) names = names.
Proof.
  induction names as [|n names IH]; simpl; intros H; [reflexivity|].
  apply andb_true_iff in H. destruct H as [H1 H2]. rewrite (IH H2).
  destruct (find_col n cols) as [c|] eqn:F; [|discriminate]. unfold find_col in F.
  apply find_some in F. destruct F as [_ F]. apply str_eqb_eq in F. rewrite F. reflexivity.
Qed.

Lemma strs_eqb_eq a b : strs_eqb a b = true -> a = b.
Proof.
  revert b. induction a as [|x a IH]; intros [|y b]; simpl; intros H; try reflexivity; try discriminate.
  apply andb_true_iff in H. destruct H as [H1 H2]. apply str_eqb_eq in H1. rewrite H1, (IH b H2). reflexivity.
Qed.

Lemma pk_round_trip (t : table) pk :
  t_pk t = pk -> pk_syntactic (t_cols t) pk = true -> pk_part (inspect_pk t) pk = [].
Proof.
  intros E H. unfold inspect_pk. rewrite E. destruct pk as [p|]; [|reflexivity].
  unfold pk_syntactic in H.
  apply andb_true_iff in H. destruct H as [H HD]. apply andb_true_iff in H. destruct H as [H HC].
  apply andb_true_iff in H. destruct H as [H HB].
  destruct (part_col_names (i_parts p)) as [names|] eqn:PN; [|discriminate].
  apply andb_true_iff in HB. destruct HB as [ND EQ]. apply found_names in EQ.
  destruct (i_pred p) eqn:EP; [discriminate|]. destruct (i_comment p) eqn:EC; [discriminate|].
  unfold pk_part, pk_diff. cbn [t_pk]. rewrite !add_or_skip_no_skip. rewrite EQ.
  set (p1 := mkIndex PRIMARY true (number_parts 1 (map (fun n => mkPart 0 false (Some n) None) names)) None None None).
  assert (PC : parts_change sqlite_driver p1 p = 0%N).
  { unfold parts_change. cbn [i_parts p1].
    assert (LEN : length (number_parts 1 (map (fun n => mkPart 0 false (Some n) None) names)) = length (i_parts p)).
    { assert (L1 : forall k l, length (number_parts k l) = length l) by (intros k l; revert k; induction l; simpl; intros; auto).
      rewrite L1, map_length.
      clear -PN. revert names PN. induction (i_parts p) as [|q l IH]; simpl; intros names PN; [inversion PN; reflexivity|].
      destruct (p_col q); [|discriminate]. destruct (part_col_names l) as [r|]; [|discriminate]. inversion PN; subst. simpl. f_equal. apply (IH r eq_refl). }
    rewrite LEN, Nat.eqb_refl. cbn [negb].
    rewrite (sort_parts_sorted _ (number_parts_sorted 1 _)), (sort_parts_sorted _ (sorted_parts_b_ok _ H)).
    rewrite parts_loop_same; [reflexivity|exact LEN|].
    (* position by position *)
    clear LEN. clear -PN ND. revert names PN ND. generalize 1%N.
    induction (i_parts p) as [|q l IH]; intros k names PN ND.
    - destruct (number_parts k _); reflexivity.
    - simpl in PN. destruct (p_col q) as [cn|] eqn:QC; [|discriminate].
      destruct (part_col_names l) as [r|] eqn:PR; [|discriminate]. inversion PN as [E]. clear PN.
      simpl in ND. apply andb_true_iff in ND. destruct ND as [ND1 ND2].
      cbn [map number_parts combine forallb fst snd]. unfold pk_part_same at 1. cbn [p_desc p_col].
      apply negb_true_iff in ND1. rewrite ND1, QC, str_eqb_refl. cbn [Bool.eqb andb].
      apply (IH (k + 1)%N r eq_refl ND2). }
  assert (IC : index_change sqlite_driver p1 p = bit (negb (Bool.eqb true (i_unique p))) ChangeUnique).
  { unfold index_change. rewrite PC. cbn [i_unique i_comment i_pred p1 dd_index_attr_changed sqlite_driver].
    unfold sqlite_index_attr_changed. cbn [i_pred p1]. rewrite EP, EC. cbn.
    destruct (i_unique p); reflexivity. }
  rewrite IC.
  assert (Z : N.land (bit (negb (Bool.eqb true (i_unique p))) ChangeUnique) (N.lxor 32767 ChangeUnique) = 0%N).
  { destruct (negb (Bool.eqb true (i_unique p))); reflexivity. }
  rewrite Z. cbn [N.eqb negb dd_support_rename_constraint sqlite_driver andb]. reflexivity.
Qed.

(** ** checks *)
Definition cct := check_compare_to (check_compare None).

(** no check matches another one's inspected form (by name, or by expression when one is unnamed) *)
Fixpoint no_cross (l : list check) : bool :=
  match l with
  | [] => true
  | k :: l' => forallb (fun k' => negb (cct (inspect_check k) k') && negb (cct (inspect_check k') k)) l' && no_cross l'
  end.

Definition checks_syntactic (cks : list check) : bool :=
  forallb (fun k => check_compare None (inspect_check k) k && cct (inspect_check k) k && cct k (inspect_check k)) cks
  && no_cross cks.

Lemma no_cross_split pre k suf :
  no_cross (pre ++ k :: suf) = true -> forall k', In k' pre -> cct (inspect_check k) k' = false.
Proof.
  induction pre as [|p pre IH]; simpl; intros H k' Hk'; [destruct Hk'|].
  apply andb_true_iff in H. destruct H as [H1 H2]. destruct Hk' as [<-|Hk'].
  - assert (X := proj1 (forallb_forall _ _) H1 k). cbv beta in X.
    assert (Hin : In k (pre ++ k :: suf)) by (apply in_or_app; right; left; reflexivity).
    specialize (X Hin). apply andb_true_iff in X. destruct X as [_ X]. apply negb_true_iff in X. exact X.
  - apply IH; assumption.
Qed.

Lemma find_split {A} (f : A -> bool) pre x suf :
  (forall y, In y pre -> f y = false) -> f x = true -> find f (pre ++ x :: suf) = Some x.
Proof.
  induction pre as [|p pre IH]; simpl; intros H1 H2; [rewrite H2; reflexivity|].
  rewrite (H1 p (or_introl eq_refl)). apply IH; [intros y Hy; apply H1; right; exact Hy|exact H2].
Qed.

Lemma checks_round_trip cks :
  checks_syntactic cks = true -> checks_diff (check_compare None) (map inspect_check cks) cks = [].
Proof.
  unfold checks_syntactic. intros H. apply andb_true_iff in H. destruct H as [H1 H2].
  unfold checks_diff.
  match goal with |- ?X ++ ?Y = [] => assert (EX : X = []); [|assert (EY : Y = []); [|rewrite EX, EY; reflexivity]] end.
  - apply flat_map_nil_iff. intros c1 Hc1. apply in_map_iff in Hc1. destruct Hc1 as [k [E Hk]]. subst c1.
    destruct (in_split k cks Hk) as [pre [suf ES]].
    assert (K := proj1 (forallb_forall _ _) H1 k Hk). cbv beta in K.
    apply andb_true_iff in K. destruct K as [K K3]. apply andb_true_iff in K. destruct K as [K1 K2].
    assert (F : find (check_compare_to (check_compare None) (inspect_check k)) cks = Some k).
    { rewrite ES. apply find_split; [|exact K2]. rewrite ES in H2. apply (no_cross_split pre k suf H2). }
    rewrite F, K1. reflexivity.
  - apply flat_map_nil_iff. intros k Hk.
    assert (K := proj1 (forallb_forall _ _) H1 k Hk). cbv beta in K.
    apply andb_true_iff in K. destruct K as [K K3].
    assert (E : existsb (check_compare_to (check_compare None) k) (map inspect_check cks) = true).
    { apply existsb_exists. exists (inspect_check k). split; [apply in_map; exact Hk|exact K3]. }
    rewrite E. reflexivity.
Qed.

(** ** foreign keys *)
Definition insp_fk (f : fkey) : fkey :=
  mkFk (f_symbol f) (f_cols f) (f_reftable f) (f_refcols f) (action (f_onupdate f)) (action (f_ondelete f)).

Definition shape_eqb (f g : fkey) : bool :=
  strs_eqb (f_cols f) (f_cols g) && str_eqb (f_reftable f) (f_reftable g) && strs_eqb (f_refcols f) (f_refcols g).

(** the state of [fillConstName]: every key of the list with the symbol it carries so far *)
Definition ent (e : fkey * str) : fkey := set_f_symbol (insp_fk (fst e)) (snd e).

Fixpoint mark (d : fkey) (st : list (fkey * str)) : list (fkey * str) :=
  match st with
  | [] => []
  | (f, s) :: st' => if shape_eqb f d then (f, f_symbol d) :: st' else (f, s) :: mark d st'
  end.

Lemma name_first_ent d st : name_first (map ent st) d = map ent (mark d st).
Proof.
  induction st as [|[f s] st IH]; simpl; [reflexivity|].
  unfold match_fk. cbn [ent fst snd set_f_symbol insp_fk f_cols f_reftable f_refcols].
  change (strs_eqb (f_cols f) (f_cols d) && str_eqb (f_reftable f) (f_reftable d) && strs_eqb (f_refcols f) (f_refcols d))
    with (shape_eqb f d).
  destruct (shape_eqb f d); simpl; [reflexivity|]. rewrite IH. reflexivity.
Qed.

Lemma mark_fst d st : map fst (mark d st) = map fst st.
Proof.
  induction st as [|[f s] st IH]; simpl; [reflexivity|]. destruct (shape_eqb f d); simpl; [reflexivity|]. rewrite IH. reflexivity.
Qed.

Fixpoint numbered (l : list fkey) (k : N) : list (fkey * str) :=
  match l with [] => [] | f :: l' => (f, itoa k) :: numbered l' (k + 1) end.

Lemma fk_ids_numbered l k : fk_ids l k = map ent (numbered l k).
Proof. revert k. induction l as [|f l IH]; intros k; simpl; [reflexivity|]. rewrite IH. reflexivity. Qed.

Lemma numbered_fst l k : map fst (numbered l k) = l.
Proof. revert k. induction l as [|f l IH]; intros k; simpl; [reflexivity|]. rewrite IH. reflexivity. Qed.

Definition shape_inj (l : list fkey) : Prop := forall f g, In f l -> In g l -> shape_eqb f g = true -> f = g.

(** after all named declarations have been matched, every key carries its own symbol *)
Lemma marks_final decls : forall st,
  (forall d, In d decls -> word_name (f_symbol d) = true) ->
  NoDup (map fst st) -> shape_inj (map fst st) -> NoDup decls ->
  (forall d, In d decls -> In d (map fst st)) ->
  (forall e, In e st -> snd e = f_symbol (fst e) \/ In (fst e) decls) ->
  fold_left (fun l decl => if word_name (f_symbol decl) then name_first l decl else l) decls (map ent st)
  = map (fun f => insp_fk f) (map fst st).
Proof.
  induction decls as [|d decls IH]; intros st HN ND SI NDD HIN HINV.
  - simpl. rewrite map_map. apply map_ext_in. intros [f s] He. destruct (HINV _ He) as [E|[]]. simpl in E.
    unfold ent. simpl. rewrite E. destruct f; reflexivity.
  - cbn [fold_left]. rewrite (HN d (or_introl eq_refl)).
    rewrite name_first_ent. rewrite <- (mark_fst d st).
    inversion NDD as [|x xs Hx Hxs]; subst.
    apply IH.
    + intros d' Hd'. apply HN. right. exact Hd'.
    + rewrite mark_fst. exact ND.
    + rewrite mark_fst. exact SI.
    + exact Hxs.
    + intros d' Hd'. rewrite mark_fst. apply HIN. right. exact Hd'.
    + (* the invariant *)
      assert (Hd : In d (map fst st)) by (apply HIN; left; reflexivity).
      clear IH. revert ND SI Hd HINV. clear -Hx. induction st as [|[f s] st IHs]; intros ND SI Hd HINV e He; [destruct He|].
      simpl in He. destruct (shape_eqb f d) eqn:SH.
      * assert (f = d) by (apply SI; [left; reflexivity|exact Hd|exact SH]). subst f.
        destruct He as [<-|He].
        -- left. reflexivity.
        -- destruct (HINV e (or_intror He)) as [E|[E|E]]; [left; exact E| |right; exact E].
           exfalso. simpl in ND. inversion ND as [|y ys Hy Hys]. apply Hy. rewrite E. apply in_map. exact He.
      * destruct He as [<-|He].
        -- destruct (HINV (f, s) (or_introl eq_refl)) as [E|[E|E]]; [left; exact E| |right; exact E].
           simpl in E. subst f. exfalso.
           assert (X : shape_eqb d d = true).
           { unfold shape_eqb. rewrite str_eqb_refl. assert (R : forall l, strs_eqb l l = true) by (induction l; simpl; [reflexivity|rewrite str_eqb_refl; assumption]).
             rewrite !R. reflexivity. }
           congruence.
        -- simpl in ND. inversion ND as [|y ys Hy Hys]. apply (IHs Hys).
           ++ intros a b Ha Hb. apply SI; right; assumption.
           ++ simpl in Hd. destruct Hd as [Hd|Hd]; [|exact Hd]. subst f. exfalso.
              assert (X : shape_eqb d d = true).
              { unfold shape_eqb. rewrite str_eqb_refl. assert (R : forall l, strs_eqb l l = true) by (induction l; simpl; [reflexivity|rewrite str_eqb_refl; assumption]).
                rewrite !R. reflexivity. }
              congruence.
           ++ intros e' He'. apply HINV. right. exact He'.
           ++ exact He.
Qed.

Fixpoint no_same_shape (l : list fkey) : bool :=
  match l with
  | [] => true
  | f :: l' => forallb (fun g => negb (shape_eqb f g) && negb (shape_eqb g f)) l' && no_same_shape l'
  end.

Lemma no_same_shape_inj l : no_same_shape l = true -> shape_inj l.
Proof.
  induction l as [|a l IH]; intros H f g Hf Hg E; [destruct Hf|].
  simpl in H. apply andb_true_iff in H. destruct H as [H1 H2].
  destruct Hf as [<-|Hf], Hg as [<-|Hg].
  - reflexivity.
  - assert (X := proj1 (forallb_forall _ _) H1 g Hg). cbv beta in X. rewrite E in X. discriminate.
  - assert (X := proj1 (forallb_forall _ _) H1 f Hf). cbv beta in X. rewrite E, andb_false_r in X. discriminate.
  - apply IH; assumption.
Qed.

(** named with names in \w+ (others are inspected as unnamed), distinct names that are not numbers, distinct shapes *)
Definition fks_syntactic (fks : list fkey) : bool :=
  forallb (fun f => word_name (f_symbol f) && negb (is_uint (f_symbol f))) fks
  && nodup_strs (map f_symbol fks) && no_same_shape fks.

Lemma NoDup_of_map {A B} (f : A -> B) l : NoDup (map f l) -> NoDup l.
Proof.
  induction l as [|a l IH]; simpl; intros H; [constructor|]. inversion H; subst. constructor; [|apply IH; assumption].
  intros X. apply H2. apply in_map. exact X.
Qed.

Lemma inspect_fks_char (t : table) :
  fks_syntactic (t_fks t) = true -> inspect_fks t = map insp_fk (rev (t_fks t)).
Proof.
  unfold fks_syntactic. intros H. apply andb_true_iff in H. destruct H as [H H3]. apply andb_true_iff in H. destruct H as [H1 H2].
  assert (NDS : NoDup (map f_symbol (t_fks t))) by (apply nodup_strs_NoDup; exact H2).
  assert (ND : NoDup (t_fks t)) by (eapply NoDup_of_map; eauto).
  assert (SI := no_same_shape_inj _ H3).
  unfold inspect_fks. rewrite fk_ids_numbered.
  rewrite (marks_final (t_fks t) (numbered (rev (t_fks t)) 0)).
  - rewrite numbered_fst. reflexivity.
  - intros d Hd. assert (X := proj1 (forallb_forall _ _) H1 d Hd). cbv beta in X. apply andb_true_iff in X. exact (proj1 X).
  - rewrite numbered_fst. apply NoDup_rev. exact ND.
  - rewrite numbered_fst. intros f g Hf Hg. apply SI; apply in_rev; assumption.
  - exact ND.
  - intros d Hd. rewrite numbered_fst. apply in_rev. rewrite rev_involutive. exact Hd.
  - intros e He. right. apply in_rev. rewrite <- (numbered_fst (rev (t_fks t)) 0). apply in_map. exact He.
Qed.

Lemma names_differ_false_eq a b : length a = length b -> names_differ a b = false -> strs_eqb a b = true.
Proof.
  revert b. induction a as [|x a IH]; intros [|y b] HL H; simpl in *; try reflexivity; try discriminate.
  apply orb_false_iff in H. destruct H as [H1 H2]. apply negb_false_iff in H1. rewrite H1. apply IH; [congruence|exact H2].
Qed.

Lemma reference_changed_action a : sqlite_reference_changed (action a) a = false.
Proof. destruct a as [|c r]; unfold action, sqlite_reference_changed; [reflexivity|]. rewrite str_eqb_refl. reflexivity. Qed.

Lemma fk_change_insp f : fk_change sqlite_driver (insp_fk f) f = 0%N.
Proof.
  unfold fk_change. cbn [insp_fk f_reftable f_refcols f_cols f_onupdate f_ondelete dd_reference_changed dd_fk_attr_changed sqlite_driver].
  rewrite str_eqb_refl, !Nat.eqb_refl, !names_differ_refl, !reference_changed_action. reflexivity.
Qed.

Lemma fk_round_trip (t : table) :
  fks_syntactic (t_fks t) = true -> fk_part (t_name t) (inspect_fks t) (t_fks t) = [].
Proof.
  intros H. rewrite (inspect_fks_char t H).
  unfold fks_syntactic in H. apply andb_true_iff in H. destruct H as [H H3]. apply andb_true_iff in H. destruct H as [H1 H2].
  assert (NDS : NoDup (map f_symbol (t_fks t))) by (apply nodup_strs_NoDup; exact H2).
  assert (SI := no_same_shape_inj _ H3).
  set (fks := t_fks t) in *. set (afks := map insp_fk (rev fks)).
  assert (ST : fk_stable (t_name t) (t_name t) afks fks).
  { intros fk1 fk2 Hf1 Hf2 SF. unfold afks in Hf1. apply in_map_iff in Hf1. destruct Hf1 as [f [E Hf]]. subst fk1.
    apply in_rev in Hf. cbn [insp_fk f_symbol].
    assert (X : shape_eqb f fk2 = true).
    { unfold same_fk in SF. cbn [insp_fk f_reftable f_cols f_refcols] in SF.
      rewrite str_eqb_refl in SF. cbn [negb orb] in SF.
      destruct (negb (str_eqb (f_reftable f) (f_reftable fk2))) eqn:E1; [discriminate|].
      destruct (negb (Nat.eqb (length (f_cols f)) (length (f_cols fk2)))) eqn:E2; [discriminate|].
      destruct (negb (Nat.eqb (length (f_refcols f)) (length (f_refcols fk2)))) eqn:E3; [discriminate|].
      cbn [orb] in SF. apply andb_true_iff in SF. destruct SF as [S1 S2].
      apply negb_true_iff in S1, S2. apply negb_false_iff in E1, E2, E3. apply Nat.eqb_eq in E2, E3.
      unfold shape_eqb. rewrite E1, (names_differ_false_eq _ _ E2 S1), (names_differ_false_eq _ _ E3 S2). reflexivity. }
    rewrite (SI f fk2 Hf Hf2 X). reflexivity. }
  unfold fk_part, fk_diff. cbn [t_fks]. rewrite (normalize_fks_stable _ _ _ _ _ ST). rewrite add_or_skip_no_skip.
  match goal with |- ?X ++ ?Y = [] => assert (EX : X = []); [|assert (EY : Y = []); [|rewrite EX, EY; reflexivity]] end.
  - apply flat_map_nil_iff. intros fk1 Hf1. unfold afks in Hf1. apply in_map_iff in Hf1. destruct Hf1 as [f [E Hf]]. subst fk1.
    apply in_rev in Hf. cbn [insp_fk f_symbol].
    change (find_fk (f_symbol f) fks) with (kfind f_symbol (f_symbol f) fks).
    rewrite (kfind_nodup f_symbol fks f NDS Hf). fold (insp_fk f). rewrite fk_change_insp. reflexivity.
  - apply flat_map_nil_iff. intros f Hf.
    assert (X : kfind f_symbol (f_symbol (insp_fk f)) afks <> None).
    { apply (kfind_in_some f_symbol). unfold afks. apply in_map. apply in_rev. rewrite rev_involutive. exact Hf. }
    cbn [insp_fk f_symbol] in X. unfold find_fk. unfold kfind in X.
    destruct (find (fun f0 => str_eqb (f_symbol f0) (f_symbol f)) afks); [reflexivity|congruence].
Qed.

(** ** a desired table, syntactically *)
Lemma table_checks_pk x pk : table_checks x [] = Ok pk -> effective_pk x = Ok pk.
Proof.
  unfold table_checks. destruct (t_idx (x_t x)); [|discriminate].
  destruct (negb (nodup_strs _)); [discriminate|]. destruct (negb (existsb _ _)); [discriminate|].
  destruct (first_err (column_def_ok (x_t x)) _); [|discriminate].
  destruct (effective_pk x) as [p|]; [|discriminate].
  match goal with |- (match ?X with _ => _ end) = _ -> _ => destruct X; [|discriminate] end.
  destruct (first_err (fk_def_ok (x_t x)) _); [|discriminate]. destruct (first_err check_def_ok _); [|discriminate].
  simpl. intros H. inversion H. reflexivity.
Qed.

(** the feature list of one desired table:
    - CREATE TABLE accepts it ([new_ctable]: distinct column names, a stored column, printable types and
      defaults, STRICT types, generated columns without DEFAULT, key over existing stored columns, ...);
    - its primary key is the one CREATE TABLE declares, over columns, ascending, in column order;
    - every column's default / generated expression and every index survive print + inspect
      ([colchg], [index_change]: closed computations on the column / index alone);
    - indexes: distinct names, none named like an autoindex, definitions accepted by CREATE INDEX;
    - checks: each equal to its wrapped form up to MayWrap, no two matching each other;
    - foreign keys: named, distinct non-numeric names, distinct shapes. *)
(** the primary key CREATE TABLE declares is the desired one: no AUTOINCREMENT column, or the key is that column *)
Definition pk_decl_b (bx : xtable) : bool :=
  match filter (fun c => has_autoinc bx (c_name c)) (t_cols (x_t bx)) with
  | [] => true
  | _ => match t_pk (x_t bx) with Some pk => autoincPK bx pk | None => false end
  end.

Lemma effective_pk_decl bx pk' : pk_decl_b bx = true -> effective_pk (strip_idx bx) = Ok pk' -> pk' = t_pk (x_t bx).
Proof.
  unfold pk_decl_b, effective_pk. intros H E.
  change (has_autoinc (strip_idx bx)) with (has_autoinc bx) in E.
  change (t_cols (x_t (strip_idx bx))) with (t_cols (x_t bx)) in E.
  change (t_pk (x_t (strip_idx bx))) with (t_pk (x_t bx)) in E.
  change (t_without_rowid (x_t (strip_idx bx))) with (t_without_rowid (x_t bx)) in E.
  destruct (filter (fun c => has_autoinc bx (c_name c)) (t_cols (x_t bx))) as [|c [|c2 l]].
  - inversion E. reflexivity.
  - destruct (t_without_rowid (x_t bx) || negb (str_eqb (to_upper (c_T c)) T_INTEGER)); [discriminate|].
    destruct (t_pk (x_t bx)) as [pk|]; [|discriminate].
    change (autoincPK (strip_idx bx) pk) with (autoincPK bx pk) in E. rewrite H in E. inversion E. reflexivity.
  - discriminate.
Qed.

Definition desired_syntactic_b (bx : xtable) : bool :=
  let b := x_t bx in
  match new_ctable (strip_idx bx) [] with
  | Ok ct0 =>
      forallb (column_ok bx) (t_cols b)
      && forallb (fun i => match has_prefix SQLITE_AUTOINDEX (i_name i) with None => true | Some _ => false end) (t_idx b)
      && nodup_strs (map i_name (t_idx b))
      && forallb (fun i => match index_def_ok b i with Ok _ => true | Err _ => false end) (t_idx b)
      && checks_syntactic (t_checks b)
      && forallb (fun cb => match colchg (inspect_column cb) cb with Some 0%N => true | _ => false end) (t_cols b)
      && (pk_decl_b bx && pk_syntactic (t_cols b) (t_pk b))
      && forallb (fun ib => N.eqb (index_change sqlite_driver (inspect_index ib) ib) 0) (t_idx b)
      && fks_syntactic (t_fks b)
  | Err _ => false
  end.

Theorem desired_ok_syntactic bx : desired_syntactic_b bx = true -> desired_ok bx.
Proof.
  intros H. apply desired_ok_by_parts. unfold desired_syntactic_b in H. unfold desired_parts_b.
  destruct (new_ctable (strip_idx bx) []) as [ct0|] eqn:HC; [|discriminate].
  destruct (new_ctable_shape _ _ HC) as [pk' [EP [E0 ER]]].
  repeat (apply andb_true_iff in H; destruct H as [H ?]).
  match goal with X : pk_decl_b bx && pk_syntactic _ _ = true |- _ => apply andb_true_iff in X; destruct X as [PD PS] end.
  assert (EPK : pk' = t_pk (x_t bx)) by (apply (effective_pk_decl bx pk' PD); apply table_checks_pk; exact EP).
  repeat (apply andb_true_iff; split); try assumption.
  - rewrite checks_round_trip; [reflexivity|assumption].
  - rewrite E0. cbn [ct_t entry_of ct_x x_t set_x_t strip_idx].
    rewrite (pk_round_trip _ (t_pk (x_t bx))); [reflexivity| |].
    + cbn [t_pk]. exact EPK.
    + cbn [t_cols set_t_idx]. exact PS.
  - rewrite fk_round_trip; [reflexivity|assumption].
Qed.
