(** C03 round 5b: the SQL export path of the CLI as a whole.
    cmd/atlas/internal/cmdlog.sqlInspect = fmtPlan(ChangesToRealm(client, realm)):
    cmd/atlas/internal/migrate.ChangesToRealm walks Realm.Schemas in order; per schema: an AddSchema when the
    client is not bound to a schema (c.URL.Schema == ""), then one AddTable per table of Schema.Tables, in
    order (objects, views, triggers, funcs, procs: the OSS SQLite inspector returns none).  The SQLite URL
    opener always sets URL.Schema = "main" (sql/sqlite/driver.go), so [bound = true] for every SQLite client;
    the other branch is modelled because sqlite/migrate.go state.plan refuses it: "unsupported change
    *schema.AddSchema".  A change carries the *pointer* to its table, so -- unlike Sqlite/ExportDump.v, which
    looks a table up by name in the desired schema -- tables of different schemas may share a name here.
    The script is the sequence of objects created: sqlite/migrate.go addTable = CREATE TABLE (foreign keys
    inline), then addIndexes = one CREATE INDEX per index of T.Indexes with its normalised name. *)
From Coq Require Import List NArith Bool.
From Atlas Require Import Base.Bytes Diff.Schema Diff.DiffModel Diff.DiffSqlite Sqlite.PlanModel.
Import ListNotations.

Record rschema := mkRS { rs_name : str; rs_tables : xschema }.
Definition realm := list rschema.

Inductive rchange := RAddSchema (s : str) | RAddTable (s : str) (x : xtable).

(** cmd/atlas/internal/migrate.ChangesToRealm *)
Definition ChangesToRealm (bound : bool) (r : realm) : list rchange :=
  flat_map (fun s => (if bound then [] else [RAddSchema (rs_name s)]) ++ map (RAddTable (rs_name s)) (rs_tables s)) r.

(** sqlite/migrate.go state.plan over these changes *)
Fixpoint plan_realm (cs : list rchange) (acc : list pchange) : option (list pchange) :=
  match cs with
  | [] => Some acc
  | RAddSchema _ :: _ => None                         (* unsupported change *schema.AddSchema *)
  | RAddTable _ x :: cs' =>
      match addTable x with
      | Some r => plan_realm cs' (acc ++ r)
      | None => None
      end
  end.
(** cmdlog.sqlInspect: the planned changes (no table is dropped or rebuilt, so there is no PRAGMA bracket) *)
Definition sqlInspect (bound : bool) (r : realm) : option (list pchange) := plan_realm (ChangesToRealm bound r) [].

(** ** the objects a script creates, in order *)
Inductive obj :=
| OTable (n : str) (refs : list str)      (* CREATE TABLE n with REFERENCES to [refs] *)
| OIndex (i t : str)                      (* CREATE INDEX i ON t *)
| OOther.
Definition obj_of (c : pchange) : obj :=
  match pc_cmd c with
  | SCreateTable x _ => OTable (x_name x) (map f_reftable (t_fks (x_t x)))
  | SCreateIndex t i => OIndex (i_name i) t
  | _ => OOther
  end.
Definition objects (cs : list pchange) : list obj := map obj_of cs.

(** the specification: per table its CREATE TABLE, then its indexes under their normalised names *)
Fixpoint norm_names (t : table) (l : list index) : option (list str) :=
  match l with
  | [] => Some []
  | i :: l' =>
      match normalize_idx_name i t with
      | None => None
      | Some i' => match norm_names t l' with Some r => Some (i_name i' :: r) | None => None end
      end
  end.
Definition table_objs (x : xtable) : option (list obj) :=
  if negb (forallb (column_ok x) (t_cols (x_t x))) then None
  else match norm_names (x_t x) (t_idx (x_t x)) with
       | Some ns => Some (OTable (x_name x) (map f_reftable (t_fks (x_t x))) :: map (fun n => OIndex n (x_name x)) ns)
       | None => None
       end.
Fixpoint tables_objs (l : list xtable) : option (list obj) :=
  match l with
  | [] => Some []
  | x :: l' =>
      match table_objs x with
      | None => None
      | Some o => match tables_objs l' with Some r => Some (o ++ r) | None => None end
      end
  end.
Definition all_tables (r : realm) : list xtable := flat_map rs_tables r.
Definition script_spec (bound : bool) (r : realm) : option (list obj) :=
  if bound || match r with [] => true | _ => false end then tables_objs (all_tables r) else None.

(** ** SQLite's catalogue while the script runs: tables and indexes share one name space; an index needs
    its table; a REFERENCES clause needs nothing (parents are resolved when rows are written) *)
Record cat := mkCat { c_tables : list str; c_indexes : list str }.
Definition mem_str (n : str) (l : list str) : bool := existsb (str_eqb n) l.
Definition taken (n : str) (c : cat) : bool := mem_str n (c_tables c) || mem_str n (c_indexes c).
Definition step (strict : bool) (c : cat) (o : obj) : option cat :=
  match o with
  | OTable n refs =>
      if taken n c then None
      else if strict && negb (forallb (fun p => str_eqb p n || mem_str p (c_tables c)) refs) then None
      else Some (mkCat (c_tables c ++ [n]) (c_indexes c))
  | OIndex i t =>
      if taken i c || negb (mem_str t (c_tables c)) then None
      else Some (mkCat (c_tables c) (c_indexes c ++ [i]))
  | OOther => None
  end.
Fixpoint replay (strict : bool) (c : cat) (os : list obj) : option cat :=
  match os with
  | [] => Some c
  | o :: os' => match step strict c o with Some c' => replay strict c' os' | None => None end
  end.
Definition empty_cat : cat := mkCat [] [].

(** names an object list creates *)
Definition obj_names (os : list obj) : list str :=
  flat_map (fun o => match o with OTable n _ => [n] | OIndex i _ => [i] | OOther => [] end) os.

(** ** the tie: the real export's object sequence against the model on table skeletons.
    token per table: (name, referenced tables, indexes (name, origin, column names or None for an expression part)) *)
Definition skel_index (k : str * option str * option (list str)) : index :=
  match k with
  | (n, origin, cols) =>
      mkIndex n false
        (match cols with
         | Some cs => map (fun c => mkPart 1 false (Some c) None) cs
         | None => [mkPart 1 false None (Some [120]%N)]
         end) None None origin
  end.
Definition skel_table (k : str * list str * list (str * option str * option (list str))) : xtable :=
  match k with
  | (n, refs, idxs) =>
      mkX (mkTable n false false [mkColumn [99]%N 2%N [105;110;116]%N true None None None] None
             (map skel_index idxs) (map (fun r => mkFk [] [[99]%N] r [[105;100]%N] [] []) refs) []) []
  end.
Definition dump_script (bound : bool) (l : list (str * list str * list (str * option str * option (list str))))
  : option (list obj * bool) :=
  match sqlInspect bound [mkRS [109;97;105;110]%N (map skel_table l)] with
  | Some cs =>
      let os := objects cs in
      Some (os, match replay false empty_cat os with Some _ => true | None => false end)
  | None => None
  end.
