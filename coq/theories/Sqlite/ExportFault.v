(** C03, disturbed inspections.  [schema inspect] reads the catalogue with a sequence of statements:
    the schema list, the table list (with the CREATE text), and per table pragma_table_xinfo, the index
    list, one index-info statement per index, the foreign-key list.  Any of them can fail ("database is
    locked").  Contract: the inspection is a function of the catalogue WHEN EVERY READ SUCCEEDS; a
    failing read makes the inspection fail -- it never returns a smaller schema.

    The inspector is modelled as a program over reads ([prog]): the only way to continue after a read
    is with its answer; there is no operator that catches a failure.  [run] executes a program against
    a catalogue with a fault plan (which reads fail).  [run_spec]: the result is an error iff one of
    the reads the undisturbed run performs is hit, and the undisturbed value otherwise.
    [inspect_prog] is the SQLite inspection in that form; undisturbed it computes [inspect d]
    (Sqlite/InspectModel.v, the shared model). *)
From Coq Require Import List NArith Bool Arith Lia.
From Atlas Require Import Base.Bytes Diff.Schema Sqlite.PlanModel Sqlite.EngineModel Sqlite.InspectModel.
Import ListNotations.

Section Prog.
Variables Q A : Type.

Inductive prog (R : Type) : Type :=
| Ret (r : R)
| Read (q : Q) (k : A -> prog R).
Arguments Ret {R} r.
Arguments Read {R} q k.

Fixpoint bind {R S : Type} (p : prog R) (f : R -> prog S) : prog S :=
  match p with
  | Ret r => f r
  | Read q k => Read q (fun a => bind (k a) f)
  end.

Variable cat : Q -> A.

(** the undisturbed value and the number of reads of the undisturbed run *)
Fixpoint eval {R : Type} (p : prog R) : R :=
  match p with Ret r => r | Read q k => eval (k (cat q)) end.
Fixpoint reads {R : Type} (p : prog R) : nat :=
  match p with Ret _ => 0 | Read q k => S (reads (k (cat q))) end.

(** [fault m] = the m-th read of the process fails; [n] = reads done so far *)
Fixpoint run {R : Type} (fault : nat -> bool) (n : nat) (p : prog R) : option R :=
  match p with
  | Ret r => Some r
  | Read q k => if fault n then None else run fault (S n) (k (cat q))
  end.

Lemma eval_bind {R S : Type} (p : prog R) (f : R -> prog S) : eval (bind p f) = eval (f (eval p)).
Proof. induction p as [r|q k IH]; cbn; [reflexivity|apply IH]. Qed.

Lemma reads_bind {R S : Type} (p : prog R) (f : R -> prog S) :
  reads (bind p f) = reads p + reads (f (eval p)).
Proof. induction p as [r|q k IH]; cbn; [reflexivity|rewrite IH; reflexivity]. Qed.

Theorem run_spec {R : Type} (p : prog R) : forall fault n,
  run fault n p = if existsb fault (seq n (reads p)) then None else Some (eval p).
Proof.
  induction p as [r|q k IH]; intros fault n; cbn; [reflexivity|].
  destruct (fault n); cbn; [reflexivity|apply IH].
Qed.

Corollary run_undisturbed {R : Type} (p : prog R) n : run (fun _ => false) n p = Some (eval p).
Proof.
  rewrite run_spec. replace (existsb (fun _ => false) (seq n (reads p))) with false; [reflexivity|].
  generalize (seq n (reads p)). induction l; cbn; auto.
Qed.

Corollary run_fails_or_same {R : Type} (p : prog R) fault n :
  run fault n p = None \/ run fault n p = Some (eval p).
Proof. rewrite run_spec. destruct (existsb _ _); auto. Qed.

Corollary run_fault_detected {R : Type} (p : prog R) fault n k :
  k < reads p -> fault (n + k) = true -> run fault n p = None.
Proof.
  intros Hk Hf. rewrite run_spec.
  replace (existsb fault (seq n (reads p))) with true; [reflexivity|].
  symmetry. apply existsb_exists. exists (n + k). split; [|exact Hf].
  apply in_seq. lia.
Qed.
End Prog.

Arguments Ret {Q A R} r.
Arguments Read {Q A R} q k.

(** ** the SQLite inspection as a program over reads *)
Inductive query :=
| QSchemas                      (* pragma_database_list *)
| QTables                       (* sqlite_master JOIN pragma_table_list: names, CREATE text, wr, strict *)
| QColumns (i : nat)            (* pragma_table_xinfo of the i-th table (+ what is recovered from its CREATE text) *)
| QIndexes (i : nat)            (* pragma_index_list JOIN sqlite_master *)
| QIndexInfo (i j : nat)        (* pragma_index_xinfo of the j-th index of the i-th table *)
| QFks (i : nat).               (* pragma_foreign_key_list *)

Inductive answer :=
| ANone
| ACount (n : nat)
| ATable (x : xtable)           (* the facts of one table as the inspector reads them *)
| AIndex (ix : index).

Definition dflt_t : table := mkTable [] false false [] None [] [] [].
Definition dflt_x : xtable := mkX dflt_t [].
Definition dflt_i : index := match t_pk dflt_t with Some i => i | None =>
  nth 0 (t_idx dflt_t) (mkIndex [] false [] None None None) end.

Definition count_of (a : answer) : nat := match a with ACount n => n | _ => 0 end.
Definition table_of (a : answer) : xtable := match a with ATable x => x | _ => dflt_x end.
Definition index_of (a : answer) : index := match a with AIndex i => i | _ => dflt_i end.

Definition P := prog query answer.

Fixpoint each {R : Type} (is : list nat) (f : nat -> P R) : P (list R) :=
  match is with
  | [] => Ret []
  | i :: is' => bind _ _ (f i) (fun x => bind _ _ (each is' f) (fun r => Ret (x :: r)))
  end.

(** inspect.go: columns, indexes (list, then indexInfo per index), fks -- per table *)
Definition table_prog (i : nat) : P xtable :=
  Read (QColumns i) (fun ac =>
  Read (QIndexes i) (fun ai =>
  bind _ _ (each (seq 0 (count_of ai)) (fun j => Read (QIndexInfo i j) (fun a => Ret (index_of a)))) (fun idxs =>
  Read (QFks i) (fun af =>
  let c := x_t (table_of ac) in
  Ret (mkX (mkTable (t_name c) (t_without_rowid c) (t_strict c) (t_cols c) (t_pk c) idxs
                    (t_fks (x_t (table_of af))) (t_checks c))
           (x_autoinc (table_of ac))))))).

(** InspectSchema: schemas, tables, then every table *)
Definition inspect_prog : P xschema :=
  Read QSchemas (fun _ => Read QTables (fun a => each (seq 0 (count_of a)) table_prog)).

(** the catalogue of a database, as the statements report it *)
Definition cat_of (d : db) (q : query) : answer :=
  let S := inspect d in
  match q with
  | QSchemas => ANone
  | QTables => ACount (length S)
  | QColumns i | QFks i => ATable (nth i S dflt_x)
  | QIndexes i => ACount (length (t_idx (x_t (nth i S dflt_x))))
  | QIndexInfo i j => AIndex (nth j (t_idx (x_t (nth i S dflt_x))) dflt_i)
  end.

Lemma map_nth_seq {T : Type} (l : list T) (d : T) : map (fun j => nth j l d) (seq 0 (length l)) = l.
Proof.
  induction l as [|x l IH]; [reflexivity|].
  cbn [length seq map nth]. f_equal. rewrite <- seq_shift, map_map. exact IH.
Qed.

Lemma eval_each {R : Type} cat (is : list nat) (f : nat -> P R) :
  eval _ _ cat (each is f) = map (fun i => eval _ _ cat (f i)) is.
Proof.
  induction is as [|i is IH]; [reflexivity|].
  cbn [each map]. rewrite eval_bind, eval_bind. cbn [eval]. rewrite IH. reflexivity.
Qed.

Lemma eval_table_prog d i : eval _ _ (cat_of d) (table_prog i) = nth i (inspect d) dflt_x.
Proof.
  unfold table_prog. cbn [eval]. rewrite eval_bind. rewrite eval_each. cbn [eval].
  cbn [cat_of count_of table_of index_of].
  rewrite (map_nth_seq (t_idx (x_t (nth i (inspect d) dflt_x))) dflt_i).
  destruct (nth i (inspect d) dflt_x) as [t ai]. destruct t. reflexivity.
Qed.

Theorem inspect_prog_eval d : eval _ _ (cat_of d) inspect_prog = inspect d.
Proof.
  unfold inspect_prog. cbn [eval]. etransitivity; [apply eval_each|]. cbn [cat_of count_of].
  rewrite (map_ext _ (fun i => nth i (inspect d) dflt_x) (eval_table_prog d)).
  apply map_nth_seq.
Qed.

(** a disturbed inspection fails, or is the undisturbed one *)
Theorem inspect_disturbed d fault :
  run _ _ (cat_of d) fault 0 inspect_prog =
  if existsb fault (seq 0 (reads _ _ (cat_of d) inspect_prog)) then None else Some (inspect d).
Proof. rewrite run_spec, inspect_prog_eval. reflexivity. Qed.

(** ** the tie: catalogue skeleton = number of indexes per table *)
Definition cat_skel (counts : list nat) (q : query) : answer :=
  match q with
  | QSchemas => ANone
  | QTables => ACount (length counts)
  | QColumns _ | QFks _ => ATable dflt_x
  | QIndexes i => ACount (nth i counts 0)
  | QIndexInfo _ _ => AIndex dflt_i
  end.

(** number of statements of the undisturbed inspection, and for each of them: does the inspection
    fail when exactly that statement fails? *)
Definition fault_outcomes (counts : list nat) : nat * list bool :=
  let n := reads _ _ (cat_skel counts) inspect_prog in
  (n, map (fun k => match run _ _ (cat_skel counts) (Nat.eqb k) 0 inspect_prog with None => true | Some _ => false end)
          (seq 0 n)).

Lemma fault_outcomes_all_fail counts : Forall (fun b => b = true) (snd (fault_outcomes counts)).
Proof.
  unfold fault_outcomes. cbn [snd]. apply Forall_forall. intros b Hb.
  apply in_map_iff in Hb. destruct Hb as (k & <- & Hk). apply in_seq in Hk.
  rewrite (run_fault_detected _ _ (cat_skel counts) inspect_prog (Nat.eqb k) 0 k); [reflexivity|lia|].
  cbn. apply Nat.eqb_refl.
Qed.

Example fault_outcomes_ex : fst (fault_outcomes [3; 0]) = 11.
Proof. vm_compute. reflexivity. Qed.

(** ** result sets that break off (row-level faults)
    A statement's answer arrives row by row; the engine may report an error after [j] rows
    ([break = Some j]; SQLite reports "database is locked" from the first step, j = 0, not from the
    query call).  database/sql ends the [for rows.Next()] loop in both cases and keeps the error in
    [rows.Err()]. *)
Definition next_loop {T : Type} (rows : list T) (break : option nat) : list T * bool :=
  match break with
  | None => (rows, false)
  | Some j => (firstn j rows, true)
  end.
(** sql/sqlite/inspect.go since fix C03-rows-err: every loop is followed by
    [if err := rows.Err(); err != nil { return err }] *)
Definition read_rows_checked {T : Type} (rows : list T) (break : option nat) : option (list T) :=
  let (l, e) := next_loop rows break in if e then None else Some l.
(** the loops before the fix: no look at [rows.Err()] *)
Definition read_rows_unchecked_old {T : Type} (rows : list T) (break : option nat) : option (list T) :=
  Some (fst (next_loop rows break)).

(** the checked loop is a read that either fails or delivers everything: exactly [Read] of [prog] *)
Lemma read_rows_checked_spec {T : Type} (rows : list T) break :
  read_rows_checked rows break = match break with Some _ => None | None => Some rows end.
Proof. destruct break; reflexivity. Qed.

Lemma read_rows_checked_fails_or_same {T : Type} (rows : list T) break :
  read_rows_checked rows break = None \/ read_rows_checked rows break = Some rows.
Proof. destruct break; cbn; auto. Qed.

(** the old loop: a locked table-list statement read as "no tables" (finding C03-rows-err-unchecked, fixed) *)
Lemma read_rows_unchecked_old_refuted {T : Type} (x : T) (rows : list T) :
  read_rows_unchecked_old (x :: rows) (Some 0) = Some [] /\
  read_rows_unchecked_old (x :: rows) (Some 0) <> None /\
  read_rows_unchecked_old (x :: rows) (Some 0) <> Some (x :: rows).
Proof. cbn. split; [reflexivity|]. split; discriminate. Qed.

(** a plan of row-level faults: [rf n = Some j] = the n-th statement of the process breaks off after j
    rows (j = 0: at its first step; a failure of the query call itself is the case "before any row").
    With checked loops a statement that breaks off is a failed read, whatever [j]. *)
Definition run_rows {Q A R : Type} (cat : Q -> A) (rf : nat -> option nat) (n : nat) (p : prog Q A R) : option R :=
  run Q A cat (fun m => match rf m with Some _ => true | None => false end) n p.

Theorem inspect_disturbed_rows d rf :
  run_rows (cat_of d) rf 0 inspect_prog =
  if existsb (fun m => match rf m with Some _ => true | None => false end)
             (seq 0 (reads _ _ (cat_of d) inspect_prog))
  then None else Some (inspect d).
Proof. unfold run_rows. apply inspect_disturbed. Qed.
