(** C01: what the abstract engine does with the statement groups the planner emits
    (CREATE TABLE + CREATE INDEX; DROP TABLE; the rebuild group; the ALTER group), on databases
    without rows and without inline UNIQUE constraints. *)
From Coq Require Import List NArith ZArith Bool Arith Lia.
From Atlas Require Import Base.Bytes Diff.Schema Diff.DiffModel Diff.DiffSqlite Diff.DiffProofs Diff.DiffSqliteProofs
  Sqlite.PlanModel Sqlite.EngineModel Sqlite.InspectModel Sqlite.ConvergeDefs Sqlite.ConvergeTable.
Import ListNotations.

(** ** lookups in the catalogue *)
Lemma all_names_app l1 l2 : all_names (l1 ++ l2) = all_names l1 ++ all_names l2.
Proof. unfold all_names. apply flat_map_app. Qed.

Lemma name_used_false n l : name_used n l = false <-> ~ In n (all_names l).
Proof.
  unfold name_used. split; intros H.
  - intros Hin. assert (E : existsb (str_eqb n) (all_names l) = true).
    { apply existsb_exists. exists n. split; [exact Hin|apply str_eqb_refl]. }
    congruence.
  - destruct (existsb (str_eqb n) (all_names l)) eqn:E; [|reflexivity].
    apply existsb_exists in E. destruct E as [x [Hx Ex]]. apply str_eqb_eq in Ex. subst x. contradiction.
Qed.

Lemma in_all_names_table ct l : In ct l -> In (ct_name ct) (all_names l).
Proof. intros H. unfold all_names. apply in_flat_map. exists ct. split; [exact H|left; reflexivity]. Qed.
Lemma in_all_names_index ct i l : In ct l -> In i (t_idx (ct_t ct)) -> In (i_name i) (all_names l).
Proof.
  intros H Hi. unfold all_names. apply in_flat_map. exists ct. split; [exact H|right; apply in_map; exact Hi].
Qed.

Lemma all_names_NoDup_tables l : NoDup (all_names l) -> NoDup (map ct_name l).
Proof.
  induction l as [|c l IH]; simpl; intros H; [constructor|].
  inversion H as [|x xs Hx Hxs]; subst. apply NoDup_app_r in Hxs. constructor; [|apply IH; exact Hxs].
  intros Hin. apply Hx. apply in_or_app. right. apply in_map_iff in Hin. destruct Hin as [c' [E Hc']].
  rewrite <- E. apply in_all_names_table. exact Hc'.
Qed.

Lemma find_ct_in n l ct : find_ct n l = Some ct -> In ct l /\ ct_name ct = n.
Proof.
  unfold find_ct. intros H. apply find_some in H. destruct H as [H1 H2]. split; [exact H1|apply str_eqb_eq; exact H2].
Qed.

Lemma find_ct_unique l ct : NoDup (map ct_name l) -> In ct l -> find_ct (ct_name ct) l = Some ct.
Proof.
  induction l as [|c l IH]; intros ND Hin; [destruct Hin|]. simpl in *.
  inversion ND as [|x xs Hx Hxs]; subst. unfold find_ct. simpl.
  destruct Hin as [->|Hin].
  - rewrite str_eqb_refl. reflexivity.
  - destruct (str_eqb (ct_name c) (ct_name ct)) eqn:E.
    + apply str_eqb_eq in E. exfalso. apply Hx. rewrite E. apply in_map. exact Hin.
    + apply IH; assumption.
Qed.

Lemma find_ct_none n l : find_ct n l = None <-> ~ In n (map ct_name l).
Proof.
  unfold find_ct. split.
  - intros H Hin. apply in_map_iff in Hin. destruct Hin as [c [E Hc]].
    apply (find_none _ _ H) in Hc. rewrite E, str_eqb_refl in Hc. discriminate.
  - intros H. destruct (find (fun c => str_eqb (ct_name c) n) l) as [c|] eqn:F; [|reflexivity].
    apply find_some in F. destruct F as [F1 F2]. apply str_eqb_eq in F2. exfalso. apply H. rewrite <- F2.
    apply in_map. exact F1.
Qed.

(** [update_ct] on a list with distinct table names *)
Lemma update_ct_in n f l ct' :
  NoDup (map ct_name l) ->
  In ct' (update_ct n f l) <->
  (exists ct, find_ct n l = Some ct /\ ct' = f ct) \/ (In ct' l /\ ct_name ct' <> n).
Proof.
  induction l as [|c l IH]; intros ND; simpl.
  - split; [intros []|intros [[ct [H _]]|[[] _]]; discriminate].
  - inversion ND as [|x xs Hx Hxs]; subst. unfold find_ct. simpl.
    destruct (str_eqb (ct_name c) n) eqn:E.
    + apply str_eqb_eq in E. simpl. split.
      * intros [<-|Hin]; [left; exists c; split; reflexivity|].
        right. split; [right; exact Hin|]. intros E2. apply Hx. rewrite E, <- E2. apply in_map. exact Hin.
      * intros [[ct [H1 H2]]|[[<-|Hin] Hne]]; [inversion H1; subst; left; reflexivity|congruence|right; exact Hin].
    + apply str_eqb_neq in E. simpl. rewrite (IH Hxs). unfold find_ct. split.
      * intros [<-|[H|[H1 H2]]]; [right; split; [left; reflexivity|exact E]|left; exact H|right; split; [right; exact H1|exact H2]].
      * intros [H|[[<-|H1] H2]]; [right; left; exact H|left; reflexivity|right; right; split; assumption].
Qed.

Lemma update_ct_names n f l :
  (forall c, ct_name (f c) = ct_name c) -> map ct_name (update_ct n f l) = map ct_name l.
Proof.
  intros H. induction l as [|c l IH]; simpl; [reflexivity|].
  destruct (str_eqb (ct_name c) n); simpl; [rewrite H; reflexivity|rewrite IH; reflexivity].
Qed.

Lemma remove_ct_in n l ct' :
  NoDup (map ct_name l) -> In ct' (remove_ct n l) <-> (In ct' l /\ ct_name ct' <> n).
Proof.
  induction l as [|c l IH]; intros ND; simpl; [tauto|].
  inversion ND as [|x xs Hx Hxs]; subst.
  destruct (str_eqb (ct_name c) n) eqn:E.
  - apply str_eqb_eq in E. split.
    + intros Hin. split; [right; exact Hin|]. intros E2. apply Hx. rewrite E, <- E2. apply in_map. exact Hin.
    + intros [[<-|Hin] Hne]; [congruence|exact Hin].
  - apply str_eqb_neq in E. simpl. rewrite (IH Hxs). split.
    + intros [<-|[H1 H2]]; [split; [left; reflexivity|exact E]|split; [right; exact H1|exact H2]].
    + intros [[<-|H1] H2]; [left; reflexivity|right; split; assumption].
Qed.

Lemma exec_all_app d l1 l2 :
  exec_all d (l1 ++ l2) = match exec_all d l1 with Ok d' => exec_all d' l2 | Err e => Err e end.
Proof.
  revert d. induction l1 as [|s l1 IH]; intros d; simpl; [reflexivity|].
  destruct (exec d s); [apply IH|reflexivity].
Qed.

(** ** names of the catalogue under the list operations *)
Definition ct_names (c : ctable) : list str := ct_name c :: map i_name (t_idx (ct_t c)).

Lemma all_names_flat l : all_names l = flat_map ct_names l.
Proof. reflexivity. Qed.

Lemma in_all_names x l : In x (all_names l) <-> exists c, In c l /\ In x (ct_names c).
Proof. unfold all_names. rewrite in_flat_map. reflexivity. Qed.

(** ** CREATE INDEX, several *)
Definition add_idx (l : list index) (c : ctable) : ctable := set_ct_t c (set_t_idx (ct_t c) (t_idx (ct_t c) ++ l)).

Lemma add_idx_name l c : ct_name (add_idx l c) = ct_name c.
Proof. reflexivity. Qed.
Lemma add_idx_nil c : add_idx [] c = c.
Proof. unfold add_idx. rewrite app_nil_r. destruct c as [[t a] u r]. destruct t. reflexivity. Qed.
Lemma add_idx_app l1 l2 c : add_idx l2 (add_idx l1 c) = add_idx (l1 ++ l2) c.
Proof. unfold add_idx. simpl. rewrite app_assoc. reflexivity. Qed.

Lemma first_err_ext {A} (f g : A -> result unit) l : (forall x, f x = g x) -> first_err f l = first_err g l.
Proof. intros H. induction l as [|a l IH]; simpl; [reflexivity|]. rewrite H, IH. reflexivity. Qed.

Lemma index_def_ok_cols t t' i : t_cols t = t_cols t' -> index_def_ok t i = index_def_ok t' i.
Proof.
  intros H. unfold index_def_ok. destruct (i_name i); [reflexivity|].
  destruct (reserved_name (n :: s)); [reflexivity|]. destruct (i_parts i) as [|p ps]; [reflexivity|].
  apply first_err_ext. intros q. unfold part_ok_b, has_col. rewrite H. reflexivity.
Qed.

Lemma update_ct_update n f g l :
  (forall c, ct_name (f c) = ct_name c) ->
  update_ct n g (update_ct n f l) = update_ct n (fun c => g (f c)) l.
Proof.
  intros H. induction l as [|c l IH]; simpl; [reflexivity|].
  destruct (str_eqb (ct_name c) n) eqn:E; simpl.
  - rewrite H, E. reflexivity.
  - rewrite E, IH. reflexivity.
Qed.

Lemma find_ct_update n f l ct :
  (forall c, ct_name (f c) = ct_name c) ->
  find_ct n l = Some ct -> find_ct n (update_ct n f l) = Some (f ct).
Proof.
  intros H. unfold find_ct. induction l as [|c l IH]; simpl; [discriminate|].
  destruct (str_eqb (ct_name c) n) eqn:E; simpl.
  - intros X. inversion X; subst. rewrite H, E. reflexivity.
  - rewrite E. exact IH.
Qed.

(** names after an update that only adds names to the updated table *)
Lemma all_names_update_in n f l x :
  (forall c, ct_name (f c) = ct_name c) ->
  In x (all_names (update_ct n f l)) ->
  In x (all_names l) \/ exists c, find_ct n l = Some c /\ In x (ct_names (f c)).
Proof.
  intros H. unfold find_ct. induction l as [|c l IH]; simpl; [tauto|].
  destruct (str_eqb (ct_name c) n) eqn:E; simpl.
  - intros [<-|Hin].
    + rewrite H. left. left. reflexivity.
    + apply in_app_or in Hin. destruct Hin as [Hin|Hin].
      * right. exists c. split; [reflexivity|]. right. exact Hin.
      * left. right. apply in_or_app. right. exact Hin.
  - intros [<-|Hin]; [left; left; reflexivity|].
    apply in_app_or in Hin. destruct Hin as [Hin|Hin]; [left; right; apply in_or_app; left; exact Hin|].
    destruct (IH Hin) as [X|X]; [left; right; apply in_or_app; right; exact X|right; exact X].
Qed.

Lemma exec_create_indexes n l : forall d ct,
  find_ct n (db_tables d) = Some ct -> ct_rows ct = [] ->
  (forall i, In i l -> index_def_ok (ct_t ct) i = Ok tt) ->
  NoDup (map i_name l) ->
  (forall i, In i l -> ~ In (i_name i) (all_names (db_tables d))) ->
  exec_all d (map (SCreateIndex n) l) = Ok (set_tables d (update_ct n (add_idx l) (db_tables d))).
Proof.
  induction l as [|i l IH]; intros d ct F R DOK ND FR.
  - simpl. f_equal. destruct d as [ts fk tx]. unfold set_tables. simpl. f_equal.
    clear -ts. induction ts as [|c ts IH]; simpl; [reflexivity|].
    destruct (str_eqb (ct_name c) n); [rewrite add_idx_nil; reflexivity|rewrite <- IH; reflexivity].
  - cbn [map exec_all exec]. unfold create_index. rewrite F.
    rewrite (DOK i (or_introl eq_refl)).
    assert (NU : name_used (i_name i) (db_tables d) = false).
    { apply name_used_false. apply FR. left. reflexivity. }
    rewrite NU. rewrite R.
    assert (DUP : (match i_unique i, i_pred i, part_col_names (i_parts i) with
                   | true, None, Some cols => has_dup_on cols []
                   | _, _, _ => false end) = false).
    { destruct (i_unique i), (i_pred i), (part_col_names (i_parts i)); reflexivity. }
    rewrite DUP.
    set (d1 := set_tables d (update_ct n (fun ct0 => set_ct_t ct0 (set_t_idx (ct_t ct0) (t_idx (ct_t ct0) ++ [i]))) (db_tables d))).
    inversion ND as [|x xs Hx Hxs]; subst.
    assert (F1 : find_ct n (db_tables d1) = Some (add_idx [i] ct)).
    { unfold d1. simpl. apply (find_ct_update n (add_idx [i]) _ ct); [reflexivity|exact F]. }
    rewrite (IH d1 (add_idx [i] ct) F1).
    + f_equal. unfold d1, set_tables. simpl. f_equal.
      rewrite (update_ct_update n (add_idx [i]) (add_idx l)); [|reflexivity].
      clear. induction (db_tables d) as [|c ts IH]; simpl; [reflexivity|].
      destruct (str_eqb (ct_name c) n); [rewrite add_idx_app; reflexivity|rewrite IH; reflexivity].
    + exact R.
    + intros j Hj. rewrite <- (DOK j (or_intror Hj)). apply index_def_ok_cols. reflexivity.
    + exact Hxs.
    + intros j Hj Hin. unfold d1 in Hin. simpl in Hin.
      apply (all_names_update_in n (add_idx [i])) in Hin; [|reflexivity].
      destruct Hin as [Hin|[c [Fc Hin]]].
      * apply (FR j (or_intror Hj)). exact Hin.
      * rewrite F in Fc. inversion Fc; subst c. simpl in Hin. destruct Hin as [Hin|Hin].
        -- change (ct_name (add_idx [i] ct)) with (ct_name ct) in Hin.
           apply (FR j (or_intror Hj)). rewrite <- Hin. apply find_ct_in in F. destruct F as [F2 _].
           apply in_all_names_table. exact F2.
        -- rewrite map_app in Hin. apply in_app_or in Hin. destruct Hin as [Hin|Hin].
           ++ apply (FR j (or_intror Hj)). apply find_ct_in in F. destruct F as [F2 _].
              apply in_map_iff in Hin. destruct Hin as [i0 [E0 Hi0]]. rewrite <- E0.
              eapply in_all_names_index; eauto.
           ++ simpl in Hin. destruct Hin as [Hin|[]]. apply Hx. rewrite Hin. apply in_map. exact Hj.
Qed.

Lemma find_app' {A} (f : A -> bool) l1 l2 :
  find f (l1 ++ l2) = match find f l1 with Some x => Some x | None => find f l2 end.
Proof. induction l1 as [|a l1 IH]; simpl; [reflexivity|]. destruct (f a); [reflexivity|exact IH]. Qed.

(** ** CREATE TABLE *)
Definition entry_of (x : xtable) (pk : option index) : ctable :=
  mkCT (set_x_t x (mkTable (t_name (x_t x)) (t_without_rowid (x_t x)) (t_strict (x_t x)) (t_cols (x_t x)) pk []
                           (t_fks (x_t x)) (t_checks (x_t x)))) [] [].

Lemma new_ctable_shape x ct :
  new_ctable x [] = Ok ct ->
  exists pk, table_checks x [] = Ok pk /\ ct = entry_of x pk /\ reserved_name (t_name (x_t x)) = false.
Proof.
  unfold new_ctable. intros H.
  destruct (reserved_name (t_name (x_t x))) eqn:ER; [discriminate|].
  destruct (table_checks x []) as [pk|] eqn:EP; [|discriminate].
  inversion H. exists pk. repeat split; auto.
Qed.

Lemma exec_add_table d bx ct0 :
  new_ctable (strip_idx bx) [] = Ok ct0 ->
  ~ In (x_name bx) (all_names (db_tables d)) ->
  (forall i, In i (t_idx (x_t bx)) -> index_def_ok (ct_t ct0) i = Ok tt) ->
  NoDup (map i_name (t_idx (x_t bx))) ->
  (forall i, In i (t_idx (x_t bx)) -> ~ In (i_name i) (all_names (db_tables d)) /\ i_name i <> x_name bx) ->
  exec_all d (SCreateTable (strip_idx bx) [] :: map (SCreateIndex (x_name bx)) (t_idx (x_t bx)))
  = Ok (set_tables d (db_tables d ++ [add_idx (t_idx (x_t bx)) ct0])).
Proof.
  intros HC HN HD ND HF.
  destruct (new_ctable_shape _ _ HC) as [pk [EP [E0 ER]]].
  cbn [exec_all exec]. unfold create_table. rewrite HC.
  assert (NU : name_used (t_name (x_t (strip_idx bx))) (db_tables d) = false).
  { apply name_used_false. exact HN. }
  rewrite NU.
  set (d1 := set_tables d (db_tables d ++ [ct0])).
  assert (N0 : ct_name ct0 = x_name bx) by (rewrite E0; reflexivity).
  assert (F1 : find_ct (x_name bx) (db_tables d1) = Some ct0).
  { unfold d1. simpl. unfold find_ct. rewrite find_app'.
    destruct (find (fun c => str_eqb (ct_name c) (x_name bx)) (db_tables d)) as [c|] eqn:F.
    - exfalso. apply find_some in F. destruct F as [F1 F2]. apply str_eqb_eq in F2. apply HN. rewrite <- F2.
      apply in_all_names_table. exact F1.
    - simpl. rewrite N0, str_eqb_refl. reflexivity. }
  rewrite (exec_create_indexes (x_name bx) (t_idx (x_t bx)) d1 ct0 F1).
  - f_equal. unfold d1, set_tables. simpl. f_equal.
    assert (G : forall l, ~ In (x_name bx) (map ct_name l) ->
                update_ct (x_name bx) (add_idx (t_idx (x_t bx))) (l ++ [ct0]) = l ++ [add_idx (t_idx (x_t bx)) ct0]).
    { induction l as [|c l IH]; intros Hn; simpl.
      - rewrite N0, str_eqb_refl. reflexivity.
      - destruct (str_eqb (ct_name c) (x_name bx)) eqn:E.
        + exfalso. apply Hn. left. apply str_eqb_eq. exact E.
        + rewrite IH; [reflexivity|]. intros X. apply Hn. right. exact X. }
    apply G. intros X. apply HN. apply in_map_iff in X. destruct X as [c [E Hc]]. rewrite <- E.
    apply in_all_names_table. exact Hc.
  - rewrite E0. reflexivity.
  - exact HD.
  - exact ND.
  - intros i Hi Hin. destruct (HF i Hi) as [H1 H2]. unfold d1 in Hin. simpl in Hin.
    rewrite all_names_app in Hin. apply in_app_or in Hin. destruct Hin as [Hin|Hin]; [exact (H1 Hin)|].
    simpl in Hin. rewrite E0 in Hin. simpl in Hin. destruct Hin as [Hin|[]]. apply H2. symmetry. exact Hin.
Qed.

(** ** DROP TABLE on a table without rows *)
Lemma implicit_delete_nil n l : implicit_delete n [] l = Ok l.
Proof.
  induction l as [|c l IH]; simpl; [reflexivity|]. rewrite IH.
  destruct (str_eqb (ct_name c) n); [reflexivity|].
  assert (G : forall fks, fks_on_delete c fks [] = Ok c).
  { induction fks as [|f fks IHf]; simpl; [reflexivity|].
    unfold fk_on_delete. simpl.
    assert (E : existsb (fun _ : row => false) (ct_rows c) = false).
    { induction (ct_rows c); simpl; auto. }
    rewrite E. simpl. exact IHf. }
  rewrite G. reflexivity.
Qed.

Lemma exec_drop_table d n ct :
  db_fk d = false -> find_ct n (db_tables d) = Some ct ->
  exec d (SDropTable n) = Ok (set_tables d (remove_ct n (db_tables d))).
Proof.
  intros FK F. simpl. unfold drop_table. rewrite F, FK. reflexivity.
Qed.

(** ** the rebuild group: CREATE new_t; INSERT..SELECT; DROP t; RENAME new_t TO t; CREATE INDEX... *)
Definition rename_ct (c : ctable) (n : str) : ctable := set_ct_t c (set_t_name (ct_t c) n).

Definition renamed (bx : xtable) (n' : str) : xtable :=
  set_x_t bx (set_t_name (set_t_idx (x_t bx) []) n').

Lemma reserved_new n : reserved_name (NEW_ ++ n) = false.
Proof. reflexivity. Qed.

Lemma table_checks_rename bx n' : table_checks (renamed bx n') [] = table_checks (strip_idx bx) [].
Proof. reflexivity. Qed.

Lemma new_ctable_rename bx ct0 n' :
  new_ctable (strip_idx bx) [] = Ok ct0 -> reserved_name n' = false ->
  new_ctable (renamed bx n') [] = Ok (rename_ct ct0 n').
Proof.
  intros H R. destruct (new_ctable_shape _ _ H) as [pk [EP [E0 ER]]]. subst ct0.
  unfold new_ctable. cbn [renamed x_t set_x_t t_name set_t_name]. rewrite R.
  rewrite table_checks_rename, EP. reflexivity.
Qed.

Lemma update_ct_id n f l c0 : find_ct n l = Some c0 -> f c0 = c0 -> update_ct n f l = l.
Proof.
  unfold find_ct. induction l as [|c l IH]; intros F H; simpl in *; [reflexivity|].
  destruct (str_eqb (ct_name c) n) eqn:E.
  - inversion F; subst. rewrite H. reflexivity.
  - rewrite IH; [reflexivity|exact F|exact H].
Qed.

Lemma remove_ct_app_l n l r : In n (map ct_name l) -> remove_ct n (l ++ r) = remove_ct n l ++ r.
Proof.
  induction l as [|c l IH]; simpl; intros H; [destruct H|].
  destruct (str_eqb (ct_name c) n) eqn:E; [reflexivity|].
  destruct H as [H|H]; [apply str_eqb_neq in E; congruence|]. rewrite IH; [reflexivity|exact H].
Qed.

Lemma find_ct_app n l r :
  find_ct n (l ++ r) = match find_ct n l with Some c => Some c | None => find_ct n r end.
Proof. unfold find_ct. apply find_app'. Qed.

Lemma set_ct_t_id c : set_ct_t c (ct_t c) = c.
Proof. destruct c as [[t a] u r]. reflexivity. Qed.

Lemma rename_refs_id a b t : (forall f, In f (t_fks t) -> f_reftable f <> a) -> rename_refs a b t = t.
Proof.
  intros H. unfold rename_refs.
  assert (E : map (fun f => if str_eqb (f_reftable f) a
                            then mkFk (f_symbol f) (f_cols f) b (f_refcols f) (f_onupdate f) (f_ondelete f) else f) (t_fks t) = t_fks t).
  { induction (t_fks t) as [|f l IH]; simpl; [reflexivity|].
    destruct (str_eqb (f_reftable f) a) eqn:E.
    - apply str_eqb_eq in E. exfalso. exact (H f (or_introl eq_refl) E).
    - rewrite IH; [reflexivity|]. intros x Hx. apply H. right. exact Hx. }
  rewrite E. apply set_t_fks_id.
Qed.

Lemma remove_ct_names_notin n l : NoDup (map ct_name l) -> ~ In n (map ct_name (remove_ct n l)).
Proof.
  intros ND Hin. apply in_map_iff in Hin. destruct Hin as [c [E Hc]].
  apply (remove_ct_in n l c ND) in Hc. destruct Hc as [_ Hne]. contradiction.
Qed.

Lemma all_names_remove_incl n l x : In x (all_names (remove_ct n l)) -> In x (all_names l).
Proof.
  induction l as [|c l IH]; simpl; [tauto|].
  destruct (str_eqb (ct_name c) n).
  - intros H. right. apply in_or_app. right. exact H.
  - simpl. intros [H|H]; [left; exact H|]. apply in_app_or in H. destruct H as [H|H].
    + right. apply in_or_app. left. exact H.
    + right. apply in_or_app. right. apply IH. exact H.
Qed.

Lemma all_names_remove_NoDup n l : NoDup (all_names l) -> NoDup (all_names (remove_ct n l)).
Proof.
  induction l as [|c l IH]; simpl; intros H; [constructor|].
  destruct (str_eqb (ct_name c) n).
  - inversion H; subst. eapply NoDup_app_r; eauto.
  - change (NoDup (ct_names c ++ all_names (remove_ct n l))).
    change (NoDup (ct_names c ++ all_names l)) in H.
    assert (H1 := NoDup_app_l _ _ H). assert (H2 := NoDup_app_r _ _ H).
    clear -H H1 H2 IH. induction (ct_names c) as [|x xs IHx]; simpl in *; [apply IH; exact H2|].
    inversion H as [|y ys Hy Hys]; subst. inversion H1; subst. constructor.
    + intros Hin. apply Hy. apply in_app_or in Hin. apply in_or_app. destruct Hin as [Hin|Hin]; [left; exact Hin|].
      right. eapply all_names_remove_incl; eauto.
    + apply IHx; assumption.
Qed.

(** the table a rebuild reads from ([t]) must carry the columns the INSERT selects; the new table
    the ones it fills *)
Definition copy_ok (old new : table) (ins : option (list str * list sexpr)) : Prop :=
  match ins with
  | None => True
  | Some (tc, fe) =>
      length tc = length fe /\ tc <> [] /\
      (forall c, In c tc -> has_col new c = true /\ is_generated new c = false) /\
      (forall e, In e fe -> has_col old (sexpr_col e) = true)
  end.

Definition ins_stmts (new_n old_n : str) (ins : option (list str * list sexpr)) : list stmt :=
  match ins with Some (tc, fe) => [SCopyRows new_n tc old_n fe] | None => [] end.

Lemma exec_copy_rows d new_n old_n cnew cold tc fe :
  find_ct new_n (db_tables d) = Some cnew -> find_ct old_n (db_tables d) = Some cold ->
  ct_rows cnew = [] -> ct_rows cold = [] ->
  copy_ok (ct_t cold) (ct_t cnew) (Some (tc, fe)) ->
  exec d (SCopyRows new_n tc old_n fe) = Ok d.
Proof.
  intros F1 F2 R1 R2 [HL [HN [HC HE]]]. simpl. unfold copy_rows. rewrite F1, F2.
  rewrite HL, Nat.eqb_refl. simpl. destruct tc as [|c0 tc0]; [congruence|].
  assert (A1 : forallb (has_col (ct_t cnew)) (c0 :: tc0) = true).
  { apply forallb_forall. intros c Hc. apply HC. exact Hc. }
  assert (A2 : forallb (fun e => has_col (ct_t cold) (sexpr_col e)) fe = true).
  { apply forallb_forall. intros e He. apply HE. exact He. }
  rewrite A1, A2. cbn [negb orb].
  assert (A3 : existsb (is_generated (ct_t cnew)) (c0 :: tc0) = false).
  { destruct (existsb (is_generated (ct_t cnew)) (c0 :: tc0)) eqn:E; [|reflexivity].
    apply existsb_exists in E. destruct E as [c [Hc Gc]]. destruct (HC c Hc) as [_ X]. congruence. }
  rewrite A3. rewrite R2, R1. cbn [insert_rows existsb].
  assert (A4 : (match t_pk (ct_t cnew) with
                | Some pk => match pk_cols pk with Some cols => has_dup_on cols [] | None => false end
                | None => false end) = false).
  { destruct (t_pk (ct_t cnew)) as [pk|]; [|reflexivity]. destruct (pk_cols pk); reflexivity. }
  rewrite A4. f_equal. destruct d as [ts fk tx]. unfold set_tables. simpl. f_equal.
  apply (update_ct_id new_n _ ts cnew F1).
  destruct cnew as [x u r]. simpl in *. subst r. reflexivity.
Qed.

Lemma find_ct_single n c : ct_name c = n -> find_ct n [c] = Some c.
Proof. intros H. unfold find_ct. cbn [find]. rewrite H, str_eqb_refl. reflexivity. Qed.

Definition no_refs (n : str) (t : table) : Prop := forall f, In f (t_fks t) -> f_reftable f <> n.

Lemma exec_rebuild d bx ct0 cold ins :
  let t := x_name bx in
  let new_n := NEW_ ++ t in
  db_fk d = false ->
  NoDup (all_names (db_tables d)) ->
  find_ct t (db_tables d) = Some cold -> ct_rows cold = [] ->
  new_ctable (strip_idx bx) [] = Ok ct0 ->
  ~ In new_n (all_names (db_tables d)) ->
  (forall c, In c (db_tables d) -> no_refs new_n (ct_t c)) -> no_refs new_n (x_t bx) ->
  copy_ok (ct_t cold) (ct_t ct0) ins ->
  (forall i, In i (t_idx (x_t bx)) -> index_def_ok (ct_t ct0) i = Ok tt) ->
  NoDup (map i_name (t_idx (x_t bx))) ->
  (forall i, In i (t_idx (x_t bx)) -> ~ In (i_name i) (all_names (remove_ct t (db_tables d))) /\ i_name i <> t) ->
  exec_all d ([SCreateTable (renamed bx new_n) []] ++ ins_stmts new_n t ins
              ++ [SDropTable t; SRenameTable new_n t] ++ map (SCreateIndex t) (t_idx (x_t bx)))
  = Ok (set_tables d (remove_ct t (db_tables d) ++ [add_idx (t_idx (x_t bx)) ct0])).
Proof.
  intros t new_n FKOFF ND FO RO HC HNEW HREF HREFB HCOPY HD NDI HF.
  destruct (new_ctable_shape _ _ HC) as [pk [EP [E0 ER]]].
  assert (NDT : NoDup (map ct_name (db_tables d))) by (apply all_names_NoDup_tables; exact ND).
  assert (NE : new_n <> t).
  { intros E. apply HNEW. rewrite E. destruct (find_ct_in _ _ _ FO) as [FO1 FO2]. rewrite <- FO2.
    apply in_all_names_table. exact FO1. }
  (* CREATE TABLE new_t *)
  rewrite exec_all_app. cbn [exec_all exec]. unfold create_table.
  rewrite (new_ctable_rename bx ct0 new_n HC (reserved_new t)).
  cbn [renamed x_t set_x_t t_name set_t_name].
  assert (NU : name_used new_n (db_tables d) = false) by (apply name_used_false; exact HNEW).
  rewrite NU.
  set (cnew := rename_ct ct0 new_n).
  set (d1 := set_tables d (db_tables d ++ [cnew])).
  assert (Ncnew : ct_name cnew = new_n) by reflexivity.
  assert (Fnew_none : find_ct new_n (db_tables d) = None).
  { apply find_ct_none. intros X. apply HNEW. apply in_map_iff in X. destruct X as [c [E Hc]]. rewrite <- E.
    apply in_all_names_table. exact Hc. }
  assert (F1new : find_ct new_n (db_tables d1) = Some cnew).
  { unfold d1. simpl. rewrite find_ct_app, Fnew_none. apply find_ct_single. exact Ncnew. }
  assert (F1old : find_ct t (db_tables d1) = Some cold).
  { unfold d1. simpl. rewrite find_ct_app, FO. reflexivity. }
  (* INSERT ... SELECT *)
  rewrite exec_all_app.
  assert (EI : exec_all d1 (ins_stmts new_n t ins) = Ok d1).
  { destruct ins as [[tc fe]|]; [|reflexivity]. cbn [ins_stmts exec_all].
    rewrite (exec_copy_rows d1 new_n t cnew cold tc fe F1new F1old); [reflexivity| |exact RO|].
    - unfold cnew. rewrite E0. reflexivity.
    - unfold cnew. exact HCOPY. }
  rewrite EI.
  (* DROP TABLE t *)
  rewrite exec_all_app. cbn [exec_all]. rewrite (exec_drop_table d1 t cold FKOFF F1old).
  assert (Tin : In t (map ct_name (db_tables d))).
  { apply find_ct_in in FO. destruct FO as [H1 H2]. rewrite <- H2. apply in_map. exact H1. }
  cbn [db_tables d1 set_tables]. rewrite (remove_ct_app_l t _ [cnew] Tin).
  set (rest := remove_ct t (db_tables d)).
  (* RENAME new_t TO t *)
  cbn [exec]. unfold rename_table. cbn [db_tables set_tables].
  assert (Frn : find_ct new_n (rest ++ [cnew]) = Some cnew).
  { rewrite find_ct_app.
    assert (X : find_ct new_n rest = None).
    { apply find_ct_none. intros X. apply HNEW. apply in_map_iff in X. destruct X as [c [E Hc]].
      rewrite <- E. apply in_all_names_table. apply (remove_ct_in t _ c NDT) in Hc. tauto. }
    rewrite X. apply find_ct_single. exact Ncnew. }
  rewrite Frn. change (reserved_name t = false) in ER. rewrite ER.
  assert (NUt : name_used t (rest ++ [cnew]) = false).
  { apply name_used_false. rewrite all_names_app. intros X. apply in_app_or in X. destruct X as [X|X].
    - (* t is a table name of d, hence (NoDup) not a name of the rest *)
      apply in_all_names in X. destruct X as [c [Hc Hx]]. apply (remove_ct_in t _ c NDT) in Hc. destruct Hc as [Hc Hne].
      destruct Hx as [Hx|Hx]; [congruence|].
      (* an index of c named t, and the table t: two occurrences in all_names *)
      apply find_ct_in in FO. destruct FO as [FO1 FO2].
      clear -ND Hc Hx FO1 FO2 Hne. revert ND Hc FO1. induction (db_tables d) as [|c1 l IH]; intros ND Hc FO1; [destruct Hc|].
      simpl in ND. destruct Hc as [->|Hc], FO1 as [->|FO1].
      + congruence.
      + inversion ND as [|y ys Hy Hys]; subst. apply (NoDup_app_disj _ _ (ct_name cold) Hys); [rewrite FO2; exact Hx|apply in_all_names_table; exact FO1].
      + inversion ND as [|y ys Hy Hys]; subst. apply Hy. apply in_or_app. right. rewrite FO2.
        apply in_all_names. exists c. split; [exact Hc|right; exact Hx].
      + inversion ND as [|y ys Hy Hys]; subst. apply IH; auto. eapply NoDup_app_r; eauto.
    - simpl in X. unfold cnew in X. rewrite E0 in X. simpl in X. destruct X as [X|[]]. apply NE. exact X. }
  rewrite NUt.
  assert (RM : map (fun c => set_ct_t c (if str_eqb (t_name (rename_refs new_n t (ct_t c))) new_n
                                         then set_t_name (rename_refs new_n t (ct_t c)) t
                                         else rename_refs new_n t (ct_t c))) (rest ++ [cnew])
               = rest ++ [ct0]).
  { rewrite map_app. f_equal.
    - rewrite <- (map_id rest) at 2. apply map_ext_in. intros c Hc.
      apply (remove_ct_in t _ c NDT) in Hc. destruct Hc as [Hc Hne].
      rewrite (rename_refs_id new_n t (ct_t c) (HREF c Hc)).
      assert (X : str_eqb (t_name (ct_t c)) new_n = false).
      { apply str_eqb_neq. intros E. apply HNEW. rewrite <- E. apply (in_all_names_table c). exact Hc. }
      rewrite X. apply set_ct_t_id.
    - simpl. f_equal. unfold cnew. rewrite E0. unfold rename_ct, entry_of. cbn.
      rewrite (rename_refs_id new_n t); [|exact HREFB]. cbn. rewrite str_eqb_refl. reflexivity. }
  rewrite RM.
  (* CREATE INDEX ... *)
  set (d4 := set_tables (set_tables d1 (rest ++ [cnew])) (rest ++ [ct0])).
  assert (N0 : ct_name ct0 = t) by (rewrite E0; reflexivity).
  assert (Rnot : ~ In t (map ct_name rest)) by (apply remove_ct_names_notin; exact NDT).
  assert (F4 : find_ct t (db_tables d4) = Some ct0).
  { unfold d4. simpl. rewrite find_ct_app.
    assert (X : find_ct t rest = None) by (apply find_ct_none; exact Rnot).
    rewrite X. apply find_ct_single. exact N0. }
  rewrite (exec_create_indexes t (t_idx (x_t bx)) d4 ct0 F4).
  - f_equal. unfold d4, d1, set_tables. simpl. f_equal.
    assert (G : forall l, ~ In t (map ct_name l) ->
                update_ct t (add_idx (t_idx (x_t bx))) (l ++ [ct0]) = l ++ [add_idx (t_idx (x_t bx)) ct0]).
    { induction l as [|c l IH]; intros Hn; simpl.
      - rewrite N0, str_eqb_refl. reflexivity.
      - destruct (str_eqb (ct_name c) t) eqn:E.
        + exfalso. apply Hn. left. apply str_eqb_eq. exact E.
        + rewrite IH; [reflexivity|]. intros X. apply Hn. right. exact X. }
    apply G. exact Rnot.
  - rewrite E0. reflexivity.
  - exact HD.
  - exact NDI.
  - intros i Hi Hin. destruct (HF i Hi) as [H1 H2]. unfold d4 in Hin. simpl in Hin.
    rewrite all_names_app in Hin. apply in_app_or in Hin. destruct Hin as [Hin|Hin]; [exact (H1 Hin)|].
    simpl in Hin. rewrite E0 in Hin. simpl in Hin. destruct Hin as [Hin|[]]. apply H2. symmetry. exact Hin.
Qed.

(** ** the ALTER group, phase by phase: ADD COLUMN..., DROP INDEX..., CREATE INDEX... *)
Definition add_cols (l : list column) (c : ctable) : ctable :=
  set_ct_t c (mkTable (t_name (ct_t c)) (t_without_rowid (ct_t c)) (t_strict (ct_t c)) (t_cols (ct_t c) ++ l)
                      (t_pk (ct_t c)) (t_idx (ct_t c)) (t_fks (ct_t c)) (t_checks (ct_t c))).

(** a column ALTER TABLE ADD COLUMN accepts on a table without rows (what [alterable] lets through) *)
Definition addable (strict : bool) (c : column) : Prop :=
  column_def_ok (mkTable [] false strict [] None [] [] []) c = Ok tt /\
  match c_gen c with
  | Some (_, ty) => is_stored ty = false
  | None => match c_default c with
            | Some (DRaw _) => False
            | Some (DLit v) => (str_eqb v CURRENT_TIME || str_eqb v CURRENT_DATE || str_eqb v CURRENT_TIMESTAMP) = false
            | None => True
            end
  end.

Lemma column_def_ok_strict t t' c : t_strict t = t_strict t' -> column_def_ok t c = column_def_ok t' c.
Proof. intros H. unfold column_def_ok. rewrite H. reflexivity. Qed.

Lemma add_cols_nil c : add_cols [] c = c.
Proof. unfold add_cols. rewrite app_nil_r. destruct c as [[t a] u r]. destruct t. reflexivity. Qed.
Lemma add_cols_app l1 l2 c : add_cols l2 (add_cols l1 c) = add_cols (l1 ++ l2) c.
Proof. unfold add_cols. simpl. rewrite app_assoc. reflexivity. Qed.

Lemma update_ct_ext n f g l : (forall c, f c = g c) -> update_ct n f l = update_ct n g l.
Proof.
  intros H. induction l as [|c l IH]; simpl; [reflexivity|].
  destruct (str_eqb (ct_name c) n); [rewrite H; reflexivity|rewrite IH; reflexivity].
Qed.

Lemma update_ct_same n f l c0 : find_ct n l = Some c0 -> update_ct n f l = update_ct n (fun _ => f c0) l.
Proof.
  unfold find_ct. induction l as [|c l IH]; simpl; intros F; [reflexivity|].
  destruct (str_eqb (ct_name c) n); [inversion F; reflexivity|rewrite IH; [reflexivity|exact F]].
Qed.

Lemma exec_add_columns n l : forall d ct,
  find_ct n (db_tables d) = Some ct -> ct_rows ct = [] ->
  (forall c, In c l -> addable (t_strict (ct_t ct)) c) ->
  NoDup (map c_name l) ->
  (forall c, In c l -> has_col (ct_t ct) (c_name c) = false) ->
  exec_all d (map (fun c => SAddColumn n c false) l) = Ok (set_tables d (update_ct n (add_cols l) (db_tables d))).
Proof.
  induction l as [|c l IH]; intros d ct F R HA ND HN.
  - simpl. f_equal. destruct d as [ts fk tx]. unfold set_tables. simpl. f_equal.
    symmetry. apply (update_ct_id n _ ts ct F). apply add_cols_nil.
  - cbn [map exec_all exec]. unfold add_column. rewrite F.
    rewrite (HN c (or_introl eq_refl)).
    destruct (HA c (or_introl eq_refl)) as [DOK GD].
    rewrite (column_def_ok_strict (ct_t ct) (mkTable [] false (t_strict (ct_t ct)) [] None [] [] []) c eq_refl), DOK.
    set (d1 := set_tables d (update_ct n (add_cols [c]) (db_tables d))).
    assert (STEP : (match c_gen c with
        | Some (_, ty) => if is_stored ty then Err EAddColumn
                          else Ok (set_tables d (update_ct n (fun ct0 => set_ct_t ct0 (add_col (ct_t ct0) c)) (db_tables d)))
        | None =>
          match c_default c with
          | Some (DRaw _) => Err EAddColumn
          | Some (DLit v) =>
              if str_eqb v CURRENT_TIME || str_eqb v CURRENT_DATE || str_eqb v CURRENT_TIMESTAMP then Err EAddColumn
              else if negb (c_null c) && is_null (default_of c) && negb (Nat.eqb (length (ct_rows ct)) 0) then Err ENotNullNoDefault
              else Ok (set_tables d (update_ct n (fun ct0 =>
                     mkCT (set_x_t (ct_x ct0) (add_col (ct_t ct0) c)) (ct_uniques ct0)
                          (map (fun r => (fst r, snd r ++ [(c_name c, default_of c)])) (ct_rows ct0))) (db_tables d)))
          | None =>
              if negb (c_null c) && negb (Nat.eqb (length (ct_rows ct)) 0) then Err ENotNullNoDefault
              else Ok (set_tables d (update_ct n (fun ct0 =>
                     mkCT (set_x_t (ct_x ct0) (add_col (ct_t ct0) c)) (ct_uniques ct0)
                          (map (fun r => (fst r, snd r ++ [(c_name c, VNull)])) (ct_rows ct0))) (db_tables d)))
          end
        end) = Ok d1).
    { assert (U : forall g, g ct = add_cols [c] ct -> update_ct n g (db_tables d) = update_ct n (add_cols [c]) (db_tables d)).
      { intros g Hg. rewrite (update_ct_same n g _ ct F), (update_ct_same n (add_cols [c]) _ ct F), Hg. reflexivity. }
      rewrite R. simpl length. rewrite Nat.eqb_refl. rewrite !andb_false_r.
      destruct (c_gen c) as [[x ty]|].
      - rewrite GD. reflexivity.
      - destruct (c_default c) as [[v|x]|].
        + rewrite GD. unfold d1. f_equal. f_equal. apply U.
          destruct ct as [x0 u r]. simpl in R. subst r. reflexivity.
        + destruct GD.
        + unfold d1. f_equal. f_equal. apply U. destruct ct as [x0 u r]. simpl in R. subst r. reflexivity. }
    rewrite STEP.
    inversion ND as [|x xs Hx Hxs]; subst.
    assert (F1 : find_ct n (db_tables d1) = Some (add_cols [c] ct)).
    { unfold d1. simpl. apply (find_ct_update n (add_cols [c]) _ ct); [reflexivity|exact F]. }
    rewrite (IH d1 (add_cols [c] ct) F1).
    + f_equal. unfold d1, set_tables. simpl. f_equal.
      rewrite (update_ct_update n (add_cols [c]) (add_cols l)); [|reflexivity].
      apply update_ct_ext. intros c0. apply add_cols_app.
    + exact R.
    + intros c1 H1. apply HA. right. exact H1.
    + exact Hxs.
    + intros c1 H1. unfold has_col, find_col. simpl. rewrite find_app'.
      assert (X := HN c1 (or_intror H1)). unfold has_col, find_col in X.
      destruct (find (fun c0 => str_eqb (c_name c0) (c_name c1)) (t_cols (ct_t ct))); [discriminate|].
      simpl. destruct (str_eqb (c_name c) (c_name c1)) eqn:E; [|reflexivity].
      apply str_eqb_eq in E. exfalso. apply Hx. rewrite E. apply in_map. exact H1.
Qed.

Definition drop_idx (ns : list str) (c : ctable) : ctable :=
  set_ct_t c (set_t_idx (ct_t c) (filter (fun i => negb (existsb (str_eqb (i_name i)) ns)) (t_idx (ct_t c)))).

Lemma filter_id {A} (f : A -> bool) l : (forall x, In x l -> f x = true) -> filter f l = l.
Proof.
  induction l as [|a l IH]; simpl; intros H; [reflexivity|].
  rewrite (H a (or_introl eq_refl)). rewrite IH; [reflexivity|]. intros x Hx. apply H. right. exact Hx.
Qed.

Lemma drop_idx_nil c : drop_idx [] c = c.
Proof.
  unfold drop_idx. simpl. rewrite filter_id; [|reflexivity]. rewrite set_t_idx_id. apply set_ct_t_id.
Qed.

Lemma filter_drop_app (l1 l2 : list str) (l : list index) :
  filter (fun i => negb (existsb (str_eqb (i_name i)) l2)) (filter (fun i => negb (existsb (str_eqb (i_name i)) l1)) l)
  = filter (fun i => negb (existsb (str_eqb (i_name i)) (l1 ++ l2))) l.
Proof.
  induction l as [|i l IH]; simpl; [reflexivity|].
  rewrite existsb_app. destruct (existsb (str_eqb (i_name i)) l1); simpl; [exact IH|].
  destruct (existsb (str_eqb (i_name i)) l2); simpl; [exact IH|]. rewrite IH. reflexivity.
Qed.

Lemma drop_idx_app l1 l2 c : drop_idx l2 (drop_idx l1 c) = drop_idx (l1 ++ l2) c.
Proof.
  destruct c as [[t a] u r]. destruct t. unfold drop_idx. simpl. rewrite filter_drop_app. reflexivity.
Qed.

Lemma all_names_drop_incl n ns l x : In x (all_names (update_ct n (drop_idx ns) l)) -> In x (all_names l).
Proof.
  induction l as [|c l IH]; simpl; [tauto|].
  destruct (str_eqb (ct_name c) n); simpl.
  - intros [H|H]; [left; exact H|]. right. apply in_app_or in H. apply in_or_app. destruct H as [H|H]; [left|right; exact H].
    apply in_map_iff in H. destruct H as [i [E Hi]]. apply filter_In in Hi. rewrite <- E. apply in_map. tauto.
  - intros [H|H]; [left; exact H|]. right. apply in_app_or in H. apply in_or_app. destruct H as [H|H]; [left; exact H|right; apply IH; exact H].
Qed.

Lemma NoDup_map_filter {A B} (f : A -> B) (p : A -> bool) l : NoDup (map f l) -> NoDup (map f (filter p l)).
Proof.
  induction l as [|a l IH]; simpl; intros H; [constructor|]. inversion H; subst.
  destruct (p a); simpl; [|apply IH; assumption]. constructor; [|apply IH; assumption].
  intros X. apply H2. apply in_map_iff in X. destruct X as [y [E Hy]]. apply filter_In in Hy. rewrite <- E. apply in_map. tauto.
Qed.

Lemma all_names_drop_NoDup n ns l : NoDup (all_names l) -> NoDup (all_names (update_ct n (drop_idx ns) l)).
Proof.
  induction l as [|c l IH]; simpl; intros H; [constructor|].
  destruct (str_eqb (ct_name c) n); simpl.
  - change (ct_name (drop_idx ns c)) with (ct_name c).
    inversion H as [|y ys Hy Hys]; subst. constructor.
    + intros X. apply Hy. apply in_app_or in X. apply in_or_app. destruct X as [X|X]; [left|right; exact X].
      apply in_map_iff in X. destruct X as [i [E Hi]]. apply filter_In in Hi. rewrite <- E. apply in_map. tauto.
    + assert (H1 := NoDup_app_l _ _ Hys). assert (H2 := NoDup_app_r _ _ Hys).
      clear -Hys H1 H2.
      set (p := fun i : index => negb (existsb (str_eqb (i_name i)) ns)).
      induction (t_idx (ct_t c)) as [|i is IHi]; simpl in *; [exact H2|].
      inversion Hys as [|y ys Hy Hys']; subst. inversion H1; subst.
      destruct (p i); simpl; [|apply IHi; assumption]. constructor; [|apply IHi; assumption].
      intros X. apply Hy. apply in_app_or in X. apply in_or_app. destruct X as [X|X]; [left|right; exact X].
      apply in_map_iff in X. destruct X as [j [E Hj]]. apply filter_In in Hj. rewrite <- E. apply in_map. tauto.
  - inversion H as [|y ys Hy Hys]; subst. constructor.
    + intros X. apply Hy. apply in_app_or in X. apply in_or_app. destruct X as [X|X]; [left; exact X|right].
      eapply all_names_drop_incl; eauto.
    + assert (H1 := NoDup_app_l _ _ Hys). assert (H2 := NoDup_app_r _ _ Hys).
      clear -Hys H1 H2 IH. induction (map i_name (t_idx (ct_t c))) as [|x xs IHx]; simpl in *; [apply IH; exact H2|].
      inversion Hys as [|y ys Hy Hys']; subst. inversion H1; subst. constructor; [|apply IHx; assumption].
      intros X. apply Hy. apply in_app_or in X. apply in_or_app. destruct X as [X|X]; [left; exact X|right].
      eapply all_names_drop_incl; eauto.
Qed.

Lemma drop_index_step d t ct n :
  NoDup (all_names (db_tables d)) -> find_ct t (db_tables d) = Some ct ->
  In n (map i_name (t_idx (ct_t ct))) ->
  exec d (SDropIndex n) = Ok (set_tables d (update_ct t (drop_idx [n]) (db_tables d))).
Proof.
  intros ND F Hn. simpl. unfold drop_index.
  destruct (find_ct_in _ _ _ F) as [F1 F2].
  assert (E : existsb (has_index n) (db_tables d) = true).
  { apply existsb_exists. exists ct. split; [exact F1|]. unfold has_index. apply existsb_exists.
    apply in_map_iff in Hn. destruct Hn as [i [Ei Hi]]. exists i. split; [exact Hi|]. rewrite Ei. apply str_eqb_refl. }
  rewrite E. f_equal. f_equal.
  revert ND F F1. generalize (db_tables d). induction l as [|c l IH]; intros ND F F1; [destruct F1|].
  simpl. unfold find_ct in F. simpl in F.
  destruct (str_eqb (ct_name c) t) eqn:Et.
  - inversion F; subst c. f_equal.
    + unfold drop_idx. f_equal. f_equal. apply filter_ext. intros i. simpl. rewrite orb_false_r. reflexivity.
    + (* the other tables hold no index called n *)
      simpl in ND. inversion ND as [|y ys Hy Hys]; subst.
      rewrite <- (map_id l) at 2. apply map_ext_in. intros c Hc.
      rewrite filter_id; [rewrite set_t_idx_id; apply set_ct_t_id|].
      intros i Hi. apply negb_true_iff. apply str_eqb_neq. intros Ei.
      apply (NoDup_app_disj _ _ n Hys); [exact Hn|]. rewrite <- Ei. eapply in_all_names_index; eauto.
  - destruct F1 as [->|F1]; [rewrite F2, str_eqb_refl in Et; discriminate|].
    f_equal; [|apply IH; auto].
    + simpl in ND. inversion ND as [|y ys Hy Hys]; subst.
      rewrite filter_id; [rewrite set_t_idx_id; apply set_ct_t_id|].
      intros i Hi. apply negb_true_iff. apply str_eqb_neq. intros Ei.
      apply (NoDup_app_disj _ _ n Hys); [rewrite <- Ei; apply in_map; exact Hi|].
      apply in_all_names. exists ct. split; [exact F1|right; exact Hn].
    + simpl in ND. inversion ND; subst. eapply NoDup_app_r; eauto.
Qed.

Lemma exec_drop_indexes t ns : forall d ct,
  NoDup (all_names (db_tables d)) -> find_ct t (db_tables d) = Some ct ->
  (forall n, In n ns -> In n (map i_name (t_idx (ct_t ct)))) -> NoDup ns ->
  exec_all d (map SDropIndex ns) = Ok (set_tables d (update_ct t (drop_idx ns) (db_tables d))).
Proof.
  induction ns as [|n ns IH]; intros d ct ND F HN NDn.
  - simpl. f_equal. destruct d as [ts fk tx]. unfold set_tables. simpl. f_equal.
    symmetry. apply (update_ct_id t _ ts ct F). apply drop_idx_nil.
  - cbn [map exec_all]. rewrite (drop_index_step d t ct n ND F (HN n (or_introl eq_refl))).
    set (d1 := set_tables d (update_ct t (drop_idx [n]) (db_tables d))).
    inversion NDn as [|x xs Hx Hxs]; subst.
    assert (F1 : find_ct t (db_tables d1) = Some (drop_idx [n] ct)).
    { unfold d1. simpl. apply (find_ct_update t (drop_idx [n]) _ ct); [reflexivity|exact F]. }
    rewrite (IH d1 (drop_idx [n] ct)).
    + f_equal. unfold d1, set_tables. simpl. f_equal.
      rewrite (update_ct_update t (drop_idx [n]) (drop_idx ns)); [|reflexivity].
      apply update_ct_ext. intros c0. apply drop_idx_app.
    + unfold d1. simpl. apply all_names_drop_NoDup. exact ND.
    + exact F1.
    + intros m Hm. simpl. specialize (HN m (or_intror Hm)). apply in_map_iff in HN. destruct HN as [i [Ei Hi]].
      apply in_map_iff. exists i. split; [exact Ei|]. apply filter_In. split; [exact Hi|].
      simpl. rewrite orb_false_r. apply negb_true_iff. apply str_eqb_neq. rewrite Ei. intros X. apply Hx. rewrite <- X. exact Hm.
    + exact Hxs.
Qed.
