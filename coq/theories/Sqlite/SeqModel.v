(** M-SQLITE rows (C05, round 5): the AUTOINCREMENT bookkeeping of SQLite ([sqlite_sequence]) as a
    layer over the shared engine (Sqlite/EngineModel.v), and what a statement may touch.

    [sqlite_sequence(name, seq)] holds, for every AUTOINCREMENT table that was ever inserted into,
    the largest rowid ever handed out.  SQLite (3.46, go-sqlite3 1.14.24), validated by the
    differential stage [rowid]:
      - INSERT INTO t ... (t AUTOINCREMENT), also INSERT ... SELECT of zero rows: the row of [t]
        becomes max(previous seq or 0, largest rowid of t after the statement)  (insert.c:
        autoIncBegin / sqlite3AutoincrementEnd);
      - DROP TABLE t deletes the row of [t] (build.c: sqlite3CodeDropTable);
      - ALTER TABLE a RENAME TO b renames the row (alter.c: "UPDATE sqlite_sequence set name = b");
      - nothing else the planner emits writes it.  [migrate.go: tableSeq] adds
        "INSERT INTO sqlite_sequence" only for [AutoIncrement.Seq > 0], and inspect.go: autoinc
        always produces [Seq = 0] (PlanModel.v header), so the planner never plans it for an
        inspected or HCL/SQL-derived desired state.

    No proofs in this file. *)
From Coq Require Import List NArith ZArith Bool Arith.
From Atlas Require Import Base.Bytes Diff.Schema Diff.DiffModel Diff.DiffSqlite Sqlite.PlanModel Sqlite.EngineModel.
Import ListNotations.

Definition seqtab := list (str * Z).

Definition seq_get (n : str) (s : seqtab) : option Z :=
  match find (fun p => str_eqb (fst p) n) s with Some p => Some (snd p) | None => None end.
Definition seq_remove (n : str) (s : seqtab) : seqtab := filter (fun p => negb (str_eqb (fst p) n)) s.
Definition seq_set (n : str) (z : Z) (s : seqtab) : seqtab := (n, z) :: seq_remove n s.
Definition seq_rename (a b : str) (s : seqtab) : seqtab :=
  map (fun p => if str_eqb (fst p) a then (b, snd p) else p) s.

(** a table created with AUTOINCREMENT *)
Definition is_autoinc (c : ctable) : bool :=
  match x_autoinc (ct_x c) with [] => false | _ :: _ => true end.

(** [sqlite_sequence] after statement [st] took the database to [d'] *)
Definition seq_step (d' : db) (s : seqtab) (st : stmt) : seqtab :=
  match st with
  | SCopyRows to_t _ _ _ =>
      match find_ct to_t (db_tables d') with
      | Some c =>
          if is_autoinc c
          then seq_set to_t (Z.max (match seq_get to_t s with Some z => z | None => 0%Z end) (max_rowid (ct_rows c))) s
          else s
      | None => s
      end
  | SDropTable n => seq_remove n s
  | SRenameTable a b => seq_rename a b s
  | _ => s
  end.

Definition sdb := (db * seqtab)%type.

Definition exec_seq (ds : sdb) (st : stmt) : result sdb :=
  match exec (fst ds) st with
  | Ok d' => Ok (d', seq_step d' (snd ds) st)
  | Err e => Err e
  end.

Fixpoint exec_seq_all (ds : sdb) (l : list stmt) : result sdb :=
  match l with
  | [] => Ok ds
  | st :: l' => match exec_seq ds st with
                | Ok ds' => exec_seq_all ds' l'
                | Err e => Err e
                end
  end.

(** like [exec_count]: the state reached, how many statements ran, the error *)
Fixpoint exec_seq_count (ds : sdb) (l : list stmt) (k : nat) : sdb * nat * option err :=
  match l with
  | [] => (ds, k, None)
  | st :: l' => match exec_seq ds st with
                | Ok ds' => exec_seq_count ds' l' (S k)
                | Err e => (ds, k, Some e)
                end
  end.

(** the table names whose catalogue entry or rows a statement may write *)
Definition stmt_names (s : stmt) : list str :=
  match s with
  | SCreateTable x _ => [t_name (x_t x)]
  | SDropTable n => [n]
  | SRenameTable a b => [a; b]
  | SAddColumn t _ _ => [t]
  | SDropColumn t _ => [t]
  | SRenameColumn t _ _ => [t]
  | SCreateIndex t _ => [t]
  | SDropIndex _ => []
  | SCopyRows to_t _ _ _ => [to_t]
  | SPragmaFK _ => []
  end.

(** the names a change list may touch: the table itself and, for a rebuild, the temporary table *)
Definition touched_names (cs : list schange) : list str :=
  flat_map (fun c => match c with
                     | AddTable n | DropTable n => [n]
                     | ModifyTable n _ => [n; NEW_ ++ n]
                     end) cs.

(** columns and rows of table [n] *)
Definition content (n : str) (d : db) : option (list column * list row) :=
  match find_ct n (db_tables d) with
  | Some c => Some (t_cols (ct_t c), ct_rows c)
  | None => None
  end.
Definition rows_of (n : str) (d : db) : option (list row) :=
  match find_ct n (db_tables d) with Some c => Some (ct_rows c) | None => None end.

(** the rowids a table without rowid alias hands out to [k] copied rows: 1 .. k *)
Definition fresh_rowids (k : nat) : list Z := map Z.of_nat (seq 1 k).
