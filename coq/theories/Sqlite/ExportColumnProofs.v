(** C03: the text of one generated / AUTOINCREMENT column inside the CREATE TABLE the planner prints:
    everything the builder does after a column only appends to the buffer or rewrites its last byte, so the
    text of the column (up to the end of its expression) stays where it is. *)
From Coq Require Import List NArith Bool Arith Lia.
From Atlas Require Import Base.Bytes Diff.Schema Diff.DiffSqlite Sqlite.PlanModel Sqlite.ExportModel Sqlite.ExportProofs
  Sqlite.ExportPrint Sqlite.ExportPrintProofs.
Import ListNotations.
Local Open Scope N_scope.

(** [kept P b]: the buffer starts with [P] and holds at least one more byte *)
Definition kept (P b : bytes) : Prop := exists t, b = P ++ t /\ t <> [].

Lemma kept_app P b r : kept P b -> kept P (b ++ r).
Proof. intros (t & -> & Ht). exists (t ++ r). split; [rewrite app_assoc; reflexivity|]. destruct t; [contradiction|discriminate]. Qed.
Lemma removelast_app_ne (P t : bytes) : t <> [] -> removelast (P ++ t) = P ++ removelast t.
Proof. intro H. apply removelast_app. exact H. Qed.
Lemma kept_removelast_app P b r : kept P b -> r <> [] -> kept P (removelast b ++ r).
Proof.
  intros (t & -> & Ht) Hr. rewrite (removelast_app_ne P t Ht). exists (removelast t ++ r).
  split; [rewrite app_assoc; reflexivity|]. destruct (removelast t); [exact Hr|discriminate].
Qed.
Lemma kept_bP1 P b p : kept P b -> kept P (bP1 b p).
Proof.
  intro H. unfold bP1. destruct p as [|c p]; [exact H|].
  destruct b as [|h b]; [destruct H as (t & E & Ht); destruct P, t; try discriminate; contradiction|].
  destruct (N.eqb (last_byte (h :: b)) 32 || N.eqb (last_byte (h :: b)) 40 || N.eqb (last_byte (h :: b)) 10);
    destruct (N.eqb (last_byte (c :: p)) 32); repeat apply kept_app; exact H.
Qed.
Lemma kept_bP P ps : forall b, kept P b -> kept P (bP b ps).
Proof. unfold bP. induction ps as [|p ps IH]; intros b H; simpl; [exact H|]. apply IH. apply kept_bP1. exact H. Qed.
Lemma kept_bIdent P b s : kept P b -> kept P (bIdent b s).
Proof. intro H. unfold bIdent. destruct s; [exact H|]. apply kept_app. exact H. Qed.
Lemma kept_bComma P b : kept P b -> kept P (bComma b).
Proof.
  intro H. unfold bComma. destruct b as [|h b]; [exact H|].
  destruct (N.eqb (last_byte (h :: b)) 32).
  - apply kept_removelast_app; [exact H|discriminate].
  - apply kept_app. exact H.
Qed.
Lemma kept_bClose P b : kept P b -> kept P (bClose b).
Proof.
  intro H. unfold bClose. destruct (N.eqb (last_byte b) 32).
  - apply kept_removelast_app; [exact H|discriminate].
  - apply kept_app. exact H.
Qed.
Lemma kept_bMapComma {A} P (f : bytes -> A -> bytes) (l : list A) :
  (forall b a, kept P b -> kept P (f b a)) -> forall b first, kept P b -> kept P (bMapComma b first l f).
Proof.
  intro Hf. induction l as [|a l IH]; intros b first H; simpl; [exact H|].
  apply IH. apply Hf. destruct first; [exact H|apply kept_bComma; exact H].
Qed.
Lemma kept_bWrap P b f : (forall b, kept P b -> kept P (f b)) -> kept P b -> kept P (bWrap b f).
Proof. intros Hf H. unfold bWrap. apply kept_bClose. apply Hf. apply kept_app. exact H. Qed.

Lemma kept_p_column P x b c b' : kept P b -> p_column x b c = Some b' -> kept P b'.
Proof.
  intros H. unfold p_column. destruct (N.eqb (c_class c) 0); [discriminate|].
  set (b1 := bP (bIdent b (c_name c)) [c_T c]).
  assert (kept P b1) as H1 by (apply kept_bP, kept_bIdent; exact H).
  set (b2 := bP (if c_null c then b1 else bP b1 [W_NOT]) [W_NULL]).
  assert (kept P b2) as H2 by (apply kept_bP; destruct (c_null c); [exact H1|apply kept_bP; exact H1]).
  destruct (c_default c) as [d|].
  - destruct (defaultValue c) as [v|]; [|discriminate].
    assert (kept P (bP b2 [W_DEFAULT; v])) as H3 by (apply kept_bP; exact H2).
    destruct (has_autoinc x (c_name c)); destruct (c_gen c) as [[e ty]|]; intros [= <-].
    + apply (kept_bP P [W_PK_AUTOINC]); exact H3.
    + apply (kept_bP P [K_AS; may_wrap e; ty]); exact H3.
    + exact H3.
  - destruct (has_autoinc x (c_name c)); destruct (c_gen c) as [[e ty]|]; intros [= <-].
    + apply (kept_bP P [W_PK_AUTOINC]); exact H2.
    + apply (kept_bP P [K_AS; may_wrap e; ty]); exact H2.
    + exact H2.
Qed.
Lemma kept_p_columns P x cs : forall b first b', kept P b -> p_columns x b first cs = Some b' -> kept P b'.
Proof.
  induction cs as [|c cs IH]; intros b first b' H E; simpl in E; [inversion E; subst; exact H|].
  destruct (p_column x (if first then b else bComma b) c) as [b1|] eqn:E1; [|discriminate].
  apply (IH b1 false b'); [|exact E].
  apply (kept_p_column P x (if first then b else bComma b) c b1); [|exact E1]. destruct first; [exact H|apply kept_bComma; exact H].
Qed.
Lemma kept_p_parts P b ps : kept P b -> kept P (p_parts b ps).
Proof.
  intro H. unfold p_parts. apply kept_bWrap; [|exact H]. intros b0 H0. apply kept_bMapComma; [|exact H0].
  intros b1 p H1. assert (kept P (match p_col p, p_expr p with
                                  | Some n, _ => bIdent b1 n | None, Some e => b1 ++ may_wrap e | None, None => b1 end)) as H2.
  { destruct (p_col p); [apply kept_bIdent; exact H1|]. destruct (p_expr p); [apply kept_app|]; exact H1. }
  destruct (p_desc p); [apply kept_bP|]; exact H2.
Qed.
Lemma kept_p_fk P b f : kept P b -> kept P (p_fk b f).
Proof.
  intro H. unfold p_fk.
  set (b1 := match f_symbol f with [] => b | s => bIdent (bP b [K_CONSTRAINT]) s end).
  assert (kept P b1) as H1 by (unfold b1; destruct (f_symbol f); [exact H|apply kept_bIdent, kept_bP; exact H]).
  set (b2 := bWrap (bP b1 [W_FOREIGN_KEY]) (fun b0 => bMapComma b0 true (f_cols f) bIdent)).
  assert (kept P b2) as H2.
  { apply kept_bWrap; [|apply kept_bP; exact H1]. intros b0 H0. apply kept_bMapComma; [|exact H0].
    intros; apply kept_bIdent; assumption. }
  set (b3 := bWrap (bIdent (bP b2 [K_REFERENCES]) (f_reftable f)) (fun b0 => bMapComma b0 true (f_refcols f) bIdent)).
  assert (kept P b3) as H3.
  { apply kept_bWrap; [|apply kept_bIdent, kept_bP; exact H2]. intros b0 H0. apply kept_bMapComma; [|exact H0].
    intros; apply kept_bIdent; assumption. }
  set (b4 := match f_onupdate f with [] => b3 | a => bP b3 [W_ON_UPDATE; a] end).
  assert (kept P b4) as H4 by (unfold b4; destruct (f_onupdate f); [exact H3|apply kept_bP; exact H3]).
  destruct (f_ondelete f); [exact H4|apply kept_bP; exact H4].
Qed.
Lemma kept_p_check P b k : kept P b -> kept P (p_check (bComma b) k).
Proof.
  intro H. unfold p_check. apply (kept_bP P [K_CHECK; check_expr (k_expr k)]).
  destruct (k_name k); [apply kept_bComma; exact H|apply kept_bIdent, kept_bP, kept_bComma; exact H].
Qed.
Lemma kept_fold_checks P cks : forall b, kept P b -> kept P (fold_left (fun b k => p_check (bComma b) k) cks b).
Proof. induction cks as [|k cks IH]; intros b H; [exact H|]. cbn [fold_left]. apply IH. apply kept_p_check. exact H. Qed.

(** ** the columns before, the column, the columns after *)
Lemma p_columns_app x l1 : forall b first l2,
  p_columns x b first (l1 ++ l2) =
  match p_columns x b first l1 with
  | Some b1 => p_columns x b1 (first && is_nil l1) l2
  | None => None
  end.
Proof.
  induction l1 as [|c l1 IH]; intros b first l2; [cbn [app p_columns is_nil]; rewrite andb_true_r; reflexivity|].
  cbn [app p_columns]. destruct (p_column x (if first then b else bComma b) c) as [b'|]; [|reflexivity].
  rewrite IH. cbn [is_nil]. rewrite andb_false_r. destruct (p_columns x b' false l1); reflexivity.
Qed.

Definition type_ok (T : bytes) : Prop :=
  T <> [] /\ N.eqb (last_byte T) 32 = false /\ forallb not_comma T = true.
Definition W_NOT_NULL_text (null : bool) : bytes := (if null then [] else W_NOT ++ [32]) ++ W_NULL ++ [32].

Lemma bP_one b p : bP b [p] = bP1 b p. Proof. reflexivity. Qed.
Lemma bP_three b p q r : bP b [p; q; r] = bP1 (bP1 (bP1 b p) q) r. Proof. reflexivity. Qed.

(** the text [column] writes for a generated column (no DEFAULT, not AUTOINCREMENT) *)
Lemma p_column_generated x bb c e ty :
  bb <> [] -> c_gen c = Some (e, ty) -> has_autoinc x (c_name c) = false -> c_default c = None ->
  c_class c <> 0 -> name_ok (c_name c) -> type_ok (c_T c) -> may_wrap e <> [] -> N.eqb (last_byte (may_wrap e)) 32 = false ->
  exists tail, tail <> [] /\
    p_column x bb c = Some ((bb ++ bt_ident (c_name c) ++ [32] ++ c_T c ++ [32] ++ W_NOT_NULL_text (c_null c) ++ K_AS ++ [32] ++ may_wrap e) ++ tail).
Proof.
  intros Hbb Hg Ha Hd Hcls [Hn Hnw] (HT1 & HT2 & _) He1 He2. unfold p_column.
  apply N.eqb_neq in Hcls. rewrite Hcls, Hd, Ha, Hg. rewrite bP_three, !bP_one.
  unfold bIdent. rewrite (esc_ident_word _ Hnw). destruct (c_name c) as [|n0 n] eqn:En; [contradiction|]. rewrite <- En.
  set (b0 := bb ++ ch_bt :: c_name c ++ [ch_bt; 32]).
  assert (b0 <> []) as Hb0 by (unfold b0; destruct bb; discriminate).
  assert (last_byte b0 = 32) as Hl0.
  { unfold b0. rewrite last_byte_app by discriminate.
    replace (ch_bt :: c_name c ++ [ch_bt; 32]) with ((ch_bt :: c_name c ++ [ch_bt]) ++ [32]).
    - apply last_byte_snoc.
    - cbn [app]. rewrite <- app_assoc. reflexivity. }
  rewrite (bP1_sp b0 (c_T c) Hb0 Hl0 HT1 HT2).
  set (b1 := b0 ++ c_T c ++ [32]).
  assert (b1 <> []) as Hb1 by (unfold b1; destruct b0; [contradiction|discriminate]).
  assert (last_byte b1 = 32) as Hl1 by (unfold b1; rewrite app_assoc; apply last_byte_snoc).
  assert (bP1 (if c_null c then b1 else bP1 b1 W_NOT) W_NULL = b1 ++ W_NOT_NULL_text (c_null c)) as ->.
  { unfold W_NOT_NULL_text. destruct (c_null c); cbn [app].
    - rewrite (bP1_sp b1 W_NULL Hb1 Hl1) by (discriminate || reflexivity). reflexivity.
    - rewrite (bP1_sp b1 W_NOT Hb1 Hl1) by (discriminate || reflexivity).
      rewrite bP1_sp; [| destruct b1; [contradiction|discriminate] | rewrite app_assoc; apply last_byte_snoc | discriminate | reflexivity].
      repeat rewrite <- app_assoc. reflexivity. }
  set (b2 := b1 ++ W_NOT_NULL_text (c_null c)).
  assert (b2 <> []) as Hb2n by (unfold b2; destruct b1; [contradiction|discriminate]).
  assert (last_byte b2 = 32) as Hl2.
  { unfold b2, W_NOT_NULL_text. rewrite !app_assoc. apply last_byte_snoc. }
  rewrite (bP1_sp b2 K_AS Hb2n Hl2) by (discriminate || reflexivity).
  rewrite (bP1_sp (b2 ++ K_AS ++ [32]) (may_wrap e)); [| destruct b2; [contradiction|discriminate] | rewrite app_assoc; apply last_byte_snoc | exact He1 | exact He2].
  set (b3 := (b2 ++ K_AS ++ [32]) ++ may_wrap e ++ [32]).
  assert (b3 = (bb ++ bt_ident (c_name c) ++ [32] ++ c_T c ++ [32] ++ W_NOT_NULL_text (c_null c) ++ K_AS ++ [32] ++ may_wrap e) ++ [32]) as Hb3.
  { unfold b3, b2, b1, b0, bt_ident. repeat rewrite <- app_assoc. cbn [app]. repeat rewrite <- app_assoc. reflexivity. }
  destruct ty as [|t0 ty].
  - exists [32]. split; [discriminate|]. cbn [bP1]. rewrite Hb3. reflexivity.
  - assert (b3 <> []) as Hb3n by (rewrite Hb3; destruct (bb ++ bt_ident (c_name c) ++ [32] ++ c_T c ++ [32] ++ W_NOT_NULL_text (c_null c) ++ K_AS ++ [32] ++ may_wrap e); discriminate).
    assert (last_byte b3 = 32) as Hl3 by (rewrite Hb3; apply last_byte_snoc).
    assert (exists z, z <> [] /\ bP1 b3 (t0 :: ty) = b3 ++ z) as (z & Hz & ->).
    { unfold bP1. destruct b3 as [|h3 r3]; [contradiction|]. rewrite Hl3. change (N.eqb 32 32) with true. cbn [orb].
      destruct (N.eqb (last_byte (t0 :: ty)) 32); eexists; (split; [|rewrite <- ?app_assoc; reflexivity]); discriminate. }
    exists ([32] ++ z). split; [discriminate|]. rewrite Hb3. rewrite <- app_assoc. reflexivity.
Qed.

(** strings.TrimSpace at the end of the statement does not reach a prefix that ends in a non-space byte *)
Lemma skip_rev_keeps (u R : bytes) : (match R with c :: _ => is_go_space c = false | [] => False end) ->
  exists u', skip_while is_go_space (u ++ R) = u' ++ R.
Proof.
  intro HR. induction u as [|c u IH].
  - exists []. cbn [app]. destruct R as [|c R]; [contradiction|]. cbn [skip_while]. rewrite HR. reflexivity.
  - cbn [app skip_while]. destruct (is_go_space c); [exact IH|]. exists (c :: u). reflexivity.
Qed.
Lemma trim_keeps_prefix h p t : is_go_space h = false -> is_go_space (last_byte (h :: p)) = false ->
  exists t', trim_space ((h :: p) ++ t) = (h :: p) ++ t'.
Proof.
  intros Hh Hl. unfold trim_space. cbn [app skip_while]. rewrite Hh.
  change (h :: p ++ t) with ((h :: p) ++ t). rewrite rev_app_distr.
  destruct (skip_rev_keeps (rev t) (rev (h :: p))) as (u' & ->).
  - rewrite (rev_last_byte (h :: p)) by discriminate. exact Hl.
  - exists (rev u'). rewrite rev_app_distr, rev_involutive. reflexivity.
Qed.

Lemma kept_good P b : kept P b -> good 67 b -> P <> [] -> exists p, P = 67 :: p.
Proof.
  intros (t & -> & _) (r & E & _) HP. destruct P as [|h p]; [contradiction|]. cbn [app] in E. inversion E; subst. eauto.
Qed.

(** everything addTable does after the columns *)
Definition finish_table (x : xtable) (bc : bytes) : bytes :=
  let b2 := match t_pk (x_t x) with
            | Some pk => if autoincPK x pk then bc else p_parts (bP (bComma bc) [W_PRIMARY_KEY]) (i_parts pk)
            | None => bc
            end in
  let b3 := match t_fks (x_t x) with
            | [] => b2
            | fks => bMapComma (bComma b2) true fks p_fk
            end in
  bString (bMapComma (bClose (fold_left (fun b k => p_check (bComma b) k) (t_checks (x_t x)) b3)) true
                     (table_opts (x_t x)) (fun b o => bP b [o])).
Definition table_head (x : xtable) : bytes := bIdent (bP [] [W_CREATE_TABLE]) (t_name (x_t x)) ++ [ch_lp].

Lemma print_table_finish x :
  print_table x = match p_columns x (table_head x) true (t_cols (x_t x)) with
                  | Some bc => Some (finish_table x bc)
                  | None => None
                  end.
Proof.
  unfold print_table, print_body, finish_table, table_head.
  destruct (p_columns x (bIdent (bP [] [W_CREATE_TABLE]) (t_name (x_t x)) ++ [ch_lp]) true (t_cols (x_t x))); reflexivity.
Qed.

Lemma finish_kept x P p bc : kept P bc -> P = 67 :: p -> is_go_space (last_byte P) = false ->
  exists t', finish_table x bc = P ++ t'.
Proof.
  intros K1 HP HlP. unfold finish_table.
  set (b2 := match t_pk (x_t x) with
             | Some pk => if autoincPK x pk then bc else p_parts (bP (bComma bc) [W_PRIMARY_KEY]) (i_parts pk)
             | None => bc end).
  assert (kept P b2) as K2.
  { unfold b2. destruct (t_pk (x_t x)) as [pk|]; [|exact K1]. destruct (autoincPK x pk); [exact K1|].
    apply kept_p_parts, kept_bP, kept_bComma. exact K1. }
  set (b3 := match t_fks (x_t x) with [] => b2 | f :: l => bMapComma (bComma b2) true (f :: l) p_fk end).
  assert (kept P b3) as K3.
  { unfold b3. destruct (t_fks (x_t x)) as [|f l]; [exact K2|].
    apply (kept_bMapComma P p_fk (f :: l)); [intros; apply kept_p_fk; assumption|apply kept_bComma; exact K2]. }
  assert (kept P (bMapComma (bClose (fold_left (fun b k => p_check (bComma b) k) (t_checks (x_t x)) b3)) true
                            (table_opts (x_t x)) (fun b o => bP b [o]))) as K4.
  { apply kept_bMapComma; [intros; apply kept_bP; assumption|]. apply kept_bClose, kept_fold_checks. exact K3. }
  destruct K4 as (t & Ht & _). unfold bString. rewrite Ht. rewrite HP in *.
  exact (trim_keeps_prefix 67 p t eq_refl HlP).
Qed.

(** where the generated column [c] of a table ends up in the printed CREATE TABLE *)
Theorem gen_column_in_table x cols1 c cols2 e ty txt :
  t_cols (x_t x) = cols1 ++ c :: cols2 -> c_gen c = Some (e, ty) -> has_autoinc x (c_name c) = false ->
  c_default c = None -> c_class c <> 0 -> name_ok (c_name c) -> type_ok (c_T c) ->
  may_wrap e <> [] -> is_go_space (last_byte (may_wrap e)) = false ->
  print_table x = Some txt ->
  exists pre c0 sp1 rest,
    txt = pre ++ c0 :: sp1 ++ bt_ident (c_name c) ++ ([32] ++ c_T c ++ [32] ++ W_NOT_NULL_text (c_null c)) ++ K_AS ++ [32] ++ may_wrap e ++ rest /\
    open_ch c0 = true /\ forallb is_space sp1 = true.
Proof.
  intros Hcols Hg Ha Hd Hcls Hn HT He1 He2 Hpt.
  assert (N.eqb (last_byte (may_wrap e)) 32 = false) as He2'.
  { destruct (N.eqb (last_byte (may_wrap e)) 32) eqn:E; [|reflexivity]. apply N.eqb_eq in E. rewrite E in He2. discriminate. }
  rewrite print_table_finish, Hcols, p_columns_app in Hpt.
  assert (good 67 (table_head x)) as G0.
  { apply good_app, good_bIdent. exists (tl (bP [] [W_CREATE_TABLE])). split; [reflexivity|discriminate]. }
  destruct (p_columns x (table_head x) true cols1) as [b1|] eqn:E1; [|discriminate].
  pose proof (good_p_columns 67 x _ _ _ _ G0 E1) as G1.
  cbn [p_columns andb] in Hpt.
  set (bb := if is_nil cols1 then b1 else bComma b1) in *.
  assert (good 67 bb) as Gbb by (unfold bb; destruct (is_nil cols1); [exact G1|apply good_bComma; exact G1]).
  assert (bb <> []) as Hbbn by (destruct Gbb as (r & -> & _); discriminate).
  destruct (p_column_generated x bb c e ty Hbbn Hg Ha Hd Hcls Hn HT He1 He2') as (tail & Htail & Hpc).
  rewrite Hpc in Hpt.
  set (P := bb ++ bt_ident (c_name c) ++ [32] ++ c_T c ++ [32] ++ W_NOT_NULL_text (c_null c) ++ K_AS ++ [32] ++ may_wrap e) in *.
  assert (kept P (P ++ tail)) as K0 by (exists tail; auto).
  destruct (p_columns x (P ++ tail) false cols2) as [bc|] eqn:E2; [|discriminate].
  pose proof (kept_p_columns P x _ _ _ _ K0 E2) as K1.
  assert (exists p, P = 67 :: p) as (p & HP).
  { destruct Gbb as (r & Hr & _). unfold P. rewrite Hr. eexists. cbn [app]. reflexivity. }
  assert (is_go_space (last_byte P) = false) as HlP.
  { unfold P. rewrite !app_assoc. rewrite last_byte_app by exact He1. exact He2. }
  destruct (finish_kept x P p bc K1 HP HlP) as (t' & Hfin). rewrite Hfin in Hpt. injection Hpt as <-.
  unfold P, bb. destruct cols1 as [|c1 cols1]; cbn [is_nil].
  - cbn [p_columns] in E1. injection E1 as <-.
    exists (bIdent (bP [] [W_CREATE_TABLE]) (t_name (x_t x))), ch_lp, [], t'.
    split; [|split; reflexivity]. unfold table_head. repeat rewrite <- app_assoc. reflexivity.
  - destruct G1 as (r1 & Hr1 & Hr1n).
    exists (norm b1), ch_comma, [32], t'. split; [|split; reflexivity].
    rewrite (bComma_norm b1) by (rewrite Hr1; discriminate). unfold sep. repeat rewrite <- app_assoc. reflexivity.
Qed.

Lemma wrapped_ends e : wrapped e -> e <> [] /\ is_go_space (last_byte e) = false.
Proof.
  intros (b & p & -> & _). split; [discriminate|].
  change (ch_lp :: b ++ [ch_rp]) with ((ch_lp :: b) ++ [ch_rp]). rewrite last_byte_snoc. reflexivity.
Qed.

Lemma not_null_text_nocomma null : forallb not_comma (W_NOT_NULL_text null) = true.
Proof. destruct null; reflexivity. Qed.

(** C03_regex_inverts_printer for generated columns, on the printer: for every table [x] the planner prints
    and every generated column [c] of it (name in \w+, comma-free type text, wrapped expression), the printed
    text has the column at a position [n]; if no match of the column's regexp starts before [n] and no
    further "AS (" follows the expression in its comma-free stretch, setGenExpr returns the expression. *)
Theorem set_gen_expr_print_table x cols1 c cols2 e ty txt :
  t_cols (x_t x) = cols1 ++ c :: cols2 -> c_gen c = Some (e, ty) -> has_autoinc x (c_name c) = false ->
  c_default c = None -> c_class c <> 0 -> name_ok (c_name c) -> type_ok (c_T c) -> wrapped (may_wrap e) ->
  print_table x = Some txt ->
  exists n rest,
    (no_start_before _ (match_gen_at (c_name c)) txt n = true -> last_as (tl (may_wrap e) ++ rest) = None ->
     set_gen_expr (c_name c) txt = GenOk (may_wrap e)).
Proof.
  intros Hcols Hg Ha Hd Hcls Hn HT Hw Hpt.
  destruct (wrapped_ends _ Hw) as [He1 He2].
  destruct (gen_column_in_table x cols1 c cols2 e ty txt Hcols Hg Ha Hd Hcls Hn HT He1 He2 Hpt)
    as (pre & c0 & sp1 & rest & -> & Hc0 & Hsp).
  exists (length pre), rest. intros Hns Hlast.
  apply (set_gen_expr_printed (c_name c) pre c0 sp1 32 (c_T c ++ [32] ++ W_NOT_NULL_text (c_null c)) [32] (may_wrap e) rest);
    try assumption; try reflexivity.
  destruct HT as (_ & _ & HTc). rewrite !forallb_app, HTc, not_null_text_nocomma. reflexivity.
Qed.

(** ** the AUTOINCREMENT column *)
Lemma p_column_autoinc x bb c :
  bb <> [] -> c_gen c = None -> has_autoinc x (c_name c) = true -> c_default c = None ->
  c_class c <> 0 -> name_ok (c_name c) -> type_ok (c_T c) ->
  p_column x bb c = Some ((bb ++ bt_ident (c_name c) ++ [32] ++ c_T c ++ [32] ++ W_NOT_NULL_text (c_null c) ++ W_PK_AUTOINC) ++ [32]).
Proof.
  intros Hbb Hg Ha Hd Hcls [Hn Hnw] (HT1 & HT2 & _). unfold p_column.
  apply N.eqb_neq in Hcls. rewrite Hcls, Hd, Ha, Hg. rewrite !bP_one.
  unfold bIdent. rewrite (esc_ident_word _ Hnw). destruct (c_name c) as [|n0 n] eqn:En; [contradiction|]. rewrite <- En.
  set (b0 := bb ++ ch_bt :: c_name c ++ [ch_bt; 32]).
  assert (b0 <> []) as Hb0 by (unfold b0; destruct bb; discriminate).
  assert (last_byte b0 = 32) as Hl0.
  { unfold b0. rewrite last_byte_app by discriminate.
    replace (ch_bt :: c_name c ++ [ch_bt; 32]) with ((ch_bt :: c_name c ++ [ch_bt]) ++ [32]).
    - apply last_byte_snoc.
    - cbn [app]. rewrite <- app_assoc. reflexivity. }
  rewrite (bP1_sp b0 (c_T c) Hb0 Hl0 HT1 HT2).
  set (b1 := b0 ++ c_T c ++ [32]).
  assert (b1 <> []) as Hb1 by (unfold b1; destruct b0; [contradiction|discriminate]).
  assert (last_byte b1 = 32) as Hl1 by (unfold b1; rewrite app_assoc; apply last_byte_snoc).
  assert (bP1 (if c_null c then b1 else bP1 b1 W_NOT) W_NULL = b1 ++ W_NOT_NULL_text (c_null c)) as ->.
  { unfold W_NOT_NULL_text. destruct (c_null c); cbn [app].
    - rewrite (bP1_sp b1 W_NULL Hb1 Hl1) by (discriminate || reflexivity). reflexivity.
    - rewrite (bP1_sp b1 W_NOT Hb1 Hl1) by (discriminate || reflexivity).
      rewrite bP1_sp; [| destruct b1; [contradiction|discriminate] | rewrite app_assoc; apply last_byte_snoc | discriminate | reflexivity].
      repeat rewrite <- app_assoc. reflexivity. }
  set (b2 := b1 ++ W_NOT_NULL_text (c_null c)).
  assert (b2 <> []) as Hb2n by (unfold b2; destruct b1; [contradiction|discriminate]).
  assert (last_byte b2 = 32) as Hl2.
  { unfold b2, W_NOT_NULL_text. rewrite !app_assoc. apply last_byte_snoc. }
  rewrite (bP1_sp b2 W_PK_AUTOINC Hb2n Hl2) by (discriminate || reflexivity).
  unfold b2, b1, b0, bt_ident. repeat rewrite <- app_assoc. cbn [app]. repeat rewrite <- app_assoc. reflexivity.
Qed.

Theorem autoinc_print_table x cols1 c cols2 txt :
  t_cols (x_t x) = cols1 ++ c :: cols2 -> c_gen c = None -> has_autoinc x (c_name c) = true ->
  c_default c = None -> c_class c <> 0 -> name_ok (c_name c) -> c_T c = t_integer ->
  print_table x = Some txt ->
  exists n,
    (no_start_before _ match_autoinc_at txt n = true ->
     autoinc txt (map c_name (t_cols (x_t x))) [c_name c] = AutoOk (c_name c)).
Proof.
  intros Hcols Hg Ha Hd Hcls Hn HT Hpt.
  assert (type_ok (c_T c)) as HTo by (rewrite HT; repeat split; (discriminate || reflexivity)).
  rewrite print_table_finish, Hcols, p_columns_app in Hpt.
  assert (good 67 (table_head x)) as G0.
  { apply good_app, good_bIdent. exists (tl (bP [] [W_CREATE_TABLE])). split; [reflexivity|discriminate]. }
  destruct (p_columns x (table_head x) true cols1) as [b1|] eqn:E1; [|discriminate].
  pose proof (good_p_columns 67 x _ _ _ _ G0 E1) as G1.
  cbn [p_columns andb] in Hpt.
  set (bb := if is_nil cols1 then b1 else bComma b1) in *.
  assert (good 67 bb) as Gbb by (unfold bb; destruct (is_nil cols1); [exact G1|apply good_bComma; exact G1]).
  assert (bb <> []) as Hbbn by (destruct Gbb as (r & -> & _); discriminate).
  rewrite (p_column_autoinc x bb c Hbbn Hg Ha Hd Hcls Hn HTo) in Hpt.
  set (P := bb ++ bt_ident (c_name c) ++ [32] ++ c_T c ++ [32] ++ W_NOT_NULL_text (c_null c) ++ W_PK_AUTOINC) in *.
  assert (kept P (P ++ [32])) as K0 by (exists [32]; split; [reflexivity|discriminate]).
  destruct (p_columns x (P ++ [32]) false cols2) as [bc|] eqn:E2; [|discriminate].
  pose proof (kept_p_columns P x _ _ _ _ K0 E2) as K1.
  assert (exists p, P = 67 :: p) as (p & HP).
  { destruct Gbb as (r & Hr & _). unfold P. rewrite Hr. eexists. cbn [app]. reflexivity. }
  assert (is_go_space (last_byte P) = false) as HlP.
  { unfold P. rewrite !app_assoc. rewrite last_byte_app by discriminate. reflexivity. }
  destruct (finish_kept x P p bc K1 HP HlP) as (t' & Hfin). rewrite Hfin in Hpt. injection Hpt as <-.
  assert (In (c_name c) (map c_name (t_cols (x_t x)))) as Hin.
  { rewrite Hcols, map_app. apply in_or_app. right. left. reflexivity. }
  unfold P, bb. rewrite HT. destruct cols1 as [|c1 cols1]; cbn [is_nil].
  - cbn [p_columns] in E1. injection E1 as <-. unfold table_head. repeat rewrite <- app_assoc. cbn [app].
    exists (length (bIdent (bP [] [W_CREATE_TABLE]) (t_name (x_t x)))). intro Hns.
    pose proof (autoinc_printed (c_name c) (bIdent (bP [] [W_CREATE_TABLE]) (t_name (x_t x))) ch_lp [] [] (W_NOT_NULL_text (c_null c)) t'
                  (map c_name (t_cols (x_t x))) Hn eq_refl eq_refl eq_refl (not_null_text_nocomma _) Hin) as Hap.
    exact (Hap Hns).
  - destruct G1 as (r1 & Hr1 & Hr1n).
    rewrite (bComma_norm b1) by (rewrite Hr1; discriminate). unfold sep. repeat rewrite <- app_assoc. cbn [app].
    exists (length (norm b1)). intro Hns.
    pose proof (autoinc_printed (c_name c) (norm b1) ch_comma [32] [] (W_NOT_NULL_text (c_null c)) t'
                  (map c_name (t_cols (x_t x))) Hn eq_refl eq_refl eq_refl (not_null_text_nocomma _) Hin) as Hap.
    exact (Hap Hns).
Qed.

(** ** the predicate of a partial index on the printed CREATE INDEX *)
Definition index_head (t : table) (i : index) : bytes :=
  let b1 := bP [] [W_CREATE] in
  let b2 := bP (if i_unique i then bP b1 [W_UNIQUE] else b1) [W_INDEX] in
  p_parts (bIdent (bP (bIdent b2 (i_name i)) [W_ON]) (t_name t)) (i_parts i).

Lemma bClose_last b : last_byte (bClose b) = ch_rp.
Proof. unfold bClose. destruct (N.eqb (last_byte b) 32); apply last_byte_snoc. Qed.

Lemma index_head_good t i : good 67 (index_head t i) /\ last_byte (index_head t i) = ch_rp.
Proof.
  unfold index_head. split.
  - apply good_p_parts, good_bIdent, good_bP, good_bIdent, good_bP.
    destruct (i_unique i); [apply good_bP|]; exists (tl (bP [] [W_CREATE])); split; (reflexivity || discriminate).
  - unfold p_parts, bWrap. apply bClose_last.
Qed.

(** for a trimmed, non-empty predicate [p]: if no match of reIdxWhere starts before the closing parenthesis
    of the index parts (")" + spaces + WHERE + white space inside a name or an expression of [index_head]),
    the predicate the inspector reads back is [p].  (Before the fix of addIndexes the premise was: the
    upper-case letters WHERE do not occur in the head at all.) *)
Lemma trim_space_sp_cons s : trim_space (32 :: s) = trim_space s.
Proof. reflexivity. Qed.
Theorem index_predicate_print_index t i0 i p txt :
  normalize_idx_name i0 t = Some i -> i_pred i = Some p -> p <> [] -> trim_space p = p ->
  is_go_space (last_byte p) = false ->
  print_index t i0 = Some txt ->
  no_start_before _ where_at txt (pred (length (index_head t i))) = true ->
  index_predicate txt = Some p.
Proof.
  intros Hn Hp Hne Htr Hlp Hpi Hns. unfold print_index in Hpi. rewrite Hn, Hp in Hpi.
  fold (index_head t i) in Hpi. destruct (index_head_good t i) as [(r & Hr & Hrn) Hl].
  set (b4 := index_head t i) in *.
  assert (bP (bP b4 [K_WHERE]) [p] = (b4 ++ [32] ++ K_WHERE ++ [32] ++ p) ++ [32]) as Hb.
  { rewrite !bP_one. rewrite (bP1_nosp b4 K_WHERE) by ((rewrite Hr; discriminate) || (rewrite Hl; reflexivity) || discriminate || reflexivity).
    rewrite bP1_sp; [| rewrite Hr; discriminate | rewrite !app_assoc; apply last_byte_snoc | exact Hne |].
    - repeat rewrite <- app_assoc. reflexivity.
    - destruct (N.eqb (last_byte p) 32) eqn:E; [|reflexivity]. apply N.eqb_eq in E. rewrite E in Hlp. discriminate. }
  rewrite Hb in Hpi. unfold bString in Hpi.
  assert (trim_space ((b4 ++ [32] ++ K_WHERE ++ [32] ++ p) ++ [32]) = b4 ++ [32] ++ K_WHERE ++ [32] ++ p) as Ht.
  { rewrite Hr. change ((67 :: r) ++ [32] ++ K_WHERE ++ [32] ++ p) with (67 :: (r ++ [32] ++ K_WHERE ++ [32] ++ p)).
    rewrite trim_space_snoc_sp by reflexivity. apply trim_space_id; [reflexivity|].
    replace (67 :: r ++ [32] ++ K_WHERE ++ [32] ++ p) with ((67 :: r ++ [32] ++ K_WHERE ++ [32]) ++ p)
      by (cbn [app]; repeat rewrite <- app_assoc; reflexivity).
    rewrite last_byte_app by exact Hne. exact Hlp. }
  rewrite Ht in Hpi. injection Hpi as <-.
  assert (b4 <> []) as Hb4 by (rewrite Hr; discriminate).
  destruct (exists_last Hb4) as (b5 & z & Eb).
  assert (z = ch_rp) as -> by (rewrite Eb in Hl; rewrite last_byte_snoc in Hl; exact Hl).
  destruct p as [|c p']; [contradiction|].
  assert (b4 ++ [32] ++ K_WHERE ++ [32] ++ c :: p' = b5 ++ ch_rp :: [32] ++ K_WHERE ++ 32 :: c :: p') as Etxt
    by (rewrite Eb; rewrite <- app_assoc; reflexivity).
  match goal with |- index_predicate ?x = _ => change x with (b4 ++ [32] ++ K_WHERE ++ [32] ++ c :: p') end.
  match type of Hns with no_start_before _ _ ?x _ = _ => change x with (b4 ++ [32] ++ K_WHERE ++ [32] ++ c :: p') in Hns end.
  rewrite Etxt in Hns. rewrite Etxt.
  rewrite (index_predicate_printed b5 [32] 32 c p'); [|reflexivity|reflexivity|].
  - f_equal. rewrite trim_space_sp_cons. exact Htr.
  - replace (length b5) with (pred (length b4)); [exact Hns|]. rewrite Eb, app_length. cbn [length]. rewrite Nat.add_1_r. reflexivity.
Qed.
