(** C17 item 1, the state-dependent condition [faithful_idx] reduced to a condition on the start
    state: a faithful DROP INDEX arm stays faithful while the plan executes, as long as no earlier
    change touches the index name ([fresh_drops]); and every DROP INDEX arm of a plan comes from an
    index of the planner's [from] schema ([from_ok]). *)
From Coq Require Import List NArith ZArith Bool Arith Lia Permutation.
From Atlas Require Import Base.Bytes Diff.Schema Diff.DiffModel Diff.DiffSqlite Diff.DiffProofs
  Lex.DownModel Sqlite.PlanModel Sqlite.EngineModel Sqlite.InspectModel Sqlite.ReverseModel
  Sqlite.ReverseProofs Sqlite.ReverseDropProofs.
Import ListNotations.

(** * [faithful_idx] through the table it is about *)

Definition faithful_in (ct : ctable) (n : str) (i : index) : Prop :=
  exists j, In j (ct_idx ct) /\ i_name j = n /\ inspect_index j = inspect_index i /\
    index_def_ok (ct_t ct) i = Ok tt /\
    match i_unique i, i_pred i, part_col_names (i_parts i) with
    | true, None, Some cols => has_dup_on cols (ct_rows ct) = false
    | _, _, _ => True
    end.

Lemma faithful_idx_in d n t i :
  faithful_idx d n t i <-> exists ct, find_ct t (db_tables d) = Some ct /\ faithful_in ct n i.
Proof.
  unfold faithful_idx, faithful_in. split.
  - intros (ct & j & Hf & Hj & Hn & Hi & Hd & Hr). exists ct. split; [exact Hf|]. exists j.
    repeat split; assumption.
  - intros (ct & Hf & j & Hj & Hn & Hi & Hd & Hr). exists ct, j. repeat split; assumption.
Qed.

(** * finding a table after the forward statements *)

Lemma find_ct_app_l n l r ct : find_ct n l = Some ct -> find_ct n (l ++ r) = Some ct.
Proof.
  unfold find_ct. induction l as [|c l IH]; simpl; [discriminate|].
  destruct (str_eqb (ct_name c) n); [auto|exact IH].
Qed.

Lemma find_ct_update_other n n2 f l :
  (forall c, ct_name (f c) = ct_name c) -> str_eqb n2 n = false ->
  find_ct n (update_ct n2 f l) = find_ct n l.
Proof.
  intros Hf Hne. unfold find_ct. induction l as [|c l IH]; simpl; [reflexivity|].
  destruct (str_eqb (ct_name c) n2) eqn:E2; simpl.
  - rewrite Hf. destruct (str_eqb (ct_name c) n) eqn:E; [|reflexivity].
    apply str_eqb_eq in E2, E. rewrite <- E2, E in Hne. now rewrite str_eqb_refl in Hne.
  - destruct (str_eqb (ct_name c) n); [reflexivity|exact IH].
Qed.

Lemma find_ct_map n g l :
  (forall c, ct_name (g c) = ct_name c) ->
  find_ct n (map g l) = option_map g (find_ct n l).
Proof.
  intros Hg. unfold find_ct. induction l as [|c l IH]; simpl; [reflexivity|].
  rewrite Hg. destruct (str_eqb (ct_name c) n); [reflexivity|exact IH].
Qed.

(** * [index_def_ok] and the row condition when a column is added *)

Lemma first_err_mono {A} (f g : A -> result unit) l :
  (forall a, f a = Ok tt -> g a = Ok tt) -> first_err f l = Ok tt -> first_err g l = Ok tt.
Proof.
  intros H. induction l as [|x l IH]; simpl; [auto|].
  destruct (f x) as [[]|] eqn:E; [|discriminate]. rewrite (H x E). exact IH.
Qed.

Lemma index_def_ok_mono t t' i :
  (forall x, has_col t x = true -> has_col t' x = true) ->
  index_def_ok t i = Ok tt -> index_def_ok t' i = Ok tt.
Proof.
  intros M. unfold index_def_ok. destruct (i_name i); [auto|]. destruct (reserved_name _); [auto|].
  destruct (i_parts i) as [|p0 ps0]; [auto|]. apply first_err_mono. intros q. unfold part_ok_b.
  destruct (p_col q) as [c|]; [|auto]. destruct (has_col t c) eqn:E; [|discriminate]. now rewrite (M c E).
Qed.

Lemma index_cols_exist t i cols :
  index_def_ok t i = Ok tt -> part_col_names (i_parts i) = Some cols ->
  forall c, In c cols -> has_col t c = true.
Proof.
  unfold index_def_ok. destruct (i_name i); [discriminate|]. destruct (reserved_name _); [discriminate|].
  destruct (i_parts i) as [|p0 ps0] eqn:Ep; [discriminate|]. rewrite <- Ep. clear Ep.
  revert cols. induction (i_parts i) as [|p ps IH]; intros cols Hok Hn c Hc; simpl in *.
  - inversion Hn; subst. contradiction.
  - destruct (part_ok_b t p) as [[]|] eqn:Ep; [|discriminate].
    destruct (p_col p) as [cn|] eqn:Ec; [|discriminate].
    destruct (part_col_names ps) as [rest|] eqn:Er; [|discriminate]. inversion Hn; subst cols.
    destruct Hc as [<-|Hc].
    + unfold part_ok_b in Ep. rewrite Ec in Ep. destruct (has_col t cn); [reflexivity|discriminate].
    + exact (IH rest Hok eq_refl c Hc).
Qed.

Lemma row_get_app_other (r : row) cn v c :
  str_eqb cn c = false -> row_get (fst r, snd r ++ [(cn, v)]) c = row_get r c.
Proof.
  intros Hne. unfold row_get. simpl. induction (snd r) as [|[k w] cells IH]; simpl.
  - now rewrite Hne.
  - destruct (str_eqb k c); [reflexivity|exact IH].
Qed.

Lemma forallb_ext_in' {A} (f g : A -> bool) l : (forall x, In x l -> f x = g x) -> forallb f l = forallb g l.
Proof.
  induction l as [|x l IH]; intros H; simpl; [reflexivity|].
  rewrite (H x (or_introl eq_refl)), IH; [reflexivity|]. intros y Hy. apply H. now right.
Qed.

Lemma has_dup_on_ext cols (g : row -> row) l :
  (forall r c, In c cols -> row_get (g r) c = row_get r c) ->
  has_dup_on cols (map g l) = has_dup_on cols l.
Proof.
  intros H. induction l as [|r l IH]; simpl; [reflexivity|]. rewrite IH. f_equal. f_equal.
  - apply forallb_ext_in'. intros c Hc. now rewrite H.
  - rewrite existsb_map'. apply existsb_ext'. intros r'. apply forallb_ext_in'. intros c Hc. now rewrite !H.
Qed.

(** * one forward statement keeps a faithful arm faithful *)

Lemma faithful_in_add_col c vo ct n i :
  has_col (ct_t ct) (c_name c) = false -> faithful_in ct n i -> faithful_in (add_col_in c vo ct) n i.
Proof.
  intros Hfresh (j & Hj & Hn & Hi & Hd & Hr).
  assert (Et : ct_t (add_col_in c vo ct) = add_col (ct_t ct) c) by (destruct ct as [[t a] u r]; reflexivity).
  assert (Ei : ct_idx (add_col_in c vo ct) = ct_idx ct) by (destruct ct as [[t a] u r]; destruct t; reflexivity).
  exists j. rewrite Ei, Et. repeat split; try assumption.
  - exact (index_def_ok_mono _ _ _ (has_col_add (ct_t ct) c) Hd).
  - destruct (i_unique i); [|exact I]. destruct (i_pred i); [exact I|].
    destruct (part_col_names (i_parts i)) as [cols|] eqn:Ec; [|exact I].
    unfold add_col_in. cbn [ct_rows]. destruct vo as [v|]; [|exact Hr].
    rewrite has_dup_on_ext; [exact Hr|]. intros r x Hx. apply row_get_app_other.
    rewrite str_eqb_sym. exact (has_col_true_neq _ _ _ (index_cols_exist _ _ _ Hd Ec x Hx) Hfresh).
Qed.

Lemma faithful_in_add_idx i2 ct n i : faithful_in ct n i -> faithful_in (add_idx_in i2 ct) n i.
Proof.
  intros (j & Hj & Hn & Hi & Hd & Hr). exists j.
  rewrite add_idx_in_with, ct_idx_with, index_def_ok_with, ct_rows_with.
  repeat split; try assumption. apply in_or_app. now left.
Qed.

Lemma faithful_in_drop_idx m ct n i :
  str_eqb m n = false -> faithful_in ct n i -> faithful_in (drop_idx_in m ct) n i.
Proof.
  intros Hne (j & Hj & Hn & Hi & Hd & Hr). exists j.
  rewrite drop_idx_in_with, ct_idx_with, index_def_ok_with, ct_rows_with.
  repeat split; try assumption. apply filter_In. split; [exact Hj|].
  rewrite Hn, str_eqb_sym, Hne. reflexivity.
Qed.

Lemma faithful_step pc d dm n t i :
  good2 pc = true -> touches pc n = false -> exec d (pc_cmd pc) = Ok dm ->
  faithful_idx d n t i -> faithful_idx dm n t i.
Proof.
  intros G T E F. apply faithful_idx_in in F as (ct & Hf & Fin). apply faithful_idx_in.
  unfold good2, good, additive, is_drop_idx, drop_index_arm, touches in *.
  destruct (pc_cmd pc) as [x us|m|a b|t2 c ai|t2 c|t2 a b|t2 i2|m|tt0 tc ft fe|on] eqn:Ec; simpl in E.
  - (* CREATE TABLE *)
    destruct (create_table_shape _ _ _ _ E) as (c & -> & _). exists ct. split; [|exact Fin].
    cbn [db_tables set_tables]. now apply find_ct_app_l.
  - (* DROP TABLE: not an arm *)
    destruct (pc_reverse pc) as [|[] [|]]; discriminate.
  - destruct (pc_reverse pc) as [|[] [|]]; discriminate.
  - (* ADD COLUMN *)
    destruct (add_column_shape _ _ _ _ _ E) as (ct2 & vo & Hf2 & Hfresh & ->).
    cbn [db_tables set_tables].
    assert (Hnm : forall c0, ct_name (add_col_in c vo c0) = ct_name c0) by (intros [[t0 a0] u0 r0]; reflexivity).
    destruct (str_eqb t2 t) eqn:Et.
    + apply str_eqb_eq in Et. subst t2. rewrite Hf in Hf2. inversion Hf2; subst ct2.
      exists (add_col_in c vo ct). split; [exact (update_ct_find _ _ _ _ Hf (Hnm ct))|].
      now apply faithful_in_add_col.
    + exists ct. split; [|exact Fin]. now rewrite (find_ct_update_other _ _ _ _ Hnm Et).
  - destruct (pc_reverse pc) as [|[] [|]]; discriminate.
  - destruct (pc_reverse pc) as [|[] [|]]; discriminate.
  - (* CREATE INDEX *)
    destruct (create_index_shape _ _ _ _ E) as (ct2 & Hf2 & _ & _ & ->).
    cbn [db_tables set_tables].
    assert (Hnm : forall c0, ct_name (add_idx_in i2 c0) = ct_name c0) by (intros c0; rewrite add_idx_in_with; apply ct_name_with).
    destruct (str_eqb t2 t) eqn:Et.
    + apply str_eqb_eq in Et. subst t2. rewrite Hf in Hf2. inversion Hf2; subst ct2.
      exists (add_idx_in i2 ct). split; [exact (update_ct_find _ _ _ _ Hf (Hnm ct))|].
      now apply faithful_in_add_idx.
    + exists ct. split; [|exact Fin]. now rewrite (find_ct_update_other _ _ _ _ Hnm Et).
  - (* DROP INDEX m, m <> n *)
    apply drop_index_shape in E as [_ ->]. cbn [db_tables set_tables].
    exists (drop_idx_in m ct). split.
    + rewrite find_ct_map by (intros c0; rewrite drop_idx_in_with; apply ct_name_with). now rewrite Hf.
    + now apply faithful_in_drop_idx.
  - destruct (pc_reverse pc) as [|[] [|]]; discriminate.
  - destruct (pc_reverse pc) as [|[] [|]]; discriminate.
Qed.

(** * from the start state to every state of the run *)

Lemma static_conds l : forall d,
  forallb good2 l = true -> fresh_drops l = true -> drops_faithful d l ->
  droppable_along d l -> conds d l.
Proof.
  induction l as [|pc l IH]; intros d G FD DF DA; simpl; [exact I|].
  simpl in G, FD, DA. apply andb_true_iff in G as [G1 G2]. apply andb_true_iff in FD as [F1 F2].
  split.
  - destruct (drop_index_arm pc) as [[[n t] i]|] eqn:Ea; [|exact I].
    exact (DF pc n t i (or_introl eq_refl) Ea).
  - intros dm E. destruct (DA dm E) as [DR DA']. split; [exact DR|].
    apply IH; try assumption.
    intros pc2 n t i Hin Ea. rewrite forallb_forall in F1. specialize (F1 pc2 Hin). rewrite Ea in F1.
    apply negb_true_iff in F1.
    exact (faithful_step pc d dm n t i G1 F1 E (DF pc2 n t i (or_intror Hin) Ea)).
Qed.

(** * where the DROP INDEX arms of a plan come from *)

Definition from_arm (from : xschema) (pc : pchange) : Prop :=
  forall n t i', drop_index_arm pc = Some (n, t, i') ->
  exists xf m k i tt,
    find_xtable t from = Some xf /\ find_idx m (t_idx (x_t xf)) = Some (k, i) /\
    t_name tt = t /\ normalize_idx_name i tt = Some i' /\ n = i_name i'.

Lemma not_arm_create pc : (exists t i, pc_cmd pc = SCreateIndex t i) \/ (exists x u, pc_cmd pc = SCreateTable x u)
  \/ (exists t c a, pc_cmd pc = SAddColumn t c a) \/ pc_reverse pc = [] -> drop_index_arm pc = None.
Proof.
  unfold drop_index_arm. intros [(t & i & ->)|[(x & u & ->)|[(t & c & a & ->)|H]]]; try reflexivity.
  rewrite H. destruct (pc_cmd pc); reflexivity.
Qed.

Lemma addIndexes_no_arm t l r : addIndexes t l = Some r -> forall pc, In pc r -> drop_index_arm pc = None.
Proof.
  revert r; induction l as [|i l IH]; simpl; intros r H pc Hin.
  - inversion H; subst; contradiction.
  - destruct (normalize_idx_name i t) as [i'|]; [|discriminate].
    destruct (addIndexes t l) as [r'|]; [|discriminate]. inversion H; subst r.
    destruct Hin as [<-|Hin]; [reflexivity|exact (IH r' eq_refl pc Hin)].
Qed.

Lemma addTable_no_arm x r : addTable x = Some r -> forall pc, In pc r -> drop_index_arm pc = None.
Proof.
  unfold addTable. intros H pc Hin.
  destruct (negb (forallb (column_ok x) (t_cols (x_t x)))); [discriminate|].
  destruct (addIndexes (x_t x) (t_idx (x_t x))) as [idxs|] eqn:E; [|discriminate].
  inversion H; subst r. destruct Hin as [<-|Hin]; [reflexivity|exact (addIndexes_no_arm _ _ _ E pc Hin)].
Qed.

Lemma dropIndexes_arm from xf t (tt : table) m k i r :
  find_xtable t from = Some xf -> find_idx m (t_idx (x_t xf)) = Some (k, i) -> t_name tt = t ->
  dropIndexes tt [i] = Some r -> forall pc, In pc r -> from_arm from pc.
Proof.
  intros Hx Hi Ht. unfold dropIndexes. simpl.
  destruct (normalize_idx_name i tt) as [i'|] eqn:En; [|discriminate].
  intros H; inversion H; subst r; clear H. intros pc [<-|[]].
  intros n t0 i0 Ha. unfold drop_index_arm in Ha. simpl in Ha. rewrite str_eqb_refl in Ha.
  inversion Ha; subst. exists xf, m, k, i, tt. auto.
Qed.

Lemma alterTable_arms from xf t tox cs : forall r,
  find_xtable t from = Some xf -> t_name (x_t tox) = t ->
  alterTable (x_t xf) tox cs = Some r -> forall pc, In pc r -> from_arm from pc.
Proof.
  induction cs as [|c cs IH]; intros r Hx Ht H pc Hin; simpl in H.
  - inversion H; subst; contradiction.
  - match type of H with match ?here with _ => _ end = _ => destruct here as [a|] eqn:Eh; [|discriminate] end.
    destruct (alterTable (x_t xf) tox cs) as [b|] eqn:Eb; [|discriminate].
    inversion H; subst r. apply in_app_or in Hin as [Hin|Hin]; [|exact (IH b Hx Ht eq_refl pc Hin)].
    destruct c; try discriminate.
    + destruct (find_col c (t_cols (x_t tox))) as [col|]; [|discriminate].
      destruct (column_ok tox col); [|discriminate]. inversion Eh; subst a.
      destruct Hin as [<-|[]]. intros n0 t0 i0 Ha. discriminate.
    + destruct (find_idx n (t_idx (x_t tox))) as [[k i]|]; [|discriminate].
      intros n0 t0 i0 Ha. rewrite (addIndexes_no_arm (x_t tox) [i] a Eh pc Hin) in Ha. discriminate.
    + destruct (find_idx n (t_idx (x_t xf))) as [[k i]|] eqn:Ei; [|discriminate].
      exact (dropIndexes_arm from xf t (x_t tox) n k i a Hx Ei Ht Eh pc Hin).
Qed.

Lemma modifyTable_arms from xf t tox cs r sk :
  find_xtable t from = Some xf -> t_name (x_t tox) = t ->
  modifyTable (x_t xf) tox cs = Some (r, sk) -> forall pc, In pc r -> from_arm from pc.
Proof.
  unfold modifyTable. intros Hx Ht H pc Hin.
  destruct (alterable (x_t tox) cs).
  - destruct (alterTable (x_t xf) tox cs) as [r'|] eqn:E; [|discriminate]. inversion H; subst r sk.
    exact (alterTable_arms from xf t tox cs r' Hx Ht E pc Hin).
  - match type of H with match addTable ?X with _ => _ end = _ => destruct (addTable X) as [created|] eqn:Ea; [|discriminate] end.
    match type of H with match copyRows ?A ?B ?C with _ => _ end = _ => destruct (copyRows A B C) as [ins|] eqn:Ei; [|discriminate] end.
    destruct (addIndexes (x_t tox) (t_idx (x_t tox))) as [idxs|] eqn:Ex; [|discriminate].
    inversion H; subst r sk. clear H. intros n0 t0 i0 Ha.
    assert (N : drop_index_arm pc = None); [|rewrite N in Ha; discriminate].
    apply in_app_or in Hin as [Hin|Hin]; [exact (addTable_no_arm _ _ Ea pc Hin)|].
    apply in_app_or in Hin as [Hin|Hin].
    + destruct ins as [ic|]; [|contradiction]. destruct Hin as [<-|[]].
      unfold copyRows in Ei. destruct (copy_cols _ cs) as [[|pr prs]|]; try discriminate; inversion Ei; reflexivity.
    + destruct Hin as [<-|[<-|Hin]]; [reflexivity|reflexivity|exact (addIndexes_no_arm _ _ _ Ex pc Hin)].
Qed.

Lemma find_xtable_name n l x : find_xtable n l = Some x -> x_name x = n.
Proof. unfold find_xtable. intros H. apply find_some in H as [_ H]. now apply str_eqb_eq in H. Qed.

Lemma normalized_to_name x x' : normalized_to x = Some x' -> t_name (x_t x') = t_name (x_t x).
Proof.
  unfold normalized_to. destruct (normalize_idxs (x_t x) (t_idx (x_t x))); [|discriminate].
  intros H; inversion H. reflexivity.
Qed.

Lemma plan_loop_arms from to cs : forall s s',
  (forall pc, In pc (ps_changes s) -> from_arm from pc) ->
  plan_loop from to cs s = Some s' -> forall pc, In pc (ps_changes s') -> from_arm from pc.
Proof.
  induction cs as [|c cs IH]; intros s s' I H; simpl in H.
  - inversion H; subst; exact I.
  - match type of H with match ?nx with _ => _ end = _ => destruct nx as [sm|] eqn:En; [|discriminate] end.
    apply (IH sm s'); [|exact H]. clear H IH.
    assert (App : forall r, (forall pc, In pc r -> from_arm from pc) ->
                  forall pc, In pc (ps_changes s ++ r) -> from_arm from pc).
    { intros r Hr pc Hin. apply in_app_or in Hin as [Hin|Hin]; auto. }
    destruct c as [n|n|n sub].
    + destruct (find_xtable n to) as [x|]; [|discriminate].
      destruct (addTable x) as [r|] eqn:Ea; [|discriminate]. inversion En; subst sm. simpl.
      apply App. intros pc Hin n0 t0 i0 Ha. rewrite (addTable_no_arm _ _ Ea pc Hin) in Ha. discriminate.
    + destruct (find_xtable n from) as [x|]; [|discriminate].
      destruct (dropTable x) as [r|] eqn:Ed; [|discriminate]. inversion En; subst sm. simpl.
      apply App. unfold dropTable in Ed. destruct (addTable x); [|discriminate]. inversion Ed; subst r.
      intros pc [<-|[]] n0 t0 i0 Ha. discriminate.
    + destruct (find_xtable n from) as [xf|] eqn:Exf; [|discriminate].
      destruct (find_xtable n to) as [xt|] eqn:Ext; [|discriminate].
      destruct (normalized_to xt) as [xt'|] eqn:Enorm; [|discriminate].
      destruct (modifyTable (x_t xf) xt' sub) as [[r sk]|] eqn:Em; [|discriminate].
      assert (Hname : t_name (x_t xt') = n).
      { rewrite (normalized_to_name _ _ Enorm). exact (find_xtable_name _ _ _ Ext). }
      pose proof (modifyTable_arms from xf n xt' sub r sk Exf Hname Em) as Hr.
      inversion En; subst sm. destruct sk; simpl; now apply App.
Qed.

Lemma plan_arms_from from to cs p :
  PlanChanges from to cs = Some p -> forall pc, In pc (p_changes p) -> from_arm from pc.
Proof.
  unfold PlanChanges. intros H.
  destruct (plan_loop from to cs (mkPS [] false)) as [s|] eqn:El; [|discriminate].
  assert (I : forall pc, In pc (ps_changes s) -> from_arm from pc).
  { refine (plan_loop_arms _ _ _ (mkPS [] false) s _ El). intros pc []. }
  inversion H; subst p; clear H. simpl. intros pc Hin.
  destruct (ps_skipFKs s); [|exact (I pc Hin)].
  destruct Hin as [<-|Hin]; [intros n t i Ha; discriminate|].
  apply in_app_or in Hin as [Hin|[<-|[]]]; [exact (I pc Hin)|intros n t i Ha; discriminate].
Qed.

Lemma from_ok_drops_faithful d from to cs p :
  from_ok d from -> PlanChanges from to cs = Some p -> drops_faithful d (p_changes p).
Proof.
  intros FO HP pc n t i' Hin Ha.
  destruct (plan_arms_from _ _ _ _ HP pc Hin n t i' Ha) as (xf & m & k & i & tt & Hx & Hi & Ht & Hn & ->).
  exact (FO t xf m k i tt i' Hx Hi Ht Hn).
Qed.

(** C17 item 1 for the plans without DropTable, conditions on the start state and the plan only. *)
Theorem reversible_sound_static from to cs p d d1 :
  db_wf d = true -> names_ok d -> xschema_wf to = true -> no_drop_table cs = true ->
  from_ok d from ->
  PlanChanges from to cs = Some p -> p_reversible p = true ->
  fresh_drops (p_changes p) = true ->
  droppable_along d (p_changes p) ->
  exec_all d (up_stmts (p_changes p)) = Ok d1 ->
  exists d2, exec_all d1 (down_stmts (p_changes p)) = Ok d2 /\ sim d d2.
Proof.
  intros W ND XW NT FO HP R FD DA E.
  pose proof (plan_arms _ _ _ _ XW NT HP R) as G.
  pose proof (static_conds _ _ G FD (from_ok_drops_faithful _ _ _ _ _ FO HP) DA) as C.
  exact (arms_sound _ _ _ W ND (conds_arms_ok _ _ G C) E).
Qed.

(** * the planner's view is the inspection of the state *)

Lemma find_xtable_inspect' n l :
  find_xtable n (map inspect_table l) = option_map inspect_table (find_ct n l).
Proof.
  unfold find_xtable, find_ct. induction l as [|c l IH]; simpl; [reflexivity|].
  change (x_name (inspect_table c)) with (ct_name c).
  destruct (str_eqb (ct_name c) n); [reflexivity|exact IH].
Qed.

Lemma find_idx_from_map (f : index -> index) m l : forall k0 k i,
  (forall j, i_name (f j) = i_name j) ->
  find_idx_from k0 m (map f l) = Some (k, i) -> exists j, In j l /\ i = f j.
Proof.
  induction l as [|a l IH]; intros k0 k i Hf H; simpl in H; [discriminate|].
  rewrite Hf in H. destruct (str_eqb (i_name a) m).
  - inversion H; subst. exists a. split; [now left|reflexivity].
  - destruct (IH (S k0) k i Hf H) as (j & Hj & E). exists j. split; [now right|exact E].
Qed.

Lemma inspect_indexes_no_uniques ct :
  ct_uniques ct = [] -> t_idx (x_t (inspect_table ct)) = map inspect_index (ct_idx ct).
Proof.
  intros E. change (t_idx (x_t (inspect_table ct))) with (inspect_indexes ct).
  unfold inspect_indexes. rewrite E. reflexivity.
Qed.

Lemma inspect_from_ok d : idx_ok d -> from_ok d (inspect d).
Proof.
  intros OK t xf m k i tt i' Hx Hi Ht Hn.
  unfold inspect in Hx. rewrite find_xtable_inspect' in Hx.
  destruct (find_ct t (db_tables d)) as [ct|] eqn:Hf; [|discriminate].
  inversion Hx; subst xf; clear Hx.
  destruct (find_ct_some _ _ _ Hf) as [Hin _].
  destruct (OK ct Hin) as [Hu Hall].
  rewrite (inspect_indexes_no_uniques ct Hu) in Hi. unfold find_idx in Hi.
  destruct (find_idx_from_map inspect_index m (ct_idx ct) 0 k i (fun j => eq_refl) Hi) as (j & Hj & ->).
  destruct (Hall j Hj) as (Hna & Hst & Hdef & Hdup).
  unfold normalize_idx_name in Hn. change (i_name (inspect_index j)) with (i_name j) in Hn.
  rewrite Hna in Hn. inversion Hn; subst i'; clear Hn.
  exists ct, j. repeat split; try assumption; try reflexivity. now symmetry.
Qed.

(** C17 item 1 for the plans without DropTable when the planner is given the inspection of the
    state it will run on. *)
Theorem reversible_sound_inspect to cs p d d1 :
  db_wf d = true -> names_ok d -> idx_ok d -> xschema_wf to = true -> no_drop_table cs = true ->
  PlanChanges (inspect d) to cs = Some p -> p_reversible p = true ->
  fresh_drops (p_changes p) = true ->
  droppable_along d (p_changes p) ->
  exec_all d (up_stmts (p_changes p)) = Ok d1 ->
  exists d2, exec_all d1 (down_stmts (p_changes p)) = Ok d2 /\ sim d d2.
Proof.
  intros W ND IO XW NT HP R FD DA E.
  exact (reversible_sound_static (inspect d) to cs p d d1 W ND XW NT (inspect_from_ok d IO) HP R FD DA E).
Qed.
