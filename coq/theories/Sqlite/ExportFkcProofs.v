(** C03 round 5b: fillConstName on the inline form  `col` <type, options> CONSTRAINT `sym` REFERENCES `rt` (`r1`, ...)
    (reFKC = (?i)[(,]\s*[<dq>`]*(\w+)[<dq>`]*[^,]*\s+CONSTRAINT\s+[<dq>`]*(\w+)[<dq>`]*\s+REFERENCES\s+[<dq>`]*(\w+)[<dq>`]*\s*\(([,<dq>` \w]+)\)).
    The planner never writes this form (it prints table-level keys); users do.  The class [^,]* is greedy: the
    LAST start in the comma-free stretch after the column name wins ([last_fkc_tail]). *)
From Coq Require Import List NArith Bool Arith Lia.
From Atlas Require Import Base.Bytes Sqlite.ExportModel Sqlite.ExportProofs Sqlite.ExportPrint Sqlite.ExportPrintProofs
  Sqlite.ExportFkProofs.
Import ListNotations.
Local Open Scope N_scope.

(** the text after the column's own definition *)
Definition inline_tail (sym rt : bytes) (rcols : list bytes) : bytes :=
  [ch_sp] ++ K_CONSTRAINT ++ [ch_sp] ++ bt_ident sym ++ [ch_sp] ++ K_REFERENCES ++ [ch_sp] ++ bt_ident rt ++ [ch_sp] ++
  [ch_lp] ++ idents_text rcols ++ [ch_rp].
(** an opening byte ( or , ; white space; the quoted column; its type and options [mid] (no comma); the tail *)
Definition inline_fk_text (c : N) (w col mid sym rt : bytes) (rcols : list bytes) : bytes :=
  c :: w ++ bt_ident col ++ mid ++ inline_tail sym rt rcols.

Lemma fkc_tail_printed sym rt rcols rest :
  name_ok sym -> name_ok rt -> rcols <> [] -> Forall name_ok rcols ->
  fkc_tail (inline_tail sym rt rcols ++ rest) = Some (sym, rt, idents_text rcols, rest).
Proof.
  intros Hs Hrt Hrc Hrcs. unfold fkc_tail, inline_tail.
  repeat rewrite <- app_assoc. cbn [app plus_space]. change (is_space ch_sp) with true. cbn iota.
  change (skip_while is_space (K_CONSTRAINT ++ ch_sp :: bt_ident sym ++ ch_sp :: K_REFERENCES ++ ch_sp :: bt_ident rt ++ ch_sp :: ch_lp :: idents_text rcols ++ ch_rp :: rest))
    with (K_CONSTRAINT ++ ch_sp :: bt_ident sym ++ ch_sp :: K_REFERENCES ++ ch_sp :: bt_ident rt ++ ch_sp :: ch_lp :: idents_text rcols ++ ch_rp :: rest).
  rewrite lit_ci_self.
  cbn [plus_space]. change (is_space ch_sp) with true. cbn iota.
  assert (forall n r, skip_while is_space (bt_ident n ++ r) = bt_ident n ++ r) as Hsk by (intros; reflexivity).
  rewrite Hsk. rewrite (qword_bt sym _ Hs) by reflexivity.
  cbn [plus_space]. change (is_space ch_sp) with true. cbn iota.
  change (skip_while is_space (K_REFERENCES ++ ch_sp :: bt_ident rt ++ ch_sp :: ch_lp :: idents_text rcols ++ ch_rp :: rest))
    with (K_REFERENCES ++ ch_sp :: bt_ident rt ++ ch_sp :: ch_lp :: idents_text rcols ++ ch_rp :: rest).
  unfold match_refs. rewrite lit_ci_self.
  cbn [plus_space]. change (is_space ch_sp) with true. cbn iota.
  rewrite Hsk. rewrite (qword_bt rt _ Hrt) by reflexivity.
  cbn [skip_while]. change (is_space ch_sp) with true. cbn iota.
  change (skip_while is_space (ch_lp :: idents_text rcols ++ ch_rp :: rest)) with (ch_lp :: idents_text rcols ++ ch_rp :: rest).
  change (is_space ch_lp) with false. cbn iota.
  rewrite (paren_cols_printed rcols _ Hrc Hrcs). reflexivity.
Qed.

(** the greedy class: a comma-free prefix does not change the winner *)
Lemma last_fkc_tail_skip mid s x : nocomma mid = true -> last_fkc_tail s = Some x -> last_fkc_tail (mid ++ s) = Some x.
Proof.
  intros Hm Hs. induction mid as [|c mid IH]; [exact Hs|].
  unfold nocomma in Hm. cbn [forallb] in Hm. apply andb_true_iff in Hm. destruct Hm as [Hc Hm]. apply negb_true_iff in Hc.
  cbn [app last_fkc_tail]. rewrite Hc. rewrite (IH Hm). reflexivity.
Qed.

(** no later start in the comma-free stretch (decidable on the text) *)
Definition no_later_tail (s : bytes) : bool :=
  match s with
  | [] => true
  | c :: s' => N.eqb c ch_comma || match last_fkc_tail s' with None => true | Some _ => false end
  end.
Lemma last_fkc_tail_here s x : fkc_tail s = Some x -> no_later_tail s = true -> last_fkc_tail s = Some x.
Proof.
  destruct s as [|c s']; [discriminate|]. intros Hf Hn. cbn [last_fkc_tail]. unfold no_later_tail in Hn.
  destruct (N.eqb c ch_comma); [rewrite Hf; reflexivity|]. cbn [orb] in Hn.
  destruct (last_fkc_tail s'); [discriminate|]. exact Hf.
Qed.

Definition mid_ok (mid : bytes) : Prop :=
  nocomma mid = true /\ match mid with c :: _ => is_quote c = false | [] => True end.

(** reFKC at the head of an inline named key *)
Theorem match_fkc_printed c w col mid sym rt rcols rest :
  open_ch c = true -> forallb is_space w = true -> name_ok col -> mid_ok mid ->
  name_ok sym -> name_ok rt -> rcols <> [] -> Forall name_ok rcols ->
  no_later_tail (inline_tail sym rt rcols ++ rest) = true ->
  match_fkc_at (inline_fk_text c w col mid sym rt rcols ++ rest) = Some (col, sym, rt, idents_text rcols, rest).
Proof.
  intros Hc Hw Hcol [Hm Hq] Hs Hrt Hrc Hrcs Hl. unfold inline_fk_text, match_fkc_at.
  cbn [app]. rewrite Hc. repeat rewrite <- app_assoc.
  assert (skip_while is_space (w ++ bt_ident col ++ mid ++ inline_tail sym rt rcols ++ rest)
          = bt_ident col ++ mid ++ inline_tail sym rt rcols ++ rest) as ->.
  { unfold bt_ident at 1. cbn [app]. rewrite skip_while_app by (exact Hw || reflexivity). reflexivity. }
  rewrite (qword_bt col _ Hcol).
  - rewrite (last_fkc_tail_skip mid _ (sym, rt, idents_text rcols, rest) Hm); [reflexivity|].
    apply last_fkc_tail_here; [apply fkc_tail_printed; assumption|exact Hl].
  - destruct mid as [|m mid]; [reflexivity|exact Hq].
Qed.

(** ** find_all_fkc: every match returns a shorter rest, so fuel beyond the length is irrelevant *)
Lemma fkc_tail_suffix s n t rc r : fkc_tail s = Some (n, t, rc, r) -> suffix_of r s.
Proof.
  unfold fkc_tail. intro H.
  destruct (plus_space s) as [r0|] eqn:E0; [|discriminate].
  destruct (lit_ci K_CONSTRAINT r0) as [r1|] eqn:E1; [|discriminate].
  destruct (plus_space r1) as [r2|] eqn:E2; [|discriminate].
  destruct (qword r2) as [[nm r3]|] eqn:E3; [|discriminate].
  destruct (plus_space r3) as [r4|] eqn:E4; [|discriminate].
  destruct (match_refs r4) as [[[tb rcs] r5]|] eqn:E5; [|discriminate].
  injection H as _ _ _ <-.
  eapply suffix_trans; [exact (match_refs_suffix _ _ _ _ E5)|].
  eapply suffix_trans; [exact (plus_space_suffix _ _ E4)|].
  eapply suffix_trans; [exact (qword_suffix _ _ _ E3)|].
  eapply suffix_trans; [exact (plus_space_suffix _ _ E2)|].
  eapply suffix_trans; [exact (proj1 (lit_ci_suffix _ _ _ E1))|exact (plus_space_suffix _ _ E0)].
Qed.
Lemma last_fkc_tail_suffix s : forall n t rc r, last_fkc_tail s = Some (n, t, rc, r) -> suffix_of r s.
Proof.
  induction s as [|c s IH]; intros n t rc r H; [discriminate|]. cbn [last_fkc_tail] in H.
  destruct (if N.eqb c ch_comma then None else last_fkc_tail s) as [[[[n' t'] rc'] r']|] eqn:E.
  - injection H as -> -> -> ->. destruct (N.eqb c ch_comma); [discriminate|]. apply suffix_cons. exact (IH _ _ _ _ E).
  - exact (fkc_tail_suffix _ _ _ _ _ H).
Qed.
Lemma match_fkc_shorter s c n t rc rest : match_fkc_at s = Some (c, n, t, rc, rest) -> (length rest < length s)%nat.
Proof.
  unfold match_fkc_at. destruct s as [|b s]; [discriminate|]. destruct (open_ch b); [|discriminate].
  destruct (qword (skip_while is_space s)) as [[col r2]|] eqn:E; [|discriminate].
  destruct (last_fkc_tail r2) as [[[[n' t'] rc'] r']|] eqn:E2; [|discriminate].
  intro H. injection H as _ _ _ _ <-.
  assert (suffix_of r' s) as Hs.
  { eapply suffix_trans; [exact (last_fkc_tail_suffix _ _ _ _ _ E2)|].
    eapply suffix_trans; [exact (qword_suffix _ _ _ E)|apply skip_while_suffix]. }
  pose proof (suffix_length _ _ Hs). cbn [length]. lia.
Qed.
Lemma find_all_fkc_fuel : forall f1 f2 s, (length s < f1)%nat -> (length s < f2)%nat ->
  find_all_fkc f1 s = find_all_fkc f2 s.
Proof.
  induction f1 as [|f1 IH]; intros f2 s H1 H2; [lia|]. destruct f2 as [|f2]; [lia|].
  cbn [find_all_fkc]. destruct (match_fkc_at s) as [[[[[c n] t] rc] rest]|] eqn:E.
  - pose proof (match_fkc_shorter _ _ _ _ _ _ E). f_equal. apply IH; lia.
  - destruct s as [|b s]; [reflexivity|]. simpl in H1, H2. apply IH; lia.
Qed.

Lemma find_all_fkc_miss f b s : match_fkc_at (b :: s) = None -> find_all_fkc (S f) (b :: s) = find_all_fkc f s.
Proof. intro H. cbn [find_all_fkc]. rewrite H. reflexivity. Qed.
Lemma find_all_fkc_hit f s c n t rc rest : match_fkc_at s = Some (c, n, t, rc, rest) ->
  find_all_fkc (S f) s = (c, n, t, rc) :: find_all_fkc f rest.
Proof. intro H. cbn [find_all_fkc]. rewrite H. reflexivity. Qed.

(** text in which reFKC does not start (decidable: [no_start_before]) is skipped *)
Lemma find_all_fkc_skip pre s : no_start_before _ match_fkc_at (pre ++ s) (length pre) = true ->
  forall f, (length (pre ++ s) < f)%nat -> find_all_fkc f (pre ++ s) = find_all_fkc f s.
Proof.
  induction pre as [|b pre IH]; intros H f Hf; [reflexivity|].
  change ((b :: pre) ++ s) with (b :: pre ++ s) in *. cbn [length] in H.
  destruct (no_start_before_tail _ _ _ _ _ H) as [H0 H1].
  destruct f as [|f]; [lia|]. rewrite (find_all_fkc_miss f b _ H0).
  cbn [length] in Hf. rewrite (IH H1 f) by lia. apply find_all_fkc_fuel; rewrite app_length in Hf; lia.
Qed.

(** all matches of reFKC in a statement with one inline named key: [pre] (CREATE TABLE `t` and the columns
    before) holds no start, [rest] no further match *)
Theorem find_all_fkc_printed pre c w col mid sym rt rcols rest :
  open_ch c = true -> forallb is_space w = true -> name_ok col -> mid_ok mid ->
  name_ok sym -> name_ok rt -> rcols <> [] -> Forall name_ok rcols ->
  no_later_tail (inline_tail sym rt rcols ++ rest) = true ->
  no_start_before _ match_fkc_at (pre ++ inline_fk_text c w col mid sym rt rcols ++ rest) (length pre) = true ->
  find_all_fkc (S (length rest)) rest = [] ->
  forall f, (length (pre ++ inline_fk_text c w col mid sym rt rcols ++ rest) < f)%nat ->
  find_all_fkc f (pre ++ inline_fk_text c w col mid sym rt rcols ++ rest) = [(col, sym, rt, idents_text rcols)].
Proof.
  intros Hc Hw Hcol Hmid Hs Hrt Hrc Hrcs Hl Hpre Hrest f Hf.
  rewrite (find_all_fkc_skip pre _ Hpre f Hf).
  destruct f as [|f]; [lia|].
  rewrite (find_all_fkc_hit f _ _ _ _ _ _ (match_fkc_printed c w col mid sym rt rcols rest Hc Hw Hcol Hmid Hs Hrt Hrc Hrcs Hl)).
  f_equal. rewrite <- Hrest. apply find_all_fkc_fuel; [|lia].
  rewrite !app_length in Hf. unfold inline_fk_text in Hf. cbn [length] in Hf. lia.
Qed.

(** columns() of the captured bare column name *)
Lemma trim_space_word n : name_ok n -> trim_space n = n.
Proof.
  intros [Hne Hw]. destruct n as [|h t]; [contradiction|].
  assert (forall x, is_word x = true -> is_go_space x = false) as Hsp.
  { intros x Hx. unfold is_go_space, is_space.
    destruct (N.eqb x 9) eqn:E1; [apply N.eqb_eq in E1; subst; discriminate|].
    destruct (N.eqb x 10) eqn:E2; [apply N.eqb_eq in E2; subst; discriminate|].
    destruct (N.eqb x 12) eqn:E3; [apply N.eqb_eq in E3; subst; discriminate|].
    destruct (N.eqb x 13) eqn:E4; [apply N.eqb_eq in E4; subst; discriminate|].
    destruct (N.eqb x 32) eqn:E5; [apply N.eqb_eq in E5; subst; discriminate|].
    destruct (N.eqb x 11) eqn:E6; [apply N.eqb_eq in E6; subst; discriminate|]. reflexivity. }
  rewrite forallb_forall in Hw. apply trim_space_id.
  - apply Hsp, Hw. left. reflexivity.
  - apply Hsp, Hw. unfold last_byte. destruct (exists_last (l := h :: t) ltac:(discriminate)) as (l' & a & E).
    rewrite E, last_last. apply in_or_app. right. left. reflexivity.
Qed.
Lemma skip_quotes_word n : forallb is_word n = true -> skip_while is_quote n = n.
Proof.
  destruct n as [|c n]; [reflexivity|]. cbn [forallb skip_while]. intro H. apply andb_true_iff in H. destruct H as [Hc _].
  assert (is_quote c = false) as ->; [|reflexivity].
  unfold is_quote. destruct (N.eqb c 34) eqn:E1; [apply N.eqb_eq in E1; subst; discriminate|].
  destruct (N.eqb c 96) eqn:E2; [apply N.eqb_eq in E2; subst; discriminate|]. reflexivity.
Qed.
Lemma trim_quotes_word n : name_ok n -> trim_quotes n = n.
Proof.
  intros [_ Hw]. unfold trim_quotes. rewrite (skip_quotes_word n Hw).
  rewrite skip_quotes_word; [apply rev_involutive|].
  apply forallb_forall. intros x Hx. apply in_rev in Hx. rewrite forallb_forall in Hw. exact (Hw x Hx).
Qed.
Lemma columns_word n : name_ok n -> columns n = [n].
Proof.
  intro Hn. unfold columns. rewrite <- (app_nil_r n) at 1.
  rewrite split_comma_app_nocomma by (apply word_no_comma; exact (proj2 Hn)).
  cbn [split_comma map]. rewrite app_nil_r, rev_involutive, (trim_space_word n Hn), (trim_quotes_word n Hn). reflexivity.
Qed.

(** fillConstName on a statement whose only named key is one inline  CONSTRAINT sym REFERENCES : the key of the
    PRAGMA list with that column, table and referenced columns gets the symbol (when only one has that shape) *)
Theorem fill_const_name_inline pre c w col mid sym rt rcols rest fks :
  open_ch c = true -> forallb is_space w = true -> name_ok col -> mid_ok mid ->
  name_ok sym -> name_ok rt -> rcols <> [] -> Forall name_ok rcols ->
  no_later_tail (inline_tail sym rt rcols ++ rest) = true ->
  no_start_before _ match_fkc_at (pre ++ inline_fk_text c w col mid sym rt rcols ++ rest) (length pre) = true ->
  find_all_fkc (S (length rest)) rest = [] ->
  (let T := pre ++ inline_fk_text c w col mid sym rt rcols ++ rest in find_all_fkt (S (length T)) T = []) ->
  one_match (m_fk (mkNfk sym [col] rt rcols)) fks ->
  fill_const_name (pre ++ inline_fk_text c w col mid sym rt rcols ++ rest) fks = map (upd (mkNfk sym [col] rt rcols)) fks.
Proof.
  intros Hc Hw Hcol Hmid Hs Hrt Hrc Hrcs Hl Hpre Hrest Hfkt Hone. cbv zeta in Hfkt.
  unfold fill_const_name. rewrite Hfkt. cbn [fold_left].
  rewrite (find_all_fkc_printed pre c w col mid sym rt rcols rest Hc Hw Hcol Hmid Hs Hrt Hrc Hrcs Hl Hpre Hrest) by lia.
  cbn [fold_left]. rewrite (columns_word col Hcol), (columns_printed rcols Hrcs Hrc).
  exact (rename_first_map (mkNfk sym [col] rt rcols) fks Hone).
Qed.

(** ** witnesses *)
Require Import Coq.Strings.String.
Import List ListNotations.
Open Scope string_scope.
Open Scope list_scope.
Definition wi_pre : bytes := B "CREATE TABLE `c` (`id` integer NOT NULL PRIMARY KEY".
Definition wi_rest : bytes := B " ON DELETE CASCADE, `n` text NULL)".
Definition wi_text : bytes := wi_pre ++ inline_fk_text ch_comma (B " ") (B "pid") (B " int NOT NULL") (B "fk_p") (B "p") [B "id"] ++ wi_rest.
Lemma wi_is : wi_text = B "CREATE TABLE `c` (`id` integer NOT NULL PRIMARY KEY, `pid` int NOT NULL CONSTRAINT `fk_p` REFERENCES `p` (`id`) ON DELETE CASCADE, `n` text NULL)".
Proof. vm_compute. reflexivity. Qed.
Lemma wi_premises :
  no_later_tail (inline_tail (B "fk_p") (B "p") [B "id"] ++ wi_rest) = true /\
  no_start_before _ match_fkc_at wi_text (length wi_pre) = true /\
  find_all_fkc (S (length wi_rest)) wi_rest = [] /\ find_all_fkt (S (length wi_text)) wi_text = [].
Proof. vm_compute. repeat split; reflexivity. Qed.
Lemma wi_result :
  map pf_symbol (fill_const_name wi_text [mkPfk (B "0") [B "pid"] (B "p") [B "id"]]) = [B "fk_p"].
Proof. vm_compute. reflexivity. Qed.
(** the premise [no_later_tail] is necessary: two named references in one column definition (legal SQL):
    the greedy class gives the column the LAST name, the first key of the PRAGMA list that matches takes it
    and the name of the first clause is not recovered *)
Definition wi_two : bytes := B "CREATE TABLE `c` (`pid` int CONSTRAINT `fk_a` REFERENCES `p` (`id`) CONSTRAINT `fk_b` REFERENCES `q` (`id`))".
Lemma wi_two_result :
  find_all_fkc (S (length wi_two)) wi_two = [(B "pid", B "fk_b", B "q", B "`id`")] /\
  map pf_symbol (fill_const_name wi_two [mkPfk (B "0") [B "pid"] (B "q") [B "id"]; mkPfk (B "1") [B "pid"] (B "p") [B "id"]])
    = [B "fk_b"; B "1"].
Proof. vm_compute. split; reflexivity. Qed.
