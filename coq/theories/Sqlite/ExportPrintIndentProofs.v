(** C03 round 5b: the indented CREATE TABLE (Sqlite/ExportPrintIndent.v) against the plain one (Sqlite/ExportPrint.v):
    with an empty indent it IS the plain text; with any indent made of white space it differs from the plain text in
    white space only, for every table, and fails exactly when the plain printer fails. *)
From Coq Require Import List NArith Bool Arith Lia.
From Atlas Require Import Base.Bytes Diff.Schema Diff.DiffSqlite Sqlite.PlanModel Sqlite.ExportModel Sqlite.ExportPrint
  Sqlite.ExportPrintIndent.
Import ListNotations.
Local Open Scope N_scope.

(** ** empty indent *)
Lemma bMapComma_ext {A} (f g : bytes -> A -> bytes) (l : list A) :
  (forall b a, f b a = g b a) -> forall b first, bMapComma b first l f = bMapComma b first l g.
Proof. intro H. induction l as [|a l IH]; intros b first; [reflexivity|]. cbn [bMapComma]. rewrite H. apply IH. Qed.
Lemma fold_left_ext {A} (f g : bytes -> A -> bytes) (l : list A) :
  (forall b a, f b a = g b a) -> forall b, fold_left f l b = fold_left g l b.
Proof. intro H. induction l as [|a l IH]; intro b; [reflexivity|]. cbn [fold_left]. rewrite H. apply IH. Qed.
Lemma p_columns_ind_nil x cs : forall b first, p_columns_ind [] x b first cs = p_columns x b first cs.
Proof.
  induction cs as [|c cs IH]; intros b first; [reflexivity|]. cbn [p_columns_ind p_columns bNL].
  destruct (p_column x (if first then b else bComma b) c); [apply IH|reflexivity].
Qed.
Theorem print_table_ind_nil x : print_table_ind [] x = print_table x.
Proof.
  unfold print_table_ind, print_table, print_body_ind, print_body. rewrite p_columns_ind_nil.
  destruct (p_columns x _ true (t_cols (x_t x))) as [b1|]; [|reflexivity]. cbn [bNL]. reflexivity.
Qed.

(** ** white space only *)
Definition sq (b : bytes) : bytes := filter (fun c => negb (is_go_space c)) b.
Lemma sq_app a b : sq (a ++ b) = sq a ++ sq b.
Proof. apply filter_app. Qed.
Lemma sq_one c : is_go_space c = true -> sq [c] = [].
Proof. intro H. unfold sq. cbn [filter]. rewrite H. reflexivity. Qed.
Lemma sq_all s : forallb is_go_space s = true -> sq s = [].
Proof.
  induction s as [|c s IH]; [reflexivity|]. cbn [forallb]. intro H. apply andb_true_iff in H. destruct H as [Hc H].
  change (c :: s) with ([c] ++ s). rewrite sq_app, (sq_one c Hc), (IH H). reflexivity.
Qed.
Lemma removelast_last_byte b : b <> [] -> b = removelast b ++ [last_byte b].
Proof. intro H. unfold last_byte. apply app_removelast_last. exact H. Qed.
Lemma sq_removelast b : is_go_space (last_byte b) = true -> sq (removelast b) = sq b.
Proof.
  intro H. destruct b as [|h t]; [reflexivity|].
  rewrite (removelast_last_byte (h :: t)) at 2 by discriminate. rewrite sq_app, (sq_one _ H), app_nil_r. reflexivity.
Qed.
Lemma last_sp b : N.eqb (last_byte b) 32 = true -> is_go_space (last_byte b) = true.
Proof. intro H. apply N.eqb_eq in H. rewrite H. reflexivity. Qed.
Lemma app_ne_r (l r : bytes) : r <> [] -> l ++ r <> [].
Proof. intros H E. apply app_eq_nil in E. destruct E as [_ E]. contradiction. Qed.
Lemma app_ne_l (l r : bytes) : l <> [] -> l ++ r <> [].
Proof. intros H E. apply app_eq_nil in E. destruct E as [E _]. contradiction. Qed.

Definition sim (b b' : bytes) : Prop := b <> [] /\ b' <> [] /\ sq b = sq b'.

Lemma bP1_shape b c p : exists s1 s2, bP1 b (c :: p) = b ++ s1 ++ (c :: p) ++ s2 /\ sq s1 = [] /\ sq s2 = [].
Proof.
  unfold bP1. destruct b as [|h t].
  - destruct (N.eqb (last_byte (c :: p)) 32); [exists [], []|exists [], [32]];
      (split; [cbn [app]; rewrite ?app_nil_r; reflexivity|split; reflexivity]).
  - destruct (N.eqb (last_byte (h :: t)) 32 || N.eqb (last_byte (h :: t)) 40 || N.eqb (last_byte (h :: t)) 10);
      destruct (N.eqb (last_byte (c :: p)) 32);
      [exists [], []|exists [], [32]|exists [32], []|exists [32], [32]];
      (split; [repeat rewrite <- app_assoc; cbn [app]; rewrite ?app_nil_r; reflexivity|split; reflexivity]).
Qed.
Lemma sq_bP1 b p : sq (bP1 b p) = sq b ++ sq p.
Proof.
  destruct p as [|c p]; [cbn; rewrite app_nil_r; reflexivity|].
  destruct (bP1_shape b c p) as (s1 & s2 & -> & H1 & H2). rewrite !sq_app, H1, H2, app_nil_r. reflexivity.
Qed.
Lemma ne_bP1 b p : b <> [] -> bP1 b p <> [].
Proof.
  intro H. destruct p as [|c p]; [exact H|]. destruct (bP1_shape b c p) as (s1 & s2 & -> & _). apply app_ne_l. exact H.
Qed.
Lemma sim_bP1 b b' p : sim b b' -> sim (bP1 b p) (bP1 b' p).
Proof.
  intros (H1 & H2 & H3). split; [apply ne_bP1; exact H1|]. split; [apply ne_bP1; exact H2|].
  rewrite !sq_bP1, H3. reflexivity.
Qed.
Lemma sim_bP ps : forall b b', sim b b' -> sim (bP b ps) (bP b' ps).
Proof. unfold bP. induction ps as [|p ps IH]; intros b b' H; cbn [fold_left]; [exact H|]. apply IH, sim_bP1, H. Qed.
Lemma sim_app b b' r : sim b b' -> sim (b ++ r) (b' ++ r).
Proof.
  intros (H1 & H2 & H3). split; [apply app_ne_l; exact H1|]. split; [apply app_ne_l; exact H2|].
  rewrite !sq_app, H3. reflexivity.
Qed.
Lemma sim_bIdent b b' s : sim b b' -> sim (bIdent b s) (bIdent b' s).
Proof. intro H. unfold bIdent. destruct s; [exact H|]. apply sim_app. exact H. Qed.
Lemma sq_bComma b : b <> [] -> sq (bComma b) = sq b ++ [ch_comma].
Proof.
  intro H. unfold bComma. destruct b as [|h t]; [contradiction|].
  destruct (N.eqb (last_byte (h :: t)) 32) eqn:E; rewrite sq_app.
  - rewrite (sq_removelast _ (last_sp _ E)). reflexivity.
  - reflexivity.
Qed.
Lemma ne_bComma b : b <> [] -> bComma b <> [].
Proof.
  intro H. unfold bComma. destruct b as [|h t]; [contradiction|].
  destruct (N.eqb (last_byte (h :: t)) 32); apply app_ne_r; discriminate.
Qed.
Lemma sim_bComma b b' : sim b b' -> sim (bComma b) (bComma b').
Proof.
  intros (H1 & H2 & H3). split; [apply ne_bComma; exact H1|]. split; [apply ne_bComma; exact H2|].
  rewrite (sq_bComma b H1), (sq_bComma b' H2), H3. reflexivity.
Qed.
Lemma sq_bClose b : sq (bClose b) = sq b ++ [ch_rp].
Proof.
  unfold bClose. destruct (N.eqb (last_byte b) 32) eqn:E; rewrite sq_app.
  - rewrite (sq_removelast _ (last_sp _ E)). reflexivity.
  - reflexivity.
Qed.
Lemma sim_bClose b b' : sim b b' -> sim (bClose b) (bClose b').
Proof.
  intros (H1 & H2 & H3). split; [|split].
  - unfold bClose. destruct (N.eqb (last_byte b) 32); apply app_ne_r; discriminate.
  - unfold bClose. destruct (N.eqb (last_byte b') 32); apply app_ne_r; discriminate.
  - rewrite !sq_bClose, H3. reflexivity.
Qed.
Lemma sim_bWrap b b' (f g : bytes -> bytes) :
  (forall a a', sim a a' -> sim (f a) (g a')) -> sim b b' -> sim (bWrap b f) (bWrap b' g).
Proof. intros Hf H. unfold bWrap. apply sim_bClose, Hf, sim_app, H. Qed.
Lemma sim_bMapComma {A} (f g : bytes -> A -> bytes) (l : list A) :
  (forall a a' x, sim a a' -> sim (f a x) (g a' x)) ->
  forall b b' first, sim b b' -> sim (bMapComma b first l f) (bMapComma b' first l g).
Proof.
  intro Hf. induction l as [|x l IH]; intros b b' first H; cbn [bMapComma]; [exact H|].
  apply IH, Hf. destruct first; [exact H|apply sim_bComma, H].
Qed.

Lemma sim_bNL_gen ind l b b' : sq (repeat_bytes ind l) = [] -> sim b b' -> sim (bNL ind l b) b'.
Proof.
  intros Hr (H1 & H2 & H3). unfold bNL. destruct ind as [|i0 ind0]; [split; [exact H1|split; [exact H2|exact H3]]|].
  split; [|split; [exact H2|]].
  - apply app_ne_l. destruct (N.eqb (last_byte b) 32); apply app_ne_r; discriminate.
  - rewrite sq_app, Hr, app_nil_r. destruct (N.eqb (last_byte b) 32) eqn:E; rewrite sq_app.
    + rewrite (sq_removelast _ (last_sp _ E)). cbn. rewrite app_nil_r. exact H3.
    + cbn. rewrite app_nil_r. exact H3.
Qed.

Section WS.
Variable ind : bytes.
Hypothesis Hind : forallb is_go_space ind = true.

Lemma sq_repeat l : sq (repeat_bytes ind l) = [].
Proof. induction l as [|l IH]; [reflexivity|]. cbn [repeat_bytes]. rewrite sq_app, IH, (sq_all ind Hind). reflexivity. Qed.
Lemma sim_bNL l b b' : sim b b' -> sim (bNL ind l b) b'.
Proof. exact (sim_bNL_gen ind l b b' (sq_repeat l)). Qed.

Definition osim (o o' : option bytes) : Prop :=
  match o, o' with Some a, Some a' => sim a a' | None, None => True | _, _ => False end.

Lemma sim_p_column x b b' c : sim b b' -> osim (p_column x b c) (p_column x b' c).
Proof.
  intro H. unfold p_column. destruct (N.eqb (c_class c) 0); [exact I|].
  assert (sim (bP (bIdent b (c_name c)) [c_T c]) (bP (bIdent b' (c_name c)) [c_T c])) as H1 by (apply sim_bP, sim_bIdent, H).
  assert (sim (bP (if c_null c then bP (bIdent b (c_name c)) [c_T c] else bP (bP (bIdent b (c_name c)) [c_T c]) [W_NOT]) [W_NULL])
              (bP (if c_null c then bP (bIdent b' (c_name c)) [c_T c] else bP (bP (bIdent b' (c_name c)) [c_T c]) [W_NOT]) [W_NULL])) as H2.
  { apply sim_bP. destruct (c_null c); [exact H1|apply sim_bP, H1]. }
  destruct (c_default c) as [d|].
  - destruct (defaultValue c) as [v|]; [|exact I].
    destruct (has_autoinc x (c_name c)); destruct (c_gen c) as [[e ty]|]; cbn [osim]; try exact I;
      first [exact H2 | exact (sim_bP _ _ _ H2) | exact (sim_bP _ _ _ (sim_bP _ _ _ H2))].
  - destruct (has_autoinc x (c_name c)); destruct (c_gen c) as [[e ty]|]; cbn [osim]; try exact I;
      first [exact H2 | exact (sim_bP _ _ _ H2) | exact (sim_bP _ _ _ (sim_bP _ _ _ H2))].
Qed.
Lemma sim_p_columns x cs : forall b b' first, sim b b' ->
  osim (p_columns_ind ind x b first cs) (p_columns x b' first cs).
Proof.
  induction cs as [|c cs IH]; intros b b' first H; cbn [p_columns_ind p_columns]; [exact H|].
  assert (sim (bNL ind 1 (if first then b else bComma b)) (if first then b' else bComma b')) as H0.
  { apply sim_bNL. destruct first; [exact H|apply sim_bComma, H]. }
  pose proof (sim_p_column x _ _ c H0) as Hc. unfold osim in Hc.
  destruct (p_column x (bNL ind 1 (if first then b else bComma b)) c) as [a|];
    destruct (p_column x (if first then b' else bComma b') c) as [a'|]; try contradiction; [|exact I].
  apply IH. exact Hc.
Qed.
Lemma sim_p_parts b b' ps : sim b b' -> sim (p_parts b ps) (p_parts b' ps).
Proof.
  intro H. unfold p_parts. apply sim_bWrap; [|exact H]. intros a a' Ha. apply sim_bMapComma; [|exact Ha].
  intros a1 a1' p H1.
  assert (sim (match p_col p, p_expr p with Some n, _ => bIdent a1 n | None, Some e => a1 ++ may_wrap e | None, None => a1 end)
              (match p_col p, p_expr p with Some n, _ => bIdent a1' n | None, Some e => a1' ++ may_wrap e | None, None => a1' end)) as H2.
  { destruct (p_col p); [apply sim_bIdent, H1|]. destruct (p_expr p); [apply sim_app, H1|exact H1]. }
  destruct (p_desc p); [apply sim_bP, H2|exact H2].
Qed.
Lemma sim_p_fk b b' f : sim b b' -> sim (p_fk b f) (p_fk b' f).
Proof.
  intro H. unfold p_fk.
  assert (sim (match f_symbol f with [] => b | s => bIdent (bP b [K_CONSTRAINT]) s end)
              (match f_symbol f with [] => b' | s => bIdent (bP b' [K_CONSTRAINT]) s end)) as H1.
  { destruct (f_symbol f); [exact H|apply sim_bIdent, sim_bP, H]. }
  set (b1 := match f_symbol f with [] => b | s => bIdent (bP b [K_CONSTRAINT]) s end) in *.
  set (b1' := match f_symbol f with [] => b' | s => bIdent (bP b' [K_CONSTRAINT]) s end) in *.
  assert (sim (bWrap (bP b1 [W_FOREIGN_KEY]) (fun b0 => bMapComma b0 true (f_cols f) bIdent))
              (bWrap (bP b1' [W_FOREIGN_KEY]) (fun b0 => bMapComma b0 true (f_cols f) bIdent))) as H2.
  { apply sim_bWrap; [|apply sim_bP, H1]. intros a a' Ha. apply sim_bMapComma; [|exact Ha]. intros; apply sim_bIdent; assumption. }
  set (b2 := bWrap (bP b1 [W_FOREIGN_KEY]) _) in *. set (b2' := bWrap (bP b1' [W_FOREIGN_KEY]) _) in *.
  assert (sim (bWrap (bIdent (bP b2 [K_REFERENCES]) (f_reftable f)) (fun b0 => bMapComma b0 true (f_refcols f) bIdent))
              (bWrap (bIdent (bP b2' [K_REFERENCES]) (f_reftable f)) (fun b0 => bMapComma b0 true (f_refcols f) bIdent))) as H3.
  { apply sim_bWrap; [|apply sim_bIdent, sim_bP, H2]. intros a a' Ha. apply sim_bMapComma; [|exact Ha]. intros; apply sim_bIdent; assumption. }
  set (b3 := bWrap (bIdent (bP b2 [K_REFERENCES]) _) _) in *. set (b3' := bWrap (bIdent (bP b2' [K_REFERENCES]) _) _) in *.
  assert (sim (match f_onupdate f with [] => b3 | a => bP b3 [W_ON_UPDATE; a] end)
              (match f_onupdate f with [] => b3' | a => bP b3' [W_ON_UPDATE; a] end)) as H4.
  { destruct (f_onupdate f); [exact H3|apply sim_bP, H3]. }
  destruct (f_ondelete f); [exact H4|apply sim_bP, H4].
Qed.
Lemma sim_p_check b b' k : sim b b' -> sim (p_check b k) (p_check b' k).
Proof. intro H. unfold p_check. apply sim_bP. destruct (k_name k); [exact H|apply sim_bIdent, sim_bP, H]. Qed.

Lemma sim_print_body x : osim (print_body_ind ind x) (print_body x).
Proof.
  unfold print_body_ind, print_body.
  assert (sim (bIdent (bP [] [W_CREATE_TABLE]) (t_name (x_t x)) ++ [ch_lp]) (bIdent (bP [] [W_CREATE_TABLE]) (t_name (x_t x)) ++ [ch_lp])) as H0.
  { split; [apply app_ne_r; discriminate|]. split; [apply app_ne_r; discriminate|reflexivity]. }
  pose proof (sim_p_columns x (t_cols (x_t x)) _ _ true H0) as Hc. unfold osim in Hc.
  destruct (p_columns_ind ind x _ true (t_cols (x_t x))) as [b1|]; destruct (p_columns x _ true (t_cols (x_t x))) as [b1'|];
    try contradiction; [|exact I].
  cbn [osim].
  assert (sim (match t_pk (x_t x) with
               | Some pk => if autoincPK x pk then b1 else p_parts (bP (bNL ind 1 (bComma b1)) [W_PRIMARY_KEY]) (i_parts pk)
               | None => b1 end)
              (match t_pk (x_t x) with
               | Some pk => if autoincPK x pk then b1' else p_parts (bP (bComma b1') [W_PRIMARY_KEY]) (i_parts pk)
               | None => b1' end)) as H2.
  { destruct (t_pk (x_t x)) as [pk|]; [|exact Hc]. destruct (autoincPK x pk); [exact Hc|].
    apply sim_p_parts, sim_bP, sim_bNL, sim_bComma, Hc. }
  destruct (t_fks (x_t x)) as [|f fks]; [exact H2|].
  apply (sim_bMapComma (fun b f => p_fk (bNL ind 1 b) f) p_fk (f :: fks)); [|apply sim_bComma, H2].
  intros a a' f0 Ha. apply sim_p_fk, sim_bNL, Ha.
Qed.

Lemma sq_skip s : sq (skip_while is_go_space s) = sq s.
Proof.
  induction s as [|c s IH]; [reflexivity|]. cbn [skip_while]. destruct (is_go_space c) eqn:E; [|reflexivity].
  rewrite IH. change (c :: s) with ([c] ++ s). rewrite sq_app, (sq_one c E). reflexivity.
Qed.
Lemma sq_rev s : sq (rev s) = rev (sq s).
Proof.
  induction s as [|c s IH]; [reflexivity|]. cbn [rev]. rewrite sq_app, IH. unfold sq at 2 3. cbn [filter].
  destruct (negb (is_go_space c)); cbn [rev app]; [reflexivity|rewrite app_nil_r; reflexivity].
Qed.
Lemma sq_trim s : sq (trim_space s) = sq s.
Proof. unfold trim_space. rewrite sq_rev, sq_skip, sq_rev, sq_skip, rev_involutive. reflexivity. Qed.

(** the indented CREATE TABLE of every table = the plain one up to white space; it fails iff the plain one fails *)
Theorem print_table_ind_ws x :
  match print_table_ind ind x, print_table x with
  | Some a, Some a' => sq a = sq a'
  | None, None => True
  | _, _ => False
  end.
Proof.
  unfold print_table_ind, print_table. pose proof (sim_print_body x) as Hb. unfold osim in Hb.
  destruct (print_body_ind ind x) as [b3|]; destruct (print_body x) as [b3'|]; try contradiction; [|exact I].
  unfold bString. rewrite !sq_trim.
  assert (forall ks a a', sim a a' ->
            sim (fold_left (fun b k => p_check (bNL ind 1 (bComma b)) k) ks a) (fold_left (fun b k => p_check (bComma b) k) ks a')) as Hf.
  { induction ks as [|k ks IH]; intros a a' Ha; cbn [fold_left]; [exact Ha|]. apply IH, sim_p_check, sim_bNL, sim_bComma, Ha. }
  assert (sim (bMapComma (bClose (bNL ind 0 (fold_left (fun b k => p_check (bNL ind 1 (bComma b)) k) (t_checks (x_t x)) b3))) true
                 (table_opts (x_t x)) (fun b o => bP b [o]))
              (bMapComma (bClose (fold_left (fun b k => p_check (bComma b) k) (t_checks (x_t x)) b3')) true
                 (table_opts (x_t x)) (fun b o => bP b [o]))) as Hs.
  { apply sim_bMapComma; [intros a a' o Ha; apply sim_bP, Ha|]. apply sim_bClose, sim_bNL, Hf, Hb. }
  exact (proj2 (proj2 Hs)).
Qed.
End WS.

(** witness: the table of ExportPrintProofs.w_tab_full-like shape, two-space indent *)
Definition wi_x : xtable :=
  mkX (mkTable [116] false true
         [mkColumn [105;100] 2 [105;110;116] false None None None; mkColumn [97] 2 [105;110;116] true None None None]
         (Some (mkIndex [80;82;73;77;65;82;89] true [mkPart 1 false (Some [105;100]) None] None None None)) []
         [mkFk [102;107] [[97]] [116] [[105;100]] [] []] [mkCheck [99;107] [40;97;62;48;41]]) [].
Lemma wi_x_text :
  print_table_ind [32;32] wi_x <> print_table wi_x /\
  (exists a a', print_table_ind [32;32] wi_x = Some a /\ print_table wi_x = Some a' /\ sq a = sq a' /\ In ch_nl a /\ ~ In ch_nl a').
Proof.
  split; [vm_compute; discriminate|]. eexists. eexists. split; [vm_compute; reflexivity|]. split; [vm_compute; reflexivity|].
  split; [vm_compute; reflexivity|]. split; [vm_compute; tauto|]. vm_compute. intuition discriminate.
Qed.
