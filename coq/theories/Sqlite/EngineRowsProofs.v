(** The catalogue side of the abstract engine does not depend on the rows: whatever a statement does
    to the database with its rows forgotten, it does to the populated database too (same catalogue,
    some rows) -- unless a row makes it fail, and then the error is one of the row errors. *)
From Coq Require Import List NArith ZArith Bool Arith.
From Atlas Require Import Base.Bytes Diff.Schema Diff.DiffModel Diff.DiffSqlite Diff.DiffProofs
  Sqlite.PlanModel Sqlite.EngineModel Sqlite.InspectModel.
Import ListNotations.

Definition forget_ct (c : ctable) : ctable := mkCT (ct_x c) (ct_uniques c) [].
Definition forget (d : db) : db := mkDB (map forget_ct (db_tables d)) (db_fk d) (db_tx d).

Definition row_err (e : err) : bool :=
  match e with ENotNull | EUnique | ENotNullNoDefault | EFKViolation => true | _ => false end.

(** the conclusion of the lifting lemmas *)
Definition lifts (r : result db) (e' : db) : Prop :=
  (exists d', r = Ok d' /\ forget d' = e') \/ (exists er, r = Err er /\ row_err er = true).

Lemma lifts_ok d' e' : forget d' = e' -> lifts (Ok d') e'.
Proof. intros H. left. exists d'. split; [reflexivity|exact H]. Qed.
Lemma lifts_err er e' : row_err er = true -> lifts (Err er) e'.
Proof. intros H. right. exists er. split; [reflexivity|exact H]. Qed.

Lemma find_ct_forget n l : find_ct n (map forget_ct l) = option_map forget_ct (find_ct n l).
Proof.
  unfold find_ct. induction l as [|c l IH]; simpl; [reflexivity|].
  change (ct_name (forget_ct c)) with (ct_name c).
  destruct (str_eqb (ct_name c) n); [reflexivity|exact IH].
Qed.

Lemma all_names_forget l : all_names (map forget_ct l) = all_names l.
Proof. unfold all_names. induction l as [|c l IH]; simpl; [reflexivity|]. rewrite IH. reflexivity. Qed.

Lemma name_used_forget n l : name_used n (map forget_ct l) = name_used n l.
Proof. unfold name_used. rewrite all_names_forget. reflexivity. Qed.

Lemma update_ct_forget n f g l :
  (forall c, forget_ct (f c) = g (forget_ct c)) ->
  map forget_ct (update_ct n f l) = update_ct n g (map forget_ct l).
Proof.
  intros H. induction l as [|c l IH]; simpl; [reflexivity|].
  change (ct_name (forget_ct c)) with (ct_name c).
  destruct (str_eqb (ct_name c) n); simpl; [rewrite H; reflexivity|rewrite IH; reflexivity].
Qed.

Lemma remove_ct_forget n l : map forget_ct (remove_ct n l) = remove_ct n (map forget_ct l).
Proof.
  induction l as [|c l IH]; simpl; [reflexivity|].
  change (ct_name (forget_ct c)) with (ct_name c).
  destruct (str_eqb (ct_name c) n); simpl; [reflexivity|rewrite IH; reflexivity].
Qed.

Lemma forget_set_tables d l : forget (set_tables d l) = set_tables (forget d) (map forget_ct l).
Proof. reflexivity. Qed.

(** ** CREATE TABLE *)
Lemma new_ctable_forget x u ct : new_ctable x u = Ok ct -> forget_ct ct = ct.
Proof.
  unfold new_ctable. destruct (reserved_name (t_name (x_t x))); [discriminate|].
  destruct (table_checks x u); [|discriminate]. intros H. inversion H. reflexivity.
Qed.

Lemma lift_create_table d x u e' : create_table (forget d) x u = Ok e' -> lifts (create_table d x u) e'.
Proof.
  unfold create_table. destruct (new_ctable x u) as [ct|] eqn:E; [|discriminate].
  cbn [db_tables forget]. rewrite name_used_forget. destruct (name_used (t_name (x_t x)) (db_tables d)); [discriminate|].
  intros H. inversion H; subst. apply lifts_ok. rewrite forget_set_tables, map_app. cbn [map].
  rewrite (new_ctable_forget x u ct E). reflexivity.
Qed.

(** ** DROP TABLE *)
Lemma existsb_map {A B} (f : A -> B) (p : B -> bool) l : existsb p (map f l) = existsb (fun x => p (f x)) l.
Proof. induction l as [|a l IH]; simpl; [reflexivity|]. rewrite IH. reflexivity. Qed.

Lemma fk_missing_parent_forget l f : fk_missing_parent (map forget_ct l) f = fk_missing_parent l f.
Proof. unfold fk_missing_parent. rewrite find_ct_forget. destruct (find_ct (f_reftable f) l); reflexivity. Qed.

Lemma existsb_ext {A} (p q : A -> bool) l : (forall x, p x = q x) -> existsb p l = existsb q l.
Proof. intros H. induction l as [|a l IH]; simpl; [reflexivity|]. rewrite H, IH. reflexivity. Qed.

Lemma graph_of_forget l : graph_of (map forget_ct l) = graph_of l.
Proof. unfold graph_of. rewrite map_map. apply map_ext. intros c. reflexivity. Qed.
Lemma drop_blocked_forget n l : drop_blocked n (map forget_ct l) = drop_blocked n l.
Proof. unfold drop_blocked. rewrite graph_of_forget. reflexivity. Qed.

Lemma fk_on_delete_lift c f prows :
  match fk_on_delete c f prows with
  | Ok c' => forget_ct c' = forget_ct c
  | Err e => row_err e = true
  end.
Proof.
  unfold fk_on_delete.
  destruct (negb (existsb _ (ct_rows c))); [reflexivity|].
  destruct (str_eqb (to_upper (f_ondelete f)) CASCADE); [reflexivity|].
  destruct (str_eqb (to_upper (f_ondelete f)) SET_NULL).
  - destruct (existsb _ (f_cols f)); reflexivity.
  - destruct (str_eqb (to_upper (f_ondelete f)) SET_DEFAULT); reflexivity.
Qed.

Lemma fks_on_delete_lift fks : forall c prows,
  match fks_on_delete c fks prows with
  | Ok c' => forget_ct c' = forget_ct c
  | Err e => row_err e = true
  end.
Proof.
  induction fks as [|f fks IH]; intros c prows; simpl; [reflexivity|].
  pose proof (fk_on_delete_lift c f prows) as X. destruct (fk_on_delete c f prows) as [c1|e]; [|exact X].
  specialize (IH c1 prows). destruct (fks_on_delete c1 fks prows) as [c2|e]; [congruence|exact IH].
Qed.

Lemma implicit_delete_lift n prows l :
  match implicit_delete n prows l with
  | Ok l' => map forget_ct l' = map forget_ct l
  | Err e => row_err e = true
  end.
Proof.
  induction l as [|c l IH]; simpl; [reflexivity|].
  destruct (str_eqb (ct_name c) n).
  - destruct (implicit_delete n prows l) as [r|e]; [simpl; f_equal; exact IH|exact IH].
  - pose proof (fks_on_delete_lift (filter (fun f => str_eqb (f_reftable f) n) (t_fks (ct_t c))) c prows) as X.
    destruct (fks_on_delete c _ prows) as [c1|e]; [|exact X].
    destruct (implicit_delete n prows l) as [r|e]; [simpl; f_equal; [exact X|exact IH]|exact IH].
Qed.

Lemma lift_drop_table d n e' : drop_table (forget d) n = Ok e' -> lifts (drop_table d n) e'.
Proof.
  unfold drop_table. cbn [db_tables db_fk forget]. rewrite find_ct_forget.
  destruct (find_ct n (db_tables d)) as [c|]; [|discriminate]. cbn [option_map].
  destruct (db_fk d).
  - rewrite drop_blocked_forget. destruct (drop_blocked n (db_tables d)); [discriminate|].
    change (ct_rows (forget_ct c)) with (@nil row).
    assert (X : implicit_delete n [] (map forget_ct (db_tables d)) = Ok (map forget_ct (db_tables d))).
    { clear. induction (db_tables d) as [|c l IH]; simpl; [reflexivity|]. rewrite IH.
      change (ct_name (forget_ct c)) with (ct_name c).
      destruct (str_eqb (ct_name c) n); [reflexivity|].
      assert (G : forall fks, fks_on_delete (forget_ct c) fks [] = Ok (forget_ct c)).
      { induction fks as [|f fks IHf]; simpl; [reflexivity|]. unfold fk_on_delete. simpl. exact IHf. }
      rewrite G. reflexivity. }
    rewrite X. intros H. inversion H; subst.
    pose proof (implicit_delete_lift n (ct_rows c) (db_tables d)) as Y.
    destruct (implicit_delete n (ct_rows c) (db_tables d)) as [l'|e]; [|apply lifts_err; exact Y].
    apply lifts_ok. rewrite forget_set_tables, remove_ct_forget, Y. reflexivity.
  - intros H. inversion H; subst. apply lifts_ok. rewrite forget_set_tables, remove_ct_forget. reflexivity.
Qed.

(** ** RENAME *)
Lemma lift_rename_table d a b e' : rename_table (forget d) a b = Ok e' -> lifts (rename_table d a b) e'.
Proof.
  unfold rename_table. cbn [db_tables forget]. rewrite find_ct_forget, name_used_forget.
  destruct (find_ct a (db_tables d)); [|discriminate]. cbn [option_map].
  destruct (reserved_name b); [discriminate|]. destruct (name_used b (db_tables d)); [discriminate|].
  intros H. inversion H; subst. apply lifts_ok. rewrite forget_set_tables, !map_map. reflexivity.
Qed.

(** ** ADD COLUMN *)
Lemma lift_add_column d n c ai e' : add_column (forget d) n c ai = Ok e' -> lifts (add_column d n c ai) e'.
Proof.
  unfold add_column. cbn [db_tables forget]. rewrite find_ct_forget.
  destruct (find_ct n (db_tables d)) as [ct|]; [|discriminate]. cbn [option_map].
  change (ct_t (forget_ct ct)) with (ct_t ct). change (ct_rows (forget_ct ct)) with (@nil row).
  destruct (has_col (ct_t ct) (c_name c)); [discriminate|]. destruct ai; [discriminate|].
  destruct (column_def_ok (ct_t ct) c); [|discriminate].
  destruct (c_gen c) as [[x ty]|].
  - destruct (is_stored ty); [discriminate|]. intros H. inversion H; subst. apply lifts_ok.
    rewrite forget_set_tables. f_equal. apply update_ct_forget. reflexivity.
  - destruct (c_default c) as [[v|x]|]; [|discriminate|].
    + destruct (str_eqb v CURRENT_TIME || str_eqb v CURRENT_DATE || str_eqb v CURRENT_TIMESTAMP); [discriminate|].
      simpl length. rewrite Nat.eqb_refl, andb_false_r. intros H. inversion H; subst.
      destruct (negb (c_null c) && is_null (default_of c) && negb (Nat.eqb (length (ct_rows ct)) 0));
        [apply lifts_err; reflexivity|].
      apply lifts_ok. rewrite forget_set_tables. f_equal. apply update_ct_forget. reflexivity.
    + simpl length. rewrite Nat.eqb_refl, andb_false_r. intros H. inversion H; subst.
      destruct (negb (c_null c) && negb (Nat.eqb (length (ct_rows ct)) 0)); [apply lifts_err; reflexivity|].
      apply lifts_ok. rewrite forget_set_tables. f_equal. apply update_ct_forget. reflexivity.
Qed.

(** ** DROP COLUMN *)
Lemma lift_drop_column d n c e' : drop_column (forget d) n c = Ok e' -> lifts (drop_column d n c) e'.
Proof.
  unfold drop_column. cbn [db_tables forget]. rewrite find_ct_forget.
  destruct (find_ct n (db_tables d)) as [ct|]; [|discriminate]. cbn [option_map].
  change (ct_t (forget_ct ct)) with (ct_t ct).
  destruct (negb (has_col (ct_t ct) c)); [discriminate|].
  change (col_used (forget_ct ct) c) with (col_used ct c).
  destruct (col_used ct c); [discriminate|].
  destruct (Nat.leb _ 1 && negb (is_generated (ct_t ct) c)); [discriminate|].
  intros H. inversion H; subst. apply lifts_ok. rewrite forget_set_tables. f_equal. apply update_ct_forget. reflexivity.
Qed.

(** ** CREATE INDEX / DROP INDEX *)
Lemma lift_create_index d n i e' : create_index (forget d) n i = Ok e' -> lifts (create_index d n i) e'.
Proof.
  unfold create_index. cbn [db_tables forget]. rewrite find_ct_forget, name_used_forget.
  destruct (find_ct n (db_tables d)) as [ct|]; [|discriminate]. cbn [option_map].
  change (ct_t (forget_ct ct)) with (ct_t ct).
  destruct (index_def_ok (ct_t ct) i); [|discriminate].
  destruct (name_used (i_name i) (db_tables d)); [discriminate|].
  change (ct_rows (forget_ct ct)) with (@nil row).
  assert (X : (match i_unique i, i_pred i, part_col_names (i_parts i) with
               | true, None, Some cols => has_dup_on cols []
               | _, _, _ => false end) = false).
  { destruct (i_unique i), (i_pred i), (part_col_names (i_parts i)); reflexivity. }
  rewrite X. clear X. intros H. inversion H; subst.
  destruct (match i_unique i, i_pred i, part_col_names (i_parts i) with
            | true, None, Some cols => has_dup_on cols (ct_rows ct)
            | _, _, _ => false end); [apply lifts_err; reflexivity|].
  apply lifts_ok. rewrite forget_set_tables. f_equal. apply update_ct_forget. reflexivity.
Qed.

Lemma lift_drop_index d n e' : drop_index (forget d) n = Ok e' -> lifts (drop_index d n) e'.
Proof.
  unfold drop_index. cbn [db_tables forget]. rewrite existsb_map.
  rewrite (existsb_ext (fun x => has_index n (forget_ct x)) (has_index n)); [|reflexivity].
  destruct (existsb (has_index n) (db_tables d)); [|discriminate].
  intros H. inversion H; subst. apply lifts_ok. rewrite forget_set_tables, !map_map. reflexivity.
Qed.

(** ** INSERT ... SELECT *)
Lemma lift_copy_rows d tn tc fn fe e' : copy_rows (forget d) tn tc fn fe = Ok e' -> lifts (copy_rows d tn tc fn fe) e'.
Proof.
  unfold copy_rows. cbn [db_tables forget]. rewrite !find_ct_forget.
  destruct (find_ct tn (db_tables d)) as [cto|]; [|discriminate].
  destruct (find_ct fn (db_tables d)) as [cfrom|]; [|discriminate]. cbn [option_map].
  change (ct_t (forget_ct cto)) with (ct_t cto). change (ct_t (forget_ct cfrom)) with (ct_t cfrom).
  destruct (negb (Nat.eqb (length tc) (length fe))); [discriminate|].
  destruct tc as [|c0 tc0]; [discriminate|].
  destruct (negb (forallb (has_col (ct_t cto)) (c0 :: tc0)) || negb (forallb (fun e => has_col (ct_t cfrom) (sexpr_col e)) fe)); [discriminate|].
  destruct (existsb (is_generated (ct_t cto)) (c0 :: tc0)); [discriminate|].
  change (ct_rows (forget_ct cto)) with (@nil row). change (ct_rows (forget_ct cfrom)) with (@nil row).
  cbn [insert_rows existsb].
  assert (X : (match t_pk (ct_t cto) with
               | Some pk => match pk_cols pk with Some cols => has_dup_on cols [] | None => false end
               | None => false end) = false).
  { destruct (t_pk (ct_t cto)) as [pk|]; [|reflexivity]. destruct (pk_cols pk); reflexivity. }
  rewrite X. clear X. intros H. inversion H; subst.
  destruct (existsb (violates_not_null (ct_t cto)) _); [apply lifts_err; reflexivity|].
  destruct (match t_pk (ct_t cto) with
            | Some pk => match pk_cols pk with Some cols => has_dup_on cols _ | None => false end
            | None => false end); [apply lifts_err; reflexivity|].
  apply lifts_ok. rewrite forget_set_tables. f_equal. apply update_ct_forget. reflexivity.
Qed.

(** ** all statements *)
Theorem lift_exec d s e' : exec (forget d) s = Ok e' -> lifts (exec d s) e'.
Proof.
  destruct s; simpl.
  - apply lift_create_table.
  - apply lift_drop_table.
  - apply lift_rename_table.
  - apply lift_add_column.
  - apply lift_drop_column.
  - discriminate.
  - apply lift_create_index.
  - apply lift_drop_index.
  - apply lift_copy_rows.
  - destruct (db_tx d); intros H; inversion H; subst; apply lifts_ok; reflexivity.
Qed.

Theorem lift_exec_all l : forall d e', exec_all (forget d) l = Ok e' -> lifts (exec_all d l) e'.
Proof.
  induction l as [|s l IH]; intros d e' H; simpl in *.
  - inversion H; subst. apply lifts_ok. reflexivity.
  - destruct (exec (forget d) s) as [e1|] eqn:E; [|discriminate].
    destruct (lift_exec d s e1 E) as [[d1 [E1 F1]]|[er [E1 R1]]]; rewrite E1.
    + subst e1. apply IH. exact H.
    + apply lifts_err. exact R1.
Qed.

Lemma inspect_forget d : inspect (forget d) = inspect d.
Proof.
  unfold inspect. cbn [db_tables forget]. rewrite map_map. apply map_ext. intros c. reflexivity.
Qed.
