(** C17 item 1, the DROP TABLE arm, through C01's machinery (agent sqlite's Converge*.v):
    the reverse of DROP TABLE t is exactly the statement group the planner emits to *add* the
    inspected table, so the down run of a plan [DropTable t] is C01's "add table" step on the state
    the up run left, and the re-created catalogue entry is in sync with the inspected table
    ([desired_ok]: the table survives CREATE + inspect without a difference -- C01's decidable
    precondition, which is what excludes inline UNIQUE constraints here). *)
From Coq Require Import List NArith ZArith Bool Arith Lia Permutation.
From Atlas Require Import Base.Bytes Diff.Schema Diff.DiffModel Diff.DiffSqlite Diff.DiffProofs Diff.DiffSqliteProofs
  Sqlite.PlanModel Sqlite.EngineModel Sqlite.InspectModel
  Sqlite.ConvergeDefs Sqlite.ConvergeTable Sqlite.ConvergeEngine Sqlite.ConvergePlan Sqlite.ConvergeStep
  Sqlite.ReverseModel.
Import ListNotations.

(** * the planner's view of the inspected state *)

Lemma find_xtable_inspect n l :
  find_xtable n (map inspect_table l) = option_map inspect_table (find_ct n l).
Proof.
  unfold find_xtable, find_ct. induction l as [|c l IH]; simpl; [reflexivity|].
  change (x_name (inspect_table c)) with (ct_name c).
  destruct (str_eqb (ct_name c) n); [reflexivity|exact IH].
Qed.

(** * names *)

Lemma has_prefix_app_self p r : has_prefix p (p ++ r) = Some r.
Proof. induction p as [|a p IH]; simpl; [reflexivity|]. now rewrite N.eqb_refl. Qed.

Lemma unique_autoindexes_names t us : forall k seen i,
  In i (unique_autoindexes t k seen us) -> has_prefix SQLITE_AUTOINDEX (i_name i) <> None.
Proof.
  induction us as [|u us IH]; intros k seen i Hi; cbn [unique_autoindexes] in Hi; [contradiction|].
  destruct (existsb (strs_eqb u) seen); [exact (IH _ _ _ Hi)|].
  destruct Hi as [<-|Hi]; [|exact (IH _ _ _ Hi)].
  cbn [i_name]. rewrite has_prefix_app_self. discriminate.
Qed.

(** the index names of an inspected table without autoindex-named indexes are the index names of
    the catalogue entry *)
Lemma inspected_idx_names c :
  no_auto_names (t_idx (x_t (inspect_table c))) ->
  forall i, In i (t_idx (x_t (inspect_table c))) -> In (i_name i) (map i_name (t_idx (ct_t c))).
Proof.
  intros NA i Hi. pose proof (NA i Hi) as Hn.
  change (t_idx (x_t (inspect_table c))) with (inspect_indexes c) in Hi.
  unfold inspect_indexes in Hi. apply in_app_or in Hi as [Hi|Hi].
  - exfalso. exact (unique_autoindexes_names _ _ _ _ _ Hi Hn).
  - apply in_map_iff in Hi as (j & <- & Hj). apply in_map_iff. exists j. split; [reflexivity|exact Hj].
Qed.

Lemma inspected_idx_names_NoDup c :
  no_auto_names (t_idx (x_t (inspect_table c))) -> NoDup (map i_name (t_idx (ct_t c))) ->
  NoDup (map i_name (t_idx (x_t (inspect_table c)))).
Proof.
  intros NA ND. change (t_idx (x_t (inspect_table c))) with (inspect_indexes c) in *.
  unfold inspect_indexes in *. cbv zeta in *.
  match goal with |- context [unique_autoindexes ?a ?b ?c0 ?d0] =>
    destruct (unique_autoindexes a b c0 d0) as [|a0 l] eqn:E end.
  - simpl. rewrite map_map. exact ND.
  - exfalso. assert (Ha : In a0 (a0 :: l)) by now left. rewrite <- E in Ha.
    apply (unique_autoindexes_names _ _ _ _ _ Ha). apply NA. now left.
Qed.

Lemma find_ct_split' n l c :
  find_ct n l = Some c ->
  exists l1 l2, l = l1 ++ c :: l2 /\ ct_name c = n /\ remove_ct n l = l1 ++ l2.
Proof.
  unfold find_ct. induction l as [|a l IH]; simpl; intros H; [discriminate|].
  destruct (str_eqb (ct_name a) n) eqn:E.
  - inversion H; subst a. exists [], l. repeat split. now apply str_eqb_eq.
  - destruct (IH H) as (l1 & l2 & -> & Hn & Hr). exists (a :: l1), l2. repeat split; auto. simpl. now rewrite Hr.
Qed.

Lemma removed_names_free n l c :
  NoDup (all_names l) -> find_ct n l = Some c ->
  forall x, In x (ct_names c) -> ~ In x (all_names (remove_ct n l)).
Proof.
  intros ND Hf x Hx Hin. destruct (find_ct_split' _ _ _ Hf) as (l1 & l2 & -> & _ & Hr).
  rewrite Hr in Hin. rewrite !all_names_app in *.
  change (all_names (c :: l2)) with (ct_names c ++ all_names l2) in ND.
  apply in_app_or in Hin as [Hin|Hin].
  - apply (NoDup_app_disj _ _ x ND Hin). apply in_or_app. now left.
  - apply NoDup_app_r in ND. exact (NoDup_app_disj _ _ x ND Hx Hin).
Qed.

Lemma ct_names_NoDup l c : NoDup (all_names l) -> In c l -> NoDup (ct_names c).
Proof.
  intros ND Hc. apply in_split in Hc as (l1 & l2 & ->). rewrite all_names_app in ND.
  apply NoDup_app_r in ND. change (all_names (c :: l2)) with (ct_names c ++ all_names l2) in ND.
  exact (NoDup_app_l _ _ ND).
Qed.

Lemma inspect_schema_tables nm d :
  s_tables (inspect_schema nm d) = map (fun c => x_t (inspect_table c)) (db_tables d).
Proof. unfold inspect_schema, schema_of, inspect. simpl. now rewrite map_map. Qed.

Lemma find_table_inspect l c :
  NoDup (map ct_name l) -> In c l ->
  find_table (ct_name c) (map (fun c0 => x_t (inspect_table c0)) l) = Some (x_t (inspect_table c)).
Proof.
  intros ND Hin. induction l as [|a l IH]; [contradiction|].
  cbn [map] in ND. inversion ND as [|x xs Hx Hxs]; subst.
  cbn [map]. unfold find_table. cbn [find].
  change (t_name (x_t (inspect_table a))) with (ct_name a).
  destruct Hin as [->|Hin].
  - now rewrite str_eqb_refl.
  - destruct (str_eqb (ct_name a) (ct_name c)) eqn:E.
    + apply str_eqb_eq in E. exfalso. apply Hx. rewrite E. now apply in_map.
    + exact (IH Hxs Hin).
Qed.

(** * the plan of [DropTable n] *)

Lemma plan_drop_table d to n c rs :
  find_ct n (db_tables d) = Some c -> addTable (inspect_table c) = Some rs ->
  PlanChanges (inspect d) to [DropTable n] =
  Some (mkPlan [pragma_off; mkPC (SDropTable (ct_name c)) (map pc_cmd rs) CmDropTable; pragma_on] true true).
Proof.
  intros Hf Ha. unfold PlanChanges, inspect. cbn [plan_loop].
  rewrite find_xtable_inspect, Hf. cbn [option_map]. unfold dropTable. rewrite Ha.
  cbn. destruct rs as [|r rs']; [|reflexivity].
  (* addTable never returns the empty list *)
  unfold addTable in Ha. destruct (negb _); [discriminate|]. destruct (addIndexes _ _); discriminate.
Qed.

(** * up then down *)

Theorem drop_table_sound nm to n c d d1 p :
  db_tx d = false -> NoDup (all_names (db_tables d)) ->
  find_ct n (db_tables d) = Some c ->
  desired_ok (inspect_table c) ->
  (* the tables the plan does not touch inspect to something the differ finds equal to itself *)
  (forall c0, In c0 (db_tables d) -> c0 <> c ->
     tdiff (x_t (inspect_table c0)) (x_t (inspect_table c0)) = Some []) ->
  PlanChanges (inspect d) to [DropTable n] = Some p ->
  exec_all d (up_stmts (p_changes p)) = Ok d1 ->
  p_reversible p = true /\
  exists d2, exec_all d1 (down_stmts (p_changes p)) = Ok d2 /\ synced nm d2 (inspect d).
Proof.
  intros TX ND Hf DO SELF HP UP.
  set (bx := inspect_table c) in *.
  destruct (addTable_stmts bx (do_colok bx DO) (do_noauto bx DO)) as (rs & Ha & Hst).
  rewrite (plan_drop_table d to n c rs Hf Ha) in HP. inversion HP; subst p; clear HP.
  split; [reflexivity|].
  destruct (find_ct_in _ _ _ Hf) as [Hin Hname].
  (* the up run: PRAGMA off, DROP TABLE, PRAGMA on *)
  cbn [up_stmts p_changes map pc_cmd pragma_off pragma_on exec_all] in UP.
  cbn [exec] in UP. rewrite TX in UP.
  set (doff := mkDB (db_tables d) false false) in UP.
  assert (Hdrop : exec doff (SDropTable (ct_name c)) = Ok (set_tables doff (remove_ct (ct_name c) (db_tables d)))).
  { apply (exec_drop_table doff (ct_name c) c); [reflexivity|]. rewrite Hname. exact Hf. }
  cbn [exec] in Hdrop. rewrite Hdrop in UP. cbn [exec set_tables db_tx doff db_tables db_fk] in UP.
  inversion UP; subst d1; clear UP Hdrop.
  (* the down run: the statements of addTable on the inspected table *)
  cbn [down_stmts p_changes rev app flat_map pc_reverse pragma_off pragma_on].
  rewrite app_nil_r. cbn [app]. rewrite Hst.
  destruct (do_ct bx DO) as [ct0 HC].
  set (R := remove_ct (ct_name c) (db_tables d)).
  set (d1 := mkDB R true false).
  assert (Hfree : forall x, In x (ct_names c) -> ~ In x (all_names R)).
  { intros x Hx. unfold R. rewrite Hname. exact (removed_names_free n _ c ND Hf x Hx). }
  assert (NDc : NoDup (ct_names c)) by exact (ct_names_NoDup _ _ ND Hin).
  assert (Hexec : exec_all d1 (SCreateTable (strip_idx bx) [] :: map (SCreateIndex (x_name bx)) (t_idx (x_t bx)))
                  = Ok (set_tables d1 (db_tables d1 ++ [add_idx (t_idx (x_t bx)) ct0]))).
  { apply exec_add_table; try assumption.
    - apply Hfree. now left.
    - intros i Hi. rewrite <- (do_idx bx DO i Hi). apply index_def_ok_cols.
      destruct (new_ctable_shape _ _ HC) as (pk & _ & -> & _). reflexivity.
    - apply inspected_idx_names_NoDup; [exact (do_noauto bx DO)|]. inversion NDc; assumption.
    - intros i Hi. pose proof (inspected_idx_names c (do_noauto bx DO) i Hi) as Hn. split.
      + apply Hfree. now right.
      + intros E. inversion NDc as [|x xs Hx _]; subst. apply Hx. change (x_name bx) with (ct_name c) in E.
        now rewrite <- E. }
  eexists. split; [exact Hexec|].
  (* in sync with the inspection of the start state *)
  pose proof (do_rt bx DO ct0 HC) as Hsync.
  set (c' := add_idx (t_idx (x_t bx)) ct0) in *.
  assert (Hc'name : ct_name c' = ct_name c).
  { destruct (new_ctable_shape _ _ HC) as (pk & _ & E0 & _). unfold c'. rewrite add_idx_name, E0. reflexivity. }
  assert (NDt : NoDup (map ct_name (db_tables d))) by exact (all_names_NoDup_tables _ ND).
  unfold synced, sqlite_schema_diff. change (schema_of nm (inspect d)) with (inspect_schema nm d).
  apply schema_diff_nil; [reflexivity| |].
  - (* every table of the final state has an in-sync counterpart in the start state *)
    intros t Ht. rewrite inspect_schema_tables in Ht. cbn [set_tables db_tables d1] in Ht.
    apply in_map_iff in Ht as (c2 & <- & Hc2). rewrite inspect_schema_tables.
    apply in_app_or in Hc2 as [Hc2|[<-|[]]].
    + (* untouched *)
      unfold R in Hc2. apply (remove_ct_in _ _ _ NDt) in Hc2 as [Hc2 Hne].
      exists (x_t (inspect_table c2)). split.
      * change (t_name (x_t (inspect_table c2))) with (ct_name c2). now apply find_table_inspect.
      * apply SELF; [exact Hc2|]. intros ->. now apply Hne.
    + (* the re-created table *)
      exists (x_t bx). split; [|exact Hsync].
      change (t_name (x_t (inspect_table c'))) with (ct_name c'). rewrite Hc'name.
      now apply find_table_inspect.
  - (* every table of the start state is there again *)
    intros t2 Ht2. rewrite inspect_schema_tables in Ht2.
    apply in_map_iff in Ht2 as (c2 & <- & Hc2).
    rewrite inspect_schema_tables. cbn [set_tables db_tables d1].
    change (t_name (x_t (inspect_table c2))) with (ct_name c2).
    intros Hnone.
    assert (Hall : forall c3, In c3 (R ++ [c']) -> str_eqb (ct_name c3) (ct_name c2) = false).
    { intros c3 H3. unfold find_table in Hnone.
      apply (find_none _ _ Hnone (x_t (inspect_table c3))). apply in_map_iff. exists c3. split; [reflexivity|exact H3]. }
    destruct (str_eqb (ct_name c2) (ct_name c)) eqn:E.
    + apply str_eqb_eq in E.
      assert (Hin' : In c' (R ++ [c'])) by (apply in_or_app; right; now left).
      specialize (Hall c' Hin'). rewrite Hc'name, <- E, str_eqb_refl in Hall. discriminate.
    + assert (H2 : In c2 R).
      { unfold R. apply (remove_ct_in _ _ _ NDt). split; [exact Hc2|]. intros E2. rewrite E2, str_eqb_refl in E. discriminate. }
      specialize (Hall c2 (in_or_app _ _ _ (or_introl H2))). rewrite str_eqb_refl in Hall. discriminate.
Qed.
