(** C17 item 1, the DROP TABLE arm, through C01's machinery (agent sqlite's Converge*.v):
    the reverse of DROP TABLE t is exactly the statement group the planner emits to *add* the
    inspected table, so the down run of a plan [DropTable t] is C01's "add table" step on the state
    the up run left, and the re-created catalogue entry is in sync with the inspected table
    ([desired_ok]: the table survives CREATE + inspect without a difference -- C01's decidable
    precondition, which is what excludes inline UNIQUE constraints here). *)
From Coq Require Import List NArith ZArith Bool Arith Lia Permutation.
From Atlas Require Import Base.Bytes Diff.Schema Diff.DiffModel Diff.DiffSqlite Diff.DiffProofs Diff.DiffSqliteProofs
  Sqlite.PlanModel Sqlite.EngineModel Sqlite.InspectModel
  Sqlite.ConvergeDefs Sqlite.ConvergeTable Sqlite.ConvergeEngine Sqlite.ConvergePlan Sqlite.ConvergeStep
  Sqlite.ReverseModel.
Import ListNotations.

(** * the planner's view of the inspected state *)

Lemma find_xtable_inspect n l :
  find_xtable n (map inspect_table l) = option_map inspect_table (find_ct n l).
Proof.
  unfold find_xtable, find_ct. induction l as [|c l IH]; simpl; [reflexivity|].
  change (x_name (inspect_table c)) with (ct_name c).
  destruct (str_eqb (ct_name c) n); [reflexivity|exact IH].
Qed.

(** * names *)

Lemma has_prefix_app_self p r : has_prefix p (p ++ r) = Some r.
Proof. induction p as [|a p IH]; simpl; [reflexivity|]. now rewrite N.eqb_refl. Qed.

Lemma unique_autoindexes_names t us : forall k seen i,
  In i (unique_autoindexes t k seen us) -> has_prefix SQLITE_AUTOINDEX (i_name i) <> None.
Proof.
  induction us as [|u us IH]; intros k seen i Hi; cbn [unique_autoindexes] in Hi; [contradiction|].
  destruct (existsb (strs_eqb u) seen); [exact (IH _ _ _ Hi)|].
  destruct Hi as [<-|Hi]; [|exact (IH _ _ _ Hi)].
  cbn [i_name]. rewrite has_prefix_app_self. discriminate.
Qed.

(** the index names of an inspected table without autoindex-named indexes are the index names of
    the catalogue entry *)
Lemma inspected_idx_names c :
  no_auto_names (t_idx (x_t (inspect_table c))) ->
  forall i, In i (t_idx (x_t (inspect_table c))) -> In (i_name i) (map i_name (t_idx (ct_t c))).
Proof.
  intros NA i Hi. pose proof (NA i Hi) as Hn.
  change (t_idx (x_t (inspect_table c))) with (inspect_indexes c) in Hi.
  unfold inspect_indexes in Hi. apply in_app_or in Hi as [Hi|Hi].
  - exfalso. exact (unique_autoindexes_names _ _ _ _ _ Hi Hn).
  - apply in_map_iff in Hi as (j & <- & Hj). apply in_map_iff. exists j. split; [reflexivity|exact Hj].
Qed.

Lemma inspected_idx_names_NoDup c :
  no_auto_names (t_idx (x_t (inspect_table c))) -> NoDup (map i_name (t_idx (ct_t c))) ->
  NoDup (map i_name (t_idx (x_t (inspect_table c)))).
Proof.
  intros NA ND. change (t_idx (x_t (inspect_table c))) with (inspect_indexes c) in *.
  unfold inspect_indexes in *. cbv zeta in *.
  match goal with |- context [unique_autoindexes ?a ?b ?c0 ?d0] =>
    destruct (unique_autoindexes a b c0 d0) as [|a0 l] eqn:E end.
  - simpl. rewrite map_map. exact ND.
  - exfalso. assert (Ha : In a0 (a0 :: l)) by now left. rewrite <- E in Ha.
    apply (unique_autoindexes_names _ _ _ _ _ Ha). apply NA. now left.
Qed.

Lemma find_ct_split' n l c :
  find_ct n l = Some c ->
  exists l1 l2, l = l1 ++ c :: l2 /\ ct_name c = n /\ remove_ct n l = l1 ++ l2.
Proof.
  unfold find_ct. induction l as [|a l IH]; simpl; intros H; [discriminate|].
  destruct (str_eqb (ct_name a) n) eqn:E.
  - inversion H; subst a. exists [], l. repeat split. now apply str_eqb_eq.
  - destruct (IH H) as (l1 & l2 & -> & Hn & Hr). exists (a :: l1), l2. repeat split; auto. simpl. now rewrite Hr.
Qed.

Lemma removed_names_free n l c :
  NoDup (all_names l) -> find_ct n l = Some c ->
  forall x, In x (ct_names c) -> ~ In x (all_names (remove_ct n l)).
Proof.
  intros ND Hf x Hx Hin. destruct (find_ct_split' _ _ _ Hf) as (l1 & l2 & -> & _ & Hr).
  rewrite Hr in Hin. rewrite !all_names_app in *.
  change (all_names (c :: l2)) with (ct_names c ++ all_names l2) in ND.
  apply in_app_or in Hin as [Hin|Hin].
  - apply (NoDup_app_disj _ _ x ND Hin). apply in_or_app. now left.
  - apply NoDup_app_r in ND. exact (NoDup_app_disj _ _ x ND Hx Hin).
Qed.

Lemma ct_names_NoDup l c : NoDup (all_names l) -> In c l -> NoDup (ct_names c).
Proof.
  intros ND Hc. apply in_split in Hc as (l1 & l2 & ->). rewrite all_names_app in ND.
  apply NoDup_app_r in ND. change (all_names (c :: l2)) with (ct_names c ++ all_names l2) in ND.
  exact (NoDup_app_l _ _ ND).
Qed.

Lemma inspect_schema_tables nm d :
  s_tables (inspect_schema nm d) = map (fun c => x_t (inspect_table c)) (db_tables d).
Proof. unfold inspect_schema, schema_of, inspect. simpl. now rewrite map_map. Qed.

Lemma find_table_inspect l c :
  NoDup (map ct_name l) -> In c l ->
  find_table (ct_name c) (map (fun c0 => x_t (inspect_table c0)) l) = Some (x_t (inspect_table c)).
Proof.
  intros ND Hin. induction l as [|a l IH]; [contradiction|].
  cbn [map] in ND. inversion ND as [|x xs Hx Hxs]; subst.
  cbn [map]. unfold find_table. cbn [find].
  change (t_name (x_t (inspect_table a))) with (ct_name a).
  destruct Hin as [->|Hin].
  - now rewrite str_eqb_refl.
  - destruct (str_eqb (ct_name a) (ct_name c)) eqn:E.
    + apply str_eqb_eq in E. exfalso. apply Hx. rewrite E. now apply in_map.
    + exact (IH Hxs Hin).
Qed.

(** * the plan of [DropTable n] *)

Lemma plan_drop_table d to n c rs :
  find_ct n (db_tables d) = Some c -> addTable (inspect_table c) = Some rs ->
  PlanChanges (inspect d) to [DropTable n] =
  Some (mkPlan [pragma_off; mkPC (SDropTable (ct_name c)) (map pc_cmd rs) CmDropTable; pragma_on] true true).
Proof.
  intros Hf Ha. unfold PlanChanges, inspect. cbn [plan_loop].
  rewrite find_xtable_inspect, Hf. cbn [option_map]. unfold dropTable. rewrite Ha.
  cbn. destruct rs as [|r rs']; [|reflexivity].
  (* addTable never returns the empty list *)
  unfold addTable in Ha. destruct (negb _); [discriminate|]. destruct (addIndexes _ _); discriminate.
Qed.

(** * up then down *)

Theorem drop_table_sound nm to n c d d1 p :
  db_tx d = false -> NoDup (all_names (db_tables d)) ->
  find_ct n (db_tables d) = Some c ->
  desired_ok (inspect_table c) ->
  (* the tables the plan does not touch inspect to something the differ finds equal to itself *)
  (forall c0, In c0 (db_tables d) -> c0 <> c ->
     tdiff (x_t (inspect_table c0)) (x_t (inspect_table c0)) = Some []) ->
  PlanChanges (inspect d) to [DropTable n] = Some p ->
  exec_all d (up_stmts (p_changes p)) = Ok d1 ->
  p_reversible p = true /\
  exists d2, exec_all d1 (down_stmts (p_changes p)) = Ok d2 /\ synced nm d2 (inspect d).
Proof.
  intros TX ND Hf DO SELF HP UP.
  set (bx := inspect_table c) in *.
  destruct (addTable_stmts bx (do_colok bx DO) (do_noauto bx DO)) as (rs & Ha & Hst).
  rewrite (plan_drop_table d to n c rs Hf Ha) in HP. inversion HP; subst p; clear HP.
  split; [reflexivity|].
  destruct (find_ct_in _ _ _ Hf) as [Hin Hname].
  (* the up run: PRAGMA off, DROP TABLE, PRAGMA on *)
  cbn [up_stmts p_changes map pc_cmd pragma_off pragma_on exec_all] in UP.
  cbn [exec] in UP. rewrite TX in UP.
  set (doff := mkDB (db_tables d) false false) in UP.
  assert (Hdrop : exec doff (SDropTable (ct_name c)) = Ok (set_tables doff (remove_ct (ct_name c) (db_tables d)))).
  { apply (exec_drop_table doff (ct_name c) c); [reflexivity|]. rewrite Hname. exact Hf. }
  cbn [exec] in Hdrop. rewrite Hdrop in UP. cbn [exec set_tables db_tx doff db_tables db_fk] in UP.
  inversion UP; subst d1; clear UP Hdrop.
  (* the down run: the statements of addTable on the inspected table *)
  cbn [down_stmts p_changes rev app flat_map pc_reverse pragma_off pragma_on].
  rewrite app_nil_r. cbn [app]. rewrite Hst.
  destruct (do_ct bx DO) as [ct0 HC].
  set (R := remove_ct (ct_name c) (db_tables d)).
  set (d1 := mkDB R true false).
  assert (Hfree : forall x, In x (ct_names c) -> ~ In x (all_names R)).
  { intros x Hx. unfold R. rewrite Hname. exact (removed_names_free n _ c ND Hf x Hx). }
  assert (NDc : NoDup (ct_names c)) by exact (ct_names_NoDup _ _ ND Hin).
  assert (Hexec : exec_all d1 (SCreateTable (strip_idx bx) [] :: map (SCreateIndex (x_name bx)) (t_idx (x_t bx)))
                  = Ok (set_tables d1 (db_tables d1 ++ [add_idx (t_idx (x_t bx)) ct0]))).
  { apply exec_add_table; try assumption.
    - apply Hfree. now left.
    - intros i Hi. rewrite <- (do_idx bx DO i Hi). apply index_def_ok_cols.
      destruct (new_ctable_shape _ _ HC) as (pk & _ & -> & _). reflexivity.
    - apply inspected_idx_names_NoDup; [exact (do_noauto bx DO)|]. inversion NDc; assumption.
    - intros i Hi. pose proof (inspected_idx_names c (do_noauto bx DO) i Hi) as Hn. split.
      + apply Hfree. now right.
      + intros E. inversion NDc as [|x xs Hx _]; subst. apply Hx. change (x_name bx) with (ct_name c) in E.
        now rewrite <- E. }
  eexists. split; [exact Hexec|].
  (* in sync with the inspection of the start state *)
  pose proof (do_rt bx DO ct0 HC) as Hsync.
  set (c' := add_idx (t_idx (x_t bx)) ct0) in *.
  assert (Hc'name : ct_name c' = ct_name c).
  { destruct (new_ctable_shape _ _ HC) as (pk & _ & E0 & _). unfold c'. rewrite add_idx_name, E0. reflexivity. }
  assert (NDt : NoDup (map ct_name (db_tables d))) by exact (all_names_NoDup_tables _ ND).
  unfold synced, sqlite_schema_diff. change (schema_of nm (inspect d)) with (inspect_schema nm d).
  apply schema_diff_nil; [reflexivity| |].
  - (* every table of the final state has an in-sync counterpart in the start state *)
    intros t Ht. rewrite inspect_schema_tables in Ht. cbn [set_tables db_tables d1] in Ht.
    apply in_map_iff in Ht as (c2 & <- & Hc2). rewrite inspect_schema_tables.
    apply in_app_or in Hc2 as [Hc2|[<-|[]]].
    + (* untouched *)
      unfold R in Hc2. apply (remove_ct_in _ _ _ NDt) in Hc2 as [Hc2 Hne].
      exists (x_t (inspect_table c2)). split.
      * change (t_name (x_t (inspect_table c2))) with (ct_name c2). now apply find_table_inspect.
      * apply SELF; [exact Hc2|]. intros ->. now apply Hne.
    + (* the re-created table *)
      exists (x_t bx). split; [|exact Hsync].
      change (t_name (x_t (inspect_table c'))) with (ct_name c'). rewrite Hc'name.
      now apply find_table_inspect.
  - (* every table of the start state is there again *)
    intros t2 Ht2. rewrite inspect_schema_tables in Ht2.
    apply in_map_iff in Ht2 as (c2 & <- & Hc2).
    rewrite inspect_schema_tables. cbn [set_tables db_tables d1].
    change (t_name (x_t (inspect_table c2))) with (ct_name c2).
    intros Hnone.
    assert (Hall : forall c3, In c3 (R ++ [c']) -> str_eqb (ct_name c3) (ct_name c2) = false).
    { intros c3 H3. unfold find_table in Hnone.
      apply (find_none _ _ Hnone (x_t (inspect_table c3))). apply in_map_iff. exists c3. split; [reflexivity|exact H3]. }
    destruct (str_eqb (ct_name c2) (ct_name c)) eqn:E.
    + apply str_eqb_eq in E.
      assert (Hin' : In c' (R ++ [c'])) by (apply in_or_app; right; now left).
      specialize (Hall c' Hin'). rewrite Hc'name, <- E, str_eqb_refl in Hall. discriminate.
    + assert (H2 : In c2 R).
      { unfold R. apply (remove_ct_in _ _ _ NDt). split; [exact Hc2|]. intros E2. rewrite E2, str_eqb_refl in E. discriminate. }
      specialize (Hall c2 (in_or_app _ _ _ (or_introl H2))). rewrite str_eqb_refl in Hall. discriminate.
Qed.

Lemma set_tables_same' d : set_tables d (db_tables d) = d.
Proof. destruct d; reflexivity. Qed.

(** * several DropTable changes

    [cs = map DropTable ns]: up drops the tables in that order inside the PRAGMA bracket, down
    re-creates them in the reverse order at the end of the catalogue. *)

Definition tbl_stmts (bx : xtable) : list stmt :=
  SCreateTable (strip_idx bx) [] :: map (SCreateIndex (x_name bx)) (t_idx (x_t bx)).

Definition drop_pc (c : ctable) : pchange :=
  mkPC (SDropTable (ct_name c)) (tbl_stmts (inspect_table c)) CmDropTable.

(** the catalogue entry the reverse statements of DROP TABLE leave *)
Definition recreated (c : ctable) : ctable :=
  match new_ctable (strip_idx (inspect_table c)) [] with
  | Ok ct0 => add_idx (t_idx (x_t (inspect_table c))) ct0
  | Err _ => c
  end.

Definition removes (ns : list str) (l : list ctable) : list ctable :=
  fold_left (fun l n => remove_ct n l) ns l.

Lemma dropTable_pc c :
  desired_ok (inspect_table c) -> dropTable (inspect_table c) = Some [drop_pc c].
Proof.
  intros DO. destruct (addTable_stmts _ (do_colok _ DO) (do_noauto _ DO)) as (rs & Ha & Hst).
  unfold dropTable. rewrite Ha. unfold drop_pc, tbl_stmts. rewrite <- Hst. reflexivity.
Qed.

Lemma plan_loop_drops from to : forall (cl : list ctable) s,
  (forall c, In c cl -> find_xtable (ct_name c) from = Some (inspect_table c) /\ desired_ok (inspect_table c)) ->
  plan_loop from to (map (fun c => DropTable (ct_name c)) cl) s =
  Some (mkPS (ps_changes s ++ map drop_pc cl) (match cl with [] => ps_skipFKs s | _ => true end)).
Proof.
  induction cl as [|c cl IH]; intros s H; simpl.
  - rewrite app_nil_r. destruct s; reflexivity.
  - destruct (H c (or_introl eq_refl)) as [Hf DO]. rewrite Hf, (dropTable_pc c DO).
    rewrite IH by (intros c0 H0; apply H; now right). simpl. rewrite <- app_assoc. simpl.
    destruct cl; reflexivity.
Qed.

Lemma find_ct_remove_other n m l :
  str_eqb m n = false -> find_ct n (remove_ct m l) = find_ct n l.
Proof.
  intros Hne. unfold find_ct. induction l as [|c l IH]; simpl; [reflexivity|].
  destruct (str_eqb (ct_name c) m) eqn:Em; simpl.
  - destruct (str_eqb (ct_name c) n) eqn:En; [|reflexivity].
    apply str_eqb_eq in Em, En. rewrite <- Em, En, str_eqb_refl in Hne. discriminate.
  - destruct (str_eqb (ct_name c) n); [reflexivity|exact IH].
Qed.

Lemma exec_drops : forall (cl : list ctable) d,
  db_fk d = false ->
  NoDup (map ct_name cl) ->
  (forall c, In c cl -> find_ct (ct_name c) (db_tables d) = Some c) ->
  exec_all d (map (fun c => SDropTable (ct_name c)) cl) =
  Ok (set_tables d (removes (map ct_name cl) (db_tables d))).
Proof.
  induction cl as [|c cl IH]; intros d FK ND H; simpl.
  - now rewrite set_tables_same'.
  - inversion ND as [|x xs Hx Hxs]; subst.
    pose proof (exec_drop_table d (ct_name c) c FK (H c (or_introl eq_refl))) as E. simpl in E. rewrite E.
    rewrite IH; [reflexivity|exact FK|exact Hxs|].
    intros c0 H0. cbn [db_tables set_tables]. rewrite find_ct_remove_other; [apply H; now right|].
    apply str_eqb_neq. intros E0. apply Hx. rewrite E0. now apply in_map.
Qed.

(** the names of a re-created table are those of the original *)
Lemma inspected_idx_names_eq c :
  no_auto_names (t_idx (x_t (inspect_table c))) ->
  map i_name (t_idx (x_t (inspect_table c))) = map i_name (t_idx (ct_t c)).
Proof.
  intros NA. change (t_idx (x_t (inspect_table c))) with (inspect_indexes c) in *.
  unfold inspect_indexes in *. cbv zeta in *.
  match goal with |- context [unique_autoindexes ?a ?b ?c0 ?d0] =>
    destruct (unique_autoindexes a b c0 d0) as [|a0 l] eqn:E end.
  - simpl. now rewrite map_map.
  - exfalso. assert (Ha : In a0 (a0 :: l)) by now left. rewrite <- E in Ha.
    apply (unique_autoindexes_names _ _ _ _ _ Ha). apply NA. now left.
Qed.

Lemma recreated_names c :
  desired_ok (inspect_table c) -> ct_names (recreated c) = ct_names c.
Proof.
  intros DO. unfold recreated. destruct (do_ct _ DO) as [ct0 HC]. rewrite HC.
  destruct (new_ctable_shape _ _ HC) as (pk & _ & -> & _).
  unfold ct_names. cbn. f_equal. exact (inspected_idx_names_eq c (do_noauto _ DO)).
Qed.

Lemma exec_recreates : forall (cl : list ctable) a,
  (forall c, In c cl -> desired_ok (inspect_table c)) ->
  NoDup (all_names (db_tables a) ++ flat_map ct_names cl) ->
  exec_all a (flat_map (fun c => tbl_stmts (inspect_table c)) cl) =
  Ok (set_tables a (db_tables a ++ map recreated cl)).
Proof.
  induction cl as [|c cl IH]; intros a DOs ND.
  - simpl. now rewrite app_nil_r, set_tables_same'.
  - pose proof (DOs c (or_introl eq_refl)) as DO. set (bx := inspect_table c) in *.
    destruct (do_ct bx DO) as [ct0 HC].
    cbn [flat_map]. rewrite exec_all_app.
    cbn [flat_map] in ND.
    assert (NDc : NoDup (ct_names c)).
    { pose proof (NoDup_app_r _ _ ND) as ND2. exact (NoDup_app_l _ _ ND2). }
    assert (Hfree : forall x, In x (ct_names c) -> ~ In x (all_names (db_tables a))).
    { intros x Hx Hin. apply (NoDup_app_disj _ _ x ND Hin). apply in_or_app. now left. }
    assert (Hexec : exec_all a (tbl_stmts bx) = Ok (set_tables a (db_tables a ++ [add_idx (t_idx (x_t bx)) ct0]))).
    { unfold tbl_stmts. apply exec_add_table; try assumption.
      - apply Hfree. now left.
      - intros i Hi. rewrite <- (do_idx bx DO i Hi). apply index_def_ok_cols.
        destruct (new_ctable_shape _ _ HC) as (pk & _ & -> & _). reflexivity.
      - unfold bx. rewrite (inspected_idx_names_eq c (do_noauto _ DO)). inversion NDc; assumption.
      - intros i Hi. pose proof (inspected_idx_names c (do_noauto bx DO) i Hi) as Hn. split.
        + apply Hfree. now right.
        + intros E. inversion NDc as [|x xs Hx _]; subst. apply Hx. change (x_name bx) with (ct_name c) in E.
          now rewrite <- E. }
    unfold bx in Hexec. rewrite Hexec. fold bx.
    assert (Er : add_idx (t_idx (x_t bx)) ct0 = recreated c) by (unfold recreated; fold bx; now rewrite HC).
    rewrite Er. rewrite IH.
    + cbn [db_tables set_tables map]. rewrite <- app_assoc. reflexivity.
    + intros c0 H0. apply DOs. now right.
    + cbn [db_tables set_tables]. rewrite all_names_app.
      change (all_names [recreated c]) with (ct_names (recreated c) ++ []).
      rewrite app_nil_r, (recreated_names c DO). rewrite <- app_assoc. exact ND.
Qed.

(** * what is left after the drops *)

Lemma remove_ct_names_NoDup n l : NoDup (map ct_name l) -> NoDup (map ct_name (remove_ct n l)).
Proof.
  induction l as [|c l IH]; simpl; intros ND; [constructor|].
  inversion ND as [|x xs Hx Hxs]; subst. destruct (str_eqb (ct_name c) n); [exact Hxs|].
  simpl. constructor; [|exact (IH Hxs)].
  intros Hin. apply Hx. apply in_map_iff in Hin as (c0 & E & H0). rewrite <- E. apply in_map.
  apply (remove_ct_in n l c0 Hxs) in H0. exact (proj1 H0).
Qed.

Lemma In_removes ns : forall l c,
  NoDup (map ct_name l) -> (In c (removes ns l) <-> In c l /\ ~ In (ct_name c) ns).
Proof.
  induction ns as [|n ns IH]; intros l c ND; simpl.
  - tauto.
  - unfold removes in *. simpl. rewrite (IH (remove_ct n l) c (remove_ct_names_NoDup n l ND)).
    rewrite (remove_ct_in n l c ND). split.
    + intros [[H1 H2] H3]. split; [exact H1|]. intros [E|H4]; [now apply H2|contradiction].
    + intros [H1 H2]. split; [split; [exact H1|]|]; intros E; apply H2; [now left|now right].
Qed.

Lemma all_names_remove_perm n l c :
  NoDup (map ct_name l) -> find_ct n l = Some c ->
  Permutation (all_names l) (ct_names c ++ all_names (remove_ct n l)).
Proof.
  intros ND Hf. destruct (find_ct_split' _ _ _ Hf) as (l1 & l2 & -> & _ & Hr). rewrite Hr.
  rewrite !all_names_app. change (all_names (c :: l2)) with (ct_names c ++ all_names l2).
  rewrite app_assoc. rewrite (app_assoc (ct_names c)). apply Permutation_app_tail. apply Permutation_app_comm.
Qed.

Lemma all_names_removes_perm : forall (cl : list ctable) l,
  NoDup (map ct_name l) -> NoDup (map ct_name cl) ->
  (forall c, In c cl -> find_ct (ct_name c) l = Some c) ->
  Permutation (all_names l) (all_names (removes (map ct_name cl) l) ++ flat_map ct_names cl).
Proof.
  induction cl as [|c cl IH]; intros l ND NDc H.
  - cbn [map flat_map removes fold_left]. now rewrite app_nil_r.
  - cbn [map] in NDc. inversion NDc as [|x xs Hx Hxs]; subst.
    cbn [map flat_map]. unfold removes. cbn [fold_left].
    fold (removes (map ct_name cl) (remove_ct (ct_name c) l)).
    eapply Permutation_trans; [exact (all_names_remove_perm _ _ _ ND (H c (or_introl eq_refl)))|].
    assert (P : Permutation (all_names (remove_ct (ct_name c) l))
                  (all_names (removes (map ct_name cl) (remove_ct (ct_name c) l)) ++ flat_map ct_names cl)).
    { apply (IH (remove_ct (ct_name c) l) (remove_ct_names_NoDup _ _ ND) Hxs).
      intros c0 H0. rewrite find_ct_remove_other; [apply H; now right|].
      apply str_eqb_neq. intros E0. apply Hx. rewrite E0. now apply in_map. }
    eapply Permutation_trans; [apply Permutation_app_head; exact P|].
    set (A := all_names (removes (map ct_name cl) (remove_ct (ct_name c) l))).
    set (B := flat_map ct_names cl). set (N := ct_names c).
    eapply Permutation_trans; [apply Permutation_app_comm|].
    rewrite <- app_assoc. apply Permutation_app_head. apply Permutation_app_comm.
Qed.

Lemma drops_reversible cl : set_reversible (map drop_pc cl) = true.
Proof. induction cl as [|c cl IH]; simpl; [reflexivity|exact IH]. Qed.

Lemma flat_reverse_drops cl :
  flat_map pc_reverse (rev (map drop_pc cl)) = flat_map (fun c => tbl_stmts (inspect_table c)) (rev cl).
Proof.
  rewrite <- map_rev. induction (rev cl) as [|c l IH]; simpl; [reflexivity|]. now rewrite IH.
Qed.

Lemma recreated_name c : desired_ok (inspect_table c) -> ct_name (recreated c) = ct_name c.
Proof.
  intros DO. pose proof (recreated_names c DO) as E. unfold ct_names in E. now inversion E.
Qed.

Lemma recreated_synced c : desired_ok (inspect_table c) -> table_synced (recreated c) (inspect_table c).
Proof.
  intros DO. unfold recreated. destruct (do_ct _ DO) as [ct0 HC]. rewrite HC. exact (do_rt _ DO ct0 HC).
Qed.

Lemma down_bracket l : down_stmts (pragma_off :: l ++ [pragma_on]) = flat_map pc_reverse (rev l).
Proof.
  unfold down_stmts. change (pragma_off :: l ++ [pragma_on]) with ([pragma_off] ++ l ++ [pragma_on]).
  rewrite !rev_app_distr. change (rev [pragma_on]) with [pragma_on]. change (rev [pragma_off]) with [pragma_off].
  rewrite !flat_map_app. cbn [flat_map pc_reverse pragma_on pragma_off app]. now rewrite app_nil_r.
Qed.

Lemma up_drops d cl :
  db_tx d = false -> NoDup (map ct_name cl) ->
  (forall c, In c cl -> find_ct (ct_name c) (db_tables d) = Some c) ->
  exec_all d (SPragmaFK false :: map (fun c => SDropTable (ct_name c)) cl ++ [SPragmaFK true]) =
  Ok (mkDB (removes (map ct_name cl) (db_tables d)) true false).
Proof.
  intros TX NDc H.
  change (SPragmaFK false :: map (fun c => SDropTable (ct_name c)) cl ++ [SPragmaFK true])
    with ([SPragmaFK false] ++ map (fun c => SDropTable (ct_name c)) cl ++ [SPragmaFK true]).
  rewrite exec_all_app. cbn [exec_all exec]. rewrite TX.
  rewrite exec_all_app.
  rewrite (exec_drops cl (mkDB (db_tables d) false false) eq_refl NDc H).
  reflexivity.
Qed.

Theorem drop_tables_sound nm to (cl : list ctable) d d1 p :
  db_tx d = false -> NoDup (all_names (db_tables d)) ->
  NoDup (map ct_name cl) ->
  (forall c, In c cl -> find_ct (ct_name c) (db_tables d) = Some c /\ desired_ok (inspect_table c)) ->
  (forall c0, In c0 (db_tables d) -> ~ In c0 cl ->
     tdiff (x_t (inspect_table c0)) (x_t (inspect_table c0)) = Some []) ->
  PlanChanges (inspect d) to (map (fun c => DropTable (ct_name c)) cl) = Some p ->
  exec_all d (up_stmts (p_changes p)) = Ok d1 ->
  p_reversible p = true /\
  exists d2, exec_all d1 (down_stmts (p_changes p)) = Ok d2 /\ synced nm d2 (inspect d).
Proof.
  intros TX ND NDc Hcl SELF HP UP.
  assert (NDt : NoDup (map ct_name (db_tables d))) by exact (all_names_NoDup_tables _ ND).
  destruct cl as [|c0 cl0].
  { (* nothing to drop: the empty plan *)
    cbn in HP. inversion HP; subst p. cbn in UP. inversion UP; subst d1. split; [reflexivity|].
    exists d. split; [reflexivity|].
    unfold synced, sqlite_schema_diff. change (schema_of nm (inspect d)) with (inspect_schema nm d).
    apply schema_diff_nil; [reflexivity| |].
    - intros t Ht. rewrite inspect_schema_tables in Ht. apply in_map_iff in Ht as (c2 & <- & Hc2).
      exists (x_t (inspect_table c2)). rewrite inspect_schema_tables. split.
      + change (t_name (x_t (inspect_table c2))) with (ct_name c2). now apply find_table_inspect.
      + apply SELF; [exact Hc2|]. intros [].
    - intros t2 Ht2. rewrite inspect_schema_tables in *. apply in_map_iff in Ht2 as (c2 & <- & Hc2).
      change (t_name (x_t (inspect_table c2))) with (ct_name c2). rewrite (find_table_inspect _ _ NDt Hc2). discriminate. }
  set (cl := c0 :: cl0) in *.
  (* the plan *)
  unfold PlanChanges in HP.
  rewrite (plan_loop_drops (inspect d) to cl (mkPS [] false)) in HP.
  2:{ intros c Hc. destruct (Hcl c Hc) as [Hf DO]. split; [|exact DO].
      unfold inspect. rewrite find_xtable_inspect, Hf. reflexivity. }
  cbn [ps_changes ps_skipFKs app cl] in HP. fold cl in HP. inversion HP; subst p; clear HP.
  split; [apply drops_reversible|].
  (* the up run *)
  match type of UP with exec_all _ (up_stmts (p_changes ?P)) = _ =>
    assert (Hup : up_stmts (p_changes P) =
                  SPragmaFK false :: map (fun c => SDropTable (ct_name c)) cl ++ [SPragmaFK true]);
    [cbn [p_changes]; unfold up_stmts; cbn [map pc_cmd]; rewrite map_app, map_map; reflexivity|];
    assert (Hdown : down_stmts (p_changes P) = flat_map (fun c => tbl_stmts (inspect_table c)) (rev cl));
    [cbn [p_changes]; etransitivity; [apply (down_bracket (map drop_pc cl))|apply flat_reverse_drops]|]
  end.
  rewrite Hup in UP.
  rewrite (up_drops d cl TX NDc (fun c Hc => proj1 (Hcl c Hc))) in UP. inversion UP; subst d1; clear UP.
  set (R := removes (map ct_name cl) (db_tables d)).
  set (d1 := mkDB R true false).
  (* the down run *)
  rewrite Hdown.
  assert (NDall : NoDup (all_names (db_tables d1) ++ flat_map ct_names (rev cl))).
  { cbn [db_tables d1]. unfold R.
    apply (Permutation_NoDup (l := all_names (removes (map ct_name cl) (db_tables d)) ++ flat_map ct_names cl)).
    - apply Permutation_app_head. apply Permutation_flat_map. apply Permutation_rev.
    - apply (Permutation_NoDup (all_names_removes_perm cl (db_tables d) NDt NDc (fun c Hc => proj1 (Hcl c Hc)))).
      exact ND. }
  assert (DOs : forall c, In c (rev cl) -> desired_ok (inspect_table c)).
  { intros c Hc. apply in_rev in Hc. exact (proj2 (Hcl c Hc)). }
  eexists. split; [exact (exec_recreates (rev cl) d1 DOs NDall)|].
  (* in sync *)
  unfold synced, sqlite_schema_diff. change (schema_of nm (inspect d)) with (inspect_schema nm d).
  apply schema_diff_nil; [reflexivity| |].
  - intros t Ht. rewrite inspect_schema_tables in Ht. cbn [set_tables db_tables d1] in Ht.
    apply in_map_iff in Ht as (c2 & <- & Hc2). rewrite inspect_schema_tables.
    apply in_app_or in Hc2 as [Hc2|Hc2].
    + unfold R in Hc2. apply (In_removes _ _ _ NDt) in Hc2 as [Hc2 Hne].
      exists (x_t (inspect_table c2)). split.
      * change (t_name (x_t (inspect_table c2))) with (ct_name c2). now apply find_table_inspect.
      * apply SELF; [exact Hc2|]. intros Hin. apply Hne. now apply in_map.
    + apply in_map_iff in Hc2 as (c & <- & Hc). apply in_rev in Hc. destruct (Hcl c Hc) as [Hf DO].
      exists (x_t (inspect_table c)). split; [|exact (recreated_synced c DO)].
      change (t_name (x_t (inspect_table (recreated c)))) with (ct_name (recreated c)).
      rewrite (recreated_name c DO). apply find_table_inspect; [exact NDt|]. exact (proj1 (find_ct_in _ _ _ Hf)).
  - intros t2 Ht2. rewrite inspect_schema_tables in Ht2. apply in_map_iff in Ht2 as (c2 & <- & Hc2).
    rewrite inspect_schema_tables. cbn [set_tables db_tables d1].
    change (t_name (x_t (inspect_table c2))) with (ct_name c2). intros Hnone.
    assert (Hall : forall c3, In c3 (R ++ map recreated (rev cl)) -> str_eqb (ct_name c3) (ct_name c2) = false).
    { intros c3 H3. unfold find_table in Hnone.
      apply (find_none _ _ Hnone (x_t (inspect_table c3))). apply in_map_iff. exists c3. split; [reflexivity|exact H3]. }
    destruct (in_dec (list_eq_dec N.eq_dec) (ct_name c2) (map ct_name cl)) as [Hd|Hk].
    + apply in_map_iff in Hd as (c & En & Hc). destruct (Hcl c Hc) as [_ DO].
      assert (H3 : In (recreated c) (R ++ map recreated (rev cl))).
      { apply in_or_app. right. apply in_map. now apply in_rev in Hc || (apply -> in_rev; exact Hc). }
      specialize (Hall _ H3). rewrite (recreated_name c DO), En, str_eqb_refl in Hall. discriminate.
    + assert (H2 : In c2 R) by (unfold R; apply (In_removes _ _ _ NDt); split; assumption).
      specialize (Hall c2 (in_or_app _ _ _ (or_introl H2))). rewrite str_eqb_refl in Hall. discriminate.
Qed.
