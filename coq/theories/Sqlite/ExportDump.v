(** C03_sql, the table list of the SQL export.  cmdlog.sqlInspect = fmtPlan(ChangesToRealm(realm)):
    ChangesToRealm walks Schema.Tables -- the inspected tables, in inspection order -- and nothing
    else; in particular it does not follow ForeignKey.RefTable, which for a dangling reference (the
    parent was dropped with foreign_keys off, never existed, ...) is a stub holding only a name that
    is not a member of Schema.Tables.  In the shared model a foreign key names its parent
    ([f_reftable : str]); the stub has no other content.  Theorem [dump_creates_inspected]: the
    CREATE TABLE statements of the dump plan are exactly the inspected tables, in order, whatever the
    foreign keys say. *)
From Coq Require Import List NArith Bool.
From Atlas Require Import Base.Bytes Diff.Schema Diff.DiffModel Diff.DiffSqlite Sqlite.PlanModel.
Import ListNotations.

(** cmd/atlas/internal/migrate.ChangesToRealm for a client bound to one schema *)
Definition changes_to_realm (B : xschema) : list schange := map (fun x => AddTable (x_name x)) B.
(** cmdlog.sqlInspect *)
Definition plan_dump (B : xschema) : option plan := PlanChanges [] B (changes_to_realm B).

(** the tables a plan creates: the names of its CREATE TABLE statements, in order *)
Definition created_of (c : pchange) : list str :=
  match pc_cmd c with SCreateTable x _ => [x_name x] | _ => [] end.
Definition created_tables (p : plan) : list str := flat_map created_of (p_changes p).

Lemma addIndexes_creates_none t l : forall r, addIndexes t l = Some r -> flat_map created_of r = [].
Proof.
  induction l as [|i l IH]; intros r H; cbn in H.
  - injection H as <-. reflexivity.
  - destruct (normalize_idx_name i t); [|discriminate].
    destruct (addIndexes t l) as [r'|]; [|discriminate].
    injection H as <-. cbn. apply IH. reflexivity.
Qed.

Lemma addTable_creates x r : addTable x = Some r -> flat_map created_of r = [x_name x].
Proof.
  unfold addTable. destruct (negb _); [discriminate|].
  destruct (addIndexes (x_t x) (t_idx (x_t x))) as [idxs|] eqn:E; [|discriminate].
  intro H. injection H as <-. cbn [flat_map created_of pc_cmd].
  rewrite (addIndexes_creates_none _ _ _ E). reflexivity.
Qed.

Lemma find_xtable_name n l x : find_xtable n l = Some x -> x_name x = n.
Proof.
  unfold find_xtable. intro H. apply find_some in H. destruct H as [_ H].
  apply bytes_eqb_eq in H. exact H.
Qed.

Lemma plan_loop_dump to B : forall s s',
  plan_loop [] to (changes_to_realm B) s = Some s' ->
  flat_map created_of (ps_changes s') = flat_map created_of (ps_changes s) ++ map x_name B
  /\ ps_skipFKs s' = ps_skipFKs s.
Proof.
  induction B as [|x B IH]; intros s s' H.
  - cbn in H. injection H as <-. rewrite app_nil_r. auto.
  - cbn [changes_to_realm map plan_loop] in H.
    destruct (find_xtable (x_name x) to) as [y|] eqn:F; [|discriminate].
    destruct (addTable y) as [r|] eqn:A; [|discriminate].
    apply IH in H. destruct H as [H1 H2]. split; [|exact H2].
    rewrite H1. unfold ps_append. cbn [ps_changes]. rewrite flat_map_app, (addTable_creates _ _ A).
    rewrite (find_xtable_name _ _ _ F). rewrite <- app_assoc. reflexivity.
Qed.

(** the SQL export creates exactly the inspected tables, in inspection order *)
Theorem dump_creates_inspected B p : plan_dump B = Some p -> created_tables p = map x_name B.
Proof.
  unfold plan_dump, PlanChanges.
  destruct (plan_loop [] B (changes_to_realm B) (mkPS [] false)) as [s|] eqn:E; [|discriminate].
  apply plan_loop_dump in E. cbn [ps_changes ps_skipFKs flat_map app] in E. destruct E as [E1 E2].
  intro H. injection H as <-. unfold created_tables. cbn [p_changes]. rewrite E2. exact E1.
Qed.

(** ... hence nothing for a table that is only referenced *)
Corollary dump_no_stub B p n :
  plan_dump B = Some p -> In n (created_tables p) -> exists x, In x B /\ x_name x = n.
Proof.
  intros H I. rewrite (dump_creates_inspected _ _ H) in I. apply in_map_iff in I.
  destruct I as (x & E & I). exists x. auto.
Qed.

(** the tie: the table list of the real export against the plan model run on table skeletons
    (name, one column, one foreign key per referenced table name) *)
Definition skel (n : str) (refs : list str) : xtable :=
  mkX (mkTable n false false [mkColumn [99]%N 2%N [105;110;116]%N true None None None] None []
         (map (fun r => mkFk [] [[99]%N] r [[105;100]%N] [] []) refs) []) [].
Definition dump_creates (l : list (str * list str)) : option (list str) :=
  match plan_dump (map (fun p => skel (fst p) (snd p)) l) with
  | Some p => Some (created_tables p)
  | None => None
  end.

Lemma dump_creates_names l r : dump_creates l = Some r -> r = map fst l.
Proof.
  unfold dump_creates. destruct (plan_dump _) as [p|] eqn:E; [|discriminate].
  intro H. injection H as <-. rewrite (dump_creates_inspected _ _ E), map_map. reflexivity.
Qed.

(** a dangling key: child -> parent, parent not in the list: one CREATE TABLE *)
Example dump_dangling :
  dump_creates [([99;104]%N, [[112]%N])] = Some [[99;104]%N].
Proof. vm_compute. reflexivity. Qed.
