(** M-SQLITE rows (C05): the SQLite planner of sql/sqlite/migrate.go as far as
    it decides what happens to rows, and an abstract SQLite that holds rows.

    Planner, function by function (names kept):
      PlanChanges, state.plan, addTable, dropTable, modifyTable, alterable,
      alterTable, copyRows (the toC / fromC pairing and the IFNULL wrap),
      addIndexes, the PRAGMA foreign_keys bracket driven by skipFKs.
    Output: abstract statements [stmt] (the [Cmd] of each migrate.Change; the
    Reverse / Comment fields are not about rows -- C17).

    Engine: catalogue (tables with columns and foreign keys, in creation
    order) + rows per table + the foreign_keys flag + "inside a transaction"
    (PRAGMA foreign_keys is a no-op there, sqlite.org/pragma.html).

    Not modelled (the tie skips such runs, the theorems are conditional on a
    successful execution): UNIQUE / PRIMARY KEY / CHECK / STRICT refusals, the
    rowid, INTEGER PRIMARY KEY auto-assignment for NULL, sqlite_sequence
    (tableSeq), views and triggers, error texts.  No proofs in this file. *)
From Coq Require Import List NArith Bool Arith.
From Atlas Require Import Base.Bytes Diff.Schema.
Import ListNotations.

(** ** values, columns, tables *)
Inductive value := VNull | VVal (tok : str).   (* tok: the text quote(col) prints *)

Definition value_eqb (a b : value) : bool :=
  match a, b with
  | VNull, VNull => true
  | VVal x, VVal y => str_eqb x y
  | _, _ => false
  end.

Definition is_null (v : value) : bool := match v with VNull => true | _ => false end.

(** schema.Column.Default as far as [alterable] looks at it *)
Inductive dkind := DNone | DLiteral (current_kw : bool) | DRawExpr.

Record rcol := mkRcol {
  rc_name    : str;
  rc_type    : str;     (* declared type; "the same type" of the property *)
  rc_notnull : bool;    (* !c.Type.Null *)
  rc_dkind   : dkind;   (* c.Default *)
  rc_defval  : value;   (* what the engine stores for an omitted column / what the DEFAULT
                           expression yields under the column's affinity; VNull without default *)
  rc_gen     : bool;    (* sqlx.Has(c.Attrs, &schema.GeneratedExpr{}) *)
  rc_stored  : bool;    (* storedOrVirtual(x.Type) == stored *)
  rc_hasidx  : bool;    (* len(c.Indexes) > 0 *)
  rc_hasfk   : bool     (* len(c.ForeignKeys) > 0 *)
}.

Definition has_default (c : rcol) : bool := match rc_dkind c with DNone => false | _ => true end.

Inductive action := ANoAction | ARestrict | ACascade | ASetNull | ASetDefault.

Record rfk := mkRfk {
  fk_cols : list str; fk_ref : str; fk_refcols : list str; fk_ondelete : action
}.

(** schema.Table as the planner reads it *)
Record tdef := mkTdefO {
  td_name : str;
  td_cols : list rcol;
  td_fks  : list rfk;
  td_idx  : list str;    (* names of T.Indexes *)
  td_strict : bool;         (* sqlx.Has(T.Attrs, &Strict{}) *)
  td_without_rowid : bool   (* sqlx.Has(T.Attrs, &WithoutRowID{}) *)
}.

(** a table without options *)
Definition mkTdef (n : str) (c : list rcol) (f : list rfk) (i : list str) : tdef := mkTdefO n c f i false false.

(** [newT := *modify.T; newT.Name = ...; newT.Indexes = nil]: a shallow copy, the attributes
    (STRICT, WITHOUT ROWID, checks) stay *)
Definition set_td_name (t : tdef) (n : str) : tdef :=
  mkTdefO n (td_cols t) (td_fks t) (td_idx t) (td_strict t) (td_without_rowid t).
Definition set_td_idx (t : tdef) (l : list str) : tdef :=
  mkTdefO (td_name t) (td_cols t) (td_fks t) l (td_strict t) (td_without_rowid t).

(** migrate.go: addTable, the option clause after the closing parenthesis: WITHOUT ROWID first,
    then STRICT *)
Inductive topt := OWithoutRowid | OStrict.
Definition table_options (t : tdef) : list topt :=
  (if td_without_rowid t then [OWithoutRowid] else []) ++ (if td_strict t then [OStrict] else []).

(** ** changes (sql/schema/migrate.go), as far as the SQLite planner tells them apart *)
Inductive tchange :=
| AddColumn (c : rcol)
| DropColumn (n : str)
| ModifyColumn (to : str) (kind : N)         (* c.To.Name, c.Change *)
| RenameColumn (from to : str)
| AddIndex (i : str) | DropIndex (i : str) | RenameIndex (from to : str)
| OtherChange (tag : N).   (* ModifyIndex, Add/Drop/ModifyPrimaryKey, Add/Drop/ModifyForeignKey,
                              Add/Drop/ModifyCheck, Add/Drop/ModifyAttr: all force the copy path *)

Inductive schange :=
| AddTable (t : tdef)
| DropTable (t : tdef)
| ModifyTable (t : tdef) (cs : list tchange)   (* T = the desired table *)
| RenameTable (from to : str)
| UnsupportedChange.

(** ** abstract statements *)
Inductive expr := ECol (n : str) | EIfNull (n : str) (d : value).   (* `c` | IFNULL(`c`, <default>) AS `c` *)

Inductive stmt :=
| SPragmaFK (on : bool)
| SCreateTable (t : tdef)
| SDropTable (n : str)
| SRenameTable (a b : str)
| SCopyRows (to_t : str) (toC : list str) (fromC : list expr) (from_t : str)
| SAddColumn (t : str) (c : rcol)
| SRenameColumn (t a b : str)
| SCreateIndex (t i : str)
| SDropIndex (i : str).

Inductive perr := PDupChange | PUnexpectedDrop | PUnexpectedAlter | PUnsupported.
Inductive pres (A : Type) := POk (a : A) | PErr (e : perr).
Arguments POk {A} a. Arguments PErr {A} e.

(** ** planner *)

(** ChangeKind.Is: [k == c || k&c != 0] *)
Definition change_is (k c : N) : bool := N.eqb k c || negb (N.eqb (N.land k c) 0).

Definition new_prefix : str := [110; 101; 119; 95]%N.   (* "new_" *)

Definition sqlite_autoindex : str :=     (* "sqlite_autoindex" *)
  [115; 113; 108; 105; 116; 101; 95; 97; 117; 116; 111; 105; 110; 100; 101; 120]%N.

(** sql/sqlite/migrate.go: alterable *)
Fixpoint alterable (cs : list tchange) : bool :=
  match cs with
  | [] => true
  | c :: cs' =>
    match c with
    | RenameColumn _ _ | RenameIndex _ _ | AddIndex _ => alterable cs'
    | DropIndex i =>
        (* an index that backs an inline UNIQUE constraint cannot be dropped with DROP INDEX *)
        match has_prefix sqlite_autoindex i with
        | Some _ => false
        | None => alterable cs'
        end
    | AddColumn c0 =>
        if rc_hasidx c0 || rc_hasfk c0 then false
        else match rc_dkind c0 with
             | DLiteral true => false
             | DRawExpr => false
             | _ => if rc_gen c0 && rc_stored c0 then false else alterable cs'
             end
    | _ => false
    end
  end.

(** migrate.go: addIndexes (one CREATE INDEX per index; normalizeIdxName only renames) *)
Definition addIndexes (t : str) (idx : list str) : list stmt := map (SCreateIndex t) idx.

(** migrate.go: alterTable *)
Fixpoint alterTable (t : str) (cs : list tchange) : pres (list stmt) :=
  match cs with
  | [] => POk []
  | c :: cs' =>
    let here :=
      match c with
      | AddIndex i => POk [SCreateIndex t i]
      | DropIndex i => POk [SDropIndex i]
      | RenameIndex f to => POk [SCreateIndex t to; SDropIndex f]
      | AddColumn c0 => POk [SAddColumn t c0]
      | RenameColumn f to => POk [SRenameColumn t f to]
      | _ => PErr PUnexpectedAlter
      end in
    match here with
    | PErr e => PErr e
    | POk l => match alterTable t cs' with PErr e => PErr e | POk l' => POk (l ++ l') end
    end
  end.

(** migrate.go: copyRows, the inner loop "find a change that is associated with this column" *)
Fixpoint find_change (col : str) (cs : list tchange) (acc : option tchange) : pres (option tchange) :=
  match cs with
  | [] => POk acc
  | c :: cs' =>
    let hit := fun (n : str) =>
      if str_eqb n col
      then match acc with Some _ => PErr PDupChange | None => find_change col cs' (Some c) end
      else find_change col cs' acc in
    match c with
    | AddColumn c0 => hit (rc_name c0)
    | ModifyColumn n _ => hit n
    | RenameColumn _ to => hit to
    | DropColumn n => if str_eqb n col then PErr PUnexpectedDrop else find_change col cs' acc
    | _ => find_change col cs' acc
    end
  end.

Definition ChangeNullOrDefault : N := N.lor ChangeNull ChangeDefault.

(** migrate.go: copyRows, the outer loop over to.Columns; [toC] / [fromC] are the two
    slices the Go code appends to. *)
Fixpoint copyRows_loop (cols : list rcol) (cs : list tchange) (toC : list str) (fromC : list expr)
  : pres (list str * list expr) :=
  match cols with
  | [] => POk (toC, fromC)
  | column :: rest =>
    if rc_gen column then copyRows_loop rest cs toC fromC   (* generated columns are computed *)
    else
      match find_change (rc_name column) cs None with
      | PErr e => PErr e
      | POk ch =>
        match ch with
        | Some (AddColumn _) => copyRows_loop rest cs toC fromC
        | Some (ModifyColumn _ k) =>
            let x := if rc_notnull column && has_default column && change_is k ChangeNullOrDefault
                     then EIfNull (rc_name column) (rc_defval column)
                     else ECol (rc_name column) in
            copyRows_loop rest cs (toC ++ [rc_name column]) (fromC ++ [x])
        | Some (RenameColumn f to) => copyRows_loop rest cs (toC ++ [to]) (fromC ++ [ECol f])
        | None => copyRows_loop rest cs (toC ++ [rc_name column]) (fromC ++ [ECol (rc_name column)])
        | Some _ => copyRows_loop rest cs toC fromC
        end
      end
  end.

Definition copyRows (from to : tdef) (cs : list tchange) : pres (list stmt) :=
  match copyRows_loop (td_cols to) cs [] [] with
  | PErr e => PErr e
  | POk (toC, fromC) =>
      match toC with
      | [] => POk []       (* insert := len(toC) > 0 *)
      | _ => POk [SCopyRows (td_name to) toC fromC (td_name from)]
      end
  end.

(** migrate.go: addTable (tableSeq only touches sqlite_sequence: not modelled) *)
Definition addTable (t : tdef) : list stmt := SCreateTable t :: addIndexes (td_name t) (td_idx t).

(** planner state: the statements so far and skipFKs *)
Definition pstate := (list stmt * bool)%type.

(** migrate.go: modifyTable *)
Definition modifyTable (st : pstate) (t : tdef) (cs : list tchange) : pres pstate :=
  let '(out, skip) := st in
  if alterable cs then
    match alterTable (td_name t) cs with
    | PErr e => PErr e
    | POk l => POk (out ++ l, skip)
    end
  else
    let newT := set_td_idx (set_td_name t (new_prefix ++ td_name t)) [] in
    match copyRows t newT cs with
    | PErr e => PErr e
    | POk cp =>
        POk (out ++ addTable newT ++ cp
                 ++ [SDropTable (td_name t); SRenameTable (td_name newT) (td_name t)]
                 ++ addIndexes (td_name t) (td_idx t), true)
    end.

(** migrate.go: state.plan *)
Fixpoint plan (st : pstate) (cs : list schange) : pres pstate :=
  match cs with
  | [] => POk st
  | c :: cs' =>
    let r :=
      match c with
      | AddTable t => POk (fst st ++ addTable t, snd st)
      | DropTable t => POk (fst st ++ [SDropTable (td_name t)], true)
      | ModifyTable t l => modifyTable st t l
      | RenameTable a b => POk (fst st ++ [SRenameTable a b], snd st)
      | UnsupportedChange => PErr PUnsupported
      end in
    match r with PErr e => PErr e | POk st' => plan st' cs' end
  end.

(** migrate.go: PlanChanges *)
Definition PlanChanges (cs : list schange) : pres (list stmt) :=
  match plan ([], false) cs with
  | PErr e => PErr e
  | POk (out, skipFKs) =>
      if skipFKs then POk (SPragmaFK false :: out ++ [SPragmaFK true]) else POk out
  end.

(** ** abstract engine *)
Definition row := list (str * value).    (* every column of the table, generated ones materialised *)

Fixpoint get (r : row) (n : str) : option value :=
  match r with
  | [] => None
  | (k, v) :: r' => if str_eqb k n then Some v else get r' n
  end.

Record etable := mkEtable {
  et_name : str;
  et_cols : list rcol;
  et_fks  : list rfk;
  et_rows : list row
}.

Record db := mkDb {
  d_tables : list etable;
  d_fk     : bool;     (* PRAGMA foreign_keys *)
  d_intx   : bool      (* inside a transaction: the pragma is a no-op *)
}.

Inductive eerr :=
| ENoSuchTable | EExists | ENoSuchColumn | EDupColumn | ENotNull | EAddNotNull
| EArity | EGenerated | EFK | EFuel
| ELocked.     (* an injected fault: the statement fails with "database is locked" *)
Inductive eres (A : Type) := EOk (a : A) | EErr (e : eerr).
Arguments EOk {A} a. Arguments EErr {A} e.

Definition find_et (n : str) (l : list etable) : option etable :=
  find (fun t => str_eqb (et_name t) n) l.

Definition find_rcol (n : str) (l : list rcol) : option rcol :=
  find (fun c => str_eqb (rc_name c) n) l.

Fixpoint replace_et (t : etable) (l : list etable) : list etable :=
  match l with
  | [] => []
  | u :: l' => if str_eqb (et_name u) (et_name t) then t :: l' else u :: replace_et t l'
  end.

Fixpoint remove_et (n : str) (l : list etable) : list etable :=
  match l with
  | [] => []
  | u :: l' => if str_eqb (et_name u) n then l' else u :: remove_et n l'
  end.

Definition set_tables (d : db) (l : list etable) : db := mkDb l (d_fk d) (d_intx d).

Section Engine.
(** type conversion on storing a value read from a column of type [from] into a column of
    type [to] (SQLite affinity); the theorems assume only [conv t t v = v]. *)
Variable conv : str -> str -> value -> value.
(** value of a generated column of table [t] for a row (its plain part) *)
Variable genv : str -> rcol -> row -> value.

Fixpoint index_of (n : str) (l : list str) : option nat :=
  match l with
  | [] => None
  | x :: l' => if str_eqb x n then Some 0 else option_map S (index_of n l')
  end.

(** evaluate a source expression on a row of the old table, for a target column of declared
    type [to_ty]: a value read from a column is converted; the IFNULL default is already the
    value the target column stores for its DEFAULT *)
Definition eval_expr (old : etable) (r : row) (to_ty : str) (x : expr) : eres value :=
  let rd := fun n =>
    match find_rcol n (et_cols old), get r n with
    | Some c, Some v => EOk (rc_type c, v)
    | _, _ => EErr ENoSuchColumn
    end in
  match x with
  | ECol n =>
      match rd n with
      | EOk (ty, v) => EOk (conv ty to_ty v)
      | EErr e => EErr e
      end
  | EIfNull n d =>
      match rd n with
      | EOk (ty, v) => if is_null v then EOk d else EOk (conv ty to_ty v)
      | EErr e => EErr e
      end
  end.

(** the value the new row gets in plain column [c]: the expression paired with [c] in the
    INSERT column list (position-wise), or the column default when [c] is not listed *)
Definition col_value (old : etable) (r : row) (c : rcol) (toC : list str) (fromC : list expr) : eres value :=
  match index_of (rc_name c) toC with
  | None => EOk (rc_defval c)
  | Some i =>
      match nth_error fromC i with
      | None => EErr EArity
      | Some x => eval_expr old r (rc_type c) x
      end
  end.

(** the plain columns of the new row *)
Fixpoint copy_row (old : etable) (r : row) (cols : list rcol) (toC : list str) (fromC : list expr)
  : eres row :=
  match cols with
  | [] => EOk []
  | c :: cols' =>
    if rc_gen c then copy_row old r cols' toC fromC
    else
      match col_value old r c toC fromC with
      | EErr e => EErr e
      | EOk v =>
          if rc_notnull c && is_null v then EErr ENotNull
          else match copy_row old r cols' toC fromC with
               | EErr e => EErr e
               | EOk rest => EOk ((rc_name c, v) :: rest)
               end
      end
  end.

(** append the generated columns (materialised) to the plain part *)
Definition with_generated (t : str) (cols : list rcol) (plain : row) : row :=
  plain ++ map (fun c => (rc_name c, genv t c plain)) (filter rc_gen cols).

Fixpoint copy_rows (new old : etable) (rows : list row) (toC : list str) (fromC : list expr)
  : eres (list row) :=
  match rows with
  | [] => EOk []
  | r :: rows' =>
    match copy_row old r (et_cols new) toC fromC with
    | EErr e => EErr e
    | EOk p =>
        match copy_rows new old rows' toC fromC with
        | EErr e => EErr e
        | EOk rest => EOk (with_generated (et_name new) (et_cols new) p :: rest)
        end
    end
  end.

(** INSERT INTO new (toC) SELECT fromC FROM old: every named target column must be a plain
    column of the target *)
Definition targets_ok (new : etable) (toC : list str) : eres unit :=
  fold_right (fun n acc =>
    match acc with
    | EErr e => EErr e
    | EOk _ =>
        match find_rcol n (et_cols new) with
        | None => EErr ENoSuchColumn
        | Some c => if rc_gen c then EErr EGenerated else EOk tt
        end
    end) (EOk tt) toC.

(** *** foreign-key actions of an (implicit) DELETE, enabled enforcement only *)
Definition key_of (r : row) (cols : list str) : option (list value) :=
  fold_right (fun n acc =>
    match acc, get r n with
    | Some l, Some v => if is_null v then None else Some (v :: l)
    | _, _ => None
    end) (Some []) cols.

Fixpoint values_eqb (a b : list value) : bool :=
  match a, b with
  | [], [] => true
  | x :: a', y :: b' => value_eqb x y && values_eqb a' b'
  | _, _ => false
  end.

(** does child row [r] reference one of the deleted parent rows through [f] ? *)
Definition references (f : rfk) (dead : list row) (r : row) : bool :=
  match key_of r (fk_cols f) with
  | None => false
  | Some k =>
      existsb (fun p => match key_of p (fk_refcols f) with
                        | Some k' => values_eqb k k'
                        | None => false
                        end) dead
  end.

Fixpoint set_null (r : row) (cols : list str) : row :=
  match r with
  | [] => []
  | (k, v) :: r' => (k, if existsb (str_eqb k) cols then VNull else v) :: set_null r' cols
  end.

Definition set_rows (t : etable) (rows : list row) : etable :=
  mkEtable (et_name t) (et_cols t) (et_fks t) rows.

(** rows of [parent] listed in [dead] are being deleted: apply the ON DELETE action of every
    foreign key of every other table that points at [parent]; recursion through CASCADE.
    (Self references are skipped: DROP TABLE deletes every row of the table.) *)
Fixpoint fk_actions (fuel : nat) (tabs : list etable) (parent : str) (dead : list row)
  : eres (list etable) :=
  match fuel with
  | O => EErr EFuel
  | S fuel' =>
    fold_left (fun acc child =>
      match acc with
      | EErr e => EErr e
      | EOk tabs0 =>
        if str_eqb (et_name child) parent then EOk tabs0
        else
          fold_left (fun acc f =>
            match acc with
            | EErr e => EErr e
            | EOk tabs1 =>
              if negb (str_eqb (fk_ref f) parent) then EOk tabs1
              else
                match find_et (et_name child) tabs1 with
                | None => EOk tabs1
                | Some cur =>
                  let hit := filter (references f dead) (et_rows cur) in
                  match hit with
                  | [] => EOk tabs1
                  | _ =>
                    match fk_ondelete f with
                    | ACascade =>
                        let keep := filter (fun r => negb (references f dead r)) (et_rows cur) in
                        fk_actions fuel' (replace_et (set_rows cur keep) tabs1) (et_name cur) hit
                    | ASetNull =>
                        EOk (replace_et (set_rows cur
                               (map (fun r => if references f dead r then set_null r (fk_cols f) else r)
                                    (et_rows cur))) tabs1)
                    | _ => EErr EFK
                    end
                  end
                end
            end) (et_fks child) (EOk tabs0)
      end) tabs (EOk tabs)
  end.

(** *** one statement *)
Definition exec (d : db) (s : stmt) : eres db :=
  match s with
  | SPragmaFK on => if d_intx d then EOk d else EOk (mkDb (d_tables d) on (d_intx d))
  | SCreateTable t =>
      match find_et (td_name t) (d_tables d) with
      | Some _ => EErr EExists
      | None => EOk (set_tables d (d_tables d ++ [mkEtable (td_name t) (td_cols t) (td_fks t) []]))
      end
  | SDropTable n =>
      match find_et n (d_tables d) with
      | None => EErr ENoSuchTable
      | Some t =>
          if d_fk d then
            match fk_actions (S (length (d_tables d))) (d_tables d) n (et_rows t) with
            | EErr e => EErr e
            | EOk tabs => EOk (set_tables d (remove_et n tabs))
            end
          else EOk (set_tables d (remove_et n (d_tables d)))
      end
  | SRenameTable a b =>
      match find_et a (d_tables d), find_et b (d_tables d) with
      | None, _ => EErr ENoSuchTable
      | Some _, Some _ => EErr EExists
      | Some _, None =>
          EOk (set_tables d (map (fun t => if str_eqb (et_name t) a
                                           then mkEtable b (et_cols t) (et_fks t) (et_rows t) else t)
                                 (d_tables d)))
      end
  | SCopyRows to_t toC fromC from_t =>
      match find_et to_t (d_tables d), find_et from_t (d_tables d) with
      | Some new, Some old =>
          if negb (Nat.eqb (length toC) (length fromC)) then EErr EArity
          else
            match targets_ok new toC with
            | EErr e => EErr e
            | EOk _ =>
                match copy_rows new old (et_rows old) toC fromC with
                | EErr e => EErr e
                | EOk rows => EOk (set_tables d (replace_et (set_rows new (et_rows new ++ rows)) (d_tables d)))
                end
            end
      | _, _ => EErr ENoSuchTable
      end
  | SAddColumn n c =>
      match find_et n (d_tables d) with
      | None => EErr ENoSuchTable
      | Some t =>
          match find_rcol (rc_name c) (et_cols t) with
          | Some _ => EErr EDupColumn
          | None =>
              (* sqlite3ErrorIfNotEmpty: "Cannot add a NOT NULL column with default value NULL"
                 is raised only for a table that holds rows *)
              if negb (rc_gen c) && rc_notnull c && is_null (rc_defval c)
                 && match et_rows t with [] => false | _ => true end then EErr EAddNotNull
              else
                EOk (set_tables d (replace_et
                  (mkEtable (et_name t) (et_cols t ++ [c]) (et_fks t)
                     (map (fun r => r ++ [(rc_name c, if rc_gen c then genv n c r else rc_defval c)]) (et_rows t)))
                  (d_tables d)))
          end
      end
  | SRenameColumn n a b =>
      match find_et n (d_tables d) with
      | None => EErr ENoSuchTable
      | Some t =>
          match find_rcol a (et_cols t), find_rcol b (et_cols t) with
          | None, _ => EErr ENoSuchColumn
          | Some _, Some _ => EErr EDupColumn
          | Some _, None =>
              let rn := fun k => if str_eqb k a then b else k in
              EOk (set_tables d (replace_et
                (mkEtable (et_name t)
                   (map (fun c => mkRcol (rn (rc_name c)) (rc_type c) (rc_notnull c) (rc_dkind c) (rc_defval c)
                                         (rc_gen c) (rc_stored c) (rc_hasidx c) (rc_hasfk c)) (et_cols t))
                   (et_fks t)
                   (map (map (fun kv => (rn (fst kv), snd kv))) (et_rows t)))
                (d_tables d)))
          end
      end
  | SCreateIndex _ _ => EOk d     (* rows are not touched; uniqueness refusals are not modelled *)
  | SDropIndex _ => EOk d
  end.

Fixpoint exec_all (d : db) (l : list stmt) : eres db :=
  match l with
  | [] => EOk d
  | s :: l' => match exec d s with EErr e => EErr e | EOk d' => exec_all d' l' end
  end.

(** execute until the first refused statement (a refused statement leaves the state it found) *)
Fixpoint run (d : db) (l : list stmt) : db * option eerr :=
  match l with
  | [] => (d, None)
  | s :: l' => match exec d s with EErr e => (d, Some e) | EOk d' => run d' l' end
  end.

(** sqlx.ApplyChanges: plan, then execute statement by statement.  [None] = planning failed. *)
Definition ApplyChanges (d : db) (cs : list schange) : option (eres db) :=
  match PlanChanges cs with
  | PErr _ => None
  | POk l => Some (exec_all d l)
  end.

(** ** the two ways `atlas schema apply` runs a plan (cmd/atlas/internal/cmdapi/schema.go:
    applyChanges) on a connection that is not inside a transaction *)
Inductive txmode := TxNone | TxFile.

(** sql/sqlite/driver.go: OpenTx -- PRAGMA foreign_keys = off when it is on, then BEGIN *)
Definition OpenTx (d : db) : db := mkDb (d_tables d) false true.

(** CommitFunc / RollbackFunc -- tx.Commit (or Rollback), then PRAGMA foreign_keys = on again if
    it was on before (enableFK).  The foreign_key_check comparison of CommitFunc can only turn a
    commit into a rollback; it is not modelled. *)
Definition close_tx (fk_before : bool) (tables : list etable) : db := mkDb tables fk_before false.

(** cmdapi.applyChanges: [--tx-mode none] runs the plan on the connection; [--tx-mode file] runs
    it inside client.Tx (= OpenTx) and rolls back when a statement is refused.  The result is the
    database afterwards and the error, if any. *)
Definition schema_apply (mode : txmode) (d : db) (cs : list schange) : option (db * option eerr) :=
  match PlanChanges cs with
  | PErr _ => None
  | POk p =>
    match mode with
    | TxNone =>
        (* sqlx.ApplyChanges stops at the first refused statement; what was executed stays *)
        Some (run d p)
    | TxFile =>
        match exec_all (OpenTx d) p with
        | EOk d' => Some (close_tx (d_fk d) (d_tables d'), None)
        | EErr e => Some (close_tx (d_fk d) (d_tables d), Some e)      (* rollback *)
        end
    end
  end.

(** *** faults: one statement of the run fails with "database is locked" (SQLITE_BUSY) *)
Inductive fault :=
| FNone
| FQueryFK        (* OpenTx: PRAGMA foreign_keys (the query) *)
| FSetFKOff       (* OpenTx: PRAGMA foreign_keys = off, before BEGIN; only issued when enforcement is on *)
| FBegin          (* OpenTx: db.BeginTx *)
| FCheckBefore    (* CommitFunc: PRAGMA foreign_key_check before the plan; only when enforcement was on *)
| FStmt (k : nat) (* the k-th statement of the plan (0-based) *)
| FCheckAfter     (* commit closure: PRAGMA foreign_key_check after the plan; only when enforcement was on *)
| FCommit         (* tx.Commit *)
| FRestoreFK.     (* enableFK: PRAGMA foreign_keys = on after COMMIT; only when enforcement was on *)

(** [run] with the k-th statement failing *)
Fixpoint run_f (d : db) (l : list stmt) (k : option nat) : db * option eerr :=
  match l with
  | [] => (d, None)
  | s :: l' =>
    match k with
    | Some O => (d, Some ELocked)
    | _ =>
      match exec d s with
      | EErr e => (d, Some e)
      | EOk d' => run_f d' l' (match k with Some (S j) => Some j | _ => None end)
      end
    end
  end.

Definition stmt_fault (f : fault) : option nat := match f with FStmt k => Some k | _ => None end.

(** sql/sqlite/driver.go: OpenTx, step by step.  [EErr]: OpenTx returns an error and *no
    statement of the plan runs*; the state returned with it is what the connection is left with
    (the tables are those of [d] in every case). *)
Definition OpenTx_f (f : fault) (d : db) : db * option eerr :=
  match f with
  | FQueryFK => (d, Some ELocked)                       (* "querying 'foreign_keys' pragma" *)
  | _ =>
    if d_fk d then
      match f with
      | FSetFKOff => (d, Some ELocked)                  (* "set 'foreign_keys = off'": enforcement still on, no BEGIN *)
      | FBegin => (mkDb (d_tables d) false false, Some ELocked)          (* pragma stays off (leak) *)
      | FCheckBefore => (mkDb (d_tables d) false true, Some ELocked)     (* transaction stays open (leak) *)
      | _ => (mkDb (d_tables d) false true, None)
      end
    else
      match f with
      | FBegin => (d, Some ELocked)
      | _ => (mkDb (d_tables d) false true, None)
      end
  end.

(** cmdapi.applyChanges with one fault.  With [FNone] this is [schema_apply]. *)
Definition schema_apply_f (mode : txmode) (f : fault) (d : db) (cs : list schange) : option (db * option eerr) :=
  match PlanChanges cs with
  | PErr _ => None
  | POk p =>
    match mode with
    | TxNone => Some (run_f d p (stmt_fault f))
    | TxFile =>
      match OpenTx_f f d with
      | (d0, Some e) => Some (d0, Some e)
      | (d0, None) =>
        match run_f d0 p (stmt_fault f) with
        | (_, Some e) => Some (close_tx (d_fk d) (d_tables d), Some e)          (* tx.Rollback, enableFK *)
        | (d1, None) =>
          match f with
          | FCheckAfter => if d_fk d then Some (close_tx (d_fk d) (d_tables d), Some ELocked)   (* rollback *)
                           else Some (close_tx (d_fk d) (d_tables d1), None)
          | FCommit => Some (close_tx (d_fk d) (d_tables d), Some ELocked)       (* not committed *)
          | FRestoreFK => if d_fk d then Some (mkDb (d_tables d1) false false, Some ELocked)   (* committed *)
                          else Some (close_tx (d_fk d) (d_tables d1), None)
          | _ => Some (close_tx (d_fk d) (d_tables d1), None)
          end
        end
      end
    end
  end.

End Engine.
