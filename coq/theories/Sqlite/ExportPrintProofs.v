(** C03: fillChecks applied to the CREATE TABLE text of the planner's printer
    (Sqlite/ExportPrint.v) returns the table's CHECK constraints. *)
From Coq Require Import List NArith Bool Arith Lia.
From Atlas Require Import Base.Bytes Diff.Schema Diff.DiffSqlite Sqlite.PlanModel Sqlite.ExportModel Sqlite.ExportProofs Sqlite.ExportPrint.
Import ListNotations.
Local Open Scope N_scope.

(** ** the builder keeps its first byte and at least one more *)
Definition good (h : N) (b : bytes) : Prop := exists t, b = h :: t /\ t <> [].

Lemma good_app h b r : good h b -> good h (b ++ r).
Proof. intros (t & -> & Ht). exists (t ++ r). split; [reflexivity|]. destruct t; [contradiction|discriminate]. Qed.
Lemma good_removelast_app h b r : good h b -> r <> [] -> good h (removelast b ++ r).
Proof.
  intros (t & -> & Ht) Hr. destruct t as [|c t]; [contradiction|].
  exists (removelast (c :: t) ++ r). split; [reflexivity|]. destruct (removelast (c :: t)); [exact Hr|discriminate].
Qed.
Lemma good_bP1 h b p : good h b -> good h (bP1 b p).
Proof.
  intro H. unfold bP1. destruct p as [|c p]; [exact H|].
  destruct H as (t & -> & Ht).
  destruct (N.eqb (last_byte (h :: t)) 32 || N.eqb (last_byte (h :: t)) 40 || N.eqb (last_byte (h :: t)) 10);
    destruct (N.eqb (last_byte (c :: p)) 32); repeat apply good_app; exists t; auto.
Qed.
Lemma good_bP h ps : forall b, good h b -> good h (bP b ps).
Proof. unfold bP. induction ps as [|p ps IH]; intros b H; simpl; [exact H|]. apply IH. apply good_bP1. exact H. Qed.
Lemma good_bIdent h b s : good h b -> good h (bIdent b s).
Proof. intro H. unfold bIdent. destruct s; [exact H|]. apply good_app. exact H. Qed.
Lemma good_bComma h b : good h b -> good h (bComma b).
Proof.
  intro H. unfold bComma. destruct H as (t & -> & Ht).
  destruct (N.eqb (last_byte (h :: t)) 32).
  - apply good_removelast_app; [exists t; auto|discriminate].
  - apply good_app. exists t; auto.
Qed.
Lemma good_bClose h b : good h b -> good h (bClose b).
Proof.
  intro H. unfold bClose. destruct (N.eqb (last_byte b) 32).
  - apply good_removelast_app; [exact H|discriminate].
  - apply good_app. exact H.
Qed.
Lemma good_bMapComma {A} h (f : bytes -> A -> bytes) (l : list A) :
  (forall b a, good h b -> good h (f b a)) -> forall b first, good h b -> good h (bMapComma b first l f).
Proof.
  intro Hf. induction l as [|a l IH]; intros b first H; simpl; [exact H|].
  apply IH. apply Hf. destruct first; [exact H|apply good_bComma; exact H].
Qed.
Lemma good_bWrap h b f : (forall b, good h b -> good h (f b)) -> good h b -> good h (bWrap b f).
Proof. intros Hf H. unfold bWrap. apply good_bClose. apply Hf. apply good_app. exact H. Qed.

Lemma good_p_column h x b c b' : good h b -> p_column x b c = Some b' -> good h b'.
Proof.
  intros H. unfold p_column. destruct (N.eqb (c_class c) 0); [discriminate|].
  set (b1 := bP (bIdent b (c_name c)) [c_T c]).
  assert (good h b1) as H1 by (apply good_bP, good_bIdent; exact H).
  set (b2 := bP (if c_null c then b1 else bP b1 [W_NOT]) [W_NULL]).
  assert (good h b2) as H2 by (apply good_bP; destruct (c_null c); [exact H1|apply good_bP; exact H1]).
  destruct (c_default c) as [d|].
  - destruct (defaultValue c) as [v|]; [|discriminate].
    assert (good h (bP b2 [W_DEFAULT; v])) as H3 by (apply good_bP; exact H2).
    destruct (has_autoinc x (c_name c)); destruct (c_gen c) as [[e ty]|]; intros [= <-].
    + apply (good_bP h [W_PK_AUTOINC]); exact H3.
    + apply (good_bP h [K_AS; may_wrap e; ty]); exact H3.
    + exact H3.
  - destruct (has_autoinc x (c_name c)); destruct (c_gen c) as [[e ty]|]; intros [= <-].
    + apply (good_bP h [W_PK_AUTOINC]); exact H2.
    + apply (good_bP h [K_AS; may_wrap e; ty]); exact H2.
    + exact H2.
Qed.
Lemma good_p_columns h x cs : forall b first b', good h b -> p_columns x b first cs = Some b' -> good h b'.
Proof.
  induction cs as [|c cs IH]; intros b first b' H E; simpl in E; [inversion E; subst; exact H|].
  destruct (p_column x (if first then b else bComma b) c) as [b1|] eqn:E1; [|discriminate].
  apply (IH b1 false b'); [|exact E].
  apply (good_p_column h x (if first then b else bComma b) c b1); [|exact E1]. destruct first; [exact H|apply good_bComma; exact H].
Qed.
Lemma good_p_parts h b ps : good h b -> good h (p_parts b ps).
Proof.
  intro H. unfold p_parts. apply good_bWrap; [|exact H]. intros b0 H0. apply good_bMapComma; [|exact H0].
  intros b1 p H1. assert (good h (match p_col p, p_expr p with
                                  | Some n, _ => bIdent b1 n | None, Some e => b1 ++ may_wrap e | None, None => b1 end)) as H2.
  { destruct (p_col p); [apply good_bIdent; exact H1|]. destruct (p_expr p); [apply good_app|]; exact H1. }
  destruct (p_desc p); [apply good_bP|]; exact H2.
Qed.
Lemma good_p_fk h b f : good h b -> good h (p_fk b f).
Proof.
  intro H. unfold p_fk.
  set (b1 := match f_symbol f with [] => b | s => bIdent (bP b [K_CONSTRAINT]) s end).
  assert (good h b1) as H1 by (unfold b1; destruct (f_symbol f); [exact H|apply good_bIdent, good_bP; exact H]).
  set (b2 := bWrap (bP b1 [W_FOREIGN_KEY]) (fun b0 => bMapComma b0 true (f_cols f) bIdent)).
  assert (good h b2) as H2.
  { apply good_bWrap; [|apply good_bP; exact H1]. intros b0 H0. apply good_bMapComma; [|exact H0].
    intros; apply good_bIdent; assumption. }
  set (b3 := bWrap (bIdent (bP b2 [K_REFERENCES]) (f_reftable f)) (fun b0 => bMapComma b0 true (f_refcols f) bIdent)).
  assert (good h b3) as H3.
  { apply good_bWrap; [|apply good_bIdent, good_bP; exact H2]. intros b0 H0. apply good_bMapComma; [|exact H0].
    intros; apply good_bIdent; assumption. }
  set (b4 := match f_onupdate f with [] => b3 | a => bP b3 [W_ON_UPDATE; a] end).
  assert (good h b4) as H4 by (unfold b4; destruct (f_onupdate f); [exact H3|apply good_bP; exact H3]).
  destruct (f_ondelete f); [exact H4|apply good_bP; exact H4].
Qed.

Lemma good_fks h b fks : good h b ->
  good h (match fks with [] => b | f :: l => bMapComma (p_fk (bComma b) f) false l p_fk end).
Proof.
  intro H. destruct fks as [|f fks]; [exact H|].
  exact (good_bMapComma h p_fk fks (fun b0 a H0 => good_p_fk h b0 a H0) (p_fk (bComma b) f) false
           (good_p_fk h (bComma b) f (good_bComma h b H))).
Qed.

Lemma good_print_body x b : print_body x = Some b -> good 67 b.
Proof.
  unfold print_body.
  set (b0 := bIdent (bP [] [W_CREATE_TABLE]) (t_name (x_t x)) ++ [ch_lp]).
  assert (good 67 b0) as H0.
  { apply good_app, good_bIdent. exists (tl (bP [] [W_CREATE_TABLE])). split; [reflexivity|discriminate]. }
  destruct (p_columns x b0 true (t_cols (x_t x))) as [b1|] eqn:E1; [|discriminate].
  pose proof (good_p_columns 67 x _ _ _ _ H0 E1) as H1.
  set (b2 := match t_pk (x_t x) with
             | Some pk => if autoincPK x pk then b1 else p_parts (bP (bComma b1) [W_PRIMARY_KEY]) (i_parts pk)
             | None => b1 end).
  assert (good 67 b2) as H2.
  { unfold b2. destruct (t_pk (x_t x)) as [pk|]; [|exact H1].
    destruct (autoincPK x pk); [exact H1|]. apply good_p_parts, good_bP, good_bComma. exact H1. }
  intros [= <-]. exact (good_fks 67 b2 (t_fks (x_t x)) H2).
Qed.

(** ** the CHECK part of the buffer *)
Definition norm (b : bytes) : bytes := if N.eqb (last_byte b) 32 then removelast b else b.
Definition kopt (k : check) : option bytes * bytes :=
  (match k_name k with [] => None | n => Some n end, k_expr k).

Lemma last_byte_snoc b c : last_byte (b ++ [c]) = c.
Proof. unfold last_byte. apply last_last. Qed.
Lemma last_byte_app b r : r <> [] -> last_byte (b ++ r) = last_byte r.
Proof.
  intro Hr. destruct (exists_last Hr) as (r' & c & ->). rewrite app_assoc. unfold last_byte. rewrite !last_last. reflexivity.
Qed.

Lemma bComma_norm b : b <> [] -> bComma b = norm b ++ sep.
Proof. intro H. unfold bComma, norm, sep. destruct b; [contradiction|]. destruct (N.eqb (last_byte (n :: b)) 32); reflexivity. Qed.

Lemma bP1_sp b p : b <> [] -> last_byte b = 32 -> p <> [] -> N.eqb (last_byte p) 32 = false -> bP1 b p = b ++ p ++ [32].
Proof.
  intros Hb Hl Hp Hpl. unfold bP1. destruct p as [|c p]; [contradiction|]. destruct b as [|h b]; [contradiction|].
  rewrite Hl. cbn [N.eqb orb]. change (N.eqb 32 32) with true. cbn [orb]. rewrite Hpl. rewrite <- app_assoc. reflexivity.
Qed.

Definition expr_ok (e : bytes) : Prop := check_expr e <> [] /\ N.eqb (last_byte (check_expr e)) 32 = false.

(** a name without a backtick is written as it is ([bIdent] doubles the quote character since the fix of Ident) *)
Lemma esc_ident_word n : forallb is_word n = true -> esc_ident n = n.
Proof.
  induction n as [|c n IH]; cbn [forallb esc_ident flat_map]; intro H; [reflexivity|].
  apply andb_true_iff in H. destruct H as [Hc H]. fold (esc_ident n). rewrite (IH H).
  destruct (N.eqb c ch_bt) eqn:E; [|reflexivity]. apply N.eqb_eq in E. subst c. discriminate.
Qed.
Definition chk_ok (k : check) : Prop := expr_ok (k_expr k) /\ esc_ident (k_name k) = k_name k.

Lemma p_check_step b k : b <> [] -> chk_ok k ->
  p_check (bComma b) k = norm b ++ sep ++ print_check (kopt k) ++ [32].
Proof.
  intros Hb [[He Hel] Hesc]. rewrite (bComma_norm b Hb). unfold p_check, kopt, print_check. cbn [fst snd].
  set (bc := norm b ++ sep).
  assert (bc <> []) as Hbc by (unfold bc, sep; destruct (norm b); discriminate).
  assert (last_byte bc = 32) as Hbcl by (unfold bc, sep; rewrite last_byte_app by discriminate; reflexivity).
  destruct (k_name k) as [|n0 n] eqn:En.
  - unfold bP. cbn [fold_left].
    rewrite (bP1_sp bc K_CHECK Hbc Hbcl) by (discriminate || reflexivity).
    rewrite bP1_sp; [| destruct bc; discriminate | rewrite !app_assoc; apply last_byte_snoc | exact He | exact Hel].
    unfold bc. repeat rewrite <- app_assoc. reflexivity.
  - unfold bP. cbn [fold_left].
    rewrite (bP1_sp bc K_CONSTRAINT Hbc Hbcl) by (discriminate || reflexivity).
    unfold bIdent. rewrite Hesc.
    set (b1 := (bc ++ K_CONSTRAINT ++ [32]) ++ ch_bt :: (n0 :: n) ++ [ch_bt; 32]).
    assert (b1 <> []) as Hb1 by (unfold b1; destruct (bc ++ K_CONSTRAINT ++ [32]); discriminate).
    assert (last_byte b1 = 32) as Hb1l.
    { unfold b1. rewrite last_byte_app by discriminate.
      replace (ch_bt :: (n0 :: n) ++ [ch_bt; 32]) with ((ch_bt :: (n0 :: n) ++ [ch_bt]) ++ [32]).
      - apply last_byte_snoc.
      - cbn [app]. rewrite <- app_assoc. reflexivity. }
    rewrite (bP1_sp b1 K_CHECK Hb1 Hb1l) by (discriminate || reflexivity).
    rewrite bP1_sp; [| destruct b1; discriminate | rewrite !app_assoc; apply last_byte_snoc | exact He | exact Hel].
    unfold b1, bc, bt_ident. repeat rewrite <- app_assoc. cbn [app]. repeat rewrite <- app_assoc. reflexivity.
Qed.

Lemma norm_snoc_sp b : norm (b ++ [32]) = b.
Proof. unfold norm. rewrite last_byte_snoc. change (N.eqb 32 32) with true. cbn iota. apply removelast_last. Qed.

Lemma fold_checks cks : Forall chk_ok cks -> forall b, b <> [] ->
  fold_left (fun b k => p_check (bComma b) k) cks b =
  match cks with [] => b | _ => norm b ++ checks_text (map kopt cks) ++ [32] end.
Proof.
  induction 1 as [|k cks Hk Hall IH]; intros b Hb; [reflexivity|].
  cbn [fold_left]. rewrite (p_check_step b k Hb Hk).
  set (b' := norm b ++ sep ++ print_check (kopt k) ++ [32]).
  assert (b' <> []) as Hb' by (unfold b', sep; destruct (norm b); discriminate).
  rewrite (IH b' Hb'). destruct cks as [|k2 cks].
  - unfold b'. cbn [map checks_text concat]. rewrite app_nil_r. repeat rewrite <- app_assoc. reflexivity.
  - assert (norm b' = norm b ++ sep ++ print_check (kopt k)) as ->.
    { unfold b'. rewrite !app_assoc. apply norm_snoc_sp. }
    change (checks_text (map kopt (k :: k2 :: cks)))
      with ((sep ++ print_check (kopt k)) ++ checks_text (map kopt (k2 :: cks))).
    repeat rewrite <- app_assoc. reflexivity.
Qed.

Lemma bClose_snoc_sp b : bClose (b ++ [32]) = b ++ [ch_rp].
Proof. unfold bClose. rewrite last_byte_snoc. change (N.eqb 32 32) with true. cbn iota. rewrite removelast_last. reflexivity. Qed.
Lemma bClose_norm b : bClose b = norm b ++ [ch_rp].
Proof. unfold bClose, norm. destruct (N.eqb (last_byte b) 32); reflexivity. Qed.

Lemma closed_checks b3 cks : b3 <> [] -> Forall chk_ok cks ->
  bClose (fold_left (fun b k => p_check (bComma b) k) cks b3) = norm b3 ++ checks_text (map kopt cks) ++ [ch_rp].
Proof.
  intros Hb H. rewrite (fold_checks cks H b3 Hb). destruct cks as [|k cks].
  - cbn [map checks_text concat app]. apply bClose_norm.
  - rewrite !app_assoc. rewrite bClose_snoc_sp. reflexivity.
Qed.

(** ** the end of the statement: options and strings.TrimSpace *)
Lemma rev_last_byte s : s <> [] -> rev s = last_byte s :: rev (removelast s).
Proof.
  intro H. destruct (exists_last H) as (r & c & ->). rewrite rev_app_distr, last_byte_snoc, removelast_last. reflexivity.
Qed.
Lemma trim_space_id h t : is_go_space h = false -> is_go_space (last_byte (h :: t)) = false -> trim_space (h :: t) = h :: t.
Proof.
  intros Hh Hl. unfold trim_space. cbn [skip_while]. rewrite Hh.
  rewrite (rev_last_byte (h :: t)) by discriminate. cbn [skip_while]. rewrite Hl.
  rewrite <- (rev_last_byte (h :: t)) by discriminate. apply rev_involutive.
Qed.
Lemma trim_space_snoc_sp h t : is_go_space h = false -> trim_space ((h :: t) ++ [32]) = trim_space (h :: t).
Proof.
  intro Hh. unfold trim_space. cbn [app skip_while]. rewrite Hh.
  change (h :: t ++ [32]) with ((h :: t) ++ [32]). rewrite rev_app_distr. cbn [rev app skip_while].
  change (is_go_space 32) with true. cbn iota. reflexivity.
Qed.

Definition opts_suffix (t : table) : bytes :=
  match t_without_rowid t, t_strict t with
  | false, false => []
  | true, false => 32 :: W_WITHOUT_ROWID
  | false, true => 32 :: W_STRICT
  | true, true => 32 :: W_WITHOUT_ROWID ++ [ch_comma; 32] ++ W_STRICT
  end.

Lemma bP1_nosp b p : b <> [] ->
  N.eqb (last_byte b) 32 || N.eqb (last_byte b) 40 || N.eqb (last_byte b) 10 = false ->
  p <> [] -> N.eqb (last_byte p) 32 = false -> bP1 b p = b ++ [32] ++ p ++ [32].
Proof.
  intros Hb Hl Hp Hpl. unfold bP1. destruct p as [|c p]; [contradiction|]. destruct b as [|h b]; [contradiction|].
  rewrite Hl, Hpl. repeat rewrite <- app_assoc. reflexivity.
Qed.

Lemma trim_tail y z : (exists r, y = 67 :: r) -> is_go_space (last_byte (ch_rp :: z)) = false ->
  trim_space ((y ++ ch_rp :: z) ++ [32]) = y ++ ch_rp :: z /\ trim_space (y ++ ch_rp :: z) = y ++ ch_rp :: z.
Proof.
  intros (r & ->) Hz.
  assert (trim_space ((67 :: r) ++ ch_rp :: z) = (67 :: r) ++ ch_rp :: z) as H1.
  { change ((67 :: r) ++ ch_rp :: z) with (67 :: (r ++ ch_rp :: z)). apply trim_space_id; [reflexivity|].
    change (67 :: r ++ ch_rp :: z) with ((67 :: r) ++ ch_rp :: z). rewrite last_byte_app by discriminate. exact Hz. }
  split; [|exact H1].
  change (((67 :: r) ++ ch_rp :: z) ++ [32]) with ((67 :: (r ++ ch_rp :: z)) ++ [32]).
  rewrite trim_space_snoc_sp by reflexivity. exact H1.
Qed.

Lemma finish_text y t : (exists r, y = 67 :: r) ->
  bString (bMapComma (y ++ [ch_rp]) true (table_opts t) (fun b o => bP b [o])) = y ++ ch_rp :: opts_suffix t.
Proof.
  intros Hy. unfold table_opts, opts_suffix, bString.
  assert (y ++ [ch_rp] <> []) as Hne by (destruct y; discriminate).
  assert (N.eqb (last_byte (y ++ [ch_rp])) 32 || N.eqb (last_byte (y ++ [ch_rp])) 40 || N.eqb (last_byte (y ++ [ch_rp])) 10 = false) as Hl
    by (rewrite last_byte_snoc; reflexivity).
  destruct (t_without_rowid t), (t_strict t); cbn [app bMapComma bP fold_left].
  - rewrite (bP1_nosp _ W_WITHOUT_ROWID Hne Hl) by (discriminate || reflexivity).
    set (b1 := (y ++ [ch_rp]) ++ [32] ++ W_WITHOUT_ROWID ++ [32]).
    assert (bComma b1 = ((y ++ [ch_rp]) ++ [32] ++ W_WITHOUT_ROWID) ++ sep) as ->.
    { rewrite bComma_norm by (unfold b1; destruct (y ++ [ch_rp]); discriminate).
      unfold b1. rewrite !app_assoc. rewrite norm_snoc_sp. reflexivity. }
    rewrite bP1_sp; [| destruct ((y ++ [ch_rp]) ++ [32] ++ W_WITHOUT_ROWID); discriminate
                     | unfold sep; rewrite last_byte_app by discriminate; reflexivity | discriminate | reflexivity].
    replace ((((y ++ [ch_rp]) ++ [32] ++ W_WITHOUT_ROWID) ++ sep) ++ W_STRICT ++ [32])
      with ((y ++ ch_rp :: 32 :: W_WITHOUT_ROWID ++ [ch_comma; 32] ++ W_STRICT) ++ [32]).
    + apply (trim_tail y _ Hy). reflexivity.
    + unfold sep. repeat rewrite <- app_assoc. reflexivity.
  - rewrite (bP1_nosp _ W_WITHOUT_ROWID Hne Hl) by (discriminate || reflexivity).
    replace ((y ++ [ch_rp]) ++ [32] ++ W_WITHOUT_ROWID ++ [32]) with ((y ++ ch_rp :: 32 :: W_WITHOUT_ROWID) ++ [32]).
    + apply (trim_tail y _ Hy). reflexivity.
    + repeat rewrite <- app_assoc. reflexivity.
  - rewrite (bP1_nosp _ W_STRICT Hne Hl) by (discriminate || reflexivity).
    replace ((y ++ [ch_rp]) ++ [32] ++ W_STRICT ++ [32]) with ((y ++ ch_rp :: 32 :: W_STRICT) ++ [32]).
    + apply (trim_tail y _ Hy). reflexivity.
    + repeat rewrite <- app_assoc. reflexivity.
  - apply (trim_tail y [] Hy). reflexivity.
Qed.

(** ** fillChecks inverts the planner's CREATE TABLE *)
Definition check_wf (k : check) : Prop :=
  (k_name k = [] \/ name_ok (k_name k)) /\ wrapped (k_expr k) /\ may_wrap (k_expr k) = k_expr k.

Lemma check_wf_ok k : check_wf k -> check_ok (kopt k) /\ expr_ok (k_expr k).
Proof.
  intros [Hn [Hw Hmw]]. destruct (check_expr_wrapped _ Hw Hmw) as (Hce & e' & He'). split.
  - split; [|exact (conj Hw Hmw)]. unfold kopt. cbn [fst]. destruct (k_name k) eqn:E; [exact I|].
    destruct Hn as [Hn|Hn]; [discriminate|]. exact Hn.
  - unfold expr_ok. rewrite Hce. split; [rewrite He'; discriminate|].
    destruct Hw as (b & p & -> & _). change (ch_lp :: b ++ [ch_rp]) with ((ch_lp :: b) ++ [ch_rp]).
    rewrite last_byte_snoc. reflexivity.
Qed.

Lemma occurs_opts t : occurs_ci K_CHECK (opts_suffix t) = false.
Proof. unfold opts_suffix. destruct (t_without_rowid t), (t_strict t); reflexivity. Qed.

Theorem fill_checks_print_table x b3 txt :
  print_body x = Some b3 -> print_table x = Some txt ->
  occurs_ci K_CHECK (norm b3) = false ->
  Forall check_wf (t_checks (x_t x)) ->
  fill_checks txt = map kopt (t_checks (x_t x)).
Proof.
  intros Hb Ht Hfree Hwf. unfold print_table in Ht. rewrite Hb in Ht. injection Ht as <-.
  pose proof (good_print_body x b3 Hb) as Hg.
  assert (b3 <> []) as Hne by (destruct Hg as (t & -> & _); discriminate).
  assert (Forall chk_ok (t_checks (x_t x))) as He.
  { eapply Forall_impl; [|exact Hwf]. intros k Hk. split; [exact (proj2 (check_wf_ok k Hk))|].
    destruct Hk as [[Hn|[_ Hn]] _]; [rewrite Hn; reflexivity|apply esc_ident_word; exact Hn]. }
  assert (Forall check_ok (map kopt (t_checks (x_t x)))) as Hok.
  { apply Forall_forall. intros k' Hin. apply in_map_iff in Hin. destruct Hin as (k & <- & Hin).
    rewrite Forall_forall in Hwf. exact (proj1 (check_wf_ok k (Hwf k Hin))). }
  rewrite (closed_checks b3 _ Hne He).
  assert (exists r, norm b3 ++ checks_text (map kopt (t_checks (x_t x))) = 67 :: r) as Hg2.
  { destruct Hg as (t & -> & Ht). unfold norm. destruct (N.eqb (last_byte (67 :: t)) 32).
    - destruct t as [|c t]; [contradiction|]. eexists. cbn [removelast app]. reflexivity.
    - eexists. cbn [app]. reflexivity. }
  change (fun b o : bytes => bP1 b o) with (fun b o : bytes => bP b [o]).
  rewrite app_assoc. rewrite (finish_text _ (x_t x) Hg2). rewrite <- app_assoc.
  apply fill_checks_inverts_printer; [exact Hfree|exact Hok|apply occurs_opts].
Qed.

(** ** witnesses on the printer *)
Require Import Coq.Strings.String.
Import List ListNotations.
Open Scope string_scope.
Open Scope list_scope.
Definition col (n : bytes) (cls : N) (T : bytes) (d : option dflt) (g : option (bytes * bytes)) : column :=
  mkColumn n cls T true d g None.
(** t(a int, b text DEFAULT 'check (x)') *)
Definition w_tab_default : xtable :=
  mkX (mkTable (B "t") false false
         [col (B "a") 2 (B "int") None None; col (B "b") 3 (B "text") (Some (DLit (B "'check (x)'"))) None]
         None [] [] []) [].
Lemma w_tab_default_phantom :
  print_table w_tab_default = Some (B "CREATE TABLE `t` (`a` int NULL, `b` text NULL DEFAULT 'check (x)')") /\
  fill_checks (B "CREATE TABLE `t` (`a` int NULL, `b` text NULL DEFAULT 'check (x)')") = [(None, B "(x)")].
Proof. vm_compute. split; reflexivity. Qed.

(** t(id integer AUTOINCREMENT pk, a int NOT NULL DEFAULT 5, cx int AS (a + 1) STORED, c int AS (a * 2) STORED,
      fk, CONSTRAINT ck CHECK (a > 0), CHECK (length(b) > (1))) WITHOUT ROWID-less, STRICT *)
Definition w_tab_full : xtable :=
  mkX (mkTable (B "t") false true
         [col (B "id") 2 (B "integer") None None;
          mkColumn (B "a") 2 (B "int") false (Some (DLit (B "5"))) None None;
          col (B "b") 3 (B "text") None None;
          col (B "cx") 2 (B "int") None (Some (B "a + 1", B "STORED"));
          col (B "c") 2 (B "int") None (Some (B "(a * 2)", B "STORED"))]
         (Some (mkIndex (B "PRIMARY") true [mkPart 1 false (Some (B "id")) None] None None None))
         []
         [mkFk (B "fk1") [B "a"] (B "p") [B "id"] [] (B "CASCADE")]
         [mkCheck (B "ck") (B "(a > 0)"); mkCheck [] (B "(length(b) > (1))")])
      [B "id"].
Definition w_tab_full_text : bytes :=
  B "CREATE TABLE `t` (`id` integer NULL PRIMARY KEY AUTOINCREMENT, `a` int NOT NULL DEFAULT 5, `b` text NULL, `cx` int NULL AS (a + 1) STORED, `c` int NULL AS (a * 2) STORED, CONSTRAINT `fk1` FOREIGN KEY (`a`) REFERENCES `p` (`id`) ON DELETE CASCADE, CONSTRAINT `ck` CHECK (a > 0), CHECK (length(b) > (1))) STRICT".
Lemma w_tab_full_print : print_table w_tab_full = Some w_tab_full_text.
Proof. vm_compute. reflexivity. Qed.
Lemma w_tab_full_body_free : exists b3, print_body w_tab_full = Some b3 /\ occurs_ci K_CHECK (norm b3) = false.
Proof. eexists. split; [vm_compute; reflexivity|vm_compute; reflexivity]. Qed.
