(** C03 round 5b: the premise "the script names each object once" of [dump_replays] follows from SQLite's own name
    space (tables and indexes of the inspected catalogue pairwise distinct) when no inspected index carries a
    generated name (sqlite_autoindex...: the only names normalizeIdxName changes), i.e. for databases whose UNIQUE
    constraints, if any, are written as CREATE UNIQUE INDEX. *)
From Coq Require Import List NArith Bool Arith Lia.
From Atlas Require Import Base.Bytes Diff.Schema Diff.DiffModel Diff.DiffSqlite Diff.DiffProofs Sqlite.PlanModel
  Sqlite.ExportRealm Sqlite.ExportRealmProofs.
Import ListNotations.

Definition plain_idx (i : index) : Prop := has_prefix SQLITE_AUTOINDEX (i_name i) = None.
Definition cat_names (l : list xtable) : list str :=
  flat_map (fun x => x_name x :: map i_name (t_idx (x_t x))) l.

Lemma norm_names_plain t l : Forall plain_idx l -> norm_names t l = Some (map i_name l).
Proof.
  induction 1 as [|i l Hi Hl IH]; [reflexivity|]. cbn [norm_names map].
  unfold normalize_idx_name. unfold plain_idx in Hi. rewrite Hi, IH. reflexivity.
Qed.
Lemma obj_names_app a b : obj_names (a ++ b) = obj_names a ++ obj_names b.
Proof. unfold obj_names. apply flat_map_app. Qed.
Lemma obj_names_idx n ns : obj_names (map (fun i => OIndex i n) ns) = ns.
Proof. induction ns as [|i ns IH]; [reflexivity|]. cbn [map]. change (obj_names (OIndex i n :: map (fun i0 => OIndex i0 n) ns)) with (i :: obj_names (map (fun i0 => OIndex i0 n) ns)). rewrite IH. reflexivity. Qed.
Lemma tables_objs_names l : Forall (fun x => Forall plain_idx (t_idx (x_t x))) l ->
  forall os, tables_objs l = Some os -> obj_names os = cat_names l.
Proof.
  induction 1 as [|x l Hx Hl IH]; intros os H; cbn [tables_objs] in H; [injection H as <-; reflexivity|].
  destruct (table_objs x) as [o|] eqn:E; [|discriminate]. destruct (tables_objs l) as [r|] eqn:E2; [|discriminate].
  injection H as <-. unfold table_objs in E. destruct (negb _); [discriminate|].
  rewrite (norm_names_plain _ _ Hx) in E. injection E as <-.
  rewrite obj_names_app. unfold cat_names. cbn [flat_map]. fold (cat_names l). rewrite <- (IH r eq_refl).
  change (obj_names (OTable (x_name x) (map f_reftable (t_fks (x_t x))) :: map (fun n => OIndex n (x_name x)) (map i_name (t_idx (x_t x)))))
    with (x_name x :: obj_names (map (fun n => OIndex n (x_name x)) (map i_name (t_idx (x_t x))))).
  rewrite obj_names_idx. reflexivity.
Qed.

(** every realm without generated index names whose catalogue names are distinct: the export script is accepted
    statement by statement and creates exactly the realm's tables, in order *)
Theorem dump_replays_plain bound r os :
  script_spec bound r = Some os ->
  Forall (fun x => Forall plain_idx (t_idx (x_t x))) (all_tables r) ->
  NoDup (cat_names (all_tables r)) ->
  exists c', replay false empty_cat os = Some c' /\ c_tables c' = map x_name (all_tables r).
Proof.
  intros Hs Hp Hnd. apply (dump_replays bound r os Hs).
  assert (tables_objs (all_tables r) = Some os) as Ht.
  { unfold script_spec in Hs. destruct (bound || _); [exact Hs|discriminate]. }
  rewrite (tables_objs_names _ Hp os Ht). exact Hnd.
Qed.

Lemma w_cycle_plain :
  Forall (fun x => Forall plain_idx (t_idx (x_t x))) (all_tables w_cycle) /\ NoDup (cat_names (all_tables w_cycle)).
Proof.
  split.
  - repeat constructor.
  - vm_compute. repeat constructor; cbn; intro H; repeat (destruct H as [H|H]; [discriminate|]); exact H.
Qed.
