(** C01: table-level lemmas about the SQLite differ -- a decomposition of [table_diff] into its five
    parts, each depending on a few fields only; a criterion for the diff of a table to be empty; and
    what an ALTER-able change list says about the two tables. *)
From Coq Require Import List NArith ZArith Bool Arith Lia.
From Atlas Require Import Base.Bytes Diff.Schema Diff.DiffModel Diff.DiffSqlite Diff.DiffProofs Diff.DiffSqliteProofs
  Sqlite.PlanModel Sqlite.EngineModel Sqlite.InspectModel Sqlite.ConvergeDefs.
Import ListNotations.

(** ** the five parts *)
Definition attr_part (a b : table) : list change :=
  (if t_without_rowid a && negb (t_without_rowid b) then [DropAttr ATTR_WITHOUT_ROWID]
   else if negb (t_without_rowid a) && t_without_rowid b then [AddAttr ATTR_WITHOUT_ROWID] else [])
  ++ (if t_strict a && negb (t_strict b) then [DropAttr ATTR_STRICT]
      else if negb (t_strict a) && t_strict b then [AddAttr ATTR_STRICT] else [])
  ++ checks_diff (check_compare None) (t_checks a) (t_checks b).

Definition tnil : table := mkTable [] false false [] None [] [] [].
Definition tcols (l : list column) : table := mkTable [] false false l None [] [] [].
Definition col_dm (acols bcols : list column) : option (list change) :=
  column_diff_drop_modify sqlite_driver tnil (tcols bcols) acols.
Definition col_add (acols bcols : list column) : list change :=
  flat_map (fun c1 => match find_col (c_name c1) acols with None => [AddColumn (c_name c1)] | Some _ => [] end) bcols.

Definition pk_part (apk bpk : option index) : list change :=
  pk_diff sqlite_driver no_skip (mkTable [] false false [] apk [] [] []) (mkTable [] false false [] bpk [] [] []).

Definition fk_part (n : str) (afks bfks : list fkey) : list change :=
  fk_diff sqlite_driver no_skip
    (mkTable n false false [] None [] (normalize_fks n n afks bfks (map (fun _ => false) bfks)) [])
    (mkTable n false false [] None [] bfks []).

Definition idx_part (a b : table) (bidx : list index) : list change :=
  index_diff_t sqlite_driver no_skip (set_t_name a (t_name b)) (set_t_idx b bidx).

Lemma col_dm_indep from to l :
  column_diff_drop_modify sqlite_driver from to l = col_dm l (t_cols to).
Proof.
  unfold col_dm. induction l as [|c l IH]; cbn [column_diff_drop_modify]; [reflexivity|].
  rewrite IH. reflexivity.
Qed.

Lemma fk_diff_indep from to :
  fk_diff sqlite_driver no_skip from to =
  fk_diff sqlite_driver no_skip (mkTable [] false false [] None [] (t_fks from) []) (mkTable [] false false [] None [] (t_fks to) []).
Proof. reflexivity. Qed.

Lemma pk_diff_indep from to : pk_diff sqlite_driver no_skip from to = pk_part (t_pk from) (t_pk to).
Proof. reflexivity. Qed.

Lemma index_diff_indep_from (from from' to : table) :
  t_name from = t_name from' -> t_idx from = t_idx from' ->
  index_diff_t sqlite_driver no_skip from to = index_diff_t sqlite_driver no_skip from' to.
Proof.
  intros Hn Hi. unfold index_diff_t. rewrite <- Hi.
  assert (G : forall l ex, index_diff_from sqlite_driver from to l ex = index_diff_from sqlite_driver from' to l ex).
  { induction l as [|i l IH]; intros ex; simpl; [reflexivity|].
    unfold sqlite_is_generated_index_name. rewrite Hn.
    destruct (find_idx (i_name i) (t_idx to)) as [[k i2]|].
    - rewrite IH. reflexivity.
    - destruct (match has_prefix (SQLITE_AUTOINDEX ++ [ch_us] ++ t_name from' ++ [ch_us]) (i_name i) with
                | Some rest => parse_int_pos rest | None => false end).
      + destruct (similar_unnamed_index sqlite_driver to i); [apply IH|]. rewrite IH. reflexivity.
      + rewrite IH. reflexivity. }
  rewrite G. destruct (index_diff_from sqlite_driver from' to (t_idx from) []) as [dm ex].
  f_equal. f_equal.
  assert (A : forall l k, index_diff_add from k l ex = index_diff_add from' k l ex).
  { induction l as [|i l IH]; intros k; simpl; [reflexivity|]. rewrite Hi, IH. reflexivity. }
  apply A.
Qed.

(** [table_diff] of the SQLite driver, part by part *)
Lemma tdiff_parts a b :
  tdiff a b =
  match normalize_idxs b (t_idx b) with
  | None => None
  | Some bidx =>
      match col_dm (t_cols a) (t_cols b) with
      | None => None
      | Some dm =>
          Some (attr_part a b ++ (dm ++ col_add (t_cols a) (t_cols b)) ++ pk_part (t_pk a) (t_pk b)
                ++ idx_part a b bidx ++ fk_part (t_name b) (t_fks a) (t_fks b))
      end
  end.
Proof.
  unfold tdiff, table_diff. cbn [dd_normalize sqlite_driver]. unfold sqlite_normalize.
  cbn [t_name set_t_name t_idx t_fks].
  destruct (normalize_idxs b (t_idx b)) as [bidx|]; [|reflexivity].
  cbn [dd_table_attr_diff sqlite_driver]. unfold sqlite_table_attr_diff.
  unfold column_diff. rewrite col_dm_indep. cbn [t_cols set_t_fks set_t_idx set_t_name].
  destruct (col_dm (t_cols a) (t_cols b)) as [dm|]; [|reflexivity].
  rewrite add_or_skip_no_skip.
  f_equal. unfold attr_part. cbn [t_without_rowid t_strict t_checks set_t_fks set_t_idx set_t_name].
  rewrite pk_diff_indep. cbn [t_pk set_t_fks set_t_idx set_t_name].
  rewrite <- !app_assoc.
  repeat (apply (f_equal2 (@app change)); [reflexivity|]).
  apply (f_equal2 (@app change)); [|reflexivity].
  unfold idx_part. apply index_diff_indep_from; reflexivity.
Qed.

(** ** the index loops when no index of [from] carries a database-generated name *)
Definition idx_dm_of (bidx : list index) (i1 : index) : list change :=
  match kfind i_name (i_name i1) bidx with
  | Some i2 => let ch := index_change sqlite_driver i1 i2 in
               if N.eqb ch 0 then [] else [ModifyIndex (i_name i1) ch]
  | None => [DropIndex (i_name i1)]
  end.
Definition idx_add_of (aidx : list index) (i2 : index) : list change :=
  match kfind i_name (i_name i2) aidx with
  | None => [AddIndex (i_name i2)]
  | Some _ => []
  end.

Lemma index_from_simple (from to : table) l :
  (forall i, In i l -> sqlite_is_generated_index_name from i = false) ->
  incl l (t_idx from) ->
  forall ex, ex_inv from to ex ->
  fst (index_diff_from sqlite_driver from to l ex) = flat_map (idx_dm_of (t_idx to)) l /\
  ex_inv from to (snd (index_diff_from sqlite_driver from to l ex)).
Proof.
  induction l as [|i l IH]; intros HG Hincl ex Hex; simpl; [split; [reflexivity|exact Hex]|].
  assert (HG' : forall j, In j l -> sqlite_is_generated_index_name from j = false)
    by (intros j Hj; apply HG; right; exact Hj).
  assert (Hincl' : incl l (t_idx from)) by (intros x Hx; apply Hincl; right; exact Hx).
  unfold idx_dm_of at 1.
  pose proof (find_idx_from_kfind 0 (i_name i) (t_idx to)) as X. unfold find_idx.
  destruct (find_idx_from 0 (i_name i) (t_idx to)) as [[k i2]|] eqn:F.
  - rewrite X.
    assert (Hex' : ex_inv from to (k :: ex)).
    { intros j [<-|Hj]; [|apply Hex; exact Hj].
      apply find_idx_from_nth in F. destruct F as [_ [Hn Hname]]. rewrite Nat.sub_0_r in Hn.
      exists i2. split; [exact Hn|]. rewrite Hname. apply kfind_in_not_none. apply Hincl. left. reflexivity. }
    destruct (IH HG' Hincl' (k :: ex) Hex') as [E1 E2].
    destruct (index_diff_from sqlite_driver from to l (k :: ex)) as [r ex2]. simpl in *.
    split; [|exact E2]. rewrite E1. destruct (N.eqb (index_change sqlite_driver i i2) 0); reflexivity.
  - rewrite X. cbn [dd_is_generated_index_name sqlite_driver]. rewrite (HG i (or_introl eq_refl)).
    destruct (IH HG' Hincl' ex Hex) as [E1 E2].
    destruct (index_diff_from sqlite_driver from to l ex) as [r ex2]. simpl in *.
    split; [|exact E2]. rewrite E1. reflexivity.
Qed.

Lemma idx_part_simple a b bidx :
  (forall i, In i (t_idx a) -> sqlite_is_generated_index_name (set_t_name a (t_name b)) i = false) ->
  idx_part a b bidx = flat_map (idx_dm_of bidx) (t_idx a) ++ flat_map (idx_add_of (t_idx a)) bidx.
Proof.
  intros HG. unfold idx_part, index_diff_t.
  set (from := set_t_name a (t_name b)). set (to := set_t_idx b bidx).
  assert (Hex0 : ex_inv from to []) by (intros k []).
  destruct (index_from_simple from to (t_idx from) HG (incl_refl _) [] Hex0) as [E1 E2].
  destruct (index_diff_from sqlite_driver from to (t_idx from) []) as [dm ex]. simpl in E1, E2.
  rewrite add_or_skip_no_skip. rewrite E1.
  pose proof (index_diff_add_exact from to ex E2 (t_idx to) [] eq_refl) as X. cbn [length] in X.
  rewrite X. reflexivity.
Qed.

(** ** a criterion for an empty table diff *)
Lemma col_dm_nil acols bcols :
  (forall c, In c acols -> exists cb, find_col (c_name c) bcols = Some cb /\
                                      sqlite_column_change tnil c cb = Some 0%N) ->
  col_dm acols bcols = Some [].
Proof.
  unfold col_dm. induction acols as [|c l IH]; intros H; cbn [column_diff_drop_modify]; [reflexivity|].
  destruct (H c (or_introl eq_refl)) as [cb [F E]]. cbn [t_cols tcols]. rewrite F. cbn [dd_column_change sqlite_driver].
  rewrite E.
  rewrite IH; [reflexivity|]. intros x Hx. apply H. right. exact Hx.
Qed.

Lemma col_add_nil acols bcols :
  (forall cb, In cb bcols -> find_col (c_name cb) acols <> None) -> col_add acols bcols = [].
Proof.
  intros H. unfold col_add. apply flat_map_nil_iff. intros cb Hcb. specialize (H cb Hcb).
  destruct (find_col (c_name cb) acols); [reflexivity|congruence].
Qed.

Definition colchg (c cb : column) : option N := sqlite_column_change tnil c cb.

Lemma tdiff_nil_criterion a b :
  idx_norm_stable (t_idx b) ->
  attr_part a b = [] ->
  (forall c, In c (t_cols a) -> exists cb, find_col (c_name c) (t_cols b) = Some cb /\ colchg c cb = Some 0%N) ->
  (forall cb, In cb (t_cols b) -> find_col (c_name cb) (t_cols a) <> None) ->
  pk_part (t_pk a) (t_pk b) = [] ->
  (forall i, In i (t_idx a) -> sqlite_is_generated_index_name (set_t_name a (t_name b)) i = false) ->
  (forall i, In i (t_idx a) -> exists ib, kfind i_name (i_name i) (t_idx b) = Some ib /\ index_change sqlite_driver i ib = 0%N) ->
  (forall ib, In ib (t_idx b) -> kfind i_name (i_name ib) (t_idx a) <> None) ->
  fk_part (t_name b) (t_fks a) (t_fks b) = [] ->
  tdiff a b = Some [].
Proof.
  intros NS HA HC1 HC2 HP HG HI1 HI2 HF.
  rewrite tdiff_parts. rewrite (normalize_idxs_stable b _ NS).
  rewrite (col_dm_nil _ _ HC1), (col_add_nil _ _ HC2), HA, HP, HF.
  rewrite (idx_part_simple a b (t_idx b) HG).
  assert (E1 : flat_map (idx_dm_of (t_idx b)) (t_idx a) = []).
  { apply flat_map_nil_iff. intros i Hi. destruct (HI1 i Hi) as [ib [F E]].
    unfold idx_dm_of. rewrite F. cbv zeta. rewrite E. reflexivity. }
  assert (E2 : flat_map (idx_add_of (t_idx a)) (t_idx b) = []).
  { apply flat_map_nil_iff. intros ib Hib. specialize (HI2 ib Hib). unfold idx_add_of.
    destruct (kfind i_name (i_name ib) (t_idx a)); [reflexivity|congruence]. }
  rewrite E1, E2. reflexivity.
Qed.

(** ** what an ALTER-able change list says *)
Definition alter_kind (c : change) : bool :=
  match c with AddColumn _ | AddIndex _ | DropIndex _ => true | _ => false end.

Lemma alterable_alter_kind to cs : alterable to cs = true -> forallb alter_kind cs = true.
Proof.
  unfold alterable. intros H. apply forallb_forall. intros c Hc.
  apply (proj1 (forallb_forall _ _) H) in Hc. destruct c; simpl in *; try reflexivity; discriminate.
Qed.

Lemma no_alter_nil l : (forall c, In c l -> alter_kind c = false) -> forallb alter_kind l = true -> l = [].
Proof.
  destruct l as [|c l]; intros H1 H2; [reflexivity|]. simpl in H2. apply andb_true_iff in H2.
  rewrite (H1 c (or_introl eq_refl)) in H2. destruct H2; discriminate.
Qed.

Lemma forallb_app_l {A} (f : A -> bool) l1 l2 : forallb f (l1 ++ l2) = true -> forallb f l1 = true.
Proof. rewrite forallb_app. intros H. apply andb_true_iff in H. tauto. Qed.
Lemma forallb_app_r {A} (f : A -> bool) l1 l2 : forallb f (l1 ++ l2) = true -> forallb f l2 = true.
Proof. rewrite forallb_app. intros H. apply andb_true_iff in H. tauto. Qed.

Lemma attr_part_kinds a b c : In c (attr_part a b) -> alter_kind c = false.
Proof.
  unfold attr_part, checks_diff. intros H. repeat (apply in_app_or in H; destruct H as [H|H]).
  - destruct (t_without_rowid a && negb (t_without_rowid b)); [destruct H as [<-|[]]; reflexivity|].
    destruct (negb (t_without_rowid a) && t_without_rowid b); [destruct H as [<-|[]]; reflexivity|destruct H].
  - destruct (t_strict a && negb (t_strict b)); [destruct H as [<-|[]]; reflexivity|].
    destruct (negb (t_strict a) && t_strict b); [destruct H as [<-|[]]; reflexivity|destruct H].
  - apply in_flat_map in H. destruct H as [k [_ H]].
    destruct (find (check_compare_to (check_compare None) k) (t_checks b)).
    + destruct (negb (check_compare None k c0)); [destruct H as [<-|[]]; reflexivity|destruct H].
    + destruct H as [<-|[]]; reflexivity.
  - apply in_flat_map in H. destruct H as [k [_ H]].
    destruct (existsb (check_compare_to (check_compare None) k) (t_checks a)); [destruct H|].
    destruct H as [<-|[]]; reflexivity.
Qed.

Lemma col_dm_kinds acols bcols dm c : col_dm acols bcols = Some dm -> In c dm -> alter_kind c = false.
Proof.
  unfold col_dm. revert dm. induction acols as [|c1 l IH]; cbn [column_diff_drop_modify]; intros dm H Hin.
  - inversion H; subst. destruct Hin.
  - cbn [t_cols tcols] in H. destruct (find_col (c_name c1) bcols) as [c2|].
    + destruct (dd_column_change sqlite_driver tnil c1 c2) as [k|]; [|discriminate].
      destruct (column_diff_drop_modify sqlite_driver tnil (tcols bcols) l) as [r|] eqn:E; [|discriminate].
      inversion H; subst. destruct (N.eqb k 0); [eapply IH; eauto|].
      destruct Hin as [<-|Hin]; [reflexivity|eapply IH; eauto].
    + destruct (column_diff_drop_modify sqlite_driver tnil (tcols bcols) l) as [r|] eqn:E; [|discriminate].
      inversion H; subst. destruct Hin as [<-|Hin]; [reflexivity|eapply IH; eauto].
Qed.

Lemma pk_part_kinds p q c : In c (pk_part p q) -> alter_kind c = false.
Proof.
  unfold pk_part, pk_diff. cbn [t_pk]. rewrite !add_or_skip_no_skip.
  destruct p as [p|], q as [q|]; intros H; try (destruct H as [<-|[]]; reflexivity); try destruct H.
  destruct (negb (N.eqb (N.land (index_change sqlite_driver p q) (N.lxor 32767 ChangeUnique)) 0)).
  - destruct H as [<-|[]]; reflexivity.
  - cbn [dd_support_rename_constraint sqlite_driver] in H. simpl in H. destruct H.
Qed.

Lemma fk_part_kinds n afks bfks c : In c (fk_part n afks bfks) -> alter_kind c = false.
Proof.
  unfold fk_part, fk_diff. rewrite add_or_skip_no_skip. cbn [t_fks]. intros H.
  apply in_app_or in H. destruct H as [H|H]; apply in_flat_map in H; destruct H as [f [_ H]].
  - destruct (find_fk (f_symbol f) bfks).
    + destruct (N.eqb (fk_change sqlite_driver f f0) 0); [destruct H|destruct H as [<-|[]]; reflexivity].
    + destruct H as [<-|[]]; reflexivity.
  - destruct (find_fk (f_symbol f) _); [destruct H|destruct H as [<-|[]]; reflexivity].
Qed.

(** the converse of [col_dm_nil] *)
Lemma col_dm_nil_inv acols bcols :
  col_dm acols bcols = Some [] ->
  forall c, In c acols -> exists cb, find_col (c_name c) bcols = Some cb /\ colchg c cb = Some 0%N.
Proof.
  unfold col_dm, colchg. induction acols as [|c1 l IH]; cbn [column_diff_drop_modify]; intros H c Hc; [destruct Hc|].
  cbn [t_cols tcols] in H. destruct (find_col (c_name c1) bcols) as [c2|] eqn:F.
  - cbn [dd_column_change sqlite_driver] in H.
    destruct (sqlite_column_change tnil c1 c2) as [k|] eqn:E; [|discriminate].
    destruct (column_diff_drop_modify sqlite_driver tnil (tcols bcols) l) as [r|] eqn:E2; [|discriminate].
    destruct (N.eqb k 0) eqn:K; [|inversion H].
    apply N.eqb_eq in K. subst k. inversion H; subst r.
    destruct Hc as [<-|Hc].
    + exists c2. split; [exact F|exact E].
    + apply IH; [reflexivity|exact Hc].
  - destruct (column_diff_drop_modify sqlite_driver tnil (tcols bcols) l) as [r|]; [inversion H|discriminate].
Qed.

Record alter_facts (a b : table) : Prop := {
  af_attr : attr_part a b = [];
  af_cols : forall c, In c (t_cols a) -> exists cb, find_col (c_name c) (t_cols b) = Some cb /\ colchg c cb = Some 0%N;
  af_pk : pk_part (t_pk a) (t_pk b) = [];
  af_idx : forall i, In i (t_idx a) -> forall ib, kfind i_name (i_name i) (t_idx b) = Some ib ->
             index_change sqlite_driver i ib = 0%N;
  af_fk : fk_part (t_name b) (t_fks a) (t_fks b) = []
}.

Lemma alterable_facts a b cs :
  tdiff a b = Some cs -> forallb alter_kind cs = true -> idx_norm_stable (t_idx b) ->
  (forall i, In i (t_idx a) -> sqlite_is_generated_index_name (set_t_name a (t_name b)) i = false) ->
  alter_facts a b /\
  cs = col_add (t_cols a) (t_cols b) ++ flat_map (idx_dm_of (t_idx b)) (t_idx a) ++ flat_map (idx_add_of (t_idx a)) (t_idx b).
Proof.
  intros HD HK NS HG. rewrite tdiff_parts in HD. rewrite (normalize_idxs_stable b _ NS) in HD.
  destruct (col_dm (t_cols a) (t_cols b)) as [dm|] eqn:DM; [|discriminate].
  inversion HD as [E]. clear HD. rewrite <- E in HK.
  assert (A1 : attr_part a b = []).
  { apply no_alter_nil; [apply attr_part_kinds|]. eapply forallb_app_l; eauto. }
  rewrite A1 in *. simpl in HK, E.
  assert (A2 : dm = []).
  { apply no_alter_nil; [intros c; eapply col_dm_kinds; eauto|].
    rewrite <- app_assoc in HK. eapply forallb_app_l; eauto. }
  subst dm. simpl in HK, E.
  apply forallb_app_r in HK.
  assert (A3 : pk_part (t_pk a) (t_pk b) = []).
  { apply no_alter_nil; [apply pk_part_kinds|]. eapply forallb_app_l; eauto. }
  rewrite A3 in *. simpl in HK, E.
  assert (A5 : fk_part (t_name b) (t_fks a) (t_fks b) = []).
  { apply no_alter_nil; [apply fk_part_kinds|]. eapply forallb_app_r; eauto. }
  rewrite A5, app_nil_r in *.
  rewrite (idx_part_simple a b (t_idx b) HG) in *.
  split; [|reflexivity].
  constructor; auto.
  - apply col_dm_nil_inv. exact DM.
  - intros i Hi ib F. apply forallb_app_l in HK.
    assert (X : forallb alter_kind (idx_dm_of (t_idx b) i) = true).
    { apply forallb_forall. intros c Hc. apply (proj1 (forallb_forall _ _) HK).
      apply in_flat_map. exists i. split; assumption. }
    unfold idx_dm_of in X. rewrite F in X. cbv zeta in X.
    destruct (N.eqb (index_change sqlite_driver i ib) 0) eqn:K; [apply N.eqb_eq; exact K|]. simpl in X. discriminate.
Qed.
