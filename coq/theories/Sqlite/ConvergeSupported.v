(** C01: the decidable predicate [supported d B] and its soundness for the hypotheses of
    [Converge.converges]. *)
From Coq Require Import List NArith ZArith Bool Arith Lia.
From Atlas Require Import Base.Bytes Diff.Schema Diff.DiffModel Diff.DiffSqlite Diff.DiffProofs Diff.DiffSqliteProofs
  Sqlite.PlanModel Sqlite.EngineModel Sqlite.InspectModel Sqlite.ConvergeDefs Sqlite.ConvergeTable Sqlite.ConvergeEngine
  Sqlite.ConvergePlan Sqlite.ConvergeAlter Sqlite.ConvergeNames Sqlite.ConvergeCopy Sqlite.ConvergeStep Sqlite.Converge.
Import ListNotations.

Definition mem (n : str) (l : list str) : bool := existsb (str_eqb n) l.
Lemma mem_true n l : mem n l = true <-> In n l.
Proof.
  unfold mem. rewrite existsb_exists. split.
  - intros [x [Hx E]]. apply str_eqb_eq in E. subst x. exact Hx.
  - intros H. exists n. split; [exact H|apply str_eqb_refl].
Qed.
Lemma mem_false n l : mem n l = false <-> ~ In n l.
Proof. rewrite <- mem_true. destruct (mem n l); split; intros H; try reflexivity; try discriminate; try (intros X; discriminate); exfalso; apply H; reflexivity. Qed.

Definition no_auto_names_b (l : list index) : bool :=
  forallb (fun i => match has_prefix SQLITE_AUTOINDEX (i_name i) with None => true | Some _ => false end) l.
Lemma no_auto_names_b_ok l : no_auto_names_b l = true -> no_auto_names l.
Proof.
  intros H i Hi. apply (proj1 (forallb_forall _ _) H) in Hi. destruct (has_prefix SQLITE_AUTOINDEX (i_name i)); [discriminate|reflexivity].
Qed.

(** ** a desired table *)
Definition desired_ok_b (bx : xtable) : bool :=
  match new_ctable (strip_idx bx) [] with
  | Ok ct0 =>
      forallb (column_ok bx) (t_cols (x_t bx))
      && no_auto_names_b (t_idx (x_t bx))
      && forallb (fun i => match index_def_ok (x_t bx) i with Ok _ => true | Err _ => false end) (t_idx (x_t bx))
      && (match tdiff (x_t (inspect_table (add_idx (t_idx (x_t bx)) ct0))) (x_t bx) with Some [] => true | _ => false end)
      && forallb (fun cb => match colchg (inspect_column cb) cb with Some 0%N => true | _ => false end) (t_cols (x_t bx))
      && forallb (fun ib => N.eqb (index_change sqlite_driver (inspect_index ib) ib) 0) (t_idx (x_t bx))
  | Err _ => false
  end.

Lemma desired_ok_b_ok bx : desired_ok_b bx = true -> desired_ok bx.
Proof.
  unfold desired_ok_b. destruct (new_ctable (strip_idx bx) []) as [ct0|] eqn:HC; [|discriminate].
  intros H. repeat (apply andb_true_iff in H; destruct H as [H ?]).
  constructor.
  - exists ct0. exact HC.
  - exact H.
  - apply no_auto_names_b_ok. assumption.
  - intros i Hi. match goal with X : forallb (fun i => match index_def_ok _ i with _ => _ end) _ = true |- _ =>
      apply (proj1 (forallb_forall _ _) X) in Hi end.
    destruct (index_def_ok (x_t bx) i) as [[]|]; [reflexivity|discriminate].
  - intros ct1 Hnew. rewrite HC in Hnew. inversion Hnew; subst ct1. unfold table_synced.
    destruct (tdiff (x_t (inspect_table (add_idx (t_idx (x_t bx)) ct0))) (x_t bx)) as [[|]|]; try discriminate. reflexivity.
  - intros cb Hcb. match goal with X : forallb (fun cb => match colchg _ cb with _ => _ end) _ = true |- _ =>
      apply (proj1 (forallb_forall _ _) X) in Hcb end.
    destruct (colchg (inspect_column cb) cb) as [[|p]|]; try discriminate. reflexivity.
  - intros ib Hib. match goal with X : forallb (fun ib => N.eqb _ 0) _ = true |- _ =>
      apply (proj1 (forallb_forall _ _) X) in Hib end.
    apply N.eqb_eq. exact Hib.
Qed.

(** ** the database *)
Definition good_ct_b (c : ctable) : bool :=
  (match ct_rows c with [] => true | _ => false end)
  && (match ct_uniques c with [] => true | _ => false end)
  && no_auto_names_b (t_idx (ct_t c))
  && nodup_strs (map c_name (t_cols (ct_t c)))
  && match t_pk (ct_t c) with
     | None => true
     | Some pk => match part_col_names (i_parts pk) with
                  | Some names => forallb (has_col (ct_t c)) names
                  | None => false
                  end
     end.

Lemma good_ct_b_ok c : good_ct_b c = true -> good_ct c.
Proof.
  unfold good_ct_b. intros H. repeat (apply andb_true_iff in H; destruct H as [H ?]).
  constructor.
  - destruct (ct_rows c); [reflexivity|discriminate].
  - destruct (ct_uniques c); [reflexivity|discriminate].
  - apply no_auto_names_b_ok. assumption.
  - apply nodup_strs_NoDup. assumption.
  - intros pk E. rewrite E in *. destruct (part_col_names (i_parts pk)) as [names|]; [|discriminate].
    exists names. split; [reflexivity|]. intros n Hn.
    match goal with X : forallb (has_col _) names = true |- _ => exact (proj1 (forallb_forall _ _) X n Hn) end.
Qed.

Definition db_ok_b (d : db) : bool :=
  nodup_strs (all_names (db_tables d))
  && forallb good_ct_b (db_tables d)
  && forallb (fun c => forallb (fun col => negb (N.eqb (c_class col) 0)) (t_cols (ct_t c))) (db_tables d)
  && forallb (fun c => match addTable (inspect_table c) with Some _ => true | None => false end) (db_tables d)
  && negb (db_tx d).

Lemma db_ok_b_ok d : db_ok_b d = true -> db_ok d.
Proof.
  unfold db_ok_b. intros H. repeat (apply andb_true_iff in H; destruct H as [H ?]).
  constructor.
  - apply nodup_strs_NoDup. exact H.
  - intros c Hc. apply good_ct_b_ok. match goal with X : forallb good_ct_b _ = true |- _ => exact (proj1 (forallb_forall _ _) X c Hc) end.
  - intros c col Hc Hcol E.
    match goal with X : forallb (fun c => forallb (fun col => negb _) _) _ = true |- _ =>
      assert (Y := proj1 (forallb_forall _ _) X c Hc); assert (Z := proj1 (forallb_forall _ _) Y col Hcol) end.
    cbv beta in Z. rewrite E in Z. discriminate.
  - intros c Hc E.
    match goal with X : forallb (fun c => match addTable _ with _ => _ end) _ = true |- _ =>
      assert (Y := proj1 (forallb_forall _ _) X c Hc) end.
    cbv beta in Y. rewrite E in Y. discriminate.
  - destruct (db_tx d); [discriminate|reflexivity].
Qed.

(** ** the pair *)
Definition no_refs_b (n : str) (t : table) : bool := forallb (fun f => negb (str_eqb (f_reftable f) n)) (t_fks t).
Lemma no_refs_b_ok n t : no_refs_b n t = true -> no_refs n t.
Proof.
  intros H f Hf E. apply (proj1 (forallb_forall _ _) H) in Hf. rewrite E, str_eqb_refl in Hf. discriminate.
Qed.

Definition compatible_b (d : db) (B : xschema) : bool :=
  let T := db_tables d in
  nodup_strs (b_names B)
  && forallb (fun bx =>
       let nn := NEW_ ++ x_name bx in
       negb (mem nn (all_names T)) && negb (mem nn (b_names B))
       && forallb (fun c => no_refs_b nn (ct_t c)) T && forallb (fun bx' => no_refs_b nn (x_t bx')) B
       && forallb (fun i =>
            negb (mem (i_name i) (map ct_name T))
            && forallb (fun c => implb (mem (i_name i) (map i_name (t_idx (ct_t c)))) (str_eqb (ct_name c) (x_name bx))) T)
            (t_idx (x_t bx))
       && forallb (fun c => negb (mem (x_name bx) (map i_name (t_idx (ct_t c))))) T
       && forallb (fun c => implb (str_eqb (ct_name c) (x_name bx))
                              (forallb (fun cb => implb (has_autoinc bx (c_name cb)) (has_col (ct_t c) (c_name cb))) (t_cols (x_t bx)))) T)
       B.

Lemma compatible_b_ok d B : compatible_b d B = true -> compatible d B.
Proof.
  unfold compatible_b. intros H. apply andb_true_iff in H. destruct H as [H0 H].
  assert (P : forall bx, In bx B ->
    let nn := NEW_ ++ x_name bx in
    (negb (mem nn (all_names (db_tables d))) && negb (mem nn (b_names B))
       && forallb (fun c => no_refs_b nn (ct_t c)) (db_tables d) && forallb (fun bx' => no_refs_b nn (x_t bx')) B
       && forallb (fun i =>
            negb (mem (i_name i) (map ct_name (db_tables d)))
            && forallb (fun c => implb (mem (i_name i) (map i_name (t_idx (ct_t c)))) (str_eqb (ct_name c) (x_name bx))) (db_tables d))
            (t_idx (x_t bx))
       && forallb (fun c => negb (mem (x_name bx) (map i_name (t_idx (ct_t c))))) (db_tables d)
       && forallb (fun c => implb (str_eqb (ct_name c) (x_name bx))
                              (forallb (fun cb => implb (has_autoinc bx (c_name cb)) (has_col (ct_t c) (c_name cb))) (t_cols (x_t bx)))) (db_tables d)) = true).
  { intros bx Hb. exact (proj1 (forallb_forall _ _) H bx Hb). }
  clear H. constructor.
  - apply nodup_strs_NoDup. exact H0.
  - intros bx Hb. specialize (P bx Hb). cbv zeta in P.
    repeat (apply andb_true_iff in P; destruct P as [P ?]).
    split; [apply mem_false; apply negb_true_iff; exact P|].
    split; [apply mem_false; apply negb_true_iff; assumption|].
    split.
    + intros c Hc. apply no_refs_b_ok.
      match goal with X : forallb (fun c => no_refs_b _ (ct_t c)) _ = true |- _ => exact (proj1 (forallb_forall _ _) X c Hc) end.
    + intros bx' Hb'. apply no_refs_b_ok.
      match goal with X : forallb (fun bx' => no_refs_b _ (x_t bx')) _ = true |- _ => exact (proj1 (forallb_forall _ _) X bx' Hb') end.
  - intros bx i Hb Hi. specialize (P bx Hb). cbv zeta in P.
    repeat (apply andb_true_iff in P; destruct P as [P ?]).
    match goal with X : forallb (fun i => negb (mem (i_name i) _) && _) _ = true |- _ =>
      assert (Y := proj1 (forallb_forall _ _) X i Hi) end.
    cbv beta in Y. apply andb_true_iff in Y. destruct Y as [Y1 Y2]. split.
    + apply mem_false. apply negb_true_iff. exact Y1.
    + intros c Hc Hin. assert (Z := proj1 (forallb_forall _ _) Y2 c Hc). cbv beta in Z. apply mem_true in Hin. rewrite Hin in Z.
      simpl in Z. apply str_eqb_eq. exact Z.
  - intros bx c Hb Hc. specialize (P bx Hb). cbv zeta in P.
    repeat (apply andb_true_iff in P; destruct P as [P ?]).
    match goal with X : forallb (fun c => negb (mem (x_name bx) _)) _ = true |- _ =>
      assert (Y := proj1 (forallb_forall _ _) X c Hc) end.
    apply mem_false. apply negb_true_iff. exact Y.
  - intros bx c cb Hb Hc Hn Hcb Ha. specialize (P bx Hb). cbv zeta in P.
    repeat (apply andb_true_iff in P; destruct P as [P ?]).
    match goal with X : forallb (fun c => implb (str_eqb (ct_name c) (x_name bx)) _) _ = true |- _ =>
      assert (Y := proj1 (forallb_forall _ _) X c Hc) end.
    cbv beta in Y. rewrite Hn, str_eqb_refl in Y. simpl in Y. assert (Z := proj1 (forallb_forall _ _) Y cb Hcb).
    cbv beta in Z. rewrite Ha in Z. exact Z.
Qed.

(** ** the feature set of the theorem *)
Definition supported (d : db) (B : xschema) : bool :=
  db_ok_b d && forallb desired_ok_b B && compatible_b d B.

Theorem converges_supported nm d B :
  supported d B = true ->
  exists p d', diff_and_plan nm (inspect d) B = Some p /\ exec_all d (plan_stmts p) = Ok d' /\ synced nm d' B.
Proof.
  unfold supported. intros H. apply andb_true_iff in H. destruct H as [H H3]. apply andb_true_iff in H. destruct H as [H1 H2].
  apply converges.
  - apply db_ok_b_ok. exact H1.
  - intros bx Hb. apply desired_ok_b_ok. exact (proj1 (forallb_forall _ _) H2 bx Hb).
  - apply compatible_b_ok. exact H3.
Qed.

Lemma second_plan_empty nm d B :
  synced nm d B ->
  diff_and_plan nm (inspect d) B = Some (mkPlan [] true true) /\ exec_all d (plan_stmts (mkPlan [] true true)) = Ok d.
Proof.
  intros H. unfold diff_and_plan. unfold synced, inspect_schema in H. rewrite H. split; reflexivity.
Qed.

Lemma apply_then_second_plan_empty nm d B :
  supported d B = true ->
  exists p d', diff_and_plan nm (inspect d) B = Some p /\ exec_all d (plan_stmts p) = Ok d' /\
               diff_and_plan nm (inspect d') B = Some (mkPlan [] true true).
Proof.
  intros H. destruct (converges_supported nm d B H) as [p [d' [H1 [H2 H3]]]].
  exists p, d'. split; [exact H1|]. split; [exact H2|]. apply (second_plan_empty nm d' B H3).
Qed.
