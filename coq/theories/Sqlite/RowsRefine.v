(** C05 round 5: RowsModel ~ EngineModel on the row component of the row copy.

    The two abstract engines differ in their value domain ([RowsModel.value] = NULL | the text quote() prints;
    [EngineModel.value] = NULL | integer | text | blob | real | unevaluated expression).  Under any rendering
    [tok] of non-NULL engine values, [absv] maps the engine's values to RowsModel's, and the cell INSERT ... SELECT
    computes for a stored column is the same in both models: RowsModel.col_value (with the identity conversion) on
    the abstracted old row = the abstraction of the cell of EngineModel.new_row. *)
From Coq Require Import List NArith ZArith Bool Arith Lia.
From Atlas Require Import Base.Bytes Diff.Schema Diff.DiffModel Diff.DiffSqlite Diff.DiffProofs.
From Atlas Require Sqlite.PlanModel Sqlite.EngineModel Sqlite.RowsModel Sqlite.RowsEngine.
Import ListNotations.

Module P := Atlas.Sqlite.PlanModel.
Module E := Atlas.Sqlite.EngineModel.
Module R := Atlas.Sqlite.RowsModel.
Module RE := Atlas.Sqlite.RowsEngine.

Section Refine.
Variable tok : E.value -> str.

Definition absv (v : E.value) : R.value := if E.is_null v then R.VNull else R.VVal (tok v).
Definition absrow (r : E.row) : R.row := map (fun p => (fst p, absv (snd p))) (snd r).
Definition abs_expr (e : P.sexpr) : R.expr :=
  match e with
  | P.XCol c => R.ECol c
  | P.XIfNull c x => R.EIfNull c (absv (E.value_of_sql x))
  end.
Definition idconv (_ _ : str) (v : R.value) : R.value := v.

Lemma is_null_abs v : R.is_null (absv v) = E.is_null v.
Proof. unfold absv. destruct (E.is_null v); reflexivity. Qed.

Lemma get_abs r n :
  R.get (absrow r) n = match find (fun p => str_eqb (fst p) n) (snd r) with
                       | Some p => Some (absv (snd p))
                       | None => None
                       end.
Proof.
  unfold absrow. induction (snd r) as [|[k v] l IH]; simpl; [reflexivity|].
  destruct (str_eqb k n); [reflexivity|exact IH].
Qed.

(** a source expression evaluates alike, when the old row has the cell and the old table the column *)
Lemma eval_refines (old : R.etable) (r : E.row) ty e c0 p0 :
  R.find_rcol (E.sexpr_col e) (R.et_cols old) = Some c0 ->
  find (fun p => str_eqb (fst p) (E.sexpr_col e)) (snd r) = Some p0 ->
  R.eval_expr idconv old (absrow r) ty (abs_expr e) = R.EOk (absv (E.eval_sexpr r e)).
Proof.
  intros HC HF. destruct e as [c|c x]; simpl in *; unfold E.row_get; rewrite HC, get_abs, HF.
  - destruct p0 as [k v]. reflexivity.
  - destruct p0 as [k v]. simpl. rewrite is_null_abs. destruct (E.is_null v); reflexivity.
Qed.

(** positional pairing (RowsModel: index in toC, then that position of fromC) = first match in the zipped list
    (EngineModel) *)
Lemma pairing_same {A B} (f : A -> B) n : forall (tc : list str) (ex : list A),
  length tc = length ex ->
  match R.index_of n tc with
  | Some i => exists e, nth_error ex i = Some e /\
                        find (fun p : str * B => str_eqb (fst p) n) (combine tc (map f ex)) = Some (nth i tc n, f e) /\
                        str_eqb (nth i tc n) n = true
  | None => find (fun p : str * B => str_eqb (fst p) n) (combine tc (map f ex)) = None
  end.
Proof.
  induction tc as [|x tc IH]; intros ex HL; simpl; [reflexivity|].
  destruct ex as [|e ex]; [discriminate|]. simpl in HL. injection HL as HL. simpl.
  destruct (str_eqb x n) eqn:E0.
  - exists e. split; [reflexivity|]. split; [reflexivity|exact E0].
  - specialize (IH ex HL). destruct (R.index_of n tc) as [i|]; simpl.
    + destruct IH as [e' [H1 [H2 H3]]]. exists e'. split; [exact H1|]. split; [exact H2|exact H3].
    + exact IH.
Qed.

(** the cell of a stored column of the new table *)
Theorem cell_refines (old : R.etable) (r : E.row) (rc : R.rcol) (col : column) tc ex :
  length tc = length ex ->
  R.rc_name rc = c_name col ->
  R.rc_defval rc = absv (E.default_of col) ->
  (forall e, In e ex -> exists c0 p0, R.find_rcol (E.sexpr_col e) (R.et_cols old) = Some c0 /\
                                      find (fun p => str_eqb (fst p) (E.sexpr_col e)) (snd r) = Some p0) ->
  R.col_value idconv old (absrow r) rc tc (map abs_expr ex) =
    R.EOk (absv (match find (fun p => str_eqb (fst p) (c_name col)) (combine tc (map (E.eval_sexpr r) ex)) with
                 | Some (_, v) => v
                 | None => E.default_of col
                 end)).
Proof.
  intros HL HN HD HS. unfold R.col_value. rewrite HN.
  pose proof (pairing_same (E.eval_sexpr r) (c_name col) tc ex HL) as X.
  destruct (R.index_of (c_name col) tc) as [i|].
  - destruct X as [e [H1 [H2 _]]]. rewrite H2. rewrite nth_error_map, H1. simpl.
    destruct (HS e (nth_error_In _ _ H1)) as [c0 [p0 [A B]]].
    apply (eval_refines old r (R.rc_type rc) e c0 p0 A B).
  - rewrite X, HD. reflexivity.
Qed.

(** with [RowsEngine.new_row_get]: the stored cells of the row the shared engine inserts are, under [absv], the
    values RowsModel's engine computes from the abstracted old row *)
Corollary new_row_refines (old : R.etable) (to : table) (r : E.row) nx (rc : R.rcol) (col : column) tc ex :
  NoDup (map c_name (t_cols to)) -> In col (t_cols to) -> c_gen col = None ->
  length tc = length ex ->
  R.rc_name rc = c_name col ->
  R.rc_defval rc = absv (E.default_of col) ->
  (forall e, In e ex -> exists c0 p0, R.find_rcol (E.sexpr_col e) (R.et_cols old) = Some c0 /\
                                      find (fun p => str_eqb (fst p) (E.sexpr_col e)) (snd r) = Some p0) ->
  R.col_value idconv old (absrow r) rc tc (map abs_expr ex) =
    R.EOk (absv (E.row_get (E.new_row to tc ex r nx) (c_name col))).
Proof.
  intros ND HI HG HL HN HD HS. rewrite (RE.new_row_get to tc ex r nx col ND HI HG).
  apply cell_refines; assumption.
Qed.
End Refine.
