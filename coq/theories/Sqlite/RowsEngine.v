(** C05 on the shared planner + engine (round 5): [PlanModel.PlanChanges] executed by
    [EngineModel.exec_all] -- the models C01 is about -- with rows, rowids and sqlite_sequence.

    1. frame: a statement leaves columns and rows of every table it does not name as they were
       (DROP TABLE: with enforcement off); so does a whole plan (the pragma bracket makes it so).
    2. the rebuild segment of [modifyTable]: the table called [t] afterwards holds exactly
       [insert_rows new_t toC exprs (rows of t before) []].
    3. what [insert_rows] does to a row: values (pairing), rowid.
    4. sqlite_sequence across the rebuild. *)
From Coq Require Import List NArith ZArith Bool Arith Lia.
From Atlas Require Import Base.Bytes Diff.Schema Diff.DiffModel Diff.DiffSqlite Diff.DiffProofs
  Sqlite.PlanModel Sqlite.PlanProofs Sqlite.EngineModel Sqlite.SeqModel.
Import ListNotations.

(** * helpers *)
Lemma str_eqb_sym' a b : str_eqb a b = str_eqb b a.
Proof. unfold str_eqb. apply bytes_eqb_sym. Qed.

Lemma find_ct_app_other n l c : str_eqb (ct_name c) n = false -> find_ct n (l ++ [c]) = find_ct n l.
Proof.
  intros H. unfold find_ct. induction l as [|a l IH]; simpl; [rewrite H; reflexivity|].
  destruct (str_eqb (ct_name a) n); [reflexivity|exact IH].
Qed.

Lemma find_ct_app_some n l l2 c : find_ct n l = Some c -> find_ct n (l ++ l2) = Some c.
Proof.
  unfold find_ct. induction l as [|a l IH]; simpl; [discriminate|].
  destruct (str_eqb (ct_name a) n); [trivial|exact IH].
Qed.

Lemma find_ct_app_none n l l2 : find_ct n l = None -> find_ct n (l ++ l2) = find_ct n l2.
Proof.
  unfold find_ct. induction l as [|a l IH]; simpl; [reflexivity|].
  destruct (str_eqb (ct_name a) n); [discriminate|exact IH].
Qed.

Lemma find_ct_name n l c : find_ct n l = Some c -> ct_name c = n.
Proof. unfold find_ct. intros H. apply find_some in H. apply str_eqb_eq. tauto. Qed.

Lemma find_ct_update_other n m f l :
  (forall c, ct_name (f c) = ct_name c) -> str_eqb n m = false ->
  find_ct m (update_ct n f l) = find_ct m l.
Proof.
  intros Hf Hnm. unfold find_ct. induction l as [|c l IH]; simpl; [reflexivity|].
  destruct (str_eqb (ct_name c) n) eqn:E; simpl.
  - rewrite Hf. apply str_eqb_eq in E. rewrite E, Hnm. reflexivity.
  - destruct (str_eqb (ct_name c) m); [reflexivity|exact IH].
Qed.

Lemma find_ct_update_same n f l c :
  (forall c, ct_name (f c) = ct_name c) -> find_ct n l = Some c -> find_ct n (update_ct n f l) = Some (f c).
Proof.
  intros Hf. unfold find_ct. induction l as [|a l IH]; simpl; [discriminate|].
  destruct (str_eqb (ct_name a) n) eqn:E; simpl.
  - intros H. inversion H; subst. rewrite Hf, E. reflexivity.
  - rewrite E. exact IH.
Qed.

Lemma find_ct_remove_other n m l : str_eqb n m = false -> find_ct m (remove_ct n l) = find_ct m l.
Proof.
  intros Hnm. unfold find_ct. induction l as [|c l IH]; simpl; [reflexivity|].
  destruct (str_eqb (ct_name c) n) eqn:E; simpl.
  - apply str_eqb_eq in E. rewrite E, Hnm. reflexivity.
  - destruct (str_eqb (ct_name c) m); [reflexivity|exact IH].
Qed.

Lemma find_ct_map n g l :
  (forall c, str_eqb (ct_name (g c)) n = str_eqb (ct_name c) n) ->
  find_ct n (map g l) = option_map g (find_ct n l).
Proof.
  intros H. unfold find_ct. induction l as [|c l IH]; simpl; [reflexivity|].
  rewrite H. destruct (str_eqb (ct_name c) n); [reflexivity|exact IH].
Qed.

Lemma name_used_find n l : name_used n l = false -> find_ct n l = None.
Proof.
  unfold name_used, all_names, find_ct. induction l as [|c l IH]; simpl; [reflexivity|].
  intros H. apply orb_false_iff in H. destruct H as [H1 H2].
  rewrite existsb_app in H2. apply orb_false_iff in H2. destruct H2 as [_ H2].
  rewrite str_eqb_sym', H1. apply IH. exact H2.
Qed.

Definition content_of (c : ctable) : list column * list row := (t_cols (ct_t c), ct_rows c).
Lemma content_find n d : content n d = option_map content_of (find_ct n (db_tables d)).
Proof. unfold content. destruct (find_ct n (db_tables d)); reflexivity. Qed.

(** * 1. frame *)
Ltac inv_ok H := inversion H; subst; clear H.

Lemma exec_flags d s d' : exec d s = Ok d' -> is_pragma s = false -> db_fk d' = db_fk d /\ db_tx d' = db_tx d.
Proof.
  intros H P. destruct s; simpl in H, P; try discriminate;
  [ unfold create_table in H | unfold drop_table in H | unfold rename_table in H | unfold add_column in H
  | unfold drop_column in H | unfold create_index in H | unfold drop_index in H | unfold copy_rows in H ];
  repeat match type of H with
         | (match ?X with _ => _ end) = Ok _ => destruct X eqn:?; try discriminate
         | (if ?X then _ else _) = Ok _ => destruct X eqn:?; try discriminate
         end; inv_ok H; cbn; split; congruence.
Qed.

Lemma exec_frame d s d' n :
  exec d s = Ok d' -> (is_drop_table s = true -> db_fk d = false) ->
  existsb (str_eqb n) (stmt_names s) = false ->
  content n d' = content n d.
Proof.
  intros H F N. rewrite !content_find. destruct s; simpl in H, N.
  - (* CREATE TABLE *)
    unfold create_table in H. destruct (new_ctable x uniques) as [ct|] eqn:E; [|discriminate].
    destruct (name_used _ _); [discriminate|]. inv_ok H. cbn [db_tables set_tables].
    rewrite find_ct_app_other; [reflexivity|].
    unfold new_ctable in E. destruct (reserved_name _); [discriminate|]. destruct (table_checks x uniques); [|discriminate].
    inv_ok E. apply orb_false_iff in N. destruct N as [N _]. rewrite str_eqb_sym'. exact N.
  - (* DROP TABLE *)
    unfold drop_table in H. destruct (find_ct n0 (db_tables d)); [|discriminate].
    rewrite (F eq_refl) in H. inv_ok H. cbn [db_tables set_tables].
    apply orb_false_iff in N. destruct N as [N _]. rewrite find_ct_remove_other; [reflexivity|rewrite str_eqb_sym'; exact N].
  - (* RENAME *)
    unfold rename_table in H. destruct (find_ct a (db_tables d)) as [ca|]; [|discriminate].
    destruct (reserved_name b); [discriminate|]. destruct (name_used b (db_tables d)); [discriminate|].
    inv_ok H. cbn [db_tables set_tables].
    apply orb_false_iff in N. destruct N as [Na N]. apply orb_false_iff in N. destruct N as [Nb _].
    rewrite find_ct_map.
    + destruct (find_ct n (db_tables d)) as [c|]; [|reflexivity]. simpl. unfold content_of. f_equal.
      cbn. destruct (str_eqb (t_name (ct_t c)) a); reflexivity.
    + intros c. cbn. destruct (str_eqb (t_name (ct_t c)) a) eqn:E; cbn; [|reflexivity].
      apply str_eqb_eq in E. unfold ct_name, x_name, ct_t in *. rewrite E.
      change (bytes_eqb b n) with (str_eqb b n). rewrite (str_eqb_sym' b n), (str_eqb_sym' a n), Na, Nb. reflexivity.
  - (* ADD COLUMN *)
    apply orb_false_iff in N. destruct N as [N _]. rewrite str_eqb_sym' in N.
    unfold add_column in H. destruct (find_ct t (db_tables d)); [|discriminate].
    repeat match type of H with
           | (match ?X with _ => _ end) = Ok _ => destruct X; try discriminate
           | (if ?X then _ else _) = Ok _ => destruct X; try discriminate
           end; inv_ok H; cbn [db_tables set_tables]; rewrite find_ct_update_other; try reflexivity; exact N.
  - (* DROP COLUMN *)
    apply orb_false_iff in N. destruct N as [N _]. rewrite str_eqb_sym' in N.
    unfold drop_column in H. destruct (find_ct t (db_tables d)); [|discriminate].
    repeat match type of H with
           | (if ?X then _ else _) = Ok _ => destruct X; try discriminate
           end; inv_ok H; cbn [db_tables set_tables]; rewrite find_ct_update_other; try reflexivity; exact N.
  - discriminate.
  - (* CREATE INDEX *)
    apply orb_false_iff in N. destruct N as [N _]. rewrite str_eqb_sym' in N.
    unfold create_index in H. destruct (find_ct t (db_tables d)); [|discriminate].
    repeat match type of H with
           | (match ?X with _ => _ end) = Ok _ => destruct X; try discriminate
           | (if ?X then _ else _) = Ok _ => destruct X; try discriminate
           end; inv_ok H; cbn [db_tables set_tables]; rewrite find_ct_update_other; try reflexivity; exact N.
  - (* DROP INDEX *)
    unfold drop_index in H. destruct (existsb _ _); [|discriminate]. inv_ok H. cbn [db_tables set_tables].
    rewrite find_ct_map; [|reflexivity]. destruct (find_ct n (db_tables d)); reflexivity.
  - (* INSERT ... SELECT *)
    apply orb_false_iff in N. destruct N as [N _]. rewrite str_eqb_sym' in N.
    unfold copy_rows in H. destruct (find_ct to_t (db_tables d)); [|discriminate].
    destruct (find_ct from_t (db_tables d)); [|discriminate].
    repeat match type of H with
           | (match ?X with _ => _ end) = Ok _ => destruct X; try discriminate
           | (if ?X then _ else _) = Ok _ => destruct X; try discriminate
           end; inv_ok H; cbn [db_tables set_tables]; rewrite find_ct_update_other; try reflexivity; exact N.
  - destruct (db_tx d); inv_ok H; reflexivity.
Qed.

(** statements that never write rows or columns, whatever table they name *)
Definition keeps_content (s : stmt) : bool :=
  match s with SCreateIndex _ _ | SDropIndex _ | SPragmaFK _ => true | _ => false end.

Lemma exec_keeps_content d s d' n : exec d s = Ok d' -> keeps_content s = true -> content n d' = content n d.
Proof.
  intros H K. destruct s; try discriminate; simpl in H.
  - destruct (existsb (str_eqb n) [t]) eqn:N.
    + simpl in N. rewrite orb_false_r in N. apply str_eqb_eq in N. subst t. rewrite !content_find.
      unfold create_index in H. destruct (find_ct n (db_tables d)) as [c|] eqn:E; [|discriminate].
      repeat match type of H with
             | (match ?X with _ => _ end) = Ok _ => destruct X; try discriminate
             | (if ?X then _ else _) = Ok _ => destruct X; try discriminate
             end; inv_ok H; cbn [db_tables set_tables]; rewrite (find_ct_update_same n _ _ c); try reflexivity; exact E.
    + apply (exec_frame d (SCreateIndex t i) d' n H); [discriminate|exact N].
  - apply (exec_frame d (SDropIndex n0) d' n H); [discriminate|reflexivity].
  - apply (exec_frame d (SPragmaFK on) d' n H); [discriminate|reflexivity].
Qed.

Lemma exec_all_app d l1 l2 :
  exec_all d (l1 ++ l2) = match exec_all d l1 with Ok d1 => exec_all d1 l2 | Err e => Err e end.
Proof. revert d. induction l1 as [|s l IH]; intros d; simpl; [reflexivity|]. destruct (exec d s); [apply IH|reflexivity]. Qed.

Definition names_of (l : list stmt) : list str := flat_map stmt_names l.

(** a pragma-free statement list run with enforcement off *)
Lemma exec_all_frame l : forall d d' n,
  exec_all d l = Ok d' -> db_fk d = false -> forallb (fun s => negb (is_pragma s)) l = true ->
  existsb (str_eqb n) (names_of l) = false ->
  content n d' = content n d /\ db_fk d' = false /\ db_tx d' = db_tx d.
Proof.
  induction l as [|s l IH]; intros d d' n H F P N; simpl in *.
  - inv_ok H. auto.
  - destruct (exec d s) as [d1|] eqn:E; [|discriminate].
    apply andb_true_iff in P. destruct P as [P1 P2]. apply negb_true_iff in P1.
    unfold names_of in N. simpl in N. rewrite existsb_app in N. apply orb_false_iff in N. destruct N as [N1 N2].
    destruct (exec_flags d s d1 E P1) as [F1 T1].
    destruct (IH d1 d' n H) as [C [F2 T2]]; [congruence|exact P2|exact N2|].
    split; [|split; congruence]. rewrite C. apply (exec_frame d s d1 n E); [intros _; exact F|exact N1].
Qed.

(** ** the names a plan writes are those of its change list *)
Definition pnames (l : list pchange) : list str := names_of (map pc_cmd l).

Lemma pnames_app a b : pnames (a ++ b) = pnames a ++ pnames b.
Proof. unfold pnames, names_of. rewrite map_app, flat_map_app. reflexivity. Qed.

Lemma addIndexes_names t l pcs : addIndexes t l = Some pcs -> incl (pnames pcs) [t_name t].
Proof.
  revert pcs. induction l as [|i l IH]; simpl; intros pcs H; [inv_ok H; intros x []|].
  destruct (normalize_idx_name i t); [|discriminate]. destruct (addIndexes t l) as [r|]; [|discriminate].
  inv_ok H. intros x Hx. simpl in Hx. destruct Hx as [<-|Hx]; [left; reflexivity|apply (IH r eq_refl x Hx)].
Qed.

Lemma dropIndexes_names t l pcs : dropIndexes t l = Some pcs -> pnames pcs = [].
Proof.
  unfold dropIndexes. destruct (addIndexes t l) as [rs|] eqn:E; [|discriminate]. intros H. inv_ok H.
  unfold pnames, names_of. rewrite map_map.
  assert (G : forall c, In c rs -> exists n, pc_reverse c = [SDropIndex n]) by (intros c Hc; apply (addIndexes_reverse t l rs c E Hc)).
  clear E. induction rs as [|c rs IH]; simpl; [reflexivity|].
  destruct (G c (or_introl eq_refl)) as [n Hn]. rewrite Hn. simpl. apply IH. intros c' Hc'. apply G. right. exact Hc'.
Qed.

Lemma addTable_names x pcs : addTable x = Some pcs -> incl (pnames pcs) [x_name x].
Proof.
  unfold addTable. destruct (negb _); [discriminate|].
  destruct (addIndexes (x_t x) (t_idx (x_t x))) as [idxs|] eqn:E; [|discriminate]. intros H. inv_ok H.
  intros m Hm. simpl in Hm. destruct Hm as [<-|Hm]; [left; reflexivity|].
  apply (addIndexes_names _ _ _ E m Hm).
Qed.

Lemma alterTable_names from tox cs pcs : alterTable from tox cs = Some pcs -> incl (pnames pcs) [x_name tox].
Proof.
  revert pcs. induction cs as [|c cs IH]; simpl; intros pcs H; [inv_ok H; intros x []|].
  match type of H with (match ?X with _ => _ end) = _ => destruct X as [a|] eqn:EA; [|discriminate] end.
  destruct (alterTable from tox cs) as [b|]; [|discriminate]. inv_ok H.
  rewrite pnames_app. apply incl_app; [|apply (IH b eq_refl)].
  destruct c as [n|n|n k|n|n|n k| | |k|a0 b0|s0|s0|s0 k|n e|n e|n e n2 e2|a0|a0|a0]; try discriminate.
  - destruct (find_col n (t_cols (x_t tox))) as [col|]; [|discriminate].
    destruct (column_ok tox col); [|discriminate]. inv_ok EA. intros m Hm. exact Hm.
  - destruct (find_idx n (t_idx (x_t tox))) as [[k i]|]; [|discriminate]. exact (addIndexes_names (x_t tox) [i] a EA).
  - destruct (find_idx n (t_idx from)) as [[k i]|]; [|discriminate]. rewrite (dropIndexes_names (x_t tox) [i] a EA). intros m [].
Qed.

Lemma modifyTable_names from tox cs r sk :
  modifyTable from tox cs = Some (r, sk) -> incl (pnames r) [x_name tox; NEW_ ++ x_name tox].
Proof.
  unfold modifyTable. destruct (alterable (x_t tox) cs).
  - destruct (alterTable from tox cs) as [r0|] eqn:E; [|discriminate]. intros H. inv_ok H.
    intros m Hm. apply (alterTable_names _ _ _ _ E) in Hm. destruct Hm as [<-|[]]. left. reflexivity.
  - destruct (addTable _) as [created|] eqn:EC; [|discriminate].
    destruct (copyRows _ _ cs) as [ins|] eqn:EI; [|discriminate].
    destruct (addIndexes (x_t tox) (t_idx (x_t tox))) as [idxs|] eqn:EX; [|discriminate].
    intros H. inv_ok H. rewrite !pnames_app. apply incl_app; [|apply incl_app; [|apply incl_app]].
    + intros m Hm. apply (addTable_names _ _ EC) in Hm. destruct Hm as [<-|[]]. right. left. reflexivity.
    + unfold copyRows in EI. destruct (copy_cols _ cs) as [[|p prs]|]; inv_ok EI; [intros m []|].
      intros m Hm. simpl in Hm. destruct Hm as [<-|[]]. right. left. reflexivity.
    + intros m Hm. simpl in Hm. destruct Hm as [<-|[]]. left. reflexivity.
    + intros m Hm. simpl in Hm. destruct Hm as [<-|[<-|Hm]]; [right; left; reflexivity|left; reflexivity|].
      apply (addIndexes_names _ _ _ EX) in Hm. destruct Hm as [<-|[]]. left. reflexivity.
Qed.

Lemma find_xtable_name n l x : find_xtable n l = Some x -> x_name x = n.
Proof. unfold find_xtable. intros H. apply find_some in H. apply str_eqb_eq. tauto. Qed.

Lemma normalized_to_name x x' : normalized_to x = Some x' -> x_name x' = x_name x.
Proof. unfold normalized_to. destruct (normalize_idxs _ _); [|discriminate]. intros H. inv_ok H. reflexivity. Qed.

Lemma plan_loop_names from to cs : forall s s' N,
  plan_loop from to cs s = Some s' -> incl (pnames (ps_changes s)) N -> incl (touched_names cs) N ->
  incl (pnames (ps_changes s')) N.
Proof.
  induction cs as [|c cs IH]; intros s s' N H I T; simpl in H; [inv_ok H; exact I|].
  match type of H with (match ?X with _ => _ end) = _ => destruct X as [s1|] eqn:E1; [|discriminate] end.
  simpl in T. apply incl_app_inv in T. destruct T as [T1 T2].
  apply (IH s1 s' N H); [|exact T2]. clear H IH.
  destruct c as [n|n|n sub].
  - destruct (find_xtable n to) as [x|] eqn:EF; [|discriminate]. destruct (addTable x) as [r|] eqn:EA; [|discriminate].
    inv_ok E1. simpl. rewrite pnames_app. apply incl_app; [exact I|].
    intros m Hm. apply (addTable_names _ _ EA) in Hm. destruct Hm as [<-|[]]. rewrite (find_xtable_name _ _ _ EF). apply T1. left. reflexivity.
  - destruct (find_xtable n from) as [x|] eqn:EF; [|discriminate]. destruct (dropTable x) as [r|] eqn:ED; [|discriminate].
    inv_ok E1. simpl. rewrite pnames_app. apply incl_app; [exact I|].
    unfold dropTable in ED. destruct (addTable x); [|discriminate]. inv_ok ED.
    intros m Hm. simpl in Hm. destruct Hm as [<-|[]]. rewrite (find_xtable_name _ _ _ EF). apply T1. left. reflexivity.
  - destruct (find_xtable n from) as [xf|]; [|discriminate]. destruct (find_xtable n to) as [xt|] eqn:EF; [|discriminate].
    destruct (normalized_to xt) as [xt'|] eqn:EN; [|discriminate].
    destruct (modifyTable (x_t xf) xt' sub) as [[r sk]|] eqn:EM; [|discriminate].
    assert (G : incl (pnames r) N).
    { intros m Hm. apply (modifyTable_names _ _ _ _ _ EM) in Hm.
      rewrite (normalized_to_name _ _ EN), (find_xtable_name _ _ _ EF) in Hm. apply T1. exact Hm. }
    inv_ok E1. destruct sk; simpl; rewrite pnames_app; apply incl_app; assumption.
Qed.

Lemma not_in_existsb n l : ~ In n l -> existsb (str_eqb n) l = false.
Proof.
  intros H. destruct (existsb (str_eqb n) l) eqn:E; [|reflexivity]. exfalso. apply H.
  apply existsb_exists in E. destruct E as [x [Hx E]]. apply str_eqb_eq in E. subst. exact Hx.
Qed.

(** C05 "tables that are not part of the change set are untouched", for the shared planner and engine:
    the pragma of the bracket must be effective (no transaction is open) or enforcement is off already
    (what sqlite.OpenTx arranges). *)
Theorem engine_others_untouched from to cs p d d' n :
  PlanChanges from to cs = Some p ->
  (db_tx d = false \/ db_fk d = false) ->
  exec_all d (plan_stmts p) = Ok d' ->
  ~ In n (touched_names cs) ->
  content n d' = content n d.
Proof.
  intros HP HF HE HN.
  unfold PlanChanges in HP. destruct (plan_loop from to cs (mkPS [] false)) as [s|] eqn:EL; [|discriminate].
  assert (I0 : loop_inv (mkPS [] false)) by (split; [reflexivity|intros _; reflexivity]).
  destruct (plan_loop_inv from to cs _ _ I0 EL) as [E2 I2].
  set (body := ps_changes s) in *. set (sk := ps_skipFKs s) in *.
  assert (E1 : p_changes p = (if sk then mkPC (SPragmaFK false) [] CmFKOff :: body ++ [mkPC (SPragmaFK true) [] CmFKOn] else body)).
  { inv_ok HP. reflexivity. }
  assert (E3 : sk = false -> forallb (fun c => negb (is_drop_table (pc_cmd c))) body = true).
  { intros X. specialize (I2 X). apply forallb_forall. intros c Hc. apply (proj1 (forallb_forall _ _) I2) in Hc.
    unfold mild in Hc. apply andb_true_iff in Hc. tauto. }
  assert (NB : existsb (str_eqb n) (pnames body) = false).
  { apply not_in_existsb. intros Hin. apply HN.
    apply (plan_loop_names from to cs _ _ _ EL); [intros x []|apply incl_refl|exact Hin]. }
  clear HP.
  assert (P2 : forallb (fun s => negb (is_pragma s)) (map pc_cmd body) = true).
  { rewrite forallb_forall in *. intros s0 Hs. apply in_map_iff in Hs. destruct Hs as [c [<- Hc]]. apply E2. exact Hc. }
  unfold plan_stmts in HE. rewrite E1 in HE. destruct sk.
  - rewrite map_cons, map_app in HE. cbn [map pc_cmd] in HE.
    change (exec_all d (SPragmaFK false :: map pc_cmd body ++ [SPragmaFK true]))
      with (match exec d (SPragmaFK false) with Ok d1 => exec_all d1 (map pc_cmd body ++ [SPragmaFK true]) | Err e => Err e end) in HE.
    assert (X : exists d0, exec d (SPragmaFK false) = Ok d0 /\ db_fk d0 = false /\ db_tables d0 = db_tables d).
    { simpl. destruct (db_tx d) eqn:T.
      - exists d. destruct HF as [HF|HF]; [discriminate|]. auto.
      - eexists. split; [reflexivity|]. split; reflexivity. }
    destruct X as [d0 [X0 [X1 X2]]]. rewrite X0, exec_all_app in HE.
    destruct (exec_all d0 (map pc_cmd body)) as [d1|] eqn:EB; [|discriminate].
    destruct (exec_all_frame _ _ _ n EB X1 P2 NB) as [C _].
    assert (C2 : content n d' = content n d1).
    { simpl in HE. destruct (db_tx d1); inv_ok HE; reflexivity. }
    rewrite C2, C. unfold content. rewrite X2. reflexivity.
  - (* no DROP TABLE in the plan *)
    assert (G : forall l d d', exec_all d l = Ok d' -> forallb (fun s => negb (is_pragma s)) l = true ->
               forallb (fun s => negb (is_drop_table s)) l = true -> existsb (str_eqb n) (names_of l) = false ->
               content n d' = content n d).
    { clear. induction l as [|s l IH]; intros d d' H P D N; simpl in *; [inv_ok H; reflexivity|].
      destruct (exec d s) as [d1|] eqn:E; [|discriminate].
      apply andb_true_iff in P. destruct P as [P1 P2]. apply andb_true_iff in D. destruct D as [D1 D2].
      unfold names_of in N. simpl in N. rewrite existsb_app in N. apply orb_false_iff in N. destruct N as [N1 N2].
      rewrite (IH d1 d' H P2 D2 N2). apply (exec_frame d s d1 n E); [|exact N1].
      intros X. apply negb_true_iff in D1. congruence. }
    apply (G _ _ _ HE P2); [|exact NB].
    specialize (E3 eq_refl). rewrite forallb_forall in *. intros s0 Hs. apply in_map_iff in Hs. destruct Hs as [c [<- Hc]]. apply E3. exact Hc.
Qed.

(** * 3. what INSERT ... SELECT does to a row *)
Lemma max_rowid_app acc r : max_rowid (acc ++ [r]) = Z.max (max_rowid acc) (fst r).
Proof. unfold max_rowid. rewrite fold_left_app. reflexivity. Qed.

(** no row is lost, none invented, the order is kept: the new rows are the images of the old ones *)
Lemma insert_rows_spec to tc ex src : forall acc, exists news,
  insert_rows to tc ex src acc = acc ++ news /\
  Forall2 (fun r r' => exists nx, r' = new_row to tc ex r nx) src news.
Proof.
  induction src as [|r src IH]; intros acc; simpl.
  - exists []. rewrite app_nil_r. split; constructor.
  - destruct (IH (acc ++ [new_row to tc ex r (max_rowid acc + 1)%Z])) as [news [E F]].
    exists (new_row to tc ex r (max_rowid acc + 1)%Z :: news). rewrite E, <- app_assoc. split; [reflexivity|].
    constructor; [eexists; reflexivity|exact F].
Qed.

Lemma new_row_rowid_noalias to tc ex r nx : rowid_alias to = None -> fst (new_row to tc ex r nx) = nx.
Proof. unfold new_row. intros H. rewrite H. reflexivity. Qed.

Lemma fresh_rowids_S k : fresh_rowids (S k) = fresh_rowids k ++ [Z.of_nat (S k)].
Proof. unfold fresh_rowids. rewrite seq_S, map_app. reflexivity. Qed.

Lemma max_rowid_fresh acc : map fst acc = fresh_rowids (length acc) -> max_rowid acc = Z.of_nat (length acc).
Proof.
  induction acc as [|r acc IH] using rev_ind; [reflexivity|].
  rewrite app_length, Nat.add_1_r, map_app, fresh_rowids_S. cbn [map]. intros H.
  apply app_inj_tail in H. destruct H as [H1 H2]. rewrite max_rowid_app, (IH H1), H2. lia.
Qed.

(** without a rowid alias the copied rows are numbered 1, 2, ... in the order of the scan *)
Lemma insert_rows_fresh to tc ex src : rowid_alias to = None -> forall acc,
  map fst acc = fresh_rowids (length acc) ->
  map fst (insert_rows to tc ex src acc) = fresh_rowids (length acc + length src).
Proof.
  intros A. induction src as [|r src IH]; intros acc H; simpl.
  - rewrite Nat.add_0_r. exact H.
  - rewrite IH.
    + rewrite app_length. cbn [length]. rewrite <- Nat.add_assoc. reflexivity.
    + rewrite app_length. cbn [length]. rewrite Nat.add_1_r, fresh_rowids_S, map_app. f_equal; [exact H|]. cbn [map]. f_equal.
      rewrite new_row_rowid_noalias by exact A. rewrite (max_rowid_fresh acc H), Nat2Z.inj_succ. reflexivity.
Qed.

(** with a rowid alias the rowid is the integer the alias column receives *)
Lemma new_row_rowid_alias to tc ex r nx c z :
  rowid_alias to = Some c -> row_get (new_row to tc ex r nx) c = VInt z -> fst (new_row to tc ex r nx) = z.
Proof.
  unfold new_row. intros A. rewrite A. cbn [fst]. unfold row_get at 2. cbn [snd].
  unfold row_get. cbn [snd]. intros H.
  destruct (find _ _) as [[k v]|]; [|discriminate]. subst v. reflexivity.
Qed.

Lemma cells_find (G : column -> value) cols col :
  NoDup (map c_name cols) -> In col cols -> c_gen col = None ->
  find (fun p : str * value => str_eqb (fst p) (c_name col))
       (flat_map (fun c => match c_gen c with Some _ => [] | None => [(c_name c, G c)] end) cols)
  = Some (c_name col, G col).
Proof.
  induction cols as [|a cols IH]; intros ND HI HG; [destruct HI|].
  simpl in ND. inversion ND as [|x l NI ND']; subst. destruct HI as [->|HI].
  - simpl. rewrite HG. simpl. rewrite str_eqb_refl. reflexivity.
  - assert (NE : str_eqb (c_name a) (c_name col) = false).
    { apply str_eqb_neq. intros E. apply NI. rewrite E. apply in_map. exact HI. }
    simpl. destruct (c_gen a); simpl; [|rewrite NE]; apply IH; assumption.
Qed.

Lemma new_row_get to tc ex r nx col :
  NoDup (map c_name (t_cols to)) -> In col (t_cols to) -> c_gen col = None ->
  row_get (new_row to tc ex r nx) (c_name col) =
    match find (fun p => str_eqb (fst p) (c_name col)) (combine tc (map (eval_sexpr r) ex)) with
    | Some (_, v) => v
    | None => default_of col
    end.
Proof.
  intros ND HI HG. unfold row_get, new_row. cbn [snd].
  rewrite (cells_find (fun c => match find (fun p => str_eqb (fst p) (c_name c)) (combine tc (map (eval_sexpr r) ex)) with
                                | Some (_, v) => v | None => default_of c end) _ col ND HI HG).
  reflexivity.
Qed.

(** the pairing [copy_cols] builds: every pair names a stored column of the new table and reads the old column of
    the same name, as it is or through IFNULL with the column's DEFAULT text; names are not repeated *)
Lemma copy_cols_spec cols cs : forall prs, copy_cols cols cs = Some prs ->
  (forall c e, In (c, e) prs ->
     exists col, In col cols /\ c_gen col = None /\ c_name col = c /\
       (e = XCol c \/ exists x, e = XIfNull c x /\ defaultValue col = Some x /\ c_null col = false)) /\
  (NoDup (map c_name cols) -> NoDup (map fst prs)).
Proof.
  induction cols as [|col cols IH]; intros prs H; simpl in H.
  - inv_ok H. split; [intros c e []|intros _; constructor].
  - destruct (c_gen col) eqn:G.
    + destruct (IH prs H) as [A B]. split.
      * intros c e Hin. destruct (A c e Hin) as [col' [X Y]]. exists col'. split; [right; exact X|exact Y].
      * intros ND. inversion ND; subst. apply B. assumption.
    + destruct (drops_column (c_name col) cs); [discriminate|].
      match type of H with (match ?X with _ => _ end) = _ => destruct X as [here|] eqn:EH; [|discriminate] end.
      destruct (copy_cols cols cs) as [rest|]; [|discriminate]. inv_ok H.
      destruct (IH rest eq_refl) as [A B].
      assert (HH : here = [] \/ exists e, here = [(c_name col, e)] /\
                 (e = XCol (c_name col) \/ exists x, e = XIfNull (c_name col) x /\ defaultValue col = Some x /\ c_null col = false)).
      { destruct (changes_for_column (c_name col) cs) as [|ch [|ch2 l]].
        - inv_ok EH. right. eexists. split; [reflexivity|left; reflexivity].
        - destruct ch; try discriminate.
          + inv_ok EH. left. reflexivity.
          + destruct (negb (c_null col) && _ && _) eqn:W.
            * destruct (defaultValue col) as [x|] eqn:DV; [|discriminate]. inv_ok EH. right. eexists. split; [reflexivity|].
              right. exists x. split; [reflexivity|]. split; [reflexivity|].
              apply andb_true_iff in W. destruct W as [W _]. apply andb_true_iff in W. destruct W as [W _].
              apply negb_true_iff in W. exact W.
            * inv_ok EH. right. eexists. split; [reflexivity|left; reflexivity].
        - destruct ch; discriminate. }
      split.
      * intros c e Hin. apply in_app_or in Hin. destruct Hin as [Hin|Hin].
        -- destruct HH as [->|[e0 [-> HE]]]; [destruct Hin|]. destruct Hin as [Hin|[]]. inv_ok Hin.
           exists col. split; [left; reflexivity|]. split; [exact G|]. split; [reflexivity|exact HE].
        -- destruct (A c e Hin) as [col' [X Y]]. exists col'. split; [right; exact X|exact Y].
      * intros ND. inversion ND as [|x l NI ND']; subst. specialize (B ND'). rewrite map_app.
        destruct HH as [->|[e0 [-> _]]]; [exact B|]. simpl. constructor; [|exact B].
        intros Hin. apply in_map_iff in Hin. destruct Hin as [[c e] [E Hin]]. simpl in E. subst c.
        destruct (A _ _ Hin) as [col' [X [_ [Y _]]]]. apply NI. rewrite <- Y. apply in_map. exact X.
Qed.

Lemma find_pair_nodup {B} (l : list (str * B)) c e :
  NoDup (map fst l) -> In (c, e) l -> find (fun p => str_eqb (fst p) c) l = Some (c, e).
Proof.
  induction l as [|[k v] l IH]; intros ND HI; [destruct HI|]. simpl in ND. inversion ND as [|x l' NI ND']; subst.
  simpl. destruct HI as [HI|HI].
  - inv_ok HI. rewrite str_eqb_refl. reflexivity.
  - assert (NE : str_eqb k c = false).
    { apply str_eqb_neq. intros E. subst k. apply NI. change c with (fst (c, e)). apply in_map. exact HI. }
    rewrite NE. apply IH; assumption.
Qed.

Lemma combine_pairs r (prs : list (str * sexpr)) :
  combine (map fst prs) (map (eval_sexpr r) (map snd prs)) = map (fun p => (fst p, eval_sexpr r (snd p))) prs.
Proof. induction prs as [|[c e] prs IH]; simpl; [reflexivity|]. rewrite IH. reflexivity. Qed.

(** value of a paired column in the new row: what the source expression yields on the old row *)
Theorem copied_value to cs prs r nx c e :
  copy_cols (t_cols to) cs = Some prs -> NoDup (map c_name (t_cols to)) -> In (c, e) prs ->
  row_get (new_row to (map fst prs) (map snd prs) r nx) c = eval_sexpr r e.
Proof.
  intros HC ND HI. destruct (copy_cols_spec _ _ _ HC) as [A B].
  destruct (A c e HI) as [col [X [G [<- _]]]].
  rewrite (new_row_get to _ _ r nx col ND X G), combine_pairs.
  rewrite (find_pair_nodup (map (fun p => (fst p, eval_sexpr r (snd p))) prs) (c_name col) (eval_sexpr r e)).
  - reflexivity.
  - rewrite map_map. simpl. apply B. exact ND.
  - apply in_map_iff. exists (c_name col, e). split; [reflexivity|exact HI].
Qed.

(** a stored column that is not paired (an added column) holds its default *)
Theorem unpaired_value to cs prs r nx col :
  copy_cols (t_cols to) cs = Some prs -> NoDup (map c_name (t_cols to)) -> In col (t_cols to) -> c_gen col = None ->
  ~ In (c_name col) (map fst prs) ->
  row_get (new_row to (map fst prs) (map snd prs) r nx) (c_name col) = default_of col.
Proof.
  intros HC ND X G NI. rewrite (new_row_get to _ _ r nx col ND X G), combine_pairs.
  destruct (find _ _) as [[k v]|] eqn:E; [|reflexivity]. exfalso. apply find_some in E. destruct E as [E1 E2].
  simpl in E2. apply str_eqb_eq in E2. subst k. apply NI. apply in_map_iff in E1. destruct E1 as [[c0 e0] [E1 E3]].
  simpl in E1. inversion E1; subst. apply in_map_iff. exists (c_name col, e0). split; [reflexivity|exact E3].
Qed.

(** * 2. the rebuild segment of [modifyTable] on the engine with sqlite_sequence *)
Lemma new_name_neq n : NEW_ ++ n <> n.
Proof. intros H. apply (f_equal (@length N)) in H. rewrite app_length in H. simpl in H. lia. Qed.

Lemma update_ct_app_none n f l c :
  find_ct n l = None -> str_eqb (ct_name c) n = true -> update_ct n f (l ++ [c]) = l ++ [f c].
Proof.
  unfold find_ct. induction l as [|a l IH]; simpl; intros H E; [rewrite E; reflexivity|].
  destruct (str_eqb (ct_name a) n); [discriminate|]. rewrite IH; trivial.
Qed.

Lemma remove_ct_app_some n l l2 c : find_ct n l = Some c -> remove_ct n (l ++ l2) = remove_ct n l ++ l2.
Proof.
  unfold find_ct. induction l as [|a l IH]; simpl; [discriminate|].
  destruct (str_eqb (ct_name a) n); [reflexivity|]. intros H. rewrite IH; trivial.
Qed.

Lemma find_ct_map_none n a g l :
  (forall c, ct_name (g c) = if str_eqb (ct_name c) a then n else ct_name c) ->
  find_ct n l = None -> find_ct a l = None -> find_ct n (map g l) = None.
Proof.
  intros Hg. unfold find_ct. induction l as [|c l IH]; simpl; [reflexivity|].
  destruct (str_eqb (ct_name c) n) eqn:E1; [discriminate|]. destruct (str_eqb (ct_name c) a) eqn:E2; [discriminate|].
  intros H1 H2. rewrite Hg, E2, E1. apply IH; assumption.
Qed.

Lemma exec_seq_all_fst l : forall d s d' s', exec_seq_all (d, s) l = Ok (d', s') -> exec_all d l = Ok d'.
Proof.
  induction l as [|st l IH]; intros d s d' s' H; simpl in *; [inv_ok H; reflexivity|].
  unfold exec_seq in H. cbn [fst snd] in H. destruct (exec d st) as [d1|]; [|discriminate]. apply (IH _ _ _ _ H).
Qed.

Lemma exec_all_seq l : forall d s d', exec_all d l = Ok d' -> exists s', exec_seq_all (d, s) l = Ok (d', s').
Proof.
  induction l as [|st l IH]; intros d s d' H; simpl in *; [inv_ok H; eexists; reflexivity|].
  unfold exec_seq. cbn [fst snd]. destruct (exec d st) as [d1|]; [|discriminate]. apply (IH _ _ _ H).
Qed.

(** CREATE INDEX statements leave rows, columns and sqlite_sequence alone *)
Lemma exec_seq_all_indexes l : forall d s d' s' n,
  exec_seq_all (d, s) l = Ok (d', s') ->
  forallb (fun st => match st with SCreateIndex _ _ => true | _ => false end) l = true ->
  content n d' = content n d /\ s' = s.
Proof.
  induction l as [|st l IH]; intros d s d' s' n H K; simpl in *; [inv_ok H; auto|].
  apply andb_true_iff in K. destruct K as [K1 K2]. unfold exec_seq in H. cbn [fst snd] in H.
  destruct (exec d st) as [d1|] eqn:E; [|discriminate].
  destruct st; try discriminate. simpl in H.
  destruct (IH _ _ _ _ n H K2) as [C S]. split; [|exact S].
  rewrite C. apply (exec_keeps_content d _ d1 n E). reflexivity.
Qed.

Lemma addIndexes_all_create t l pcs : addIndexes t l = Some pcs ->
  forallb (fun st => match st with SCreateIndex _ _ => true | _ => false end) (map pc_cmd pcs) = true.
Proof.
  revert pcs. induction l as [|i l IH]; simpl; intros pcs H; [inv_ok H; reflexivity|].
  destruct (normalize_idx_name i t); [|discriminate]. destruct (addIndexes t l) as [r|]; [|discriminate].
  inv_ok H. simpl. apply (IH r eq_refl).
Qed.

Lemma seq_after_rebuild new n z s : str_eqb new n = false ->
  seq_get n (seq_rename new n (seq_remove n (seq_set new z s))) = Some z.
Proof.
  intros H. unfold seq_set, seq_remove at 1. simpl. rewrite H. simpl. rewrite str_eqb_refl.
  unfold seq_get. simpl. rewrite str_eqb_refl. reflexivity.
Qed.

(** the table the rebuild creates under the temporary name, as the engine stores it *)
Definition rebuilt_def (tox : xtable) (tnew : table) : Prop :=
  t_cols tnew = t_cols (x_t tox) /\ t_without_rowid tnew = t_without_rowid (x_t tox) /\
  effective_pk (set_x_t tox (set_t_name (set_t_idx (x_t tox) []) (NEW_ ++ x_name tox))) = Ok (t_pk tnew).

Theorem rebuild_segment from tox cs r sk d s d' s' :
  alterable (x_t tox) cs = false ->
  modifyTable from tox cs = Some (r, sk) ->
  db_fk d = false ->
  exec_seq_all (d, s) (map pc_cmd r) = Ok (d', s') ->
  exists prs cold tnew,
    copy_cols (t_cols (x_t tox)) cs = Some prs /\
    find_ct (x_name tox) (db_tables d) = Some cold /\
    rebuilt_def tox tnew /\
    content (x_name tox) d' =
      Some (t_cols (x_t tox),
            match prs with
            | [] => []
            | _ => insert_rows tnew (map fst prs) (map snd prs) (ct_rows cold) []
            end) /\
    (x_autoinc tox <> [] -> prs <> [] ->
       seq_get (x_name tox) s' =
         Some (Z.max (match seq_get (NEW_ ++ x_name tox) s with Some z => z | None => 0%Z end)
                     (max_rowid (insert_rows tnew (map fst prs) (map snd prs) (ct_rows cold) [])))).
Proof.
  intros HA HM HF HE. unfold modifyTable in HM. rewrite HA in HM.
  set (n := x_name tox) in *. set (new := NEW_ ++ n).
  set (newT := set_t_name (set_t_idx (x_t tox) []) (NEW_ ++ t_name (x_t tox))) in *.
  destruct (addTable (set_x_t tox newT)) as [created|] eqn:EC; [|discriminate].
  destruct (copyRows (t_name (x_t tox)) newT cs) as [ins|] eqn:EI; [|discriminate].
  destruct (addIndexes (x_t tox) (t_idx (x_t tox))) as [idxs|] eqn:EX; [|discriminate].
  inv_ok HM.
  unfold addTable in EC. destruct (negb _); [discriminate|]. cbn in EC. inv_ok EC.
  unfold copyRows in EI. destruct (copy_cols (t_cols newT) cs) as [prs|] eqn:ECC; [|discriminate].
  change (t_cols newT) with (t_cols (x_t tox)) in ECC.
  assert (NN : str_eqb new n = false) by (apply str_eqb_neq; apply new_name_neq).
  (* CREATE TABLE *)
  rewrite !map_app in HE. cbn [map pc_cmd app] in HE.
  cbn [exec_seq_all] in HE. unfold exec_seq at 1 in HE. cbn [fst snd exec] in HE.
  match type of HE with context [create_table d ?X []] => set (X0 := X) in * end.
  destruct (create_table d X0 []) as [d1|] eqn:E1; [|discriminate]. cbn [seq_step] in HE.
  unfold create_table in E1. destruct (new_ctable X0 []) as [ct|] eqn:ENC; [|discriminate].
  destruct (name_used (t_name (x_t X0)) (db_tables d)) eqn:ENU; [discriminate|]. inv_ok E1.
  change (t_name (x_t X0)) with new in ENU. apply name_used_find in ENU.
  unfold new_ctable in ENC. destruct (reserved_name _); [discriminate|].
  destruct (table_checks X0 []) as [pk|] eqn:ETC; [|discriminate]. inv_ok ENC.
  match type of HE with context [db_tables d ++ [?C]] => set (ct := C) in * end.
  assert (CTN : str_eqb (ct_name ct) new = true) by apply str_eqb_refl.
  assert (EPK : effective_pk X0 = Ok pk).
  { unfold table_checks in ETC. cbn [x_t X0 set_x_t t_idx newT set_t_idx set_t_name] in ETC.
    repeat match type of ETC with
           | (match ?Y with _ => _ end) = Ok _ => destruct Y eqn:?; try discriminate
           | (if ?Y then _ else _) = Ok _ => destruct Y eqn:?; try discriminate
           end; inv_ok ETC; first [reflexivity|assumption]. }
  exists prs.
  (* with or without INSERT *)
  assert (STEP : forall d2 s2 ct2,
            db_tables d2 = db_tables d ++ [ct2] -> db_fk d2 = false -> ct_name ct2 = new ->
            t_cols (ct_t ct2) = t_cols (x_t tox) ->
            exec_seq_all (d2, s2) (SDropTable n :: SRenameTable new n :: map pc_cmd idxs) = Ok (d', s') ->
            exists cold, find_ct n (db_tables d) = Some cold /\
              content n d' = Some (t_cols (x_t tox), ct_rows ct2) /\
              s' = seq_rename new n (seq_remove n s2)).
  { intros d2 s2 ct2 T2 F2 N2 C2 H.
    cbn [exec_seq_all] in H. unfold exec_seq at 1 in H. cbn [fst snd exec] in H.
    destruct (drop_table d2 n) as [d3|] eqn:E3; [|discriminate]. cbn [seq_step] in H.
    unfold drop_table in E3. rewrite T2, F2 in E3.
    destruct (find_ct n (db_tables d)) as [cold|] eqn:EO.
    2:{ rewrite find_ct_app_none in E3 by exact EO. simpl in E3. rewrite N2, NN in E3. discriminate. }
    rewrite (find_ct_app_some _ _ _ _ EO) in E3. inv_ok E3. rewrite (remove_ct_app_some _ _ _ _ EO) in H.
    exists cold. split; [reflexivity|].
    unfold exec_seq at 1 in H. cbn [fst snd exec] in H.
    match type of H with context [rename_table ?D new n] => destruct (rename_table D new n) as [d4|] eqn:E4; [|discriminate] end.
    cbn [seq_step] in H. destruct (exec_seq_all_indexes _ _ _ _ _ n H (addIndexes_all_create _ _ _ EX)) as [C S].
    split; [|exact S]. rewrite C. clear H C S.
    unfold rename_table in E4. cbn [db_tables set_tables] in E4.
    match type of E4 with (match ?Y with _ => _ end) = _ => destruct Y; [|discriminate] end.
    destruct (reserved_name n); [discriminate|].
    match type of E4 with (if ?Y then _ else _) = _ => destruct Y eqn:NU; [discriminate|] end. inv_ok E4. apply name_used_find in NU.
    assert (NU1 : find_ct n (remove_ct n (db_tables d)) = None).
    { destruct (find_ct n (remove_ct n (db_tables d))) eqn:X; [|reflexivity].
      rewrite (find_ct_app_some _ _ _ _ X) in NU. discriminate. }
    assert (NW : find_ct new (remove_ct n (db_tables d)) = None).
    { rewrite find_ct_remove_other; [exact ENU|]. rewrite str_eqb_sym'. exact NN. }
    rewrite content_find. cbn [db_tables set_tables]. rewrite map_app. cbn [map].
    rewrite find_ct_app_none.
    - unfold find_ct. cbn [find].
      change (t_name (ct_t ct2)) with (ct_name ct2). rewrite N2, str_eqb_refl.
      change (ct_name (set_ct_t ct2 (set_t_name (rename_refs new n (ct_t ct2)) n))) with n. rewrite str_eqb_refl.
      cbn [option_map]. unfold content_of. f_equal. f_equal. exact C2.
    - apply (find_ct_map_none n new); [|exact NU1|exact NW].
      intros c1. unfold ct_name, x_name, ct_t. cbn. match goal with |- context [if ?b then _ else _] => destruct b end; reflexivity. }
  destruct prs as [|p prs].
  - (* nothing to copy: no INSERT is planned *)
    inv_ok EI. cbn [app] in HE.
    destruct (STEP (set_tables d (db_tables d ++ [ct])) s ct eq_refl HF (proj1 (str_eqb_eq _ _) CTN) eq_refl HE) as [cold [EO [C S]]].
    exists cold, (ct_t ct). split; [exact ECC|]. split; [exact EO|]. split.
    + split; [reflexivity|]. split; [reflexivity|]. exact EPK.
    + split; [exact C|]. intros _ X. exfalso. apply X. reflexivity.
  - inv_ok EI. set (prs0 := p :: prs) in *. cbn [app map pc_cmd] in HE.
    cbn [exec_seq_all] in HE. unfold exec_seq at 1 in HE. cbn [fst snd exec pc_cmd] in HE.
    match type of HE with context [copy_rows ?D ?A ?B ?C ?E] => destruct (copy_rows D A B C E) as [d2|] eqn:E2; [|discriminate] end.
    unfold copy_rows in E2. cbn [db_tables set_tables] in E2. cbn [t_name newT set_t_name] in E2.
    change (NEW_ ++ t_name (x_t tox)) with new in E2. change (t_name (x_t tox)) with n in E2.
    change (110%N :: 101%N :: 119%N :: 95%N :: n) with new in E2.
    rewrite (find_ct_app_none new _ [ct] ENU) in E2.
    assert (FN : find_ct new [ct] = Some ct) by (unfold find_ct; cbn [find]; rewrite CTN; reflexivity).
    rewrite FN in E2.
    assert (FNn : find_ct n [ct] = None) by (unfold find_ct; cbn [find]; rewrite (proj1 (str_eqb_eq _ _) CTN), NN; reflexivity).
    destruct (find_ct n (db_tables d)) as [cold|] eqn:EO.
    2:{ rewrite find_ct_app_none in E2 by exact EO. rewrite FNn in E2. discriminate. }
    rewrite (find_ct_app_some _ _ _ _ EO) in E2.
    repeat match type of E2 with
           | (match ?Y with _ => _ end) = Ok _ => destruct Y eqn:?; try discriminate
           | (if ?Y then _ else _) = Ok _ => destruct Y eqn:?; try discriminate
           end.
    inv_ok E2. cbn [db_tables set_tables] in HE.
    rewrite (update_ct_app_none new _ _ ct ENU CTN) in HE.
    match type of HE with context [db_tables d ++ [set_ct_rows ct ?R]] => set (ct2 := set_ct_rows ct R) in * end.
    unfold seq_step at 1 in HE. cbn [db_tables set_tables] in HE.
    change (110%N :: 101%N :: 119%N :: 95%N :: t_name (x_t tox)) with new in HE.
    rewrite (find_ct_app_none new _ [ct2] ENU) in HE.
    assert (FN2 : find_ct new [ct2] = Some ct2) by (unfold find_ct; cbn [find]; change (ct_name ct2) with (ct_name ct); rewrite CTN; reflexivity).
    rewrite FN2 in HE.
    match type of HE with context [exec_seq (?D2, ?S2) (SDropTable _)] =>
      destruct (STEP D2 S2 ct2 eq_refl HF (proj1 (str_eqb_eq _ _) CTN) eq_refl HE) as [cold' [EO' [C S]]] end.
    exists cold, (ct_t ct). split; [exact ECC|]. split; [reflexivity|]. split.
    + split; [reflexivity|]. split; [reflexivity|]. exact EPK.
    + split; [exact C|]. intros AI _. rewrite S.
      assert (IA : is_autoinc ct2 = true).
      { unfold is_autoinc. cbn. destruct (x_autoinc tox); [exfalso; apply AI; reflexivity|reflexivity]. }
      rewrite IA. apply seq_after_rebuild. exact NN.
Qed.

(** * 4. the C05 statement for a rebuilt table, on the shared planner and engine *)
(** what a copied row must look like: every paired column holds what its source expression yields on the old
    row (the old value, or the DEFAULT for a NULL under IFNULL), every other stored column its default *)
Definition row_carried (to_cols : list column) (prs : list (str * sexpr)) (r r' : row) : Prop :=
  (forall c e, In (c, e) prs -> row_get r' c = eval_sexpr r e) /\
  (forall col, In col to_cols -> c_gen col = None -> ~ In (c_name col) (map fst prs) ->
               row_get r' (c_name col) = default_of col).

Lemma Forall2_impl' {A B} (P Q : A -> B -> Prop) l l' :
  (forall a b, P a b -> Q a b) -> Forall2 P l l' -> Forall2 Q l l'.
Proof. intros H F. induction F; constructor; auto. Qed.
Lemma Forall2_right {A B} (P : A -> B -> Prop) (Q : B -> Prop) l l' :
  (forall a b, P a b -> Q b) -> Forall2 P l l' -> Forall Q l'.
Proof. intros H F. induction F; constructor; eauto. Qed.

Theorem engine_rebuild_rows from tox cs r sk d s d' s' :
  alterable (x_t tox) cs = false ->
  modifyTable from tox cs = Some (r, sk) ->
  db_fk d = false ->
  NoDup (map c_name (t_cols (x_t tox))) ->
  exec_seq_all (d, s) (map pc_cmd r) = Ok (d', s') ->
  exists prs cold tnew rows',
    copy_cols (t_cols (x_t tox)) cs = Some prs /\
    find_ct (x_name tox) (db_tables d) = Some cold /\
    rebuilt_def tox tnew /\
    content (x_name tox) d' = Some (t_cols (x_t tox), rows') /\
    (prs = [] -> rows' = []) /\
    (prs <> [] ->
       Forall2 (row_carried (t_cols (x_t tox)) prs) (ct_rows cold) rows' /\
       (rowid_alias tnew = None -> map fst rows' = fresh_rowids (length (ct_rows cold))) /\
       (forall c, rowid_alias tnew = Some c ->
          Forall (fun r' => forall z, row_get r' c = VInt z -> fst r' = z) rows') /\
       (x_autoinc tox <> [] ->
          seq_get (x_name tox) s' =
            Some (Z.max (match seq_get (NEW_ ++ x_name tox) s with Some z => z | None => 0%Z end) (max_rowid rows')))).
Proof.
  intros HA HM HF ND HE.
  destruct (rebuild_segment from tox cs r sk d s d' s' HA HM HF HE) as [prs [cold [tnew [E1 [E2 [E3 [E4 E5]]]]]]].
  exists prs, cold, tnew.
  destruct prs as [|p prs].
  - exists []. split; [exact E1|]. split; [exact E2|]. split; [exact E3|]. split; [exact E4|]. split; [intros _; reflexivity|].
    intros X. exfalso. apply X. reflexivity.
  - set (prs0 := p :: prs) in *.
    exists (insert_rows tnew (map fst prs0) (map snd prs0) (ct_rows cold) []).
    split; [exact E1|]. split; [exact E2|]. split; [exact E3|]. split; [exact E4|]. split; [discriminate|]. intros NE.
    destruct (insert_rows_spec tnew (map fst prs0) (map snd prs0) (ct_rows cold) []) as [news [EN FN]].
    cbn [app] in EN. destruct E3 as [TC [TW TP]].
    assert (ND' : NoDup (map c_name (t_cols tnew))) by (rewrite TC; exact ND).
    assert (E1' : copy_cols (t_cols tnew) cs = Some prs0) by (rewrite TC; exact E1).
    split; [|split; [|split]].
    + rewrite EN.
      assert (P1 : forall r0 r1, (exists nx, r1 = new_row tnew (map fst prs0) (map snd prs0) r0 nx) ->
                   row_carried (t_cols (x_t tox)) prs0 r0 r1).
      { intros r0 r1 [nx Hx]. subst r1. split.
        - intros c e Hin. apply (copied_value tnew cs prs0 r0 nx c e E1' ND' Hin).
        - intros col Hc G NI. rewrite <- TC in Hc. apply (unpaired_value tnew cs prs0 r0 nx col E1' ND' Hc G NI). }
      apply (Forall2_impl' _ _ _ _ P1 FN).
    + intros A. apply (insert_rows_fresh tnew _ _ (ct_rows cold) A []). reflexivity.
    + intros c A. rewrite EN.
      assert (P2 : forall r0 r1, (exists nx, r1 = new_row tnew (map fst prs0) (map snd prs0) r0 nx) ->
                   forall z, row_get r1 c = VInt z -> fst r1 = z).
      { intros r0 r1 [nx Hx]. subst r1. intros z Hz. apply (new_row_rowid_alias tnew _ _ r0 nx c z A Hz). }
      apply (Forall2_right _ _ _ _ P2 FN).
    + intros AI. apply E5; [exact AI|discriminate].
Qed.

(** * 5. the declared type of a column the change set does not modify
    [sqlite_type_changed cf col = Some false] is what "the differ reports no type change between the inspected column
    [cf] and the desired column [col]" means (diff.typeChanged: equal Go type class, and for a type name outside the
    catalogue -- sqlite.UserDefinedType -- equal type text). *)
Lemma type_unchanged_spec cf col :
  sqlite_type_changed cf col = Some false ->
  c_class col = c_class cf /\ (c_class cf = UDT_CLASS -> c_T col = c_T cf).
Proof.
  unfold sqlite_type_changed. destruct (N.eqb (c_class cf) 0 || N.eqb (c_class col) 0); [discriminate|].
  destruct (N.eqb (c_class cf) UDT_CLASS) eqn:E; intros H; inversion H as [H1]; clear H.
  - apply orb_false_iff in H1. destruct H1 as [A B]. apply negb_false_iff in A. apply negb_false_iff in B.
    apply N.eqb_eq in A. apply N.eqb_eq in E. apply str_eqb_eq in B. split; [congruence|intros _; symmetry; exact B].
  - apply negb_false_iff in H1. apply N.eqb_eq in H1. split; [symmetry; exact H1|].
    intros X. rewrite X, N.eqb_refl in E. discriminate.
Qed.

(** the rebuilt table declares every column exactly as the desired table does (name, type text, class, nullability,
    default, generation expression: the whole [column] record); so a column whose type the differ found unchanged is
    re-created with the inspected type text when that text is outside the catalogue, and with a type of the same
    class (hence, for the catalogue of sqlite.ParseType, the same affinity) otherwise *)
Theorem engine_untouched_type_text_kept from tox cs r sk d s d' s' cf col :
  alterable (x_t tox) cs = false ->
  modifyTable from tox cs = Some (r, sk) ->
  db_fk d = false ->
  exec_seq_all (d, s) (map pc_cmd r) = Ok (d', s') ->
  In col (t_cols (x_t tox)) ->
  sqlite_type_changed cf col = Some false ->
  exists rows', content (x_name tox) d' = Some (t_cols (x_t tox), rows') /\
    c_class col = c_class cf /\ (c_class cf = UDT_CLASS -> c_T col = c_T cf).
Proof.
  intros HA HM HF HE HI HT.
  destruct (rebuild_segment from tox cs r sk d s d' s' HA HM HF HE) as [prs [cold [tnew [_ [_ [_ [E4 _]]]]]]].
  eexists. split; [exact E4|]. apply type_unchanged_spec. exact HT.
Qed.

(** * 6. the bracket: for ALL schemas and ALL change lists, a plan that contains a DROP TABLE -- every DropTable and
    every rebuild does, whatever the desired schema says about foreign keys -- starts by switching enforcement off and
    ends by switching it on, with no pragma in between *)
Theorem engine_bracket from to cs p :
  PlanChanges from to cs = Some p ->
  existsb is_drop_table (plan_stmts p) = true ->
  exists mid, plan_stmts p = SPragmaFK false :: mid ++ [SPragmaFK true] /\
              forallb (fun s => negb (is_pragma s)) mid = true.
Proof.
  intros HP HD. destruct (plan_fk_bracket from to cs p HP) as [body [sk [E1 [E2 [E3 _]]]]].
  unfold plan_stmts in *. rewrite E1 in *. destruct sk.
  - exists (map pc_cmd body). split; [simpl; rewrite map_app; reflexivity|].
    rewrite forallb_forall in *. intros s Hs. apply in_map_iff in Hs. destruct Hs as [c [<- Hc]]. apply E2. exact Hc.
  - exfalso. specialize (E3 eq_refl). apply existsb_exists in HD. destruct HD as [s [Hs Hd]].
    apply in_map_iff in Hs. destruct Hs as [c [<- Hc]]. rewrite forallb_forall in E3. specialize (E3 c Hc).
    rewrite Hd in E3. discriminate.
Qed.

(** a rebuild always contains the DROP TABLE of the table *)
Lemma rebuild_has_drop from tox cs r sk :
  alterable (x_t tox) cs = false -> modifyTable from tox cs = Some (r, sk) ->
  sk = true /\ In (SDropTable (x_name tox)) (map pc_cmd r).
Proof.
  intros HA HM. unfold modifyTable in HM. rewrite HA in HM.
  destruct (addTable _) as [created|]; [|discriminate]. destruct (copyRows _ _ cs) as [ins|]; [|discriminate].
  destruct (addIndexes _ _) as [idxs|]; [|discriminate]. inv_ok HM. split; [reflexivity|].
  rewrite !map_app. apply in_or_app. right. apply in_or_app. right. left. reflexivity.
Qed.
