(** C03 round 5b: the pointer-based script of Sqlite/ExportRealm.v and the name-based [plan_dump] of
    Sqlite/ExportDump.v (the subject of C03_sql_partial / C03_sql_dump_tables) are the same plan for a schema-bound
    client and one schema whose table names are distinct (what SQLite's catalogue guarantees). *)
From Coq Require Import List NArith Bool Arith Lia.
From Atlas Require Import Base.Bytes Diff.Schema Diff.DiffModel Diff.DiffSqlite Diff.DiffProofs Sqlite.PlanModel
  Sqlite.ExportDump Sqlite.ExportRealm Sqlite.ExportRealmProofs.
Import ListNotations.

Lemma find_xtable_nodup B : NoDup (map x_name B) -> forall x, In x B -> find_xtable (x_name x) B = Some x.
Proof.
  unfold find_xtable. induction B as [|y B IH]; intros Hnd x Hin; [contradiction|].
  cbn [map] in Hnd. inversion Hnd as [|? ? Hnotin Hnd']; subst. cbn [find].
  destruct Hin as [->|Hin].
  - rewrite str_eqb_refl. reflexivity.
  - destruct (str_eqb (x_name y) (x_name x)) eqn:E.
    + apply str_eqb_eq in E. exfalso. apply Hnotin. rewrite E. apply in_map. exact Hin.
    + apply IH; assumption.
Qed.

Lemma plan_loop_realm nm B : NoDup (map x_name B) -> forall B', incl B' B -> forall s,
  plan_loop [] B (changes_to_realm B') s
  = option_map (fun r => mkPS (ps_changes s ++ r) (ps_skipFKs s)) (plan_realm (map (RAddTable nm) B') []).
Proof.
  intros Hnd. induction B' as [|x B' IH]; intros Hin s.
  - cbn. rewrite app_nil_r. destruct s; reflexivity.
  - cbn [changes_to_realm map plan_loop plan_realm].
    rewrite (find_xtable_nodup B Hnd x (Hin x (or_introl eq_refl))).
    destruct (addTable x) as [r|]; [|reflexivity].
    change (map (fun x0 => AddTable (x_name x0)) B') with (changes_to_realm B').
    rewrite IH by (intros y Hy; apply Hin; right; exact Hy).
    rewrite (plan_realm_acc _ ([] ++ r)). cbn [app].
    destruct (plan_realm (map (RAddTable nm) B') []) as [q|]; cbn [option_map]; [|reflexivity].
    unfold ps_append. cbn [ps_changes ps_skipFKs]. rewrite <- app_assoc. reflexivity.
Qed.

Theorem sqlInspect_is_plan_dump nm B : NoDup (map x_name B) ->
  sqlInspect true [mkRS nm B] = option_map p_changes (plan_dump B).
Proof.
  intro Hnd. unfold sqlInspect, ChangesToRealm, plan_dump, PlanChanges. cbn [flat_map rs_name rs_tables app]. rewrite app_nil_r.
  rewrite (plan_loop_realm nm B Hnd B (incl_refl B)). cbn [ps_changes ps_skipFKs app].
  destruct (plan_realm (map (RAddTable nm) B) []) as [q|]; reflexivity.
Qed.
