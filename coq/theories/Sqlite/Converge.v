(** C01: the whole run -- SchemaDiff, PlanChanges and the execution of the plan by the abstract
    engine, composed over all tables; the second diff is empty. *)
From Coq Require Import List NArith ZArith Bool Arith Lia Permutation.
From Atlas Require Import Base.Bytes Diff.Schema Diff.DiffModel Diff.DiffSqlite Diff.DiffProofs Diff.DiffSqliteProofs
  Sqlite.PlanModel Sqlite.EngineModel Sqlite.InspectModel Sqlite.ConvergeDefs Sqlite.ConvergeTable Sqlite.ConvergeEngine
  Sqlite.ConvergePlan Sqlite.ConvergeAlter Sqlite.ConvergeNames Sqlite.ConvergeCopy Sqlite.ConvergeStep.
Import ListNotations.

Lemma plan_loop_app from to l1 l2 s :
  plan_loop from to (l1 ++ l2) s =
  match plan_loop from to l1 s with Some s' => plan_loop from to l2 s' | None => None end.
Proof.
  revert s. induction l1 as [|c l1 IH]; intros s; [reflexivity|]. cbn [app plan_loop].
  match goal with |- match ?X with _ => _ end = _ => destruct X as [s'|] end; [apply IH|reflexivity].
Qed.

Lemma find_table_map n (l : xschema) : find_table n (map x_t l) = option_map x_t (find_xtable n l).
Proof.
  unfold find_table, find_xtable. induction l as [|x l IH]; simpl; [reflexivity|].
  unfold x_name. destruct (str_eqb (t_name (x_t x)) n); [reflexivity|exact IH].
Qed.

Lemma diff_add_shape_gen nm (A B : xschema) :
  schema_diff_add no_skip (schema_of nm A) (schema_of nm B) =
  map (fun bx => AddTable (x_name bx))
      (filter (fun bx => match find_table (x_name bx) (map x_t A) with None => true | Some _ => false end) B).
Proof.
  unfold schema_diff_add. rewrite add_or_skip_s_no_skip. cbn [s_tables schema_of].
  induction B as [|bx l IH]; [reflexivity|]. cbn [map flat_map filter].
  change (t_name (x_t bx)) with (x_name bx).
  destruct (find_table (x_name bx) (map x_t A)); [exact IH|]. cbn [map app]. f_equal. exact IH.
Qed.

Section Run.
Variable nm : str.
Variable d0 : db.
Variable B : xschema.
Hypothesis DOK : db_ok d0.
Hypothesis BOK : forall bx, In bx B -> desired_ok bx.
Hypothesis CP : compatible d0 B.

Let T0 := db_tables d0.
Let A := inspect d0.

(** the diff of a current table with its desired table is defined *)
Lemma tdiff_some c bx : In c T0 -> In bx B -> tdiff (x_t (inspect_table c)) (x_t bx) <> None.
Proof.
  intros Hc Hb. rewrite tdiff_parts.
  rewrite (normalize_idxs_stable _ _ (no_auto_norm_stable _ (do_noauto bx (BOK bx Hb)))).
  destruct (col_dm (t_cols (x_t (inspect_table c))) (t_cols (x_t bx))) as [dm|] eqn:E; [discriminate|].
  exfalso. revert E. unfold col_dm.
  assert (G := dk_good d0 DOK c Hc).
  destruct (inspect_table_fields c (g_uniq c G)) as [_ [_ [_ [A4 _]]]]. rewrite A4.
  assert (CL : forall col, In col (t_cols (ct_t c)) -> c_class col <> 0%N) by (intros col; apply (dk_class d0 DOK c col Hc)).
  destruct (desired_cols bx (BOK bx Hb)) as [_ [_ CB]].
  revert CL. generalize (t_cols (ct_t c)). intros l.
  induction l as [|c1 l IH]; intros CL; cbn [map column_diff_drop_modify]; [discriminate|].
  cbn [t_cols tcols]. destruct (find_col (c_name (inspect_column c1)) (t_cols (x_t bx))) as [c2|] eqn:F.
  - cbn [dd_column_change sqlite_driver].
    destruct (sqlite_column_change tnil (inspect_column c1) c2) as [k|] eqn:K.
    + destruct (column_diff_drop_modify sqlite_driver tnil (tcols (t_cols (x_t bx))) (map inspect_column l)) eqn:R; [discriminate|].
      intros _. apply IH; [intros col Hcol; apply CL; right; exact Hcol|reflexivity].
    + exfalso. revert K. apply sqlite_column_change_typed.
      * simpl. apply CL. left. reflexivity.
      * apply CB. apply kfind_some_in in F. tauto.
  - destruct (column_diff_drop_modify sqlite_driver tnil (tcols (t_cols (x_t bx))) (map inspect_column l)) eqn:R; [discriminate|].
    intros _. apply IH; [intros col Hcol; apply CL; right; exact Hcol|reflexivity].
Qed.

(** the changes of one current table *)
Definition chs_of (c : ctable) : list schange :=
  match find_xtable (ct_name c) B with
  | None => [DropTable (ct_name c)]
  | Some bx => match tdiff (x_t (inspect_table c)) (x_t bx) with
               | Some (c0 :: cs) => [ModifyTable (x_name bx) (c0 :: cs)]
               | _ => []
               end
  end.

Definition skips (c : ctable) : bool :=
  match find_xtable (ct_name c) B with
  | None => true
  | Some bx => match tdiff (x_t (inspect_table c)) (x_t bx) with
               | Some (c0 :: cs) => negb (alterable (x_t bx) (c0 :: cs))
               | _ => false
               end
  end.

Lemma find_xtable_in n bx : find_xtable n B = Some bx -> In bx B /\ x_name bx = n.
Proof. intros H. apply (kfind_some_in x_name) in H. exact H. Qed.

Lemma diff_from_shape l :
  incl l T0 ->
  schema_diff_from sqlite_driver no_skip (schema_of nm B) (map x_t (map inspect_table l)) = Some (flat_map chs_of l).
Proof.
  induction l as [|c l IH]; intros L; [reflexivity|].
  assert (Hc : In c T0) by (apply L; left; reflexivity).
  cbn [map schema_diff_from flat_map]. rewrite IH; [|intros x Hx; apply L; right; exact Hx].
  cbn [s_tables schema_of]. rewrite find_table_map.
  change (t_name (x_t (inspect_table c))) with (ct_name c).
  unfold chs_of. destruct (find_xtable (ct_name c) B) as [bx|] eqn:F; cbn [option_map].
  - destruct (find_xtable_in _ _ F) as [Hb Hn].
    change (table_diff sqlite_driver no_skip (x_t (inspect_table c)) (x_t bx)) with (tdiff (x_t (inspect_table c)) (x_t bx)).
    destruct (tdiff (x_t (inspect_table c)) (x_t bx)) as [[|c0 cs]|] eqn:D.
    + reflexivity.
    + rewrite add_or_skip_s_no_skip. reflexivity.
    + exfalso. exact (tdiff_some c bx Hc Hb D).
  - rewrite add_or_skip_s_no_skip. reflexivity.
Qed.

(** *** phase 1: the current tables *)
Lemma phase1 : forall l T dcur s,
  inv B l T -> incl l T0 -> NoDup (map ct_name l) -> db_tables dcur = T ->
  (existsb skips l = true -> db_fk dcur = false) ->
  exists pcs T',
    plan_loop A B (flat_map chs_of l) s = Some (mkPS (ps_changes s ++ pcs) (ps_skipFKs s || existsb skips l)) /\
    exec_all dcur (map pc_cmd pcs) = Ok (set_tables dcur T') /\ inv B [] T' /\
    (forall bx, In bx B -> In (x_name bx) (map ct_name l) -> exists c', In c' T' /\ ct_name c' = x_name bx) /\
    (forall c2, In c2 T -> ~ In (ct_name c2) (map ct_name l) -> exists c3, In c3 T' /\ ct_name c3 = ct_name c2) /\
    (forall c3, In c3 T' -> exists c2, In c2 T /\ ct_name c2 = ct_name c3).
Proof.
  induction l as [|c l IH]; intros T dcur s I L NDL HT FK.
  - exists [], T. cbn. rewrite app_nil_r, orb_false_r.
    refine (conj _ (conj _ (conj _ (conj _ (conj _ _))))).
    + destruct s; reflexivity.
    + rewrite <- HT. destruct dcur; reflexivity.
    + exact I.
    + intros bx _ [].
    + intros c2 H2 _. exists c2. split; [exact H2|reflexivity].
    + intros c3 H3. exists c3. split; [exact H3|reflexivity].
  - assert (Hc0 : In c T0) by (apply L; left; reflexivity).
    (* one step *)
    assert (STEP : exists pcs1 T1,
              plan_loop A B (chs_of c) s = Some (mkPS (ps_changes s ++ pcs1) (ps_skipFKs s || skips c)) /\
              step_post B c l T dcur pcs1 T1).
    { unfold chs_of, skips. destruct (find_xtable (ct_name c) B) as [bx|] eqn:F.
      - destruct (find_xtable_in _ _ F) as [Hb Hn].
        destruct (tdiff (x_t (inspect_table c)) (x_t bx)) as [[|c1 cs]|] eqn:D.
        + exists [], T. split; [cbn; rewrite app_nil_r, orb_false_r; destruct s; reflexivity|].
          apply (step_same d0 B DOK BOK c l T dcur bx); assumption.
        + destruct (alterable (x_t bx) (c1 :: cs)) eqn:AL.
          * destruct (step_alter d0 B DOK BOK CP c l T dcur s bx (c1 :: cs) I L NDL HT Hb Hn D AL) as [pcs [T1 [P S]]].
            exists pcs, T1. split; [|exact S]. cbn [negb]. rewrite orb_false_r. exact P.
          * assert (FKoff : db_fk dcur = false).
            { apply FK. cbn [existsb]. unfold skips. rewrite F, D, AL. reflexivity. }
            destruct (step_rebuild d0 B DOK BOK CP c l T dcur s bx (c1 :: cs) I L NDL HT FKoff Hb Hn D AL) as [pcs [T1 [P S]]].
            exists pcs, T1. split; [|exact S]. cbn [negb]. rewrite orb_true_r. exact P.
        + exfalso. exact (tdiff_some c bx Hc0 Hb D).
      - assert (FKoff : db_fk dcur = false).
        { apply FK. cbn [existsb]. unfold skips. rewrite F. reflexivity. }
        destruct (step_drop d0 B DOK CP c l T dcur s I L NDL HT FKoff F) as [pcs [T1 [P S]]].
        exists pcs, T1. split; [|exact S]. rewrite orb_true_r. exact P. }
    destruct STEP as [pcs1 [T1 [P1 [EX1 [I1 [Q3 [Q4 Q5]]]]]]].
    inversion NDL as [|x xs Hx Hxs]; subst.
    set (d1 := set_tables dcur T1).
    destruct (IH T1 d1 (mkPS (ps_changes s ++ pcs1) (ps_skipFKs s || skips c)) I1) as [pcs2 [T2 [P2 [EX2 [I2 [R3 [R4 R5]]]]]]].
    + intros y Hy. apply L. right. exact Hy.
    + exact Hxs.
    + reflexivity.
    + intros E. unfold d1. simpl. apply FK. cbn [existsb]. rewrite E. apply orb_true_r.
    + exists (pcs1 ++ pcs2), T2. refine (conj _ (conj _ (conj _ (conj _ (conj _ _))))).
      * cbn [flat_map]. rewrite plan_loop_app, P1, P2. cbn [ps_changes ps_skipFKs existsb].
        rewrite app_assoc, orb_assoc. reflexivity.
      * rewrite map_app, exec_all_app, EX1. fold d1. rewrite EX2. unfold d1. destruct dcur; reflexivity.
      * exact I2.
      * intros bx Hb [E|Hin].
        -- destruct (Q3 bx Hb (eq_sym E)) as [c' [Hc' En]]. destruct (R4 c' Hc') as [c3 [H3 E3]].
           ++ rewrite En, <- E. exact Hx.
           ++ exists c3. split; [exact H3|congruence].
        -- apply R3; assumption.
      * intros c2 H2 Hn. destruct (Q4 c2 H2) as [c3 [H3 E3]]; [intros E; apply Hn; left; symmetry; exact E|].
        destruct (R4 c3 H3) as [c4 [H4 E4]]; [rewrite E3; intros X; apply Hn; right; exact X|].
        exists c4. split; [exact H4|congruence].
      * intros c3 H3. destruct (R5 c3 H3) as [c2 [H2 E2]]. destruct (Q5 c2 H2) as [c1 [H1 E1]].
        exists c1. split; [exact H1|congruence].
Qed.

(** *** phase 2: the desired tables that are not in the database *)
Lemma phase2 : forall la T dcur s,
  inv B [] T -> db_tables dcur = T -> incl la B -> NoDup (map x_name la) ->
  (forall bx c', In bx la -> In c' T -> ct_name c' <> x_name bx) ->
  exists pcs T',
    plan_loop A B (map (fun bx => AddTable (x_name bx)) la) s = Some (mkPS (ps_changes s ++ pcs) (ps_skipFKs s)) /\
    exec_all dcur (map pc_cmd pcs) = Ok (set_tables dcur T') /\ inv B [] T' /\
    (forall bx, In bx la -> exists c', In c' T' /\ ct_name c' = x_name bx) /\
    (forall c2, In c2 T -> In c2 T').
Proof.
  induction la as [|bx la IH]; intros T dcur s I HT L ND HNEW.
  - exists [], T. cbn. rewrite app_nil_r. refine (conj _ (conj _ (conj _ (conj _ _)))).
    + destruct s; reflexivity.
    + rewrite <- HT. destruct dcur; reflexivity.
    + exact I.
    + intros bx [].
    + intros c2 H2. exact H2.
  - assert (Hb : In bx B) by (apply L; left; reflexivity).
    destruct (step_add d0 B BOK CP T dcur s bx I HT Hb) as [pcs1 [T1 [P1 [EX1 [I1 [[c1 [Hc1 En1]] [K1 K2]]]]]]].
    { intros c' Hc'. apply (HNEW bx c'); [left; reflexivity|exact Hc']. }
    inversion ND as [|x xs Hx Hxs]; subst.
    set (d1 := set_tables dcur T1).
    destruct (IH T1 d1 (mkPS (ps_changes s ++ pcs1) (ps_skipFKs s)) I1) as [pcs2 [T2 [P2 [EX2 [I2 [R1 R2]]]]]].
    + reflexivity.
    + intros y Hy. apply L. right. exact Hy.
    + exact Hxs.
    + intros bx' c' Hb' Hc'. destruct (K2 c' Hc') as [H|H].
      * apply (HNEW bx' c'); [right; exact Hb'|exact H].
      * rewrite H. intros E. apply Hx. rewrite E. apply in_map. exact Hb'.
    + exists (pcs1 ++ pcs2), T2. refine (conj _ (conj _ (conj _ (conj _ _)))).
      * cbn [map]. change (AddTable (x_name bx) :: map (fun bx0 => AddTable (x_name bx0)) la)
          with ([AddTable (x_name bx)] ++ map (fun bx0 => AddTable (x_name bx0)) la).
        unfold A in *. rewrite plan_loop_app, P1, P2. cbn [ps_changes ps_skipFKs]. rewrite app_assoc. reflexivity.
      * rewrite map_app, exec_all_app, EX1. fold d1. rewrite EX2. unfold d1. destruct dcur; reflexivity.
      * exact I2.
      * intros bx' [<-|Hb']; [exists c1; split; [apply R2; exact Hc1|exact En1]|apply R1; exact Hb'].
      * intros c2 H2. apply R2. apply K1. exact H2.
Qed.

(** the AddTable changes of the diff *)
Definition new_tables : xschema :=
  filter (fun bx => match find_table (x_name bx) (map x_t A) with None => true | Some _ => false end) B.

Lemma diff_add_shape :
  schema_diff_add no_skip (schema_of nm A) (schema_of nm B) = map (fun bx => AddTable (x_name bx)) new_tables.
Proof. apply diff_add_shape_gen. Qed.

(** * the theorem *)
Theorem converges :
  exists p d', diff_and_plan nm (inspect d0) B = Some p /\ exec_all d0 (plan_stmts p) = Ok d' /\ synced nm d' B.
Proof.
  assert (NDT0 : NoDup (map ct_name T0)) by (apply all_names_NoDup_tables; apply (dk_names d0 DOK)).
  (* the diff *)
  assert (DIFF : sqlite_schema_diff no_skip (schema_of nm A) (schema_of nm B)
                 = Some (flat_map chs_of T0 ++ map (fun bx => AddTable (x_name bx)) new_tables)).
  { unfold sqlite_schema_diff, SchemaDiff. cbn [s_name schema_of]. rewrite str_eqb_refl. cbn [negb].
    rewrite diff_add_shape.
    change (s_tables (schema_of nm A)) with (map x_t (map inspect_table T0)).
    rewrite (diff_from_shape T0 (incl_refl _)). reflexivity. }
  (* the initial invariant *)
  assert (I0 : inv B T0 T0).
  { constructor.
    - apply (dk_names d0 DOK).
    - intros c Hc. exact Hc.
    - intros c Hc. left. exact Hc.
    - intros c bx Hc Hb. destruct (cp_new d0 B CP bx Hb) as [_ [_ [M3 _]]]. apply M3. exact Hc. }
  set (sk := existsb skips T0).
  (* the database the groups run on: after PRAGMA foreign_keys = off when the plan has it *)
  set (d1 := if sk then mkDB T0 false (db_tx d0) else d0).
  assert (HT1 : db_tables d1 = T0) by (unfold d1; destruct sk; reflexivity).
  assert (FK1 : sk = true -> db_fk d1 = false) by (unfold d1; intros E; rewrite E; reflexivity).
  destruct (phase1 T0 T0 d1 (mkPS [] false) I0 (incl_refl _) NDT0 HT1 FK1) as [pcs1 [T1 [P1 [EX1 [I1 [Q1 [Q2 Q3]]]]]]].
  fold sk in P1. cbn [ps_changes ps_skipFKs app orb] in P1.
  set (d2 := set_tables d1 T1).
  destruct (phase2 new_tables T1 d2 (mkPS pcs1 sk) I1 eq_refl) as [pcs2 [T2 [P2 [EX2 [I2 [R1 R2]]]]]].
  { intros bx Hbx. unfold new_tables in Hbx. apply filter_In in Hbx. tauto. }
  { apply (NoDup_map_filter x_name). apply (NoDup_B_names d0 B CP). }
  { intros bx c' Hbx Hc' E. unfold new_tables in Hbx. apply filter_In in Hbx. destruct Hbx as [Hb Hnone].
    destruct (Q3 c' Hc') as [c2 [H2 E2]].
    assert (X : find_table (x_name bx) (map x_t A) <> None).
    { rewrite find_table_map. rewrite <- E, <- E2. unfold A. rewrite (find_xtable_A d0 DOK c2 H2). discriminate. }
    destruct (find_table (x_name bx) (map x_t A)); [discriminate|congruence]. }
  cbn [ps_changes ps_skipFKs] in P2.
  (* the plan *)
  assert (PLAN : PlanChanges A B (flat_map chs_of T0 ++ map (fun bx => AddTable (x_name bx)) new_tables)
                 = Some (mkPlan (if sk then mkPC (SPragmaFK false) [] CmFKOff :: (pcs1 ++ pcs2) ++ [mkPC (SPragmaFK true) [] CmFKOn]
                                 else pcs1 ++ pcs2) (set_reversible (pcs1 ++ pcs2)) true)).
  { unfold PlanChanges. rewrite plan_loop_app, P1, P2. reflexivity. }
  eexists. exists (if sk then mkDB T2 true (db_tx d0) else set_tables d0 T2).
  split; [unfold diff_and_plan; fold A; rewrite DIFF; exact PLAN|].
  assert (RUN : exec_all d1 (map pc_cmd (pcs1 ++ pcs2)) = Ok (set_tables d1 T2)).
  { rewrite map_app, exec_all_app, EX1. fold d2. rewrite EX2. unfold d2. destruct d1; reflexivity. }
  split.
  - unfold plan_stmts. cbn [p_changes]. destruct sk eqn:SK.
    + cbn [map pc_cmd exec_all exec]. rewrite (dk_tx d0 DOK). rewrite map_app, exec_all_app.
      unfold d1 in RUN. rewrite (dk_tx d0 DOK) in RUN. fold T0. rewrite RUN.
      reflexivity.
    + unfold d1 in RUN. exact RUN.
  - (* the second diff *)
    unfold synced, sqlite_schema_diff, inspect_schema.
    assert (TBL : db_tables (if sk then mkDB T2 true (db_tx d0) else set_tables d0 T2) = T2) by (destruct sk; reflexivity).
    apply schema_diff_nil.
    + reflexivity.
    + cbn [s_tables schema_of]. unfold inspect. rewrite TBL. intros t Ht.
      apply in_map_iff in Ht. destruct Ht as [x [Ex Hx]]. apply in_map_iff in Hx. destruct Hx as [c [Ec Hc]]. subst x t.
      destruct (iv_all B [] T2 I2 c Hc) as [[]|[bx [Hb [Hn [SY _]]]]].
      exists (x_t bx). split; [|exact SY]. rewrite find_table_map.
      change (t_name (x_t (inspect_table c))) with (ct_name c). rewrite Hn, (find_xtable_B d0 B CP bx Hb). reflexivity.
    + cbn [s_tables schema_of]. unfold inspect. rewrite TBL. intros t2 Ht2.
      apply in_map_iff in Ht2. destruct Ht2 as [bx [Eb Hb]]. subst t2.
      assert (EX : exists c', In c' T2 /\ ct_name c' = x_name bx).
      { destruct (find_table (x_name bx) (map x_t A)) as [ta|] eqn:FA.
        - rewrite find_table_map in FA. destruct (find_xtable (x_name bx) A) as [xa|] eqn:FX; [|discriminate].
          apply (kfind_some_in x_name) in FX. destruct FX as [FX1 FX2]. unfold A, inspect in FX1.
          apply in_map_iff in FX1. destruct FX1 as [c0 [E0 Hc0]]. subst xa.
          destruct (Q1 bx Hb) as [c' [Hc' En]].
          { rewrite <- FX2. apply in_map_iff. exists c0. split; [reflexivity|exact Hc0]. }
          exists c'. split; [apply R2; exact Hc'|exact En].
        - apply R1. unfold new_tables. apply filter_In. split; [exact Hb|]. rewrite FA. reflexivity. }
      destruct EX as [c' [Hc' En]]. rewrite find_table_map.
      change (t_name (x_t bx)) with (x_name bx).
      assert (Y : find_xtable (x_name bx) (map inspect_table T2) <> None).
      { rewrite <- En. change (ct_name c') with (x_name (inspect_table c')). apply (kfind_in_some x_name). apply in_map. exact Hc'. }
      destruct (find_xtable (x_name bx) (map inspect_table T2)); [discriminate|congruence].
Qed.

End Run.
