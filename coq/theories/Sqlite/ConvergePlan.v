(** C01: what the planner emits for one table change, as statement lists (planner side of the
    convergence proof).  Desired tables carry no autoindex-named indexes here, so
    [normalizeIdxName] is the identity. *)
From Coq Require Import List NArith ZArith Bool Arith Lia.
From Atlas Require Import Base.Bytes Diff.Schema Diff.DiffModel Diff.DiffSqlite Diff.DiffProofs Diff.DiffSqliteProofs
  Sqlite.PlanModel Sqlite.EngineModel Sqlite.InspectModel Sqlite.ConvergeDefs Sqlite.ConvergeTable Sqlite.ConvergeEngine.
Import ListNotations.

Definition no_auto_names (l : list index) : Prop :=
  forall i, In i l -> has_prefix SQLITE_AUTOINDEX (i_name i) = None.

Lemma no_auto_norm_stable l : no_auto_names l -> idx_norm_stable l.
Proof. intros H i Hi. left. apply H. exact Hi. Qed.

Lemma normalize_idx_name_id i t : has_prefix SQLITE_AUTOINDEX (i_name i) = None -> normalize_idx_name i t = Some i.
Proof. intros H. unfold normalize_idx_name. rewrite H. reflexivity. Qed.

Definition create_idx_pc (tn : str) (i : index) : pchange :=
  mkPC (SCreateIndex tn i) [SDropIndex (i_name i)] CmCreateIndex.

Lemma addIndexes_id t l : no_auto_names l -> addIndexes t l = Some (map (create_idx_pc (t_name t)) l).
Proof.
  induction l as [|i l IH]; intros H; simpl; [reflexivity|].
  rewrite (normalize_idx_name_id i t (H i (or_introl eq_refl))).
  rewrite IH; [reflexivity|]. intros j Hj. apply H. right. exact Hj.
Qed.

Lemma dropIndexes_id t l :
  no_auto_names l -> dropIndexes t l = Some (map (fun i => mkPC (SDropIndex (i_name i)) [SCreateIndex (t_name t) i] CmDropIndex) l).
Proof.
  intros H. unfold dropIndexes. rewrite (addIndexes_id t l H). f_equal. rewrite map_map. reflexivity.
Qed.

Lemma set_x_t_id x : set_x_t x (x_t x) = x.
Proof. destruct x. reflexivity. Qed.

Lemma normalized_to_id bx : no_auto_names (t_idx (x_t bx)) -> normalized_to bx = Some bx.
Proof.
  intros H. unfold normalized_to. rewrite (normalize_idxs_stable _ _ (no_auto_norm_stable _ H)).
  rewrite set_t_idx_id, set_x_t_id. reflexivity.
Qed.

(** ** addTable / dropTable *)
Lemma addTable_stmts bx :
  forallb (column_ok bx) (t_cols (x_t bx)) = true -> no_auto_names (t_idx (x_t bx)) ->
  exists pcs, addTable bx = Some pcs /\
    map pc_cmd pcs = SCreateTable (strip_idx bx) [] :: map (SCreateIndex (x_name bx)) (t_idx (x_t bx)).
Proof.
  intros HC HN. unfold addTable. rewrite HC. simpl. rewrite (addIndexes_id _ _ HN).
  eexists. split; [reflexivity|]. simpl. f_equal. rewrite map_map. reflexivity.
Qed.

(** ** alterTable on the three homogeneous phases *)
Lemma alterTable_app from tox l1 l2 :
  alterTable from tox (l1 ++ l2) =
  match alterTable from tox l1, alterTable from tox l2 with
  | Some a, Some b => Some (a ++ b)
  | _, _ => None
  end.
Proof.
  induction l1 as [|c l1 IH]; simpl.
  - destruct (alterTable from tox l2); reflexivity.
  - rewrite IH.
    match goal with |- context[match ?H with Some a => _ | None => None end] => destruct H as [h|] end;
      [|reflexivity].
    destruct (alterTable from tox l1) as [a|]; [|reflexivity].
    destruct (alterTable from tox l2) as [b|]; [|reflexivity].
    rewrite app_assoc. reflexivity.
Qed.

Lemma flat_map_filter_map {A B} (p : A -> bool) (f : A -> B) l :
  flat_map (fun x => if p x then [f x] else []) l = map f (filter p l).
Proof. induction l as [|a l IH]; simpl; [reflexivity|]. destruct (p a); simpl; rewrite IH; reflexivity. Qed.

Lemma kfind_nodup {A} (key : A -> str) l x : NoDup (map key l) -> In x l -> kfind key (key x) l = Some x.
Proof.
  intros ND Hin. apply kfind_unique; [exact Hin|]. intros y Hy E. eapply NoDup_map_inj; eauto.
Qed.

Lemma find_col_nodup l c : NoDup (map c_name l) -> In c l -> find_col (c_name c) l = Some c.
Proof. apply (kfind_nodup c_name). Qed.

Lemma find_idx_nodup l i : NoDup (map i_name l) -> In i l -> exists k, find_idx (i_name i) l = Some (k, i).
Proof. intros ND Hin. apply find_idx_some. apply (kfind_nodup i_name); assumption. Qed.

Definition add_col_pc (tox : xtable) (c : column) : pchange :=
  mkPC (SAddColumn (x_name tox) c (has_autoinc tox (c_name c))) [SDropColumn (x_name tox) (c_name c)] CmAddColumn.

Lemma alter_cols from tox l :
  NoDup (map c_name (t_cols (x_t tox))) -> incl l (t_cols (x_t tox)) ->
  (forall c, In c l -> column_ok tox c = true) ->
  alterTable from tox (map (fun c => AddColumn (c_name c)) l) = Some (map (add_col_pc tox) l).
Proof.
  intros ND. induction l as [|c l IH]; intros Hincl HC; simpl; [reflexivity|].
  rewrite (find_col_nodup _ c ND (Hincl c (or_introl eq_refl))).
  rewrite (HC c (or_introl eq_refl)).
  rewrite IH; [reflexivity| |].
  - intros x Hx. apply Hincl. right. exact Hx.
  - intros x Hx. apply HC. right. exact Hx.
Qed.

Lemma alter_drops from tox l :
  NoDup (map i_name (t_idx from)) -> incl l (t_idx from) -> no_auto_names l ->
  alterTable from tox (map (fun i => DropIndex (i_name i)) l)
  = Some (map (fun i => mkPC (SDropIndex (i_name i)) [SCreateIndex (x_name tox) i] CmDropIndex) l).
Proof.
  intros ND. induction l as [|i l IH]; intros Hincl HA; simpl; [reflexivity|].
  destruct (find_idx_nodup _ i ND (Hincl i (or_introl eq_refl))) as [k Fk]. rewrite Fk.
  rewrite (dropIndexes_id (x_t tox) [i]).
  - rewrite IH; [reflexivity| |].
    + intros x Hx. apply Hincl. right. exact Hx.
    + intros x Hx. apply HA. right. exact Hx.
  - intros x [<-|[]]. apply HA. left. reflexivity.
Qed.

Lemma alter_adds from tox l :
  NoDup (map i_name (t_idx (x_t tox))) -> incl l (t_idx (x_t tox)) -> no_auto_names l ->
  alterTable from tox (map (fun i => AddIndex (i_name i)) l) = Some (map (create_idx_pc (x_name tox)) l).
Proof.
  intros ND. induction l as [|i l IH]; intros Hincl HA; simpl; [reflexivity|].
  destruct (find_idx_nodup _ i ND (Hincl i (or_introl eq_refl))) as [k Fk]. rewrite Fk.
  rewrite (normalize_idx_name_id i (x_t tox) (HA i (or_introl eq_refl))).
  rewrite IH; [reflexivity| |].
  - intros x Hx. apply Hincl. right. exact Hx.
  - intros x Hx. apply HA. right. exact Hx.
Qed.

(** the three lists an ALTER-able diff consists of *)
Definition added_cols (acols bcols : list column) : list column :=
  filter (fun cb => match find_col (c_name cb) acols with None => true | Some _ => false end) bcols.
Definition dropped_idx (aidx bidx : list index) : list index :=
  filter (fun ia => match kfind i_name (i_name ia) bidx with None => true | Some _ => false end) aidx.
Definition added_idx (aidx bidx : list index) : list index :=
  filter (fun ib => match kfind i_name (i_name ib) aidx with None => true | Some _ => false end) bidx.

Lemma col_add_as_map acols bcols :
  col_add acols bcols = map (fun c => AddColumn (c_name c)) (added_cols acols bcols).
Proof.
  unfold col_add, added_cols. rewrite <- flat_map_filter_map. apply flat_map_ext. intros c.
  destruct (find_col (c_name c) acols); reflexivity.
Qed.

Lemma idx_add_as_map aidx bidx :
  flat_map (idx_add_of aidx) bidx = map (fun i => AddIndex (i_name i)) (added_idx aidx bidx).
Proof.
  unfold added_idx. rewrite <- flat_map_filter_map. apply flat_map_ext. intros i. unfold idx_add_of.
  destruct (kfind i_name (i_name i) aidx); reflexivity.
Qed.

Lemma idx_dm_as_map a b :
  alter_facts a b ->
  flat_map (idx_dm_of (t_idx b)) (t_idx a) = map (fun i => DropIndex (i_name i)) (dropped_idx (t_idx a) (t_idx b)).
Proof.
  intros AF. unfold dropped_idx. rewrite <- flat_map_filter_map.
  apply DiffProofs.flat_map_ext_in. intros i Hi. unfold idx_dm_of.
  destruct (kfind i_name (i_name i) (t_idx b)) as [ib|] eqn:F; [|reflexivity].
  cbv zeta. rewrite (af_idx a b AF i Hi ib F). reflexivity.
Qed.
