(** C03 round 5b: the CREATE TABLE text with PlanOptions.Indent set -- `schema inspect --format '{{ sql . "  " }}'`
    (cmdlog.sqlInspect(report, indent) -> fmtPlan: o.Indent = indent[0]) and `migrate diff --format '{{ sql . "  " }}'`.
    sqlx.Builder: NL (a new line replaces a trailing blank, then Indent x level), IndentIn/IndentOut,
    MapIndent = MapComma with NL before each element, WrapIndent = Wrap(IndentIn; f; IndentOut; NL).
    sqlite/migrate.go addTable: columns by MapIndent; `Comma().NL().P("PRIMARY KEY")`; `Comma()` then fks by
    MapIndent; `Comma().NL()` before each CHECK; everything inside WrapIndent (level 1); CREATE INDEX has no
    indentation.  With an empty indent NL writes nothing and the text is [ExportPrint.print_table].  No proofs here. *)
From Coq Require Import List NArith Bool Arith.
From Atlas Require Import Base.Bytes Diff.Schema Diff.DiffSqlite Sqlite.PlanModel Sqlite.ExportModel Sqlite.ExportPrint.
Import ListNotations.
Local Open Scope N_scope.

Fixpoint repeat_bytes (ind : bytes) (level : nat) : bytes :=
  match level with O => [] | S l => ind ++ repeat_bytes ind l end.
(** Builder.NL at indentation level [level] *)
Definition bNL (ind : bytes) (level : nat) (b : bytes) : bytes :=
  match ind with
  | [] => b
  | _ => (if N.eqb (last_byte b) 32 then removelast b ++ [ch_nl] else b ++ [ch_nl]) ++ repeat_bytes ind level
  end.

Section Indent.
Variable ind : bytes.

Fixpoint p_columns_ind (x : xtable) (b : bytes) (first : bool) (cs : list column) : option bytes :=
  match cs with
  | [] => Some b
  | c :: cs' => match p_column x (bNL ind 1 (if first then b else bComma b)) c with
                | Some b' => p_columns_ind x b' false cs'
                | None => None
                end
  end.

Definition print_body_ind (x : xtable) : option bytes :=
  let t := x_t x in
  let b0 := bIdent (bP [] [W_CREATE_TABLE]) (t_name t) ++ [ch_lp] in
  match p_columns_ind x b0 true (t_cols t) with
  | None => None
  | Some b1 =>
      let b2 := match t_pk t with
                | Some pk => if autoincPK x pk then b1 else p_parts (bP (bNL ind 1 (bComma b1)) [W_PRIMARY_KEY]) (i_parts pk)
                | None => b1
                end in
      Some (match t_fks t with
            | [] => b2
            | fks => bMapComma (bComma b2) true fks (fun b f => p_fk (bNL ind 1 b) f)
            end)
  end.
Definition print_table_ind (x : xtable) : option bytes :=
  match print_body_ind x with
  | None => None
  | Some b3 =>
      let b4 := fold_left (fun b k => p_check (bNL ind 1 (bComma b)) k) (t_checks (x_t x)) b3 in
      Some (bString (bMapComma (bClose (bNL ind 0 b4)) true (table_opts (x_t x)) (fun b o => bP b [o])))
  end.
End Indent.
