(** C17 item 1 over M-SQLITE, continued: plans that also drop indexes.  The reverse of DROP INDEX
    re-creates the index from the inspected schema, so the state is restored up to [sim]
    (Sqlite/ReverseModel.v); the reverse statements of the earlier changes then run on a state that
    is only [sim] to the one they were planned for, which the congruence lemmas below handle. *)
From Coq Require Import List NArith ZArith Bool Arith Lia Permutation.
From Atlas Require Import Base.Bytes Diff.Schema Diff.DiffModel Diff.DiffSqlite Diff.DiffProofs
  Lex.DownModel Sqlite.PlanModel Sqlite.EngineModel Sqlite.InspectModel Sqlite.ReverseModel
  Sqlite.ReverseProofs.
Import ListNotations.

(** * a table = its index list + the rest *)

Definition with_idx (c : ctable) (l : list index) : ctable := set_ct_t c (set_t_idx (ct_t c) l).

Lemma with_idx_self c : with_idx c (ct_idx c) = c.
Proof. destruct c as [[t a] u r]; destruct t; reflexivity. Qed.
Lemma with_idx_rest c l : with_idx (ct_rest c) l = with_idx c l.
Proof. destruct c as [[t a] u r]; destruct t; reflexivity. Qed.
Lemma ct_idx_with c l : ct_idx (with_idx c l) = l.
Proof. destruct c as [[t a] u r]; destruct t; reflexivity. Qed.
Lemma ct_rest_with c l : ct_rest (with_idx c l) = ct_rest c.
Proof. destruct c as [[t a] u r]; destruct t; reflexivity. Qed.
Lemma with_idx_with c l l' : with_idx (with_idx c l) l' = with_idx c l'.
Proof. destruct c as [[t a] u r]; destruct t; reflexivity. Qed.
Lemma ct_name_with c l : ct_name (with_idx c l) = ct_name c.
Proof. destruct c as [[t a] u r]; destruct t; reflexivity. Qed.
Lemma ct_rows_with c l : ct_rows (with_idx c l) = ct_rows c.
Proof. destruct c as [[t a] u r]; destruct t; reflexivity. Qed.
Lemma has_col_with c l x : has_col (ct_t (with_idx c l)) x = has_col (ct_t c) x.
Proof. destruct c as [[t a] u r]; destruct t; reflexivity. Qed.

Lemma ct_sim_inv c c' : ct_sim c c' -> c' = with_idx c (ct_idx c').
Proof.
  intros [H _]. rewrite <- (with_idx_self c') at 1. rewrite <- with_idx_rest, <- H. apply with_idx_rest.
Qed.

Lemma ct_sim_with c l l' :
  Permutation (map inspect_index l) (map inspect_index l') -> ct_sim (with_idx c l) (with_idx c l').
Proof. intros P. split; [now rewrite !ct_rest_with|now rewrite !ct_idx_with]. Qed.

Lemma ct_sim_refl c : ct_sim c c.
Proof. split; [reflexivity|apply Permutation_refl]. Qed.

Lemma ct_sim_trans a b c : ct_sim a b -> ct_sim b c -> ct_sim a c.
Proof. intros [H1 P1] [H2 P2]. split; [congruence|eapply Permutation_trans; eassumption]. Qed.

Lemma sim_refl d : sim d d.
Proof.
  repeat split. induction (db_tables d); constructor; [apply ct_sim_refl|assumption].
Qed.

Lemma Forall2_trans {A} (R : A -> A -> Prop) :
  (forall a b c, R a b -> R b c -> R a c) ->
  forall l1 l2 l3, Forall2 R l1 l2 -> Forall2 R l2 l3 -> Forall2 R l1 l3.
Proof.
  intros T l1 l2 l3 H. revert l3. induction H; intros l3 H3; inversion H3; subst; constructor; eauto.
Qed.

Lemma sim_trans a b c : sim a b -> sim b c -> sim a c.
Proof.
  intros (F1 & T1 & H1) (F2 & T2 & H2). repeat split; try congruence.
  exact (Forall2_trans _ ct_sim_trans _ _ _ H1 H2).
Qed.

(** * names on [sim] states *)

Lemma i_name_inspect i : i_name (inspect_index i) = i_name i.
Proof. reflexivity. Qed.

Lemma map_i_name_inspect l : map i_name (map inspect_index l) = map i_name l.
Proof. rewrite map_map. reflexivity. Qed.

Lemma ct_sim_names c c' :
  ct_sim c c' -> ct_name c = ct_name c' /\ Permutation (map i_name (ct_idx c)) (map i_name (ct_idx c')).
Proof.
  intros S. pose proof (ct_sim_inv _ _ S) as E. destruct S as [_ P]. split.
  - rewrite E. now rewrite ct_name_with.
  - rewrite <- (map_i_name_inspect (ct_idx c)), <- (map_i_name_inspect (ct_idx c')). now apply Permutation_map.
Qed.

Lemma all_names_sim l l' : Forall2 ct_sim l l' -> Permutation (all_names l) (all_names l').
Proof.
  unfold all_names. induction 1 as [|c c' l l' S F IH]; simpl; [constructor|].
  destruct (ct_sim_names _ _ S) as [En Pn]. rewrite En.
  constructor. apply Permutation_app; [exact Pn|exact IH].
Qed.

Lemma existsb_perm {A} (f : A -> bool) l l' : Permutation l l' -> existsb f l = existsb f l'.
Proof.
  induction 1; simpl; try congruence.
  - destruct (f y), (f x); reflexivity.
Qed.

Lemma name_used_sim n l l' : Forall2 ct_sim l l' -> name_used n l = name_used n l'.
Proof. intros F. unfold name_used. apply existsb_perm. now apply all_names_sim. Qed.

Lemma find_ct_sim n l l' :
  Forall2 ct_sim l l' ->
  match find_ct n l, find_ct n l' with
  | Some c, Some c' => ct_sim c c'
  | None, None => True
  | _, _ => False
  end.
Proof.
  unfold find_ct. induction 1 as [|c c' l l' S F IH]; simpl; [exact I|].
  destruct (ct_sim_names _ _ S) as [En _]. rewrite <- En.
  destruct (str_eqb (ct_name c) n); [exact S|exact IH].
Qed.

Lemma update_ct_sim n f f' l l' :
  Forall2 ct_sim l l' -> (forall c c', ct_sim c c' -> ct_sim (f c) (f' c')) ->
  Forall2 ct_sim (update_ct n f l) (update_ct n f' l').
Proof.
  intros F Hf. induction F as [|c c' l l' S F IH]; simpl; [constructor|].
  destruct (ct_sim_names _ _ S) as [En _]. rewrite <- En.
  destruct (str_eqb (ct_name c) n); constructor; auto.
Qed.

Lemma map_ct_sim f f' l l' :
  Forall2 ct_sim l l' -> (forall c c', ct_sim c c' -> ct_sim (f c) (f' c')) ->
  Forall2 ct_sim (map f l) (map f' l').
Proof. intros F Hf. induction F; simpl; constructor; auto. Qed.

(** * DROP INDEX on [sim] states *)

Lemma filter_map_comm {A B} (g : A -> B) (q : B -> bool) l :
  map g (filter (fun x => q (g x)) l) = filter q (map g l).
Proof. induction l as [|x l IH]; simpl; [reflexivity|]. destruct (q (g x)); simpl; now rewrite IH. Qed.

Lemma Permutation_filter' {A} (q : A -> bool) l l' :
  Permutation l l' -> Permutation (filter q l) (filter q l').
Proof.
  induction 1; simpl; auto.
  - destruct (q x); auto.
  - destruct (q y), (q x); auto. apply perm_swap.
  - eapply Permutation_trans; eassumption.
Qed.

Lemma drop_idx_in_with n c : drop_idx_in n c = with_idx c (filter (fun i => negb (str_eqb (i_name i) n)) (ct_idx c)).
Proof. reflexivity. Qed.

Lemma drop_idx_in_sim n c c' : ct_sim c c' -> ct_sim (drop_idx_in n c) (drop_idx_in n c').
Proof.
  intros S. rewrite (ct_sim_inv _ _ S) at 1. destruct S as [_ P].
  rewrite !drop_idx_in_with, ct_idx_with, with_idx_with. apply ct_sim_with.
  assert (E : forall l, map inspect_index (filter (fun i => negb (str_eqb (i_name i) n)) l)
                      = filter (fun j => negb (str_eqb (i_name j) n)) (map inspect_index l)).
  { induction l as [|x l IH]; simpl; [reflexivity|].
    destruct (negb (str_eqb (i_name x) n)); simpl; now rewrite IH. }
  rewrite !E. now apply Permutation_filter'.
Qed.

Lemma existsb_map' {A B} (f : B -> bool) (g : A -> B) l : existsb f (map g l) = existsb (fun x => f (g x)) l.
Proof. induction l as [|x l IH]; simpl; [reflexivity|now rewrite IH]. Qed.

Lemma has_index_sim n c c' : ct_sim c c' -> has_index n c = has_index n c'.
Proof.
  intros S. destruct (ct_sim_names _ _ S) as [_ P]. unfold has_index.
  fold (ct_idx c) (ct_idx c').
  transitivity (existsb (fun m => str_eqb m n) (map i_name (ct_idx c))).
  - now rewrite existsb_map'.
  - rewrite (existsb_perm _ _ _ P). now rewrite existsb_map'.
Qed.

Lemma drop_index_shape d n d' :
  drop_index d n = Ok d' <->
  existsb (has_index n) (db_tables d) = true /\ d' = set_tables d (map (drop_idx_in n) (db_tables d)).
Proof.
  unfold drop_index. destruct (existsb (has_index n) (db_tables d)); split.
  - intros H; inversion H; split; reflexivity.
  - intros [_ ->]; reflexivity.
  - discriminate.
  - intros [H _]; discriminate.
Qed.

Lemma drop_index_congr d a n d' :
  sim d a -> drop_index d n = Ok d' -> exists a', drop_index a n = Ok a' /\ sim d' a'.
Proof.
  intros (Ef & Et & F) H. apply drop_index_shape in H as [He ->].
  exists (set_tables a (map (drop_idx_in n) (db_tables a))). split.
  - apply drop_index_shape. split; [|reflexivity]. rewrite <- He. symmetry.
    clear He. induction F as [|c c' l l' S F IH]; simpl; [reflexivity|].
    now rewrite (has_index_sim _ _ _ S), IH.
  - repeat split; try assumption. simpl. apply map_ct_sim; [exact F|]. intros; now apply drop_idx_in_sim.
Qed.

(** * CREATE INDEX on [sim] states *)

Lemma create_index_intro d n i ct :
  find_ct n (db_tables d) = Some ct ->
  i_name i <> [] -> reserved_name (i_name i) = false -> name_used (i_name i) (db_tables d) = false ->
  i_parts i <> [] -> first_err (part_ok_b (ct_t ct)) (i_parts i) = Ok tt ->
  match i_unique i, i_pred i, part_col_names (i_parts i) with
  | true, None, Some cols => has_dup_on cols (ct_rows ct) = false
  | _, _, _ => True
  end ->
  create_index d n i = Ok (set_tables d (update_ct n (add_idx_in i) (db_tables d))).
Proof.
  intros Hf Hn Hr Hu Hp Hok Hd. unfold create_index. rewrite Hf.
  destruct (i_name i) as [|b nm] eqn:En; [congruence|]. rewrite Hr, Hu.
  destruct (i_parts i) as [|p ps] eqn:Ep; [congruence|]. rewrite Hok.
  destruct (i_unique i), (i_pred i), (part_col_names (p :: ps)); try reflexivity.
  rewrite Hd. reflexivity.
Qed.

Lemma create_index_facts d n i d1 :
  create_index d n i = Ok d1 ->
  exists ct, find_ct n (db_tables d) = Some ct /\
    i_name i <> [] /\ reserved_name (i_name i) = false /\ name_used (i_name i) (db_tables d) = false /\
    i_parts i <> [] /\ first_err (part_ok_b (ct_t ct)) (i_parts i) = Ok tt /\
    match i_unique i, i_pred i, part_col_names (i_parts i) with
    | true, None, Some cols => has_dup_on cols (ct_rows ct) = false
    | _, _, _ => True
    end /\
    d1 = set_tables d (update_ct n (add_idx_in i) (db_tables d)).
Proof.
  unfold create_index. intros H.
  destruct (find_ct n (db_tables d)) as [ct|] eqn:Ef; [|discriminate].
  destruct (i_name i) as [|b nm] eqn:En; [discriminate|].
  destruct (reserved_name (b :: nm)) eqn:Er; [discriminate|].
  destruct (name_used (b :: nm) (db_tables d)) eqn:Eu; [discriminate|].
  destruct (i_parts i) as [|p ps] eqn:Ep; [discriminate|].
  destruct (first_err (part_ok_b (ct_t ct)) (p :: ps)) as [[]|] eqn:Eok; [|discriminate].
  exists ct. repeat split; try assumption; try reflexivity; try discriminate.
  - destruct (i_unique i), (i_pred i), (part_col_names (p :: ps)); try exact I.
    destruct (has_dup_on l (ct_rows ct)); [discriminate|reflexivity].
  - destruct (i_unique i), (i_pred i), (part_col_names (p :: ps)); try (inversion H; reflexivity).
    destruct (has_dup_on l (ct_rows ct)); [discriminate|inversion H; reflexivity].
Qed.

Lemma part_ok_b_with c l p : part_ok_b (ct_t (with_idx c l)) p = part_ok_b (ct_t c) p.
Proof. unfold part_ok_b. destruct (p_col p); [|reflexivity]. now rewrite has_col_with. Qed.

Lemma first_err_ext {A} (f g : A -> result unit) l : (forall a, f a = g a) -> first_err f l = first_err g l.
Proof. intros H. induction l as [|x l IH]; simpl; [reflexivity|]. rewrite H. destruct (g x); auto. Qed.

Lemma add_idx_in_with i c : add_idx_in i c = with_idx c (ct_idx c ++ [i]).
Proof. reflexivity. Qed.

Lemma add_idx_in_sim i c c' : ct_sim c c' -> ct_sim (add_idx_in i c) (add_idx_in i c').
Proof.
  intros S. rewrite (ct_sim_inv _ _ S) at 1. destruct S as [_ P].
  rewrite !add_idx_in_with, ct_idx_with, with_idx_with. apply ct_sim_with.
  rewrite !map_app. now apply Permutation_app_tail.
Qed.

Lemma create_index_congr d a n i d' :
  sim d a -> create_index d n i = Ok d' -> exists a', create_index a n i = Ok a' /\ sim d' a'.
Proof.
  intros (Ef & Et & F) H.
  destruct (create_index_facts _ _ _ _ H) as (ct & Hf & Hn & Hr & Hu & Hp & Hok & Hd & ->).
  pose proof (find_ct_sim n _ _ F) as Hfa. rewrite Hf in Hfa.
  destruct (find_ct n (db_tables a)) as [ct'|] eqn:Efa; [|contradiction].
  pose proof (ct_sim_inv _ _ Hfa) as Ect.
  exists (set_tables a (update_ct n (add_idx_in i) (db_tables a))). split.
  - apply (create_index_intro a n i ct'); try assumption.
    + now rewrite <- (name_used_sim _ _ _ F).
    + rewrite Ect. rewrite (first_err_ext _ _ _ (part_ok_b_with ct (ct_idx ct'))). exact Hok.
    + rewrite Ect, ct_rows_with. exact Hd.
  - repeat split; try assumption. simpl. apply update_ct_sim; [exact F|]. intros; now apply add_idx_in_sim.
Qed.

(** * DROP COLUMN on [sim] states *)

Definition last_stored_check (ct : ctable) (c : str) : bool :=
  Nat.leb (length (filter (fun col => match c_gen col with None => true | Some _ => false end) (t_cols (ct_t ct)))) 1
  && negb (is_generated (ct_t ct) c).

Lemma drop_column_shape d n c d' :
  drop_column d n c = Ok d' <->
  exists ct, find_ct n (db_tables d) = Some ct /\ has_col (ct_t ct) c = true /\
    col_used ct c = false /\ last_stored_check ct c = false /\
    d' = set_tables d (update_ct n (drop_col_in c) (db_tables d)).
Proof.
  unfold drop_column, last_stored_check. split.
  - intros H. destruct (find_ct n (db_tables d)) as [ct|]; [|discriminate].
    exists ct. destruct (has_col (ct_t ct) c); [|discriminate]. destruct (col_used ct c); [discriminate|].
    simpl in H.
    match type of H with (if ?P then _ else _) = _ => destruct P; [discriminate|] end.
    inversion H. repeat split; reflexivity.
  - intros (ct & -> & -> & -> & Hl & ->). simpl. rewrite Hl. reflexivity.
Qed.

Definition part_has (c : str) (i : index) : bool :=
  existsb (fun p => ostr_eqb (p_col p) (Some c)) (i_parts i).

Lemma existsb_number_parts (h : part -> bool) (f : part -> part) :
  (forall k p, h (mkPart k (p_desc (f p)) (p_col (f p)) (p_expr (f p))) = h p) ->
  forall l k, existsb h (number_parts k (map f l)) = existsb h l.
Proof.
  intros H. induction l as [|p l IH]; intros k; simpl; [reflexivity|]. now rewrite H, IH.
Qed.

Lemma part_has_inspect c i : part_has c (inspect_index i) = part_has c i.
Proof.
  unfold part_has, inspect_index. simpl. apply existsb_number_parts. intros k p. reflexivity.
Qed.

Lemma existsb_part_has_perm c l l' :
  Permutation (map inspect_index l) (map inspect_index l') ->
  existsb (part_has c) l = existsb (part_has c) l'.
Proof.
  intros P.
  assert (E : forall m, existsb (part_has c) m = existsb (part_has c) (map inspect_index m)).
  { intros m. rewrite existsb_map'. induction m as [|x m IH]; simpl; [reflexivity|].
    now rewrite part_has_inspect, IH. }
  rewrite (E l), (E l'). now apply existsb_perm.
Qed.

Lemma col_used_with ct l c :
  Permutation (map inspect_index (ct_idx ct)) (map inspect_index l) ->
  col_used (with_idx ct l) c = col_used ct c.
Proof.
  intros P. destruct ct as [[t a] u r]. destruct t as [tn wr st cols pk idx fks chk].
  unfold col_used, col_in_index, col_in_fk, with_idx, ct_idx, set_ct_t, ct_t, ct_x, set_x_t, x_t, ct_uniques, set_t_idx in *.
  simpl in *. f_equal. f_equal.
  fold (part_has c). destruct pk as [p|]; simpl; [f_equal|]; symmetry; now apply existsb_part_has_perm.
Qed.

Lemma last_stored_check_with ct l c : last_stored_check (with_idx ct l) c = last_stored_check ct c.
Proof. destruct ct as [[t a] u r]; destruct t; reflexivity. Qed.

Lemma drop_col_in_with c ct l : drop_col_in c (with_idx ct l) = with_idx (drop_col_in c ct) l.
Proof. destruct ct as [[t a] u r]; destruct t; reflexivity. Qed.
Lemma ct_idx_drop_col c ct : ct_idx (drop_col_in c ct) = ct_idx ct.
Proof. destruct ct as [[t a] u r]; destruct t; reflexivity. Qed.

Lemma drop_col_in_sim x c c' : ct_sim c c' -> ct_sim (drop_col_in x c) (drop_col_in x c').
Proof.
  intros S. rewrite (ct_sim_inv _ _ S). destruct S as [_ P].
  rewrite drop_col_in_with. rewrite <- (with_idx_self (drop_col_in x c)) at 1.
  apply ct_sim_with. now rewrite ct_idx_drop_col.
Qed.

Lemma drop_column_congr d a n c d' :
  sim d a -> drop_column d n c = Ok d' -> exists a', drop_column a n c = Ok a' /\ sim d' a'.
Proof.
  intros (Ef & Et & F) H. apply drop_column_shape in H as (ct & Hf & Hh & Hu & Hl & ->).
  pose proof (find_ct_sim n _ _ F) as Hfa. rewrite Hf in Hfa.
  destruct (find_ct n (db_tables a)) as [ct'|] eqn:Efa; [|contradiction].
  pose proof (ct_sim_inv _ _ Hfa) as Ect. destruct Hfa as [_ P].
  exists (set_tables a (update_ct n (drop_col_in c) (db_tables a))). split.
  - apply drop_column_shape. exists ct'. split; [exact Efa|]. rewrite Ect.
    rewrite has_col_with, (col_used_with _ _ _ P), last_stored_check_with. auto.
  - repeat split; try assumption. simpl. apply update_ct_sim; [exact F|]. intros; now apply drop_col_in_sim.
Qed.

(** * DROP TABLE of an empty table on [sim] states *)

Lemma Forall2_app_inv_l' {A B} (R : A -> B -> Prop) l1 x l :
  Forall2 R (l1 ++ [x]) l -> exists l1' x', l = l1' ++ [x'] /\ Forall2 R l1 l1' /\ R x x'.
Proof.
  intros H. apply Forall2_app_inv_l in H as (l1' & l2' & H1 & H2 & ->).
  inversion H2 as [|? x' ? l3 Hx H3]; subst. inversion H3; subst.
  exists l1', x'. auto.
Qed.

Lemma Forall2_in_r {A B} (R : A -> B -> Prop) l l' y :
  Forall2 R l l' -> In y l' -> exists x, In x l /\ R x y.
Proof.
  induction 1 as [|a b l l' Hab F IH]; intros Hy; [contradiction|].
  destruct Hy as [<-|Hy]; [exists a; split; [now left|exact Hab]|].
  destruct (IH Hy) as (x & Hx & Rx). exists x. split; [now right|exact Rx].
Qed.

Lemma create_drop_table_sim d x d1 a1 :
  create_table d x [] = Ok d1 -> sim d1 a1 ->
  exists a, drop_table a1 (t_name (x_t x)) = Ok a /\ sim d a.
Proof.
  intros H (Ef & Et & F). destruct (create_table_shape _ _ _ _ H) as (c & -> & Hn & Hr & Hu & _).
  simpl in F, Ef, Et. apply Forall2_app_inv_l' in F as (l1' & c' & Ea & F1 & Sc).
  pose proof (name_used_false _ _ Hu) as Hfree.
  assert (Hl : forall c0, In c0 l1' -> str_eqb (ct_name c0) (t_name (x_t x)) = false).
  { intros c0 Hc0. destruct (Forall2_in_r _ _ _ _ F1 Hc0) as (c1 & Hc1 & S1).
    destruct (ct_sim_names _ _ S1) as [<- _]. exact (proj1 (Hfree c1 Hc1)). }
  assert (Hc : str_eqb (ct_name c') (t_name (x_t x)) = true).
  { destruct (ct_sim_names _ _ Sc) as [<- _]. rewrite Hn. apply str_eqb_refl. }
  assert (Hr' : ct_rows c' = []).
  { rewrite (ct_sim_inv _ _ Sc), ct_rows_with. exact Hr. }
  exists (set_tables a1 l1'). split.
  - unfold drop_table. rewrite Ea, (find_ct_app_new _ _ _ Hl Hc), Hr'.
    destruct (db_fk a1).
    + now rewrite implicit_delete_nil, (remove_ct_app_new _ _ _ Hl Hc).
    + now rewrite (remove_ct_app_new _ _ _ Hl Hc).
  - repeat split; assumption.
Qed.

(** * the drop-index arm: CREATE INDEX after DROP INDEX restores the state up to [sim] *)

Lemma find_ct_split n l ct :
  find_ct n l = Some ct ->
  exists l1 l2, l = l1 ++ ct :: l2 /\ str_eqb (ct_name ct) n = true /\
    forall c, In c l1 -> str_eqb (ct_name c) n = false.
Proof.
  unfold find_ct. induction l as [|c l IH]; simpl; intros H; [discriminate|].
  destruct (str_eqb (ct_name c) n) eqn:E.
  - inversion H; subst c. exists [], l. repeat split; auto. intros c [].
  - destruct (IH H) as (l1 & l2 & -> & Hn & Hl). exists (c :: l1), l2. repeat split; auto.
    intros c0 [<-|H0]; auto.
Qed.

Lemma update_ct_split n f l1 ct l2 :
  str_eqb (ct_name ct) n = true -> (forall c, In c l1 -> str_eqb (ct_name c) n = false) ->
  update_ct n f (l1 ++ ct :: l2) = l1 ++ f ct :: l2.
Proof.
  intros Hn Hl. induction l1 as [|c l1 IH]; simpl.
  - now rewrite Hn.
  - rewrite (Hl c (or_introl eq_refl)). f_equal. apply IH. intros c0 H0. apply Hl. now right.
Qed.

Lemma all_names_app l1 l2 : all_names (l1 ++ l2) = all_names l1 ++ all_names l2.
Proof. unfold all_names. apply flat_map_app. Qed.

Lemma all_names_cons c l : all_names (c :: l) = (ct_name c :: map i_name (ct_idx c)) ++ all_names l.
Proof. reflexivity. Qed.

Lemma mid_eq {A} (X : list A) x P m Q B :
  X ++ (x :: P ++ m :: Q) ++ B = (X ++ x :: P) ++ m :: (Q ++ B).
Proof. rewrite <- !app_assoc. simpl. rewrite <- !app_assoc. reflexivity. Qed.
Lemma mid_eq' {A} (X : list A) x P Q B :
  X ++ (x :: P ++ Q) ++ B = (X ++ x :: P) ++ (Q ++ B).
Proof. rewrite <- !app_assoc. simpl. rewrite <- !app_assoc. reflexivity. Qed.

Lemma nodup_mid {A} (X : list A) x P m Q B :
  NoDup (X ++ (x :: P ++ m :: Q) ++ B) ->
  ~ In m X /\ x <> m /\ ~ In m P /\ ~ In m Q /\ ~ In m B /\ NoDup (X ++ (x :: P ++ Q) ++ B).
Proof.
  rewrite mid_eq, mid_eq'. intros ND. pose proof (NoDup_remove_2 _ _ _ ND) as N.
  repeat split; try (intros H; apply N; apply in_or_app).
  - left. apply in_or_app. now left.
  - left. apply in_or_app. right. left. exact H.
  - left. apply in_or_app. right. right. exact H.
  - right. apply in_or_app. now left.
  - right. apply in_or_app. now right.
  - exact (NoDup_remove_1 _ _ _ ND).
Qed.

Lemma all_names_split l1 ct l2 pre j post :
  ct_idx ct = pre ++ j :: post ->
  all_names (l1 ++ ct :: l2) =
  all_names l1 ++ (ct_name ct :: map i_name pre ++ i_name j :: map i_name post) ++ all_names l2.
Proof. intros E. rewrite all_names_app, all_names_cons, E, map_app. reflexivity. Qed.

(** the index [j] named [n] of table [ct] is the only object of the namespace with that name *)
Lemma names_ok_unique l l1 ct l2 pre j post n :
  NoDup (all_names l) -> l = l1 ++ ct :: l2 -> ct_idx ct = pre ++ j :: post -> i_name j = n ->
  ~ In n (all_names l1) /\ ct_name ct <> n /\ ~ In n (map i_name pre) /\ ~ In n (map i_name post) /\
  ~ In n (all_names l2) /\
  NoDup (all_names l1 ++ (ct_name ct :: map i_name pre ++ map i_name post) ++ all_names l2).
Proof.
  intros ND -> Ei En. rewrite (all_names_split _ _ _ _ _ _ Ei), En in ND. exact (nodup_mid _ _ _ _ _ _ ND).
Qed.

Lemma not_in_all_names n l :
  ~ In n (all_names l) -> forall c, In c l -> ct_name c <> n /\ forall k, In k (ct_idx c) -> i_name k <> n.
Proof.
  intros H c Hc. split.
  - intros E. apply H. unfold all_names. apply in_flat_map. exists c. split; [exact Hc|]. left. exact E.
  - intros k Hk E. apply H. unfold all_names. apply in_flat_map. exists c. split; [exact Hc|].
    right. apply in_map_iff. exists k. split; assumption.
Qed.

Lemma map_drop_id n l :
  ~ In n (all_names l) -> map (drop_idx_in n) l = l.
Proof.
  intros H. rewrite <- (map_id l) at 2. apply map_ext_in. intros c Hc.
  apply drop_idx_in_id. intros i Hi. apply str_eqb_neq.
  exact (proj2 (not_in_all_names _ _ H c Hc) i Hi).
Qed.

Lemma filter_not_name n (l : list index) :
  ~ In n (map i_name l) -> filter (fun i => negb (str_eqb (i_name i) n)) l = l.
Proof.
  intros H. apply filter_names_id. intros i Hi. apply str_eqb_neq. intros E. apply H.
  apply in_map_iff. exists i. split; assumption.
Qed.

Lemma name_used_not_in n l : ~ In n (all_names l) -> name_used n l = false.
Proof.
  intros H. unfold name_used. destruct (existsb (str_eqb n) (all_names l)) eqn:E; [|reflexivity].
  apply existsb_exists in E as (m & Hm & Em). apply str_eqb_eq in Em. subst m. contradiction.
Qed.

Lemma drop_create_index d n t i d1 :
  names_ok d -> faithful_idx d n t i -> i_name i = n -> drop_index d n = Ok d1 ->
  exists d', create_index d1 t i = Ok d' /\ sim d d' /\
    (* what the forward step leaves: the invariants of the exact chain *)
    names_ok d1.
Proof.
  intros ND (ct & j & Hf & Hj & Hjn & Hii & Hne & Hres & Hparts & Hok & Hdup) Hin H.
  apply drop_index_shape in H as [_ ->].
  destruct (find_ct_split _ _ _ Hf) as (l1 & l2 & El & Hct & Hl1).
  apply in_split in Hj as (pre & post & Eidx).
  destruct (names_ok_unique _ _ _ _ _ _ _ _ ND El Eidx Hjn) as (N1 & Nc & Npre & Npost & N2 & ND1).
  (* the tables after DROP INDEX n *)
  assert (Ect1 : drop_idx_in n ct = with_idx ct (pre ++ post)).
  { rewrite drop_idx_in_with, Eidx, filter_app. simpl. rewrite Hjn, str_eqb_refl. simpl.
    now rewrite (filter_not_name _ _ Npre), (filter_not_name _ _ Npost). }
  assert (Etabs : map (drop_idx_in n) (db_tables d) = l1 ++ with_idx ct (pre ++ post) :: l2).
  { rewrite El, map_app. simpl. now rewrite (map_drop_id _ _ N1), (map_drop_id _ _ N2), Ect1. }
  assert (Nafter : ~ In n (all_names (l1 ++ with_idx ct (pre ++ post) :: l2))).
  { rewrite all_names_app, all_names_cons, ct_name_with, ct_idx_with, map_app.
    intros X. apply in_app_or in X as [X|X]; [contradiction|].
    apply in_app_or in X as [X|X]; [|contradiction].
    destruct X as [X|X]; [contradiction|]. apply in_app_or in X as [X|X]; contradiction. }
  assert (Hn1 : str_eqb (ct_name (with_idx ct (pre ++ post))) t = true) by now rewrite ct_name_with.
  assert (Hf1 : find_ct t (l1 ++ with_idx ct (pre ++ post) :: l2) = Some (with_idx ct (pre ++ post))).
  { unfold find_ct. clear -Hl1 Hn1. induction l1 as [|c l1 IH]; simpl; [now rewrite Hn1|].
    rewrite (Hl1 c (or_introl eq_refl)). apply IH. intros c0 H0. apply Hl1. now right. }
  eexists. split; [|split].
  - cbn [db_tables set_tables]. rewrite Etabs.
    refine (create_index_intro (set_tables d (l1 ++ with_idx ct (pre ++ post) :: l2)) t i
              (with_idx ct (pre ++ post)) Hf1 _ _ _ Hparts _ _); cbn [db_tables set_tables].
    + now rewrite Hin.
    + now rewrite Hin.
    + rewrite Hin. now apply name_used_not_in.
    + rewrite (first_err_ext _ _ _ (part_ok_b_with ct (pre ++ post))). exact Hok.
    + rewrite ct_rows_with. exact Hdup.
  - cbn [db_tables set_tables]. rewrite (update_ct_split _ _ _ _ _ Hn1 Hl1).
    repeat split; try reflexivity. cbn [db_tables set_tables]. rewrite El.
    apply Forall2_app; [clear; induction l1; constructor; auto using ct_sim_refl|].
    constructor; [|clear; induction l2; constructor; auto using ct_sim_refl].
    rewrite add_idx_in_with, ct_idx_with, with_idx_with.
    rewrite <- (with_idx_self ct) at 1. apply ct_sim_with. rewrite Eidx.
    rewrite !map_app. simpl. rewrite Hii.
    rewrite <- app_assoc. apply Permutation_app_head. simpl.
    apply Permutation_cons_append.
  - unfold names_ok. cbn [db_tables set_tables]. rewrite Etabs.
    rewrite all_names_app, all_names_cons, ct_name_with, ct_idx_with, map_app. exact ND1.
Qed.

(** * the invariants along the forward statements *)

Lemma forallb_filter {A} (f g : A -> bool) l : forallb f l = true -> forallb f (filter g l) = true.
Proof.
  induction l as [|x l IH]; simpl; [auto|]. intros H. apply andb_true_iff in H as [H1 H2].
  destruct (g x); simpl; [rewrite H1|]; auto.
Qed.

Lemma drop_idx_in_wf n c : ct_wf c = true -> ct_wf (drop_idx_in n c) = true.
Proof.
  intros W. destruct (ct_wf_parts c W) as (Wa & Wr & Wpk & Wi & Wf & Wu & Ws).
  destruct c as [[t a] u r]. destruct t as [tn wr st cols pk idx fks chk].
  unfold ct_wf, drop_idx_in, set_ct_t, ct_t, ct_x, set_x_t, x_t, x_autoinc, ct_rows, ct_uniques, set_t_idx in *.
  simpl in *.
  change (has_col (mkTable tn wr st cols pk (filter (fun i => negb (str_eqb (i_name i) n)) idx) fks chk))
    with (has_col (mkTable tn wr st cols pk idx fks chk)).
  change (parts_in (mkTable tn wr st cols pk (filter (fun i => negb (str_eqb (i_name i) n)) idx) fks chk))
    with (parts_in (mkTable tn wr st cols pk idx fks chk)).
  rewrite Wa, Wr, Wf, Wu, Ws, (forallb_filter _ _ _ Wi). destruct pk; [rewrite Wpk|]; reflexivity.
Qed.

Lemma drop_index_wf d n d1 : db_wf d = true -> drop_index d n = Ok d1 -> db_wf d1 = true.
Proof.
  intros W H. apply drop_index_shape in H as [_ ->]. unfold db_wf in *. cbn [db_tables set_tables].
  rewrite forallb_forall in *. intros c Hc. apply in_map_iff in Hc as (c0 & <- & Hc0).
  apply drop_idx_in_wf. now apply W.
Qed.

Lemma create_table_idx d x us d1 :
  create_table d x us = Ok d1 ->
  exists c, d1 = set_tables d (db_tables d ++ [c]) /\ ct_name c = t_name (x_t x) /\ ct_idx c = [].
Proof.
  unfold create_table. intros H.
  destruct (t_idx (x_t x)); [|discriminate].
  destruct (reserved_name (t_name (x_t x))); [discriminate|].
  destruct (name_used (t_name (x_t x)) (db_tables d)); [discriminate|].
  destruct (negb (nodup_strs (map c_name (t_cols (x_t x))))); [discriminate|].
  destruct (negb (existsb (fun c => match c_gen c with None => true | Some _ => false end) (t_cols (x_t x))));
    [discriminate|].
  destruct (first_err (column_def_ok (x_t x)) (t_cols (x_t x))); [|discriminate].
  destruct (effective_pk x) as [pk|]; [|discriminate].
  match type of H with match ?P with _ => _ end = _ => destruct P; [|discriminate] end.
  destruct (first_err (fk_def_ok (x_t x)) (t_fks (x_t x))); [|discriminate].
  destruct (first_err check_def_ok (t_checks (x_t x))); [|discriminate].
  match type of H with (if ?P then _ else _) = _ => destruct P; [discriminate|] end.
  inversion H. eexists. repeat split; reflexivity.
Qed.

Lemma create_table_names d x d1 : names_ok d -> create_table d x [] = Ok d1 -> names_ok d1.
Proof.
  intros ND H. destruct (create_table_shape _ _ _ _ H) as (c0 & _ & _ & _ & Hu & _).
  destruct (create_table_idx _ _ _ _ H) as (c & -> & Hn & Hi).
  unfold names_ok in *. cbn [db_tables set_tables]. rewrite all_names_app.
  rewrite (all_names_cons c []), Hi, Hn. simpl.
  apply (Permutation_NoDup (Permutation_cons_append (all_names (db_tables d)) (t_name (x_t x)))).
  constructor; [|exact ND]. intros Hm.
  unfold name_used in Hu. apply Bool.not_true_iff_false in Hu. apply Hu.
  apply existsb_exists. exists (t_name (x_t x)). split; [exact Hm|apply str_eqb_refl].
Qed.

Lemma create_index_names d t i d1 : names_ok d -> create_index d t i = Ok d1 -> names_ok d1.
Proof.
  intros ND H. destruct (create_index_facts _ _ _ _ H) as (ct & Hf & _ & _ & Hu & _ & _ & _ & ->).
  destruct (find_ct_split _ _ _ Hf) as (l1 & l2 & El & Hct & Hl1).
  unfold names_ok in *. cbn [db_tables set_tables]. rewrite El in *.
  rewrite (update_ct_split _ _ _ _ _ Hct Hl1).
  rewrite all_names_app, all_names_cons in *. rewrite add_idx_in_with, ct_name_with, ct_idx_with, map_app.
  change (map i_name [i]) with [i_name i].
  assert (Hm : ~ In (i_name i) (all_names l1 ++ (ct_name ct :: map i_name (ct_idx ct)) ++ all_names l2)).
  { intros Hm. unfold name_used in Hu. apply Bool.not_true_iff_false in Hu. apply Hu.
    apply existsb_exists. exists (i_name i). split; [|apply str_eqb_refl].
    rewrite all_names_app, all_names_cons. exact Hm. }
  set (A := all_names l1) in *. set (B := all_names l2) in *. set (x := ct_name ct) in *.
  set (P := map i_name (ct_idx ct)) in *. set (m := i_name i) in *.
  assert (E : A ++ (x :: P ++ [m]) ++ B = (A ++ x :: P) ++ m :: B).
  { rewrite <- !app_assoc. simpl. rewrite <- !app_assoc. reflexivity. }
  assert (E2 : A ++ (x :: P) ++ B = (A ++ x :: P) ++ B).
  { rewrite <- !app_assoc. reflexivity. }
  rewrite E. rewrite E2 in ND, Hm.
  apply (Permutation_NoDup (Permutation_middle (A ++ x :: P) B m)). constructor; assumption.
Qed.

Lemma all_names_update_same n f l :
  (forall c, ct_name (f c) = ct_name c /\ ct_idx (f c) = ct_idx c) ->
  all_names (update_ct n f l) = all_names l.
Proof.
  intros Hf. induction l as [|c l IH]; simpl; [reflexivity|].
  destruct (str_eqb (ct_name c) n).
  - rewrite !all_names_cons. destruct (Hf c) as [-> ->]. reflexivity.
  - rewrite !all_names_cons. now rewrite IH.
Qed.

Lemma add_column_names d t c ai d1 : names_ok d -> add_column d t c ai = Ok d1 -> names_ok d1.
Proof.
  intros ND H. destruct (add_column_shape _ _ _ _ _ H) as (ct & vo & _ & _ & ->).
  unfold names_ok in *. cbn [db_tables set_tables]. rewrite all_names_update_same; [exact ND|].
  intros [[tt a] u r]. destruct tt. split; reflexivity.
Qed.

(** * up then down, for lists of additive and drop-index arms *)

Lemma drop_index_arm_inv pc n t i :
  drop_index_arm pc = Some (n, t, i) ->
  pc_cmd pc = SDropIndex n /\ pc_reverse pc = [SCreateIndex t i] /\ i_name i = n.
Proof.
  unfold drop_index_arm. destruct (pc_cmd pc); try discriminate.
  destruct (pc_reverse pc) as [|[] [|]]; try discriminate.
  destruct (str_eqb (i_name i0) n0) eqn:E; [|discriminate]. intros H; inversion H; subst.
  apply str_eqb_eq in E. auto.
Qed.

Lemma arm_step pc d dm am :
  db_wf d = true -> names_ok d ->
  ((additive pc = true /\ stmt_wf (pc_cmd pc) = true) \/
   (exists n t i, drop_index_arm pc = Some (n, t, i) /\ faithful_idx d n t i)) ->
  exec d (pc_cmd pc) = Ok dm -> sim dm am ->
  (exists a, exec_all am (pc_reverse pc) = Ok a /\ sim d a) /\ db_wf dm = true /\ names_ok dm.
Proof.
  intros W ND [[A SW]|(n & t & i & Harm & Hfa)] E S.
  - destruct (additive_step _ _ _ A SW W E) as [Hrev Wm]. split; [|split; [exact Wm|]].
    + unfold additive in A.
      destruct (pc_cmd pc) as [x us|n|a b|t c ai|t c|t a b|t i|n|tt tc ft fe|on] eqn:Ec; try discriminate.
      * destruct us; [|discriminate].
        destruct (pc_reverse pc) as [|[| n | | | | | | | |] [|]] eqn:Er; try discriminate.
        apply str_eqb_eq in A. subst n. simpl in E.
        destruct (create_drop_table_sim _ _ _ _ E S) as (a & Ha & Sa).
        exists a. simpl. now rewrite Ha.
      * destruct (pc_reverse pc) as [|[| | | | t' n | | | | |] [|]] eqn:Er; try discriminate.
        simpl in Hrev. destruct (drop_column dm t' n) as [d'|] eqn:Ed; [|discriminate].
        inversion Hrev; subst d'.
        destruct (drop_column_congr _ _ _ _ _ S Ed) as (a & Ha & Sa).
        exists a. simpl. now rewrite Ha.
      * destruct (pc_reverse pc) as [|[| | | | | | | n | |] [|]] eqn:Er; try discriminate.
        simpl in Hrev. destruct (drop_index dm n) as [d'|] eqn:Ed; [|discriminate].
        inversion Hrev; subst d'.
        destruct (drop_index_congr _ _ _ _ S Ed) as (a & Ha & Sa).
        exists a. simpl. now rewrite Ha.
    + unfold additive in A.
      destruct (pc_cmd pc) as [x us|n|a b|t c ai|t c|t a b|t i|n|tt tc ft fe|on] eqn:Ec; try discriminate; simpl in E.
      * destruct us; [|discriminate]. exact (create_table_names _ _ _ ND E).
      * exact (add_column_names _ _ _ _ _ ND E).
      * exact (create_index_names _ _ _ _ ND E).
  - destruct (drop_index_arm_inv _ _ _ _ Harm) as (Ec & Er & Ei). rewrite Ec in E. simpl in E. rewrite Er.
    destruct (drop_create_index _ _ _ _ _ ND Hfa Ei E) as (d' & Hc & Sd & NDm).
    destruct (create_index_congr _ _ _ _ _ S Hc) as (a & Ha & Sa).
    split; [|split; [exact (drop_index_wf _ _ _ W E)|exact NDm]].
    exists a. simpl. rewrite Ha. split; [reflexivity|exact (sim_trans _ _ _ Sd Sa)].
Qed.

Theorem arms_sound l : forall d d1,
  db_wf d = true -> names_ok d -> arms_ok d l ->
  exec_all d (up_stmts l) = Ok d1 ->
  exists d2, exec_all d1 (down_stmts l) = Ok d2 /\ sim d d2.
Proof.
  induction l as [|pc l IH]; intros d d1 W ND AO E.
  - simpl in E. inversion E; subst d1. exists d. split; [reflexivity|apply sim_refl].
  - simpl in E. destruct AO as [Harm Hnext].
    destruct (exec d (pc_cmd pc)) as [dm|] eqn:Em; [|discriminate].
    (* the invariants of [dm] do not depend on the state the reverse runs on *)
    destruct (arm_step pc d dm dm W ND Harm Em (sim_refl dm)) as (_ & Wm & NDm).
    destruct (IH dm d1 Wm NDm (Hnext dm eq_refl) E) as (am & Ham & Sm).
    destruct (arm_step pc d dm am W ND Harm Em Sm) as ((a & Ha & Sa) & _ & _).
    exists a. split; [|exact Sa].
    unfold down_stmts. simpl. rewrite flat_map_app. simpl. rewrite app_nil_r.
    rewrite exec_all_app. fold (down_stmts l). now rewrite Ham.
Qed.
