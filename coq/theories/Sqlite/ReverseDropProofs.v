(** C17 item 1 over M-SQLITE, continued: plans that also drop indexes.  The reverse of DROP INDEX
    re-creates the index from the inspected schema, so the state is restored up to [sim]
    (Sqlite/ReverseModel.v); the reverse statements of the earlier changes then run on a state that
    is only [sim] to the one they were planned for, which the congruence lemmas below handle. *)
From Coq Require Import List NArith ZArith Bool Arith Lia Permutation.
From Atlas Require Import Base.Bytes Diff.Schema Diff.DiffModel Diff.DiffSqlite Diff.DiffProofs Diff.DiffSqliteProofs
  Lex.DownModel Sqlite.PlanModel Sqlite.EngineModel Sqlite.InspectModel Sqlite.ReverseModel
  Sqlite.ReverseProofs.
Import ListNotations.

(** * a table = its index list + the rest *)

Definition with_idx (c : ctable) (l : list index) : ctable := set_ct_t c (set_t_idx (ct_t c) l).

Lemma with_idx_self c : with_idx c (ct_idx c) = c.
Proof. destruct c as [[t a] u r]; destruct t; reflexivity. Qed.
Lemma with_idx_rest c l : with_idx (ct_rest c) l = with_idx c l.
Proof. destruct c as [[t a] u r]; destruct t; reflexivity. Qed.
Lemma ct_idx_with c l : ct_idx (with_idx c l) = l.
Proof. destruct c as [[t a] u r]; destruct t; reflexivity. Qed.
Lemma ct_rest_with c l : ct_rest (with_idx c l) = ct_rest c.
Proof. destruct c as [[t a] u r]; destruct t; reflexivity. Qed.
Lemma with_idx_with c l l' : with_idx (with_idx c l) l' = with_idx c l'.
Proof. destruct c as [[t a] u r]; destruct t; reflexivity. Qed.
Lemma ct_name_with c l : ct_name (with_idx c l) = ct_name c.
Proof. destruct c as [[t a] u r]; destruct t; reflexivity. Qed.
Lemma ct_rows_with c l : ct_rows (with_idx c l) = ct_rows c.
Proof. destruct c as [[t a] u r]; destruct t; reflexivity. Qed.
Lemma has_col_with c l x : has_col (ct_t (with_idx c l)) x = has_col (ct_t c) x.
Proof. destruct c as [[t a] u r]; destruct t; reflexivity. Qed.

Lemma ct_sim_inv c c' : ct_sim c c' -> c' = with_idx c (ct_idx c').
Proof.
  intros [H _]. rewrite <- (with_idx_self c') at 1. rewrite <- with_idx_rest, <- H. apply with_idx_rest.
Qed.

Lemma ct_sim_with c l l' :
  Permutation (map inspect_index l) (map inspect_index l') -> ct_sim (with_idx c l) (with_idx c l').
Proof. intros P. split; [now rewrite !ct_rest_with|now rewrite !ct_idx_with]. Qed.

Lemma ct_sim_refl c : ct_sim c c.
Proof. split; [reflexivity|apply Permutation_refl]. Qed.

Lemma ct_sim_trans a b c : ct_sim a b -> ct_sim b c -> ct_sim a c.
Proof. intros [H1 P1] [H2 P2]. split; [congruence|eapply Permutation_trans; eassumption]. Qed.

Lemma sim_refl d : sim d d.
Proof.
  repeat split. induction (db_tables d); constructor; [apply ct_sim_refl|assumption].
Qed.

Lemma Forall2_trans {A} (R : A -> A -> Prop) :
  (forall a b c, R a b -> R b c -> R a c) ->
  forall l1 l2 l3, Forall2 R l1 l2 -> Forall2 R l2 l3 -> Forall2 R l1 l3.
Proof.
  intros T l1 l2 l3 H. revert l3. induction H; intros l3 H3; inversion H3; subst; constructor; eauto.
Qed.

Lemma sim_trans a b c : sim a b -> sim b c -> sim a c.
Proof.
  intros (F1 & T1 & H1) (F2 & T2 & H2). repeat split; try congruence.
  exact (Forall2_trans _ ct_sim_trans _ _ _ H1 H2).
Qed.

(** * names on [sim] states *)

Lemma i_name_inspect i : i_name (inspect_index i) = i_name i.
Proof. reflexivity. Qed.

Lemma map_i_name_inspect l : map i_name (map inspect_index l) = map i_name l.
Proof. rewrite map_map. reflexivity. Qed.

Lemma ct_sim_names c c' :
  ct_sim c c' -> ct_name c = ct_name c' /\ Permutation (map i_name (ct_idx c)) (map i_name (ct_idx c')).
Proof.
  intros S. pose proof (ct_sim_inv _ _ S) as E. destruct S as [_ P]. split.
  - rewrite E. now rewrite ct_name_with.
  - rewrite <- (map_i_name_inspect (ct_idx c)), <- (map_i_name_inspect (ct_idx c')). now apply Permutation_map.
Qed.

Lemma all_names_sim l l' : Forall2 ct_sim l l' -> Permutation (all_names l) (all_names l').
Proof.
  unfold all_names. induction 1 as [|c c' l l' S F IH]; simpl; [constructor|].
  destruct (ct_sim_names _ _ S) as [En Pn]. rewrite En.
  constructor. apply Permutation_app; [exact Pn|exact IH].
Qed.

Lemma existsb_perm {A} (f : A -> bool) l l' : Permutation l l' -> existsb f l = existsb f l'.
Proof.
  induction 1; simpl; try congruence.
  - destruct (f y), (f x); reflexivity.
Qed.

Lemma name_used_sim n l l' : Forall2 ct_sim l l' -> name_used n l = name_used n l'.
Proof. intros F. unfold name_used. apply existsb_perm. now apply all_names_sim. Qed.

Lemma find_ct_sim n l l' :
  Forall2 ct_sim l l' ->
  match find_ct n l, find_ct n l' with
  | Some c, Some c' => ct_sim c c'
  | None, None => True
  | _, _ => False
  end.
Proof.
  unfold find_ct. induction 1 as [|c c' l l' S F IH]; simpl; [exact I|].
  destruct (ct_sim_names _ _ S) as [En _]. rewrite <- En.
  destruct (str_eqb (ct_name c) n); [exact S|exact IH].
Qed.

Lemma update_ct_sim n f f' l l' :
  Forall2 ct_sim l l' -> (forall c c', ct_sim c c' -> ct_sim (f c) (f' c')) ->
  Forall2 ct_sim (update_ct n f l) (update_ct n f' l').
Proof.
  intros F Hf. induction F as [|c c' l l' S F IH]; simpl; [constructor|].
  destruct (ct_sim_names _ _ S) as [En _]. rewrite <- En.
  destruct (str_eqb (ct_name c) n); constructor; auto.
Qed.

Lemma map_ct_sim f f' l l' :
  Forall2 ct_sim l l' -> (forall c c', ct_sim c c' -> ct_sim (f c) (f' c')) ->
  Forall2 ct_sim (map f l) (map f' l').
Proof. intros F Hf. induction F; simpl; constructor; auto. Qed.

(** * DROP INDEX on [sim] states *)

Lemma filter_map_comm {A B} (g : A -> B) (q : B -> bool) l :
  map g (filter (fun x => q (g x)) l) = filter q (map g l).
Proof. induction l as [|x l IH]; simpl; [reflexivity|]. destruct (q (g x)); simpl; now rewrite IH. Qed.

Lemma Permutation_filter' {A} (q : A -> bool) l l' :
  Permutation l l' -> Permutation (filter q l) (filter q l').
Proof.
  induction 1; simpl; auto.
  - destruct (q x); auto.
  - destruct (q y), (q x); auto. apply perm_swap.
  - eapply Permutation_trans; eassumption.
Qed.

Lemma drop_idx_in_with n c : drop_idx_in n c = with_idx c (filter (fun i => negb (str_eqb (i_name i) n)) (ct_idx c)).
Proof. reflexivity. Qed.

Lemma drop_idx_in_sim n c c' : ct_sim c c' -> ct_sim (drop_idx_in n c) (drop_idx_in n c').
Proof.
  intros S. rewrite (ct_sim_inv _ _ S) at 1. destruct S as [_ P].
  rewrite !drop_idx_in_with, ct_idx_with, with_idx_with. apply ct_sim_with.
  assert (E : forall l, map inspect_index (filter (fun i => negb (str_eqb (i_name i) n)) l)
                      = filter (fun j => negb (str_eqb (i_name j) n)) (map inspect_index l)).
  { induction l as [|x l IH]; simpl; [reflexivity|].
    destruct (negb (str_eqb (i_name x) n)); simpl; now rewrite IH. }
  rewrite !E. now apply Permutation_filter'.
Qed.

Lemma existsb_map' {A B} (f : B -> bool) (g : A -> B) l : existsb f (map g l) = existsb (fun x => f (g x)) l.
Proof. induction l as [|x l IH]; simpl; [reflexivity|now rewrite IH]. Qed.

Lemma has_index_sim n c c' : ct_sim c c' -> has_index n c = has_index n c'.
Proof.
  intros S. destruct (ct_sim_names _ _ S) as [_ P]. unfold has_index.
  fold (ct_idx c) (ct_idx c').
  transitivity (existsb (fun m => str_eqb m n) (map i_name (ct_idx c))).
  - now rewrite existsb_map'.
  - rewrite (existsb_perm _ _ _ P). now rewrite existsb_map'.
Qed.

Lemma drop_index_shape d n d' :
  drop_index d n = Ok d' <->
  existsb (has_index n) (db_tables d) = true /\ d' = set_tables d (map (drop_idx_in n) (db_tables d)).
Proof.
  unfold drop_index. destruct (existsb (has_index n) (db_tables d)); split.
  - intros H; inversion H; split; reflexivity.
  - intros [_ ->]; reflexivity.
  - discriminate.
  - intros [H _]; discriminate.
Qed.

Lemma drop_index_congr d a n d' :
  sim d a -> drop_index d n = Ok d' -> exists a', drop_index a n = Ok a' /\ sim d' a'.
Proof.
  intros (Ef & Et & F) H. apply drop_index_shape in H as [He ->].
  exists (set_tables a (map (drop_idx_in n) (db_tables a))). split.
  - apply drop_index_shape. split; [|reflexivity]. rewrite <- He. symmetry.
    clear He. induction F as [|c c' l l' S F IH]; simpl; [reflexivity|].
    now rewrite (has_index_sim _ _ _ S), IH.
  - repeat split; try assumption. simpl. apply map_ct_sim; [exact F|]. intros; now apply drop_idx_in_sim.
Qed.

(** * CREATE INDEX on [sim] states *)

Lemma create_index_intro d n i ct :
  find_ct n (db_tables d) = Some ct ->
  index_def_ok (ct_t ct) i = Ok tt -> name_used (i_name i) (db_tables d) = false ->
  match i_unique i, i_pred i, part_col_names (i_parts i) with
  | true, None, Some cols => has_dup_on cols (ct_rows ct) = false
  | _, _, _ => True
  end ->
  create_index d n i = Ok (set_tables d (update_ct n (add_idx_in i) (db_tables d))).
Proof.
  intros Hf Hdef Hu Hd. unfold create_index. rewrite Hf, Hdef, Hu.
  destruct (i_unique i), (i_pred i), (part_col_names (i_parts i)); try reflexivity.
  rewrite Hd. reflexivity.
Qed.

Lemma create_index_facts d n i d1 :
  create_index d n i = Ok d1 ->
  exists ct, find_ct n (db_tables d) = Some ct /\
    index_def_ok (ct_t ct) i = Ok tt /\ name_used (i_name i) (db_tables d) = false /\
    match i_unique i, i_pred i, part_col_names (i_parts i) with
    | true, None, Some cols => has_dup_on cols (ct_rows ct) = false
    | _, _, _ => True
    end /\
    d1 = set_tables d (update_ct n (add_idx_in i) (db_tables d)).
Proof.
  unfold create_index. intros H.
  destruct (find_ct n (db_tables d)) as [ct|] eqn:Ef; [|discriminate].
  destruct (index_def_ok (ct_t ct) i) as [[]|] eqn:Edef; [|discriminate].
  destruct (name_used (i_name i) (db_tables d)) eqn:Eu; [discriminate|].
  exists ct. repeat split; try assumption; try reflexivity.
  - destruct (i_unique i), (i_pred i), (part_col_names (i_parts i)); try exact I.
    destruct (has_dup_on l (ct_rows ct)); [discriminate|reflexivity].
  - destruct (i_unique i), (i_pred i), (part_col_names (i_parts i)); try (inversion H; reflexivity).
    destruct (has_dup_on l (ct_rows ct)); [discriminate|inversion H; reflexivity].
Qed.

Lemma part_ok_b_with c l p : part_ok_b (ct_t (with_idx c l)) p = part_ok_b (ct_t c) p.
Proof. unfold part_ok_b. destruct (p_col p); [|reflexivity]. now rewrite has_col_with. Qed.

Lemma first_err_ext {A} (f g : A -> result unit) l : (forall a, f a = g a) -> first_err f l = first_err g l.
Proof. intros H. induction l as [|x l IH]; simpl; [reflexivity|]. rewrite H. destruct (g x); auto. Qed.

Lemma index_def_ok_with c l i : index_def_ok (ct_t (with_idx c l)) i = index_def_ok (ct_t c) i.
Proof.
  unfold index_def_ok. destruct (i_name i); [reflexivity|]. destruct (reserved_name _); [reflexivity|].
  destruct (i_parts i); [reflexivity|]. apply first_err_ext. apply part_ok_b_with.
Qed.

Lemma add_idx_in_with i c : add_idx_in i c = with_idx c (ct_idx c ++ [i]).
Proof. reflexivity. Qed.

Lemma add_idx_in_sim i c c' : ct_sim c c' -> ct_sim (add_idx_in i c) (add_idx_in i c').
Proof.
  intros S. rewrite (ct_sim_inv _ _ S) at 1. destruct S as [_ P].
  rewrite !add_idx_in_with, ct_idx_with, with_idx_with. apply ct_sim_with.
  rewrite !map_app. now apply Permutation_app_tail.
Qed.

Lemma create_index_congr d a n i d' :
  sim d a -> create_index d n i = Ok d' -> exists a', create_index a n i = Ok a' /\ sim d' a'.
Proof.
  intros (Ef & Et & F) H.
  destruct (create_index_facts _ _ _ _ H) as (ct & Hf & Hdef & Hu & Hd & ->).
  pose proof (find_ct_sim n _ _ F) as Hfa. rewrite Hf in Hfa.
  destruct (find_ct n (db_tables a)) as [ct'|] eqn:Efa; [|contradiction].
  pose proof (ct_sim_inv _ _ Hfa) as Ect.
  exists (set_tables a (update_ct n (add_idx_in i) (db_tables a))). split.
  - apply (create_index_intro a n i ct'); try assumption.
    + rewrite Ect, index_def_ok_with. exact Hdef.
    + now rewrite <- (name_used_sim _ _ _ F).
    + rewrite Ect, ct_rows_with. exact Hd.
  - repeat split; try assumption. simpl. apply update_ct_sim; [exact F|]. intros; now apply add_idx_in_sim.
Qed.

(** * DROP COLUMN on [sim] states *)

Definition last_stored_check (ct : ctable) (c : str) : bool :=
  Nat.leb (length (filter (fun col => match c_gen col with None => true | Some _ => false end) (t_cols (ct_t ct)))) 1
  && negb (is_generated (ct_t ct) c).

Lemma drop_column_shape d n c d' :
  drop_column d n c = Ok d' <->
  exists ct, find_ct n (db_tables d) = Some ct /\ has_col (ct_t ct) c = true /\
    col_used ct c = false /\ last_stored_check ct c = false /\
    d' = set_tables d (update_ct n (drop_col_in c) (db_tables d)).
Proof.
  unfold drop_column, last_stored_check. split.
  - intros H. destruct (find_ct n (db_tables d)) as [ct|]; [|discriminate].
    exists ct. destruct (has_col (ct_t ct) c); [|discriminate]. destruct (col_used ct c); [discriminate|].
    simpl in H.
    match type of H with (if ?P then _ else _) = _ => destruct P; [discriminate|] end.
    inversion H. repeat split; reflexivity.
  - intros (ct & -> & -> & -> & Hl & ->). simpl. rewrite Hl. reflexivity.
Qed.

Definition part_has (c : str) (i : index) : bool :=
  existsb (fun p => ostr_eqb (p_col p) (Some c)) (i_parts i).

Lemma existsb_number_parts (h : part -> bool) (f : part -> part) :
  (forall k p, h (mkPart k (p_desc (f p)) (p_col (f p)) (p_expr (f p))) = h p) ->
  forall l k, existsb h (number_parts k (map f l)) = existsb h l.
Proof.
  intros H. induction l as [|p l IH]; intros k; simpl; [reflexivity|]. now rewrite H, IH.
Qed.

Lemma part_has_inspect c i : part_has c (inspect_index i) = part_has c i.
Proof.
  unfold part_has, inspect_index. simpl. apply existsb_number_parts. intros k p. reflexivity.
Qed.

Lemma existsb_part_has_perm c l l' :
  Permutation (map inspect_index l) (map inspect_index l') ->
  existsb (part_has c) l = existsb (part_has c) l'.
Proof.
  intros P.
  assert (E : forall m, existsb (part_has c) m = existsb (part_has c) (map inspect_index m)).
  { intros m. rewrite existsb_map'. induction m as [|x m IH]; simpl; [reflexivity|].
    now rewrite part_has_inspect, IH. }
  rewrite (E l), (E l'). now apply existsb_perm.
Qed.

Lemma col_used_with ct l c :
  Permutation (map inspect_index (ct_idx ct)) (map inspect_index l) ->
  col_used (with_idx ct l) c = col_used ct c.
Proof.
  intros P. destruct ct as [[t a] u r]. destruct t as [tn wr st cols pk idx fks chk].
  unfold col_used, col_in_index, col_in_fk, with_idx, ct_idx, set_ct_t, ct_t, ct_x, set_x_t, x_t, ct_uniques, set_t_idx in *.
  simpl in *. f_equal. f_equal.
  fold (part_has c). destruct pk as [p|]; simpl; [f_equal|]; symmetry; now apply existsb_part_has_perm.
Qed.

Lemma last_stored_check_with ct l c : last_stored_check (with_idx ct l) c = last_stored_check ct c.
Proof. destruct ct as [[t a] u r]; destruct t; reflexivity. Qed.

Lemma drop_col_in_with c ct l : drop_col_in c (with_idx ct l) = with_idx (drop_col_in c ct) l.
Proof. destruct ct as [[t a] u r]; destruct t; reflexivity. Qed.
Lemma ct_idx_drop_col c ct : ct_idx (drop_col_in c ct) = ct_idx ct.
Proof. destruct ct as [[t a] u r]; destruct t; reflexivity. Qed.

Lemma drop_col_in_sim x c c' : ct_sim c c' -> ct_sim (drop_col_in x c) (drop_col_in x c').
Proof.
  intros S. rewrite (ct_sim_inv _ _ S). destruct S as [_ P].
  rewrite drop_col_in_with. rewrite <- (with_idx_self (drop_col_in x c)) at 1.
  apply ct_sim_with. now rewrite ct_idx_drop_col.
Qed.

Lemma drop_column_congr d a n c d' :
  sim d a -> drop_column d n c = Ok d' -> exists a', drop_column a n c = Ok a' /\ sim d' a'.
Proof.
  intros (Ef & Et & F) H. apply drop_column_shape in H as (ct & Hf & Hh & Hu & Hl & ->).
  pose proof (find_ct_sim n _ _ F) as Hfa. rewrite Hf in Hfa.
  destruct (find_ct n (db_tables a)) as [ct'|] eqn:Efa; [|contradiction].
  pose proof (ct_sim_inv _ _ Hfa) as Ect. destruct Hfa as [_ P].
  exists (set_tables a (update_ct n (drop_col_in c) (db_tables a))). split.
  - apply drop_column_shape. exists ct'. split; [exact Efa|]. rewrite Ect.
    rewrite has_col_with, (col_used_with _ _ _ P), last_stored_check_with. auto.
  - repeat split; try assumption. simpl. apply update_ct_sim; [exact F|]. intros; now apply drop_col_in_sim.
Qed.

(** * DROP TABLE of an empty table on [sim] states *)

Lemma Forall2_app_inv_l' {A B} (R : A -> B -> Prop) l1 x l :
  Forall2 R (l1 ++ [x]) l -> exists l1' x', l = l1' ++ [x'] /\ Forall2 R l1 l1' /\ R x x'.
Proof.
  intros H. apply Forall2_app_inv_l in H as (l1' & l2' & H1 & H2 & ->).
  inversion H2 as [|? x' ? l3 Hx H3]; subst. inversion H3; subst.
  exists l1', x'. auto.
Qed.

Lemma Forall2_in_r {A B} (R : A -> B -> Prop) l l' y :
  Forall2 R l l' -> In y l' -> exists x, In x l /\ R x y.
Proof.
  induction 1 as [|a b l l' Hab F IH]; intros Hy; [contradiction|].
  destruct Hy as [<-|Hy]; [exists a; split; [now left|exact Hab]|].
  destruct (IH Hy) as (x & Hx & Rx). exists x. split; [now right|exact Rx].
Qed.

Lemma t_fks_with c l : t_fks (ct_t (with_idx c l)) = t_fks (ct_t c).
Proof. destruct c as [[t a] u r]; destruct t; reflexivity. Qed.

Lemma existsb_Forall2 {A B} (R : A -> B -> Prop) (g : A -> bool) (g' : B -> bool) l l' :
  Forall2 R l l' -> (forall c c', R c c' -> g c = g' c') -> existsb g l = existsb g' l'.
Proof. intros F H. induction F; simpl; [reflexivity|]. now rewrite (H _ _ H0), IHF. Qed.

Lemma existsb_ext' {A} (f g : A -> bool) l : (forall x, f x = g x) -> existsb f l = existsb g l.
Proof. intros H. induction l as [|x l IH]; simpl; [reflexivity|]. now rewrite H, IH. Qed.

Lemma fk_missing_parent_sim l l' f : Forall2 ct_sim l l' -> fk_missing_parent l f = fk_missing_parent l' f.
Proof.
  intros F. unfold fk_missing_parent. pose proof (find_ct_sim (f_reftable f) _ _ F) as H.
  destruct (find_ct (f_reftable f) l), (find_ct (f_reftable f) l'); try reflexivity; contradiction.
Qed.

Lemma graph_of_sim l l' : Forall2 ct_sim l l' -> graph_of l = graph_of l'.
Proof.
  intros F. unfold graph_of. induction F as [|c c' l l' S F IH]; [reflexivity|]. cbn [map]. rewrite IH. f_equal.
  rewrite (ct_sim_inv _ _ S), t_fks_with. f_equal.
Qed.
Lemma drop_blocked_sim n l l' : Forall2 ct_sim l l' -> drop_blocked n l = drop_blocked n l'.
Proof. intros F. unfold drop_blocked. rewrite (graph_of_sim _ _ F). reflexivity. Qed.

Lemma droppable_sim d a n : sim d a -> droppable d n = droppable a n.
Proof. intros (Ef & _ & F). unfold droppable. now rewrite Ef, (drop_blocked_sim _ _ _ F). Qed.

Lemma create_drop_table_sim d x d1 a1 :
  create_table d x [] = Ok d1 -> droppable d1 (t_name (x_t x)) = true -> sim d1 a1 ->
  exists a, drop_table a1 (t_name (x_t x)) = Ok a /\ sim d a.
Proof.
  intros H Hdr S. rewrite (droppable_sim _ _ _ S) in Hdr. destruct S as (Ef & Et & F).
  destruct (create_table_shape _ _ _ _ H) as (c & -> & Hn & Hr & Hu & _).
  simpl in F, Ef, Et. apply Forall2_app_inv_l' in F as (l1' & c' & Ea & F1 & Sc).
  pose proof (name_used_false _ _ Hu) as Hfree.
  assert (Hl : forall c0, In c0 l1' -> str_eqb (ct_name c0) (t_name (x_t x)) = false).
  { intros c0 Hc0. destruct (Forall2_in_r _ _ _ _ F1 Hc0) as (c1 & Hc1 & S1).
    destruct (ct_sim_names _ _ S1) as [<- _]. exact (proj1 (Hfree c1 Hc1)). }
  assert (Hc : str_eqb (ct_name c') (t_name (x_t x)) = true).
  { destruct (ct_sim_names _ _ Sc) as [<- _]. rewrite Hn. apply str_eqb_refl. }
  assert (Hr' : ct_rows c' = []).
  { rewrite (ct_sim_inv _ _ Sc), ct_rows_with. exact Hr. }
  exists (set_tables a1 l1'). split.
  - unfold drop_table. unfold droppable in Hdr. rewrite Ea in *. rewrite (find_ct_app_new _ _ _ Hl Hc), Hr'.
    destruct (db_fk a1).
    + simpl in Hdr. apply negb_true_iff in Hdr. rewrite Hdr.
      now rewrite implicit_delete_nil, (remove_ct_app_new _ _ _ Hl Hc).
    + now rewrite (remove_ct_app_new _ _ _ Hl Hc).
  - repeat split; assumption.
Qed.

(** * the drop-index arm: CREATE INDEX after DROP INDEX restores the state up to [sim] *)

Lemma find_ct_split n l ct :
  find_ct n l = Some ct ->
  exists l1 l2, l = l1 ++ ct :: l2 /\ str_eqb (ct_name ct) n = true /\
    forall c, In c l1 -> str_eqb (ct_name c) n = false.
Proof.
  unfold find_ct. induction l as [|c l IH]; simpl; intros H; [discriminate|].
  destruct (str_eqb (ct_name c) n) eqn:E.
  - inversion H; subst c. exists [], l. repeat split; auto. intros c [].
  - destruct (IH H) as (l1 & l2 & -> & Hn & Hl). exists (c :: l1), l2. repeat split; auto.
    intros c0 [<-|H0]; auto.
Qed.

Lemma update_ct_split n f l1 ct l2 :
  str_eqb (ct_name ct) n = true -> (forall c, In c l1 -> str_eqb (ct_name c) n = false) ->
  update_ct n f (l1 ++ ct :: l2) = l1 ++ f ct :: l2.
Proof.
  intros Hn Hl. induction l1 as [|c l1 IH]; simpl.
  - now rewrite Hn.
  - rewrite (Hl c (or_introl eq_refl)). f_equal. apply IH. intros c0 H0. apply Hl. now right.
Qed.

Lemma all_names_app l1 l2 : all_names (l1 ++ l2) = all_names l1 ++ all_names l2.
Proof. unfold all_names. apply flat_map_app. Qed.

Lemma all_names_cons c l : all_names (c :: l) = (ct_name c :: map i_name (ct_idx c)) ++ all_names l.
Proof. reflexivity. Qed.

Lemma mid_eq {A} (X : list A) x P m Q B :
  X ++ (x :: P ++ m :: Q) ++ B = (X ++ x :: P) ++ m :: (Q ++ B).
Proof. rewrite <- !app_assoc. simpl. rewrite <- !app_assoc. reflexivity. Qed.
Lemma mid_eq' {A} (X : list A) x P Q B :
  X ++ (x :: P ++ Q) ++ B = (X ++ x :: P) ++ (Q ++ B).
Proof. rewrite <- !app_assoc. simpl. rewrite <- !app_assoc. reflexivity. Qed.

Lemma nodup_mid {A} (X : list A) x P m Q B :
  NoDup (X ++ (x :: P ++ m :: Q) ++ B) ->
  ~ In m X /\ x <> m /\ ~ In m P /\ ~ In m Q /\ ~ In m B /\ NoDup (X ++ (x :: P ++ Q) ++ B).
Proof.
  rewrite mid_eq, mid_eq'. intros ND. pose proof (NoDup_remove_2 _ _ _ ND) as N.
  repeat split; try (intros H; apply N; apply in_or_app).
  - left. apply in_or_app. now left.
  - left. apply in_or_app. right. left. exact H.
  - left. apply in_or_app. right. right. exact H.
  - right. apply in_or_app. now left.
  - right. apply in_or_app. now right.
  - exact (NoDup_remove_1 _ _ _ ND).
Qed.

Lemma all_names_split l1 ct l2 pre j post :
  ct_idx ct = pre ++ j :: post ->
  all_names (l1 ++ ct :: l2) =
  all_names l1 ++ (ct_name ct :: map i_name pre ++ i_name j :: map i_name post) ++ all_names l2.
Proof. intros E. rewrite all_names_app, all_names_cons, E, map_app. reflexivity. Qed.

(** the index [j] named [n] of table [ct] is the only object of the namespace with that name *)
Lemma names_ok_unique l l1 ct l2 pre j post n :
  NoDup (all_names l) -> l = l1 ++ ct :: l2 -> ct_idx ct = pre ++ j :: post -> i_name j = n ->
  ~ In n (all_names l1) /\ ct_name ct <> n /\ ~ In n (map i_name pre) /\ ~ In n (map i_name post) /\
  ~ In n (all_names l2) /\
  NoDup (all_names l1 ++ (ct_name ct :: map i_name pre ++ map i_name post) ++ all_names l2).
Proof.
  intros ND -> Ei En. rewrite (all_names_split _ _ _ _ _ _ Ei), En in ND. exact (nodup_mid _ _ _ _ _ _ ND).
Qed.

Lemma not_in_all_names n l :
  ~ In n (all_names l) -> forall c, In c l -> ct_name c <> n /\ forall k, In k (ct_idx c) -> i_name k <> n.
Proof.
  intros H c Hc. split.
  - intros E. apply H. unfold all_names. apply in_flat_map. exists c. split; [exact Hc|]. left. exact E.
  - intros k Hk E. apply H. unfold all_names. apply in_flat_map. exists c. split; [exact Hc|].
    right. apply in_map_iff. exists k. split; assumption.
Qed.

Lemma map_drop_id n l :
  ~ In n (all_names l) -> map (drop_idx_in n) l = l.
Proof.
  intros H. rewrite <- (map_id l) at 2. apply map_ext_in. intros c Hc.
  apply drop_idx_in_id. intros i Hi. apply str_eqb_neq.
  exact (proj2 (not_in_all_names _ _ H c Hc) i Hi).
Qed.

Lemma filter_not_name n (l : list index) :
  ~ In n (map i_name l) -> filter (fun i => negb (str_eqb (i_name i) n)) l = l.
Proof.
  intros H. apply filter_names_id. intros i Hi. apply str_eqb_neq. intros E. apply H.
  apply in_map_iff. exists i. split; assumption.
Qed.

Lemma name_used_not_in n l : ~ In n (all_names l) -> name_used n l = false.
Proof.
  intros H. unfold name_used. destruct (existsb (str_eqb n) (all_names l)) eqn:E; [|reflexivity].
  apply existsb_exists in E as (m & Hm & Em). apply str_eqb_eq in Em. subst m. contradiction.
Qed.

Lemma drop_create_index d n t i d1 :
  names_ok d -> faithful_idx d n t i -> i_name i = n -> drop_index d n = Ok d1 ->
  exists d', create_index d1 t i = Ok d' /\ sim d d' /\
    (* what the forward step leaves: the invariants of the exact chain *)
    names_ok d1.
Proof.
  intros ND (ct & j & Hf & Hj & Hjn & Hii & Hdef & Hdup) Hin H.
  apply drop_index_shape in H as [_ ->].
  destruct (find_ct_split _ _ _ Hf) as (l1 & l2 & El & Hct & Hl1).
  apply in_split in Hj as (pre & post & Eidx).
  destruct (names_ok_unique _ _ _ _ _ _ _ _ ND El Eidx Hjn) as (N1 & Nc & Npre & Npost & N2 & ND1).
  (* the tables after DROP INDEX n *)
  assert (Ect1 : drop_idx_in n ct = with_idx ct (pre ++ post)).
  { rewrite drop_idx_in_with, Eidx, filter_app. simpl. rewrite Hjn, str_eqb_refl. simpl.
    now rewrite (filter_not_name _ _ Npre), (filter_not_name _ _ Npost). }
  assert (Etabs : map (drop_idx_in n) (db_tables d) = l1 ++ with_idx ct (pre ++ post) :: l2).
  { rewrite El, map_app. simpl. now rewrite (map_drop_id _ _ N1), (map_drop_id _ _ N2), Ect1. }
  assert (Nafter : ~ In n (all_names (l1 ++ with_idx ct (pre ++ post) :: l2))).
  { rewrite all_names_app, all_names_cons, ct_name_with, ct_idx_with, map_app.
    intros X. apply in_app_or in X as [X|X]; [contradiction|].
    apply in_app_or in X as [X|X]; [|contradiction].
    destruct X as [X|X]; [contradiction|]. apply in_app_or in X as [X|X]; contradiction. }
  assert (Hn1 : str_eqb (ct_name (with_idx ct (pre ++ post))) t = true) by now rewrite ct_name_with.
  assert (Hf1 : find_ct t (l1 ++ with_idx ct (pre ++ post) :: l2) = Some (with_idx ct (pre ++ post))).
  { unfold find_ct. clear -Hl1 Hn1. induction l1 as [|c l1 IH]; simpl; [now rewrite Hn1|].
    rewrite (Hl1 c (or_introl eq_refl)). apply IH. intros c0 H0. apply Hl1. now right. }
  eexists. split; [|split].
  - cbn [db_tables set_tables]. rewrite Etabs.
    refine (create_index_intro (set_tables d (l1 ++ with_idx ct (pre ++ post) :: l2)) t i
              (with_idx ct (pre ++ post)) Hf1 _ _ _); cbn [db_tables set_tables].
    + rewrite index_def_ok_with. exact Hdef.
    + rewrite Hin. now apply name_used_not_in.
    + rewrite ct_rows_with. exact Hdup.
  - cbn [db_tables set_tables]. rewrite (update_ct_split _ _ _ _ _ Hn1 Hl1).
    repeat split; try reflexivity. cbn [db_tables set_tables]. rewrite El.
    apply Forall2_app; [clear; induction l1; constructor; auto using ct_sim_refl|].
    constructor; [|clear; induction l2; constructor; auto using ct_sim_refl].
    rewrite add_idx_in_with, ct_idx_with, with_idx_with.
    rewrite <- (with_idx_self ct) at 1. apply ct_sim_with. rewrite Eidx.
    rewrite !map_app. simpl. rewrite Hii.
    rewrite <- app_assoc. apply Permutation_app_head. simpl.
    apply Permutation_cons_append.
  - unfold names_ok. cbn [db_tables set_tables]. rewrite Etabs.
    rewrite all_names_app, all_names_cons, ct_name_with, ct_idx_with, map_app. exact ND1.
Qed.

(** * the invariants along the forward statements *)

Lemma forallb_filter {A} (f g : A -> bool) l : forallb f l = true -> forallb f (filter g l) = true.
Proof.
  induction l as [|x l IH]; simpl; [auto|]. intros H. apply andb_true_iff in H as [H1 H2].
  destruct (g x); simpl; [rewrite H1|]; auto.
Qed.

Lemma drop_idx_in_wf n c : ct_wf c = true -> ct_wf (drop_idx_in n c) = true.
Proof.
  intros W. destruct (ct_wf_parts c W) as (Wa & Wr & Wpk & Wi & Wf & Wu & Ws).
  destruct c as [[t a] u r]. destruct t as [tn wr st cols pk idx fks chk].
  unfold ct_wf, drop_idx_in, set_ct_t, ct_t, ct_x, set_x_t, x_t, x_autoinc, ct_rows, ct_uniques, set_t_idx in *.
  simpl in *.
  change (has_col (mkTable tn wr st cols pk (filter (fun i => negb (str_eqb (i_name i) n)) idx) fks chk))
    with (has_col (mkTable tn wr st cols pk idx fks chk)).
  change (parts_in (mkTable tn wr st cols pk (filter (fun i => negb (str_eqb (i_name i) n)) idx) fks chk))
    with (parts_in (mkTable tn wr st cols pk idx fks chk)).
  rewrite Wa, Wr, Wf, Wu, Ws, (forallb_filter _ _ _ Wi). destruct pk; [rewrite Wpk|]; reflexivity.
Qed.

Lemma drop_index_wf d n d1 : db_wf d = true -> drop_index d n = Ok d1 -> db_wf d1 = true.
Proof.
  intros W H. apply drop_index_shape in H as [_ ->]. unfold db_wf in *. cbn [db_tables set_tables].
  rewrite forallb_forall in *. intros c Hc. apply in_map_iff in Hc as (c0 & <- & Hc0).
  apply drop_idx_in_wf. now apply W.
Qed.

Lemma create_table_idx d x us d1 :
  create_table d x us = Ok d1 ->
  exists c, d1 = set_tables d (db_tables d ++ [c]) /\ ct_name c = t_name (x_t x) /\ ct_idx c = [].
Proof.
  unfold create_table, new_ctable. intros H.
  destruct (reserved_name (t_name (x_t x))); [discriminate|].
  destruct (table_checks x us) as [pk|]; [|discriminate].
  destruct (name_used (t_name (x_t x)) (db_tables d)); [discriminate|].
  inversion H. eexists. repeat split; reflexivity.
Qed.

Lemma create_table_names d x d1 : names_ok d -> create_table d x [] = Ok d1 -> names_ok d1.
Proof.
  intros ND H. destruct (create_table_shape _ _ _ _ H) as (c0 & _ & _ & _ & Hu & _).
  destruct (create_table_idx _ _ _ _ H) as (c & -> & Hn & Hi).
  unfold names_ok in *. cbn [db_tables set_tables]. rewrite all_names_app.
  rewrite (all_names_cons c []), Hi, Hn. simpl.
  apply (Permutation_NoDup (Permutation_cons_append (all_names (db_tables d)) (t_name (x_t x)))).
  constructor; [|exact ND]. intros Hm.
  unfold name_used in Hu. apply Bool.not_true_iff_false in Hu. apply Hu.
  apply existsb_exists. exists (t_name (x_t x)). split; [exact Hm|apply str_eqb_refl].
Qed.

Lemma create_index_names d t i d1 : names_ok d -> create_index d t i = Ok d1 -> names_ok d1.
Proof.
  intros ND H. destruct (create_index_facts _ _ _ _ H) as (ct & Hf & _ & Hu & _ & ->).
  destruct (find_ct_split _ _ _ Hf) as (l1 & l2 & El & Hct & Hl1).
  unfold names_ok in *. cbn [db_tables set_tables]. rewrite El in *.
  rewrite (update_ct_split _ _ _ _ _ Hct Hl1).
  rewrite all_names_app, all_names_cons in *. rewrite add_idx_in_with, ct_name_with, ct_idx_with, map_app.
  change (map i_name [i]) with [i_name i].
  assert (Hm : ~ In (i_name i) (all_names l1 ++ (ct_name ct :: map i_name (ct_idx ct)) ++ all_names l2)).
  { intros Hm. unfold name_used in Hu. apply Bool.not_true_iff_false in Hu. apply Hu.
    apply existsb_exists. exists (i_name i). split; [|apply str_eqb_refl].
    rewrite all_names_app, all_names_cons. exact Hm. }
  set (A := all_names l1) in *. set (B := all_names l2) in *. set (x := ct_name ct) in *.
  set (P := map i_name (ct_idx ct)) in *. set (m := i_name i) in *.
  assert (E : A ++ (x :: P ++ [m]) ++ B = (A ++ x :: P) ++ m :: B).
  { rewrite <- !app_assoc. simpl. rewrite <- !app_assoc. reflexivity. }
  assert (E2 : A ++ (x :: P) ++ B = (A ++ x :: P) ++ B).
  { rewrite <- !app_assoc. reflexivity. }
  rewrite E. rewrite E2 in ND, Hm.
  apply (Permutation_NoDup (Permutation_middle (A ++ x :: P) B m)). constructor; assumption.
Qed.

Lemma all_names_update_same n f l :
  (forall c, ct_name (f c) = ct_name c /\ ct_idx (f c) = ct_idx c) ->
  all_names (update_ct n f l) = all_names l.
Proof.
  intros Hf. induction l as [|c l IH]; simpl; [reflexivity|].
  destruct (str_eqb (ct_name c) n).
  - rewrite !all_names_cons. destruct (Hf c) as [-> ->]. reflexivity.
  - rewrite !all_names_cons. now rewrite IH.
Qed.

Lemma add_column_names d t c ai d1 : names_ok d -> add_column d t c ai = Ok d1 -> names_ok d1.
Proof.
  intros ND H. destruct (add_column_shape _ _ _ _ _ H) as (ct & vo & _ & _ & ->).
  unfold names_ok in *. cbn [db_tables set_tables]. rewrite all_names_update_same; [exact ND|].
  intros [[tt a] u r]. destruct tt. split; reflexivity.
Qed.

(** * up then down, for lists of additive and drop-index arms *)

Lemma drop_index_arm_inv pc n t i :
  drop_index_arm pc = Some (n, t, i) ->
  pc_cmd pc = SDropIndex n /\ pc_reverse pc = [SCreateIndex t i] /\ i_name i = n.
Proof.
  unfold drop_index_arm. destruct (pc_cmd pc); try discriminate.
  destruct (pc_reverse pc) as [|[] [|]]; try discriminate.
  destruct (str_eqb (i_name i0) n0) eqn:E; [|discriminate]. intros H; inversion H; subst.
  apply str_eqb_eq in E. auto.
Qed.

Lemma arm_step pc d dm am :
  db_wf d = true -> names_ok d ->
  ((additive pc = true /\ stmt_wf (pc_cmd pc) = true /\
    forall dm, exec d (pc_cmd pc) = Ok dm ->
      match pc_cmd pc with SCreateTable x _ => droppable dm (t_name (x_t x)) = true | _ => True end) \/
   (exists n t i, drop_index_arm pc = Some (n, t, i) /\ faithful_idx d n t i)) ->
  exec d (pc_cmd pc) = Ok dm -> sim dm am ->
  (exists a, exec_all am (pc_reverse pc) = Ok a /\ sim d a) /\ db_wf dm = true /\ names_ok dm.
Proof.
  intros W ND [(A & SW & DR0)|(n & t & i & Harm & Hfa)] E S.
  - pose proof (DR0 dm E) as DR.
    destruct (additive_step _ _ _ A SW W E DR) as [Hrev Wm]. split; [|split; [exact Wm|]].
    + unfold additive in A.
      destruct (pc_cmd pc) as [x us|n|a b|t c ai|t c|t a b|t i|n|tt tc ft fe|on] eqn:Ec; try discriminate.
      * destruct us; [|discriminate].
        destruct (pc_reverse pc) as [|[| n | | | | | | | |] [|]] eqn:Er; try discriminate.
        apply str_eqb_eq in A. subst n. simpl in E.
        destruct (create_drop_table_sim _ _ _ _ E DR S) as (a & Ha & Sa).
        exists a. simpl. now rewrite Ha.
      * destruct (pc_reverse pc) as [|[| | | | t' n | | | | |] [|]] eqn:Er; try discriminate.
        simpl in Hrev. destruct (drop_column dm t' n) as [d'|] eqn:Ed; [|discriminate].
        inversion Hrev; subst d'.
        destruct (drop_column_congr _ _ _ _ _ S Ed) as (a & Ha & Sa).
        exists a. simpl. now rewrite Ha.
      * destruct (pc_reverse pc) as [|[| | | | | | | n | |] [|]] eqn:Er; try discriminate.
        simpl in Hrev. destruct (drop_index dm n) as [d'|] eqn:Ed; [|discriminate].
        inversion Hrev; subst d'.
        destruct (drop_index_congr _ _ _ _ S Ed) as (a & Ha & Sa).
        exists a. simpl. now rewrite Ha.
    + unfold additive in A.
      destruct (pc_cmd pc) as [x us|n|a b|t c ai|t c|t a b|t i|n|tt tc ft fe|on] eqn:Ec; try discriminate; simpl in E.
      * destruct us; [|discriminate]. exact (create_table_names _ _ _ ND E).
      * exact (add_column_names _ _ _ _ _ ND E).
      * exact (create_index_names _ _ _ _ ND E).
  - destruct (drop_index_arm_inv _ _ _ _ Harm) as (Ec & Er & Ei). rewrite Ec in E. simpl in E. rewrite Er.
    destruct (drop_create_index _ _ _ _ _ ND Hfa Ei E) as (d' & Hc & Sd & NDm).
    destruct (create_index_congr _ _ _ _ _ S Hc) as (a & Ha & Sa).
    split; [|split; [exact (drop_index_wf _ _ _ W E)|exact NDm]].
    exists a. simpl. rewrite Ha. split; [reflexivity|exact (sim_trans _ _ _ Sd Sa)].
Qed.

Theorem arms_sound l : forall d d1,
  db_wf d = true -> names_ok d -> arms_ok d l ->
  exec_all d (up_stmts l) = Ok d1 ->
  exists d2, exec_all d1 (down_stmts l) = Ok d2 /\ sim d d2.
Proof.
  induction l as [|pc l IH]; intros d d1 W ND AO E.
  - simpl in E. inversion E; subst d1. exists d. split; [reflexivity|apply sim_refl].
  - simpl in E. destruct AO as [Harm Hnext].
    remember (exec d (pc_cmd pc)) as r eqn:Em in E. destruct r as [dm|]; [|discriminate]. symmetry in Em.
    (* the invariants of [dm] do not depend on the state the reverse runs on *)
    destruct (arm_step pc d dm dm W ND Harm Em (sim_refl dm)) as (_ & Wm & NDm).
    destruct (IH dm d1 Wm NDm (Hnext dm Em) E) as (am & Ham & Sm).
    destruct (arm_step pc d dm am W ND Harm Em Sm) as ((a & Ha & Sa) & _ & _).
    exists a. split; [|exact Sa].
    unfold down_stmts. simpl. rewrite flat_map_app. simpl. rewrite app_nil_r.
    rewrite exec_all_app. fold (down_stmts l). now rewrite Ham.
Qed.

(** * [sim] states inspect alike: the same tables, their indexes permuted *)

Lemma unique_autoindexes_name t t' : t_name t = t_name t' ->
  forall us k seen, unique_autoindexes t k seen us = unique_autoindexes t' k seen us.
Proof.
  intros E. induction us as [|u us IH]; intros k seen; simpl; [reflexivity|].
  destruct (existsb (strs_eqb u) seen); [apply IH|]. rewrite E. f_equal. apply IH.
Qed.

Lemma inspect_table_with c l :
  x_t (inspect_table (with_idx c l)) =
  set_t_idx (x_t (inspect_table c))
    (unique_autoindexes (ct_t c) (first_unique_no (ct_t c))
       (match t_pk (ct_t c) with
        | Some pk => match part_col_names (i_parts pk) with Some l0 => [l0] | None => [] end
        | None => []
        end) (ct_uniques c) ++ map inspect_index l).
Proof.
  destruct c as [[t a] u r]. destruct t as [tn wr st cols pk idx fks chk].
  unfold inspect_table, inspect_indexes, with_idx, set_ct_t, ct_t, ct_x, set_x_t, x_t, ct_uniques, set_t_idx.
  simpl. f_equal. f_equal. apply unique_autoindexes_name. reflexivity.
Qed.

Lemma ct_sim_table_perm c c' :
  ct_sim c c' -> table_perm (x_t (inspect_table c)) (x_t (inspect_table c')).
Proof.
  intros S. pose proof (ct_sim_inv _ _ S) as E. destruct S as [_ P].
  rewrite <- (with_idx_self c) at 1. rewrite E. rewrite !inspect_table_with.
  unfold table_perm. simpl. repeat split; try apply Permutation_refl.
  now apply Permutation_app_head.
Qed.

Lemma sim_schema_perm name d a :
  sim d a -> schema_perm (inspect_schema name d) (inspect_schema name a).
Proof.
  intros (_ & _ & F). split; [reflexivity|].
  exists (s_tables (inspect_schema name a)). split; [|apply Permutation_refl].
  unfold inspect_schema, schema_of, inspect. simpl. rewrite !map_map.
  induction F as [|c c' l l' S F IH]; simpl; constructor; [now apply ct_sim_table_perm|exact IH].
Qed.

(** hence no difference for the differ, on well-formed inspections (C02_perm_empty) *)
Lemma sim_diff_empty name skip d a :
  sim d a ->
  wf_schema sqlite_dwf (inspect_schema name d) ->
  SchemaDiff sqlite_driver skip (inspect_schema name d) (inspect_schema name a) = Some [].
Proof.
  intros S WF.
  exact (schema_diff_perm sqlite_driver skip sqlite_dwf DiffSqliteProofs.sqlite_refl_laws
           DiffSqliteProofs.sqlite_sim_laws _ _ WF (sim_schema_perm name d a S)).
Qed.

(** * the planner: a reversible plan without DropTable consists of additive and drop-index arms *)

Definition is_drop_idx (pc : pchange) : bool :=
  match drop_index_arm pc with Some _ => true | None => false end.
Definition good2 (pc : pchange) : bool := good pc || is_drop_idx pc.
Definition okc2 (pc : pchange) : bool := good2 pc || negb (pc_has_reverse pc).

Lemma good_good2 l : forallb good l = true -> forallb good2 l = true.
Proof. apply forallb_impl. intros pc H. unfold good2. now rewrite H. Qed.
Lemma good2_okc2 l : forallb good2 l = true -> forallb okc2 l = true.
Proof. apply forallb_impl. intros pc H. unfold okc2. now rewrite H. Qed.

Lemma dropIndexes_good2 t l r : dropIndexes t l = Some r -> forallb good2 r = true.
Proof.
  unfold dropIndexes. destruct (addIndexes t l) as [rs|] eqn:E; [|discriminate].
  intros H; inversion H; subst r; clear H. revert rs E.
  induction l as [|i l IH]; simpl; intros rs E.
  - inversion E; reflexivity.
  - destruct (normalize_idx_name i t) as [i'|]; [|discriminate].
    destruct (addIndexes t l) as [r'|]; [|discriminate]. inversion E; subst rs. simpl.
    rewrite (IH r' eq_refl), andb_true_r. unfold good2, is_drop_idx, drop_index_arm.
    cbn [pc_cmd pc_reverse]. rewrite str_eqb_refl. apply orb_true_r.
Qed.

Lemma alterTable_good2 from tox cs : forall r,
  alterTable from tox cs = Some r -> forallb good2 r = true.
Proof.
  induction cs as [|c cs IH]; intros r H; simpl in H.
  - inversion H; reflexivity.
  - match type of H with match ?here with _ => _ end = _ => destruct here as [a|] eqn:Eh; [|discriminate] end.
    destruct (alterTable from tox cs) as [b|] eqn:Eb; [|discriminate].
    inversion H; subst r. rewrite forallb_app, (IH b eq_refl), andb_true_r.
    destruct c; try discriminate.
    + destruct (find_col c (t_cols (x_t tox))) as [col|] eqn:Ec; [|discriminate].
      destruct (column_ok tox col); [|discriminate]. inversion Eh; subst a. simpl.
      unfold good2, good, additive. simpl.
      rewrite str_eqb_refl, (find_col_name _ _ _ Ec), str_eqb_refl. reflexivity.
    + destruct (find_idx n (t_idx (x_t tox))) as [[k i]|]; [|discriminate].
      exact (good_good2 _ (addIndexes_good (x_t tox) [i] a Eh)).
    + destruct (find_idx n (t_idx from)) as [[k i]|]; [|discriminate].
      exact (dropIndexes_good2 (x_t tox) [i] a Eh).
Qed.

Lemma modifyTable_ok2 from tox cs r sk :
  x_wf tox = true -> modifyTable from tox cs = Some (r, sk) ->
  forallb okc2 r = true /\ (sk = true -> forallb pc_has_reverse r = false).
Proof.
  unfold modifyTable. intros W H.
  destruct (alterable (x_t tox) cs).
  - destruct (alterTable from tox cs) as [r'|] eqn:E; [|discriminate]. inversion H; subst r sk.
    split; [apply good2_okc2; exact (alterTable_good2 _ _ _ _ E)|discriminate].
  - match type of H with match addTable ?X with _ => _ end = _ => destruct (addTable X) as [created|] eqn:Ea; [|discriminate] end.
    match type of H with match copyRows ?A ?B ?C with _ => _ end = _ => destruct (copyRows A B C) as [ins|] eqn:Ei; [|discriminate] end.
    destruct (addIndexes (x_t tox) (t_idx (x_t tox))) as [idxs|] eqn:Ex; [|discriminate].
    inversion H; subst r sk. clear H.
    assert (Gc : forallb good created = true).
    { refine (addTable_good _ _ _ Ea). rewrite x_wf_same_cols by reflexivity. exact W. }
    assert (Oi : forallb okc2 (match ins with Some i => [i] | None => [] end) = true).
    { destruct ins as [i|]; [|reflexivity]. unfold copyRows in Ei.
      destruct (copy_cols _ cs) as [[|pr prs]|]; try discriminate; inversion Ei; reflexivity. }
    split.
    + rewrite forallb_app, (good2_okc2 _ (good_good2 _ Gc)). rewrite forallb_app, Oi. simpl.
      exact (good2_okc2 _ (good_good2 _ (addIndexes_good _ _ _ Ex))).
    + intros _. rewrite forallb_has_reverse_app. rewrite forallb_has_reverse_app. simpl.
      now rewrite !andb_false_r.
Qed.

Definition ps_inv2 (s : pstate) : Prop :=
  forallb okc2 (ps_changes s) = true /\
  (ps_skipFKs s = true -> forallb pc_has_reverse (ps_changes s) = false).

Lemma plan_loop_inv2 from to cs : forall s s',
  xschema_wf to = true -> no_drop_table cs = true -> ps_inv2 s ->
  plan_loop from to cs s = Some s' -> ps_inv2 s'.
Proof.
  induction cs as [|c cs IH]; intros s s' XW ND I H; simpl in H.
  - inversion H; subst; exact I.
  - simpl in ND. apply andb_true_iff in ND as [N1 N2].
    match type of H with match ?nx with _ => _ end = _ => destruct nx as [sm|] eqn:En; [|discriminate] end.
    apply (IH sm s' XW N2); [|exact H]. clear H IH.
    destruct I as [I1 I2]. destruct c as [n|n|n sub]; [| discriminate |].
    + destruct (find_xtable n to) as [x|] eqn:Ef; [|discriminate].
      destruct (addTable x) as [r|] eqn:Ea; [|discriminate]. inversion En; subst sm.
      assert (Wx : x_wf x = true).
      { unfold xschema_wf in XW. rewrite forallb_forall in XW. exact (XW x (find_xtable_in _ _ _ Ef)). }
      split; simpl.
      * rewrite forallb_app, I1. exact (good2_okc2 _ (good_good2 _ (addTable_good _ _ Wx Ea))).
      * intros Hs. rewrite forallb_has_reverse_app, (I2 Hs). reflexivity.
    + destruct (find_xtable n from) as [xf|]; [|discriminate].
      destruct (find_xtable n to) as [xt|] eqn:Ef; [|discriminate].
      destruct (normalized_to xt) as [xt'|] eqn:Enorm; [|discriminate].
      destruct (modifyTable (x_t xf) xt' sub) as [[r sk]|] eqn:Em; [|discriminate].
      assert (Wx : x_wf xt' = true).
      { rewrite (normalized_to_wf _ _ Enorm). unfold xschema_wf in XW. rewrite forallb_forall in XW.
        exact (XW xt (find_xtable_in _ _ _ Ef)). }
      destruct (modifyTable_ok2 _ _ _ _ _ Wx Em) as [O1 O2].
      inversion En; subst sm. destruct sk; split; simpl.
      * now rewrite forallb_app, I1, O1.
      * intros _. rewrite forallb_has_reverse_app, (O2 eq_refl). now rewrite andb_false_r.
      * now rewrite forallb_app, I1, O1.
      * intros Hs. rewrite forallb_has_reverse_app, (I2 Hs). reflexivity.
Qed.

Lemma plan_arms from to cs p :
  xschema_wf to = true -> no_drop_table cs = true ->
  PlanChanges from to cs = Some p -> p_reversible p = true ->
  forallb good2 (p_changes p) = true.
Proof.
  unfold PlanChanges. intros XW ND H R.
  destruct (plan_loop from to cs (mkPS [] false)) as [s|] eqn:El; [|discriminate].
  assert (I : ps_inv2 s).
  { refine (plan_loop_inv2 _ _ _ (mkPS [] false) s XW ND _ El). split; [reflexivity|discriminate]. }
  destruct I as [I1 I2]. inversion H; subst p; clear H. simpl in R. rewrite set_reversible_spec in R.
  destruct (ps_skipFKs s); [rewrite (I2 eq_refl) in R; discriminate|]. simpl.
  clear -I1 R. induction (ps_changes s) as [|pc l IH]; simpl in *; [reflexivity|].
  apply andb_true_iff in I1 as [O1 O2]. apply andb_true_iff in R as [R1 R2].
  rewrite (IH R2 O2), andb_true_r. unfold okc2 in O1. rewrite R1 in O1. simpl in O1.
  now rewrite orb_false_r in O1.
Qed.

Lemma conds_arms_ok l : forall d, forallb good2 l = true -> conds d l -> arms_ok d l.
Proof.
  induction l as [|pc l IH]; intros d G C; simpl; [exact I|].
  simpl in G. apply andb_true_iff in G as [G1 G2]. destruct C as [C1 C2]. split.
  - unfold good2 in G1. apply orb_true_iff in G1 as [Hg|Hd].
    + left. unfold good in Hg. apply andb_true_iff in Hg as [A S]. repeat split; try assumption.
      intros dm E. exact (proj1 (C2 dm E)).
    + right. unfold is_drop_idx in Hd. destruct (drop_index_arm pc) as [[[n t] i]|]; [|discriminate].
      exists n, t, i. split; [reflexivity|exact C1].
  - intros dm E. apply IH; [exact G2|exact (proj2 (C2 dm E))].
Qed.

(** C17 item 1 for the plans without DropTable: restored up to [sim]. *)
Theorem reversible_sound_no_drop_table from to cs p d d1 :
  db_wf d = true -> names_ok d -> xschema_wf to = true -> no_drop_table cs = true ->
  PlanChanges from to cs = Some p -> p_reversible p = true ->
  conds d (p_changes p) ->
  exec_all d (up_stmts (p_changes p)) = Ok d1 ->
  exists d2, exec_all d1 (down_stmts (p_changes p)) = Ok d2 /\ sim d d2.
Proof.
  intros W ND XW NT HP R C E.
  exact (arms_sound _ _ _ W ND (conds_arms_ok _ _ (plan_arms _ _ _ _ XW NT HP R) C) E).
Qed.
