(** Witnesses for C05: concrete databases and change sets, evaluated by [vm_compute].
    1. no column in common      -> the rebuilt table is empty (reproduced on the real engine:
                                   known finding C05-no-common-column-rows-dropped);
    2. NULL under IFNULL         -> the NULL becomes the column default (documented behaviour);
    3. pragma ineffective        -> rows of an untouched child table are deleted by the cascade
                                   (a plain sql.Tx handed to sqlite.Open with _fk=1);
    and the non-vacuity instances of the positive theorems. *)
From Coq Require Import List NArith Bool Arith.
From Atlas Require Import Base.Bytes Diff.Schema Sqlite.RowsModel Sqlite.RowsProofs.
Import ListNotations.
Local Open Scope N_scope.

Definition conv0 (_ _ : str) (v : value) : value := v.
Definition genv0 (_ : str) (_ : rcol) (_ : row) : value := VNull.

Definition sA : str := [97].            (* a *)
Definition sB : str := [98].            (* b *)
Definition sC : str := [99].            (* c *)
Definition sP : str := [112].           (* p *)
Definition sT : str := [116].           (* t *)
Definition sV : str := [118].           (* v *)
Definition sZ : str := [122].           (* z *)
Definition sId : str := [105; 100].     (* id *)
Definition sPid : str := [112; 95; 105; 100].      (* p_id *)
Definition sFresh : str := [102; 114; 101; 115; 104].
Definition tyInt : str := [105; 110; 116; 101; 103; 101; 114].
Definition tyText : str := [116; 101; 120; 116].
Definition v1 : value := VVal [49].
Definition v2 : value := VVal [50].
Definition vx : value := VVal [39; 120; 39].       (* 'x' *)
Definition vd : value := VVal [39; 100; 39].       (* 'd' *)

Definition col (n ty : str) (nn : bool) : rcol := mkRcol n ty nn DNone VNull false false false false.
Definition col_d (n ty : str) (nn : bool) (d : value) : rcol := mkRcol n ty nn (DLiteral false) d false false false false.

(** *** 1. nothing in common *)
Definition w1_db : db :=
  mkDb [mkEtable sZ [col sA tyText false; col sB tyText false] []
          [[(sA, vx); (sB, VNull)]; [(sA, VNull); (sB, vx)]]] false false.
Definition w1_t : tdef := mkTdef sZ [col sFresh tyInt false] [] [].
Definition w1_m : list tchange := [DropColumn sA; DropColumn sB; AddColumn (col sFresh tyInt false)].
Definition w1_cs : list schange := [ModifyTable w1_t w1_m].

Lemma w1_rows_lost :
  exists p d' told tnew,
    wf_changes w1_cs /\ pragma_effective w1_db /\ NoDup (map rc_name (td_cols w1_t)) /\
    PlanChanges w1_cs = POk p /\ exec_all conv0 genv0 w1_db p = EOk d' /\
    find_et sZ (d_tables w1_db) = Some told /\ find_et sZ (d_tables d') = Some tnew /\
    length (et_rows told) = 2%nat /\ length (et_rows tnew) = 0%nat.
Proof.
  eexists. eexists. eexists. eexists.
  split; [|split; [|split; [|split; [vm_compute; reflexivity|split; [vm_compute; reflexivity|]]]]].
  - unfold wf_changes. vm_compute. repeat constructor; simpl; intuition discriminate.
  - left; reflexivity.
  - vm_compute. repeat constructor; simpl; intuition discriminate.
  - vm_compute. repeat split.
Qed.

(** *** 2. NULL under IFNULL *)
Definition w2_db : db :=
  mkDb [mkEtable sT [col sId tyInt true; col sV tyText false] []
          [[(sId, v1); (sV, VNull)]; [(sId, v2); (sV, vx)]]] false false.
Definition w2_t : tdef := mkTdef sT [col sId tyInt true; col_d sV tyText true vd] [] [].
Definition w2_m : list tchange := [ModifyColumn sV (N.lor ChangeNull ChangeDefault)].
Definition w2_cs : list schange := [ModifyTable w2_t w2_m].

Lemma w2_null_replaced :
  exists p d' tnew r r',
    wf_changes w2_cs /\ pragma_effective w2_db /\
    PlanChanges w2_cs = POk p /\ exec_all conv0 genv0 w2_db p = EOk d' /\
    find_et sT (d_tables d') = Some tnew /\
    nth_error (et_rows (hd (mkEtable [] [] [] []) (d_tables w2_db))) 0 = Some r /\
    nth_error (et_rows tnew) 0 = Some r' /\
    get r sV = Some VNull /\ get r' sV = Some vd /\
    get r sId = get r' sId.
Proof.
  eexists. eexists. eexists. eexists. eexists.
  split; [|split; [|split; [vm_compute; reflexivity|split; [vm_compute; reflexivity|]]]].
  - unfold wf_changes. vm_compute. repeat constructor; simpl; intuition discriminate.
  - left; reflexivity.
  - vm_compute. repeat split.
Qed.

(** *** 3. the pragma is a no-op inside a transaction that was opened with enforcement on *)
Definition w3_p : etable := mkEtable sP [col sId tyInt true; col sV tyText false] [] [[(sId, v1); (sV, vx)]].
Definition w3_c : etable :=
  mkEtable sC [col sId tyInt true; col sPid tyInt false] [mkRfk [sPid] sP [sId] ACascade]
    [[(sId, v1); (sPid, v1)]; [(sId, v2); (sPid, VNull)]].
Definition w3_db (fk intx : bool) : db := mkDb [w3_p; w3_c] fk intx.
Definition w3_t : tdef := mkTdef sP [col sId tyInt true; col sV tyText false] [] [].
Definition w3_cs : list schange := [ModifyTable w3_t [OtherChange 0]].   (* e.g. AddCheck: copy path *)

Lemma w3_child_rows_lost :
  exists p d' c',
    wf_changes w3_cs /\ ~ In sC (flat_map touched w3_cs) /\
    PlanChanges w3_cs = POk p /\ exec_all conv0 genv0 (w3_db true true) p = EOk d' /\
    find_et sC (d_tables d') = Some c' /\
    length (et_rows w3_c) = 2%nat /\ length (et_rows c') = 1%nat.
Proof.
  eexists. eexists. eexists.
  split; [|split; [|split; [vm_compute; reflexivity|split; [vm_compute; reflexivity|]]]].
  - unfold wf_changes. vm_compute. repeat constructor; simpl; intuition discriminate.
  - vm_compute. intuition discriminate.
  - vm_compute. repeat split.
Qed.

(** the same change set with an effective pragma keeps the child *)
Lemma w3_child_kept_when_effective :
  exists p d',
    PlanChanges w3_cs = POk p /\ exec_all conv0 genv0 (w3_db true false) p = EOk d' /\
    find_et sC (d_tables d') = Some w3_c /\
    exists p', find_et sP (d_tables d') = Some p' /\ et_rows p' = et_rows w3_p.
Proof.
  eexists. eexists. split; [vm_compute; reflexivity|]. split; [vm_compute; reflexivity|].
  split; [vm_compute; reflexivity|]. eexists. split; vm_compute; reflexivity.
Qed.

Local Close Scope N_scope.

Lemma C05_rows_preserved_refuted_lemma :
  exists d cs p d' t m told tnew,
    wf_changes cs /\ pragma_effective d /\ In (ModifyTable t m) cs /\
    NoDup (map rc_name (td_cols t)) /\
    PlanChanges cs = POk p /\ exec_all conv0 genv0 d p = EOk d' /\
    find_et (td_name t) (d_tables d) = Some told /\
    find_et (td_name t) (d_tables d') = Some tnew /\
    length (et_rows told) = 2 /\ length (et_rows tnew) = 0.
Proof.
  destruct w1_rows_lost as [p [d' [told [tnew [A [B [C [D [E [F [G [H I]]]]]]]]]]]].
  exists w1_db, w1_cs, p, d', w1_t, w1_m, told, tnew.
  repeat split; try assumption. left; reflexivity.
Qed.

Lemma C05_values_identical_refuted_lemma :
  exists d cs p d' tnew r r' c,
    wf_changes cs /\ pragma_effective d /\
    PlanChanges cs = POk p /\ exec_all conv0 genv0 d p = EOk d' /\
    find_et sT (d_tables d') = Some tnew /\
    nth_error (et_rows (hd (mkEtable [] [] [] []) (d_tables d))) 0 = Some r /\
    nth_error (et_rows tnew) 0 = Some r' /\
    get r c = Some VNull /\ get r' c = Some vd.
Proof.
  destruct w2_null_replaced as [p [d' [tnew [r [r' [A [B [C [D [E [F [G [H [I _]]]]]]]]]]]]]].
  exists w2_db, w2_cs, p, d', tnew, r, r', sV. repeat split; assumption.
Qed.

Lemma C05_others_untouched_without_pragma_refuted_lemma :
  exists d cs p d' n c c',
    wf_changes cs /\ d_fk d = true /\ d_intx d = true /\ ~ In n (flat_map touched cs) /\
    PlanChanges cs = POk p /\ exec_all conv0 genv0 d p = EOk d' /\
    find_et n (d_tables d) = Some c /\ find_et n (d_tables d') = Some c' /\
    length (et_rows c) = 2 /\ length (et_rows c') = 1.
Proof.
  destruct w3_child_rows_lost as [p [d' [c' [A [B [C [D [E [F G]]]]]]]]].
  exists (w3_db true true), w3_cs, p, d', sC, w3_c, c'. repeat split; assumption.
Qed.
