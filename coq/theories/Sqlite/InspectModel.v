(** M-SQLITE, inspect: what [Driver.InspectSchema] (sql/sqlite/inspect.go, driver_oss.go) returns for a
    catalogue of EngineModel.v.  The SQL text layer (CREATE statements stored in sqlite_master and the
    regular expressions that read constraint names, checks, generated expressions, AUTOINCREMENT and
    expression index parts back from it) is not modelled here: this file states what those recover
    for the statements the planner prints, and the correspondence run compares it with the real
    inspection of the real database.  (The text-level model of the regexes is C03's, over this file.)

    Facts of SQLite / inspect.go reproduced here:
    - [inspect.addColumn]: primary-key parts are appended in the order of the columns (the query is
      ORDER BY cid), named "PRIMARY", Unique, never DESC;
    - DEFAULT: pragma_table_xinfo.dflt_value is the literal token as written, and for a
      parenthesised expression the text between the outer parentheses, trimmed; [defaultExpr]
      classifies it ([schema.Literal] for booleans / numbers / quoted strings / blobs, else RawExpr);
    - generated columns: [setGenExpr] returns the parenthesised text ([scanExpr]), the type is
      VIRTUAL or STORED by the hidden flag;
    - [inspect.addIndexes]: origin "pk" skipped; inline UNIQUE constraints appear as
      sqlite_autoindex_<table>_<n> with origin "u" (n counts the PRIMARY KEY when it needs an index);
      explicit indexes origin "c"; expression parts come back as printed ([MayWrap]);
    - [inspect.addFKs]/[fillConstName]: ids count from the last declared foreign key; the symbol is
      the id unless a CONSTRAINT name of the CREATE statement matches the key's columns/reference;
      a missing action reads "NO ACTION";
    - [fillChecks]: the parenthesised text the planner printed;
    - tables are listed in sqlite_master order (creation order).

    No proofs in this file. *)
From Coq Require Import List NArith ZArith Bool Arith.
From Atlas Require Import Base.Bytes Diff.Schema Diff.DiffModel Diff.DiffSqlite Sqlite.PlanModel Sqlite.EngineModel.
Import ListNotations.

Definition PRIMARY : str := [80;82;73;77;65;82;89]%N.
Definition ORIGIN_C : str := [99]%N.
Definition ORIGIN_U : str := [117]%N.
Definition STORED_ : str := STORED.

(** ** defaults *)
(** strconv.ParseBool accepts exactly these *)
Definition is_literal_bool (s : str) : bool :=
  existsb (str_eqb s)
    [[49]; [116]; [84]; [84;82;85;69]; [116;114;117;101]; [84;114;117;101];
     [48]; [102]; [70]; [70;65;76;83;69]; [102;97;108;115;101]; [70;97;108;115;101]]%N.

Definition is_hex_digit (c : N) : bool :=
  is_digit_b c || (N.leb 97 c && N.leb c 102) || (N.leb 65 c && N.leb c 70).

(** digits [. digits] [e [sign] digits], at least one digit in the mantissa *)
Fixpoint skip_digits (s : str) : nat * str :=
  match s with
  | c :: s' => if is_digit_b c then let '(n, r) := skip_digits s' in (S n, r) else (0, s)
  | [] => (0, [])
  end.
Definition is_decimal_float (s : str) : bool :=
  let s1 := match s with c :: s' => if N.eqb c 43 || N.eqb c 45 then s' else s | [] => [] end in
  let '(n1, r1) := skip_digits s1 in
  let '(n2, r2) := match r1 with
                   | c :: r' => if N.eqb c 46 then skip_digits r' else (0, r1)
                   | [] => (0, [])
                   end in
  if Nat.eqb (n1 + n2) 0 then false
  else match r2 with
       | [] => true
       | c :: r' =>
           if N.eqb c 101 || N.eqb c 69 then
             let r'' := match r' with c2 :: t => if N.eqb c2 43 || N.eqb c2 45 then t else r' | [] => [] end in
             let '(n3, r3) := skip_digits r'' in
             negb (Nat.eqb n3 0) && match r3 with [] => true | _ => false end
           else false
       end.

(** [sqlx.IsLiteralNumber] on: 0x + 1..16 hex digits; plain decimal floats (model domain: no
    inf/nan spellings, no underscores, no hex floats, magnitudes within float64) *)
Definition is_literal_number (s : str) : bool :=
  match s with
  | a :: b :: rest =>
      if N.eqb a 48 && (N.eqb b 120 || N.eqb b 88)
      then negb (Nat.eqb (length rest) 0) && Nat.leb (length rest) 16 && forallb is_hex_digit rest
      else is_decimal_float s
  | _ => is_decimal_float s
  end.

(** [isBlob]: x'..' with 0..16 hex digits that ParseUint accepts (1..16) *)
Definition is_blob (s : str) : bool :=
  match s with
  | a :: b :: rest =>
      (N.eqb a 120 || N.eqb a 88) && N.eqb b ch_squote
      && match rev rest with
         | z :: mid => N.eqb z ch_squote && negb (Nat.eqb (length mid) 0) && Nat.leb (length mid) 16 && forallb is_hex_digit mid
         | [] => false
         end
  | _ => false
  end.

(** [defaultExpr] *)
Definition defaultExpr (x : str) : dflt :=
  if is_literal_bool x || is_literal_number x || is_quoted x ch_dquote || is_quoted x ch_squote || is_blob x
  then DLit x else DRaw x.

(** the dflt_value SQLite reports for the text printed after DEFAULT *)
Definition dflt_value (printed : str) : str :=
  if is_wrapped printed then trim_space (inner printed) else printed.

Definition inspect_default (c : column) : option dflt :=
  match c_default c with
  | None => None
  | Some _ => match defaultValue c with
              | Some x => Some (defaultExpr (dflt_value x))
              | None => None
              end
  end.

Definition inspect_column (c : column) : column :=
  mkColumn (c_name c) (c_class c) (c_T c) (c_null c) (inspect_default c)
           (match c_gen c with
            | Some (x, ty) => Some (may_wrap x, if is_stored ty then STORED else VIRTUAL)
            | None => None
            end)
           None.

(** ** primary key *)
Fixpoint number_parts (k : N) (l : list part) : list part :=
  match l with
  | [] => []
  | p :: l' => mkPart k (p_desc p) (p_col p) (p_expr p) :: number_parts (k + 1) l'
  end.

(** the parts in KEY order: inspect.columns sorts them by the [pk] field of table_xinfo (fix "sqlite
    inspection orders the parts of a composite primary key by their position in the key"); before it they
    came in column order ([inspect_pk_old], kept for the theorem about the old code) *)
Definition inspect_pk (t : table) : option index :=
  match t_pk t with
  | None => None
  | Some pk =>
      let names := match part_col_names (i_parts pk) with Some l => l | None => [] end in
      let found := flat_map (fun n => match find_col n (t_cols t) with Some c => [c_name c] | None => [] end) names in
      Some (mkIndex PRIMARY true
                    (number_parts 1 (map (fun n => mkPart 0 false (Some n) None) found))
                    None None None)
  end.
Definition inspect_pk_old (t : table) : option index :=
  match t_pk t with
  | None => None
  | Some pk =>
      let names := match part_col_names (i_parts pk) with Some l => l | None => [] end in
      let cols := filter (fun c => existsb (str_eqb (c_name c)) names) (t_cols t) in
      Some (mkIndex PRIMARY true
                    (number_parts 1 (map (fun c => mkPart 0 false (Some (c_name c)) None) cols))
                    None None None)
  end.

(** ** indexes *)
Definition inspect_index (i : index) : index :=
  mkIndex (i_name i) (i_unique i)
          (number_parts 1 (map (fun p => mkPart 0 (p_desc p) (p_col p)
                                           (match p_col p, p_expr p with
                                            | None, Some x => Some (may_wrap x)
                                            | _, _ => None
                                            end)) (i_parts i)))
          (match i_pred i with Some p => Some (trim_space p) | None => None end)
          None (Some ORIGIN_C).

(** decimal text of a number *)
Fixpoint digits_of_pos_fuel (fuel : nat) (n : N) (acc : str) : str :=
  match fuel with
  | O => acc
  | S f => let d := (48 + N.modulo n 10)%N in
           let q := N.div n 10 in
           if N.eqb q 0 then d :: acc else digits_of_pos_fuel f q (d :: acc)
  end.
Definition itoa (n : N) : str := digits_of_pos_fuel (S (N.to_nat (N.log2 n))) n [].

(** the number of the first UNIQUE autoindex: the PRIMARY KEY takes sqlite_autoindex_<t>_1 when it
    needs an index of its own (it is not the rowid alias) -- except in a WITHOUT ROWID table whose
    key is a single INTEGER column, where SQLite builds the key's index after the constraints *)
Definition first_unique_no (t : table) : N :=
  match t_pk t with
  | None => 1
  | Some _ => match int_pk_shape t with Some _ => 1 | None => 2 end
  end.

(** the autoindexes of the inline UNIQUE constraints; a constraint over the same columns as the
    primary key or an earlier constraint creates no index *)
Fixpoint unique_autoindexes (t : table) (k : N) (seen : list (list str)) (us : list (list str)) : list index :=
  match us with
  | [] => []
  | u :: us' =>
      if existsb (strs_eqb u) seen then unique_autoindexes t k seen us'
      else mkIndex (SQLITE_AUTOINDEX ++ [ch_us] ++ t_name t ++ [ch_us] ++ itoa k) true
                   (number_parts 1 (map (fun c => mkPart 0 false (Some c) None) u)) None None (Some ORIGIN_U)
           :: unique_autoindexes t (k + 1) (u :: seen) us'
  end.

Definition inspect_indexes (ct : ctable) : list index :=
  let t := ct_t ct in
  let pkc := match t_pk t with
             | Some pk => match part_col_names (i_parts pk) with Some l => [l] | None => [] end
             | None => []
             end in
  unique_autoindexes t (first_unique_no t) pkc (ct_uniques ct)
  ++ map inspect_index (t_idx t).

(** ** foreign keys *)
Definition action (a : str) : str := match a with [] => NO_ACTION | _ => a end.

(** [addFKs]: ids count down from the last declared key; the list is ordered by id *)
Fixpoint fk_ids (l : list fkey) (k : N) : list fkey :=
  match l with
  | [] => []
  | f :: l' => mkFk (itoa k) (f_cols f) (f_reftable f) (f_refcols f) (action (f_onupdate f)) (action (f_ondelete f))
               :: fk_ids l' (k + 1)
  end.

(** [matchFK] *)
Definition match_fk (fk : fkey) (cols : list str) (reft : str) (refcols : list str) : bool :=
  strs_eqb (f_cols fk) cols && str_eqb (f_reftable fk) reft && strs_eqb (f_refcols fk) refcols.

(** one CONSTRAINT match of [fillConstName]: the first key of the list with that shape takes the name *)
Fixpoint name_first (l : list fkey) (decl : fkey) : list fkey :=
  match l with
  | [] => []
  | fk :: l' => if match_fk fk (f_cols decl) (f_reftable decl) (f_refcols decl)
                then set_f_symbol fk (f_symbol decl) :: l'
                else fk :: name_first l' decl
  end.

(** inspect.go recovers constraint names from the stored CREATE text with \w+ (reFKT, reFKC, reCheck): a name
    with any other byte -- a dash, a space, a dot, a quote character, a non-ASCII letter -- is not found, and the
    constraint is inspected as if it had no name (a foreign key keeps its numeric id, a CHECK is anonymous) *)
Definition is_word_ch (c : N) : bool :=
  (N.leb 48 c && N.leb c 57) || (N.leb 65 c && N.leb c 90) || (N.leb 97 c && N.leb c 122) || N.eqb c 95.
Definition word_name (n : str) : bool :=
  match n with [] => false | _ => forallb is_word_ch n end.

Definition inspect_fks (t : table) : list fkey :=
  fold_left (fun l decl => if word_name (f_symbol decl) then name_first l decl else l)
            (t_fks t) (fk_ids (rev (t_fks t)) 0).

(** ** checks *)
Definition inspect_check (k : check) : check :=
  mkCheck (if word_name (k_name k) then k_name k else []) (check_sql (k_expr k)).

(** ** tables *)
Definition inspect_table (ct : ctable) : xtable :=
  let t := ct_t ct in
  let ai := match filter (fun c => has_autoinc (ct_x ct) (c_name c)) (t_cols t) with
            | [c] => [c_name c]
            | _ => []
            end in
  mkX (mkTable (t_name t) (t_without_rowid t) (t_strict t)
               (map inspect_column (t_cols t))
               (inspect_pk t)
               (inspect_indexes ct)
               (inspect_fks t)
               (map inspect_check (t_checks t)))
      ai.

(** [inspect.InspectSchema] *)
Definition inspect (d : db) : xschema := map inspect_table (db_tables d).
Definition inspect_schema (name : str) (d : db) : schema := schema_of name (inspect d).
