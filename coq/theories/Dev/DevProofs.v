(** Lemmas about M-DEV (Dev/DevSession.v). *)
From Coq Require Import List NArith Bool Arith Lia.
From Atlas Require Import Base.Bytes Dev.DevSession.
Import ListNotations.

(** ** restore wipes every modelled kind *)
Lemma restore_nil d : restore d = [].
Proof.
  unfold restore. induction d as [|o d IH]; simpl; [reflexivity|].
  destruct (o_kind o); simpl; exact IH.
Qed.

Lemma code_clean_nil : code_clean [] = true.
Proof. reflexivity. Qed.

(** ** the cleanliness verdict *)
Lemma filter_nil_iff {A} (f : A -> bool) l :
  filter f l = [] <-> forall x, In x l -> f x = false.
Proof.
  induction l as [|a l IH]; simpl.
  - split; [intros _ x []|reflexivity].
  - destruct (f a) eqn:E.
    + split; [discriminate|]. intros H. specialize (H a (or_introl eq_refl)). congruence.
    + rewrite IH. split.
      * intros H x [->|Hx]; auto.
      * intros H x Hx. apply H. right; exact Hx.
Qed.

Lemma code_clean_split d :
  code_clean d = true <-> inspect_tables d = [] /\ views_triggers d = [].
Proof.
  unfold code_clean.
  destruct (inspect_tables d); destruct (views_triggers d); split; intros H;
    try discriminate; try (destruct H; discriminate); auto.
Qed.

Definition hidden_or_index (o : obj) : Prop :=
  (o_kind o = KTable /\ hidden_name (o_name o) = true) \/ o_kind o = KIndex.

Lemma code_clean_char d :
  code_clean d = true <-> forall o, In o d -> hidden_or_index o.
Proof.
  rewrite code_clean_split. unfold inspect_tables, views_triggers.
  rewrite !filter_nil_iff. split.
  - intros [H1 H2] o Ho. specialize (H1 o Ho). specialize (H2 o Ho).
    unfold visible_table, view_or_trigger, hidden_or_index in *.
    destruct (o_kind o); simpl in *; try discriminate; auto.
    left. split; [reflexivity|]. destruct (hidden_name (o_name o)); [reflexivity|discriminate].
  - intros H. split; intros o Ho; specialize (H o Ho);
      unfold visible_table, view_or_trigger, hidden_or_index in *;
      destruct H as [[Hk Hh]|Hk]; rewrite Hk; simpl; try reflexivity.
    rewrite Hh. reflexivity.
Qed.

Lemma clean_coincide d :
  wf_db d -> no_hidden d -> code_clean d = prop_clean d.
Proof.
  intros Hwf Hnh. destruct d as [|o d]; [reflexivity|]. simpl prop_clean.
  destruct (code_clean (o :: d)) eqn:E; [|reflexivity]. exfalso.
  pose proof (proj1 (code_clean_char (o :: d)) E) as Hc.
  assert (Hin : In o (o :: d)) by (left; reflexivity).
  destruct (Hc o Hin) as [[Hk Hh]|Hk].
  - rewrite (Hnh o Hin Hk) in Hh. discriminate.
  - destruct (Hwf o Hin Hk) as [t [Ht [Htk _]]].
    destruct (Hc t Ht) as [[_ Hh]|Hk'].
    + rewrite (Hnh t Ht Htk) in Hh. discriminate.
    + congruence.
Qed.

Lemma nonempty_not_clean d :
  wf_db d -> no_hidden d -> d <> [] -> code_clean d = false.
Proof.
  intros Hwf Hnh Hne. rewrite (clean_coincide d Hwf Hnh).
  destruct d; [congruence|reflexivity].
Qed.

(** ** refusal: nothing happens *)
Lemma run_session_refused b fs d :
  code_clean d = false -> run_session b fs d = (ORefused, d, fs, []).
Proof. intros H. unfold run_session. rewrite H. reflexivity. Qed.

Lemma run_sessions_refused ss fs d :
  code_clean d = false ->
  run_sessions ss fs d = (match ss with [] => OOk | _ => ORefused end, d, fs, []).
Proof.
  intros H. destruct ss as [|b ss]; simpl; [reflexivity|].
  rewrite (run_session_refused b fs d H). reflexivity.
Qed.

(** ** an accepted session hands the database back empty and its last event is the restore *)
Lemma run_session_accepted b fs d :
  code_clean d = true ->
  exists o fs' es, run_session b fs d = (o, [], fs', es ++ [ERestore]) /\ o <> ORefused.
Proof.
  intros H. unfold run_session. rewrite H.
  destruct (run_body b fs d) as [[[r d'] fs'] es] eqn:E.
  rewrite restore_nil. exists (match r with None => OOk | Some m => OFail m end), fs', es.
  split; [reflexivity|]. destruct r; discriminate.
Qed.

Lemma run_sessions_clean ss fs d :
  code_clean d = true -> ss <> [] ->
  exists o fs' es, run_sessions ss fs d = (o, [], fs', es ++ [ERestore]) /\ o <> ORefused.
Proof.
  revert fs d. induction ss as [|b ss IH]; intros fs d Hc Hne; [congruence|].
  simpl. destruct (run_session_accepted b fs d Hc) as [o [fs1 [es1 [E Ho]]]].
  rewrite E. destruct o as [| |m].
  - destruct ss as [|b2 ss2].
    + simpl. exists OOk, fs1, es1. rewrite app_nil_r. split; [reflexivity|discriminate].
    + destruct (IH fs1 [] code_clean_nil ltac:(discriminate)) as [o2 [fs2 [es2 [E2 Ho2]]]].
      rewrite E2. exists o2, fs2, ((es1 ++ [ERestore]) ++ es2).
      rewrite <- app_assoc. rewrite <- app_assoc. split; [|exact Ho2].
      rewrite <- !app_assoc. reflexivity.
  - congruence.
  - exists (OFail m), fs1, es1. split; [reflexivity|discriminate].
Qed.

Lemma run_sessions_from_empty ss fs :
  forall o d' fs' es, run_sessions ss fs [] = (o, d', fs', es) -> d' = [].
Proof.
  intros o d' fs' es E. destruct ss as [|b ss].
  - simpl in E. inversion E. reflexivity.
  - destruct (run_sessions_clean (b :: ss) fs [] code_clean_nil ltac:(discriminate))
      as [o2 [fs2 [es2 [E2 _]]]].
    rewrite E2 in E. inversion E. reflexivity.
Qed.

(** ** sessions never write the directory *)
Lemma run_body_no_dirwrite b : forall fs d r d' fs' es,
  run_body b fs d = (r, d', fs', es) -> ~ In EDirWrite es.
Proof.
  induction b as [|o b IH]; intros fs d r d' fs' es E; simpl in E.
  - inversion E. intros [].
  - destruct o as [m s|].
    + destruct (pop fs) as [fail fs1]. destruct fail.
      * inversion E. simpl. intros [H|[]]. discriminate.
      * destruct (exec_stmt s d) as [d1|].
        -- destruct (run_body b fs1 d1) as [[[r2 d2] fs2] es2] eqn:E2.
           inversion E; subst. simpl. intros [H|H]; [discriminate|].
           exact (IH _ _ _ _ _ _ E2 H).
        -- inversion E. simpl. intros [H|[]]. discriminate.
    + destruct (run_body b fs (restore d)) as [[[r2 d2] fs2] es2] eqn:E2.
      inversion E; subst. simpl. intros [H|H]; [discriminate|].
      exact (IH _ _ _ _ _ _ E2 H).
Qed.

Lemma run_session_no_dirwrite b fs d o d' fs' es :
  run_session b fs d = (o, d', fs', es) -> ~ In EDirWrite es.
Proof.
  unfold run_session. destruct (code_clean d).
  - destruct (run_body b fs d) as [[[r d2] fs2] es2] eqn:E2. intros E. inversion E; subst.
    intros H. apply in_app_or in H. destruct H as [H|[H|[]]].
    + exact (run_body_no_dirwrite _ _ _ _ _ _ _ E2 H).
    + discriminate.
  - intros E. inversion E. intros [].
Qed.

Lemma run_sessions_no_dirwrite ss : forall fs d o d' fs' es,
  run_sessions ss fs d = (o, d', fs', es) -> ~ In EDirWrite es.
Proof.
  induction ss as [|b ss IH]; intros fs d o d' fs' es E; simpl in E.
  - inversion E. intros [].
  - destruct (run_session b fs d) as [[[o1 d1] fs1] es1] eqn:E1.
    pose proof (run_session_no_dirwrite _ _ _ _ _ _ _ E1) as H1.
    destruct o1.
    + destruct (run_sessions ss fs1 d1) as [[[o2 d2] fs2] es2] eqn:E2.
      inversion E; subst. intros H. apply in_app_or in H. destruct H as [H|H]; [exact (H1 H)|].
      exact (IH _ _ _ _ _ _ E2 H).
    + inversion E; subst. exact H1.
    + inversion E; subst. exact H1.
Qed.

(** ** the commands *)
Lemma sessions_of_nonempty_sql norm c dir from to :
  (* every command replays something unless its only sources are HCL files *)
  match c with
  | CValidate | CLint _ | CDiff => True
  | CSchemaDiff => (exists ss, from = SrcSQL ss) \/ (exists dd, from = SrcDir dd) \/
                   (exists ss, to = SrcSQL ss) \/ (exists dd, to = SrcDir dd) \/
                   (norm = true /\ ((exists ts, from = SrcHCL ts) \/ (exists ts, to = SrcHCL ts)))
  | CSchemaApply => (exists ss, to = SrcSQL ss) \/ (exists dd, to = SrcDir dd) \/
                    (norm = true /\ exists ts, to = SrcHCL ts)
  end -> sessions_of norm c dir from to <> [].
Proof.
  destruct c; simpl; intros H; try discriminate.
  - destruct (eager to); discriminate.
  - destruct from, to, norm; simpl; try discriminate; exfalso;
      repeat match goal with
             | H : _ \/ _ |- _ => destruct H
             | H : _ /\ _ |- _ => destruct H
             | H : exists _, _ |- _ => destruct H
             end; discriminate.
  - destruct to, norm; simpl; try discriminate; exfalso;
      repeat match goal with
             | H : _ \/ _ |- _ => destruct H
             | H : _ /\ _ |- _ => destruct H
             | H : exists _, _ |- _ => destruct H
             end; discriminate.
Qed.

Lemma run_cmd_refused norm c dir from to changes fs d :
  code_clean d = false ->
  run_cmd norm c dir from to changes fs d =
    (match sessions_of norm c dir from to with [] => OOk | _ => ORefused end, d,
     match sessions_of norm c dir from to with
     | [] => if is_diff c && changes then [EDirWrite] else []
     | _ => []
     end).
Proof.
  intros H. unfold run_cmd. rewrite (run_sessions_refused _ fs d H).
  destruct (sessions_of norm c dir from to); simpl.
  - rewrite andb_true_r. reflexivity.
  - rewrite andb_false_r. reflexivity.
Qed.

Lemma run_cmd_from_empty norm c dir from to changes fs o d' es :
  run_cmd norm c dir from to changes fs [] = (o, d', es) -> d' = [].
Proof.
  unfold run_cmd.
  destruct (run_sessions (sessions_of norm c dir from to) fs []) as [[[o1 d1] fs1] es1] eqn:E.
  intros H. inversion H; subst. exact (run_sessions_from_empty _ _ _ _ _ _ E).
Qed.

Lemma run_cmd_dirwrite norm c dir from to changes fs d o d' es :
  run_cmd norm c dir from to changes fs d = (o, d', es) ->
  (exists es0, ~ In EDirWrite es0 /\
     ((es = es0 /\ (c <> CDiff \/ o <> OOk \/ changes = false)) \/
      (es = es0 ++ [EDirWrite] /\ c = CDiff /\ o = OOk /\ changes = true))).
Proof.
  unfold run_cmd.
  destruct (run_sessions (sessions_of norm c dir from to) fs d) as [[[o1 d1] fs1] es1] eqn:E.
  intros H. inversion H; subst. exists es1.
  split; [exact (run_sessions_no_dirwrite _ _ _ _ _ _ _ E)|].
  destruct c; simpl; try (left; split; [apply app_nil_r|left; discriminate]).
  destruct o; simpl; try (left; split; [apply app_nil_r|right; left; discriminate]).
  destruct changes; simpl.
  - right. repeat split; reflexivity.
  - left. split; [apply app_nil_r|right; right; reflexivity].
Qed.
