(** Lemmas about M-DEV (Dev/DevSession.v). *)
From Coq Require Import List NArith Bool Arith Lia.
From Atlas Require Import Base.Bytes Dev.DevSession.
Import ListNotations.

(** ** restore wipes every modelled kind *)
Lemma restore_nil d : restore d = [].
Proof.
  unfold restore. induction d as [|o d IH]; simpl; [reflexivity|].
  destruct (o_kind o); simpl; exact IH.
Qed.

Lemma code_clean_nil : code_clean [] = true.
Proof. reflexivity. Qed.

Lemma snapshot_nil : snapshot [] = VClean.
Proof. reflexivity. Qed.

(** Snapshot accepts iff its inspection succeeds and neither check finds anything *)
Lemma snapshot_clean_iff d :
  snapshot d = VClean <-> unreadable d = false /\ code_clean d = true.
Proof.
  unfold snapshot. destruct (unreadable d); destruct (code_clean d); split; intros H;
    try discriminate; try (destruct H; discriminate); auto.
Qed.

(** the RestoreFunc: nothing happens before its DELETE, everything is gone after it *)
Lemma run_restore_spec rs d k d' rs' :
  run_restore rs d = (k, d', rs') ->
  k <= 4 /\ ((k < 2 /\ d' = d) \/ (2 <= k /\ d' = [])).
Proof.
  unfold run_restore.
  destruct (pop rs) as [f1 rs1]. destruct f1; [intros E; inversion E; subst; split; [lia|left; split; [lia|reflexivity]]|].
  destruct (pop rs1) as [f2 rs2]. destruct f2; [intros E; inversion E; subst; split; [lia|left; split; [lia|reflexivity]]|].
  destruct (pop rs2) as [f3 rs3]. destruct f3; [intros E; inversion E; subst; split; [lia|right; split; [lia|apply restore_nil]]|].
  destruct (pop rs3) as [f4 rs4]. destruct f4; intros E; inversion E; subst; (split; [lia|right; split; [lia|apply restore_nil]]).
Qed.

Lemma run_restore_nofault d : run_restore [] d = (4, [], []).
Proof. unfold run_restore. simpl. rewrite restore_nil. reflexivity. Qed.

Opaque run_restore.

(** ** the cleanliness verdict *)
Lemma filter_nil_iff {A} (f : A -> bool) l :
  filter f l = [] <-> forall x, In x l -> f x = false.
Proof.
  induction l as [|a l IH]; simpl.
  - split; [intros _ x []|reflexivity].
  - destruct (f a) eqn:E.
    + split; [discriminate|]. intros H. specialize (H a (or_introl eq_refl)). congruence.
    + rewrite IH. split.
      * intros H x [->|Hx]; auto.
      * intros H x Hx. apply H. right; exact Hx.
Qed.

Lemma code_clean_split d :
  code_clean d = true <-> inspect_tables d = [] /\ other_objects d = [].
Proof.
  unfold code_clean.
  destruct (inspect_tables d); destruct (other_objects d); split; intros H;
    try discriminate; try (destruct H; discriminate); auto.
Qed.

(** Snapshot accepts only engine bookkeeping (no premise on the database). *)
Lemma code_clean_sound d : code_clean d = true -> prop_clean d = true.
Proof.
  rewrite code_clean_split. intros [_ H]. unfold other_objects in H.
  rewrite filter_nil_iff in H. unfold prop_clean. apply forallb_forall.
  intros o Ho. specialize (H o Ho). destruct (bookkeeping o); [reflexivity|discriminate].
Qed.

Lemma not_prop_clean_refused d : prop_clean d = false -> code_clean d = false.
Proof.
  intros H. destruct (code_clean d) eqn:E; [|reflexivity].
  rewrite (code_clean_sound d E) in H. discriminate.
Qed.

Lemma prop_clean_false_iff d :
  prop_clean d = false <-> exists o, In o d /\ bookkeeping o = false.
Proof.
  unfold prop_clean. split.
  - intros H. induction d as [|a d IH]; simpl in H; [discriminate|].
    destruct (bookkeeping a) eqn:E.
    + destruct (IH H) as [o [Ho Hb]]. exists o. split; [right; exact Ho|exact Hb].
    + exists a. split; [left; reflexivity|exact E].
  - intros [o [Ho Hb]]. destruct (forallb bookkeeping d) eqn:E; [|reflexivity].
    rewrite forallb_forall in E. rewrite (E o Ho) in Hb. discriminate.
Qed.

(** every reserved name is one the inspection hides *)
Lemma strip_prefix_ci_snoc p x s r :
  strip_prefix_ci (p ++ [x]) s = Some r -> exists c, strip_prefix_ci p s = Some (c :: r).
Proof.
  revert s. induction p as [|y p IH]; intros s; simpl.
  - destruct s as [|c s]; [discriminate|].
    destruct (N.eqb (lower x) (lower c)); [|discriminate].
    intros E. inversion E. exists c. reflexivity.
  - destruct s as [|c s]; [discriminate|].
    destruct (N.eqb (lower y) (lower c)); [|discriminate]. apply IH.
Qed.

Lemma reserved_hidden n : reserved_tbl n = true -> hidden_name n = true.
Proof.
  unfold reserved_tbl, hidden_name. intros H. apply orb_true_iff in H. destruct H as [H|H].
  - apply orb_true_iff. left. unfold prefix_ci in H. unfold like6.
    destruct (strip_prefix_ci b_sqlite_ n) as [r|] eqn:E; [|discriminate].
    change b_sqlite_ with (b_sqlite ++ [95%N]) in E.
    destruct (strip_prefix_ci_snoc _ _ _ _ E) as [c Hc]. rewrite Hc. reflexivity.
  - apply bytes_eqb_eq in H. subst n. vm_compute. reflexivity.
Qed.

(** which names are engine bookkeeping, spelled out: the table name starts with
    the seven characters "sqlite_" in any letter case (SQLite reserves exactly
    these: it rejects CREATE TABLE SQLITE_FOO), or is exactly
    "libsql_wasm_func_table" *)
Lemma strip_prefix_ci_spec p : forall s r,
  strip_prefix_ci p s = Some r <->
  exists pre, s = pre ++ r /\ length pre = length p /\ map lower pre = map lower p.
Proof.
  induction p as [|x p IH]; intros s r; simpl.
  - split.
    + intros E. inversion E. exists []. repeat split.
    + intros [pre [-> [Hl _]]]. destruct pre; [reflexivity|discriminate].
  - destruct s as [|y s].
    + split; [discriminate|]. intros [pre [E [Hl _]]]. destruct pre; [discriminate|]. discriminate.
    + destruct (N.eqb (lower x) (lower y)) eqn:Exy.
      * apply N.eqb_eq in Exy. rewrite IH. split.
        -- intros [pre [-> [Hl Hm]]]. exists (y :: pre). simpl. rewrite Hl, Hm, Exy. repeat split.
        -- intros [pre [E [Hl Hm]]]. destruct pre as [|z pre]; [discriminate|].
           simpl in E, Hl, Hm. inversion E; subst. inversion Hm. exists pre. repeat split; auto.
      * split; [discriminate|]. intros [pre [E [Hl Hm]]]. destruct pre as [|z pre]; [discriminate|].
        simpl in E, Hm. inversion E; subst. inversion Hm as [[H1 H2]]. rewrite H1, N.eqb_refl in Exy. discriminate.
Qed.

Lemma bookkeeping_names o :
  bookkeeping o = true <->
  (exists pre rest, o_tbl o = pre ++ rest /\ length pre = 7 /\ map lower pre = b_sqlite_) \/ o_tbl o = b_wasm.
Proof.
  unfold bookkeeping, reserved_tbl. rewrite orb_true_iff. unfold prefix_ci. split.
  - intros [H|H].
    + left. destruct (strip_prefix_ci b_sqlite_ (o_tbl o)) as [r|] eqn:E; [|discriminate].
      apply strip_prefix_ci_spec in E. destruct E as [pre [E [Hl Hm]]]. exists pre, r. repeat split; assumption.
    + right. apply bytes_eqb_eq. exact H.
  - intros [[pre [rest [E [Hl Hm]]]]|H].
    + left. assert (Hs : strip_prefix_ci b_sqlite_ (o_tbl o) = Some rest).
      { apply strip_prefix_ci_spec. exists pre. repeat split; assumption. }
      rewrite Hs. reflexivity.
    + right. rewrite H. apply bytes_eqb_eq. reflexivity.
Qed.

(** ... so Snapshot does not refuse a database that holds nothing but bookkeeping *)
Lemma code_clean_complete d : wf_db d -> prop_clean d = true -> code_clean d = true.
Proof.
  intros Hwf H. unfold prop_clean in H. rewrite forallb_forall in H.
  apply code_clean_split. split.
  - unfold inspect_tables. apply filter_nil_iff. intros o Ho. unfold visible_table.
    destruct (kind_eqb (o_kind o) KTable) eqn:Ek; [|reflexivity]. simpl.
    assert (Hk : o_kind o = KTable) by (destruct (o_kind o); try discriminate; reflexivity).
    specialize (H o Ho). unfold bookkeeping in H. rewrite (Hwf o Ho Hk) in H.
    rewrite (reserved_hidden _ H). reflexivity.
  - unfold other_objects. apply filter_nil_iff. intros o Ho. rewrite (H o Ho). reflexivity.
Qed.

Lemma clean_coincide d : wf_db d -> code_clean d = prop_clean d.
Proof.
  intros Hwf. destruct (prop_clean d) eqn:E.
  - exact (code_clean_complete d Hwf E).
  - exact (not_prop_clean_refused d E).
Qed.

(** a database that is not empty in the property's sense is never accepted *)
Lemma not_prop_clean_declined d : prop_clean d = false -> snapshot d <> VClean.
Proof.
  intros H Hs. apply snapshot_clean_iff in Hs. destruct Hs as [_ Hc].
  rewrite (not_prop_clean_refused d H) in Hc. discriminate.
Qed.

(** nothing of a bookkeeping table is ever parsed by the inspection (its names are hidden) *)
Lemma bookkeeping_readable d : wf_db d -> prop_clean d = true -> unreadable d = false.
Proof.
  intros Hwf H. unfold prop_clean in H. rewrite forallb_forall in H.
  unfold unreadable. destruct (existsb _ d) eqn:E; [|reflexivity].
  apply existsb_exists in E. destruct E as [o [Ho Hi]]. apply andb_true_iff in Hi. destruct Hi as [Hi _].
  specialize (H o Ho). unfold bookkeeping in H. unfold inspected in Hi.
  destruct (o_kind o) eqn:Ek; try discriminate.
  - rewrite <- (Hwf o Ho Ek) in Hi. rewrite (reserved_hidden _ H) in Hi. discriminate.
  - rewrite (reserved_hidden _ H) in Hi. discriminate.
Qed.

Lemma snapshot_complete d : wf_db d -> prop_clean d = true -> snapshot d = VClean.
Proof.
  intros Hwf H. apply snapshot_clean_iff. split.
  - exact (bookkeeping_readable d Hwf H).
  - exact (code_clean_complete d Hwf H).
Qed.

Lemma snapshot_coincide d : wf_db d -> (snapshot d = VClean <-> prop_clean d = true).
Proof.
  intros Hwf. split.
  - intros H. apply snapshot_clean_iff in H. destruct H as [_ H]. exact (code_clean_sound d H).
  - exact (snapshot_complete d Hwf).
Qed.

(** one object that is not engine bookkeeping is enough: Snapshot never accepts *)
Lemma nonbookkeeping_never_accepted d o :
  In o d -> bookkeeping o = false -> snapshot d <> VClean.
Proof.
  intros Ho Hb. apply not_prop_clean_declined. apply prop_clean_false_iff. exists o. split; assumption.
Qed.


(** ** refusal: nothing happens *)
Lemma decline_of_declined d : declined (decline_of d) = true.
Proof. unfold decline_of. destruct (unreadable d); reflexivity. Qed.

Lemma run_session_refused s fs rs d :
  snapshot d <> VClean -> run_session s fs rs d = (decline_of d, d, fs, rs, []).
Proof.
  intros H. unfold run_session, decline_of. unfold snapshot in *.
  destruct (unreadable d); [reflexivity|]. destruct (code_clean d); [congruence|reflexivity].
Qed.

Lemma run_sessions_refused ss fs rs d :
  snapshot d <> VClean ->
  run_sessions ss fs rs d = (match ss with [] => OOk | _ => decline_of d end, d, fs, rs, []).
Proof.
  intros H. destruct ss as [|b ss]; simpl; [reflexivity|].
  rewrite (run_session_refused b fs rs d H). unfold decline_of. destruct (unreadable d); reflexivity.
Qed.

(** ** an accepted session ends with the restore; the database is empty if its DELETE ran *)
Lemma run_session_accepted s fs rs d :
  snapshot d = VClean ->
  exists o d' fs' rs' es k,
    run_session s fs rs d = (o, d', fs', rs', es ++ [ERestore k]) /\
    (2 <= k -> d' = []) /\ declined o = false.
Proof.
  intros H. unfold run_session. rewrite H.
  destruct (run_body (s_body s) fs rs d) as [[[[r d1] fs1] rs1] es] eqn:E.
  destruct (run_restore rs1 d1) as [[k d2] rs2] eqn:Er.
  destruct (run_restore_spec _ _ _ _ _ Er) as [_ Hs].
  eexists _, d2, fs1, rs2, es, k. split; [reflexivity|]. split.
  - intros Hk. destruct Hs as [[Hlt _]|[_ Hd]]; [lia|exact Hd].
  - destruct r; try reflexivity. destruct (restore_done k || negb (s_reports s)); reflexivity.
Qed.

Lemma run_sessions_clean ss : forall fs rs d,
  snapshot d = VClean -> ss <> [] ->
  exists o d' fs' rs' es k,
    run_sessions ss fs rs d = (o, d', fs', rs', es ++ [ERestore k]) /\
    (2 <= k -> d' = []) /\ (declined o = true -> k < 2).
Proof.
  induction ss as [|b ss IH]; intros fs rs d Hc Hne; [congruence|].
  simpl. destruct (run_session_accepted b fs rs d Hc) as [o [d1 [fs1 [rs1 [es1 [k1 [E [Hk Ho]]]]]]]].
  rewrite E. destruct o as [| |m| |m|]; try (simpl in Ho; discriminate).
  - destruct ss as [|b2 ss2].
    + simpl. exists OOk, d1, fs1, rs1, es1, k1. rewrite app_nil_r.
      split; [reflexivity|]. split; [exact Hk|discriminate].
    + destruct (snapshot d1) eqn:Hc1.
      * destruct (IH fs1 rs1 d1 Hc1 ltac:(discriminate)) as [o2 [d2 [fs2 [rs2 [es2 [k2 [E2 [Hk2 Ho2]]]]]]]].
        rewrite E2. exists o2, d2, fs2, rs2, ((es1 ++ [ERestore k1]) ++ es2), k2.
        rewrite <- !app_assoc. split; [reflexivity|]. split; assumption.
      * assert (Hn : snapshot d1 <> VClean) by (rewrite Hc1; discriminate).
        rewrite (run_sessions_refused (b2 :: ss2) fs1 rs1 d1 Hn).
        exists (decline_of d1), d1, fs1, rs1, es1, k1. rewrite app_nil_r.
        split; [reflexivity|]. split; [exact Hk|]. intros _.
        destruct (Nat.lt_ge_cases k1 2) as [Hlt|Hge]; [exact Hlt|].
        rewrite (Hk Hge) in Hn. exfalso. apply Hn. reflexivity.
      * assert (Hn : snapshot d1 <> VClean) by (rewrite Hc1; discriminate).
        rewrite (run_sessions_refused (b2 :: ss2) fs1 rs1 d1 Hn).
        exists (decline_of d1), d1, fs1, rs1, es1, k1. rewrite app_nil_r.
        split; [reflexivity|]. split; [exact Hk|]. intros _.
        destruct (Nat.lt_ge_cases k1 2) as [Hlt|Hge]; [exact Hlt|].
        rewrite (Hk Hge) in Hn. exfalso. apply Hn. reflexivity.
  - exists (OFail m), d1, fs1, rs1, es1, k1. split; [reflexivity|]. split; [exact Hk|discriminate].
  - exists ORestoreFail, d1, fs1, rs1, es1, k1. split; [reflexivity|]. split; [exact Hk|discriminate].
  - exists (OInspectFail m), d1, fs1, rs1, es1, k1. split; [reflexivity|]. split; [exact Hk|discriminate].
Qed.

(** ** no fault in a restore statement ([rs = []]): every session hands back the empty database *)
Lemma run_body_rs_nil b : forall fs d r d' fs' rs' es,
  run_body b fs [] d = (r, d', fs', rs', es) -> rs' = [] /\ r <> BRestoreFail.
Proof.
  induction b as [|o b IH]; intros fs d r d' fs' rs' es E; simpl in E.
  - inversion E. split; [reflexivity|discriminate].
  - destruct o as [m s|m badopt|].
    + destruct (pop_exec fs) as [fail fs1]. destruct fail.
      * inversion E. split; [reflexivity|discriminate].
      * destruct (exec_stmt s d) as [d1|].
        -- destruct (run_body b fs1 [] d1) as [[[[r2 d2] fs2] rs2] es2] eqn:E2.
           inversion E; subst. exact (IH _ _ _ _ _ _ _ E2).
        -- inversion E. split; [reflexivity|discriminate].
    + destruct (pop_read fs) as [fail fs1]. destruct (fail || inspect_fails badopt d).
      * inversion E. split; [reflexivity|discriminate].
      * exact (IH _ _ _ _ _ _ _ E).
    + rewrite run_restore_nofault in E. simpl in E.
      destruct (run_body b fs [] []) as [[[[r2 d2] fs2] rs2] es2] eqn:E2.
      inversion E; subst. exact (IH _ _ _ _ _ _ _ E2).
Qed.

Lemma run_session_nofault s fs d :
  snapshot d = VClean ->
  exists o fs' es, run_session s fs [] d = (o, [], fs', [], es ++ [ERestore 4]) /\
                   declined o = false /\ o <> ORestoreFail.
Proof.
  intros H. unfold run_session. rewrite H.
  destruct (run_body (s_body s) fs [] d) as [[[[r d1] fs1] rs1] es] eqn:E.
  destruct (run_body_rs_nil _ _ _ _ _ _ _ _ E) as [-> Hr].
  rewrite run_restore_nofault. eexists _, fs1, es. split; [reflexivity|].
  destruct r; simpl; try congruence; split; try reflexivity; discriminate.
Qed.

Lemma run_sessions_nofault ss : forall fs d,
  snapshot d = VClean -> ss <> [] ->
  exists o fs' es, run_sessions ss fs [] d = (o, [], fs', [], es ++ [ERestore 4]) /\
                   declined o = false /\ o <> ORestoreFail.
Proof.
  induction ss as [|b ss IH]; intros fs d Hc Hne; [congruence|].
  simpl. destruct (run_session_nofault b fs d Hc) as [o [fs1 [es1 [E [Ho1 Ho2]]]]].
  rewrite E. destruct o as [| |m| |m|]; try congruence; try (simpl in Ho1; discriminate).
  - destruct ss as [|b2 ss2].
    + simpl. exists OOk, fs1, es1. rewrite app_nil_r. split; [reflexivity|]. split; [reflexivity|discriminate].
    + destruct (IH fs1 [] snapshot_nil ltac:(discriminate)) as [o2 [fs2 [es2 [E2 Ho]]]].
      rewrite E2. exists o2, fs2, ((es1 ++ [ERestore 4]) ++ es2).
      rewrite <- !app_assoc. split; [reflexivity|exact Ho].
  - exists (OFail m), fs1, es1. split; [reflexivity|]. split; [reflexivity|discriminate].
  - exists (OInspectFail m), fs1, es1. split; [reflexivity|]. split; [reflexivity|discriminate].
Qed.

Lemma run_sessions_handed_back ss fs d o d' fs' rs' es :
  snapshot d = VClean -> ss <> [] ->
  run_sessions ss fs [] d = (o, d', fs', rs', es) -> d' = [].
Proof.
  intros Hc Hne E.
  destruct (run_sessions_nofault ss fs d Hc Hne) as [o2 [fs2 [es2 [E2 _]]]].
  rewrite E2 in E. inversion E. reflexivity.
Qed.

Lemma run_sessions_from_empty ss fs o d' fs' rs' es :
  run_sessions ss fs [] [] = (o, d', fs', rs', es) -> d' = [].
Proof.
  destruct ss as [|b ss].
  - simpl. intros E. inversion E. reflexivity.
  - apply run_sessions_handed_back; [reflexivity|discriminate].
Qed.

(** ** the exit "every statement succeeded, the inspection afterwards failed" *)
Lemma run_body_inspect_fail b : forall fs rs d m d' fs' rs' es,
  run_body b fs rs d = (BInspectFail m, d', fs', rs', es) ->
  forallb ok_event es = true /\ (exists bad, In (OInspect m bad) b).
Proof.
  induction b as [|o b IH]; intros fs rs d m d' fs' rs' es E; simpl in E.
  - inversion E.
  - destruct o as [m0 s|m0 badopt|].
    + destruct (pop_exec fs) as [fail fs1]. destruct fail; [inversion E|].
      destruct (exec_stmt s d) as [d1|]; [|inversion E].
      destruct (run_body b fs1 rs d1) as [[[[r2 d2] fs2] rs2] es2] eqn:E2.
      inversion E; subst. destruct (IH _ _ _ _ _ _ _ _ E2) as [Hok [bad Hin]].
      split; [exact Hok|]. exists bad. right; exact Hin.
    + destruct (pop_read fs) as [fail fs1]. destruct (fail || inspect_fails badopt d) eqn:Hf.
      * inversion E; subst. split; [reflexivity|]. exists badopt. left; reflexivity.
      * destruct (IH _ _ _ _ _ _ _ _ E) as [Hok [bad Hin]].
        split; [exact Hok|]. exists bad. right; exact Hin.
    + destruct (run_restore rs d) as [[k d1] rs1] eqn:Er.
      destruct (restore_done k) eqn:Hd; [|inversion E].
      destruct (run_body b fs rs1 d1) as [[[[r2 d2] fs2] rs2] es2] eqn:E2.
      inversion E; subst. destruct (IH _ _ _ _ _ _ _ _ E2) as [Hok [bad Hin]].
      split; [simpl; rewrite Hd; exact Hok|]. exists bad. right; exact Hin.
Qed.

(** a session that ends with "inspection failed" was accepted, none of its
    statements failed, and the RestoreFunc is what ran last *)
Lemma run_session_inspect_fail s fs rs d m d' fs' rs' es :
  run_session s fs rs d = (OInspectFail m, d', fs', rs', es) ->
  snapshot d = VClean /\
  exists es0 k, es = es0 ++ [ERestore k] /\ forallb ok_event es0 = true /\
                (exists bad, In (OInspect m bad) (s_body s)) /\
                (2 <= k -> d' = []) /\ (rs = [] -> k = 4 /\ d' = []).
Proof.
  unfold run_session. destruct (snapshot d) eqn:Hs; [|intros E; inversion E|intros E; inversion E].
  destruct (run_body (s_body s) fs rs d) as [[[[r d1] fs1] rs1] es1] eqn:E1.
  destruct (run_restore rs1 d1) as [[k d2] rs2] eqn:Er.
  intros E. split; [reflexivity|].
  destruct r as [|m1| |m1]; try (inversion E; fail);
    try (destruct (restore_done k || negb (s_reports s)); inversion E; fail).
  inversion E; subst. destruct (run_body_inspect_fail _ _ _ _ _ _ _ _ _ E1) as [Hok [bad Hin]].
  exists es1, k. split; [reflexivity|]. split; [exact Hok|]. split; [exists bad; exact Hin|].
  destruct (run_restore_spec _ _ _ _ _ Er) as [_ Hsp]. split.
  - intros Hk. destruct Hsp as [[Hlt _]|[_ Hd]]; [lia|exact Hd].
  - intros ->. destruct (run_body_rs_nil _ _ _ _ _ _ _ _ E1) as [-> _].
    rewrite run_restore_nofault in Er. inversion Er. split; reflexivity.
Qed.

Lemma run_sessions_inspect_fail ss fs rs d m d' fs' rs' es :
  run_sessions ss fs rs d = (OInspectFail m, d', fs', rs', es) ->
  exists es0 k, es = es0 ++ [ERestore k] /\ (2 <= k -> d' = []) /\ (rs = [] -> k = 4 /\ d' = []).
Proof.
  intros H. destruct ss as [|b ss]; [simpl in H; inversion H|].
  assert (Hc : snapshot d = VClean).
  { destruct (snapshot d) eqn:Hs; [reflexivity| |].
    - assert (Hn : snapshot d <> VClean) by (rewrite Hs; discriminate).
      rewrite (run_sessions_refused _ fs rs d Hn) in H. unfold decline_of in H.
      destruct (unreadable d); inversion H.
    - assert (Hn : snapshot d <> VClean) by (rewrite Hs; discriminate).
      rewrite (run_sessions_refused _ fs rs d Hn) in H. unfold decline_of in H.
      destruct (unreadable d); inversion H. }
  destruct (run_sessions_clean (b :: ss) fs rs d Hc ltac:(discriminate))
    as [o [d2 [fs2 [rs2 [es2 [k [E [Hk _]]]]]]]].
  rewrite E in H. inversion H; subst. exists es2, k. split; [reflexivity|]. split; [exact Hk|].
  intros ->. destruct (run_sessions_nofault (b :: ss) fs d Hc ltac:(discriminate)) as [o3 [fs3 [es3 [E3 _]]]].
  rewrite E3 in E. inversion E as [[Ho Hd Hfs Hrs Hes]]. apply app_inj_tail in Hes. destruct Hes as [_ Hk4].
  inversion Hk4. split; reflexivity.
Qed.

Lemma run_cmd_inspect_fail norm c excl dir from to changes fs rs d m d' es :
  run_cmd norm c excl dir from to changes fs rs d = (OInspectFail m, d', es) ->
  exists es0 k, es = es0 ++ [ERestore k] /\ (2 <= k -> d' = []) /\ (rs = [] -> k = 4 /\ d' = []).
Proof.
  unfold run_cmd.
  destruct (run_sessions (sessions_of norm c excl dir from to) fs rs d) as [[[[o1 d1] fs1] rs1] es1] eqn:E.
  intros H. inversion H; subst. rewrite andb_false_r, app_nil_r.
  exact (run_sessions_inspect_fail _ _ _ _ _ _ _ _ _ E).
Qed.

(** ** the database changes only by a successful write or a restore that reached its DELETE *)
Lemma existsb_app_false {A} (f : A -> bool) l1 l2 :
  existsb f (l1 ++ l2) = false -> existsb f l1 = false /\ existsb f l2 = false.
Proof. rewrite existsb_app. intros H. apply orb_false_iff in H. exact H. Qed.

Lemma run_restore_untouched rs d k d' rs' :
  run_restore rs d = (k, d', rs') -> touching (ERestore k) = false -> d' = d.
Proof.
  intros E H. destruct (run_restore_spec _ _ _ _ _ E) as [_ [[_ Hd]|[Hk _]]]; [exact Hd|].
  unfold touching in H. apply Nat.leb_gt in H. lia.
Qed.

Lemma run_body_untouched b : forall fs rs d r d' fs' rs' es,
  run_body b fs rs d = (r, d', fs', rs', es) -> existsb touching es = false -> d' = d.
Proof.
  induction b as [|o b IH]; intros fs rs d r d' fs' rs' es E H; simpl in E.
  - inversion E. reflexivity.
  - destruct o as [m s|m badopt|].
    + destruct (pop_exec fs) as [fail fs1]. destruct fail.
      * inversion E. reflexivity.
      * destruct (exec_stmt s d) as [d1|].
        -- destruct (run_body b fs1 rs d1) as [[[[r2 d2] fs2] rs2] es2] eqn:E2.
           inversion E; subst. simpl in H. discriminate.
        -- inversion E. reflexivity.
    + destruct (pop_read fs) as [fail fs1]. destruct (fail || inspect_fails badopt d).
      * inversion E. reflexivity.
      * exact (IH _ _ _ _ _ _ _ _ E H).
    + destruct (run_restore rs d) as [[k d1] rs1] eqn:Er.
      destruct (restore_done k) eqn:Hd.
      * destruct (run_body b fs rs1 d1) as [[[[r2 d2] fs2] rs2] es2] eqn:E2.
        inversion E; subst. simpl in H. apply orb_false_iff in H. destruct H as [H1 H2].
        rewrite (IH _ _ _ _ _ _ _ _ E2 H2). exact (run_restore_untouched _ _ _ _ _ Er H1).
      * inversion E; subst. simpl in H. apply orb_false_iff in H. destruct H as [H1 _].
        exact (run_restore_untouched _ _ _ _ _ Er H1).
Qed.

Lemma run_session_untouched s fs rs d o d' fs' rs' es :
  run_session s fs rs d = (o, d', fs', rs', es) -> existsb touching es = false -> d' = d.
Proof.
  unfold run_session. destruct (snapshot d).
  - destruct (run_body (s_body s) fs rs d) as [[[[r d1] fs1] rs1] es1] eqn:E1.
    destruct (run_restore rs1 d1) as [[k d2] rs2] eqn:Er.
    intros E H. inversion E; subst.
    destruct (existsb_app_false _ _ _ H) as [H1 H2]. simpl in H2. apply orb_false_iff in H2.
    destruct H2 as [H2 _].
    rewrite (run_restore_untouched _ _ _ _ _ Er H2). exact (run_body_untouched _ _ _ _ _ _ _ _ _ E1 H1).
  - intros E _. inversion E. reflexivity.
  - intros E _. inversion E. reflexivity.
Qed.

Lemma run_sessions_untouched ss : forall fs rs d o d' fs' rs' es,
  run_sessions ss fs rs d = (o, d', fs', rs', es) -> existsb touching es = false -> d' = d.
Proof.
  induction ss as [|b ss IH]; intros fs rs d o d' fs' rs' es E H; simpl in E.
  - inversion E. reflexivity.
  - destruct (run_session b fs rs d) as [[[[o1 d1] fs1] rs1] es1] eqn:E1.
    destruct o1.
    + destruct (run_sessions ss fs1 rs1 d1) as [[[[o2 d2] fs2] rs2] es2] eqn:E2.
      inversion E; subst. destruct (existsb_app_false _ _ _ H) as [H1 H2].
      rewrite (IH _ _ _ _ _ _ _ _ E2 H2). exact (run_session_untouched _ _ _ _ _ _ _ _ _ E1 H1).
    + inversion E; subst. exact (run_session_untouched _ _ _ _ _ _ _ _ _ E1 H).
    + inversion E; subst. exact (run_session_untouched _ _ _ _ _ _ _ _ _ E1 H).
    + inversion E; subst. exact (run_session_untouched _ _ _ _ _ _ _ _ _ E1 H).
    + inversion E; subst. exact (run_session_untouched _ _ _ _ _ _ _ _ _ E1 H).
    + inversion E; subst. exact (run_session_untouched _ _ _ _ _ _ _ _ _ E1 H).
Qed.

(** ** sessions never write the directory *)
Lemma run_body_no_dirwrite b : forall fs rs d r d' fs' rs' es,
  run_body b fs rs d = (r, d', fs', rs', es) -> ~ In EDirWrite es.
Proof.
  induction b as [|o b IH]; intros fs rs d r d' fs' rs' es E; simpl in E.
  - inversion E. intros [].
  - destruct o as [m s|m badopt|].
    + destruct (pop_exec fs) as [fail fs1]. destruct fail.
      * inversion E. simpl. intros [H|[]]. discriminate.
      * destruct (exec_stmt s d) as [d1|].
        -- destruct (run_body b fs1 rs d1) as [[[[r2 d2] fs2] rs2] es2] eqn:E2.
           inversion E; subst. simpl. intros [H|H]; [discriminate|].
           exact (IH _ _ _ _ _ _ _ _ E2 H).
        -- inversion E. simpl. intros [H|[]]. discriminate.
    + destruct (pop_read fs) as [fail fs1]. destruct (fail || inspect_fails badopt d).
      * inversion E. intros [].
      * exact (IH _ _ _ _ _ _ _ _ E).
    + destruct (run_restore rs d) as [[k d1] rs1]. destruct (restore_done k).
      * destruct (run_body b fs rs1 d1) as [[[[r2 d2] fs2] rs2] es2] eqn:E2.
        inversion E; subst. simpl. intros [H|H]; [discriminate|].
        exact (IH _ _ _ _ _ _ _ _ E2 H).
      * inversion E; subst. simpl. intros [H|[]]. discriminate.
Qed.

Lemma run_session_no_dirwrite s fs rs d o d' fs' rs' es :
  run_session s fs rs d = (o, d', fs', rs', es) -> ~ In EDirWrite es.
Proof.
  unfold run_session. destruct (snapshot d).
  - destruct (run_body (s_body s) fs rs d) as [[[[r d2] fs2] rs2] es2] eqn:E2.
    destruct (run_restore rs2 d2) as [[k d3] rs3].
    intros E. inversion E; subst.
    intros H. apply in_app_or in H. destruct H as [H|[H|[]]].
    + exact (run_body_no_dirwrite _ _ _ _ _ _ _ _ _ E2 H).
    + discriminate.
  - intros E. inversion E. intros [].
  - intros E. inversion E. intros [].
Qed.

Lemma run_sessions_no_dirwrite ss : forall fs rs d o d' fs' rs' es,
  run_sessions ss fs rs d = (o, d', fs', rs', es) -> ~ In EDirWrite es.
Proof.
  induction ss as [|b ss IH]; intros fs rs d o d' fs' rs' es E; simpl in E.
  - inversion E. intros [].
  - destruct (run_session b fs rs d) as [[[[o1 d1] fs1] rs1] es1] eqn:E1.
    pose proof (run_session_no_dirwrite _ _ _ _ _ _ _ _ _ E1) as H1.
    destruct o1.
    + destruct (run_sessions ss fs1 rs1 d1) as [[[[o2 d2] fs2] rs2] es2] eqn:E2.
      inversion E; subst. intros H. apply in_app_or in H. destruct H as [H|H]; [exact (H1 H)|].
      exact (IH _ _ _ _ _ _ _ _ E2 H).
    + inversion E; subst. exact H1.
    + inversion E; subst. exact H1.
    + inversion E; subst. exact H1.
    + inversion E; subst. exact H1.
    + inversion E; subst. exact H1.
Qed.

(** ** the commands *)
Definition replays (s : source) : Prop :=
  (exists ss, s = SrcSQL ss) \/ (exists dd, s = SrcDir dd).
Definition normalizes (norm : normalizer) (s : source) : Prop :=
  norm <> NoNorm /\ exists ts, s = SrcHCL ts.

Lemma eager_nonempty excl s : replays s -> eager excl s <> [].
Proof. intros [[ss ->]|[dd ->]]; discriminate. Qed.

Lemma deferred_nonempty norm s : normalizes norm s -> deferred norm s <> [].
Proof. intros [Hn [ts ->]]. destruct norm; simpl; try discriminate. congruence. Qed.

Lemma app_nonempty_l {A} (l1 l2 : list A) : l1 <> [] -> l1 ++ l2 <> [].
Proof. destruct l1; [congruence|discriminate]. Qed.
Lemma app_nonempty_r {A} (l1 l2 : list A) : l2 <> [] -> l1 ++ l2 <> [].
Proof. destruct l1; [auto|discriminate]. Qed.

Lemma sessions_of_nonempty norm c excl dir from to :
  (* every command opens a session unless none of its sources needs the dev database *)
  match c with
  | CValidate | CLint _ | CDiff | CCheckpoint => True
  | CSchemaDiff => replays from \/ replays to \/ normalizes norm from \/ normalizes norm to
  | CSchemaApply => replays to \/ normalizes norm to
  | CSchemaInspect => replays from \/ normalizes norm from
  end -> sessions_of norm c excl dir from to <> [].
Proof.
  destruct c; simpl; intros H; try discriminate.
  - apply app_nonempty_r. discriminate.
  - destruct H as [H|[H|[H|H]]].
    + apply app_nonempty_l. exact (eager_nonempty _ _ H).
    + apply app_nonempty_r, app_nonempty_l. exact (eager_nonempty _ _ H).
    + apply app_nonempty_r, app_nonempty_r, app_nonempty_l. exact (deferred_nonempty _ _ H).
    + apply app_nonempty_r, app_nonempty_r, app_nonempty_r. exact (deferred_nonempty _ _ H).
  - destruct H as [H|H].
    + apply app_nonempty_l. exact (eager_nonempty _ _ H).
    + apply app_nonempty_r. exact (deferred_nonempty _ _ H).
  - destruct H as [H|H].
    + apply app_nonempty_l. exact (eager_nonempty _ _ H).
    + apply app_nonempty_r. exact (deferred_nonempty _ _ H).
Qed.

Lemma run_cmd_refused norm c excl dir from to changes fs rs d :
  snapshot d <> VClean ->
  sessions_of norm c excl dir from to <> [] ->
  run_cmd norm c excl dir from to changes fs rs d = (decline_of d, d, []).
Proof.
  intros H Hne. unfold run_cmd. rewrite (run_sessions_refused _ fs rs d H).
  destruct (sessions_of norm c excl dir from to); [congruence|].
  unfold decline_of. destruct (unreadable d); simpl; rewrite andb_false_r; reflexivity.
Qed.

Lemma run_cmd_handed_back norm c excl dir from to changes fs d o d' es :
  snapshot d = VClean ->
  sessions_of norm c excl dir from to <> [] ->
  run_cmd norm c excl dir from to changes fs [] d = (o, d', es) -> d' = [].
Proof.
  unfold run_cmd. intros Hc Hne.
  destruct (run_sessions (sessions_of norm c excl dir from to) fs [] d) as [[[[o1 d1] fs1] rs1] es1] eqn:E.
  intros H. inversion H; subst. exact (run_sessions_handed_back _ _ _ _ _ _ _ _ Hc Hne E).
Qed.

Lemma run_cmd_from_empty norm c excl dir from to changes fs o d' es :
  run_cmd norm c excl dir from to changes fs [] [] = (o, d', es) -> d' = [].
Proof.
  unfold run_cmd.
  destruct (run_sessions (sessions_of norm c excl dir from to) fs [] []) as [[[[o1 d1] fs1] rs1] es1] eqn:E.
  intros H. inversion H; subst. exact (run_sessions_from_empty _ _ _ _ _ _ _ E).
Qed.

Lemma run_cmd_restore_last norm c excl dir from to changes fs rs d :
  snapshot d = VClean ->
  sessions_of norm c excl dir from to <> [] ->
  exists o d' es k tail,
    run_cmd norm c excl dir from to changes fs rs d = (o, d', es ++ [ERestore k] ++ tail) /\
    (2 <= k -> d' = []) /\ (declined o = true -> k < 2) /\ (tail = [] \/ tail = [EDirWrite]).
Proof.
  intros Hc Hne. unfold run_cmd.
  destruct (run_sessions_clean _ fs rs d Hc Hne) as [o [d' [fs' [rs' [es [k [E [Hk Ho]]]]]]]].
  rewrite E. eexists o, d', es, k, _. rewrite <- app_assoc. split; [reflexivity|].
  split; [exact Hk|]. split; [exact Ho|].
  destruct (writes_dir c && is_ok o && changes); [right|left]; reflexivity.
Qed.

Lemma run_cmd_untouched norm c excl dir from to changes fs rs d o d' es :
  run_cmd norm c excl dir from to changes fs rs d = (o, d', es) ->
  existsb touching es = false -> d' = d.
Proof.
  unfold run_cmd.
  destruct (run_sessions (sessions_of norm c excl dir from to) fs rs d) as [[[[o1 d1] fs1] rs1] es1] eqn:E.
  intros H Ht. inversion H; subst. destruct (existsb_app_false _ _ _ Ht) as [H1 _].
  exact (run_sessions_untouched _ _ _ _ _ _ _ _ _ E H1).
Qed.

Lemma run_cmd_dirwrite norm c excl dir from to changes fs rs d o d' es :
  run_cmd norm c excl dir from to changes fs rs d = (o, d', es) ->
  (exists es0, ~ In EDirWrite es0 /\
     ((es = es0 /\ (writes_dir c = false \/ o <> OOk \/ changes = false)) \/
      (es = es0 ++ [EDirWrite] /\ writes_dir c = true /\ o = OOk /\ changes = true))).
Proof.
  unfold run_cmd.
  destruct (run_sessions (sessions_of norm c excl dir from to) fs rs d) as [[[[o1 d1] fs1] rs1] es1] eqn:E.
  intros H. inversion H; subst. exists es1.
  split; [exact (run_sessions_no_dirwrite _ _ _ _ _ _ _ _ _ E)|].
  destruct (writes_dir c) eqn:Hw; simpl; [|left; split; [apply app_nil_r|left; reflexivity]].
  destruct o; simpl; try (left; split; [apply app_nil_r|right; left; discriminate]).
  destruct changes; simpl.
  - right. repeat split; reflexivity.
  - left. split; [apply app_nil_r|right; right; reflexivity].
Qed.

Lemma run_cmd_dir_readonly norm c excl dir from to changes fs rs d o d' es :
  run_cmd norm c excl dir from to changes fs rs d = (o, d', es) ->
  (writes_dir c = false \/ o <> OOk \/ changes = false) -> ~ In EDirWrite es.
Proof.
  intros E Hc. destruct (run_cmd_dirwrite _ _ _ _ _ _ _ _ _ _ _ _ _ E) as [es0 [H0 [[-> _]|[_ [Hw [Ho Hch]]]]]].
  - exact H0.
  - destruct Hc as [Hc|[Hc|Hc]]; congruence.
Qed.
