(** M-DEV: executable model of a dev-database *session* and of the session
    sequences the CLI commands open.  No proofs in this file.

    Go code followed (function names kept in comments):
    - sql/sqlite/driver.go   Driver.Snapshot (cleanliness verdict + RestoreFunc, four statements)
    - sql/sqlite/inspect.go  tablesQuery (what InspectRealm can see)
    - sql/migrate/migrate.go Executor.Replay, Executor.Pending (first run:
                             FilesFromLastCheckpoint), Planner.plan/current/WritePlan
    - sql/internal/sqlx/dev.go DevDriver.NormalizeSchema / NormalizeRealm
    - cmd/atlas/internal/migratelint/lint.go DevLoader.LoadChanges/base/first/next
    - cmd/atlas/internal/cmdext/reader.go, cmdext_oss.go StateReaderSQL (eager
      replay), stateReaderHCL (normalisation deferred to ReadState, only if the
      driver is a schema.Normalizer -- the SQLite driver is not)
    - cmd/atlas/internal/cmdapi: migrateValidateRun, migrateLintRun,
      migrateDiffRun, schemaDiffRun, schemaApplyRun, computeDiff

    The database is the content of sqlite_master (type, name, tbl_name) plus a
    row count per table.  A statement either succeeds (new database) or fails
    and leaves the database as it was (SQLite statements are atomic).  On top
    of the failures the abstract engine predicts, two fault streams can make
    any ExecContext fail (I/O error, lock, read-only connection ...): [fs] is
    consumed by the statements of the bodies, [rs] by the four statements of
    every RestoreFunc; [true] = this ExecContext fails.

    Every session also *reads* the database after its statements
    (Executor.Replay: [return r.ReadState(ctx)]; NormalizeRealm/NormalizeSchema:
    InspectRealm/InspectSchema after ApplyChanges; DevLoader: d.inspect after
    the base files and after every statement of a new file).  That read is an
    op of the body ([OInspect]); it fails -- although every statement
    succeeded -- iff the database holds an object whose definition SQLite
    accepted and Atlas' inspector cannot parse -- or because the read itself
    is hit by a fault (second component of [fs]) -- ([o_insp = false]: a column
    [varchar(99999999999999999999)] -> "parse size"; a generated column quoted
    with brackets; a partial index written with a lower-case [where]), or iff
    the inspection options are malformed ([--exclude '['] of schema
    inspect/apply/diff) and there is a table to match them against. *)
From Coq Require Import List NArith Bool Arith.
From Atlas Require Import Base.Bytes.
Import ListNotations.

(** ** the database *)
Inductive kind := KTable | KIndex | KView | KTrigger.

Definition kind_eqb (a b : kind) : bool :=
  match a, b with
  | KTable, KTable | KIndex, KIndex | KView, KView | KTrigger, KTrigger => true
  | _, _ => false
  end.

Record obj := mkObj {
  o_kind : kind;     (* sqlite_master.type *)
  o_name : bytes;    (* sqlite_master.name *)
  o_tbl  : bytes;    (* sqlite_master.tbl_name *)
  o_rows : N;        (* number of rows (tables only) *)
  o_insp : bool      (* Atlas' inspector can parse its definition (sqlite_master.sql / PRAGMA table_info) *)
}.
Definition db := list obj.

(** ** what InspectRealm sees: tablesQuery has
       [type = 'table' AND name NOT LIKE 'sqlite_%' AND name NOT LIKE 'libsql_%'].
    LIKE is ASCII case-insensitive, ['_'] matches exactly one character and
    ['%'] any sequence: the pattern holds iff the name starts with the six
    letters and has at least one more character. *)
Definition lower (c : N) : N :=
  if (N.leb 65 c && N.leb c 90)%bool then (c + 32)%N else c.

Fixpoint strip_prefix_ci (p s : bytes) : option bytes :=
  match p, s with
  | [], _ => Some s
  | _ :: _, [] => None
  | x :: p', y :: s' => if N.eqb (lower x) (lower y) then strip_prefix_ci p' s' else None
  end.

Definition like6 (p s : bytes) : bool :=
  match strip_prefix_ci p s with
  | Some (_ :: _) => true
  | _ => false
  end.

Definition b_sqlite : bytes := [115; 113; 108; 105; 116; 101]%N.  (* "sqlite" *)
Definition b_libsql : bytes := [108; 105; 98; 115; 113; 108]%N.   (* "libsql" *)

Definition hidden_name (n : bytes) : bool := like6 b_sqlite n || like6 b_libsql n.

Definition visible_table (o : obj) : bool :=
  kind_eqb (o_kind o) KTable && negb (hidden_name (o_name o)).

(** InspectRealm(ctx, nil).Schemas[0].Tables *)
Definition inspect_tables (d : db) : list obj := filter visible_table d.

(** What an inspection parses (sql/sqlite/inspect.go inspectTables -> columns,
    indexes, fks, checks of every table [tablesQuery] returned): the visible
    tables and the indexes of visible tables.  Views and triggers are not
    inspected by this build; nothing of a hidden table is. *)
Definition inspected (o : obj) : bool :=
  match o_kind o with
  | KTable => negb (hidden_name (o_name o))
  | KIndex => negb (hidden_name (o_tbl o))
  | KView | KTrigger => false
  end.

(** an inspected object the inspector cannot parse: columns -> "parse size",
    setGenExpr -> "generation expression ... was not found", addIndexes ->
    "missing partial WHERE clause" *)
Definition unreadable (d : db) : bool :=
  existsb (fun o => inspected o && negb (o_insp o)) d.

(** InspectRealm/InspectSchema with options.  [badopt]: opts.Exclude holds a
    malformed glob ("["): schema.ExcludeRealm/ExcludeSchema report
    filepath.ErrBadPattern as soon as there is a table name to match it
    against (nothing to match: no error). *)
Definition inspect_fails (badopt : bool) (d : db) : bool :=
  unreadable d || (badopt && match inspect_tables d with [] => false | _ :: _ => true end).

(** Snapshot's second query (fixes 17b84dd, C14-hidden-table):
      SELECT type, name FROM sqlite_master
      WHERE tbl_name NOT LIKE 'sqlite\_%' ESCAPE '\' AND tbl_name <> 'libsql_wasm_func_table' LIMIT 1
    i.e. any object that does not belong to a bookkeeping table of the engine.
    ['sqlite\_%'] with the escape: the seven characters "sqlite_" (ASCII
    case-insensitive), then anything (also nothing); [<>] is case-sensitive. *)
Definition prefix_ci (p s : bytes) : bool :=
  match strip_prefix_ci p s with Some _ => true | None => false end.

Definition b_sqlite_ : bytes := [115; 113; 108; 105; 116; 101; 95]%N.  (* "sqlite_" *)
Definition b_wasm : bytes :=                                           (* "libsql_wasm_func_table" *)
  [108; 105; 98; 115; 113; 108; 95; 119; 97; 115; 109; 95; 102; 117; 110; 99; 95; 116; 97; 98; 108; 101]%N.

Definition reserved_tbl (n : bytes) : bool := prefix_ci b_sqlite_ n || bytes_eqb n b_wasm.

(** the row belongs to a bookkeeping table of the engine (sqlite_sequence,
    sqlite_stat1, ... -- SQLite reserves the prefix, no user object can carry
    it -- or libSQL's libsql_wasm_func_table) *)
Definition bookkeeping (o : obj) : bool := reserved_tbl (o_tbl o).
Definition other_objects (d : db) : list obj := filter (fun o => negb (bookkeeping o)) d.

(** [clean] as Driver.Snapshot decides it: no table in the inspected realm,
    then no row from the query above. *)
Definition code_clean (d : db) : bool :=
  match inspect_tables d with
  | _ :: _ => false
  | [] => match other_objects d with _ :: _ => false | [] => true end
  end.

(** Driver.Snapshot starts with [r, err := d.InspectRealm(ctx, nil); if err != nil
    { return nil, err }]: a database the inspector cannot read is neither
    accepted nor reported as "not clean" -- the command fails with the
    inspector's error, before anything is written. *)
Inductive verdict := VClean | VNotClean | VInspectErr.
Definition snapshot (d : db) : verdict :=
  if unreadable d then VInspectErr
  else if code_clean d then VClean else VNotClean.

(** [clean] as the property means it: the database contains nothing -- nothing
    but bookkeeping of the engine, which no statement can remove
    (sqlite_sequence cannot be dropped; `atlas schema clean` leaves it and
    sqlite_stat1 behind) and which is no content of the user. *)
Definition prop_clean (d : db) : bool := forallb bookkeeping d.

(** strictly nothing: what every session leaves behind *)
Definition db_empty (d : db) : bool :=
  match d with [] => true | _ => false end.

(** The RestoreFunc:
      PRAGMA writable_schema = 1;
      DELETE FROM sqlite_master WHERE type IN ('table','view','index','trigger');
      PRAGMA writable_schema = 0;
      VACUUM;
    [restore] is the effect of the DELETE. *)
Definition in_delete_list (k : kind) : bool :=
  match k with KTable => true | KView => true | KIndex => true | KTrigger => true end.
Definition restore (d : db) : db := filter (fun o => negb (in_delete_list (o_kind o))) d.

(** ** abstract SQLite statements (the ones the harness writes) *)
Inductive stmt :=
| SCreateTable   (n : bytes)     (* CREATE TABLE n (id INTEGER PRIMARY KEY, v TEXT) *)
| SCreateIndex   (i t : bytes)   (* CREATE INDEX i ON t (v) *)
| SCreateView    (v : bytes)     (* CREATE VIEW v AS SELECT 1 AS x *)
| SCreateTrigger (g t : bytes)   (* CREATE TRIGGER g AFTER INSERT ON t BEGIN SELECT 1; END *)
| SDropTable     (t : bytes)
| SDropView      (v : bytes)
| SDropIndex     (i : bytes)
| SInsert        (t : bytes)     (* INSERT INTO t (id, v) VALUES (1, 'x')  -- unique id *)
| SBad                           (* not SQL at all *)
(* accepted by SQLite, not parsable by Atlas' inspector: *)
| SCreateTableU  (n : bytes)     (* CREATE TABLE n (id INTEGER PRIMARY KEY, v varchar(99999999999999999999))
                                    | CREATE TABLE n (id INTEGER PRIMARY KEY, v TEXT, [g] INT AS (id + 1)) *)
| SCreateIndexU  (i t : bytes).  (* CREATE INDEX i ON t (v) where v > 'a' *)

Definition has (k : kind) (n : bytes) (d : db) : bool :=
  existsb (fun o => kind_eqb (o_kind o) k && bytes_eqb (o_name o) n) d.

(** tables, indexes and views share one name space; triggers have their own *)
Definition name_used (n : bytes) (d : db) : bool :=
  existsb (fun o => negb (kind_eqb (o_kind o) KTrigger) && bytes_eqb (o_name o) n) d.

Definition set_rows (t : bytes) (r : N) (d : db) : db :=
  map (fun o => if kind_eqb (o_kind o) KTable && bytes_eqb (o_name o) t
                then mkObj (o_kind o) (o_name o) (o_tbl o) r (o_insp o) else o) d.

Definition rows_of (t : bytes) (d : db) : option N :=
  match find (fun o => kind_eqb (o_kind o) KTable && bytes_eqb (o_name o) t) d with
  | Some o => Some (o_rows o)
  | None => None
  end.

(** [None] = the statement fails, the database is unchanged. *)
Definition exec_stmt (s : stmt) (d : db) : option db :=
  match s with
  | SCreateTable n =>
      if name_used n d then None else Some (d ++ [mkObj KTable n n 0 true])
  | SCreateIndex i t =>
      if has KTable t d && negb (name_used i d) then Some (d ++ [mkObj KIndex i t 0 true]) else None
  | SCreateView v =>
      if name_used v d then None else Some (d ++ [mkObj KView v v 0 true])
  | SCreateTrigger g t =>
      if has KTable t d && negb (has KTrigger g d) then Some (d ++ [mkObj KTrigger g t 0 true]) else None
  | SDropTable t =>
      if has KTable t d then Some (filter (fun o => negb (bytes_eqb (o_tbl o) t)) d) else None
  | SDropView v =>
      if has KView v d then Some (filter (fun o => negb (bytes_eqb (o_tbl o) v)) d) else None
  | SDropIndex i =>
      if has KIndex i d
      then Some (filter (fun o => negb (kind_eqb (o_kind o) KIndex && bytes_eqb (o_name o) i)) d)
      else None
  | SInsert t =>
      match rows_of t d with
      | Some 0%N => Some (set_rows t 1 d)
      | _ => None
      end
  | SBad => None
  | SCreateTableU n =>
      if name_used n d then None else Some (d ++ [mkObj KTable n n 0 false])
  | SCreateIndexU i t =>
      if has KTable t d && negb (name_used i d) then Some (d ++ [mkObj KIndex i t 0 false]) else None
  end.

(** ** a session: Snapshot -> body -> restore (deferred) *)
Inductive op :=
| OExec (m : nat) (s : stmt)   (* one ExecContext; [m] names the statement in observations *)
| OInspect (m : nat) (badopt : bool)
                               (* a read of the state: r.ReadState / InspectRealm / InspectSchema /
                                  DevLoader.inspect / Pending's CheckClean; [m] = the statement it follows (0: none);
                                  [badopt]: its options carry a malformed exclude pattern *)
| ORestore.                    (* LoadChanges: restore(ctx) before each checkpoint file *)
Definition body := list op.

Inductive event :=
| EWrite (m : nat) (ok : bool)   (* a write reached the dev database *)
| ERestore (k : nat)             (* the RestoreFunc ran; [k] of its 4 statements succeeded *)
| EDirWrite.                     (* Planner.WritePlan/WriteCheckpoint: the migration directory is written *)

(** [OInspectFail m]: every statement so far succeeded, the inspection after
    statement [m] failed.  [OSnapshotFail]: Snapshot's own inspection failed
    (nothing was written, no RestoreFunc exists). *)
Inductive outcome := OOk | ORefused | OFail (m : nat) | ORestoreFail | OInspectFail (m : nat) | OSnapshotFail.

Definition pop (fs : list bool) : bool * list bool :=
  match fs with [] => (false, []) | b :: t => (b, t) end.

(** The faults of the bodies: one stream for the ExecContext calls, one for the
    reads of the state (a read can fail for reasons that have nothing to do
    with what the database holds: I/O error, lost connection, cancelled
    context between the last statement and the inspection). *)
Definition faults := (list bool * list bool)%type.
Definition pop_exec (f : faults) : bool * faults :=
  let '(b, t) := pop (fst f) in (b, (t, snd f)).
Definition pop_read (f : faults) : bool * faults :=
  let '(b, t) := pop (snd f) in (b, (fst f, t)).
Definition no_faults : faults := ([], []).

(** The fault streams: [fs] = (ExecContext calls of a body, reads of a body), [rs] =
    every statement of the RestoreFunc ([true] = this ExecContext fails: I/O
    error, lock, read-only connection ...).  The RestoreFunc stops at its first
    failing statement; the database is emptied by its second one. *)
Definition run_restore (rs : list bool) (d : db) : nat * db * list bool :=
  let '(f1, rs1) := pop rs in
  if f1 then (0, d, rs1) else
  let '(f2, rs2) := pop rs1 in
  if f2 then (1, d, rs2) else
  let '(f3, rs3) := pop rs2 in
  if f3 then (2, restore d, rs3) else
  let '(f4, rs4) := pop rs3 in
  if f4 then (3, restore d, rs4) else (4, restore d, rs4).

Definition restore_done (k : nat) : bool := 4 <=? k.

Inductive bres := BOk | BFail (m : nat) | BRestoreFail | BInspectFail (m : nat).

(** The statements and reads of the body, in order, until one fails.  A read
    is no event: it does not reach the database. *)
Fixpoint run_body (b : body) (fs : faults) (rs : list bool) (d : db)
  : bres * db * faults * list bool * list event :=
  match b with
  | [] => (BOk, d, fs, rs, [])
  | ORestore :: b' =>
      (* if err := restore(ctx); err != nil { return nil, err } *)
      let '(k, d1, rs1) := run_restore rs d in
      if restore_done k
      then let '(r, d', fs', rs', es) := run_body b' fs rs1 d1 in (r, d', fs', rs', ERestore k :: es)
      else (BRestoreFail, d1, fs, rs1, [ERestore k])
  | OInspect m badopt :: b' =>
      (* if err != nil { return nil, err } -- the deferred restore is what is left to run *)
      let '(fail, fs1) := pop_read fs in
      if fail || inspect_fails badopt d then (BInspectFail m, d, fs1, rs, [])
      else run_body b' fs1 rs d
  | OExec m s :: b' =>
      let '(fail, fs1) := pop_exec fs in
      if fail then (BFail m, d, fs1, rs, [EWrite m false])
      else match exec_stmt s d with
           | None => (BFail m, d, fs1, rs, [EWrite m false])
           | Some d1 =>
               let '(r, d', fs', rs', es) := run_body b' fs1 rs d1 in (r, d', fs', rs', EWrite m true :: es)
           end
  end.

(** [restore, err := Snapshot(ctx); if err != nil { return }; defer restore(ctx); body]
    -- Executor.Replay, DevDriver.NormalizeSchema/NormalizeRealm, DevLoader.LoadChanges.
    Snapshot only reads (InspectRealm + one SELECT): no event before the verdict;
    if that InspectRealm fails the session ends there ([OSnapshotFail]).
    [s_reports]: the deferred closure hands a restore error to the caller.  True
    for Replay, LoadChanges, NormalizeRealm (named result [err]); false for
    NormalizeSchema, whose results are unnamed: the closure assigns a dead
    variable and a failing restore is silently dropped. *)
Record sess := mkSess { s_body : body; s_reports : bool }.

Definition run_session (s : sess) (fs : faults) (rs : list bool) (d : db)
  : outcome * db * faults * list bool * list event :=
  match snapshot d with
  | VClean =>
    let '(r, d1, fs1, rs1, es) := run_body (s_body s) fs rs d in
    let '(k, d2, rs2) := run_restore rs1 d1 in
    (match r with
     | BFail m => OFail m            (* errors.Join(err, err2): the statement's error comes first *)
     | BInspectFail m => OInspectFail m   (* likewise: the inspector's error comes first *)
     | BRestoreFail => ORestoreFail
     | BOk => if restore_done k || negb (s_reports s) then OOk else ORestoreFail
     end, d2, fs1, rs2, es ++ [ERestore k])
  | VNotClean => (ORefused, d, fs, rs, [])
  | VInspectErr => (OSnapshotFail, d, fs, rs, [])
  end.

(** the two ways a session declines a database without touching it *)
Definition declined (o : outcome) : bool :=
  match o with ORefused | OSnapshotFail => true | _ => false end.
Definition decline_of (d : db) : outcome :=
  if unreadable d then OSnapshotFail else ORefused.

(** A command opens its sessions one after the other and stops at the first error. *)
Fixpoint run_sessions (ss : list sess) (fs : faults) (rs : list bool) (d : db)
  : outcome * db * faults * list bool * list event :=
  match ss with
  | [] => (OOk, d, fs, rs, [])
  | b :: ss' =>
      let '(o, d1, fs1, rs1, es1) := run_session b fs rs d in
      match o with
      | OOk => let '(o2, d2, fs2, rs2, es2) := run_sessions ss' fs1 rs1 d1 in (o2, d2, fs2, rs2, es1 ++ es2)
      | _ => (o, d1, fs1, rs1, es1)
      end
  end.

(** ** the bodies *)
Record mfile := mkMFile { mf_ckpt : bool; mf_stmts : list (nat * stmt) }.
Definition mdir := list mfile.   (* Dir.Files(): sorted by version *)

Definition execs (fs : list mfile) : body :=
  flat_map (fun f => map (fun ms => OExec (fst ms) (snd ms)) (mf_stmts f)) fs.

(** FilesFromLastCheckpoint / [base = base[i:]] with i = FilesLastIndex(IsCheckpoint):
    the files from the last checkpoint (inclusive) on; all files if there is none. *)
Fixpoint from_last_ckpt (fs : list mfile) : list mfile :=
  match fs with
  | [] => []
  | f :: fs' =>
      if existsb mf_ckpt fs' then from_last_ckpt fs' else f :: fs'
  end.

(** Executor.Replay -> ExecuteN(0) -> Pending (no revisions: "first run" ->
    [e.drv.CheckClean], which for SQLite is one more InspectRealm(ctx, nil),
    *inside* the session and before the first statement; its error, unless a
    NotCleanError, ends the replay) -> exec; then [return r.ReadState(ctx)]
    (also when there was no pending file).  [excl]: the StateReader was built
    with a malformed Exclude pattern. *)
Definition replay_body (excl : bool) (dir : mdir) : body :=
  OInspect 0 false :: execs (from_last_ckpt dir) ++ [OInspect 0 excl].
Definition replay_sess (excl : bool) (dir : mdir) : sess := mkSess (replay_body excl dir) true.

(** ChangeDetector (latestChange: the latest N files are new; GitChangeDetector:
    the first file added since the base branch and everything after it -- the
    harness passes their number) + DevLoader.LoadChanges: base from its last
    checkpoint (DevLoader.base), the new non-checkpoint files (first/next --
    next), then per new checkpoint file restore + inspect + next.
    Reads: DevLoader.base ends with d.inspect (also with no base file);
    nextStmts inspects after every statement; [first] -- the first new file
    when there is no base file at all -- does so only up to 10 statements,
    a longer file is executed in one loop and inspected once. *)
Definition stmts_inspected (f : mfile) : body :=
  flat_map (fun ms => [OExec (fst ms) (snd ms); OInspect (fst ms) false]) (mf_stmts f).
Definition first_body (f : mfile) : body :=
  if length (mf_stmts f) <=? 10 then stmts_inspected f else execs [f] ++ [OInspect 0 false].
Definition lint_body (dir : mdir) (latest : nat) : body :=
  let n := length dir in
  let base := if n <=? latest then [] else firstn (n - latest) dir in
  let feat := if n <=? latest then dir else skipn (n - latest) dir in
  execs (from_last_ckpt base) ++ [OInspect 0 false]
  ++ match feat with
     | [] => []
     | f0 :: rest =>
         (if mf_ckpt f0 then [] else match base with [] => first_body f0 | _ :: _ => stmts_inspected f0 end)
         ++ flat_map (fun f => if mf_ckpt f then [] else stmts_inspected f) rest
     end
  ++ flat_map (fun f => if mf_ckpt f then ORestore :: OInspect 0 false :: stmts_inspected f else []) feat.
Definition lint_sess (dir : mdir) (latest : nat) : sess := mkSess (lint_body dir latest) true.

(** HCL desired state: tables with their indexes; NormalizeSchema/NormalizeRealm
    apply AddTable changes = CREATE TABLE followed by its CREATE INDEXes.
    [ht_unins]: the table has a column type SQLite accepts and the inspector
    cannot parse.  After ApplyChanges both inspect the result (NormalizeRealm:
    InspectRealm(ctx, opts); NormalizeSchema: InspectSchema(ctx, "", nil); its
    earlier InspectSchema has Mode InspectSchemas and reads no table). *)
Record htable := mkHTable { ht_m : nat; ht_name : bytes; ht_idx : list (nat * bytes); ht_unins : bool }.

Definition normalize_body (ts : list htable) : body :=
  flat_map (fun t => OExec (ht_m t) (if ht_unins t then SCreateTableU (ht_name t) else SCreateTable (ht_name t))
                     :: map (fun mi => OExec (fst mi) (SCreateIndex (snd mi) (ht_name t))) (ht_idx t)) ts
  ++ [OInspect 0 false].

(** ** the commands *)
Inductive source :=
| SrcNone
| SrcURL                            (* a database URL: read by inspection, no dev session *)
| SrcSQL (ss : list (nat * stmt))   (* file://schema.sql *)
| SrcDir (d : mdir)                 (* file://migrations *)
| SrcHCL (ts : list htable).        (* file://schema.hcl *)

(** every command that takes --dev-url (CCheckpoint: Planner.Checkpoint +
    WriteCheckpoint, an API of sql/migrate; the community CLI has no
    `migrate checkpoint`) *)
Inductive command :=
| CValidate | CLint (latest : nat) | CDiff | CSchemaDiff | CSchemaApply | CSchemaInspect | CCheckpoint.

(** stateReaderHCL normalises only if the driver implements schema.Normalizer
    (MySQL/PostgreSQL wrap sqlx.DevDriver; the SQLite driver does not):
    NormalizeSchema if the dev URL is bound to a schema, else NormalizeRealm. *)
Inductive normalizer := NoNorm | NormRealm | NormSchema.

(** StateReaderSQL replays at once, inside stateReader(...); the reader it
    hands to Replay carries the command's --exclude patterns
    (SchemaConn/RealmConn with Exclude: cfg.Exclude). *)
Definition eager (excl : bool) (s : source) : list sess :=
  match s with
  | SrcSQL ss => [replay_sess excl [mkMFile false ss]]
  | SrcDir d => [replay_sess excl d]
  | _ => []
  end.

(** stateReaderHCL normalises on ReadState. *)
Definition deferred (norm : normalizer) (s : source) : list sess :=
  match s, norm with
  | SrcHCL ts, NormRealm => [mkSess (normalize_body ts) true]
  | SrcHCL ts, NormSchema => [mkSess (normalize_body ts) false]
  | _, _ => []
  end.

(** migrateValidateRun: Replay.  migrateLintRun: Runner.Run -> LoadChanges.
    migrateDiffRun: stateReader(to); Planner.plan = current (Replay), then
    to.ReadState.  schemaDiffRun: stateReader(from); stateReader(to);
    computeDiff = from.ReadState, to.ReadState.  schemaApplyRun: from is the
    target URL; stateReader(to); computeDiff.  schemaInspectRun: stateReader(url);
    r.ReadState.  Planner.checkpoint: current (Replay).
    Every session is closed (its deferred restore has run) before the next
    one is opened; the only restores inside a session are LoadChanges'.
    [excl]: the command was given a malformed --exclude pattern (only schema
    inspect/apply/diff take the flag; the replay of the migration directory
    itself -- migrate validate/diff, Planner.current -- reads without options). *)
Definition sessions_of (norm : normalizer) (c : command) (excl : bool) (dir : mdir) (from to : source) : list sess :=
  match c with
  | CValidate => [replay_sess false dir]
  | CLint n => [lint_sess dir n]
  | CDiff => eager false to ++ [replay_sess false dir] ++ deferred norm to
  | CSchemaDiff => eager excl from ++ eager excl to ++ deferred norm from ++ deferred norm to
  | CSchemaApply => eager excl to ++ deferred norm to
  | CSchemaInspect => eager excl from ++ deferred norm from
  | CCheckpoint => [replay_sess false dir]
  end.

(** the commands that write the migration directory at all *)
Definition writes_dir (c : command) : bool :=
  match c with CDiff | CCheckpoint => true | _ => false end.
Definition is_ok (o : outcome) : bool := match o with OOk => true | _ => false end.

(** [changes]: the plan is not empty (otherwise ErrNoPlan, nothing is written). *)
Definition run_cmd (norm : normalizer) (c : command) (excl : bool) (dir : mdir) (from to : source)
           (changes : bool) (fs : faults) (rs : list bool) (d : db) : outcome * db * list event :=
  let '(o, d', _, _, es) := run_sessions (sessions_of norm c excl dir from to) fs rs d in
  (o, d', es ++ (if writes_dir c && is_ok o && changes then [EDirWrite] else [])).

(** ** well-formedness of a database and the observation the driver prints *)
(** sqlite_master: tbl_name of a table row is its name *)
Definition wf_db (d : db) : Prop :=
  forall o, In o d -> o_kind o = KTable -> o_tbl o = o_name o.

Definition obj_eqb (a b : obj) : bool :=
  kind_eqb (o_kind a) (o_kind b) && bytes_eqb (o_name a) (o_name b)
  && bytes_eqb (o_tbl a) (o_tbl b) && N.eqb (o_rows a) (o_rows b) && Bool.eqb (o_insp a) (o_insp b).

Fixpoint db_eqb (a b : db) : bool :=
  match a, b with
  | [], [] => true
  | x :: a', y :: b' => obj_eqb x y && db_eqb a' b'
  | _, _ => false
  end.

Definition dir_written (es : list event) : bool :=
  existsb (fun e => match e with EDirWrite => true | _ => false end) es.

(** what changes the database: a successful write, a restore that reached its DELETE *)
Definition touching (e : event) : bool :=
  match e with
  | EWrite _ ok => ok
  | ERestore k => 2 <=? k
  | EDirWrite => false
  end.

(** an event that is no failure: a write that succeeded, a RestoreFunc that ran to its end *)
Definition ok_event (e : event) : bool :=
  match e with
  | EWrite _ ok => ok
  | ERestore k => restore_done k
  | EDirWrite => false
  end.

Definition observe (norm : normalizer) (c : command) (excl : bool) (dir : mdir) (from to : source)
           (changes : bool) (fs : faults) (rs : list bool) (d : db) : outcome * bool * bool * bool :=
  let '(o, d', es) := run_cmd norm c excl dir from to changes fs rs d in
  (o, db_eqb d d', db_empty d', dir_written es).
