(** Lemmas about M-DEV-TX (DevTxModel.v). *)
From Coq Require Import List NArith Bool Arith Lia.
Import ListNotations.
From Atlas Require Import Dev.DevTxModel.

Definition conn0 : conn := mkConn [] [] false.

Lemma tx_final_char : forall ss,
  snd (tx_session ss []) =
  (let c := snd (run_script ss conn0) in if c_intx c then c_file c else []).
Proof.
  intros ss. unfold tx_session. fold conn0.
  destruct (run_script ss conn0) as [r c]. unfold tx_restore, write. cbn [snd fst].
  destruct (c_intx c) eqn:E; cbn; rewrite ?E; reflexivity.
Qed.

Lemma tx_outcome_char : forall ss,
  fst (tx_session ss []) =
  (let '(r, c) := run_script ss conn0 in
   match r with Some m => TFail m | None => if c_intx c then TRestoreFail else TOk end).
Proof.
  intros ss. unfold tx_session. fold conn0.
  destruct (run_script ss conn0) as [r c]. unfold tx_restore, write. cbn [snd fst].
  destruct (c_intx c) eqn:E; cbn; rewrite ?E; destruct r; reflexivity.
Qed.

Lemma run_script_no_begin : forall ss c,
  has_begin ss = false -> c_intx c = false ->
  c_intx (snd (run_script ss c)) = false.
Proof.
  induction ss as [|s ss IH]; intros c Hb Hc; simpl; [exact Hc|].
  simpl in Hb. apply orb_false_iff in Hb. destruct Hb as [Hs Hb].
  assert (Hstep : forall c1, exec_t s c = Some c1 -> c_intx c1 = false).
  { intros c1 He. destruct s; simpl in He; try discriminate; rewrite ?Hc in He; try discriminate.
    destruct (mem n (c_work c)); [discriminate|]. injection He as <-. unfold write. rewrite Hc. reflexivity. }
  destruct (exec_t s c) as [c1|] eqn:E; [|exact Hc].
  specialize (IH c1 Hb (Hstep c1 eq_refl)).
  destruct (run_script ss c1) as [r c']. simpl in *. exact IH.
Qed.

Lemma tx_no_begin_empty : forall ss,
  has_begin ss = false ->
  snd (tx_session ss []) = [] /\ fst (tx_session ss []) <> TRestoreFail.
Proof.
  intros ss Hb. pose proof (run_script_no_begin ss conn0 Hb eq_refl) as H.
  split.
  - rewrite tx_final_char. simpl. rewrite H. reflexivity.
  - rewrite tx_outcome_char. destruct (run_script ss conn0) as [r c]. simpl in H.
    destruct r; [discriminate|]. rewrite H. discriminate.
Qed.

Lemma tx_empty_iff : forall ss,
  snd (tx_session ss []) = [] <->
  (c_intx (snd (run_script ss conn0)) = false \/ c_file (snd (run_script ss conn0)) = []).
Proof.
  intros ss. rewrite tx_final_char. simpl.
  destruct (c_intx (snd (run_script ss conn0))); split; intros H; auto.
  - destruct H as [H|H]; [discriminate|exact H].
Qed.

Lemma tx_refused : forall ss file,
  file <> [] -> tx_session ss file = (TRefused, file).
Proof. intros ss [|x l] H; [contradiction|reflexivity]. Qed.

(** the restore always runs and the error is reported: an accepted session whose
    statements all succeed and that leaves a transaction open ends in TRestoreFail *)
Lemma tx_restore_reported : forall ss,
  fst (run_script ss conn0) = None ->
  c_intx (snd (run_script ss conn0)) = true ->
  fst (tx_session ss []) = TRestoreFail.
Proof.
  intros ss Hr Hc. rewrite tx_outcome_char.
  destruct (run_script ss conn0) as [r c]. simpl in *. subst r. rewrite Hc. reflexivity.
Qed.
