(** M-DEV-SERVER (round 5): Snapshot / RestoreFunc of the MySQL driver
    (sql/mysql/driver_oss.go: Driver.Snapshot, SchemaRestoreFunc,
    RealmRestoreFunc), the inspections behind them (sql/mysql/inspect_oss.go:
    InspectSchema, InspectRealm, schemas, inspectTables -- as sequences of
    queries, each of which can fail), the differ/planner as far as a restore
    uses them (sqlx.Diff.SchemaDiff/RealmDiff towards an empty schema / an empty
    realm: DropTable per table, DropSchema per schema; sqlx.ApplyChanges: one
    ExecContext per change, stop at the first error), and the two sessions of
    sql/internal/sqlx/dev.go (DevDriver.NormalizeSchema, NormalizeRealm).

    A server is a list of schemas (databases) with their tables and the schema
    the connection is bound to (what SCHEMA() answers).  Every QueryContext and
    every ExecContext is one *call*; the fault stream has one bit per call
    (true = this call fails).  No proofs here. *)
From Coq Require Import List NArith Bool Arith.
Import ListNotations.

Record sch := mkSch { s_id : N; s_tabs : list N }.
Record server := mkSrv { sv_schemas : list sch; sv_cur : option N }.

Definition pop (fs : list bool) : bool * list bool :=
  match fs with [] => (false, []) | b :: t => (b, t) end.

(** [n] consecutive calls, stopping at the first one that fails *)
Fixpoint calls (n : nat) (fs : list bool) : bool * list bool :=
  match n with
  | O => (true, fs)
  | S n' => let '(f, fs1) := pop fs in if f then (false, fs1) else calls n' fs1
  end.

Definition memN (n : N) (l : list N) : bool := existsb (N.eqb n) l.

Fixpoint insertN (n : N) (l : list N) : list N :=
  match l with
  | [] => [n]
  | x :: r => if (n <? x)%N then n :: l else x :: insertN n r
  end.

Definition find_sch (n : N) (ss : list sch) : option sch := find (fun s => N.eqb (s_id s) n) ss.

Fixpoint insert_sch (s : sch) (l : list sch) : list sch :=
  match l with
  | [] => [s]
  | x :: r => if (s_id s <? s_id x)%N then s :: l else x :: insert_sch s r
  end.

Definition remove_sch (n : N) (l : list sch) : list sch := filter (fun s => negb (N.eqb (s_id s) n)) l.
Definition set_tabs (n : N) (ts : list N) (l : list sch) : list sch :=
  map (fun s => if N.eqb (s_id s) n then mkSch n ts else s) l.

(** ---- statements the server executes (what the harness' fake server understands) *)
Inductive sstmt :=
| SCt (s : option N) (t : N)            (* CREATE TABLE [s.]t *)
| SDt (s : option N) (t : N)            (* DROP TABLE [s.]t *)
| SCs (s : N) (ifne : bool)             (* CREATE DATABASE [IF NOT EXISTS] s *)
| SDs (s : N)                           (* DROP DATABASE s *)
| SBadS.                                (* a statement the server rejects *)

Inductive sevent := ECt (s t : N) | EDt (s t : N) | ECs (s : N) | EDs (s : N).

Definition target (o : option N) (srv : server) : option N :=
  match o with Some s => Some s | None => sv_cur srv end.

(** [None]: the server rejects the statement (nothing changes) *)
Definition exec_s (st : sstmt) (srv : server) : option (server * sevent) :=
  match st with
  | SCt o t =>
      match target o srv with
      | None => None
      | Some s =>
        match find_sch s (sv_schemas srv) with
        | None => None
        | Some sc => if memN t (s_tabs sc) then None
                     else Some (mkSrv (set_tabs s (insertN t (s_tabs sc)) (sv_schemas srv)) (sv_cur srv), ECt s t)
        end
      end
  | SDt o t =>
      match target o srv with
      | None => None
      | Some s =>
        match find_sch s (sv_schemas srv) with
        | None => None
        | Some sc => if memN t (s_tabs sc)
                     then Some (mkSrv (set_tabs s (filter (fun x => negb (N.eqb x t)) (s_tabs sc)) (sv_schemas srv)) (sv_cur srv), EDt s t)
                     else None
        end
      end
  | SCs s ifne =>
      match find_sch s (sv_schemas srv) with
      | Some _ => if ifne then Some (srv, ECs s) else None
      | None => Some (mkSrv (insert_sch (mkSch s []) (sv_schemas srv)) (sv_cur srv), ECs s)
      end
  | SDs s =>
      match find_sch s (sv_schemas srv) with
      | Some _ => Some (mkSrv (remove_sch s (sv_schemas srv)) (sv_cur srv), EDs s)
      | None => None
      end
  | SBadS => None
  end.

(** sqlx.ApplyChanges / a script: one call per statement, stop at the first failure.
    Result: number of statements that succeeded, all done? *)
Fixpoint apply (l : list sstmt) (srv : server) (fs : list bool) : nat * bool * server * list bool * list sevent :=
  match l with
  | [] => (0, true, srv, fs, [])
  | st :: l' =>
      let '(f, fs1) := pop fs in
      if f then (0, false, srv, fs1, []) else
      match exec_s st srv with
      | None => (0, false, srv, fs1, [])
      | Some (srv1, e) =>
          let '(k, ok, srv', fs', es) := apply l' srv1 fs1 in (S k, ok, srv', fs', e :: es)
      end
  end.

(** ---- the inspections (sql/mysql/inspect_oss.go) *)
Inductive filt := FAll | FCur | FNames (l : list N).

(** inspect.schemas: which rows INFORMATION_SCHEMA.SCHEMATA returns *)
Definition schemas_q (f : filt) (srv : server) : list sch :=
  match f with
  | FAll => sv_schemas srv
  | FCur => match sv_cur srv with
            | Some c => filter (fun s => N.eqb (s_id s) c) (sv_schemas srv)
            | None => []
            end
  | FNames [] => sv_schemas srv          (* no name given: schemasQuery without arguments *)
  | FNames l => filter (fun s => memN (s_id s) l) (sv_schemas srv)
  end.

Definition has_tabs (s : sch) : bool := match s_tabs s with [] => false | _ => true end.

(** inspectTables: the tables query, then columns, indexes, fks, checks for every
    schema that has a table *)
Definition tables_cost (ss : list sch) : nat := 1 + 4 * length (filter has_tabs ss).

Inductive ires (A : Type) := IOk (a : A) | INotExist | IErr.
Arguments IOk {A} a. Arguments INotExist {A}. Arguments IErr {A}.

(** InspectSchema(name, opts): [tabs] = the mode includes InspectTables *)
Definition inspect_schema (f : filt) (tabs : bool) (srv : server) (fs : list bool) : ires sch * list bool :=
  let '(ok, fs1) := calls 1 fs in
  if negb ok then (IErr, fs1) else
  match schemas_q f srv with
  | [] => (INotExist, fs1)
  | [s] => if tabs
           then let '(ok2, fs2) := calls (tables_cost [s]) fs1 in
                if ok2 then (IOk s, fs2) else (IErr, fs2)
           else (IOk (mkSch (s_id s) []), fs1)
  | _ => (IErr, fs1)
  end.

Definition inspect_realm (f : filt) (srv : server) (fs : list bool) : option (list sch) * list bool :=
  let '(ok, fs1) := calls 1 fs in
  if negb ok then (None, fs1) else
  match schemas_q f srv with
  | [] => (Some [], fs1)
  | ss => let '(ok2, fs2) := calls (tables_cost ss) fs1 in
          if ok2 then (Some ss, fs2) else (None, fs2)
  end.

(** ---- Driver.Snapshot *)
Inductive restore_kind := RSchema (n : N) | RRealm.
Inductive snap := SnapOk (r : restore_kind) | SnapNotClean | SnapErr.

Definition snapshot_my (srv : server) (fs : list bool) : snap * list bool :=
  match inspect_schema FCur true srv fs with
  | (IErr, fs1) => (SnapErr, fs1)
  | (IOk s, fs1) => (if has_tabs s then SnapNotClean else SnapOk (RSchema (s_id s)), fs1)
  | (INotExist, fs1) =>
      match inspect_realm FAll srv fs1 with
      | (None, fs2) => (SnapErr, fs2)
      | (Some [], fs2) => (SnapOk RRealm, fs2)
      | (Some _, fs2) => (SnapNotClean, fs2)
      end
  end.

(** ---- SchemaRestoreFunc / RealmRestoreFunc: inspect, diff towards the empty
    desired state, apply.  [true]: it returned nil *)
Definition restore_my (r : restore_kind) (srv : server) (fs : list bool) : bool * server * list bool * list sevent :=
  match r with
  | RSchema n =>
      match inspect_schema (FNames [n]) true srv fs with
      | (IOk s, fs1) =>
          let '(_, ok, srv', fs', es) := apply (map (fun t => SDt (Some n) t) (s_tabs s)) srv fs1 in (ok, srv', fs', es)
      | (_, fs1) => (false, srv, fs1, [])
      end
  | RRealm =>
      match inspect_realm FAll srv fs with
      | (Some ss, fs1) =>
          let '(_, ok, srv', fs', es) := apply (map (fun s => SDs (s_id s)) ss) srv fs1 in (ok, srv', fs', es)
      | (None, fs1) => (false, srv, fs1, [])
      end
  end.

(** ---- sessions *)
Inductive soutcome := SOk | SRefused | SSnapErr | SFail (k : nat) | SErr.

Record sresult := mkRes {
  r_out : soutcome;
  r_restored : bool;       (* the RestoreFunc ran and returned nil *)
  r_ran : bool;            (* the RestoreFunc ran *)
  r_srv : server;
  r_fs : list bool;
  r_trace : list sevent }.

Definition declined_res (o : soutcome) (srv : server) (fs : list bool) : sresult := mkRes o false false srv fs [].

(** restore, err := drv.Snapshot(ctx); if err != nil { return }; defer restore(ctx); script *)
Definition run_sess (body : list sstmt) (srv : server) (fs : list bool) : sresult :=
  match snapshot_my srv fs with
  | (SnapErr, fs1) => declined_res SSnapErr srv fs1
  | (SnapNotClean, fs1) => declined_res SRefused srv fs1
  | (SnapOk rk, fs1) =>
      let '(k, ok, srv1, fs2, es) := apply body srv fs1 in
      let '(rok, srv2, fs3, es2) := restore_my rk srv1 fs2 in
      mkRes (if ok then SOk else SFail k) rok true srv2 fs3 (es ++ es2)
  end.

(** DevDriver.NormalizeSchema (sql/internal/sqlx/dev.go): the results are unnamed,
    the deferred closure assigns a dead variable: a failing restore is dropped *)
Definition norm_schema (tabs : list N) (srv : server) (fs : list bool) : sresult :=
  match snapshot_my srv fs with
  | (SnapErr, fs1) => declined_res SSnapErr srv fs1
  | (SnapNotClean, fs1) => declined_res SRefused srv fs1
  | (SnapOk rk, fs1) =>
      match inspect_schema FCur false srv fs1 with            (* dev, Mode: InspectSchemas *)
      | (IOk _, fs2) =>
          let '(_, ok, srv1, fs3, es) := apply (map (fun t => SCt None t) tabs) srv fs2 in
          if ok then
            match inspect_schema FCur true srv1 fs3 with
            | (IOk _, fs4) => let '(rok, srv2, fs5, es2) := restore_my rk srv1 fs4 in mkRes SOk rok true srv2 fs5 (es ++ es2)
            | (_, fs4) => let '(rok, srv2, fs5, es2) := restore_my rk srv1 fs4 in mkRes SErr rok true srv2 fs5 (es ++ es2)
            end
          else let '(rok, srv2, fs4, es2) := restore_my rk srv1 fs3 in mkRes SErr rok true srv2 fs4 (es ++ es2)
      | (_, fs2) => let '(rok, srv2, fs3, es2) := restore_my rk srv fs2 in mkRes SErr rok true srv2 fs3 es2
      end
  end.

(** DevDriver.NormalizeRealm: AddSchema IF NOT EXISTS for every schema, then the
    tables (the planner sorts the schemas first); InspectRealm of those schemas;
    the named result carries the restore's error *)
Definition realm_changes (r : list sch) : list sstmt :=
  map (fun s => SCs (s_id s) true) r ++
  flat_map (fun s => map (fun t => SCt (Some (s_id s)) t) (s_tabs s)) r.

Definition norm_realm (r : list sch) (srv : server) (fs : list bool) : sresult :=
  match snapshot_my srv fs with
  | (SnapErr, fs1) => declined_res SSnapErr srv fs1
  | (SnapNotClean, fs1) => declined_res SRefused srv fs1
  | (SnapOk rk, fs1) =>
      let '(_, ok, srv1, fs2, es) := apply (realm_changes r) srv fs1 in
      if ok then
        match inspect_realm (FNames (map s_id r)) srv1 fs2 with
        | (Some _, fs3) => let '(rok, srv2, fs4, es2) := restore_my rk srv1 fs3 in
                           mkRes (if rok then SOk else SErr) rok true srv2 fs4 (es ++ es2)
        | (None, fs3) => let '(rok, srv2, fs4, es2) := restore_my rk srv1 fs3 in mkRes SErr rok true srv2 fs4 (es ++ es2)
        end
      else let '(rok, srv2, fs3, es2) := restore_my rk srv1 fs2 in mkRes SErr rok true srv2 fs3 (es ++ es2)
  end.

(** ---- the property's notions on a server *)
(** what the connection owns: its schema when it is bound to an existing one, else the server *)
Definition bound_sch (srv : server) : option sch :=
  match sv_cur srv with Some c => find_sch c (sv_schemas srv) | None => None end.

Definition holds_content (srv : server) : bool :=
  match bound_sch srv with
  | Some s => has_tabs s
  | None => match sv_schemas srv with [] => false | _ => true end
  end.

Fixpoint listN_eqb (a b : list N) : bool :=
  match a, b with
  | [], [] => true
  | x :: a', y :: b' => N.eqb x y && listN_eqb a' b'
  | _, _ => false
  end.
Fixpoint schs_eqb (a b : list sch) : bool :=
  match a, b with
  | [], [] => true
  | x :: a', y :: b' => N.eqb (s_id x) (s_id y) && listN_eqb (s_tabs x) (s_tabs y) && schs_eqb a' b'
  | _, _ => false
  end.

(** a statement that stays inside the schema the connection is bound to *)
Definition local_stmt (c : N) (st : sstmt) : bool :=
  match st with
  | SCt None _ | SDt None _ => true
  | SCt (Some s) _ | SDt (Some s) _ => N.eqb s c
  | SCs _ _ | SDs _ => false
  | SBadS => true
  end.

Definition fault_stream (positions : list nat) (len : nat) : list bool :=
  map (fun i => existsb (Nat.eqb (S i)) positions) (seq 0 len).

Inductive scenario := ScSess (body : list sstmt) | ScNormS (tabs : list N) | ScNormR (r : list sch).

Definition run_scenario (sc : scenario) (srv : server) (fs : list bool) : sresult :=
  match sc with
  | ScSess b => run_sess b srv fs
  | ScNormS t => norm_schema t srv fs
  | ScNormR r => norm_realm r srv fs
  end.

(** two sessions one after the other on the same driver / connection: what the
    second one sees is what the first one's RestoreFunc left (goal 2: the state
    after a failed RestoreFunc) *)
Definition run_twice (b1 b2 : list sstmt) (srv : server) (fs : list bool) : sresult * sresult :=
  let r1 := run_sess b1 srv fs in (r1, run_sess b2 (r_srv r1) (r_fs r1)).
