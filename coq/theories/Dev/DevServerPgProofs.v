(** Lemmas about the PostgreSQL part of M-DEV-SERVER (DevServerPg.v). *)
From Coq Require Import List NArith Bool Arith Lia.
Import ListNotations.
From Atlas Require Import Dev.DevServer Dev.DevServerProofs Dev.DevServerPg.

Lemma inspect_schema_pg_nil : forall f t srv, snd (inspect_schema_pg f t srv []) = [].
Proof.
  intros f t srv. unfold inspect_schema_pg. rewrite calls_nil. simpl.
  destruct (schemas_q f srv) as [|s [|s2 l]]; simpl; auto.
  destruct t; simpl; auto. rewrite calls_nil. reflexivity.
Qed.

Lemma inspect_realm_pg_nil : forall f srv, inspect_realm_pg f srv [] = (Some (schemas_q f srv), []).
Proof.
  intros f srv. unfold inspect_realm_pg. simpl pop. cbv iota beta.
  rewrite calls_nil. reflexivity.
Qed.

Definition declines_pg (x : snap_pg * list bool) : Prop := fst x = PSnapNotClean \/ fst x = PSnapErr.

Lemma filter_names1 : forall b l,
  filter (fun s => memN (s_id s) [b]) l = filter (fun s => N.eqb (s_id s) b) l.
Proof. intros b l. apply filter_ext. intros a. unfold memN. simpl. apply orb_false_r. Qed.

Local Opaque tables_cost_pg.
Lemma snapshot_pg_declines : forall bound srv fs,
  holds_content_pg bound srv = true -> declines_pg (snapshot_pg bound srv fs).
Proof.
  intros bound [l cur] fs H. unfold declines_pg, snapshot_pg. destruct bound as [b|].
  - unfold holds_content_pg in H. simpl in H. destruct (find_sch b l) as [s|] eqn:E; [|discriminate].
    unfold inspect_schema_pg. simpl calls. destruct (pop fs) as [f fs1]. destruct f; [right; reflexivity|].
    cbv beta iota zeta delta [negb]. unfold schemas_q. cbn [sv_schemas]. rewrite filter_names1. destruct (filter_find_some b l s E) as [r Er]. rewrite Er.
    destruct r as [|s2 r]; [|right; reflexivity].
    destruct (calls (tables_cost_pg [s]) fs1) as [ok fs2]. destruct ok; simpl; [|right; reflexivity].
    rewrite H. left. reflexivity.
  - unfold holds_content_pg in H. simpl in H.
    unfold inspect_realm_pg. destruct (pop fs) as [f0 fs0]. destruct f0; simpl; [right; reflexivity|].
    match goal with |- context [calls ?n fs0] => destruct (calls n fs0) as [ok fs1] end.
    destruct (pop fs1) as [fu fs2]. destruct (ok && negb fu); simpl; [|right; reflexivity].
    destruct l as [|s [|s2 l']]; [discriminate| |left; reflexivity].
    unfold only_empty_public in H. destruct (N.eqb (s_id s) public); simpl in *; [|left; reflexivity].
    destruct (has_tabs s); [left; reflexivity|discriminate].
Qed.
Local Transparent tables_cost_pg.

Lemma declined_scenario_pg : forall bound sc srv fs, declines_pg (snapshot_pg bound srv fs) ->
  let r := run_scenario_pg bound sc srv fs in
  r_trace r = [] /\ r_srv r = srv /\ r_ran r = false /\ (r_out r = SRefused \/ r_out r = SSnapErr).
Proof.
  intros bound sc srv fs H. unfold declines_pg in H.
  destruct sc; simpl; unfold run_sess_pg, norm_schema_pg, norm_realm_pg;
  destruct (snapshot_pg bound srv fs) as [[rk| |] fs1]; simpl in H; destruct H as [H|H]; try discriminate; simpl; auto.
Qed.

Lemma accepted_restore_runs_pg : forall bound sc srv fs rk fs1,
  snapshot_pg bound srv fs = (PSnapOk rk, fs1) -> r_ran (run_scenario_pg bound sc srv fs) = true.
Proof.
  intros bound sc srv fs rk fs1 H. destruct sc; simpl; unfold run_sess_pg, norm_schema_pg, norm_realm_pg; rewrite H.
  - destruct (apply body srv fs1) as [[[[k ok] srv1] fs2] es].
    destruct (restore_pg rk srv1 fs2) as [[[rok srv2] fs3] es2]. reflexivity.
  - destruct (inspect_schema_pg (name_filter bound) false srv fs1) as [[s| |] fs2].
    + destruct (apply (map (fun t => SCt None t) tabs) srv fs2) as [[[[k ok] srv1] fs3] es].
      destruct ok.
      * destruct (inspect_schema_pg (name_filter bound) true srv1 fs3) as [[s'| |] fs4];
        destruct (restore_pg rk srv1 fs4) as [[[rok srv2] fs5] es2]; reflexivity.
      * destruct (restore_pg rk srv1 fs3) as [[[rok srv2] fs4] es2]; reflexivity.
    + destruct (restore_pg rk srv fs2) as [[[rok srv2] fs3] es2]; reflexivity.
    + destruct (restore_pg rk srv fs2) as [[[rok srv2] fs3] es2]; reflexivity.
  - destruct (apply (realm_changes r) srv fs1) as [[[[k ok] srv1] fs2] es].
    destruct ok.
    + destruct (inspect_realm_pg (FNames (map s_id r)) srv1 fs2) as [[ss|] fs3];
      destruct (restore_pg rk srv1 fs3) as [[[rok srv2] fs4] es2]; reflexivity.
    + destruct (restore_pg rk srv1 fs2) as [[[rok srv2] fs3] es2]; reflexivity.
Qed.

(** ---- the realm restores without faults *)
Definition start_of (with_public : bool) : list sch := if with_public then [mkSch public []] else [].

Lemma only_empty_public_eq : forall l, only_empty_public l = true -> l = [mkSch public []].
Proof.
  intros [|[id tabs] [|s2 l]] H; simpl in H; try discriminate.
  apply andb_true_iff in H. destruct H as [H1 H2]. apply N.eqb_eq in H1. subst id.
  destruct tabs; [reflexivity|discriminate].
Qed.

Lemma restore_pg_realm_nofault : forall wp srv, wf srv ->
  exists es, restore_pg (PRealm wp) srv [] = (true, mkSrv (start_of wp) (sv_cur srv), [], es).
Proof.
  intros wp [l cur] Hw. unfold restore_pg. rewrite inspect_realm_pg_nil. simpl schemas_q.
  destruct (drop_all l cur Hw) as [k E]. destruct wp.
  - destruct (only_empty_public l) eqn:O.
    + rewrite (only_empty_public_eq l O). eexists. reflexivity.
    + rewrite E. eexists. reflexivity.
  - rewrite E. eexists. reflexivity.
Qed.

Lemma snapshot_pg_start : forall wp cur, snapshot_pg None (mkSrv (start_of wp) cur) [] = (PSnapOk (PRealm wp), []).
Proof. intros [|] cur; reflexivity. Qed.

Lemma wf_start : forall wp cur, wf (mkSrv (start_of wp) cur).
Proof. intros [|] cur; unfold wf; simpl; repeat constructor. simpl. tauto. Qed.

Definition final_as (start : list sch) (r : sresult) : Prop :=
  r_ran r = true /\ r_restored r = true /\ sv_schemas (r_srv r) = start /\ r_fs r = [].

Lemma handed_back_realm_pg : forall wp sc cur,
  final_as (start_of wp) (run_scenario_pg None sc (mkSrv (start_of wp) cur) []).
Proof.
  intros wp sc cur. pose proof (wf_start wp cur) as Hw0. set (srv := mkSrv (start_of wp) cur) in *.
  destruct sc as [body|tabs|r]; simpl; unfold run_sess_pg, norm_schema_pg, norm_realm_pg; unfold srv at 1; rewrite snapshot_pg_start; fold srv.
  - pose proof (apply_wf body srv [] Hw0) as Hw. pose proof (apply_nil_fs body srv) as Hf.
    destruct (apply body srv []) as [[[[k ok] srv1] fs2] es]. simpl in Hw, Hf. subst fs2.
    destruct (restore_pg_realm_nofault wp srv1 Hw) as [es2 E]. rewrite E. unfold final_as. simpl. auto.
  - pose proof (inspect_schema_pg_nil (name_filter None) false srv) as H1.
    destruct (inspect_schema_pg (name_filter None) false srv []) as [[s| |] fs2]; simpl in H1; subst fs2.
    + pose proof (apply_wf (map (fun t => SCt None t) tabs) srv [] Hw0) as Hw.
      pose proof (apply_nil_fs (map (fun t => SCt None t) tabs) srv) as Hf.
      destruct (apply (map (fun t => SCt None t) tabs) srv []) as [[[[k ok] srv1] fs3] es]. simpl in Hw, Hf. subst fs3.
      destruct (restore_pg_realm_nofault wp srv1 Hw) as [es2 E].
      destruct ok.
      * pose proof (inspect_schema_pg_nil (name_filter None) true srv1) as H2.
        destruct (inspect_schema_pg (name_filter None) true srv1 []) as [[s'| |] fs4]; simpl in H2; subst fs4;
        rewrite E; unfold final_as; simpl; auto.
      * rewrite E. unfold final_as. simpl. auto.
    + destruct (restore_pg_realm_nofault wp srv Hw0) as [es2 E]. rewrite E. unfold final_as. simpl. auto.
    + destruct (restore_pg_realm_nofault wp srv Hw0) as [es2 E]. rewrite E. unfold final_as. simpl. auto.
  - pose proof (apply_wf (realm_changes r) srv [] Hw0) as Hw.
    pose proof (apply_nil_fs (realm_changes r) srv) as Hf.
    destruct (apply (realm_changes r) srv []) as [[[[k ok] srv1] fs2] es]. simpl in Hw, Hf. subst fs2.
    destruct (restore_pg_realm_nofault wp srv1 Hw) as [es2 E2].
    destruct ok.
    + rewrite inspect_realm_pg_nil. rewrite E2. unfold final_as. simpl. auto.
    + rewrite E2. unfold final_as. simpl. auto.
Qed.

(** the accepted realm connections are exactly the two starts *)
Lemma accepted_realm_pg : forall srv fs wp fs1,
  snapshot_pg None srv fs = (PSnapOk (PRealm wp), fs1) -> sv_schemas srv = start_of wp.
Proof.
  intros [l cur] fs wp fs1 H. unfold snapshot_pg, inspect_realm_pg in H.
  destruct (pop fs) as [f0 fs0]. destruct f0; [discriminate|].
  match type of H with context [calls ?n fs0] => destruct (calls n fs0) as [ok fs2] end.
  destruct (pop fs2) as [fu fs3]. destruct (ok && negb fu); [|discriminate].
  simpl schemas_q in H. simpl.
  destruct l as [|[id tabs] [|s2 l']]; try discriminate.
  - injection H as <- _. reflexivity.
  - simpl in H. destruct (N.eqb id public) eqn:E; [|discriminate].
    destruct tabs; simpl in H; [|discriminate]. injection H as <- _. apply N.eqb_eq in E. subst id. reflexivity.
Qed.
