(** M-DEV-SERVER: a connection bound to a schema, scripts that stay inside it. *)
From Coq Require Import List NArith Bool Arith Lia.
Import ListNotations.
From Atlas Require Import Dev.DevServer Dev.DevServerProofs.

Lemma set_tabs_notin : forall c ts l, ~ In c (map s_id l) -> set_tabs c ts l = l.
Proof.
  induction l as [|x l IH]; simpl; intros H; auto.
  destruct (N.eqb (s_id x) c) eqn:E.
  - apply N.eqb_eq in E. exfalso. apply H. left. exact E.
  - f_equal. apply IH. intros H1. apply H. right. exact H1.
Qed.

Lemma set_tabs_id : forall c l s0, NoDup (map s_id l) -> find_sch c l = Some s0 -> set_tabs c (s_tabs s0) l = l.
Proof.
  induction l as [|x l IH]; simpl; intros s0 Hd Hf; [discriminate|].
  inversion Hd as [|? ? Hx Hl]; subst.
  destruct (N.eqb (s_id x) c) eqn:E.
  - injection Hf as <-. apply N.eqb_eq in E. subst c. rewrite (set_tabs_notin _ _ _ Hx). destruct x; reflexivity.
  - f_equal. apply IH; auto.
Qed.

Lemma set_tabs_twice : forall c a b l, set_tabs c a (set_tabs c b l) = set_tabs c a l.
Proof.
  induction l as [|x l IH]; simpl; auto. rewrite IH. f_equal.
  destruct (N.eqb (s_id x) c) eqn:E; simpl; [rewrite N.eqb_refl; reflexivity|rewrite E; reflexivity].
Qed.

Lemma find_set_tabs : forall c ts l s0, find_sch c l = Some s0 -> find_sch c (set_tabs c ts l) = Some (mkSch c ts).
Proof.
  induction l as [|x l IH]; simpl; intros s0 H; [discriminate|].
  destruct (N.eqb (s_id x) c) eqn:E; simpl.
  - rewrite N.eqb_refl. reflexivity.
  - rewrite E. exact (IH s0 H).
Qed.

Lemma filter_unique : forall c l s0, NoDup (map s_id l) -> find_sch c l = Some s0 ->
  filter (fun s => N.eqb (s_id s) c) l = [s0].
Proof.
  induction l as [|x l IH]; simpl; intros s0 Hd Hf; [discriminate|].
  inversion Hd as [|? ? Hx Hl]; subst.
  destruct (N.eqb (s_id x) c) eqn:E.
  - injection Hf as <-. f_equal. apply N.eqb_eq in E. subst c.
    clear IH Hd Hl. induction l as [|y l IH]; simpl; auto.
    destruct (N.eqb (s_id y) (s_id x)) eqn:E2.
    + apply N.eqb_eq in E2. exfalso. apply Hx. left. exact E2.
    + apply IH. intros H. apply Hx. right. exact H.
  - apply IH; auto.
Qed.

Lemma in_insertN : forall t x ts, In x (insertN t ts) <-> x = t \/ In x ts.
Proof.
  induction ts as [|y ts IH]; simpl.
  - split; intros [H|H]; auto; contradiction.
  - destruct (t <? y)%N; simpl.
    + split; intros H; destruct H as [H|H]; auto.
    + rewrite IH. split; intros H; intuition.
Qed.

Lemma memN_In : forall t ts, memN t ts = true <-> In t ts.
Proof.
  intros t ts. unfold memN. rewrite existsb_exists. split.
  - intros [x [Hin He]]. apply N.eqb_eq in He. subst. exact Hin.
  - intros H. exists t. split; auto. apply N.eqb_refl.
Qed.

Lemma nodup_insertN : forall t ts, memN t ts = false -> NoDup ts -> NoDup (insertN t ts).
Proof.
  induction ts as [|y ts IH]; simpl; intros Hm Hd.
  - constructor; [auto|constructor].
  - apply orb_false_iff in Hm. destruct Hm as [Hty Hm]. apply N.eqb_neq in Hty.
    inversion Hd as [|? ? Hy Hl]; subst.
    destruct (t <? y)%N.
    + constructor; auto. intros [H|H]; [congruence|].
      apply (proj2 (memN_In t ts)) in H. change (memN t ts = false) in Hm. rewrite H in Hm. discriminate.
    + constructor.
      * rewrite in_insertN. intros [H|H]; [congruence|contradiction].
      * apply IH; auto.
Qed.

(** servers of the shape "the start, with the tables of schema c replaced" *)
Section Bound.
Variable c : N.
Variable l : list sch.
Variable s0 : sch.
Hypothesis Hd : NoDup (map s_id l).
Hypothesis Hf : find_sch c l = Some s0.

Definition shaped (srv : server) : Prop :=
  exists ts, NoDup ts /\ srv = mkSrv (set_tabs c ts l) (Some c).

Lemma exec_local_shaped : forall st srv srv' e,
  local_stmt c st = true -> shaped srv -> exec_s st srv = Some (srv', e) -> shaped srv'.
Proof.
  intros st srv srv' e Hl [ts [Hn ->]] H.
  assert (Hfind : find_sch c (set_tabs c ts l) = Some (mkSch c ts)) by exact (find_set_tabs c ts l s0 Hf).
  destruct st as [o t|o t|s ifne|s|]; simpl in Hl; try discriminate; simpl in H.
  - assert (Ht : target o (mkSrv (set_tabs c ts l) (Some c)) = Some c).
    { destruct o as [s|]; simpl; auto. apply N.eqb_eq in Hl. subst. reflexivity. }
    unfold target in Ht. simpl in Ht. destruct o as [s|]; simpl in H.
    + injection Ht as ->. rewrite Hfind in H. simpl in H.
      destruct (memN t ts) eqn:M; [discriminate|]. injection H as <- _.
      exists (insertN t ts). split; [apply nodup_insertN; auto|]. rewrite set_tabs_twice. reflexivity.
    + rewrite Hfind in H. simpl in H.
      destruct (memN t ts) eqn:M; [discriminate|]. injection H as <- _.
      exists (insertN t ts). split; [apply nodup_insertN; auto|]. rewrite set_tabs_twice. reflexivity.
  - assert (Ht : target o (mkSrv (set_tabs c ts l) (Some c)) = Some c).
    { destruct o as [s|]; simpl; auto. apply N.eqb_eq in Hl. subst. reflexivity. }
    unfold target in Ht. simpl in Ht. destruct o as [s|]; simpl in H.
    + injection Ht as ->. rewrite Hfind in H. simpl in H.
      destruct (memN t ts) eqn:M; [|discriminate]. injection H as <- _.
      exists (filter (fun x => negb (N.eqb x t)) ts). split; [apply NoDup_filter; auto|]. rewrite set_tabs_twice. reflexivity.
    + rewrite Hfind in H. simpl in H.
      destruct (memN t ts) eqn:M; [|discriminate]. injection H as <- _.
      exists (filter (fun x => negb (N.eqb x t)) ts). split; [apply NoDup_filter; auto|]. rewrite set_tabs_twice. reflexivity.
Qed.

Lemma apply_local_shaped : forall body srv,
  forallb (local_stmt c) body = true -> shaped srv ->
  shaped (snd (fst (fst (apply body srv [])))).
Proof.
  induction body as [|st body IH]; intros srv Hl Hs; simpl; auto.
  simpl in Hl. apply andb_true_iff in Hl. destruct Hl as [Hl1 Hl2].
  destruct (exec_s st srv) as [[srv1 e]|] eqn:E; simpl; auto.
  specialize (IH srv1 Hl2 (exec_local_shaped st srv srv1 e Hl1 Hs E)).
  destruct (apply body srv1 []) as [[[[k ok] srv'] fs'] es]. simpl in *. exact IH.
Qed.

Lemma filter_neq_head : forall t ts, ~ In t ts -> filter (fun x => negb (N.eqb x t)) (t :: ts) = ts.
Proof.
  intros t ts Hn. simpl. rewrite N.eqb_refl. simpl.
  induction ts as [|y ts IH]; simpl; auto.
  destruct (N.eqb y t) eqn:E.
  - apply N.eqb_eq in E. exfalso. apply Hn. left. exact E.
  - simpl. f_equal. apply IH. intros H. apply Hn. right. exact H.
Qed.

Lemma drop_tabs : forall ts cur, NoDup ts ->
  exists k es, apply (map (fun t => SDt (Some c) t) ts) (mkSrv (set_tabs c ts l) cur) [] =
               (k, true, mkSrv (set_tabs c [] l) cur, [], es).
Proof.
  induction ts as [|t ts IH]; intros cur Hn.
  - exists 0, []. reflexivity.
  - inversion Hn as [|? ? Ht Hts]; subst. cbn [map]. rewrite apply_cons_nil.
    assert (E : exec_s (SDt (Some c) t) (mkSrv (set_tabs c (t :: ts) l) cur) = Some (mkSrv (set_tabs c ts l) cur, EDt c t)).
    { unfold exec_s, target. cbn [sv_schemas sv_cur]. rewrite (find_set_tabs c (t :: ts) l s0 Hf). cbn [s_tabs].
      assert (M : memN t (t :: ts) = true) by (apply memN_In; left; reflexivity). rewrite M.
      rewrite (filter_neq_head t ts Ht). rewrite set_tabs_twice. reflexivity. }
    rewrite E. destruct (IH cur Hts) as [k [es E2]]. rewrite E2. exists (S k), (EDt c t :: es). reflexivity.
Qed.

Local Opaque tables_cost.
Lemma inspect_bound_nofault : forall ts f,
  (f = FCur \/ f = FNames [c]) ->
  inspect_schema f true (mkSrv (set_tabs c ts l) (Some c)) [] = (IOk (mkSch c ts), []).
Proof.
  intros ts f Hfl. unfold inspect_schema. rewrite calls_nil. cbv beta iota zeta delta [negb].
  assert (Hq : schemas_q f (mkSrv (set_tabs c ts l) (Some c)) = [mkSch c ts]).
  { assert (Hu : filter (fun s => N.eqb (s_id s) c) (set_tabs c ts l) = [mkSch c ts]).
    { apply filter_unique; [rewrite map_id_set_tabs; exact Hd|exact (find_set_tabs c ts l s0 Hf)]. }
    destruct Hfl as [-> | ->]; unfold schemas_q; cbn [sv_cur sv_schemas]; [exact Hu|].
    rewrite <- Hu. apply filter_ext. intros a. unfold memN. simpl. apply orb_false_r. }
  rewrite Hq. rewrite calls_nil. reflexivity.
Qed.
Local Transparent tables_cost.

Lemma restore_bound_nofault : forall ts, NoDup ts ->
  exists es, restore_my (RSchema c) (mkSrv (set_tabs c ts l) (Some c)) [] =
             (true, mkSrv (set_tabs c [] l) (Some c), [], es).
Proof.
  intros ts Hn. unfold restore_my. rewrite (inspect_bound_nofault ts (FNames [c])) by (right; reflexivity).
  cbn [s_tabs]. destruct (drop_tabs ts (Some c) Hn) as [k [es E]]. rewrite E. exists es. reflexivity.
Qed.

Hypothesis Hempty : s_tabs s0 = [].

Lemma start_shaped : mkSrv l (Some c) = mkSrv (set_tabs c [] l) (Some c).
Proof. rewrite <- Hempty. rewrite (set_tabs_id c l s0 Hd Hf). reflexivity. Qed.

Lemma handed_back_bound : forall body,
  forallb (local_stmt c) body = true ->
  let r := run_sess body (mkSrv l (Some c)) [] in
  r_ran r = true /\ r_restored r = true /\ r_srv r = mkSrv l (Some c) /\
  (r_out r = SOk \/ exists k, r_out r = SFail k).
Proof.
  intros body Hl. unfold run_sess.
  assert (Hsnap : snapshot_my (mkSrv l (Some c)) [] = (SnapOk (RSchema c), [])).
  { unfold snapshot_my. rewrite start_shaped at 1. rewrite (inspect_bound_nofault [] FCur) by (left; reflexivity). reflexivity. }
  rewrite Hsnap.
  assert (Hs0 : shaped (mkSrv l (Some c))) by (exists []; split; [constructor|exact start_shaped]).
  pose proof (apply_local_shaped body (mkSrv l (Some c)) Hl Hs0) as Hs.
  pose proof (apply_nil_fs body (mkSrv l (Some c))) as Hfs.
  destruct (apply body (mkSrv l (Some c)) []) as [[[[k ok] srv1] fs2] es]. simpl in Hs, Hfs. subst fs2.
  destruct Hs as [ts [Hn ->]].
  destruct (restore_bound_nofault ts Hn) as [es2 E]. rewrite E. simpl.
  rewrite <- start_shaped. repeat split; auto.
  destruct ok; [left; reflexivity|right; exists k; reflexivity].
Qed.
End Bound.
