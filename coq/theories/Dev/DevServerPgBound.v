(** PostgreSQL: a connection bound to a schema (search_path), scripts that stay inside it. *)
From Coq Require Import List NArith Bool Arith Lia.
Import ListNotations.
From Atlas Require Import Dev.DevServer Dev.DevServerProofs Dev.DevServerPg Dev.DevServerPgProofs.
From Atlas Require Import Dev.DevServerBound.

Section BoundPg.
Variable c : N.
Variable l : list sch.
Variable s0 : sch.
Hypothesis Hd : NoDup (map s_id l).
Hypothesis Hf : find_sch c l = Some s0.

Local Opaque tables_cost_pg.
Lemma inspect_bound_nofault_pg : forall ts cur,
  inspect_schema_pg (FNames [c]) true (mkSrv (set_tabs c ts l) cur) [] = (IOk (mkSch c ts), []).
Proof.
  intros ts cur. unfold inspect_schema_pg. rewrite calls_nil. cbv beta iota zeta delta [negb].
  assert (Hq : schemas_q (FNames [c]) (mkSrv (set_tabs c ts l) cur) = [mkSch c ts]).
  { assert (Hu : filter (fun s => N.eqb (s_id s) c) (set_tabs c ts l) = [mkSch c ts]).
    { apply filter_unique; [rewrite map_id_set_tabs; exact Hd|exact (find_set_tabs c ts l s0 Hf)]. }
    unfold schemas_q; cbn [sv_cur sv_schemas].
    rewrite <- Hu. apply filter_ext. intros a. unfold memN. simpl. apply orb_false_r. }
  rewrite Hq. rewrite calls_nil. reflexivity.
Qed.
Local Transparent tables_cost_pg.

Lemma restore_bound_nofault_pg : forall ts cur, NoDup ts ->
  exists es, restore_pg (PSchema c) (mkSrv (set_tabs c ts l) cur) [] =
             (true, mkSrv (set_tabs c [] l) cur, [], es).
Proof.
  intros ts cur Hn. unfold restore_pg. rewrite (inspect_bound_nofault_pg ts cur).
  cbn [s_tabs]. destruct (drop_tabs c l s0 Hf ts cur Hn) as [k [es E]]. rewrite E. exists es. reflexivity.
Qed.

Hypothesis Hempty : s_tabs s0 = [].

Lemma handed_back_bound_pg : forall body,
  forallb (local_stmt c) body = true ->
  let r := run_sess_pg (Some c) body (mkSrv l (Some c)) [] in
  r_ran r = true /\ r_restored r = true /\ r_srv r = mkSrv l (Some c) /\
  (r_out r = SOk \/ exists k, r_out r = SFail k).
Proof.
  intros body Hl. unfold run_sess_pg.
  pose proof (start_shaped c l s0 Hd Hf Hempty) as Hst.
  assert (Hsnap : snapshot_pg (Some c) (mkSrv l (Some c)) [] = (PSnapOk (PSchema c), [])).
  { unfold snapshot_pg. rewrite Hst at 1. rewrite (inspect_bound_nofault_pg [] (Some c)). reflexivity. }
  rewrite Hsnap.
  assert (Hs0 : shaped c l (mkSrv l (Some c))) by (exists []; split; [constructor|exact Hst]).
  pose proof (apply_local_shaped c l s0 Hf body (mkSrv l (Some c)) Hl Hs0) as Hs.
  pose proof (apply_nil_fs body (mkSrv l (Some c))) as Hfs.
  destruct (apply body (mkSrv l (Some c)) []) as [[[[k ok] srv1] fs2] es]. simpl in Hs, Hfs. subst fs2.
  destruct Hs as [ts [Hn ->]].
  destruct (restore_bound_nofault_pg ts (Some c) Hn) as [es2 E]. rewrite E. simpl.
  rewrite <- Hst. repeat split; auto.
  destruct ok; [left; reflexivity|right; exists k; reflexivity].
Qed.
End BoundPg.
