(** M-DEV-SERVER with views (round 5).  The OSS inspectors of both drivers never
    list views (sql/mysql/inspect_oss.go has no view query at all;
    sql/postgres/driver_oss.go: inspectViews is "unimplemented"), so Snapshot and
    the RestoreFuncs of a server with views are those of the server without them
    ([v_srv]); a view disappears together with its schema (DROP DATABASE /
    DROP SCHEMA ... CASCADE).  Definitions and two small lemmas. *)
From Coq Require Import List NArith Bool Arith.
Import ListNotations.
From Atlas Require Import Dev.DevServer Dev.DevServerProofs Dev.DevServerPg Dev.DevServerPgProofs.

Record vserver := mkV { v_srv : server; v_views : list (N * N) }.   (* (schema id, view id) *)

Definition dropped (es : list sevent) (s : N) : bool :=
  existsb (fun e => match e with EDs x => N.eqb x s | _ => false end) es.
Definition views_after (es : list sevent) (vs : list (N * N)) : list (N * N) :=
  filter (fun v => negb (dropped es (fst v))) vs.

Definition owns_view_my (srv : server) (v : N * N) : bool :=
  match bound_sch srv with Some b => N.eqb (fst v) (s_id b) | None => true end.
Definition holds_content_v_my (vs : vserver) : bool :=
  holds_content (v_srv vs) || existsb (owns_view_my (v_srv vs)) (v_views vs).

Definition owns_view_pg (bound : option N) (v : N * N) : bool :=
  match bound with Some b => N.eqb (fst v) b | None => true end.
Definition holds_content_v_pg (bound : option N) (vs : vserver) : bool :=
  holds_content_pg bound (v_srv vs) || existsb (owns_view_pg bound) (v_views vs).

Lemma content_without_views_my : forall vs,
  existsb (owns_view_my (v_srv vs)) (v_views vs) = false ->
  holds_content_v_my vs = true -> holds_content (v_srv vs) = true.
Proof. intros vs Hn H. unfold holds_content_v_my in H. rewrite Hn, orb_false_r in H. exact H. Qed.

Lemma content_without_views_pg : forall bound vs,
  existsb (owns_view_pg bound) (v_views vs) = false ->
  holds_content_v_pg bound vs = true -> holds_content_pg bound (v_srv vs) = true.
Proof. intros bound vs Hn H. unfold holds_content_v_pg in H. rewrite Hn, orb_false_r in H. exact H. Qed.
