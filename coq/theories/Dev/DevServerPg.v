(** M-DEV-SERVER, PostgreSQL part (round 5): sql/postgres/driver_oss.go
    Driver.Snapshot, SchemaRestoreFunc, RealmRestoreFunc (incl. its "drop the
    public schema and recreate it" arm), the inspections of
    sql/postgres/inspect_oss.go as sequences of calls (InspectRealm clears the
    search_path first and puts it back in a deferred call that runs whatever
    happened in between), sqlx.DevDriver.NormalizeSchema/NormalizeRealm.
    Shares the server, the statements and [apply] with DevServer.v.
    [bound]: Driver.schema (the search_path of the URL); [sv_cur]: what
    CURRENT_SCHEMA() answers ("public" on an unbound connection).
    Schema id 0 is "public".  No proofs here. *)
From Coq Require Import List NArith Bool Arith.
Import ListNotations.
From Atlas Require Import Dev.DevServer.

Definition public : N := 0%N.

(** InspectSchema: schemas; then (all modes) enums, tables and per schema with
    tables columns/indexes/fks/checks *)
Definition tables_cost_pg (ss : list sch) : nat := 2 + 4 * length (filter has_tabs ss).

Definition name_filter (bound : option N) : filt :=
  match bound with Some b => FNames [b] | None => FCur end.

Definition inspect_schema_pg (f : filt) (tabs : bool) (srv : server) (fs : list bool) : ires sch * list bool :=
  let '(ok, fs1) := calls 1 fs in
  if negb ok then (IErr, fs1) else
  match schemas_q f srv with
  | [] => (INotExist, fs1)
  | [s] => if tabs
           then let '(ok2, fs2) := calls (tables_cost_pg [s]) fs1 in
                if ok2 then (IOk s, fs2) else (IErr, fs2)
           else (IOk (mkSch (s_id s) []), fs1)
  | _ => (IErr, fs1)
  end.

(** InspectRealm: noSearchPath (1 call; on failure nothing else happens), the
    inspection, and the deferred undo (1 call, always) *)
Definition inspect_realm_pg (f : filt) (srv : server) (fs : list bool) : option (list sch) * list bool :=
  let '(f0, fs0) := pop fs in
  if f0 then (None, fs0) else
  let ss := schemas_q f srv in
  let inner := match ss with [] => 1 | _ => 1 + tables_cost_pg ss end in
  let '(ok, fs1) := calls inner fs0 in
  let '(fu, fs2) := pop fs1 in
  if ok && negb fu then (Some ss, fs2) else (None, fs2).

(** the desired realm of a RealmRestoreFunc: no schema at all, or the empty "public" *)
Inductive restore_pg_kind := PSchema (n : N) | PRealm (with_public : bool).
Inductive snap_pg := PSnapOk (r : restore_pg_kind) | PSnapNotClean | PSnapErr.

Definition snapshot_pg (bound : option N) (srv : server) (fs : list bool) : snap_pg * list bool :=
  match bound with
  | Some b =>
      match inspect_schema_pg (FNames [b]) true srv fs with
      | (IOk s, fs1) => (if has_tabs s then PSnapNotClean else PSnapOk (PSchema (s_id s)), fs1)
      | (_, fs1) => (PSnapErr, fs1)
      end
  | None =>
      match inspect_realm_pg FAll srv fs with
      | (None, fs1) => (PSnapErr, fs1)
      | (Some [], fs1) => (PSnapOk (PRealm false), fs1)
      | (Some [s], fs1) =>
          if N.eqb (s_id s) public
          then (if has_tabs s then PSnapNotClean else PSnapOk (PRealm true), fs1)
          else (PSnapNotClean, fs1)
      | (Some _, fs1) => (PSnapNotClean, fs1)
      end
  end.

Definition only_empty_public (ss : list sch) : bool :=
  match ss with
  | [s] => N.eqb (s_id s) public && negb (has_tabs s)
  | _ => false
  end.

Definition restore_pg (r : restore_pg_kind) (srv : server) (fs : list bool) : bool * server * list bool * list sevent :=
  match r with
  | PSchema n =>
      match inspect_schema_pg (FNames [n]) true srv fs with
      | (IOk s, fs1) =>
          let '(_, ok, srv', fs', es) := apply (map (fun t => SDt (Some n) t) (s_tabs s)) srv fs1 in (ok, srv', fs', es)
      | (_, fs1) => (false, srv, fs1, [])
      end
  | PRealm false =>
      match inspect_realm_pg FAll srv fs with
      | (Some ss, fs1) =>
          let '(_, ok, srv', fs', es) := apply (map (fun s => SDs (s_id s)) ss) srv fs1 in (ok, srv', fs', es)
      | (None, fs1) => (false, srv, fs1, [])
      end
  | PRealm true =>
      match inspect_realm_pg FAll srv fs with
      | (Some ss, fs1) =>
          if only_empty_public ss then (true, srv, fs1, [])          (* no diff: do nothing *)
          else
            let '(_, ok, srv1, fs2, es) := apply (map (fun s => SDs (s_id s)) ss) srv fs1 in
            if ok then
              let '(_, ok2, srv2, fs3, es2) := apply [SCs public true] srv1 fs2 in (ok2, srv2, fs3, es ++ es2)
            else (false, srv1, fs2, es)
      | (None, fs1) => (false, srv, fs1, [])
      end
  end.

Definition declined_pg (o : soutcome) (srv : server) (fs : list bool) : sresult := mkRes o false false srv fs [].

Definition run_sess_pg (bound : option N) (body : list sstmt) (srv : server) (fs : list bool) : sresult :=
  match snapshot_pg bound srv fs with
  | (PSnapErr, fs1) => declined_pg SSnapErr srv fs1
  | (PSnapNotClean, fs1) => declined_pg SRefused srv fs1
  | (PSnapOk rk, fs1) =>
      let '(k, ok, srv1, fs2, es) := apply body srv fs1 in
      let '(rok, srv2, fs3, es2) := restore_pg rk srv1 fs2 in
      mkRes (if ok then SOk else SFail k) rok true srv2 fs3 (es ++ es2)
  end.

Definition norm_schema_pg (bound : option N) (tabs : list N) (srv : server) (fs : list bool) : sresult :=
  match snapshot_pg bound srv fs with
  | (PSnapErr, fs1) => declined_pg SSnapErr srv fs1
  | (PSnapNotClean, fs1) => declined_pg SRefused srv fs1
  | (PSnapOk rk, fs1) =>
      match inspect_schema_pg (name_filter bound) false srv fs1 with
      | (IOk _, fs2) =>
          let '(_, ok, srv1, fs3, es) := apply (map (fun t => SCt None t) tabs) srv fs2 in
          if ok then
            match inspect_schema_pg (name_filter bound) true srv1 fs3 with
            | (IOk _, fs4) => let '(rok, srv2, fs5, es2) := restore_pg rk srv1 fs4 in mkRes SOk rok true srv2 fs5 (es ++ es2)
            | (_, fs4) => let '(rok, srv2, fs5, es2) := restore_pg rk srv1 fs4 in mkRes SErr rok true srv2 fs5 (es ++ es2)
            end
          else let '(rok, srv2, fs4, es2) := restore_pg rk srv1 fs3 in mkRes SErr rok true srv2 fs4 (es ++ es2)
      | (_, fs2) => let '(rok, srv2, fs3, es2) := restore_pg rk srv fs2 in mkRes SErr rok true srv2 fs3 es2
      end
  end.

Definition norm_realm_pg (bound : option N) (r : list sch) (srv : server) (fs : list bool) : sresult :=
  match snapshot_pg bound srv fs with
  | (PSnapErr, fs1) => declined_pg SSnapErr srv fs1
  | (PSnapNotClean, fs1) => declined_pg SRefused srv fs1
  | (PSnapOk rk, fs1) =>
      let '(_, ok, srv1, fs2, es) := apply (realm_changes r) srv fs1 in
      if ok then
        match inspect_realm_pg (FNames (map s_id r)) srv1 fs2 with
        | (Some _, fs3) => let '(rok, srv2, fs4, es2) := restore_pg rk srv1 fs3 in
                           mkRes (if rok then SOk else SErr) rok true srv2 fs4 (es ++ es2)
        | (None, fs3) => let '(rok, srv2, fs4, es2) := restore_pg rk srv1 fs3 in mkRes SErr rok true srv2 fs4 (es ++ es2)
        end
      else let '(rok, srv2, fs3, es2) := restore_pg rk srv1 fs2 in mkRes SErr rok true srv2 fs3 (es ++ es2)
  end.

Definition run_scenario_pg (bound : option N) (sc : scenario) (srv : server) (fs : list bool) : sresult :=
  match sc with
  | ScSess b => run_sess_pg bound b srv fs
  | ScNormS t => norm_schema_pg bound t srv fs
  | ScNormR r => norm_realm_pg bound r srv fs
  end.

(** "contains anything" for PostgreSQL: a connection with a search_path owns that
    schema; any other owns the database, and an empty "public" is what an empty
    database looks like *)
Definition holds_content_pg (bound : option N) (srv : server) : bool :=
  match bound with
  | Some b => match find_sch b (sv_schemas srv) with Some s => has_tabs s | None => false end
  | None => negb (match sv_schemas srv with [] => true | ss => only_empty_public ss end)
  end.

Definition run_twice_pg (bound : option N) (b1 b2 : list sstmt) (srv : server) (fs : list bool) : sresult * sresult :=
  let r1 := run_sess_pg bound b1 srv fs in (r1, run_sess_pg bound b2 (r_srv r1) (r_fs r1)).
