(** M-DEV-TX (round 5): explicit transaction statements inside a replayed script.

    Executor.Replay (sql/migrate/migrate.go) sends every statement of a migration
    file to the dev connection by [drv.ExecContext], outside any transaction of its
    own.  A script may carry its own [BEGIN]/[COMMIT]/[ROLLBACK].  SQLite keeps a
    transaction open when a statement inside it fails; sqlite Driver.Snapshot's
    RestoreFunc (sql/sqlite/driver.go) is four statements
      PRAGMA writable_schema = 1; DELETE FROM sqlite_master ...; PRAGMA writable_schema = 0; VACUUM
    and VACUUM is refused inside a transaction ("cannot VACUUM from within a
    transaction").  When the connection is closed the open transaction is rolled
    back -- the DELETE of the restore included.

    The database is seen at two places: [c_file] what is committed (what any other
    connection, and the next command, sees), [c_work] what this connection sees.
    No proofs here. *)
From Coq Require Import List NArith Bool Arith.
Import ListNotations.

Inductive tstmt :=
| TBegin | TCommit | TRollback
| TCreate (n : N)          (* CREATE TABLE t<n> (...) *)
| TBad.                    (* a statement that fails (INSERT INTO a table that does not exist) *)

Record conn := mkConn { c_file : list N; c_work : list N; c_intx : bool }.

Definition mem (n : N) (l : list N) : bool := existsb (N.eqb n) l.

(** a write of the connection: committed at once unless a transaction is open *)
Definition write (c : conn) (w : list N) : conn :=
  if c_intx c then mkConn (c_file c) w true else mkConn w w false.

(** one statement as SQLite executes it; [None]: it fails, the connection is unchanged
    (a failing statement does not end the transaction it is in) *)
Definition exec_t (s : tstmt) (c : conn) : option conn :=
  match s with
  | TBegin => if c_intx c then None else Some (mkConn (c_file c) (c_work c) true)
  | TCommit => if c_intx c then Some (mkConn (c_work c) (c_work c) false) else None
  | TRollback => if c_intx c then Some (mkConn (c_file c) (c_file c) false) else None
  | TCreate n => if mem n (c_work c) then None else Some (write c (n :: c_work c))
  | TBad => None
  end.

(** Executor.replay: statement by statement until one fails.
    [Some k]: k statements succeeded, the next one failed. *)
Fixpoint run_script (ss : list tstmt) (c : conn) : option nat * conn :=
  match ss with
  | [] => (None, c)
  | s :: ss' =>
      match exec_t s c with
      | None => (Some 0, c)
      | Some c1 => let '(r, c') := run_script ss' c1 in
                   (match r with Some k => Some (S k) | None => None end, c')
      end
  end.

(** the RestoreFunc on this connection: number of its statements that succeeded *)
Definition tx_restore (c : conn) : nat * conn :=
  let c1 := write c [] in                   (* DELETE FROM sqlite_master *)
  if c_intx c then (3, c1) else (4, c1).    (* VACUUM *)

(** closing the connection (the command exits / the library user closes the *sql.DB) *)
Definition close (c : conn) : list N := c_file c.

Inductive toutcome := TOk | TRefused | TFail (k : nat) | TRestoreFail.

(** [restore, err := Snapshot(ctx); defer restore(ctx); replay] on a fresh connection
    to a database file holding the tables [file] *)
Definition tx_session (ss : list tstmt) (file : list N) : toutcome * list N :=
  match file with
  | _ :: _ => (TRefused, file)
  | [] =>
      let '(r, c) := run_script ss (mkConn [] [] false) in
      let '(k, c') := tx_restore c in
      (match r with
       | Some m => TFail m
       | None => if 4 <=? k then TOk else TRestoreFail
       end, close c')
  end.

Definition has_begin (ss : list tstmt) : bool :=
  existsb (fun s => match s with TBegin => true | _ => false end) ss.

Definition is_nil {A} (l : list A) : bool := match l with [] => true | _ => false end.

(** what the harness compares: outcome, tables left in the file *)
Definition tx_observe (ss : list tstmt) (file : list N) : toutcome * list N := tx_session ss file.
