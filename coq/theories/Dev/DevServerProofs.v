(** Lemmas about M-DEV-SERVER (DevServer.v). *)
From Coq Require Import List NArith Bool Arith Lia.
Import ListNotations.
From Atlas Require Import Dev.DevServer.

(** ---- no faults *)
Lemma calls_nil : forall n, calls n [] = (true, []).
Proof. induction n; simpl; auto. Qed.

Lemma inspect_schema_nil : forall f t srv, snd (inspect_schema f t srv []) = [].
Proof.
  intros f t srv. unfold inspect_schema. rewrite calls_nil. simpl.
  destruct (schemas_q f srv) as [|s [|s2 l]]; simpl; auto.
  destruct t; simpl; auto. rewrite calls_nil. reflexivity.
Qed.

Lemma inspect_realm_nil : forall f srv, inspect_realm f srv [] = (Some (schemas_q f srv), []).
Proof.
  intros f srv. unfold inspect_realm. rewrite calls_nil. simpl.
  destruct (schemas_q f srv) as [|s l]; simpl; auto. rewrite calls_nil. reflexivity.
Qed.

Lemma apply_nil_fs : forall l srv, snd (fst (apply l srv [])) = [].
Proof.
  induction l as [|st l IH]; intros srv; simpl; auto.
  destruct (exec_s st srv) as [[srv1 e]|]; simpl; auto.
  specialize (IH srv1). destruct (apply l srv1 []) as [[[[k ok] srv'] fs'] es]. simpl in *. exact IH.
Qed.

(** ---- well-formed servers: schema ids are unique *)
Definition wf (srv : server) : Prop := NoDup (map s_id (sv_schemas srv)).

Lemma find_sch_none_notin : forall n l, find_sch n l = None -> ~ In n (map s_id l).
Proof.
  induction l as [|x l IH]; simpl; intros H; auto.
  destruct (N.eqb (s_id x) n) eqn:E; [discriminate|].
  apply N.eqb_neq in E. intros [H1|H1]; [contradiction|]. exact (IH H H1).
Qed.

Lemma map_id_insert : forall s l x, In x (map s_id (insert_sch s l)) <-> x = s_id s \/ In x (map s_id l).
Proof.
  induction l as [|y l IH]; simpl; intros x.
  - split; intros [H|H]; auto; contradiction.
  - destruct (s_id s <? s_id y)%N; simpl.
    + split; intros H; destruct H as [H|H]; auto.
    + rewrite IH. split; intros H; intuition.
Qed.

Lemma nodup_insert : forall s l, ~ In (s_id s) (map s_id l) -> NoDup (map s_id l) -> NoDup (map s_id (insert_sch s l)).
Proof.
  induction l as [|y l IH]; simpl; intros Hn Hd.
  - constructor; [auto|constructor].
  - destruct (s_id s <? s_id y)%N; simpl.
    + constructor; auto.
    + inversion Hd as [|? ? Hy Hl]; subst. constructor.
      * rewrite map_id_insert. intros [H|H]; [apply Hn; left; auto|contradiction].
      * apply IH; auto.
Qed.

Lemma map_id_set_tabs : forall n ts l, map s_id (set_tabs n ts l) = map s_id l.
Proof.
  induction l as [|x l IH]; simpl; auto. rewrite IH. f_equal.
  destruct (N.eqb (s_id x) n) eqn:E; simpl; auto. apply N.eqb_eq in E. auto.
Qed.

Lemma nodup_remove : forall n l, NoDup (map s_id l) -> NoDup (map s_id (remove_sch n l)).
Proof.
  induction l as [|x l IH]; simpl; intros Hd; auto.
  inversion Hd as [|? ? Hx Hl]; subst.
  destruct (N.eqb (s_id x) n); simpl; auto. constructor; auto.
  intros H. apply Hx. unfold remove_sch in H. rewrite in_map_iff in *.
  destruct H as [y [Hy Hin]]. apply filter_In in Hin. exists y. tauto.
Qed.

Lemma exec_s_wf : forall st srv srv' e, wf srv -> exec_s st srv = Some (srv', e) -> wf srv'.
Proof.
  unfold wf. intros st srv srv' e Hw H. destruct st as [o t|o t|s ifne|s|]; simpl in H; try discriminate.
  - destruct (target o srv); [|discriminate]. destruct (find_sch n (sv_schemas srv)); [|discriminate].
    destruct (memN t (s_tabs s)); [discriminate|]. injection H as <- _. simpl. rewrite map_id_set_tabs. exact Hw.
  - destruct (target o srv); [|discriminate]. destruct (find_sch n (sv_schemas srv)); [|discriminate].
    destruct (memN t (s_tabs s)); [|discriminate]. injection H as <- _. simpl. rewrite map_id_set_tabs. exact Hw.
  - destruct (find_sch s (sv_schemas srv)) eqn:E.
    + destruct ifne; [|discriminate]. injection H as <- _. exact Hw.
    + injection H as <- _. simpl. apply (nodup_insert (mkSch s [])); auto. simpl. apply find_sch_none_notin. exact E.
  - destruct (find_sch s (sv_schemas srv)); [|discriminate]. injection H as <- _. simpl. apply nodup_remove. exact Hw.
Qed.

Lemma apply_wf : forall l srv fs, wf srv -> wf (snd (fst (fst (apply l srv fs)))).
Proof.
  induction l as [|st l IH]; intros srv fs Hw; simpl; auto.
  destruct (pop fs) as [f fs1]. destruct f; simpl; auto.
  destruct (exec_s st srv) as [[srv1 e]|] eqn:E; simpl; auto.
  specialize (IH srv1 fs1 (exec_s_wf _ _ _ _ Hw E)).
  destruct (apply l srv1 fs1) as [[[[k ok] srv'] fs'] es]. simpl in *. exact IH.
Qed.

(** ---- the realm restore without faults drops every schema *)
Lemma find_sch_head : forall x l, find_sch (s_id x) (x :: l) = Some x.
Proof. intros. unfold find_sch. simpl. rewrite N.eqb_refl. reflexivity. Qed.

Lemma remove_head : forall x l, ~ In (s_id x) (map s_id l) -> remove_sch (s_id x) (x :: l) = l.
Proof.
  intros x l Hn. unfold remove_sch. simpl. rewrite N.eqb_refl. simpl.
  induction l as [|y l IH]; simpl; auto.
  destruct (N.eqb (s_id y) (s_id x)) eqn:E.
  - apply N.eqb_eq in E. exfalso. apply Hn. left. exact E.
  - simpl. f_equal. apply IH. intros H. apply Hn. right. exact H.
Qed.

Lemma apply_cons_nil : forall st l srv,
  apply (st :: l) srv [] =
  match exec_s st srv with
  | None => (0, false, srv, [], [])
  | Some (srv1, e) => let '(k, ok, srv', fs', es) := apply l srv1 [] in (S k, ok, srv', fs', e :: es)
  end.
Proof. reflexivity. Qed.

Lemma exec_s_drop_head : forall x l cur, ~ In (s_id x) (map s_id l) ->
  exec_s (SDs (s_id x)) (mkSrv (x :: l) cur) = Some (mkSrv l cur, EDs (s_id x)).
Proof.
  intros x l cur Hn. unfold exec_s. cbn [sv_schemas sv_cur].
  rewrite find_sch_head. rewrite (remove_head x l Hn). reflexivity.
Qed.

Lemma drop_all : forall l cur, NoDup (map s_id l) ->
  exists k, apply (map (fun s => SDs (s_id s)) l) (mkSrv l cur) [] = (k, true, mkSrv [] cur, [], map (fun s => EDs (s_id s)) l).
Proof.
  induction l as [|x l IH]; intros cur Hd.
  - exists 0. reflexivity.
  - inversion Hd as [|? ? Hx Hl]; subst. cbn [map].
    rewrite apply_cons_nil, (exec_s_drop_head x l cur Hx).
    destruct (IH cur Hl) as [k E]. rewrite E. exists (S k). reflexivity.
Qed.

Lemma restore_realm_nofault : forall srv, wf srv ->
  exists es, restore_my RRealm srv [] = (true, mkSrv [] (sv_cur srv), [], es).
Proof.
  intros [l cur] Hw. unfold restore_my. rewrite inspect_realm_nil. simpl.
  destruct (drop_all l cur Hw) as [k E]. rewrite E. eexists. reflexivity.
Qed.

(** ---- Snapshot on a server that holds content declines *)
Lemma filter_find_none : forall n l, find_sch n l = None -> filter (fun s => N.eqb (s_id s) n) l = [].
Proof.
  induction l as [|x l IH]; simpl; auto. destruct (N.eqb (s_id x) n); [discriminate|auto].
Qed.

Lemma filter_find_some : forall n l s, find_sch n l = Some s ->
  exists r, filter (fun s => N.eqb (s_id s) n) l = s :: r.
Proof.
  induction l as [|x l IH]; simpl; intros s H; [discriminate|].
  destruct (N.eqb (s_id x) n).
  - injection H as <-. eexists. reflexivity.
  - exact (IH s H).
Qed.

Definition declines (x : snap * list bool) : Prop := fst x = SnapNotClean \/ fst x = SnapErr.

Local Opaque tables_cost.
Lemma snapshot_declines : forall srv fs, holds_content srv = true -> declines (snapshot_my srv fs).
Proof.
  intros [l cur] fs H. unfold holds_content, bound_sch in H. simpl in H.
  unfold declines, snapshot_my, inspect_schema. simpl calls.
  destruct (pop fs) as [f fs1]. destruct f; simpl; [right; reflexivity|].
  unfold schemas_q. simpl sv_cur. simpl sv_schemas.
  assert (Hrealm : l <> [] ->
     fst (match inspect_realm FAll (mkSrv l cur) fs1 with
          | (None, fs2) => (SnapErr, fs2)
          | (Some [], fs2) => (SnapOk RRealm, fs2)
          | (Some (_ :: _), fs2) => (SnapNotClean, fs2)
          end) = SnapNotClean \/
     fst (match inspect_realm FAll (mkSrv l cur) fs1 with
          | (None, fs2) => (SnapErr, fs2)
          | (Some [], fs2) => (SnapOk RRealm, fs2)
          | (Some (_ :: _), fs2) => (SnapNotClean, fs2)
          end) = SnapErr).
  { intros Hl. unfold inspect_realm. simpl calls. destruct (pop fs1) as [g fs2]. destruct g; simpl; [right; reflexivity|].
    destruct l as [|x l']; [contradiction|]. simpl.
    destruct (calls (tables_cost (x :: l')) fs2) as [ok fs3]. destruct ok; [left|right]; reflexivity. }
  destruct cur as [c|].
  - destruct (find_sch c l) as [s|] eqn:E.
    + destruct (filter_find_some c l s E) as [r Er]. rewrite Er.
      destruct r as [|s2 r]; [|right; reflexivity].
      destruct (calls (tables_cost [s]) fs1) as [ok fs2]. destruct ok; simpl; [|right; reflexivity].
      rewrite H. left. reflexivity.
    + rewrite (filter_find_none c l E). apply Hrealm. destruct l; [discriminate|discriminate].
  - apply Hrealm. destruct l; [discriminate|discriminate].
Qed.

Local Transparent tables_cost.
Lemma declined_scenario : forall sc srv fs, declines (snapshot_my srv fs) ->
  let r := run_scenario sc srv fs in
  r_trace r = [] /\ r_srv r = srv /\ r_ran r = false /\ (r_out r = SRefused \/ r_out r = SSnapErr).
Proof.
  intros sc srv fs H. unfold declines in H.
  destruct sc; simpl; unfold run_sess, norm_schema, norm_realm;
  destruct (snapshot_my srv fs) as [[rk| |] fs1]; simpl in H; destruct H as [H|H]; try discriminate; simpl; auto.
Qed.

(** ---- an accepted Snapshot: the RestoreFunc runs on every exit *)
Lemma accepted_restore_runs : forall sc srv fs rk fs1,
  snapshot_my srv fs = (SnapOk rk, fs1) -> r_ran (run_scenario sc srv fs) = true.
Proof.
  intros sc srv fs rk fs1 H. destruct sc; simpl; unfold run_sess, norm_schema, norm_realm; rewrite H.
  - destruct (apply body srv fs1) as [[[[k ok] srv1] fs2] es].
    destruct (restore_my rk srv1 fs2) as [[[rok srv2] fs3] es2]. reflexivity.
  - destruct (inspect_schema FCur false srv fs1) as [[s| |] fs2].
    + destruct (apply (map (fun t => SCt None t) tabs) srv fs2) as [[[[k ok] srv1] fs3] es].
      destruct ok.
      * destruct (inspect_schema FCur true srv1 fs3) as [[s'| |] fs4];
        destruct (restore_my rk srv1 fs4) as [[[rok srv2] fs5] es2]; reflexivity.
      * destruct (restore_my rk srv1 fs3) as [[[rok srv2] fs4] es2]; reflexivity.
    + destruct (restore_my rk srv fs2) as [[[rok srv2] fs3] es2]; reflexivity.
    + destruct (restore_my rk srv fs2) as [[[rok srv2] fs3] es2]; reflexivity.
  - destruct (apply (realm_changes r) srv fs1) as [[[[k ok] srv1] fs2] es].
    destruct ok.
    + destruct (inspect_realm (FNames (map s_id r)) srv1 fs2) as [[ss|] fs3];
      destruct (restore_my rk srv1 fs3) as [[[rok srv2] fs4] es2]; reflexivity.
    + destruct (restore_my rk srv1 fs2) as [[[rok srv2] fs3] es2]; reflexivity.
Qed.

(** ---- a realm connection: handed back empty on every exit when no call fails *)
Lemma snapshot_empty : forall cur, snapshot_my (mkSrv [] cur) [] = (SnapOk RRealm, []).
Proof. intros [c|]; reflexivity. Qed.

Lemma wf_empty : forall cur, wf (mkSrv [] cur).
Proof. intros cur. unfold wf. simpl. constructor. Qed.

Definition final_ok (r : sresult) : Prop :=
  r_ran r = true /\ r_restored r = true /\ sv_schemas (r_srv r) = [] /\ r_fs r = [].

Lemma restore_after : forall srv1 o es, wf srv1 ->
  final_ok (let '(rok, srv2, fs3, es2) := restore_my RRealm srv1 [] in mkRes o rok true srv2 fs3 (es ++ es2)).
Proof.
  intros srv1 o es Hw. destruct (restore_realm_nofault srv1 Hw) as [es2 E]. rewrite E.
  unfold final_ok. simpl. auto.
Qed.

Lemma handed_back_realm : forall sc cur, final_ok (run_scenario sc (mkSrv [] cur) []).
Proof.
  intros sc cur. pose proof (wf_empty cur) as Hw0.
  destruct sc as [body|tabs|r]; simpl; unfold run_sess, norm_schema, norm_realm; rewrite snapshot_empty.
  - pose proof (apply_wf body (mkSrv [] cur) [] Hw0) as Hw. pose proof (apply_nil_fs body (mkSrv [] cur)) as Hf.
    destruct (apply body (mkSrv [] cur) []) as [[[[k ok] srv1] fs2] es]. simpl in Hw, Hf. subst fs2.
    destruct (restore_realm_nofault srv1 Hw) as [es2 E]. rewrite E. unfold final_ok. simpl. auto.
  - assert (E : inspect_schema FCur false (mkSrv [] cur) [] = (INotExist, [])) by (destruct cur; reflexivity).
    rewrite E. destruct (restore_realm_nofault (mkSrv [] cur) Hw0) as [es2 E2]. rewrite E2. unfold final_ok. simpl. auto.
  - pose proof (apply_wf (realm_changes r) (mkSrv [] cur) [] Hw0) as Hw.
    pose proof (apply_nil_fs (realm_changes r) (mkSrv [] cur)) as Hf.
    destruct (apply (realm_changes r) (mkSrv [] cur) []) as [[[[k ok] srv1] fs2] es]. simpl in Hw, Hf. subst fs2.
    destruct (restore_realm_nofault srv1 Hw) as [es2 E2].
    destruct ok.
    + rewrite inspect_realm_nil. rewrite E2. unfold final_ok. simpl. auto.
    + rewrite E2. unfold final_ok. simpl. auto.
Qed.

(** what Snapshot accepts on a realm connection is exactly the server without schemas *)
Lemma accepted_realm_empty : forall srv fs fs1,
  snapshot_my srv fs = (SnapOk RRealm, fs1) -> holds_content srv = false.
Proof.
  intros srv fs fs1 H. destruct (holds_content srv) eqn:E; auto.
  pose proof (snapshot_declines srv fs E) as D. unfold declines in D. rewrite H in D. simpl in D.
  destruct D; discriminate.
Qed.
