(** M-DIR proofs, round 5: directory formats, archive round trip, checkpoint readers. *)
From Coq Require Import List NArith ZArith Bool Arith Lia Strings.String.
From Atlas Require Import Base.Bytes Base.ListX Dir.DirModel Dir.DirProofs Dir.DirDetect Dir.DirEdits Dir.DirGlob
  Dir.DirRefuted Dir.DirWriters Dir.DirFormatsModel.
Import ListNotations.

(** the entry a format looks at: for the glob formats a root entry whose name
    has the suffix (a directory of that name makes Files() fail), for Flyway
    a regular V/B/R *.sql file outside hidden directories *)
Definition reads (f : format) (e : fsentry) : bool :=
  match f with
  | FFlyway => match flyway_candidate e with Some _ => true | None => false end
  | FGolangMigrate => match fst e with [n] => ends_with s_up_sql n | _ => false end
  | _ => match fst e with [n] => ends_with s_sql n | _ => false end
  end.

Definition is_sum_file (e : fsentry) : bool :=
  match e with ([n], KFile _) => bytes_eqb n s_atlas_sum | _ => false end.

Definition cand (e : fsentry) : list pfile := match flyway_candidate e with Some x => [x] | None => [] end.

Lemma flyway_walk_eq t : flyway_walk t = psort (flat_map cand t).
Proof. reflexivity. Qed.

Definition fly_of (l : list pfile) : list file :=
  map (fun x => (join_path (fst x), snd x)) (fly_names (fold_left fly_add (psort l) (mk_ffs None [] []))).

Lemma flyway_files_eq t : flyway_files t = fly_of (flat_map cand t).
Proof. reflexivity. Qed.

(** ** entries a format does not read are invisible to it *)
Lemma top_app (a b : tree) : top (a ++ b) = top a ++ top b.
Proof. unfold top. apply flat_map_app. Qed.

Lemma glob_unread suf (t1 : tree) (e : fsentry) (t2 : tree) :
  match fst e with [n] => ends_with suf n | _ => false end = false ->
  filter (matches suf) (top (t1 ++ e :: t2)) = filter (matches suf) (top (t1 ++ t2)).
Proof.
  intros H. rewrite !top_app, !filter_app. f_equal.
  change (e :: t2) with (([e] : tree) ++ t2). rewrite top_app, filter_app.
  destruct e as [p k]. destruct p as [|n [|m q]]; simpl in *; try reflexivity.
  unfold matches at 1. simpl. rewrite H. reflexivity.
Qed.

Lemma flyway_unread (t1 : tree) (e : fsentry) (t2 : tree) :
  flyway_candidate e = None -> flat_map cand (t1 ++ e :: t2) = flat_map cand (t1 ++ t2).
Proof.
  intros H. rewrite !flat_map_app. f_equal. simpl. unfold cand at 1. rewrite H. reflexivity.
Qed.

Lemma format_unread_files f (t1 : tree) (e : fsentry) (t2 : tree) :
  reads f e = false -> format_files f (t1 ++ e :: t2) = format_files f (t1 ++ t2).
Proof.
  intros H. destruct f; unfold format_files, reads in *;
    try (unfold local_files, golang_migrate_files, glob_files; rewrite (glob_unread _ t1 e t2 H); reflexivity).
  f_equal. rewrite !flyway_files_eq.
  rewrite (flyway_unread t1 e t2); [reflexivity|].
  destruct (flyway_candidate e); [discriminate|reflexivity].
Qed.

Lemma tree_sum_unread (t1 : tree) (e : fsentry) (t2 : tree) :
  is_sum_file e = false -> tree_sum (t1 ++ e :: t2) = tree_sum (t1 ++ t2).
Proof.
  intros H. induction t1 as [|[p k] r IH]; simpl.
  - destruct e as [p k]. destruct p as [|n [|m q]]; try reflexivity.
    destruct k; [|reflexivity]. simpl in H. rewrite H. reflexivity.
  - destruct p as [|n [|m q]]; try exact IH. destruct k; [|exact IH].
    destruct (bytes_eqb n s_atlas_sum); [reflexivity|exact IH].
Qed.

(** ** writing atlas.sum does not change what a format reads *)
Lemma put_sum_top suf t b :
  ends_with suf s_atlas_sum = false ->
  filter (matches suf) (top (tree_put_sum t b)) = filter (matches suf) (top t).
Proof.
  intros H. assert (M : forall k, matches suf (s_atlas_sum, k) = false) by (intros k; exact H).
  induction t as [|[p k] r IH]; simpl.
  - rewrite M. reflexivity.
  - destruct p as [|n [|m q]]; try (simpl; exact IH).
    destruct k as [c|].
    + destruct (bytes_eqb n s_atlas_sum) eqn:E.
      * apply bytes_eqb_eq in E. subst n. simpl. rewrite !M. reflexivity.
      * simpl. destruct (matches suf (n, KFile c)); [f_equal|]; exact IH.
    + simpl. destruct (matches suf (n, KDir)); [f_equal|]; exact IH.
Qed.

Lemma put_sum_cand t b : flat_map cand (tree_put_sum t b) = flat_map cand t.
Proof.
  induction t as [|[p k] r IH]; simpl; [reflexivity|].
  destruct p as [|n [|m q]]; try (simpl; rewrite IH; reflexivity).
  destruct k as [c|]; [|simpl; rewrite IH; reflexivity].
  destruct (bytes_eqb n s_atlas_sum) eqn:E; [|simpl; rewrite IH; reflexivity].
  apply bytes_eqb_eq in E. subst n. reflexivity.
Qed.

Lemma put_sum_files f t b : format_files f (tree_put_sum t b) = format_files f t.
Proof.
  destruct f; unfold format_files;
    try (unfold local_files, golang_migrate_files, glob_files; rewrite put_sum_top by reflexivity; reflexivity).
  f_equal. rewrite !flyway_files_eq, put_sum_cand. reflexivity.
Qed.

Lemma tree_sum_put t b : tree_sum (tree_put_sum t b) = Some b.
Proof.
  induction t as [|[p k] r IH]; simpl; [reflexivity|].
  destruct p as [|n [|m q]]; try (simpl; exact IH).
  destruct k as [c|]; [|simpl; exact IH].
  destruct (bytes_eqb n s_atlas_sum) eqn:E; simpl; rewrite E; [reflexivity|exact IH].
Qed.

(** ** membership in what the glob formats return *)
Lemma in_insert_file_iff x f l : In x (insert_file f l) <-> f = x \/ In x l.
Proof.
  split; [apply in_insert_file|].
  induction l as [|g r IH]; simpl; [tauto|].
  destruct (bytes_ltb (fst f) (fst g)); simpl; [tauto|].
  intros [H|[H|H]]; auto.
Qed.

Lemma in_sort_files_iff x l : In x (sort_files l) <-> In x l.
Proof.
  split; [apply in_sort_files|].
  induction l as [|f r IH]; simpl; [tauto|].
  intros [H|H]; apply in_insert_file_iff; auto.
Qed.

Lemma in_read_all l fs n c : read_all l = Some fs -> (In (n, c) fs <-> In (n, KFile c) l).
Proof.
  revert fs; induction l as [|[m k] r IH]; intros fs H; simpl in H.
  - inversion H; subst. simpl. tauto.
  - destruct k as [d|]; [|discriminate].
    destruct (read_all r) as [fs0|]; [|discriminate]. inversion H; subst. simpl.
    rewrite (IH fs0 eq_refl). split; intros [A|A]; auto; left; congruence.
Qed.

Lemma in_top t n k : In (n, k) (top t) <-> In ([n], k) t.
Proof.
  unfold top. rewrite in_flat_map. split.
  - intros [[p k'] [A B]]. destruct p as [|m [|m' q]]; simpl in B; try tauto.
    destruct B as [B|[]]. inversion B; subst. exact A.
  - intros A. exists ([n], k). split; [exact A|left; reflexivity].
Qed.

Lemma glob_files_in suf t fs n c :
  glob_files suf t = FOk fs ->
  (In (n, c) fs <-> In ([n], KFile c) t /\ ends_with suf n = true).
Proof.
  unfold glob_files. intros H.
  destruct (read_all (filter (matches suf) (top t))) as [fs0|] eqn:E; [|discriminate].
  inversion H; subst. rewrite in_sort_files_iff, (in_read_all _ _ n c E), filter_In, in_top.
  unfold matches. simpl. tauto.
Qed.

Definition glob_suffix (f : format) : bytes :=
  match f with FGolangMigrate => s_up_sql | _ => s_sql end.

Lemma format_files_glob f t : f <> FFlyway -> format_files f t = glob_files (glob_suffix f) t.
Proof. destruct f; intros H; try reflexivity. contradiction. Qed.

Lemma nodup_fst_functional (fs : list file) n c c' :
  NoDup (map fst fs) -> In (n, c) fs -> In (n, c') fs -> c = c'.
Proof.
  induction fs as [|[m d] r IH]; simpl; intros ND A B; [tauto|].
  inversion ND as [|? ? N1 N2]; subst.
  destruct A as [A|A], B as [B|B].
  - congruence.
  - inversion A; subst. exfalso. apply N1. apply (in_map fst) in B. exact B.
  - inversion B; subst. exfalso. apply N1. apply (in_map fst) in A. exact A.
  - apply IH; assumption.
Qed.

(** an edit of the bytes of a file a glob format reads changes Files() *)
Lemma glob_read_edit_changes f (t1 t2 : tree) n c c' fs fs' :
  f <> FFlyway ->
  reads f ([n], KFile c) = true -> c <> c' ->
  format_files f (t1 ++ ([n], KFile c) :: t2) = FOk fs ->
  format_files f (t1 ++ ([n], KFile c') :: t2) = FOk fs' ->
  NoDup (map fst fs') -> fs' <> fs.
Proof.
  intros NF R Ne H H' ND E. subst fs'.
  rewrite format_files_glob in H, H' by exact NF.
  assert (S : ends_with (glob_suffix f) n = true) by (destruct f; try exact R; contradiction).
  assert (A : In (n, c) fs).
  { apply (glob_files_in _ _ _ n c H). split; [|exact S]. apply in_or_app. right. left. reflexivity. }
  assert (B : In (n, c') fs).
  { apply (glob_files_in _ _ _ n c' H'). split; [|exact S]. apply in_or_app. right. left. reflexivity. }
  apply Ne. exact (nodup_fst_functional fs n c c' ND A B).
Qed.

(** ** Flyway: only candidates are ever returned *)
Lemma in_pinsert x e l : In x (pinsert e l) <-> e = x \/ In x l.
Proof.
  induction l as [|g r IH]; simpl; [tauto|].
  destruct (path_ltb (fst e) (fst g)); simpl; [tauto|]. rewrite IH. tauto.
Qed.

Lemma in_psort x l : In x (psort l) <-> In x l.
Proof.
  induction l as [|e r IH]; simpl; [tauto|]. rewrite in_pinsert, IH. tauto.
Qed.

Lemma in_vinsert_right x e l : In x (vinsert_right e l) <-> e = x \/ In x l.
Proof.
  induction l as [|g r IH]; simpl; [tauto|].
  destruct (fly_less e g); simpl; [tauto|]. rewrite IH. tauto.
Qed.

Lemma in_vsort_from x l acc :
  In x (fold_left (fun a y => vinsert_right y a) l acc) <-> In x acc \/ In x l.
Proof.
  revert acc; induction l as [|e r IH]; intros acc; simpl; [tauto|].
  rewrite IH, in_vinsert_right. tauto.
Qed.

Lemma in_vsort x l : In x (vsort l) <-> In x l.
Proof. unfold vsort. rewrite in_vsort_from. simpl. tauto. Qed.

Definition ffs_in (x : pfile) (s : ffs) : Prop :=
  f_base s = Some x \/ In x (f_ver s) \/ In x (f_rep s).

Lemma fly_add_in x s y : ffs_in x (fly_add s y) -> ffs_in x s \/ x = y.
Proof.
  unfold fly_add, ffs_in.
  destruct (base_of (fst y)) as [|b r]; [tauto|].
  destruct (N.eqb b 66).
  { destruct (match f_base s with Some b0 => bytes_ltb (flyway_version (fst y)) (flyway_version (fst b0)) | None => false end);
      [tauto|].
    simpl. rewrite filter_In. intros [A|[[A _]|A]]; auto. inversion A; auto. }
  destruct (N.eqb b 86).
  { destruct (match f_base s with Some b0 => bytes_ltb (flyway_version (fst b0)) (flyway_version (fst y)) | None => true end);
      [|tauto].
    simpl. rewrite in_app_iff. simpl. intros [A|[[A|[A|[]]]|A]]; auto. }
  destruct (N.eqb b 82); [|tauto].
  simpl. rewrite in_app_iff. simpl. intros [A|[A|[A|[A|[]]]]]; auto.
Qed.

Lemma fly_fold_in x l s : ffs_in x (fold_left fly_add l s) -> ffs_in x s \/ In x l.
Proof.
  revert s; induction l as [|y r IH]; intros s H; simpl in *; [auto|].
  apply IH in H as [H|H]; [|auto]. apply fly_add_in in H as [H|H]; auto.
Qed.

Lemma fly_names_in x s : In x (fly_names s) -> ffs_in x s.
Proof.
  unfold fly_names, ffs_in. rewrite !in_app_iff, !in_vsort.
  destruct (f_base s) as [b|]; simpl; intros [A|[A|A]]; auto; try tauto.
  destruct A as [A|[]]. subst. auto.
Qed.

Lemma flyway_files_sound t n c :
  In (n, c) (flyway_files t) ->
  exists e p, In e t /\ flyway_candidate e = Some (p, c) /\ n = join_path p.
Proof.
  unfold flyway_files. rewrite in_map_iff. intros [[p c0] [E H]]. simpl in E. inversion E; subst.
  apply fly_names_in in H. apply fly_fold_in in H as [H|H].
  - unfold ffs_in in H. simpl in H. destruct H as [H|[[]|[]]]. discriminate.
  - rewrite flyway_walk_eq, in_psort, in_flat_map in H. destruct H as [e [A B]].
    exists e, p. split; [exact A|]. split; [|reflexivity].
    unfold cand in B. destruct (flyway_candidate e) as [y|]; simpl in B; [|tauto]. destruct B as [B|[]]. subst. reflexivity.
Qed.

(** ** archive round trip *)
Lemma store_get_put_other st n m c : m <> n -> store_get (store_put st m c) n = store_get st n.
Proof.
  intros Ne. induction st as [|[k d] r IH]; simpl.
  - destruct (bytes_eqb m n) eqn:E; [apply bytes_eqb_eq in E; contradiction|reflexivity].
  - destruct (bytes_eqb k m) eqn:E; simpl.
    + apply bytes_eqb_eq in E. subst k.
      destruct (bytes_eqb m n) eqn:E2; [apply bytes_eqb_eq in E2; contradiction|reflexivity].
    + destruct (bytes_eqb k n); [reflexivity|exact IH].
Qed.

Lemma store_get_write_sql st fs :
  forallb sqlf fs = true -> store_get (write_files st fs) s_atlas_sum = store_get st s_atlas_sum.
Proof.
  unfold write_files. revert st; induction fs as [|[n c] r IH]; intros st H; simpl in *; [reflexivity|].
  apply andb_true_iff in H as [H1 H2]. rewrite IH by exact H2.
  apply store_get_put_other. intros E. subst n. unfold sqlf in H1. simpl in H1. discriminate.
Qed.

Lemma unarchive_files sum fs :
  forallb sqlf fs = true -> sorted_strict fs = true ->
  files_of (unarchive (archive sum fs)) = fs /\ store_get (unarchive (archive sum fs)) s_atlas_sum = sum.
Proof.
  intros S O. unfold unarchive, archive. destruct sum as [b|]; simpl.
  - change (fold_left (fun s f => store_put s (fst f) (snd f)) fs [(s_atlas_sum, b)])
      with (write_files [(s_atlas_sum, b)] fs).
    split; [apply files_of_copy; auto|]. rewrite store_get_write_sql by exact S. reflexivity.
  - change (fold_left (fun s f => store_put s (fst f) (snd f)) fs []) with (write_files [] fs).
    split; [apply files_of_copy; auto|]. rewrite store_get_write_sql by exact S. reflexivity.
Qed.

(** ** checkpoint readers *)
Section Checkpoint.
Variable is_ck : file -> bool.

(** the suffix that starts at the last checkpoint file, everything if there is none *)
Fixpoint from_last_ck (fs : list file) : list file :=
  match fs with
  | [] => []
  | f :: r => if existsb is_ck r then from_last_ck r else fs
  end.

Lemma checkpoint_files_nil fs : checkpoint_files is_ck fs = [] <-> existsb is_ck fs = false.
Proof.
  unfold checkpoint_files. induction fs as [|f r IH]; simpl; [tauto|].
  destruct (is_ck f); simpl; [split; discriminate|exact IH].
Qed.

Lemma ffc_no_ck fs name : existsb is_ck fs = false -> files_from_checkpoint is_ck fs name = None.
Proof.
  induction fs as [|f r IH]; simpl; intros H; [reflexivity|].
  apply orb_false_iff in H as [H1 H2]. rewrite (IH H2), H1. reflexivity.
Qed.

Lemma last_cons_default {A} (a d : A) l : last (a :: l) d = last l a.
Proof.
  revert a d; induction l as [|b l IH]; intros a d; [reflexivity|].
  change (last (a :: b :: l) d) with (last (b :: l) d). rewrite (IH b d), (IH b a). reflexivity.
Qed.

(** the name handed to FilesFromCheckpoint is the last checkpoint file's *)
Lemma last_ck_name f r c cks :
  checkpoint_files is_ck (f :: r) = c :: cks -> existsb is_ck r = true ->
  exists c' cks', checkpoint_files is_ck r = c' :: cks' /\ last cks c = last cks' c'.
Proof.
  unfold checkpoint_files. simpl. intros H E.
  destruct (filter is_ck r) as [|c' cks'] eqn:F.
  { apply checkpoint_files_nil in F. congruence. }
  exists c', cks'. split; [reflexivity|].
  destruct (is_ck f); inversion H; subst; [apply last_cons_default|reflexivity].
Qed.

Lemma ffc_last fs c cks :
  checkpoint_files is_ck fs = c :: cks ->
  files_from_checkpoint is_ck fs (fst (last cks c)) = Some (from_last_ck fs).
Proof.
  revert c cks; induction fs as [|f r IH]; intros c cks H; [discriminate|].
  cbn [files_from_checkpoint from_last_ck].
  destruct (existsb is_ck r) eqn:E.
  - destruct (last_ck_name f r c cks H E) as [c' [cks' [A B]]]. rewrite B, (IH c' cks' A). reflexivity.
  - rewrite (ffc_no_ck r _ E).
    assert (F : filter is_ck r = []) by (apply checkpoint_files_nil; exact E).
    unfold checkpoint_files in H. simpl in H. rewrite F in H.
    destruct (is_ck f) eqn:K; [|discriminate]. inversion H; subst. simpl.
    rewrite bytes_eqb_refl. reflexivity.
Qed.

Lemma files_from_last_checkpoint_spec fs :
  files_from_last_checkpoint is_ck fs = Some (from_last_ck fs).
Proof.
  unfold files_from_last_checkpoint. destruct (checkpoint_files is_ck fs) as [|c cks] eqn:H.
  - apply checkpoint_files_nil in H. f_equal. destruct fs as [|f r]; [reflexivity|]. simpl in *.
    apply orb_false_iff in H as [_ H]. rewrite H. reflexivity.
  - apply ffc_last. exact H.
Qed.

Lemma from_last_ck_suffix fs : exists a, fs = a ++ from_last_ck fs.
Proof.
  induction fs as [|f r [a IH]]; [exists []; reflexivity|]. simpl.
  destruct (existsb is_ck r); [exists (f :: a); simpl; f_equal; exact IH|exists []; reflexivity].
Qed.

Lemma from_last_ck_tail fs : existsb is_ck (tl (from_last_ck fs)) = false.
Proof.
  induction fs as [|f r IH]; [reflexivity|]. simpl.
  destruct (existsb is_ck r) eqn:E; [exact IH|exact E].
Qed.

Lemma from_last_ck_head fs :
  existsb is_ck fs = true -> exists k r, from_last_ck fs = k :: r /\ is_ck k = true.
Proof.
  induction fs as [|f r IH]; simpl; intros H; [discriminate|].
  destruct (existsb is_ck r) eqn:E; [apply IH; reflexivity|].
  rewrite orb_false_r in H. exists f, r. auto.
Qed.

End Checkpoint.

Lemma from_last_ck_none is_ck fs : existsb is_ck fs = false -> from_last_ck is_ck fs = fs.
Proof.
  destruct fs as [|f r]; [reflexivity|]. simpl. intros H.
  apply orb_false_iff in H as [_ H]. rewrite H. reflexivity.
Qed.

(** the Flyway witness of the archive round trip: versions 1 and 10 *)
Definition wf_tree : tree :=
  [([bs "V1__a.sql"], KFile (bs "A;")); ([bs "V10__c.sql"], KFile (bs "C;"))].
Definition wf_d : list file := [(bs "V1__a.sql", bs "A;"); (bs "V10__c.sql", bs "C;")].
Definition wf_d' : list file := [(bs "V10__c.sql", bs "C;"); (bs "V1__a.sql", bs "A;")].

Section Hash.
Variable HS : bytes -> bytes.
Hypothesis HS_shape : forall x, hash_ok (HS x).

Lemma format_hash_validates f t fs :
  format_files f t = FOk fs -> names_ok fs = true ->
  exists t', write_sum_tree HS f t = Some t' /\ format_files f t' = FOk fs /\
             validate_tree HS f t' = TV VOk.
Proof.
  intros H N. exists (tree_put_sum t (marshal HS (newhash HS fs))).
  unfold write_sum_tree, validate_tree. rewrite H, put_sum_files, H, tree_sum_put.
  repeat split. f_equal. apply (untouched_validates_lemma HS HS_shape). exact N.
Qed.

Lemma format_unread_invisible f (t1 : tree) (e : fsentry) (t2 : tree) :
  reads f e = false -> is_sum_file e = false ->
  format_files f (t1 ++ e :: t2) = format_files f (t1 ++ t2) /\
  validate_tree HS f (t1 ++ e :: t2) = validate_tree HS f (t1 ++ t2).
Proof.
  intros R S. split; [apply format_unread_files; exact R|].
  unfold validate_tree. rewrite (format_unread_files f t1 e t2 R), (tree_sum_unread t1 e t2 S). reflexivity.
Qed.

Lemma format_change_detected f t' fs fs' :
  format_files f t' = FOk fs' ->
  names_ok fs = true -> NoDup (map fst fs) ->
  names_wf fs = true -> names_wf fs' = true -> no_ignored fs = true -> no_ignored fs' = true ->
  fs' <> fs ->
  exists v, validate_tree HS f (tree_put_sum t' (marshal HS (newhash HS fs))) = TV v /\
            (is_checksum_error v \/ collision HS (hash_inputs HS fs ++ hash_inputs HS fs')).
Proof.
  intros H' N ND W W' I I' Ne.
  exists (validate HS fs' (Some (marshal HS (newhash HS fs)))). split.
  - unfold validate_tree. rewrite put_sum_files, H', tree_sum_put. reflexivity.
  - apply (detect_plain_error HS HS_shape); assumption.
Qed.

Lemma archive_roundtrip sum fs :
  all_sql fs = true -> sorted_strict fs = true ->
  files_of (unarchive (archive sum fs)) = fs /\
  validate_store HS (unarchive (archive sum fs)) = validate HS fs sum.
Proof.
  intros S O. destruct (unarchive_files sum fs S O) as [A B].
  split; [exact A|]. unfold validate_store. rewrite A, B. reflexivity.
Qed.

Lemma archive_flyway_refuted :
  exists t arc,
    validate_tree HS FFlyway t = TV VOk /\ archive_tree FFlyway t = Some arc /\
    (validate_store HS (unarchive arc) <> VOk \/
     collision HS (hash_inputs HS wf_d ++ hash_inputs HS wf_d')).
Proof.
  exists (tree_put_sum wf_tree (marshal HS (newhash HS wf_d))),
         (archive (Some (marshal HS (newhash HS wf_d))) wf_d).
  assert (F : format_files FFlyway wf_tree = FOk wf_d) by (vm_compute; reflexivity).
  split; [|split].
  - unfold validate_tree. rewrite put_sum_files, F, tree_sum_put. f_equal.
    apply (untouched_validates_lemma HS HS_shape). vm_compute. reflexivity.
  - unfold archive_tree. rewrite put_sum_files, F, tree_sum_put. reflexivity.
  - assert (E : validate_store HS (unarchive (archive (Some (marshal HS (newhash HS wf_d))) wf_d))
                = validate HS wf_d' (Some (marshal HS (newhash HS wf_d)))).
    { unfold validate_store, unarchive, archive. cbn [app].
      change (write_files [] ((s_atlas_sum, marshal HS (newhash HS wf_d)) :: wf_d))
        with (write_files [(s_atlas_sum, marshal HS (newhash HS wf_d))] wf_d).
      rewrite store_get_write_sql by reflexivity. cbn [store_get]. rewrite bytes_eqb_refl.
      f_equal; set (m := marshal HS (newhash HS wf_d)); vm_compute; reflexivity. }
    rewrite E. destruct (validate HS wf_d' (Some (marshal HS (newhash HS wf_d)))) eqn:V;
      try (left; discriminate).
    right. apply (detect_plain_lemma HS HS_shape) in V; try (vm_compute; reflexivity).
    destruct V as [V|V]; [discriminate V|exact V].
Qed.

End Hash.

(** ** dirFormatBC / DirURL / checkDir: what happens before Validate *)
Section CheckDirProofs.
Variable HS : bytes -> bytes.

Definition chosen_format (fmt : option bytes) (flag : bytes) : bytes :=
  match fmt with Some x => x | None => flag end.

Lemma dir_format_bc_chosen flag fmt :
  match dir_format_bc flag fmt with Some x => x | None => [] end = chosen_format fmt flag.
Proof. destruct fmt as [x|]; [reflexivity|]. destruct flag; reflexivity. Qed.

Lemma check_dir_validated parse_ok scheme fmt flag is_dir t v :
  check_dir_url HS parse_ok scheme fmt flag is_dir t = PValidated v ->
  parse_ok = true /\
  ((scheme = s_mem /\ v = TV VOk) \/
   (scheme = s_file /\ is_dir = true /\
    exists f, parse_format (chosen_format fmt flag) = Some f /\ v = validate_tree HS f t)).
Proof.
  unfold check_dir_url. destruct parse_ok; simpl; [|discriminate]. intros H. split; [reflexivity|].
  unfold dir_url in H. rewrite dir_format_bc_chosen in H.
  destruct (bytes_eqb scheme s_mem) eqn:M.
  { left. apply bytes_eqb_eq in M. inversion H. auto. }
  destruct (bytes_eqb scheme s_file) eqn:F.
  { right. apply bytes_eqb_eq in F. split; [exact F|].
    destruct (parse_format (chosen_format fmt flag)) as [f|]; [|discriminate].
    destruct is_dir; [|discriminate]. inversion H. split; [reflexivity|]. exists f. auto. }
  destruct (bytes_eqb scheme s_atlas_scheme); discriminate.
Qed.

Lemma check_dir_unknown_format x flag is_dir t :
  parse_format x = None -> check_dir_url HS true s_file (Some x) flag is_dir t = PErrOpen.
Proof. intros H. unfold check_dir_url, dir_url, dir_format_bc. simpl. rewrite H. reflexivity. Qed.

Lemma check_dir_url_format_wins x flag flag' is_dir t scheme :
  check_dir_url HS true scheme (Some x) flag is_dir t = check_dir_url HS true scheme (Some x) flag' is_dir t.
Proof. reflexivity. Qed.

End CheckDirProofs.
