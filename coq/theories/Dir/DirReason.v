(** M-DIR proofs, part 8: WHAT Validate reports for the single edits of a
    directory without sum-ignored files: the *ChecksumError's line, total,
    position, file and reason, for every position of the edit.

      content of file i edited   -> line i+2, file = that file,   ReasonEdited
      file i removed             -> line i+2, file = that file,   ReasonRemoved
      file i renamed (in place)  -> line i+2, file = the old name, ReasonRemoved
      file added at position i   -> line i+2, file = the new file, ReasonAdded
    with pos = 48 + sum over the files before i of (len name + 50)
    -- or an explicit collision. *)
From Coq Require Import List NArith Bool Arith Lia.
From Atlas Require Import Base.Bytes Base.ListX Dir.DirModel Dir.DirProofs Dir.DirDetect.
Import ListNotations.

Definition entry_pos (x : entry) : nat := length (fst x) + 1 + 47 + 1.
Definition possum (l : list entry) : nat := list_sum (map entry_pos l).

(** byte offset of line i+2 of atlas.sum, from the files in front of it *)
Definition pos_of (a : list file) : nat := 48 + list_sum (map (fun f => length (fst f) + 1 + 47 + 1) a).

Definition flat (a : list file) : bytes := concat (map (fun f => fst f ++ snd f) a).

Lemma skipn_cons_nth {A} (l : list A) i x r : skipn i l = x :: r -> nth_error l i = Some x /\ skipn (S i) l = r.
Proof.
  revert i; induction l as [|a l IH]; intros [|i] H; simpl in *; try discriminate.
  - inversion H; auto.
  - apply IH; exact H.
Qed.

Lemma entry_eqb_refl x : entry_eqb x x = true.
Proof. apply entry_eqb_eq. reflexivity. Qed.

(** the loop walks over a common prefix *)
Lemma loop_skip (c : list entry) : forall (ex rest : list entry) i pos total tail,
  skipn i ex = c ++ tail ->
  validate_loop ex (c ++ rest) i pos total = validate_loop ex rest (i + length c) (pos + possum c) total.
Proof.
  induction c as [|x c IH]; intros ex rest i pos total tail H.
  - simpl. unfold possum. simpl. rewrite !Nat.add_0_r. reflexivity.
  - simpl app in *. apply skipn_cons_nth in H as [H1 H2].
    cbn [validate_loop]. rewrite H1, entry_eqb_refl.
    rewrite (IH ex rest (S i) _ total tail H2).
    replace (S i + length c) with (i + length (x :: c)) by (simpl; lia).
    replace (pos + (length (fst x) + 1 + 47 + 1) + possum c) with (pos + possum (x :: c))
      by (unfold possum, entry_pos; simpl; lia).
    reflexivity.
Qed.

Lemma index_name_app (P Q : list entry) n k :
  ~ In n (map fst P) -> index_name (P ++ Q) n k = index_name Q n (k + length P).
Proof.
  revert k; induction P as [|x P IH]; intros k H; simpl.
  - rewrite Nat.add_0_r. reflexivity.
  - destruct (bytes_eqb (fst x) n) eqn:E.
    + exfalso. apply bytes_eqb_eq in E. apply H. left. exact E.
    + rewrite IH by (intros A; apply H; right; exact A). f_equal. lia.
Qed.

Lemma index_name_none (Q : list entry) n k : ~ In n (map fst Q) -> index_name Q n k = None.
Proof.
  revert k; induction Q as [|x Q IH]; intros k H; simpl; [reflexivity|].
  destruct (bytes_eqb (fst x) n) eqn:E.
  - exfalso. apply bytes_eqb_eq in E. apply H. left. exact E.
  - apply IH. intros A. apply H. right. exact A.
Qed.

Lemma index_name_ge (Q : list entry) n k idx : index_name Q n k = Some idx -> k <= idx.
Proof. intros H. apply index_name_spec in H. tauto. Qed.

Lemma nth_error_mid {A} (P : list A) x R : nth_error (P ++ x :: R) (length P) = Some x.
Proof. rewrite nth_error_app2 by lia. rewrite Nat.sub_diag. reflexivity. Qed.

Section Hash.
Variable HS : bytes -> bytes.

(** first mismatch inside the sum file's entries *)
Lemma validate_hf_at (P R R' : list entry) h :
  hf_sum HS (P ++ h :: R) <> hf_sum HS (P ++ R') ->
  hd_error R' <> Some h ->
  validate_hf HS (P ++ h :: R) (P ++ R')
  = classify (P ++ R') h (length P) (48 + possum P) (length (P ++ h :: R)).
Proof.
  intros NS NH. unfold validate_hf.
  destruct (bytes_eqb _ _) eqn:E; [apply bytes_eqb_eq in E; contradiction|].
  rewrite (loop_skip P (P ++ R') (h :: R) 0 48 _ R' eq_refl). simpl plus.
  cbn [validate_loop].
  destruct R' as [|x R'].
  - rewrite app_nil_r. rewrite (proj2 (nth_error_None P (length P))) by lia. reflexivity.
  - rewrite nth_error_mid. destruct (entry_eqb x h) eqn:Q; [|reflexivity].
    apply entry_eqb_eq in Q. subst x. exfalso. apply NH. reflexivity.
Qed.

(** all sum entries match, the directory has more *)
Lemma validate_hf_end (P R' : list entry) x :
  hf_sum HS P <> hf_sum HS (P ++ x :: R') ->
  validate_hf HS P (P ++ x :: R') = VChecksum (length P + 2) (length P) (48 + possum P) (fst x) Added.
Proof.
  intros NS. unfold validate_hf.
  destruct (bytes_eqb _ _) eqn:E; [apply bytes_eqb_eq in E; contradiction|].
  rewrite <- (app_nil_r P) at 2.
  rewrite (loop_skip P (P ++ x :: R') [] 0 48 _ (x :: R') eq_refl). simpl plus.
  cbn [validate_loop]. rewrite nth_error_mid. reflexivity.
Qed.

Lemma classify_edited (P R' : list entry) n H H' pos total :
  ~ In n (map fst P) ->
  classify (P ++ (n, H') :: R') (n, H) (length P) pos total = VChecksum (length P + 2) total pos n Edited.
Proof.
  intros NI. unfold classify. cbn [fst]. rewrite index_name_app by exact NI.
  cbn [index_name fst]. rewrite bytes_eqb_refl. simpl plus. rewrite Nat.eqb_refl. reflexivity.
Qed.

Lemma classify_removed (ex : list entry) h i pos total :
  ~ In (fst h) (map fst ex) ->
  classify ex h i pos total = VChecksum (i + 2) total pos (fst h) Removed.
Proof. intros NI. unfold classify. rewrite index_name_none by exact NI. reflexivity. Qed.

Lemma classify_added (P R' : list entry) x h pos total :
  ~ In (fst h) (map fst P) -> fst x <> fst h -> In (fst h) (map fst R') ->
  classify (P ++ x :: R') h (length P) pos total = VChecksum (length P + 2) total pos (fst x) Added.
Proof.
  intros NI NE I. unfold classify. rewrite index_name_app by exact NI.
  cbn [index_name]. destruct (bytes_eqb (fst x) (fst h)) eqn:E; [apply bytes_eqb_eq in E; contradiction|].
  destruct (index_name R' (fst h) (S (0 + length P))) as [idx|] eqn:IX.
  - apply index_name_ge in IX. destruct (Nat.eqb idx (length P)) eqn:Q; [apply Nat.eqb_eq in Q; lia|].
    rewrite nth_error_mid. reflexivity.
  - exfalso. clear - I IX. revert IX. generalize (S (0 + length P)).
    induction R' as [|y R' IH]; intros k IX; simpl in *; [contradiction|].
    destruct (bytes_eqb (fst y) (fst h)) eqn:E; [discriminate|].
    destruct I as [I|I]; [apply bytes_eqb_neq in E; contradiction|]. eapply IH; eauto.
Qed.

Hypothesis HS_shape : forall x, hash_ok (HS x).

(** ** NewHashFile on a directory without sum-ignored files, split at a position *)
Lemma newhash_from_app_plain acc a b :
  no_ignored a = true ->
  newhash_from HS acc (a ++ b) = newhash_from HS acc a ++ newhash_from HS (acc ++ flat a) b.
Proof.
  revert acc; induction a as [|[n c] a IH]; intros acc H; simpl.
  - unfold flat. simpl. rewrite app_nil_r. reflexivity.
  - simpl in H. apply andb_true_iff in H as [H1 H2]. apply negb_true_iff in H1. rewrite H1.
    simpl. f_equal. rewrite IH by exact H2. f_equal. f_equal.
    unfold flat. simpl. rewrite <- !app_assoc. reflexivity.
Qed.

Lemma streams_from_app_plain acc a b :
  no_ignored a = true ->
  streams_from acc (a ++ b) = streams_from acc a ++ streams_from (acc ++ flat a) b.
Proof.
  revert acc; induction a as [|[n c] a IH]; intros acc H; simpl.
  - unfold flat. simpl. rewrite app_nil_r. reflexivity.
  - simpl in H. apply andb_true_iff in H as [H1 H2]. apply negb_true_iff in H1. rewrite H1.
    simpl. f_equal. rewrite IH by exact H2. f_equal. f_equal.
    unfold flat. simpl. rewrite <- !app_assoc. reflexivity.
Qed.

Lemma newhash_plain_length acc a : no_ignored a = true -> length (newhash_from HS acc a) = length a.
Proof.
  revert acc; induction a as [|[n c] a IH]; intros acc H; simpl in *; [reflexivity|].
  apply andb_true_iff in H as [H1 H2]. apply negb_true_iff in H1. rewrite H1. simpl. rewrite IH; auto.
Qed.

Lemma hashed_names_plain a : no_ignored a = true -> hashed_names a = map fst a.
Proof.
  induction a as [|[n c] a IH]; simpl; intros H; [reflexivity|].
  apply andb_true_iff in H as [H1 H2]. apply negb_true_iff in H1. rewrite H1. simpl. rewrite IH; auto.
Qed.

Lemma possum_plain acc a : no_ignored a = true -> 48 + possum (newhash_from HS acc a) = pos_of a.
Proof.
  intros H. unfold pos_of, possum. f_equal. f_equal.
  revert acc; induction a as [|[n c] a IH]; intros acc; simpl in *; [reflexivity|].
  apply andb_true_iff in H as [H1 H2]. apply negb_true_iff in H1. rewrite H1. simpl.
  rewrite IH by exact H2. reflexivity.
Qed.

Lemma no_ignored_app a b : no_ignored (a ++ b) = true <-> no_ignored a = true /\ no_ignored b = true.
Proof. unfold no_ignored. rewrite forallb_app, andb_true_iff. tauto. Qed.

(** the sums of the two entry lists differ, or the lists are equal, or a collision *)
Lemma sums_differ d d' :
  names_wf d = true -> names_wf d' = true ->
  hf_sum HS (newhash HS d) <> hf_sum HS (newhash HS d') \/
  newhash HS d = newhash HS d' \/
  collision HS (hash_inputs HS d ++ hash_inputs HS d').
Proof.
  intros W W'. destruct (bytes_eq_dec (hf_sum HS (newhash HS d)) (hf_sum HS (newhash HS d'))) as [E|E]; [|left; exact E].
  right. unfold hf_sum in E.
  destruct (bytes_eq_dec (cat_entries (newhash HS d)) (cat_entries (newhash HS d'))) as [Q|Q].
  - left. apply cat_entries_inj; auto; apply (newhash_entries_wf HS HS_shape); assumption.
  - right. exists (cat_entries (newhash HS d)), (cat_entries (newhash HS d')). repeat split; auto.
    + apply in_app_iff. left. left. reflexivity.
    + apply in_app_iff. right. left. reflexivity.
Qed.

Ltac open_validate OK :=
  unfold validate;
  rewrite (unmarshal_marshal HS HS_shape) by (apply (newhash_entries_ok HS HS_shape); exact OK).

(** *** content edited *)
Lemma reason_edited a n c c' b :
  let d := a ++ (n, c) :: b in let d' := a ++ (n, c') :: b in
  names_ok d = true -> names_wf d = true -> NoDup (map fst d) ->
  no_ignored d = true -> no_ignored d' = true -> c' <> c ->
  validate HS d' (Some (marshal HS (newhash HS d)))
    = VChecksum (length a + 2) (length d) (pos_of a) n Edited \/
  collision HS (hash_inputs HS d ++ hash_inputs HS d').
Proof.
  intros d d' OK W ND I I' Ne.
  assert (W' : names_wf d' = true).
  { unfold d, d', names_wf in *. rewrite forallb_app in *. simpl in *. exact W. }
  apply no_ignored_app in I as [Ia Ib]. apply no_ignored_app in I' as [_ Ib'].
  simpl in Ib, Ib'. apply andb_true_iff in Ib as [Ic Ib]. apply andb_true_iff in Ib' as [Ic' _].
  apply negb_true_iff in Ic, Ic'.
  set (P := newhash_from HS [] a).
  set (s := (([] ++ flat a) ++ n)).
  assert (E : newhash HS d = P ++ (n, HS (s ++ c)) :: newhash_from HS (s ++ c) b).
  { unfold newhash, d. rewrite newhash_from_app_plain by exact Ia. simpl. rewrite Ic. reflexivity. }
  assert (E' : newhash HS d' = P ++ (n, HS (s ++ c')) :: newhash_from HS (s ++ c') b).
  { unfold newhash, d'. rewrite newhash_from_app_plain by exact Ia. simpl. rewrite Ic'. reflexivity. }
  assert (LP : length P = length a) by (apply newhash_plain_length; exact Ia).
  assert (NP : ~ In n (map fst P)).
  { unfold P. rewrite newhash_names, hashed_names_plain by exact Ia.
    unfold d in ND. rewrite map_app in ND. simpl in ND. apply NoDup_remove_2 in ND.
    intros A. apply ND. apply in_app_iff. left. exact A. }
  assert (COL : HS (s ++ c) = HS (s ++ c') -> collision HS (hash_inputs HS d ++ hash_inputs HS d')).
  { intros Q. exists (s ++ c), (s ++ c'). repeat split; auto.
    - apply in_app_iff. left. right. unfold streams, d. rewrite streams_from_app_plain by exact Ia.
      apply in_app_iff. right. simpl. rewrite Ic. left. reflexivity.
    - apply in_app_iff. right. right. unfold streams, d'. rewrite streams_from_app_plain by exact Ia.
      apply in_app_iff. right. simpl. rewrite Ic'. left. reflexivity.
    - intros A. apply app_inv_head in A. congruence. }
  destruct (sums_differ d d' W W') as [S|[S|S]]; [|right|right; exact S].
  2:{ rewrite E, E' in S. apply app_inv_head in S. inversion S as [[S1 S2]]. apply COL. exact S1. }
  destruct (bytes_eq_dec (HS (s ++ c)) (HS (s ++ c'))) as [Q|Q]; [right; apply COL; exact Q|].
  left. open_validate OK. rewrite E, E' in S |- *.
  rewrite validate_hf_at; [|exact S|simpl; intros A; inversion A; congruence].
  rewrite classify_edited by exact NP. rewrite LP.
  assert (LT : length (P ++ (n, HS (s ++ c)) :: newhash_from HS (s ++ c) b) = length d).
  { rewrite <- E. unfold newhash. apply newhash_plain_length.
    apply no_ignored_app. split; [exact Ia|]. simpl. rewrite Ic. exact Ib. }
  f_equal; [exact LT|unfold P; apply possum_plain; exact Ia].
Qed.


Lemma newhash_names_incl acc b x : In x (map fst (newhash_from HS acc b)) -> In x (map fst b).
Proof. rewrite newhash_names. apply hashed_names_incl. Qed.

Lemma names_wf_app a b : names_wf (a ++ b) = true <-> names_wf a = true /\ names_wf b = true.
Proof. unfold names_wf. rewrite forallb_app, andb_true_iff. tauto. Qed.

Lemma length_neq_list {A} (l l' : list A) : length l <> length l' -> l <> l'.
Proof. intros H E. apply H. rewrite E. reflexivity. Qed.

(** *** file removed *)
Lemma reason_removed a n c b :
  let d := a ++ (n, c) :: b in let d' := a ++ b in
  names_ok d = true -> names_wf d = true -> NoDup (map fst d) -> no_ignored d = true ->
  validate HS d' (Some (marshal HS (newhash HS d)))
    = VChecksum (length a + 2) (length d) (pos_of a) n Removed \/
  collision HS (hash_inputs HS d ++ hash_inputs HS d').
Proof.
  intros d d' OK W ND I.
  assert (W' : names_wf d' = true).
  { unfold d, d' in *. apply names_wf_app in W as [W1 W2]. simpl in W2. apply andb_true_iff in W2 as [_ W2].
    apply names_wf_app. auto. }
  pose proof I as Id. apply no_ignored_app in I as [Ia Ib].
  simpl in Ib. apply andb_true_iff in Ib as [Ic Ib]. apply negb_true_iff in Ic.
  set (P := newhash_from HS [] a).
  set (s := (([] ++ flat a) ++ n)).
  assert (E : newhash HS d = P ++ (n, HS (s ++ c)) :: newhash_from HS (s ++ c) b).
  { unfold newhash, d. rewrite newhash_from_app_plain by exact Ia. simpl. rewrite Ic. reflexivity. }
  assert (E' : newhash HS d' = P ++ newhash_from HS ([] ++ flat a) b).
  { unfold newhash, d'. rewrite newhash_from_app_plain by exact Ia. reflexivity. }
  assert (LP : length P = length a) by (apply newhash_plain_length; exact Ia).
  assert (Nab : ~ In n (map fst a ++ map fst b)).
  { unfold d in ND. rewrite map_app in ND. simpl in ND. apply NoDup_remove_2 in ND. exact ND. }
  assert (LD : length (newhash HS d) = length d) by (apply newhash_plain_length; exact Id).
  destruct (sums_differ d d' W W') as [S|[S|S]]; [|exfalso|right; exact S].
  2:{ revert S. apply length_neq_list. rewrite LD. unfold newhash. rewrite newhash_plain_length.
      - unfold d, d'. rewrite !app_length. simpl. lia.
      - apply no_ignored_app. auto. }
  left. open_validate OK. rewrite <- LD. rewrite E, E' in S |- *.
  rewrite validate_hf_at; [|exact S|].
  2:{ destruct (newhash_from HS ([] ++ flat a) b) as [|x R'] eqn:Q; [discriminate|].
      simpl. intros A. inversion A; subst x. apply Nab. apply in_app_iff. right.
      apply (newhash_names_incl ([] ++ flat a) b). rewrite Q. left. reflexivity. }
  rewrite classify_removed.
  - rewrite LP. cbn [fst]. f_equal. unfold P. apply possum_plain. exact Ia.
  - cbn [fst]. rewrite map_app. intros A. apply Nab. apply in_app_iff in A as [A|A]; apply in_app_iff.
    + left. apply (newhash_names_incl [] a). exact A.
    + right. apply (newhash_names_incl ([] ++ flat a) b). exact A.
Qed.

(** *** file renamed in place *)
Lemma reason_renamed a n n' c b :
  let d := a ++ (n, c) :: b in let d' := a ++ (n', c) :: b in
  names_ok d = true -> names_wf d = true -> NoDup (map fst d) -> no_ignored d = true ->
  name_wf n' = true -> ~ In n' (map fst d) ->
  validate HS d' (Some (marshal HS (newhash HS d)))
    = VChecksum (length a + 2) (length d) (pos_of a) n Removed \/
  collision HS (hash_inputs HS d ++ hash_inputs HS d').
Proof.
  intros d d' OK W ND I Wn NI.
  assert (W' : names_wf d' = true).
  { unfold d, d' in *. apply names_wf_app in W as [W1 W2]. simpl in W2. apply andb_true_iff in W2 as [_ W2].
    apply names_wf_app. split; [exact W1|]. simpl. rewrite Wn, W2. reflexivity. }
  pose proof I as Id. apply no_ignored_app in I as [Ia Ib].
  simpl in Ib. apply andb_true_iff in Ib as [Ic Ib]. apply negb_true_iff in Ic.
  set (P := newhash_from HS [] a).
  set (s := (([] ++ flat a) ++ n)). set (s' := (([] ++ flat a) ++ n')).
  assert (E : newhash HS d = P ++ (n, HS (s ++ c)) :: newhash_from HS (s ++ c) b).
  { unfold newhash, d. rewrite newhash_from_app_plain by exact Ia. simpl. rewrite Ic. reflexivity. }
  assert (E' : newhash HS d' = P ++ (n', HS (s' ++ c)) :: newhash_from HS (s' ++ c) b).
  { unfold newhash, d'. rewrite newhash_from_app_plain by exact Ia. simpl. rewrite Ic. reflexivity. }
  assert (LP : length P = length a) by (apply newhash_plain_length; exact Ia).
  assert (Nab : ~ In n (map fst a ++ map fst b)).
  { unfold d in ND. rewrite map_app in ND. simpl in ND. apply NoDup_remove_2 in ND. exact ND. }
  assert (NN : n' <> n).
  { intros ->. apply NI. unfold d. rewrite map_app. apply in_app_iff. right. left. reflexivity. }
  assert (LD : length (newhash HS d) = length d) by (apply newhash_plain_length; exact Id).
  destruct (sums_differ d d' W W') as [S|[S|S]]; [|exfalso|right; exact S].
  2:{ rewrite E, E' in S. apply app_inv_head in S. inversion S. congruence. }
  left. open_validate OK. rewrite <- LD. rewrite E, E' in S |- *.
  rewrite validate_hf_at; [|exact S|simpl; intros A; inversion A; congruence].
  rewrite classify_removed.
  - rewrite LP. cbn [fst]. f_equal. unfold P. apply possum_plain. exact Ia.
  - cbn [fst]. rewrite map_app. cbn [map fst]. intros A. apply in_app_iff in A as [A|[A|A]].
    + apply Nab. apply in_app_iff. left. apply (newhash_names_incl [] a). exact A.
    + congruence.
    + apply Nab. apply in_app_iff. right. apply (newhash_names_incl (s' ++ c) b). exact A.
Qed.

(** *** file added at any position (in front of b, or at the end when b = []) *)
Lemma reason_added a n' c' b :
  let d := a ++ b in let d' := a ++ (n', c') :: b in
  names_ok d = true -> names_wf d' = true -> NoDup (map fst d) ->
  no_ignored d = true -> sum_ignored c' = false -> ~ In n' (map fst d) ->
  validate HS d' (Some (marshal HS (newhash HS d)))
    = VChecksum (length a + 2) (length d) (pos_of a) n' Added \/
  collision HS (hash_inputs HS d ++ hash_inputs HS d').
Proof.
  intros d d' OK W' ND I Ic' NI.
  assert (W : names_wf d = true).
  { unfold d, d' in *. apply names_wf_app in W' as [W1 W2]. simpl in W2. apply andb_true_iff in W2 as [_ W2].
    apply names_wf_app. auto. }
  pose proof I as Id. apply no_ignored_app in I as [Ia Ib].
  set (P := newhash_from HS [] a).
  set (s' := (([] ++ flat a) ++ n')).
  assert (E : newhash HS d = P ++ newhash_from HS ([] ++ flat a) b).
  { unfold newhash, d. rewrite newhash_from_app_plain by exact Ia. reflexivity. }
  assert (E' : newhash HS d' = P ++ (n', HS (s' ++ c')) :: newhash_from HS (s' ++ c') b).
  { unfold newhash, d'. rewrite newhash_from_app_plain by exact Ia. simpl. rewrite Ic'. reflexivity. }
  assert (LP : length P = length a) by (apply newhash_plain_length; exact Ia).
  assert (LD : length (newhash HS d) = length d) by (apply newhash_plain_length; exact Id).
  assert (Id' : no_ignored d' = true).
  { apply no_ignored_app. split; [exact Ia|]. simpl. rewrite Ic'. exact Ib. }
  destruct (sums_differ d d' W W') as [S|[S|S]]; [|exfalso|right; exact S].
  2:{ revert S. apply length_neq_list. rewrite LD. unfold newhash. rewrite newhash_plain_length by exact Id'.
      unfold d, d'. rewrite !app_length. simpl. lia. }
  left. open_validate OK. rewrite <- LD.
  destruct b as [|[n c] b'].
  - (* appended at the end *)
    simpl in E. rewrite app_nil_r in E. rewrite E, E' in S |- *.
    rewrite validate_hf_end by exact S. rewrite LP. cbn [fst]. f_equal. unfold P. apply possum_plain. exact Ia.
  - simpl in Ib. apply andb_true_iff in Ib as [Ic Ib]. apply negb_true_iff in Ic.
    assert (Ex : newhash_from HS ([] ++ flat a) ((n, c) :: b')
                 = (n, HS ((([] ++ flat a) ++ n) ++ c)) :: newhash_from HS ((([] ++ flat a) ++ n) ++ c) b').
    { simpl. rewrite Ic. reflexivity. }
    rewrite Ex in E. rewrite E, E' in S |- *.
    assert (NN : n' <> n).
    { intros ->. apply NI. unfold d. rewrite map_app. apply in_app_iff. right. left. reflexivity. }
    rewrite validate_hf_at; [|exact S|simpl; intros A; inversion A; congruence].
    rewrite classify_added.
    + rewrite LP. cbn [fst]. f_equal. unfold P. apply possum_plain. exact Ia.
    + cbn [fst]. unfold d in ND. rewrite map_app in ND. simpl in ND. apply NoDup_remove_2 in ND.
      intros A. apply ND. apply in_app_iff. left. apply (newhash_names_incl [] a). exact A.
    + exact NN.
    + cbn [fst]. simpl. rewrite Ic. left. reflexivity.
Qed.

End Hash.
