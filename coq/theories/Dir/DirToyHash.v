(** A concrete function with the *shape* the theorems assume of
    base64(sha256(.)): 44 bytes of the base64 alphabet.  It is NOT
    collision-free and is used only (a) to show that the section premise
    [forall x, hash_ok (HS x)] is satisfiable and (b) in the non-vacuity
    [Example]s of Props_C06.v.  The correspondence run uses real SHA-256. *)
From Coq Require Import List NArith Bool Arith Lia.
From Atlas Require Import Base.Bytes Dir.DirModel Dir.DirProofs.
Import ListNotations.

Definition alphabet : bytes :=
  [65;66;67;68;69;70;71;72;73;74;75;76;77;78;79;80;81;82;83;84;85;86;87;88;89;90;
   97;98;99;100;101;102;103;104;105;106;107;108;109;110;111;112;113;114;115;116;117;118;119;120;121;122;
   48;49;50;51;52;53;54;55;56;57;43;47]%N.

Fixpoint digits (n : nat) (a : N) : bytes :=
  match n with
  | O => []
  | S n' => nth (N.to_nat (a mod 64)) alphabet 65%N :: digits n' (a / 64)
  end.

Definition toy_acc (x : bytes) : N := fold_left (fun a c => (a * 257 + c + 1)%N) x 7%N.
Definition toy_hs (x : bytes) : bytes := digits 43 (toy_acc x) ++ [61%N].

Lemma digits_length n a : length (digits n a) = n.
Proof. revert a; induction n as [|n IH]; intros a; simpl; [reflexivity|]. rewrite IH. reflexivity. Qed.

Lemma alphabet_b64 : forallb b64 alphabet = true.
Proof. vm_compute. reflexivity. Qed.

Lemma digits_b64 n a : forallb b64 (digits n a) = true.
Proof.
  revert a; induction n as [|n IH]; intros a; [reflexivity|].
  cbn [digits forallb]. rewrite IH, andb_true_r.
  pose proof alphabet_b64 as H. rewrite forallb_forall in H. apply H.
  apply nth_In. change (length alphabet) with 64.
  pose proof (N.mod_lt a 64 ltac:(discriminate)) as L. lia.
Qed.

Lemma toy_hs_shape x : hash_ok (toy_hs x).
Proof.
  unfold hash_ok, toy_hs. split.
  - rewrite app_length, digits_length. reflexivity.
  - rewrite forallb_app, digits_b64. reflexivity.
Qed.
