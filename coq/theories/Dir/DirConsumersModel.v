(** M-DIR, part 2: the *consumers* of a migration directory -- which of them
    validate it, and when (model only, no proofs).

    Go code followed (function by function):
    - sql/migrate/migrate_oss.go  Executor.ValidateDir
    - sql/migrate/migrate.go      Executor.Pending ("Don't operate with a broken migration
                                  directory"), ExecuteN, ExecuteTo (incl. its before-a-checkpoint
                                  arm that runs Pending on a MemDir copy), Replay
    - cmd/atlas/internal/cmdapi/migrate.go      checkDir (PreRunE of migrate diff / new / set /
                                  status / validate), migrateHashCmd, PreRunE of migrate import
    - cmd/atlas/internal/cmdapi/migrate_oss.go  migrateApplyRun ("Open and validate the migration directory")
    - cmd/atlas/internal/migratelint/lint_oss.go Runner.summary ("Integrity check")
    - cmd/atlas/internal/cmdext/reader.go / cmdext_oss.go  stateReaderSQL for a file:// migration
                                  directory (schema apply / schema diff / migrate diff --to)

    What is *not* the directory -- the target database with its revisions table and schema, the
    dev database, every flag (count, --dry-run, --baseline, --allow-dirty, --tx-mode,
    --exec-order, ...) -- is one abstract value [db : DB]; what a command does once it is past
    validation is an abstract continuation [rest].  The model therefore fixes exactly one thing:
    whether, for a given directory, the continuation is reached at all. *)
From Coq Require Import List NArith Bool Arith.
From Atlas Require Import Base.Bytes Base.ListX Dir.DirModel.
Import ListNotations.

Section Consumers.
Variable HS : bytes -> bytes.
Variable is_checkpoint : bytes -> bool.   (* dir.go: LocalFile.isCheckpoint, a function of the file's bytes *)
Variable DB : Type.
Variable R : Type.

Inductive outcome :=
| Refused (v : vresult)     (* the command returned migrate.Validate's error; nothing else was done *)
| NotFoundVersion           (* ExecuteTo: "migration with version %q not found" (before any validation) *)
| Failed                    (* another error before the directory was looked at (no --url, dev database not clean, ...) *)
| Proceeded (r : R).        (* validation passed (or was not asked for): the rest of the command ran *)

Definition proceeds (o : outcome) : bool := match o with Proceeded _ => true | _ => false end.

(** [if err := Validate(d); err != nil { return err }; k] *)
Definition guard (v : vresult) (k : outcome) : outcome :=
  match v with VOk => k | _ => Refused v end.

(** Executor.ValidateDir = Validate(e.dir); Executor.Pending begins with it, for every state of
    the revisions table ([db]) and every option. *)
Definition executor_pending (rest : store -> DB -> R) (st : store) (db : DB) : outcome :=
  guard (validate_store HS st) (Proceeded (rest st db)).

(** Executor.ExecuteN: [pending, err := e.Pending(ctx); if err != nil { return err }] *)
Definition execute_n (rest : store -> DB -> R) (st : store) (db : DB) : outcome :=
  executor_pending rest st db.

(** the version looked for lies before a checkpoint file: [slices.ContainsFunc(files[idx+1:], IsCheckpoint)] *)
Definition before_checkpoint (i : nat) (st : store) : bool :=
  existsb (fun f => is_checkpoint (snd f)) (skipn (S i) (files_of st)).

(** Executor.ExecuteTo.  [idx] = FilesLastIndex(files, Version()==version) ([None] = -1).
    In the before-a-checkpoint arm Pending runs with [e.dir = mem] where
    [mem.CopyFiles(files[:idx+1])] has just written a fresh sum for the copy. *)
Definition execute_to (rest : store -> DB -> R) (idx : option nat) (st : store) (db : DB) : outcome :=
  match idx with
  | None => NotFoundVersion
  | Some i =>
      if before_checkpoint i st
      then executor_pending rest (apply_op HS [] (OpCopyFiles (firstn (S i) (files_of st)))) db
      else executor_pending rest st db
  end.

(** Executor.Replay: Snapshot of the dev database first, then ExecuteTo (ReplayToVersion) or ExecuteN(0).
    [ver]: [None] = no version asked, [Some idx] = version asked, found at [idx]. *)
Definition replay (snapshot_ok : DB -> bool) (rest : store -> DB -> R)
           (ver : option (option nat)) (st : store) (db : DB) : outcome :=
  if snapshot_ok db then
    match ver with
    | None => execute_n rest st db
    | Some idx => execute_to rest idx st db
    end
  else Failed.

(** cmdapi.checkDir: [d := Dir(url, create); if err = migrate.Validate(d); err != nil { printChecksumError; return err }] *)
Definition check_dir (st : store) (k : outcome) : outcome := guard (validate_store HS st) k.

(** the commands *)
Inductive command :=
| CApply                              (* migrate apply, any count / flags *)
| CStatus | CSet | CNew
| CDiff                               (* migrate diff: checkDir, later Replay of the directory on the dev database *)
| CValidate (dev : bool)              (* migrate validate [--dev-url] *)
| CLint                               (* migrate lint: Runner.summary *)
| CImportFrom                         (* migrate import: the --from directory *)
| CStateSQL (ver : option (option nat)). (* schema apply --to / schema diff --from|--to file://dir?format=atlas[&version=V] *)

(** Whether the command's own prerequisites other than the directory are met (url given, client opens,
    lock taken, revisions table migrated, dev database clean) is a function of [db]. *)
Variable setup_ok : command -> DB -> bool.
Variable rest : command -> store -> DB -> R.

Definition run (c : command) (st : store) (db : DB) : outcome :=
  match c with
  | CApply =>
      (* migrateApplyRun: validate on open; then client, lock, revisions; then Executor.Pending validates again *)
      guard (validate_store HS st)
        (if setup_ok CApply db then executor_pending (rest CApply) st db else Failed)
  | CStatus | CSet | CNew =>
      (* PreRunE: checkDir; RunE: the command *)
      check_dir st (if setup_ok c db then Proceeded (rest c st db) else Failed)
  | CDiff =>
      check_dir st (replay (setup_ok CDiff) (rest CDiff) None st db)
  | CValidate dev =>
      check_dir st (if dev then replay (setup_ok c) (rest c) None st db else Proceeded (rest c st db))
  | CLint | CImportFrom =>
      (* [case errors.Is(err, ErrChecksumNotFound):] is accepted, every other error ends the command *)
      match validate_store HS st with
      | VOk | VNotFound => if setup_ok c db then Proceeded (rest c st db) else Failed
      | v => Refused v
      end
  | CStateSQL ver =>
      (* stateReaderSQL: NewExecutor(dev, dir, NopRevisionReadWriter).Replay -- no validation of its own *)
      replay (setup_ok c) (rest c) ver st db
  end.

(** migrate hash: the one command that repairs.  [WriteSumFile(dir, dir.Checksum())], no validation. *)
Definition migrate_hash (st : store) : store := write_sum HS st.

(** the cases in which a command is *not* bound to refuse a directory that does not validate *)
Definition exempt (c : command) (st : store) : bool :=
  match c with
  | CLint | CImportFrom => match validate_store HS st with VNotFound => true | _ => false end
  | CStateSQL (Some (Some i)) => before_checkpoint i st
  | _ => false
  end.

(** commands whose first step is the validation of the directory itself *)
Definition validates_first (c : command) : bool :=
  match c with CStateSQL _ => false | _ => true end.

End Consumers.

Arguments Refused {R} v.
Arguments NotFoundVersion {R}.
Arguments Failed {R}.
Arguments Proceeded {R} r.
