(** M-DIR proofs, part 10: the consumers of a directory (DirConsumersModel.v).
    - no command other than the exempt ones gets past a directory that does not validate,
      whatever the database / flags ([db]) and whatever the command would do next ([rest]);
    - the commands that validate first return exactly Validate's error;
    - the exemptions are real: lint / import accept a missing atlas.sum; a versioned replay
      (ExecuteTo) whose version lies before a checkpoint validates a freshly hashed copy and
      therefore proceeds on ANY directory;
    - migrate hash repairs. *)
From Coq Require Import List NArith Bool Arith Lia Strings.String.
From Atlas Require Import Base.Bytes Base.ListX Dir.DirModel Dir.DirProofs Dir.DirDetect Dir.DirRefuted
  Dir.DirWriters Dir.DirConsumersModel.
Import ListNotations.

Section Consumers.
Variable HS : bytes -> bytes.
Hypothesis HS_shape : forall x, hash_ok (HS x).
Variable is_checkpoint : bytes -> bool.
Variable DB R : Type.
Variable setup_ok : command -> DB -> bool.
Variable rest : command -> store -> DB -> R.

Notation run := (run HS is_checkpoint DB R setup_ok rest).
Notation exempt := (exempt HS is_checkpoint).

Lemma guard_refuses (v : vresult) (k : outcome R) : v <> VOk -> guard R v k = Refused v.
Proof. destruct v; simpl; congruence. Qed.

Lemma executor_pending_refuses k st db :
  validate_store HS st <> VOk -> executor_pending HS DB R k st db = Refused (validate_store HS st).
Proof. intros H. unfold executor_pending. apply guard_refuses. exact H. Qed.

Lemma execute_to_refuses k idx st db :
  validate_store HS st <> VOk ->
  match idx with Some i => before_checkpoint is_checkpoint i st = false | None => True end ->
  proceeds R (execute_to HS is_checkpoint DB R k idx st db) = false.
Proof.
  intros H B. destruct idx as [i|]; simpl; [|reflexivity].
  rewrite B. rewrite executor_pending_refuses by exact H. reflexivity.
Qed.

Lemma replay_refuses sn k ver st db :
  validate_store HS st <> VOk ->
  match ver with Some (Some i) => before_checkpoint is_checkpoint i st = false | _ => True end ->
  proceeds R (replay HS is_checkpoint DB R sn k ver st db) = false.
Proof.
  intros H B. unfold replay. destruct (sn db); [|reflexivity].
  destruct ver as [idx|].
  - apply execute_to_refuses; [exact H|]. destruct idx; exact B.
  - unfold execute_n. rewrite executor_pending_refuses by exact H. reflexivity.
Qed.

(** no outcome other than a refusal *)
Lemma consumers_never_proceed_lemma c st db :
  validate_store HS st <> VOk -> exempt c st = false -> proceeds R (run c st db) = false.
Proof.
  intros H E. destruct c as [| | | | |dev| | |ver].
  9: { simpl. apply replay_refuses; [exact H|]. destruct ver as [[i|]|]; try exact I. exact E. }
  all: simpl in *; unfold check_dir; destruct (validate_store HS st); simpl; try reflexivity; congruence.
Qed.

(** ... and for the commands that validate first it is Validate's own error, for every [db] *)
Lemma consumers_refuse_first_lemma c st db :
  validate_store HS st <> VOk -> exempt c st = false -> validates_first c = true ->
  run c st db = Refused (validate_store HS st).
Proof.
  intros H E F. destruct c as [| | | | |dev| | |ver]; try discriminate F.
  all: simpl in *; unfold check_dir; destruct (validate_store HS st); simpl; try reflexivity; congruence.
Qed.

(** the library entry points *)
Lemma executor_entry_points_lemma k st db :
  validate_store HS st <> VOk ->
  executor_pending HS DB R k st db = Refused (validate_store HS st) /\
  execute_n HS DB R k st db = Refused (validate_store HS st) /\
  (forall i, before_checkpoint is_checkpoint i st = false ->
     execute_to HS is_checkpoint DB R k (Some i) st db = Refused (validate_store HS st)).
Proof.
  intros H. repeat split.
  - apply executor_pending_refuses; exact H.
  - apply executor_pending_refuses; exact H.
  - intros i B. simpl. rewrite B. apply executor_pending_refuses; exact H.
Qed.

(** a directory that validates is never refused *)
Lemma consumers_accept_valid_lemma c st db :
  validate_store HS st = VOk ->
  match run c st db with Refused _ => exempt c st = true /\ validates_first c = false | _ => True end.
Proof.
  intros H. destruct c as [| | | | |dev| | |ver]; simpl; unfold check_dir, replay, execute_n, executor_pending;
    rewrite ?H; simpl.
  - destruct (setup_ok CApply db); simpl; exact I.
  - destruct (setup_ok CStatus db); exact I.
  - destruct (setup_ok CSet db); exact I.
  - destruct (setup_ok CNew db); exact I.
  - destruct (setup_ok CDiff db); simpl; exact I.
  - destruct dev; [destruct (setup_ok (CValidate true) db)|]; simpl; exact I.
  - destruct (setup_ok CLint db); exact I.
  - destruct (setup_ok CImportFrom db); exact I.
  - destruct (setup_ok (CStateSQL ver) db); [|exact I].
    destruct ver as [[i|]|]; simpl; unfold executor_pending; rewrite ?H; simpl; try exact I.
    destruct (before_checkpoint is_checkpoint i st) eqn:B.
    + match goal with |- context [guard R ?v _] => destruct v end; simpl; auto.
    + rewrite ?H; simpl; exact I.
Qed.

Lemma consumers_accept_valid_first_lemma c st db v :
  validate_store HS st = VOk -> validates_first c = true -> run c st db <> Refused v.
Proof.
  intros H F E. pose proof (consumers_accept_valid_lemma c st db H) as K. rewrite E in K.
  destruct K as [_ K]. congruence.
Qed.

(** *** the exemptions are real *)

Lemma forallb_firstn {A} (p : A -> bool) n l : forallb p l = true -> forallb p (firstn n l) = true.
Proof.
  revert n; induction l as [|a r IH]; intros [|n] H; simpl in *; try reflexivity.
  apply andb_true_iff in H as [H1 H2]. rewrite H1, (IH n H2). reflexivity.
Qed.

Lemma sorted_strict_firstn n l : sorted_strict l = true -> sorted_strict (firstn n l) = true.
Proof.
  revert n; induction l as [|a r IH]; intros [|n] H; simpl in *; try reflexivity.
  apply andb_true_iff in H as [H1 H2]. apply andb_true_iff. split; [apply forallb_firstn; exact H1|apply IH; exact H2].
Qed.

(** ExecuteTo before a checkpoint: the directory handed to Pending is the copy CopyFiles has just
    hashed -- it validates whatever the state of the real directory. *)
Lemma execute_to_before_checkpoint_lemma k i st db :
  names_ok (files_of st) = true -> forallb sqlf (files_of st) = true -> sorted_strict (files_of st) = true ->
  before_checkpoint is_checkpoint i st = true ->
  execute_to HS is_checkpoint DB R k (Some i) st db
  = Proceeded (k (apply_op HS [] (OpCopyFiles (firstn (S i) (files_of st)))) db).
Proof.
  intros N Q SS B. unfold execute_to. rewrite B. unfold executor_pending.
  assert (N' : names_ok (firstn (S i) (files_of st)) = true) by (apply forallb_firstn; exact N).
  assert (Q' : forallb sqlf (firstn (S i) (files_of st)) = true) by (apply forallb_firstn; exact Q).
  assert (S' : sorted_strict (firstn (S i) (files_of st)) = true) by (apply sorted_strict_firstn; exact SS).
  set (fs := firstn (S i) (files_of st)) in *.
  assert (V : validate_store HS (apply_op HS [] (OpCopyFiles fs)) = VOk).
  { apply (apply_op_inv HS HS_shape [] (OpCopyFiles fs) eq_refl). simpl. repeat split; assumption. }
  rewrite V. reflexivity.
Qed.

Lemma state_sql_before_checkpoint_lemma i st db :
  names_ok (files_of st) = true -> forallb sqlf (files_of st) = true -> sorted_strict (files_of st) = true ->
  before_checkpoint is_checkpoint i st = true -> setup_ok (CStateSQL (Some (Some i))) db = true ->
  proceeds R (run (CStateSQL (Some (Some i))) st db) = true.
Proof.
  intros N Q SS B U. simpl. unfold replay. rewrite U.
  rewrite (execute_to_before_checkpoint_lemma _ i st db N Q SS B). reflexivity.
Qed.

(** lint / import: a directory whose atlas.sum is gone is accepted *)
Lemma lint_accepts_missing_sum_lemma c st db :
  (c = CLint \/ c = CImportFrom) -> validate_store HS st = VNotFound -> setup_ok c db = true ->
  run c st db = Proceeded (rest c st db).
Proof. intros [-> | ->] V U; simpl; rewrite V, U; reflexivity. Qed.

(** both exemptions on one directory whose atlas.sum was removed (no hash is involved: it holds for every [HS]) *)
Definition wx_store : store := [(bs "1.sql", bs "A;"); (bs "2.sql", bs "B;")].

Lemma consumers_exempt_refuted_lemma :
  validate_store HS wx_store = VNotFound /\
  (forall db, setup_ok CLint db = true -> run CLint wx_store db = Proceeded (rest CLint wx_store db)) /\
  (forall db, is_checkpoint (bs "B;") = true -> setup_ok (CStateSQL (Some (Some 0))) db = true ->
     proceeds R (run (CStateSQL (Some (Some 0))) wx_store db) = true).
Proof.
  assert (V : validate_store HS wx_store = VNotFound) by reflexivity.
  split; [exact V|]. split.
  - intros db U. apply lint_accepts_missing_sum_lemma; auto.
  - intros db C U. apply state_sql_before_checkpoint_lemma; try reflexivity; [|exact U].
    unfold before_checkpoint. change (files_of wx_store) with wx_store. unfold wx_store. cbn [skipn existsb snd]. rewrite C. reflexivity.
Qed.

(** migrate hash repairs every directory (names as the writers theorem wants them) *)
Lemma migrate_hash_repairs_lemma st :
  store_ok st = true -> validate_store HS (migrate_hash HS st) = VOk.
Proof. intros H. apply (write_sum_valid HS HS_shape). exact H. Qed.

End Consumers.
