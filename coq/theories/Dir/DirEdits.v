(** M-DIR proofs, part 3: the edit kinds the property names (each changes the
    directory, so each is caught by [detect_plain_error]) and the exact
    characterisation of what is covered when sum-ignored files are present
    (C06 item 5, [detect_wf_lemma]). *)
From Coq Require Import List NArith Bool Arith Lia Permutation.
From Atlas Require Import Base.Bytes Base.ListX Dir.DirModel Dir.DirProofs Dir.DirDetect.
Import ListNotations.

(** ** positional edits of a list *)
Definition insert_at {A} (i : nat) (x : A) (l : list A) : list A := firstn i l ++ x :: skipn i l.
Definition delete_at {A} (i : nat) (l : list A) : list A := firstn i l ++ skipn (S i) l.
Definition replace_at {A} (i : nat) (x : A) (l : list A) : list A := firstn i l ++ x :: skipn (S i) l.

Lemma insert_at_length {A} i (x : A) l : length (insert_at i x l) = S (length l).
Proof.
  unfold insert_at. rewrite app_length. simpl.
  rewrite <- (firstn_skipn i l) at 3. rewrite app_length. lia.
Qed.

Lemma insert_at_neq {A} i (x : A) l : insert_at i x l <> l.
Proof. intros E. apply (f_equal (@length A)) in E. rewrite insert_at_length in E. lia. Qed.

Lemma delete_at_neq {A} i (l : list A) : i < length l -> delete_at i l <> l.
Proof.
  intros L E. apply (f_equal (@length A)) in E. unfold delete_at in E.
  rewrite app_length, firstn_length, skipn_length in E. lia.
Qed.

Lemma replace_at_nth {A} i (x : A) l : i < length l -> nth_error (replace_at i x l) i = Some x.
Proof.
  intros L. unfold replace_at. rewrite nth_error_app2; rewrite firstn_length; [|lia].
  replace (i - Nat.min i (length l)) with 0 by lia. reflexivity.
Qed.

Lemma replace_at_neq {A} i (x y : A) l : nth_error l i = Some y -> x <> y -> replace_at i x l <> l.
Proof.
  intros N Ne E. assert (L : i < length l) by (apply nth_error_Some; congruence).
  pose proof (replace_at_nth i x l L) as R. rewrite E in R. congruence.
Qed.

(** ** the single edits of the property statement *)
Inductive single_edit (d : list file) : list file -> Prop :=
| E_add i f :                                     (* a file added anywhere *)
    single_edit d (insert_at i f d)
| E_remove i :                                    (* a file removed *)
    i < length d -> single_edit d (delete_at i d)
| E_rename i n c n' :                             (* a file renamed *)
    nth_error d i = Some (n, c) -> n' <> n -> single_edit d (replace_at i (n', c) d)
| E_reorder d' :                                  (* files reordered / contents swapped *)
    Permutation d d' -> d' <> d -> single_edit d d'
| E_flip_byte i n c k b b' :                      (* one byte changed *)
    nth_error d i = Some (n, c) -> nth_error c k = Some b -> b' <> b ->
    single_edit d (replace_at i (n, replace_at k b' c) d)
| E_insert_byte i n c k b :                       (* one byte inserted *)
    nth_error d i = Some (n, c) -> single_edit d (replace_at i (n, insert_at k b c) d)
| E_delete_byte i n c k :                         (* one byte deleted *)
    nth_error d i = Some (n, c) -> k < length c -> single_edit d (replace_at i (n, delete_at k c) d)
| E_edit i n c c' :                               (* any other change of a content *)
    nth_error d i = Some (n, c) -> c' <> c -> single_edit d (replace_at i (n, c') d).

Lemma single_edit_neq d d' : single_edit d d' -> d' <> d.
Proof.
  intros H. destruct H.
  - apply insert_at_neq.
  - apply delete_at_neq; assumption.
  - eapply replace_at_neq; [eassumption|]. congruence.
  - assumption.
  - eapply replace_at_neq; [eassumption|]. intros E. inversion E as [E'].
    revert E'. eapply replace_at_neq; eassumption.
  - eapply replace_at_neq; [eassumption|]. intros E. inversion E as [E'].
    revert E'. apply insert_at_neq.
  - eapply replace_at_neq; [eassumption|]. intros E. inversion E as [E'].
    revert E'. apply delete_at_neq; assumption.
  - eapply replace_at_neq; [eassumption|]. congruence.
Qed.

(** ** the hashed view of a directory: per hashed file, the names of the
    sum-ignored files since the previous hashed file, its name, its content *)
Definition vitem := (list bytes * bytes * bytes)%type.

Fixpoint view_from (pend : list bytes) (fs : list file) : list vitem :=
  match fs with
  | [] => []
  | (n, c) :: r =>
      if sum_ignored c then view_from (pend ++ [n]) r
      else (pend, n, c) :: view_from [] r
  end.
Definition view (d : list file) : list vitem := view_from [] d.

Definition seg_of (v : vitem) : bytes * bytes :=
  let '(p, n, c) := v in (n, (concat p ++ n) ++ c).

Lemma covered_view pend fs : covered_from (concat pend) fs = map seg_of (view_from pend fs).
Proof.
  revert pend; induction fs as [|[n c] r IH]; intros pend; simpl; [reflexivity|].
  destruct (sum_ignored c).
  - rewrite <- IH. rewrite concat_app. simpl. rewrite app_nil_r. reflexivity.
  - simpl. f_equal. exact (IH []).
Qed.

(** the hashed files themselves are part of the view *)
Lemma view_hashed pend fs :
  map (fun v : vitem => (snd (fst v), snd v)) (view_from pend fs)
  = filter (fun f => negb (sum_ignored (snd f))) fs.
Proof.
  revert pend; induction fs as [|[n c] r IH]; intros pend; simpl; [reflexivity|].
  destruct (sum_ignored c); simpl; [apply IH|]. f_equal. apply IH.
Qed.

Definition view_ok (v : vitem) : Prop :=
  let '(p, n, c) := v in Forall (fun m => name_wf m = true) p /\ name_wf n = true /\ ~ In n p.

Lemma nodup_app_r {A} (a b : list A) : NoDup (a ++ b) -> NoDup b.
Proof. induction a as [|x a IH]; simpl; intros H; [exact H|]. inversion H; auto. Qed.

Lemma view_from_ok pend fs :
  Forall (fun m => name_wf m = true) pend -> names_wf fs = true ->
  NoDup (pend ++ map fst fs) -> Forall view_ok (view_from pend fs).
Proof.
  revert pend; induction fs as [|[n c] r IH]; intros pend P W ND; simpl; [constructor|].
  simpl in W. apply andb_true_iff in W as [W1 W2]. simpl in ND.
  destruct (sum_ignored c).
  - apply IH.
    + apply Forall_app; split; [exact P|]. constructor; [exact W1|constructor].
    + exact W2.
    + rewrite <- app_assoc. exact ND.
  - constructor.
    + split; [exact P|]. split; [exact W1|].
      apply NoDup_remove_2 in ND. intros A. apply ND. apply in_app_iff. left; exact A.
    + apply IH; [constructor|exact W2|]. apply NoDup_remove_1 in ND.
      apply nodup_app_r in ND. exact ND.
Qed.

Lemma seg_parse p p' n c c' :
  Forall (fun m => name_wf m = true) p -> Forall (fun m => name_wf m = true) p' ->
  name_wf n = true -> ~ In n p -> ~ In n p' ->
  (concat p ++ n) ++ c = (concat p' ++ n) ++ c' -> p = p' /\ c = c'.
Proof.
  intros P; revert p'. induction P as [|q p Wq P IH]; intros p' P' Wn N N' E.
  - destruct P' as [|q' p' Wq' P'].
    + simpl in E. apply app_inv_head in E. auto.
    + exfalso. simpl in E. rewrite <- !app_assoc in E.
      destruct (name_wf_unique _ _ _ _ Wn Wq' E) as [Q _]. apply N'. left. auto.
  - destruct P' as [|q' p' Wq' P'].
    + exfalso. simpl in E. rewrite <- !app_assoc in E.
      destruct (name_wf_unique _ _ _ _ Wq Wn E) as [Q _]. apply N. left. auto.
    + simpl in E. rewrite <- !app_assoc in E.
      destruct (name_wf_unique _ _ _ _ Wq Wq' E) as [Q R]. subst q'.
      rewrite !app_assoc in R.
      destruct (IH p' P' Wn) as [-> ->]; auto.
      * intros A. apply N. right; exact A.
      * intros A. apply N'. right; exact A.
Qed.

Lemma seg_of_inj v v' : view_ok v -> view_ok v' -> seg_of v = seg_of v' -> v = v'.
Proof.
  destruct v as [[p n] c], v' as [[p' n'] c']. simpl.
  intros [P [W N]] [P' [W' N']] E. inversion E as [[E1 E2]]. subst n'.
  destruct (seg_parse _ _ _ _ _ P P' W N N' E2) as [-> ->]. reflexivity.
Qed.

Lemma map_inj_forall {A B} (P : A -> Prop) (f : A -> B) l l' :
  (forall x y, P x -> P y -> f x = f y -> x = y) ->
  Forall P l -> Forall P l' -> map f l = map f l' -> l = l'.
Proof.
  intros I H; revert l'. induction H as [|x l Hx Hl IH]; intros l' H' E.
  - destruct l'; [reflexivity|discriminate].
  - destruct H' as [|y l' Hy Hl']; [discriminate|]. simpl in E. inversion E as [[E1 E2]].
    rewrite (I _ _ Hx Hy E1), (IH _ Hl' E2). reflexivity.
Qed.

(** equal [covered] lists = equal views, for directories with distinct wf names *)
Lemma covered_view_inj d d' :
  names_wf d = true -> names_wf d' = true -> NoDup (map fst d) -> NoDup (map fst d') ->
  covered d = covered d' -> view d = view d'.
Proof.
  intros W W' ND ND' E. unfold covered in E.
  change (@nil N) with (concat (@nil bytes)) in E. rewrite !covered_view in E.
  eapply (map_inj_forall view_ok seg_of); [exact seg_of_inj| | |exact E];
    apply view_from_ok; auto.
Qed.

Section Hash.
Variable HS : bytes -> bytes.
Hypothesis HS_shape : forall x, hash_ok (HS x).

(** item 5: with sum-ignored files present, what validation pins down is
    exactly the view: all hashed files (name, bytes, order) and the names of
    the sum-ignored files in front of each of them. *)
Lemma detect_wf_lemma d d' :
  names_wf d = true -> names_wf d' = true -> NoDup (map fst d) -> NoDup (map fst d') ->
  validate HS d' (Some (marshal HS (newhash HS d))) = VOk ->
  view d = view d' \/ collision HS (hash_inputs HS d ++ hash_inputs HS d').
Proof.
  intros W W' ND ND' V. destruct (detect_lemma HS HS_shape _ _ W W' V) as [C|C]; [left|right; exact C].
  apply covered_view_inj; assumption.
Qed.

(** the single edits of the statement, no sum-ignored files: checksum error or collision *)
Lemma single_edit_detected d d' :
  names_ok d = true -> NoDup (map fst d) -> names_wf d = true -> no_ignored d = true ->
  single_edit d d' -> names_wf d' = true -> no_ignored d' = true ->
  is_checksum_error (validate HS d' (Some (marshal HS (newhash HS d)))) \/
  collision HS (hash_inputs HS d ++ hash_inputs HS d').
Proof.
  intros OK ND W I S W' I'. apply (detect_plain_error HS HS_shape); auto.
  apply single_edit_neq; exact S.
Qed.

End Hash.
