(** M-DIR proofs, part 6: detection against an ARBITRARY tampered directory.

    [detect_lemma] needs [names_wf] of both directories.  The tampered one is
    under the attacker's control; all we know of it is what Dir.Files()
    guarantees: every name ends in ".sql" (Glob "*.sql").  This file proves
    the collision reduction under that premise only.  The price is a third,
    explicit disjunct about the ORIGINAL directory: one of its own hash
    streams contains the hash of one of its own streams ([embedded_hash]; for
    a random-looking hash this needs a file that quotes the hash of a prefix
    of the very stream it is part of). *)
From Coq Require Import List NArith Bool Arith Lia.
From Atlas Require Import Base.Bytes Base.ListX Dir.DirModel Dir.DirProofs Dir.DirDetect.
Import ListNotations.

Definition infix (a b : bytes) : Prop := exists p q, b = p ++ a ++ q.
Definition ends_sql (l : bytes) : Prop := exists l0, l = l0 ++ s_sql.

Lemma infix_trans a b c : infix a b -> infix b c -> infix a c.
Proof.
  intros [p [q ->]] [p' [q' ->]]. exists (p' ++ p), (q ++ q'). rewrite <- !app_assoc. reflexivity.
Qed.

Lemma is_sql_ends n : is_sql n = true -> ends_sql n.
Proof.
  unfold is_sql, ends_with. intros H. apply starts_with_spec in H as [r H].
  exists (rev r). apply (f_equal (@rev N)) in H. rewrite rev_involutive, rev_app_distr, rev_involutive in H.
  exact H.
Qed.

Lemma split_at_sql_ends s a b : split_at_sql s = Some (a, b) -> ends_sql a.
Proof.
  revert a b; induction s as [|c r IH]; intros a b H; [discriminate|].
  rewrite split_at_sql_cons in H. destruct (starts_with s_sql (c :: r)).
  - injection H as <- _. exists []. reflexivity.
  - destruct (split_at_sql r) as [[a' b']|] eqn:F; [|discriminate].
    injection H as <- _. destruct (IH _ _ eq_refl) as [l0 ->]. exists (c :: l0). reflexivity.
Qed.

Lemma name_wf_ends n : name_wf n = true -> ends_sql n.
Proof.
  intros H. pose proof (name_wf_split n [] H) as S. rewrite app_nil_r in S.
  eapply split_at_sql_ends; exact S.
Qed.

Lemma split_at_sql_bound a l p q : split_at_sql (a ++ s_sql ++ l) = Some (p, q) -> length p <= length a + 4.
Proof.
  revert p q; induction a as [|c a IH]; intros p q H.
  - change ([] ++ s_sql ++ l) with (s_sql ++ l) in H. rewrite (split_at_sql_app s_sql l s_sql [] eq_refl) in H.
    injection H as <- _. simpl. lia.
  - rewrite <- app_comm_cons, split_at_sql_cons in H.
    destruct (starts_with s_sql (c :: a ++ s_sql ++ l)).
    + injection H as <- _. simpl. lia.
    + destruct (split_at_sql (a ++ s_sql ++ l)) as [[p' q']|] eqn:F; [|discriminate].
      injection H as <- _. specialize (IH _ _ eq_refl). simpl. lia.
Qed.

(** L1: a wf name has nothing after its ".sql" *)
Lemma name_wf_no_inner n a l : name_wf n = true -> n = a ++ s_sql ++ l -> l = [].
Proof.
  intros W E. pose proof (name_wf_split n [] W) as S. rewrite app_nil_r in S.
  rewrite E in S at 1. apply split_at_sql_bound in S.
  rewrite E in S. rewrite !app_length in S. simpl in S.
  destruct l; [reflexivity|simpl in S; lia].
Qed.

(** L3 *)
Lemma ends_sql_ext n k : ends_sql n -> ends_sql (n ++ k) -> k <> [] -> ends_sql k.
Proof.
  intros [n0 ->] [m0 E] Ne. symmetry in E. apply app_eq_app in E as [x [[E1 E2]|[E1 E2]]].
  - exists x. exact E2.
  - (* n0 ++ s_sql = m0 ++ x, s_sql = x ++ k *)
    unfold s_sql in E2.
    destruct x as [|x1 [|x2 [|x3 [|x4 x]]]]; simpl in E2.
    + exists []. subst k. reflexivity.
    + exfalso. injection E2 as <- <-.
      change (n0 ++ s_sql) with (n0 ++ [46;115;113]%N ++ [108%N]) in E1. rewrite app_assoc in E1.
      apply app_inj_tail in E1 as [_ E1]. discriminate.
    + exfalso. injection E2 as <- <- <-.
      change (n0 ++ s_sql) with (n0 ++ [46;115;113]%N ++ [108%N]) in E1. rewrite app_assoc in E1.
      change (m0 ++ [46;115]%N) with (m0 ++ [46%N] ++ [115%N]) in E1. rewrite (app_assoc m0) in E1.
      apply app_inj_tail in E1 as [_ E1]. discriminate.
    + exfalso. injection E2 as <- <- <- <-.
      change (n0 ++ s_sql) with (n0 ++ [46;115;113]%N ++ [108%N]) in E1. rewrite app_assoc in E1.
      change (m0 ++ [46;115;113]%N) with (m0 ++ [46;115]%N ++ [113%N]) in E1. rewrite (app_assoc m0) in E1.
      apply app_inj_tail in E1 as [_ E1]. discriminate.
    + exfalso. injection E2 as _ _ _ _ E2. destruct x; [|discriminate]. simpl in E2. subst k. congruence.
Qed.

Definition no_dot (h : bytes) : Prop := Forall (fun c => c <> 46%N) h.

Lemma no_dot_app a b : no_dot (a ++ b) -> no_dot a /\ no_dot b.
Proof. apply Forall_app. Qed.

Lemma ends_sql_has_dot l : ends_sql l -> no_dot l -> False.
Proof.
  intros [l0 ->] H. apply no_dot_app in H as [_ H]. inversion H as [|? ? A _]. congruence.
Qed.

(** L4 *)
Lemma ends_sql_skip_hash k h X Y :
  ends_sql k -> no_dot h -> h ++ X = k ++ Y -> exists k2, k = h ++ k2 /\ ends_sql k2 /\ X = k2 ++ Y.
Proof.
  intros K H E. apply app_eq_app in E as [x [[E1 E2]|[E1 E2]]].
  - exfalso. subst h. apply no_dot_app in H as [H _]. exact (ends_sql_has_dot _ K H).
  - exists x. split; [exact E1|]. split; [|exact E2].
    destruct K as [k0 K]. rewrite K in E1. apply app_eq_app in E1 as [y [[F1 F2]|[F1 F2]]].
    + exists y. exact F2.
    + destruct y as [|y1 y]; [exists []; simpl in F2; rewrite F2; reflexivity|].
      exfalso. unfold s_sql in F2. simpl in F2. injection F2 as <- _.
      subst h. apply no_dot_app in H as [_ H]. inversion H as [|? ? A _]. congruence.
Qed.

Definition ewf2 (x : entry) : Prop := name_wf (fst x) = true /\ length (snd x) = 44 /\ no_dot (snd x).
Definition ewf3 (x : entry) : Prop := ends_sql (fst x) /\ length (snd x) = 44.

Lemma ends_sql_length l : ends_sql l -> 4 <= length l.
Proof. intros [l0 ->]. rewrite app_length. simpl. lia. Qed.

(** A: inside the concatenation of wf entries, 44 bytes after a ".sql" are one of the hashes *)
Lemma find_hash post l2 g R' :
  Forall ewf2 post -> ends_sql l2 -> length g = 44 ->
  cat_entries post = l2 ++ g ++ R' -> exists y, In y post /\ snd y = g.
Proof.
  intros P; revert l2. induction P as [|[n2 h2] post [W [L D]] P IH]; intros l2 K G E.
  - exfalso. apply ends_sql_length in K. apply (f_equal (@length N)) in E.
    rewrite app_length in E. simpl in E. lia.
  - rewrite cat_entries_cons in E. simpl fst in *. simpl snd in *.
    assert (SAME : h2 ++ cat_entries post = g ++ R' -> exists y, In y ((n2, h2) :: post) /\ snd y = g).
    { intros Q. destruct (app_inv_length _ _ _ _ (eq_trans L (eq_sym G)) Q) as [Q1 _].
      exists (n2, h2). split; [left; reflexivity|exact Q1]. }
    apply app_eq_app in E as [k [[E1 E2]|[E1 E2]]].
    + destruct K as [l0 K]. rewrite K, <- app_assoc in E1.
      pose proof (name_wf_no_inner _ _ _ W E1) as Z. subst k. simpl in E2. apply SAME. symmetry. exact E2.
    + destruct k as [|k1 k].
      { simpl in E2. apply SAME. exact E2. }
      assert (K2 : ends_sql (k1 :: k)).
      { apply (ends_sql_ext n2); [apply name_wf_ends; exact W|rewrite <- E1; exact K|discriminate]. }
      destruct (ends_sql_skip_hash _ _ _ _ K2 D E2) as [k2 [F1 [F2 F3]]].
      destruct (IH k2 F2 G F3) as [y [Y1 Y2]]. exists y. split; [right; exact Y1|exact Y2].
Qed.

(** B: equal concatenations, left side wf, right side names only end in ".sql" *)
Lemma cat_entries_glob e e' :
  Forall ewf2 e -> Forall ewf3 e' -> cat_entries e = cat_entries e' ->
  e = e' \/
  exists x x' y, In x e /\ In x' e' /\ In y e /\ snd x' = snd y /\ infix (snd x) (fst x').
Proof.
  intros P; revert e'. induction P as [|[n h] R [W [L D]] P IH]; intros e' P' E.
  - destruct P' as [|[m g] R' [K G] P']; [left; reflexivity|].
    exfalso. rewrite cat_entries_cons in E. simpl in K. apply ends_sql_length in K.
    apply (f_equal (@length N)) in E. rewrite app_length in E. simpl in E. lia.
  - destruct P' as [|[m g] R' [K G] P'].
    { exfalso. rewrite cat_entries_cons in E. simpl in W. apply name_wf_ends, ends_sql_length in W.
      apply (f_equal (@length N)) in E. rewrite app_length in E. simpl in E. lia. }
    rewrite !cat_entries_cons in E. simpl fst in *. simpl snd in *.
    assert (SAME : n = m -> h ++ cat_entries R = g ++ cat_entries R' ->
                   (n, h) :: R = (m, g) :: R' \/
                   exists x x' y, In x ((n, h) :: R) /\ In x' ((m, g) :: R') /\ In y ((n, h) :: R) /\
                                  snd x' = snd y /\ infix (snd x) (fst x')).
    { intros -> Q. destruct (app_inv_length _ _ _ _ (eq_trans L (eq_sym G)) Q) as [Q1 Q2]. subst g.
      destruct (IH _ P' Q2) as [->|[x [x' [y [A [B [C F]]]]]]]; [left; reflexivity|].
      right. exists x, x', y. repeat split; try (right; assumption); tauto. }
    apply app_eq_app in E as [k [[E1 E2]|[E1 E2]]].
    + destruct K as [m0 K]. rewrite K, <- app_assoc in E1.
      pose proof (name_wf_no_inner _ _ _ W E1) as Z. subst k. rewrite app_nil_r in E1.
      apply SAME; [rewrite K; exact E1|simpl in E2; symmetry; exact E2].
    + destruct k as [|k1 k].
      { rewrite app_nil_r in E1. apply SAME; [symmetry; exact E1|exact E2]. }
      assert (K2 : ends_sql (k1 :: k)).
      { apply (ends_sql_ext n); [apply name_wf_ends; exact W|rewrite <- E1; exact K|discriminate]. }
      destruct (ends_sql_skip_hash _ _ _ _ K2 D E2) as [k2 [F1 [F2 F3]]].
      destruct (find_hash R k2 g (cat_entries R') P F2 G F3) as [y [Y1 Y2]].
      right. exists (n, h), (m, g), y. repeat split.
      * left; reflexivity.
      * left; reflexivity.
      * right; exact Y1.
      * symmetry; exact Y2.
      * simpl. exists n, k2. rewrite E1, F1. reflexivity.
Qed.

Definition all_sql (d : list file) : bool := forallb (fun f => is_sql (fst f)) d.

(** declarative reading of the two decidable name predicates *)
Lemma split_at_sql_complete p l : split_at_sql (p ++ s_sql ++ l) <> None.
Proof.
  induction p as [|c p IH].
  - change ([] ++ s_sql ++ l) with (s_sql ++ l).
    rewrite (split_at_sql_app s_sql l s_sql [] eq_refl). discriminate.
  - rewrite <- app_comm_cons, split_at_sql_cons.
    destruct (starts_with s_sql (c :: p ++ s_sql ++ l)); [discriminate|].
    destruct (split_at_sql (p ++ s_sql ++ l)) as [[a b]|]; [discriminate|congruence].
Qed.

Lemma name_wf_spec n :
  name_wf n = true <->
  (exists p, n = p ++ s_sql) /\ (forall a b, n = a ++ s_sql ++ b -> b = []).
Proof.
  split.
  - intros W. split; [exact (name_wf_ends n W)|]. intros a b E. exact (name_wf_no_inner n a b W E).
  - intros [[p E] U]. unfold name_wf.
    destruct (split_at_sql n) as [[a b]|] eqn:S.
    + destruct (split_at_sql_sound _ _ _ S) as [S1 _].
      destruct (split_at_sql_ends _ _ _ S) as [a0 A]. rewrite A, <- app_assoc in S1.
      rewrite (U _ _ S1). reflexivity.
    + exfalso. rewrite E in S. rewrite <- (app_nil_r s_sql) in S.
      exact (split_at_sql_complete p [] S).
Qed.

Lemma all_sql_spec d : all_sql d = true <-> forall f, In f d -> exists p, fst f = p ++ s_sql.
Proof.
  unfold all_sql. rewrite forallb_forall. split; intros H f F.
  - apply is_sql_ends. apply H; exact F.
  - destruct (H f F) as [p E]. unfold is_sql, ends_with. rewrite E, rev_app_distr. apply starts_with_app.
Qed.

Section Hash.
Variable HS : bytes -> bytes.
Hypothesis HS_shape : forall x, hash_ok (HS x).

(** the original directory quotes the hash of one of its own streams inside one of its streams *)
Definition embedded_hash (d : list file) : Prop :=
  exists s t, In s (streams d) /\ In t (streams d) /\ infix (HS s) t.

Lemma entry_stream acc fs x :
  In x (newhash_from HS acc fs) ->
  exists s, In s (streams_from acc fs) /\ snd x = HS s /\ infix (fst x) s.
Proof.
  revert acc; induction fs as [|[n c] r IH]; intros acc H; simpl in *; [contradiction|].
  destruct (sum_ignored c); [apply IH; exact H|].
  destruct H as [<-|H].
  - exists ((acc ++ n) ++ c). split; [left; reflexivity|]. split; [reflexivity|].
    exists acc, c. simpl. rewrite <- app_assoc. reflexivity.
  - destruct (IH _ H) as [s [A B]]. exists s. split; [right; exact A|exact B].
Qed.

Lemma hash_no_dot x : no_dot (HS x).
Proof.
  pose proof (hash_ok_forall _ (HS_shape x)) as F. unfold no_dot.
  eapply Forall_impl; [|exact F]. intros c Hc. apply b64_cases in Hc. tauto.
Qed.

Lemma newhash_ewf2 d : names_wf d = true -> Forall ewf2 (newhash HS d).
Proof.
  intros H. apply Forall_forall. intros x Hx.
  apply (newhash_from_names HS) in Hx as [A [y B]]. split; [|split].
  - apply in_map_iff in A as [f [E F]]. unfold names_wf in H. rewrite forallb_forall in H.
    rewrite <- E. apply H; exact F.
  - rewrite B. apply HS_shape.
  - rewrite B. apply hash_no_dot.
Qed.

Lemma newhash_ewf3 d : all_sql d = true -> Forall ewf3 (newhash HS d).
Proof.
  intros H. apply Forall_forall. intros x Hx.
  apply (newhash_from_names HS) in Hx as [A [y B]]. split.
  - apply in_map_iff in A as [f [E F]]. unfold all_sql in H. rewrite forallb_forall in H.
    rewrite <- E. apply is_sql_ends. apply H; exact F.
  - rewrite B. apply HS_shape.
Qed.

(** equal entry lists: equal covered streams or a collision (tail of [detect_lemma]) *)
Lemma entries_eq_covered d d' :
  newhash HS d = newhash HS d' ->
  covered d = covered d' \/ collision HS (hash_inputs HS d ++ hash_inputs HS d').
Proof.
  intros Q.
  pose proof (f_equal (map fst) Q) as QN. pose proof (f_equal (map snd) Q) as QH.
  unfold newhash in QN, QH. rewrite !newhash_names in QN. rewrite !newhash_hashes in QH.
  rewrite !streams_covered0 in QH.
  destruct (cumul_hash_eq _ _ _ _ QH) as [S|C].
  - left. apply map_fst_snd_eq; [|exact S]. unfold covered. rewrite !covered_names. exact QN.
  - right. eapply collision_incl; [|exact C].
    unfold hash_inputs, streams. intros z Hz.
    rewrite !streams_covered0.
    apply in_app_iff in Hz as [Hz|Hz]; apply in_app_iff; [left|right]; right; exact Hz.
Qed.

(** *** detection against every directory Dir.Files() can return *)
Lemma detect_glob_lemma d d' :
  names_wf d = true -> all_sql d' = true ->
  validate HS d' (Some (marshal HS (newhash HS d))) = VOk ->
  covered d = covered d' \/
  collision HS (hash_inputs HS d ++ hash_inputs HS d') \/
  embedded_hash d.
Proof.
  intros W S V. apply (validate_ok_header HS HS_shape) in V. unfold hf_sum in V.
  destruct (bytes_eq_dec (cat_entries (newhash HS d)) (cat_entries (newhash HS d'))) as [Q|Q].
  2:{ right. left. exists (cat_entries (newhash HS d)), (cat_entries (newhash HS d')).
      repeat split; try assumption.
      - apply in_app_iff. left. left. reflexivity.
      - apply in_app_iff. right. left. reflexivity. }
  destruct (cat_entries_glob _ _ (newhash_ewf2 d W) (newhash_ewf3 d' S) Q)
    as [E|[x [x' [y [X [X' [Y [E I]]]]]]]].
  - destruct (entries_eq_covered _ _ E) as [C|C]; auto.
  - apply entry_stream in X as [s [S1 [S2 _]]].
    apply entry_stream in X' as [s' [S1' [S2' S3']]].
    apply entry_stream in Y as [t [T1 [T2 _]]].
    rewrite S2' , T2 in E. rewrite S2 in I.
    destruct (bytes_eq_dec s' t) as [ST|ST].
    + right. right. exists s, t. repeat split; try assumption.
      subst t. eapply infix_trans; eassumption.
    + right. left. exists s', t. repeat split; try assumption.
      * apply in_app_iff. right. right. exact S1'.
      * apply in_app_iff. left. right. exact T1.
Qed.

End Hash.

(** [embedded_hash] is decidable for the directory at hand *)
Fixpoint infixb (a b : bytes) : bool :=
  starts_with a b || match b with [] => false | _ :: r => infixb a r end.

Lemma infixb_unfold a b :
  infixb a b = starts_with a b || match b with [] => false | _ :: r => infixb a r end.
Proof. destruct b; reflexivity. Qed.

Lemma infixb_spec a b : infixb a b = true <-> infix a b.
Proof.
  split.
  - induction b as [|x b IH]; simpl; intros H.
    + rewrite orb_false_r in H. apply starts_with_spec in H as [r H]. exists [], r. exact H.
    + apply orb_true_iff in H as [H|H].
      * apply starts_with_spec in H as [r H]. exists [], r. exact H.
      * destruct (IH H) as [p [q E]]. exists (x :: p), q. rewrite E. reflexivity.
  - intros [p [q E]]. subst b. induction p as [|x p IH].
    + rewrite infixb_unfold. change ([] ++ a ++ q) with (a ++ q). rewrite starts_with_app. reflexivity.
    + change (infixb a ((x :: p) ++ a ++ q))
        with (starts_with a (x :: (p ++ a ++ q)) || infixb a (p ++ a ++ q)).
      rewrite IH. apply orb_true_r.
Qed.

Definition embedded_hashb (HS : bytes -> bytes) (d : list file) : bool :=
  existsb (fun s => existsb (fun t => infixb (HS s) t) (streams d)) (streams d).

Lemma embedded_hashb_spec HS d : embedded_hashb HS d = true <-> embedded_hash HS d.
Proof.
  unfold embedded_hashb, embedded_hash. rewrite existsb_exists. split.
  - intros [s [S H]]. apply existsb_exists in H as [t [T H]]. exists s, t. rewrite <- infixb_spec. auto.
  - intros [s [t [S [T H]]]]. exists s. split; [exact S|]. apply existsb_exists. exists t.
    rewrite infixb_spec. auto.
Qed.
