(** M-DIR proofs, part 7: the exact set of directories that validate against
    the sum of a directory WITHOUT sum-ignored files, when the tampered
    directory is anything Dir.Files() can return (names end in ".sql",
    strictly increasing; its files may carry the sum-ignore directive):
    only [d ++ t] with every file of [t] sum-ignored -- or a collision, or the
    original quotes one of its own stream hashes.  Together with
    [trailing_ignored_added] (the converse) this is an exact characterisation. *)
From Coq Require Import List NArith Bool Arith Lia.
From Atlas Require Import Base.Bytes Base.ListX Dir.DirModel Dir.DirProofs Dir.DirDetect Dir.DirEdits
  Dir.DirGlob Dir.DirRefuted Dir.DirWriters.
Import ListNotations.

Lemma bytes_ltb_prefix n k : k <> [] -> bytes_ltb n (n ++ k) = true.
Proof.
  intros Hk. unfold bytes_ltb. induction n as [|x n IH]; simpl.
  - destruct k; [congruence|reflexivity].
  - rewrite N.compare_refl. exact IH.
Qed.

Lemma bytes_ltb_asym a b : bytes_ltb a b = true -> bytes_ltb b a = false.
Proof.
  unfold bytes_ltb. rewrite (bytes_compare_antisym a b). destruct (bytes_compare a b); simpl; congruence.
Qed.

(** a pending sum-ignored name in front of a hashed file of a plain wf original: impossible *)
Lemma pending_name_absurd q rest n c :
  ends_sql q -> name_wf n = true -> bytes_ltb q n = true -> n ++ c = q ++ rest -> False.
Proof.
  intros [q0 Q] W L E. apply app_eq_app in E as [k [[E1 E2]|[E1 E2]]].
  - rewrite Q, <- app_assoc in E1. pose proof (name_wf_no_inner _ _ _ W E1) as Z. subst k.
    rewrite app_nil_r in E1. rewrite <- Q in E1. rewrite E1 in L. rewrite bytes_ltb_irrefl in L. discriminate.
  - destruct k as [|k1 k].
    + rewrite app_nil_r in E1. rewrite E1 in L. rewrite bytes_ltb_irrefl in L. discriminate.
    + rewrite E1 in L. rewrite (bytes_ltb_asym _ _ (bytes_ltb_prefix n (k1 :: k) ltac:(discriminate))) in L. discriminate.
Qed.

Lemma plain_exact_lemma d' : forall (pn : list bytes) (d : list file),
  Forall ends_sql pn ->
  (forall q f, In q pn -> In f d' -> bytes_ltb q (fst f) = true) ->
  all_sql d' = true -> sorted_strict d' = true ->
  names_wf d = true ->
  covered_from (concat pn) d' = map (fun f => (fst f, fst f ++ snd f)) d ->
  (pn = [] -> exists t, d' = d ++ t /\ all_ignored t = true) /\
  (pn <> [] -> d = [] /\ all_ignored d' = true).
Proof.
  induction d' as [|[m c'] r IH]; intros pn d P LT S O W E.
  - simpl in E. destruct d; [|discriminate]. split; intros _.
    + exists []. split; reflexivity.
    + split; reflexivity.
  - simpl in S, O, E. apply andb_true_iff in S as [S1 S2]. apply andb_true_iff in O as [O1 O2].
    rewrite forallb_forall in O1.
    destruct (sum_ignored c') eqn:I.
    + (* sum-ignored: its name joins the pending ones *)
      assert (E' : covered_from (concat (pn ++ [m])) r = map (fun f => (fst f, fst f ++ snd f)) d).
      { rewrite concat_app. simpl. rewrite app_nil_r. exact E. }
      assert (P' : Forall ends_sql (pn ++ [m])).
      { apply Forall_app; split; [exact P|]. constructor; [apply is_sql_ends; exact S1|constructor]. }
      assert (LT' : forall q f, In q (pn ++ [m]) -> In f r -> bytes_ltb q (fst f) = true).
      { intros q f Hq Hf. apply in_app_iff in Hq as [Hq|[<-|[]]].
        - apply LT; [exact Hq|right; exact Hf].
        - apply (O1 f Hf). }
      destruct (IH (pn ++ [m]) d P' LT' S2 O2 W E') as [_ B].
      assert (NE : pn ++ [m] <> []) by (destruct pn; discriminate).
      destruct (B NE) as [-> A].
      split; intros _.
      * exists ((m, c') :: r). split; [reflexivity|]. simpl. rewrite I, A. reflexivity.
      * split; [reflexivity|]. simpl. rewrite I, A. reflexivity.
    + (* hashed *)
      destruct d as [|[n c] d0]; [discriminate|]. simpl in E, W.
      apply andb_true_iff in W as [W1 W2].
      injection E as E1 E2 E3. subst m.
      destruct pn as [|q pn'].
      * simpl in E2. apply app_inv_head in E2. subst c'.
        assert (LT0 : forall q f, In q (@nil bytes) -> In f r -> bytes_ltb q (fst f) = true) by (intros q f []).
        destruct (IH [] d0 (Forall_nil _) LT0 S2 O2 W2 E3) as [A _].
        destruct (A eq_refl) as [t [T1 T2]]. split; [|congruence].
        intros _. exists t. split; [rewrite T1; reflexivity|exact T2].
      * exfalso. simpl in E2. rewrite <- !app_assoc in E2.
        inversion P as [|? ? Pq _]; subst.
        apply (pending_name_absurd q (concat pn' ++ n ++ c') n c); auto.
        apply (LT q (n, c')); left; reflexivity.
Qed.

Section Hash.
Variable HS : bytes -> bytes.
Hypothesis HS_shape : forall x, hash_ok (HS x).

Lemma detect_plain_exact_lemma d d' :
  names_wf d = true -> no_ignored d = true ->
  all_sql d' = true -> sorted_strict d' = true ->
  validate HS d' (Some (marshal HS (newhash HS d))) = VOk ->
  (exists t, d' = d ++ t /\ all_ignored t = true) \/
  collision HS (hash_inputs HS d ++ hash_inputs HS d') \/
  embedded_hash HS d.
Proof.
  intros W I S O V.
  destruct (detect_glob_lemma HS HS_shape d d' W S V) as [C|[C|C]]; [left|right; left; exact C|right; right; exact C].
  rewrite (covered_plain _ I) in C. symmetry in C.
  assert (LT0 : forall q f, In q (@nil bytes) -> In f d' -> bytes_ltb q (fst f) = true) by (intros q f []).
  destruct (plain_exact_lemma d' [] d (Forall_nil _) LT0 S O W C) as [A _].
  exact (A eq_refl).
Qed.

(** as the property words it: anything else is refused with a *ChecksumError *)
Lemma detect_plain_exact_error d d' :
  names_ok d = true -> NoDup (map fst d) -> names_wf d = true -> no_ignored d = true ->
  all_sql d' = true -> sorted_strict d' = true ->
  (forall t, all_ignored t = true -> d' <> d ++ t) ->
  is_checksum_error (validate HS d' (Some (marshal HS (newhash HS d)))) \/
  collision HS (hash_inputs HS d ++ hash_inputs HS d') \/
  embedded_hash HS d.
Proof.
  intros OK ND W I S O Ne.
  destruct (validate_outcome HS HS_shape d d' OK ND) as [V|V]; [|left; exact V].
  destruct (detect_plain_exact_lemma d d' W I S O V) as [[t [T1 T2]]|C]; [|right; exact C].
  exfalso. exact (Ne t T2 T1).
Qed.

End Hash.
