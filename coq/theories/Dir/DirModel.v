(** M-DIR: executable model of the directory-integrity code of
    sql/migrate/dir.go and of the writers of sql/migrate/migrate.go
    (function names kept; file:function noted at each definition).

    - a directory is what [Dir.Files()] returns: a list of (name, content)
      byte strings; a *store* is the whole map name -> content behind it
      (MemDir.fs / the files of a LocalDir), including atlas.sum;
    - [HS] stands for base64(sha256(.)) and is a section variable: nothing is
      assumed of it in this file;
    - the Go panic of [Validate] (index out of range) is the outcome [VPanic];
    - regexp, bufio.Scanner (ScanLines), strings.TrimSpace/LastIndex/
      TrimPrefix are re-modelled at byte level and compared with Go on every
      check run;
    - not modelled: bufio.Scanner's 64 KiB token limit (lines that long do
      not occur: a name is at most a few hundred bytes), I/O errors, error
      texts.

    This file contains no proofs. *)
From Coq Require Import List NArith Bool Arith.
From Atlas Require Import Base.Bytes.
Import ListNotations.

Definition file := (bytes * bytes)%type.   (* File.Name(), File.Bytes() *)
Definition entry := (bytes * bytes)%type.  (* HashFile element: N, H *)

(** ** byte-string constants *)
Definition s_atlas  : bytes := [97;116;108;97;115;58]%N.            (* "atlas:" *)
Definition s_sum    : bytes := [115;117;109]%N.                       (* "sum" *)
Definition s_ignore : bytes := [105;103;110;111;114;101]%N.           (* "ignore" *)
Definition s_h1     : bytes := [104;49;58]%N.                         (* "h1:" *)
Definition s_sp_h1  : bytes := [32;104;49;58]%N.                      (* " h1:" *)
Definition s_sql    : bytes := [46;115;113;108]%N.                    (* ".sql" *)
Definition s_atlas_sum : bytes := [97;116;108;97;115;46;115;117;109]%N. (* "atlas.sum" = HashFileName *)
Definition s_checkpoint : bytes := [99;104;101;99;107;112;111;105;110;116]%N. (* "checkpoint" *)
Definition s_dash_atlas : bytes := [45;45;32;97;116;108;97;115;58]%N. (* "-- atlas:" *)
Definition s_hash   : bytes := [35]%N.                                (* "#" *)
Definition s_dashes : bytes := [45;45]%N.                             (* "--" *)
Definition NL : N := 10%N.
Definition CR : N := 13%N.
Definition SP : N := 32%N.

(** ** small string functions *)
Fixpoint starts_with (p s : bytes) : bool :=       (* strings.HasPrefix(s, p) *)
  match p, s with
  | [], _ => true
  | x :: p', y :: s' => N.eqb x y && starts_with p' s'
  | _ :: _, [] => false
  end.

Definition trim_prefix (p s : bytes) : bytes :=     (* strings.TrimPrefix(s, p) *)
  if starts_with p s then skipn (length p) s else s.

Definition ends_with (p s : bytes) : bool := starts_with (rev p) (rev s).

Fixpoint take_while (f : N -> bool) (s : bytes) : bytes :=
  match s with
  | [] => []
  | c :: r => if f c then c :: take_while f r else []
  end.

Fixpoint drop_while (f : N -> bool) (s : bytes) : bytes :=
  match s with
  | [] => []
  | c :: r => if f c then drop_while f r else s
  end.

Definition in_range (lo hi c : N) : bool := N.leb lo c && N.leb c hi.

(** ** strings.TrimSpace (UTF-8 aware: unicode.IsSpace)
    White_Space runes and their encodings: U+0009..000D, U+0020 (one byte);
    U+0085 = C2 85, U+00A0 = C2 A0; U+1680 = E1 9A 80; U+2000..200A = E2 80
    80..8A; U+2028/2029 = E2 80 A8/A9; U+202F = E2 80 AF; U+205F = E2 81 9F;
    U+3000 = E3 80 80.  A rune decoded at the start (DecodeRuneInString) or at
    the end (DecodeLastRuneInString) of a string is one of them exactly when
    the string starts / ends with one of these sequences. *)
Definition ascii_space (c : N) : bool := in_range 9 13 c || N.eqb c 32.

Definition space2 (a b : N) : bool :=                (* two-byte white space a b *)
  N.eqb a 194 && (N.eqb b 133 || N.eqb b 160).

Definition space3 (a b c : N) : bool :=              (* three-byte white space a b c *)
  (N.eqb a 225 && N.eqb b 154 && N.eqb c 128)
  || (N.eqb a 226 && N.eqb b 128 && (in_range 128 138 c || N.eqb c 168 || N.eqb c 169 || N.eqb c 175))
  || (N.eqb a 226 && N.eqb b 129 && N.eqb c 159)
  || (N.eqb a 227 && N.eqb b 128 && N.eqb c 128).

Fixpoint trim_left (s : bytes) : bytes :=            (* strings.TrimLeftFunc(s, unicode.IsSpace) *)
  match s with
  | [] => []
  | a :: r =>
      if ascii_space a then trim_left r else
      match r with
      | [] => s
      | b :: r' =>
          if space2 a b then trim_left r' else
          match r' with
          | [] => s
          | c :: r'' => if space3 a b c then trim_left r'' else s
          end
      end
  end.

(** The same on the reversed string (the last byte comes first). *)
Fixpoint trim_left_rev (s : bytes) : bytes :=
  match s with
  | [] => []
  | a :: r =>
      if ascii_space a then trim_left_rev r else
      match r with
      | [] => s
      | b :: r' =>
          if space2 b a then trim_left_rev r' else
          match r' with
          | [] => s
          | c :: r'' => if space3 c b a then trim_left_rev r'' else s
          end
      end
  end.

Definition trim_right (s : bytes) : bytes := rev (trim_left_rev (rev s)).
Definition trim_space (s : bytes) : bytes := trim_right (trim_left s).   (* strings.TrimSpace *)

(** ** dir.go: reDirective and directive().  The pattern is
      ^ ( [ -~]* ) atlas: ( \w+ ) (?: SP+ ( [ -~]* ) )*        (written here with blanks; SP = one blank)
    Go's regexp has leftmost-first (Perl) semantics.  The match starts at
    byte 0 and stays inside the maximal prefix of printable bytes (none of the
    atoms matches anything else).  Group 1 is greedy, and everything after
    group 2 is optional, so group 1 ends at the LAST position of that prefix
    where "atlas:" followed by a word byte starts; group 2 is the maximal word
    run; if a blank follows, the first iteration of the starred group eats all
    blanks and group 3 takes the whole rest of the printable prefix (a second
    iteration cannot start); otherwise group 3 is unset (""). *)
Definition printable (c : N) : bool := in_range 32 126 c.
Definition word (c : N) : bool :=
  in_range 48 57 c || in_range 65 90 c || in_range 97 122 c || N.eqb c 95.
Definition is_sp (c : N) : bool := N.eqb c 32.

Definition atlas_here (s : bytes) : bool :=
  starts_with s_atlas s && match skipn 6 s with c :: _ => word c | [] => false end.

Fixpoint re_group1 (p : bytes) : option (bytes * bytes) :=
  match p with
  | [] => None
  | c :: r =>
      match re_group1 r with
      | Some (g1, rest) => Some (c :: g1, rest)
      | None => if atlas_here p then Some ([], skipn 6 p) else None
      end
  end.

(** FindStringSubmatch: [Some (m1, m2, m3)] or [None]. *)
Definition re_directive (content : bytes) : option (bytes * bytes * bytes) :=
  match re_group1 (take_while printable content) with
  | None => None
  | Some (g1, rest) =>
      let after := drop_while word rest in
      let g3 := match after with
                | c :: _ => if is_sp c then drop_while is_sp after else []
                | [] => []
                end in
      Some (g1, take_while word rest, g3)
  end.

(** dir.go:directive(content, name, prefix...) *)
Definition directive (content name : bytes) (prefix : option bytes) : option bytes :=
  match re_directive content with
  | Some (m1, m2, m3) =>
      if bytes_eqb m2 name && match prefix with None => true | Some p => bytes_eqb p m1 end
      then Some m3 else None
  | None => None
  end.

(** NewHashFile: [mode, ok := directive(string(f.Bytes()), directiveSum); ok && mode == sumModeIgnore] *)
Definition sum_ignored (content : bytes) : bool :=
  match directive content s_sum None with
  | Some mode => bytes_eqb mode s_ignore
  | None => false
  end.

(** ** dir.go: LocalFile.comments (only its length matters to AddDirective) *)
Definition is_comment_start (s : bytes) : bool := starts_with s_hash s || starts_with s_dashes s.

(** the final test [!HasPrefix(TrimLeft(content, " \t"), "\n") && content != ""] negated *)
Definition comments_final_ok (content : bytes) : bool :=
  match content with
  | [] => true
  | _ => match drop_while (fun c => N.eqb c 32 || N.eqb c 9) content with
         | c :: _ => N.eqb c NL
         | [] => false
         end
  end.

(** [s] is inside a comment line, [n] comments collected including this one.
    No newline left: Go appends the line, breaks with [content] still holding
    it, and the final test fails -> nil. *)
Fixpoint comments_in_line (s : bytes) (n : nat) : nat :=
  match s with
  | [] => 0
  | c :: r =>
      if N.eqb c NL then
        if is_comment_start r then comments_in_line r (S n)
        else if comments_final_ok r then n else 0
      else comments_in_line r n
  end.

Definition comments_len (content : bytes) : nat :=   (* len(f.comments()) *)
  if is_comment_start content then comments_in_line content 1 else 0.

(** dir.go: LocalFile.AddDirective(name, args...) with args = [tag] or none *)
Definition add_directive (name tag content : bytes) : bytes :=
  s_dash_atlas ++ name ++ (match tag with [] => [] | _ => SP :: tag end) ++ [NL]
  ++ (if Nat.eqb (comments_len content) 0 then [NL] else []) ++ content.

Section Hash.
Variable HS : bytes -> bytes.

(** ** dir.go: NewHashFile -- one streaming hasher: [acc] is everything
    written to it so far; a sum-ignored file contributes its name only. *)
Fixpoint newhash_from (acc : bytes) (fs : list file) : list entry :=
  match fs with
  | [] => []
  | (n, c) :: r =>
      if sum_ignored c then newhash_from (acc ++ n) r
      else (n, HS ((acc ++ n) ++ c)) :: newhash_from ((acc ++ n) ++ c) r
  end.
Definition newhash (fs : list file) : list entry := newhash_from [] fs.

(** dir.go: HashFile.Sum *)
Definition cat_entries (e : list entry) : bytes := concat (map (fun x => fst x ++ snd x) e).
Definition hf_sum (e : list entry) : bytes := HS (cat_entries e).

(** dir.go: HashFile.MarshalText: "h1:<sum>\n" then "<N> h1:<H>\n" per entry *)
Definition marshal_lines (e : list entry) : bytes :=
  concat (map (fun x => fst x ++ s_sp_h1 ++ snd x ++ [NL]) e).
Definition marshal (e : list entry) : bytes := s_h1 ++ hf_sum e ++ [NL] ++ marshal_lines e.

(** ** bufio.Scanner with ScanLines: split at '\n', the last line needs no
    terminator, an empty rest yields no token; dropCR strips one trailing '\r'. *)
Fixpoint scan_lines (b : bytes) : list bytes :=
  match b with
  | [] => []
  | c :: r =>
      if N.eqb c NL then [] :: scan_lines r
      else match scan_lines r with
           | [] => [[c]]
           | l :: ls => (c :: l) :: ls
           end
  end.

Fixpoint drop_cr (l : bytes) : bytes :=
  match l with
  | [] => []
  | c :: r => match r with
              | [] => if N.eqb c CR then [] else [c]
              | _ => c :: drop_cr r
              end
  end.

(** [i := strings.LastIndex(l, "h1:")]; [Some (l[:i], l[i+3:])] *)
Fixpoint split_last_h1 (l : bytes) : option (bytes * bytes) :=
  match l with
  | [] => None
  | c :: r =>
      match split_last_h1 r with
      | Some (a, b) => Some (c :: a, b)
      | None => if starts_with s_h1 l then Some ([], skipn 3 l) else None
      end
  end.

(** dir.go: HashFile.UnmarshalText (as fixed by 55b7d3e: last "h1:") *)
Inductive uresult := UOk (e : list entry) | UFormat | UMismatch.

Fixpoint parse_lines (ls : list bytes) : option (list entry) :=
  match ls with
  | [] => Some []
  | l :: r =>
      match split_last_h1 l with
      | None => None                                  (* ErrChecksumFormat *)
      | Some (a, h) =>
          match parse_lines r with
          | None => None
          | Some es => Some ((trim_space a, h) :: es)
          end
      end
  end.

Definition unmarshal (b : bytes) : uresult :=
  let ls := map drop_cr (scan_lines b) in
  let sum := match ls with [] => [] | l :: _ => trim_prefix s_h1 l end in
  match parse_lines (tl ls) with
  | None => UFormat
  | Some es => if bytes_eqb sum (hf_sum es) then UOk es else UMismatch
  end.

(** ** dir.go: Validate *)
Inductive reason := Added | Edited | Removed.
Inductive vresult :=
| VOk
| VNotFound                                   (* ErrChecksumNotFound *)
| VFormat                                     (* ErrChecksumFormat (from UnmarshalText) *)
| VMismatch                                   (* ErrChecksumMismatch (from UnmarshalText) *)
| VChecksum (line total pos : nat) (f : bytes) (r : reason)   (* *ChecksumError *)
| VPanic.                                     (* index out of range *)

Definition entry_eqb (a b : entry) : bool := bytes_eqb (fst a) (fst b) && bytes_eqb (snd a) (snd b).

Fixpoint index_name (ex : list entry) (n : bytes) (i : nat) : option nat :=   (* slices.IndexFunc *)
  match ex with
  | [] => None
  | e :: r => if bytes_eqb (fst e) n then Some i else index_name r n (S i)
  end.

(** the classification of the first mismatching line [h] = ac[i] *)
Definition classify (ex : list entry) (h : entry) (i pos total : nat) : vresult :=
  match index_name ex (fst h) 0 with
  | None => VChecksum (i + 2) total pos (fst h) Removed
  | Some idx =>
      if Nat.eqb idx i then VChecksum (i + 2) total pos (fst h) Edited
      else match nth_error ex i with
           | Some e => VChecksum (i + 2) total pos (fst e) Added
           | None => VPanic                                    (* ex[i] out of range *)
           end
  end.

(** [for i, h := range ac] *)
Fixpoint validate_loop (ex ac : list entry) (i pos total : nat) : vresult :=
  match ac with
  | [] =>
      match nth_error ex total with
      | Some e => VChecksum (total + 2) total pos (fst e) Added
      | None => VPanic                                         (* ex[err.Total] out of range *)
      end
  | h :: r =>
      match nth_error ex i with
      | Some e =>
          if entry_eqb e h then validate_loop ex r (S i) (pos + (length (fst h) + 1 + 47 + 1)) total
          else classify ex h i pos total
      | None => classify ex h i pos total
      end
  end.

Definition validate_hf (ac ex : list entry) : vresult :=
  if bytes_eqb (hf_sum ac) (hf_sum ex) then VOk
  else validate_loop ex ac 0 48 (length ac).

(** [files] = dir.Files(); [sumfile] = the bytes of atlas.sum, [None] if absent *)
Definition validate (files : list file) (sumfile : option bytes) : vresult :=
  match sumfile with
  | None => match files with [] => VOk | _ => VNotFound end
  | Some b =>
      match unmarshal b with
      | UFormat => VFormat
      | UMismatch => VMismatch
      | UOk ac => validate_hf ac (newhash files)
      end
  end.

(** ** stores: MemDir.fs / a local directory *)
Definition store := list (bytes * bytes).

Fixpoint store_get (st : store) (n : bytes) : option bytes :=
  match st with
  | [] => None
  | (m, c) :: r => if bytes_eqb m n then Some c else store_get r n
  end.

Fixpoint store_put (st : store) (n c : bytes) : store :=      (* Dir.WriteFile *)
  match st with
  | [] => [(n, c)]
  | (m, d) :: r => if bytes_eqb m n then (n, c) :: r else (m, d) :: store_put r n c
  end.

Definition is_sql (n : bytes) : bool := ends_with s_sql n.    (* filepath.Ext(n) == ".sql" / Glob "*.sql" *)

Fixpoint insert_file (f : file) (l : list file) : list file :=
  match l with
  | [] => [f]
  | g :: r => if bytes_ltb (fst f) (fst g) then f :: l else g :: insert_file f r
  end.

Fixpoint sort_files (l : list file) : list file :=
  match l with
  | [] => []
  | f :: r => insert_file f (sort_files r)
  end.

(** MemDir.Files / LocalDir.Files: the *.sql files ordered by name *)
Definition files_of (st : store) : list file :=
  sort_files (filter (fun f => is_sql (fst f)) st).

Definition validate_store (st : store) : vresult :=
  validate (files_of st) (store_get st s_atlas_sum).

(** ** writers (migrate.go: Planner.WritePlan, WriteCheckpoint, writeSum; dir.go: MemDir.CopyFiles) *)
Definition write_files (st : store) (fs : list file) : store :=
  fold_left (fun s f => store_put s (fst f) (snd f)) fs st.

(** Planner.writeSum with p.sum = true: WriteSumFile(dir, dir.Checksum()) *)
Definition write_sum (st : store) : store :=
  store_put st s_atlas_sum (marshal (newhash (files_of st))).

Inductive op :=
| OpWritePlan (fs : list file)               (* the Formatter's files *)
| OpWriteCheckpoint (n tag c : bytes)        (* the single formatted file and the tag *)
| OpCopyFiles (fs : list file).              (* MemDir.CopyFiles: the sum is NewHashFile(fs), not of the directory *)

Definition apply_op (st : store) (o : op) : store :=
  match o with
  | OpWritePlan fs => write_sum (write_files st fs)
  | OpWriteCheckpoint n tag c => write_sum (store_put st n (add_directive s_checkpoint tag c))
  | OpCopyFiles fs => store_put (write_files st fs) s_atlas_sum (marshal (newhash fs))
  end.

(** the stores after each op *)
Fixpoint run_ops (st : store) (ops : list op) : list store :=
  match ops with
  | [] => []
  | o :: r => let st' := apply_op st o in st' :: run_ops st' r
  end.

End Hash.
