(** M-DIR proofs, round 5: the *ChecksumError reported for a content edit of a
    hashed file in a directory that also holds sum-ignored files (anywhere). *)
From Coq Require Import List NArith Bool Arith Lia.
From Atlas Require Import Base.Bytes Base.ListX Dir.DirModel Dir.DirProofs Dir.DirDetect Dir.DirReason.
Import ListNotations.

(** the bytes a list of files feeds to the streaming hasher *)
Fixpoint fed (a : list file) : bytes :=
  match a with
  | [] => []
  | (n, c) :: r => n ++ (if sum_ignored c then [] else c) ++ fed r
  end.

Section Hash.
Variable HS : bytes -> bytes.
Hypothesis HS_shape : forall x, hash_ok (HS x).

Lemma newhash_from_app acc a b :
  newhash_from HS acc (a ++ b) = newhash_from HS acc a ++ newhash_from HS (acc ++ fed a) b.
Proof.
  revert acc; induction a as [|[n c] a IH]; intros acc; simpl.
  - rewrite app_nil_r. reflexivity.
  - destruct (sum_ignored c); simpl.
    + rewrite IH, <- app_assoc. reflexivity.
    + f_equal. rewrite IH. f_equal. f_equal. rewrite <- !app_assoc. reflexivity.
Qed.

Lemma streams_from_app acc a b :
  streams_from acc (a ++ b) = streams_from acc a ++ streams_from (acc ++ fed a) b.
Proof.
  revert acc; induction a as [|[n c] a IH]; intros acc; simpl.
  - rewrite app_nil_r. reflexivity.
  - destruct (sum_ignored c); simpl.
    + rewrite IH, <- app_assoc. reflexivity.
    + f_equal. rewrite IH. f_equal. f_equal. rewrite <- !app_assoc. reflexivity.
Qed.

Lemma newhash_length acc a : length (newhash_from HS acc a) = length (hashed_names a).
Proof. rewrite <- (newhash_names HS acc a), map_length. reflexivity. Qed.

Lemma reason_edited_ign a n c c' b :
  let d := a ++ (n, c) :: b in let d' := a ++ (n, c') :: b in
  names_ok d = true -> names_wf d = true -> NoDup (map fst d) ->
  sum_ignored c = false -> sum_ignored c' = false -> c' <> c ->
  validate HS d' (Some (marshal HS (newhash HS d)))
    = VChecksum (length (hashed_names a) + 2) (length (hashed_names d))
                (48 + possum (newhash HS a)) n Edited \/
  collision HS (hash_inputs HS d ++ hash_inputs HS d').
Proof.
  intros d d' OK W ND Ic Ic' Ne.
  assert (W' : names_wf d' = true).
  { unfold d, d', names_wf in *. rewrite forallb_app in *. simpl in *. exact W. }
  set (P := newhash_from HS [] a).
  set (s := (([] ++ fed a) ++ n)).
  assert (E : newhash HS d = P ++ (n, HS (s ++ c)) :: newhash_from HS (s ++ c) b).
  { unfold newhash, d. rewrite newhash_from_app. simpl. rewrite Ic. reflexivity. }
  assert (E' : newhash HS d' = P ++ (n, HS (s ++ c')) :: newhash_from HS (s ++ c') b).
  { unfold newhash, d'. rewrite newhash_from_app. simpl. rewrite Ic'. reflexivity. }
  assert (LP : length P = length (hashed_names a)) by apply newhash_length.
  assert (NP : ~ In n (map fst P)).
  { intros A. apply (newhash_names_incl HS) in A.
    unfold d in ND. rewrite map_app in ND. simpl in ND. apply NoDup_remove_2 in ND.
    apply ND. apply in_app_iff. left. exact A. }
  assert (COL : HS (s ++ c) = HS (s ++ c') -> collision HS (hash_inputs HS d ++ hash_inputs HS d')).
  { intros Q. exists (s ++ c), (s ++ c'). repeat split; auto.
    - apply in_app_iff. left. right. unfold streams, d. rewrite streams_from_app.
      apply in_app_iff. right. simpl. rewrite Ic. left. reflexivity.
    - apply in_app_iff. right. right. unfold streams, d'. rewrite streams_from_app.
      apply in_app_iff. right. simpl. rewrite Ic'. left. reflexivity.
    - intros A. apply app_inv_head in A. congruence. }
  destruct (sums_differ HS HS_shape d d' W W') as [S|[S|S]]; [|right|right; exact S].
  2:{ rewrite E, E' in S. apply app_inv_head in S. inversion S as [[S1 S2]]. apply COL. exact S1. }
  destruct (bytes_eq_dec (HS (s ++ c)) (HS (s ++ c'))) as [Q|Q]; [right; apply COL; exact Q|].
  left. unfold validate.
  rewrite (unmarshal_marshal HS HS_shape) by (apply (newhash_entries_ok HS HS_shape); exact OK).
  rewrite E, E' in S |- *.
  rewrite (validate_hf_at HS); [|exact S|simpl; intros A; inversion A; congruence].
  rewrite classify_edited by exact NP. rewrite LP.
  assert (LT : length (P ++ (n, HS (s ++ c)) :: newhash_from HS (s ++ c) b) = length (hashed_names d)).
  { rewrite <- E. unfold newhash. apply newhash_length. }
  f_equal. exact LT.
Qed.

(** ** any edit (compound, with or without sum-ignored files): the error is
    raised at the first line of atlas.sum that the directory no longer matches *)
Lemma reason_first_difference d d' P h R R' :
  names_ok d = true ->
  newhash HS d = P ++ h :: R -> newhash HS d' = P ++ R' -> hd_error R' <> Some h ->
  validate HS d' (Some (marshal HS (newhash HS d))) = VOk \/
  validate HS d' (Some (marshal HS (newhash HS d)))
    = classify (newhash HS d') h (length P) (48 + possum P) (length (newhash HS d)).
Proof.
  intros OK E E' NH. unfold validate.
  rewrite (unmarshal_marshal HS HS_shape) by (apply (newhash_entries_ok HS HS_shape); exact OK).
  destruct (bytes_eq_dec (hf_sum HS (newhash HS d)) (hf_sum HS (newhash HS d'))) as [Q|Q].
  - left. unfold validate_hf. rewrite Q, bytes_eqb_refl. reflexivity.
  - right. rewrite E, E' in *. apply (validate_hf_at HS); assumption.
Qed.

(** every line of atlas.sum still matches and the directory has more hashed files *)
Lemma reason_trailing_added d d' x R' :
  names_ok d = true ->
  newhash HS d' = newhash HS d ++ x :: R' ->
  validate HS d' (Some (marshal HS (newhash HS d))) = VOk \/
  validate HS d' (Some (marshal HS (newhash HS d)))
    = VChecksum (length (newhash HS d) + 2) (length (newhash HS d)) (48 + possum (newhash HS d)) (fst x) Added.
Proof.
  intros OK E'. unfold validate.
  rewrite (unmarshal_marshal HS HS_shape) by (apply (newhash_entries_ok HS HS_shape); exact OK).
  destruct (bytes_eq_dec (hf_sum HS (newhash HS d)) (hf_sum HS (newhash HS d'))) as [Q|Q].
  - left. unfold validate_hf. rewrite Q, bytes_eqb_refl. reflexivity.
  - right. rewrite E' in *. apply (validate_hf_end HS). exact Q.
Qed.

End Hash.
