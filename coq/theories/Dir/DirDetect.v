(** M-DIR proofs, part 2: tamper detection as a *collision reduction*
    (C06 items 2, 3, 5) and "Validate never panics on an Atlas-written sum".

    [HS] is a section variable.  Nothing is assumed about collisions: every
    theorem concludes "detected, or here are two different byte strings with
    the same hash". *)
From Coq Require Import List NArith Bool Arith Lia.
From Atlas Require Import Base.Bytes Base.ListX Dir.DirModel Dir.DirProofs.
Import ListNotations.

(** ** names in which ".sql" occurs exactly once, as the suffix
    (every name Atlas generates: <version>_<name>.sql) *)
Fixpoint split_at_sql (s : bytes) : option (bytes * bytes) :=   (* split after the first ".sql" *)
  match s with
  | [] => None
  | c :: r =>
      if starts_with s_sql s then Some (s_sql, skipn 4 s)
      else match split_at_sql r with
           | Some (a, b) => Some (c :: a, b)
           | None => None
           end
  end.

Definition name_wf (n : bytes) : bool :=
  match split_at_sql n with Some (_, []) => true | _ => false end.

Lemma split_at_sql_cons c r :
  split_at_sql (c :: r) =
  if starts_with s_sql (c :: r) then Some (s_sql, skipn 4 (c :: r))
  else match split_at_sql r with Some (a, b) => Some (c :: a, b) | None => None end.
Proof. reflexivity. Qed.

Lemma starts_with_app_l p s r : starts_with p (s ++ r) = true -> length p <= length s -> starts_with p s = true.
Proof.
  revert s; induction p as [|x p IH]; intros s H L; [reflexivity|].
  destruct s as [|y s]; [simpl in L; lia|].
  simpl in *. apply andb_true_iff in H as [H1 H2]. rewrite H1. simpl.
  apply IH; [exact H2|lia].
Qed.

Lemma split_at_sql_sound s a b : split_at_sql s = Some (a, b) -> s = a ++ b /\ 4 <= length a.
Proof.
  revert a b; induction s as [|c r IH]; intros a b H; [discriminate|].
  rewrite split_at_sql_cons in H.
  destruct (starts_with s_sql (c :: r)) eqn:E.
  - apply starts_with_spec in E as [t E]. rewrite E in H |- *.
    change (skipn 4 (s_sql ++ t)) with t in H. injection H as <- <-.
    split; [reflexivity|simpl; lia].
  - destruct (split_at_sql r) as [[a' b']|] eqn:F; [|discriminate].
    inversion H; subst. destruct (IH _ _ eq_refl) as [-> L]. split; [reflexivity|simpl; lia].
Qed.

Lemma split_at_sql_app s r a b :
  split_at_sql s = Some (a, b) -> split_at_sql (s ++ r) = Some (a, b ++ r).
Proof.
  revert a b; induction s as [|c s IH]; intros a b H; [discriminate|].
  rewrite split_at_sql_cons in H. rewrite <- app_comm_cons, split_at_sql_cons.
  destruct (starts_with s_sql (c :: s)) eqn:E.
  - apply starts_with_spec in E as [t E]. rewrite app_comm_cons. rewrite E in H |- *.
    change (skipn 4 (s_sql ++ t)) with t in H. injection H as <- <-.
    rewrite <- app_assoc, starts_with_app. reflexivity.
  - destruct (split_at_sql s) as [[a' b']|] eqn:F; [|discriminate].
    inversion H; subst.
    destruct (starts_with s_sql (c :: s ++ r)) eqn:G.
    + exfalso. destruct (split_at_sql_sound _ _ _ F) as [S L].
      rewrite app_comm_cons in G. apply starts_with_app_l in G.
      * congruence.
      * simpl. rewrite S, app_length. simpl in L. lia.
    + rewrite (IH _ _ eq_refl). reflexivity.
Qed.

Lemma name_wf_split n r : name_wf n = true -> split_at_sql (n ++ r) = Some (n, r).
Proof.
  unfold name_wf. intros H.
  destruct (split_at_sql n) as [[a [|? ?]]|] eqn:E; try discriminate.
  destruct (split_at_sql_sound _ _ _ E) as [S _]. rewrite app_nil_r in S. subst a.
  apply (split_at_sql_app _ r) in E. exact E.
Qed.

Lemma name_wf_length n : name_wf n = true -> 4 <= length n.
Proof.
  unfold name_wf. intros H.
  destruct (split_at_sql n) as [[a [|? ?]]|] eqn:E; try discriminate.
  destruct (split_at_sql_sound _ _ _ E) as [S L]. rewrite app_nil_r in S. subst a. exact L.
Qed.

(** two wf names followed by anything: equal concatenations have equal names *)
Lemma name_wf_unique n n' r r' :
  name_wf n = true -> name_wf n' = true -> n ++ r = n' ++ r' -> n = n' /\ r = r'.
Proof.
  intros W W' E. pose proof (name_wf_split n r W) as A. pose proof (name_wf_split n' r' W') as B.
  rewrite E in A. rewrite A in B. inversion B; auto.
Qed.

(** ** unique parsing of HashFile.Sum's input  N1 H1 N2 H2 ... *)
Definition entry_wf (x : entry) : Prop := name_wf (fst x) = true /\ length (snd x) = 44.

Lemma app_inv_length {A} (a a' b b' : list A) : length a = length a' -> a ++ b = a' ++ b' -> a = a' /\ b = b'.
Proof.
  revert a'; induction a as [|x a IH]; intros [|y a'] L E; simpl in *; try discriminate; auto.
  inversion E; subst. destruct (IH a' ltac:(lia) H1) as [-> ->]. auto.
Qed.

Lemma cat_entries_cons x e : cat_entries (x :: e) = fst x ++ snd x ++ cat_entries e.
Proof. unfold cat_entries. simpl. rewrite <- app_assoc. reflexivity. Qed.

Lemma cat_entries_inj e e' :
  Forall entry_wf e -> Forall entry_wf e' -> cat_entries e = cat_entries e' -> e = e'.
Proof.
  intros He; revert e'. induction He as [|x e [Wx Lx] He IH]; intros e' He' E.
  - destruct He' as [|x' e' [Wx' Lx'] He']; [reflexivity|].
    rewrite cat_entries_cons in E. apply name_wf_length in Wx'.
    apply (f_equal (@length N)) in E. rewrite app_length in E. simpl in E. lia.
  - destruct He' as [|x' e' [Wx' Lx'] He'].
    + rewrite cat_entries_cons in E. apply name_wf_length in Wx.
      apply (f_equal (@length N)) in E. rewrite app_length in E. simpl in E. lia.
    + rewrite !cat_entries_cons in E.
      destruct (name_wf_unique _ _ _ _ Wx Wx' E) as [E1 E2].
      destruct (app_inv_length _ _ _ _ (eq_trans Lx (eq_sym Lx')) E2) as [E3 E4].
      rewrite (IH _ He' E4). destruct x, x'; simpl in *; congruence.
Qed.

(** ** the hasher's input streams and their per-entry segments *)

(** what has been written to the SHA-256 state at each [h.Sum(nil)] of NewHashFile *)
Fixpoint streams_from (acc : bytes) (fs : list file) : list bytes :=
  match fs with
  | [] => []
  | (n, c) :: r =>
      if sum_ignored c then streams_from (acc ++ n) r
      else ((acc ++ n) ++ c) :: streams_from ((acc ++ n) ++ c) r
  end.
Definition streams (d : list file) : list bytes := streams_from [] d.

Fixpoint hashed_names (fs : list file) : list bytes :=
  match fs with
  | [] => []
  | (n, c) :: r => if sum_ignored c then hashed_names r else n :: hashed_names r
  end.

(** [covered]: per hash line, the file name and the stream segment that line
    adds: names of the sum-ignored files since the previous hashed file, then
    the file's own name and content.  Trailing sum-ignored files and the
    contents of sum-ignored files are in no segment. *)
Fixpoint covered_from (pend : bytes) (fs : list file) : list (bytes * bytes) :=
  match fs with
  | [] => []
  | (n, c) :: r =>
      if sum_ignored c then covered_from (pend ++ n) r
      else (n, (pend ++ n) ++ c) :: covered_from [] r
  end.
Definition covered (d : list file) : list (bytes * bytes) := covered_from [] d.

Fixpoint cumul (acc : bytes) (segs : list bytes) : list bytes :=
  match segs with
  | [] => []
  | s :: r => (acc ++ s) :: cumul (acc ++ s) r
  end.

Lemma streams_covered acc pend fs :
  streams_from (acc ++ pend) fs = cumul acc (map snd (covered_from pend fs)).
Proof.
  revert acc pend; induction fs as [|[n c] r IH]; intros acc pend; simpl; [reflexivity|].
  destruct (sum_ignored c).
  - rewrite <- app_assoc. apply IH.
  - simpl. rewrite <- !app_assoc. f_equal.
    rewrite <- (app_nil_r (acc ++ pend ++ n ++ c)) at 1. apply IH.
Qed.

Lemma streams_covered0 d : streams_from [] d = cumul [] (map snd (covered d)).
Proof. exact (streams_covered [] [] d). Qed.

Lemma covered_names pend fs : map fst (covered_from pend fs) = hashed_names fs.
Proof.
  revert pend; induction fs as [|[n c] r IH]; intros pend; simpl; [reflexivity|].
  destruct (sum_ignored c); simpl; [apply IH|]. f_equal. apply IH.
Qed.

Lemma cumul_inj acc s s' : cumul acc s = cumul acc s' -> s = s'.
Proof.
  revert acc s'; induction s as [|x s IH]; intros acc [|y s'] E; simpl in *; try discriminate; [reflexivity|].
  inversion E as [[E1 E2]]. apply app_inv_head in E1. subst y. f_equal. eapply IH; exact E2.
Qed.

Lemma map_fst_snd_eq {A B} (l l' : list (A * B)) :
  map fst l = map fst l' -> map snd l = map snd l' -> l = l'.
Proof.
  revert l'; induction l as [|[a b] l IH]; intros [|[a' b'] l'] E1 E2; simpl in *; try discriminate; [reflexivity|].
  inversion E1; inversion E2; subst. f_equal. apply IH; assumption.
Qed.

Section Hash.
Variable HS : bytes -> bytes.

(** an *exhibited* collision among the listed hash inputs *)
Definition collision (l : list bytes) : Prop :=
  exists x y, In x l /\ In y l /\ x <> y /\ HS x = HS y.

Lemma collision_incl l l' : incl l l' -> collision l -> collision l'.
Proof. intros I [x [y [A [B C]]]]. exists x, y. auto. Qed.

(** every byte string NewHashFile and HashFile.Sum feed to the hash for [d] *)
Definition hash_inputs (d : list file) : list bytes := cat_entries (newhash HS d) :: streams d.

Lemma newhash_names acc fs : map fst (newhash_from HS acc fs) = hashed_names fs.
Proof.
  revert acc; induction fs as [|[n c] r IH]; intros acc; simpl; [reflexivity|].
  destruct (sum_ignored c); simpl; [apply IH|]. f_equal. apply IH.
Qed.

Lemma newhash_hashes acc fs : map snd (newhash_from HS acc fs) = map HS (streams_from acc fs).
Proof.
  revert acc; induction fs as [|[n c] r IH]; intros acc; simpl; [reflexivity|].
  destruct (sum_ignored c); simpl; [apply IH|]. f_equal. apply IH.
Qed.

(** equal hash lists over cumulative streams: equal segments, or a collision *)
Lemma cumul_hash_eq acc s s' :
  map HS (cumul acc s) = map HS (cumul acc s') ->
  s = s' \/ collision (cumul acc s ++ cumul acc s').
Proof.
  revert acc s'; induction s as [|x s IH]; intros acc [|y s'] E; simpl in *; try discriminate; [left; reflexivity|].
  inversion E as [[E1 E2]].
  destruct (bytes_eq_dec (acc ++ x) (acc ++ y)) as [Q|Q].
  - apply app_inv_head in Q. subst y. destruct (IH _ _ E2) as [->|C]; [left; reflexivity|].
    right. eapply collision_incl; [|exact C].
    intros z Hz. right. apply in_app_iff in Hz as [Hz|Hz]; apply in_app_iff; [left|right; right]; exact Hz.
  - right. exists (acc ++ x), (acc ++ y). repeat split; try assumption.
    + left; reflexivity.
    + right. apply in_app_iff. right. left. reflexivity.
Qed.

(** ** Validate's loop never answers "ok", and never panics on a sum file
    without duplicate names *)
Definition is_checksum_error (v : vresult) : Prop := exists l t p f r, v = VChecksum l t p f r.

Ltac cse := unfold is_checksum_error; do 5 eexists; reflexivity.

Lemma index_name_spec (ex : list entry) n k idx :
  index_name ex n k = Some idx ->
  k <= idx /\ exists e, nth_error ex (idx - k) = Some e /\ fst e = n.
Proof.
  revert k; induction ex as [|e r IH]; intros k H; simpl in H; [discriminate|].
  destruct (bytes_eqb (fst e) n) eqn:E.
  - inversion H; subst. split; [lia|]. rewrite Nat.sub_diag. exists e. split; [reflexivity|].
    apply bytes_eqb_eq; exact E.
  - destruct (IH _ H) as [L [e' [A B]]]. split; [lia|]. exists e'. split; [|exact B].
    replace (idx - k) with (S (idx - S k)) by lia. exact A.
Qed.

Lemma entry_eqb_eq a b : entry_eqb a b = true <-> a = b.
Proof.
  unfold entry_eqb. rewrite andb_true_iff, !bytes_eqb_eq. destruct a, b; simpl.
  split; [intros [-> ->]; reflexivity|intros H; inversion H; auto].
Qed.

Lemma classify_not_ok ex h i pos total : classify ex h i pos total <> VOk.
Proof.
  unfold classify. destruct (index_name ex (fst h) 0); [|discriminate].
  destruct (Nat.eqb n i); [discriminate|]. destruct (nth_error ex i); discriminate.
Qed.

Lemma validate_loop_not_ok ex ac i pos total : validate_loop ex ac i pos total <> VOk.
Proof.
  revert i pos; induction ac as [|h r IH]; intros i pos; simpl.
  - destruct (nth_error ex total); discriminate.
  - destruct (nth_error ex i) as [e|]; [|apply classify_not_ok].
    destruct (entry_eqb e h); [apply IH|apply classify_not_ok].
Qed.

Lemma validate_hf_ok ac ex : validate_hf HS ac ex = VOk <-> hf_sum HS ac = hf_sum HS ex.
Proof.
  unfold validate_hf. destruct (bytes_eqb (hf_sum HS ac) (hf_sum HS ex)) eqn:E.
  - apply bytes_eqb_eq in E. tauto.
  - apply bytes_eqb_neq in E. split; [intros H; apply validate_loop_not_ok in H; contradiction|contradiction].
Qed.

Lemma firstn_all_ge {A} (l : list A) k : length l <= k -> firstn k l = l.
Proof. intros H. apply firstn_all2. exact H. Qed.

Lemma validate_loop_checksum (ex pre ac : list entry) i pos total :
  NoDup (map fst (pre ++ ac)) -> length pre = i -> firstn i ex = pre ->
  total = length (pre ++ ac) -> pre ++ ac <> ex ->
  is_checksum_error (validate_loop ex ac i pos total).
Proof.
  revert pre i pos; induction ac as [|h r IH]; intros pre i pos ND Li Fi Tot Ne; simpl.
  - rewrite app_nil_r in *. subst total.
    destruct (nth_error ex (length pre)) as [e|] eqn:E.
    + cse.
    + exfalso. apply nth_error_None in E. apply Ne. rewrite <- Fi.
      apply firstn_all_ge. lia.
  - assert (CL : is_checksum_error (classify ex h i pos total)).
    { unfold classify. destruct (index_name ex (fst h) 0) as [idx|] eqn:IX; [|cse].
      destruct (Nat.eqb idx i) eqn:EI; [cse|].
      destruct (nth_error ex i) as [e|] eqn:E; [cse|].
      exfalso. apply nth_error_None in E.
      assert (EX : ex = pre). { rewrite <- Fi. symmetry. apply firstn_all_ge. lia. }
      destruct (index_name_spec _ _ _ _ IX) as [_ [e [A B]]]. rewrite Nat.sub_0_r in A.
      apply nth_error_In in A. rewrite EX in A.
      rewrite map_app in ND. simpl in ND. apply NoDup_remove_2 in ND. apply ND.
      apply in_app_iff. left. rewrite <- B. apply in_map. exact A. }
    destruct (nth_error ex i) as [e|] eqn:E; [|exact CL].
    destruct (entry_eqb e h) eqn:EQ; [|exact CL].
    apply entry_eqb_eq in EQ. subst e.
    apply (IH (pre ++ [h])).
    + rewrite <- app_assoc. exact ND.
    + rewrite app_length. simpl. lia.
    + rewrite (firstn_S_snoc _ _ _ E), Fi. reflexivity.
    + rewrite <- app_assoc. exact Tot.
    + rewrite <- app_assoc. exact Ne.
Qed.

(** Validate on parsed sum entries [ac] without duplicate names: ok or a
    *ChecksumError, never the index-out-of-range panic. *)
Lemma validate_hf_no_panic (ac ex : list entry) :
  NoDup (map fst ac) ->
  validate_hf HS ac ex = VOk \/ is_checksum_error (validate_hf HS ac ex).
Proof.
  intros ND. unfold validate_hf.
  destruct (bytes_eqb (hf_sum HS ac) (hf_sum HS ex)) eqn:E; [left; reflexivity|right].
  apply (validate_loop_checksum ex [] ac 0 48 (length ac)); auto.
  intros Q. simpl in Q. subst ex. rewrite bytes_eqb_refl in E. discriminate.
Qed.

Lemma validate_no_panic_lemma d s :
  (forall ac, unmarshal HS s = UOk ac -> NoDup (map fst ac)) ->
  validate HS d (Some s) <> VPanic.
Proof.
  intros H. unfold validate. destruct (unmarshal HS s) as [ac| |] eqn:U; try discriminate.
  destruct (validate_hf_no_panic ac (newhash HS d) (H ac eq_refl)) as [V|[l [t [p [f [r V]]]]]];
    rewrite V; discriminate.
Qed.

Hypothesis HS_shape : forall x, hash_ok (HS x).

(** ** step 1: header equality.  Whatever [d] was hashed (no condition on
    its names), if [d'] validates against that sum file then the two header
    sums are equal. *)
Lemma unmarshal_header e ac :
  unmarshal HS (marshal HS e) = UOk ac -> hf_sum HS ac = hf_sum HS e.
Proof.
  unfold unmarshal, marshal.
  replace (s_h1 ++ hf_sum HS e ++ [NL] ++ marshal_lines e)
    with ((s_h1 ++ hf_sum HS e) ++ NL :: marshal_lines e)
    by (rewrite <- app_assoc; reflexivity).
  rewrite scan_lines_line by (apply header_line, hash_ok_text, HS_shape).
  cbn [map tl]. rewrite header_drop_cr by (apply hash_ok_text, HS_shape). rewrite trim_prefix_app.
  destruct (parse_lines _) as [es|]; [|discriminate].
  destruct (bytes_eqb (hf_sum HS e) (hf_sum HS es)) eqn:E; [|discriminate].
  intros H; inversion H; subst. apply bytes_eqb_eq in E. congruence.
Qed.

Lemma validate_ok_header d' e :
  validate HS d' (Some (marshal HS e)) = VOk -> hf_sum HS e = hf_sum HS (newhash HS d').
Proof.
  unfold validate. destruct (unmarshal HS (marshal HS e)) as [ac| |] eqn:U; try discriminate.
  intros H. apply validate_hf_ok in H. apply unmarshal_header in U. congruence.
Qed.

Definition names_wf (d : list file) : bool := forallb (fun f => name_wf (fst f)) d.

Lemma newhash_entries_wf d : names_wf d = true -> Forall entry_wf (newhash HS d).
Proof.
  intros H. apply Forall_forall. intros x Hx.
  apply (newhash_from_names HS) in Hx as [A [y B]]. split.
  - apply in_map_iff in A as [f [E F]]. unfold names_wf in H. rewrite forallb_forall in H.
    rewrite <- E. apply H; exact F.
  - rewrite B. apply HS_shape.
Qed.

(** ** item 2: detection as a collision reduction *)
Lemma detect_lemma d d' :
  names_wf d = true -> names_wf d' = true ->
  validate HS d' (Some (marshal HS (newhash HS d))) = VOk ->
  covered d = covered d' \/ collision (hash_inputs d ++ hash_inputs d').
Proof.
  intros W W' V. apply validate_ok_header in V. unfold hf_sum in V.
  destruct (bytes_eq_dec (cat_entries (newhash HS d)) (cat_entries (newhash HS d'))) as [Q|Q].
  2:{ right. exists (cat_entries (newhash HS d)), (cat_entries (newhash HS d')).
      repeat split; try assumption.
      - apply in_app_iff. left. left. reflexivity.
      - apply in_app_iff. right. left. reflexivity. }
  apply cat_entries_inj in Q; try (apply newhash_entries_wf; assumption).
  pose proof (f_equal (map fst) Q) as QN. pose proof (f_equal (map snd) Q) as QH.
  unfold newhash in QN, QH. rewrite !newhash_names in QN. rewrite !newhash_hashes in QH.
  rewrite !streams_covered0 in QH.
  destruct (cumul_hash_eq _ _ _ QH) as [S|C].
  - left. apply map_fst_snd_eq; [|exact S]. unfold covered. rewrite !covered_names. exact QN.
  - right. eapply collision_incl; [|exact C].
    unfold hash_inputs, streams. intros z Hz.
    rewrite !streams_covered0.
    apply in_app_iff in Hz as [Hz|Hz]; apply in_app_iff; [left|right]; right; exact Hz.
Qed.

(** ** item 3: no sum-ignored file on either side: every change is detected *)
Definition no_ignored (d : list file) : bool := forallb (fun f => negb (sum_ignored (snd f))) d.

Lemma covered_plain d : no_ignored d = true -> covered d = map (fun f => (fst f, fst f ++ snd f)) d.
Proof.
  unfold covered. induction d as [|[n c] r IH]; intros H; simpl in *; [reflexivity|].
  apply andb_true_iff in H as [H1 H2]. apply negb_true_iff in H1. rewrite H1.
  rewrite (IH H2). reflexivity.
Qed.

Lemma covered_plain_inj d d' :
  no_ignored d = true -> no_ignored d' = true -> covered d = covered d' -> d = d'.
Proof.
  intros H H' E. rewrite (covered_plain _ H), (covered_plain _ H') in E. clear H H'.
  revert d' E; induction d as [|[n c] r IH]; intros [|[n' c'] r'] E; simpl in *; try discriminate; [reflexivity|].
  inversion E as [[E1 E2 E3]]. subst n'. apply app_inv_head in E2. subst c'. f_equal. apply IH; exact E3.
Qed.

Lemma detect_plain_lemma d d' :
  names_wf d = true -> names_wf d' = true -> no_ignored d = true -> no_ignored d' = true ->
  validate HS d' (Some (marshal HS (newhash HS d))) = VOk ->
  d' = d \/ collision (hash_inputs d ++ hash_inputs d').
Proof.
  intros W W' I I' V. destruct (detect_lemma _ _ W W' V) as [C|C]; [left|right; exact C].
  symmetry. apply covered_plain_inj; assumption.
Qed.

(** the outcome against an Atlas-written sum file is "ok" or a *ChecksumError *)
Lemma hashed_names_incl fs : incl (hashed_names fs) (map fst fs).
Proof.
  induction fs as [|[n c] r IH]; simpl; [apply incl_refl|].
  destruct (sum_ignored c); [apply incl_tl; exact IH|].
  apply incl_cons; [left; reflexivity|apply incl_tl; exact IH].
Qed.

Lemma hashed_names_nodup fs : NoDup (map fst fs) -> NoDup (hashed_names fs).
Proof.
  induction fs as [|[n c] r IH]; simpl; intros H; [constructor|].
  inversion H as [|? ? H1 H2]; subst. destruct (sum_ignored c); [apply IH; exact H2|].
  constructor; [|apply IH; exact H2]. intros A. apply H1. apply hashed_names_incl. exact A.
Qed.

Lemma validate_outcome d d' :
  names_ok d = true -> NoDup (map fst d) ->
  validate HS d' (Some (marshal HS (newhash HS d))) = VOk \/
  is_checksum_error (validate HS d' (Some (marshal HS (newhash HS d)))).
Proof.
  intros OK ND. unfold validate.
  rewrite (unmarshal_marshal HS HS_shape) by (apply newhash_entries_ok; assumption).
  apply validate_hf_no_panic. unfold newhash. rewrite newhash_names.
  apply hashed_names_nodup. exact ND.
Qed.

(** item 3, as the property words it: a changed directory fails with a checksum error *)
Lemma detect_plain_error d d' :
  names_ok d = true -> NoDup (map fst d) ->
  names_wf d = true -> names_wf d' = true -> no_ignored d = true -> no_ignored d' = true ->
  d' <> d ->
  is_checksum_error (validate HS d' (Some (marshal HS (newhash HS d)))) \/
  collision (hash_inputs d ++ hash_inputs d').
Proof.
  intros OK ND W W' I I' Ne.
  destruct (validate_outcome d d' OK ND) as [V|V]; [|left; exact V].
  destruct (detect_plain_lemma _ _ W W' I I' V) as [E|C]; [contradiction|right; exact C].
Qed.

End Hash.
