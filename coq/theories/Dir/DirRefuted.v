(** M-DIR proofs, part 4: where the property as stated is FALSE of the code
    (each witness is reproduced on the real Go code by the harness and is an
    open entry of known_findings.d/C06.json), and the exact characterisation
    of sum-file edits (C06 item 4).

    All witnesses hold for EVERY hash function of the assumed shape, so in
    particular for SHA-256: none of them needs a collision. *)
From Coq Require Import List NArith Bool Arith Lia Strings.String Strings.Ascii.
From Atlas Require Import Base.Bytes Base.ListX Dir.DirModel Dir.DirProofs Dir.DirDetect Dir.DirEdits.
Import ListNotations.

(** byte strings from Coq string literals (proof side only) *)
Fixpoint bs (s : string) : bytes :=
  match s with
  | EmptyString => []
  | String a r => N_of_ascii a :: bs r
  end.

Definition ign_header : bytes := bs "-- atlas:sum ignore" ++ [NL].

Lemma scan_lines_last l : no_nl l -> l <> [] -> scan_lines l = [l].
Proof.
  induction 1 as [|c l Hc Hl IH]; intros Ne; [congruence|].
  simpl. destruct (N.eqb c NL) eqn:E; [apply N.eqb_eq in E; contradiction|].
  destruct l as [|c' l']; [reflexivity|]. rewrite IH by discriminate. reflexivity.
Qed.

Definition all_ignored (t : list file) : bool := forallb (fun f => sum_ignored (snd f)) t.

Section Hash.
Variable HS : bytes -> bytes.

(** ** sum-ignored files: what the hash does not see *)
Lemma newhash_from_all_ignored acc t : all_ignored t = true -> newhash_from HS acc t = [].
Proof.
  revert acc; induction t as [|[n c] r IH]; intros acc H; simpl in *; [reflexivity|].
  apply andb_true_iff in H as [H1 H2]. rewrite H1. apply IH; exact H2.
Qed.

Lemma newhash_from_trailing acc d t :
  all_ignored t = true -> newhash_from HS acc (d ++ t) = newhash_from HS acc d.
Proof.
  intros H. revert acc; induction d as [|[n c] r IH]; intros acc; simpl.
  - apply newhash_from_all_ignored; exact H.
  - destruct (sum_ignored c); [apply IH|]. f_equal. apply IH.
Qed.

Lemma newhash_from_ignored_content acc d1 n c c' d2 :
  sum_ignored c = true -> sum_ignored c' = true ->
  newhash_from HS acc (d1 ++ (n, c) :: d2) = newhash_from HS acc (d1 ++ (n, c') :: d2).
Proof.
  intros H H'. revert acc; induction d1 as [|[m b] r IH]; intros acc; simpl.
  - rewrite H, H'. reflexivity.
  - destruct (sum_ignored b); [apply IH|]. f_equal. apply IH.
Qed.

Hypothesis HS_shape : forall x, hash_ok (HS x).

(** (a) any number of sum-ignored files appended after the last hashed file
    (or removed from there) goes unnoticed -- for every directory *)
Lemma trailing_ignored_added d t :
  names_ok (d ++ t) = true -> all_ignored t = true ->
  validate HS (d ++ t) (Some (marshal HS (newhash HS d))) = VOk.
Proof.
  intros OK I. unfold newhash. rewrite <- (newhash_from_trailing [] d t I).
  apply (untouched_validates_lemma HS HS_shape). exact OK.
Qed.

Lemma trailing_ignored_removed d t :
  names_ok d = true -> all_ignored t = true ->
  validate HS d (Some (marshal HS (newhash HS (d ++ t)))) = VOk.
Proof.
  intros OK I. unfold newhash. rewrite (newhash_from_trailing [] d t I).
  apply (untouched_validates_lemma HS HS_shape). exact OK.
Qed.

(** the content of a file that carries the directive before and after the edit is not covered *)
Lemma ignored_content_edited d1 n c c' d2 :
  names_ok (d1 ++ (n, c') :: d2) = true -> sum_ignored c = true -> sum_ignored c' = true ->
  validate HS (d1 ++ (n, c') :: d2) (Some (marshal HS (newhash HS (d1 ++ (n, c) :: d2)))) = VOk.
Proof.
  intros OK I I'. unfold newhash. rewrite (newhash_from_ignored_content [] d1 n c c' d2 I I').
  apply (untouched_validates_lemma HS HS_shape). exact OK.
Qed.

(** ** the full statement ("fails after ANY change") is false: two witnesses *)
Definition wa_d  : list file := [(bs "1.sql", bs "A;" ++ [NL])].
Definition wa_d' : list file := [(bs "1.sql", bs "A;" ++ [NL]); (bs "2.sql", ign_header)].
Definition wb_d  : list file := [(bs ".sql.sql", bs ".sqlFOO")].
Definition wb_d' : list file := [(bs ".sql", ign_header); (bs ".sql.sql", bs "FOO")].

Definition hashed (d : list file) : list file := filter (fun f => negb (sum_ignored (snd f))) d.

Lemma full_refuted_lemma :
  (* (a) a file added, all names wf: only a sum-ignored file after the last hashed one *)
  (exists d d', names_ok d = true /\ names_wf d = true /\ names_wf d' = true /\ d' <> d /\
                validate HS d' (Some (marshal HS (newhash HS d))) = VOk) /\
  (* (b) a hashed file edited (and one added): names and contents are hashed undelimited *)
  (exists d d', names_ok d = true /\ no_ignored d = true /\ hashed d' <> hashed d /\
                validate HS d' (Some (marshal HS (newhash HS d))) = VOk).
Proof.
  split.
  - exists wa_d, wa_d'. repeat split; try reflexivity; try discriminate.
    apply (trailing_ignored_added wa_d [(bs "2.sql", ign_header)]); reflexivity.
  - exists wb_d, wb_d'. repeat split; try reflexivity; try discriminate.
    change (newhash HS wb_d) with (newhash HS wb_d').
    apply (untouched_validates_lemma HS HS_shape). reflexivity.
Qed.

(** ** item 1 without [names_ok]: a name with a line feed *)
Definition wu_d : list file := [(bs "a" ++ [NL] ++ bs "b.sql", bs "x")].

Lemma untouched_refuted_lemma :
  exists d, NoDup (map fst d) /\ validate HS d (Some (marshal HS (newhash HS d))) = VFormat.
Proof.
  exists wu_d. split; [repeat constructor; simpl; tauto|].
  unfold validate, unmarshal.
  change (marshal HS (newhash HS wu_d))
    with ((s_h1 ++ hf_sum HS (newhash HS wu_d)) ++ NL ::
          (bs "a" ++ NL :: (bs "b.sql" ++ s_sp_h1 ++ HS (bs "a" ++ [NL] ++ bs "b.sql" ++ bs "x") ++ [NL]) ++ [])).
  rewrite scan_lines_line by (apply header_line, hash_ok_text, HS_shape).
  rewrite scan_lines_line by (repeat constructor; discriminate).
  reflexivity.
Qed.

(** ** item 4: edited sum files.  Exact criterion: a sum file text validates
    iff UnmarshalText accepts it and its entries hash to the directory's sum. *)
Lemma sumfile_ok_iff d s :
  validate HS d (Some s) = VOk <->
  exists ac, unmarshal HS s = UOk ac /\ hf_sum HS ac = hf_sum HS (newhash HS d).
Proof.
  unfold validate. destruct (unmarshal HS s) as [ac| |].
  - rewrite validate_hf_ok. split; [intros H; exists ac; auto|intros [ac' [E H]]; inversion E; subst; exact H].
  - split; [discriminate|intros [ac' [E _]]; discriminate].
  - split; [discriminate|intros [ac' [E _]]; discriminate].
Qed.

(** consequence: an edit that makes the parsed entries differ from the
    directory's in their concatenation N1 H1 N2 H2 ... is refused or exhibits
    a collision; if the parsed entries are still well formed (names with
    ".sql" only as suffix, 44-byte hashes) they must be the directory's own. *)
Lemma sumfile_edits_lemma d s :
  names_wf d = true ->
  validate HS d (Some s) = VOk ->
  exists ac, unmarshal HS s = UOk ac /\
    (collision HS [cat_entries ac; cat_entries (newhash HS d)] \/
     (cat_entries ac = cat_entries (newhash HS d) /\ (Forall entry_wf ac -> ac = newhash HS d))).
Proof.
  intros W V. apply sumfile_ok_iff in V as [ac [U H]]. exists ac. split; [exact U|].
  unfold hf_sum in H.
  destruct (bytes_eq_dec (cat_entries ac) (cat_entries (newhash HS d))) as [Q|Q].
  - right. split; [exact Q|]. intros F. apply cat_entries_inj; auto.
    apply (newhash_entries_wf HS HS_shape). exact W.
  - left. exists (cat_entries ac), (cat_entries (newhash HS d)). simpl. auto.
Qed.

(** ... but "any edited sum line is refused" is false.  Witness 1: the
    separator moved inside a line ("2.sql h1:H" -> "2.s h1:qlH"): the parsed
    entries differ, their concatenation does not.  Witness 2: the final line
    feed removed: same entries. *)
Definition ws_d : list file := [(bs "2.sql", bs "x")].

Lemma sumfile_refuted_lemma :
  (exists d s ac, names_ok d = true /\ names_wf d = true /\ unmarshal HS s = UOk ac /\
                  ac <> newhash HS d /\ validate HS d (Some s) = VOk) /\
  (exists d s, names_ok d = true /\ s <> marshal HS (newhash HS d) /\ validate HS d (Some s) = VOk).
Proof.
  split.
  - set (H := HS (bs "2.sql" ++ bs "x")).
    set (ac := [(bs "2.s", bs "ql" ++ H)] : list entry).
    exists ws_d, (sumfile (hf_sum HS ac) ac), ac.
    assert (U : unmarshal HS (sumfile (hf_sum HS ac) ac) = UOk ac).
    { rewrite unmarshal_sumfile, bytes_eqb_refl; [reflexivity|apply hash_ok_text, HS_shape|].
      constructor; [|constructor]. split; [reflexivity|].
      destruct (hash_ok_text _ (HS_shape (bs "2.sql" ++ bs "x"))) as [F [h' [c [E Hc]]]].
      split.
      - simpl. repeat (constructor; [split; discriminate|]). exact F.
      - exists (bs "ql" ++ h'), c. split; [|exact Hc]. unfold H. rewrite E. reflexivity. }
    repeat split; try reflexivity; try exact U.
    + discriminate.
    + unfold validate. rewrite U. apply validate_hf_ok. reflexivity.
  - exists [], (s_h1 ++ hf_sum HS []). repeat split.
    + change (newhash HS []) with (@nil entry). unfold marshal. intros E. apply app_inv_head in E.
      apply (f_equal (@List.length N)) in E. rewrite app_length in E. simpl in E. lia.
    + unfold validate, unmarshal.
      rewrite scan_lines_last.
      * cbn [map tl parse_lines]. rewrite header_drop_cr by (apply hash_ok_text, HS_shape).
        rewrite trim_prefix_app, bytes_eqb_refl. apply validate_hf_refl.
      * apply header_line, hash_ok_text, HS_shape.
      * discriminate.
Qed.

(** ** Validate's index-out-of-range panic: a sum file that lists a name twice *)
Definition wp_d : list file := [(bs "1.sql", bs "A"); (bs "2.sql", bs "B")].

Lemma validate_panic_refuted_lemma :
  exists d s ac, names_ok d = true /\ names_wf d = true /\ unmarshal HS s = UOk ac /\
    (validate HS d (Some s) = VPanic \/
     collision HS [cat_entries ac; cat_entries (newhash HS d)]).
Proof.
  set (h1 := HS (bs "1.sql" ++ bs "A")).
  set (h2 := HS ((bs "1.sql" ++ bs "A") ++ bs "2.sql" ++ bs "B")).
  set (ac := [(bs "1.sql", h1); (bs "2.sql", h2); (bs "1.sql", h1)] : list entry).
  exists wp_d, (sumfile (hf_sum HS ac) ac), ac.
  assert (U : unmarshal HS (sumfile (hf_sum HS ac) ac) = UOk ac).
  { rewrite unmarshal_sumfile, bytes_eqb_refl; [reflexivity|apply hash_ok_text, HS_shape|].
    repeat constructor; try reflexivity; apply hash_ok_text, HS_shape. }
  repeat split; try reflexivity; try exact U.
  unfold validate. rewrite U. unfold validate_hf.
  destruct (bytes_eqb (hf_sum HS ac) (hf_sum HS (newhash HS wp_d))) eqn:E.
  - right. apply bytes_eqb_eq in E. exists (cat_entries ac), (cat_entries (newhash HS wp_d)).
    simpl. repeat split; auto.
    intros Q. apply (f_equal (@List.length N)) in Q. unfold ac, cat_entries in Q. simpl in Q.
    rewrite !app_length in Q. simpl in Q. rewrite !app_length in Q.
    unfold h1, h2 in Q. rewrite !(proj1 (HS_shape _)) in Q. simpl in Q. lia.
  - left.
    change (newhash HS wp_d) with [(bs "1.sql", h1); (bs "2.sql", h2)].
    unfold ac. cbn [validate_loop nth_error]. unfold entry_eqb. cbn [fst snd].
    rewrite !bytes_eqb_refl. cbn [andb]. reflexivity.
Qed.

End Hash.
