(** M-DIR proofs, part 5: every writer leaves the directory valid (C06 item 6)
    -- Planner.WritePlan, Planner.WriteCheckpoint (both end in writeSum) and
    MemDir.CopyFiles as Executor.ExecuteTo calls it; and the witness that
    CopyFiles called on a non-empty MemDir does not. *)
From Coq Require Import List NArith Bool Arith Lia Strings.String.
From Atlas Require Import Base.Bytes Base.ListX Dir.DirModel Dir.DirProofs Dir.DirDetect Dir.DirRefuted.
Import ListNotations.

(** ** stores *)
Lemma store_get_put st n c : store_get (store_put st n c) n = Some c.
Proof.
  induction st as [|[m d] r IH]; simpl.
  - rewrite bytes_eqb_refl. reflexivity.
  - destruct (bytes_eqb m n) eqn:E; simpl; [rewrite bytes_eqb_refl; reflexivity|].
    rewrite E. exact IH.
Qed.

Definition sqlf (f : bytes * bytes) : bool := is_sql (fst f).

Lemma filter_put_other st n c : is_sql n = false -> filter sqlf (store_put st n c) = filter sqlf st.
Proof.
  intros H. induction st as [|[m d] r IH]; simpl.
  - unfold sqlf. simpl. rewrite H. reflexivity.
  - destruct (bytes_eqb m n) eqn:E; simpl.
    + apply bytes_eqb_eq in E. subst m. unfold sqlf. simpl. rewrite H. reflexivity.
    + rewrite IH. reflexivity.
Qed.

Lemma files_of_put_sum st c : files_of (store_put st s_atlas_sum c) = files_of st.
Proof. unfold files_of. f_equal. apply (filter_put_other st s_atlas_sum c). reflexivity. Qed.

Lemma in_insert_file x f l : In x (insert_file f l) -> f = x \/ In x l.
Proof.
  induction l as [|g r IH]; simpl; [tauto|].
  destruct (bytes_ltb (fst f) (fst g)); simpl; [tauto|].
  intros [H|H]; [auto|]. destruct (IH H); auto.
Qed.

Lemma in_sort_files x l : In x (sort_files l) -> In x l.
Proof.
  induction l as [|f r IH]; simpl; [tauto|].
  intros H. apply in_insert_file in H as [H|H]; auto.
Qed.

(** every name in the store passes [name_ok] *)
Definition store_ok (st : store) : bool := forallb (fun f => name_ok (fst f)) st.

Lemma store_ok_files st : store_ok st = true -> names_ok (files_of st) = true.
Proof.
  unfold store_ok, names_ok, files_of. rewrite !forallb_forall. intros H x Hx.
  apply H. apply in_sort_files in Hx. apply filter_In in Hx. tauto.
Qed.

Lemma store_ok_put st n c : store_ok st = true -> name_ok n = true -> store_ok (store_put st n c) = true.
Proof.
  intros H Hn. induction st as [|[m d] r IH]; simpl in *.
  - rewrite Hn. reflexivity.
  - apply andb_true_iff in H as [H1 H2]. destruct (bytes_eqb m n); simpl.
    + rewrite Hn, H2. reflexivity.
    + rewrite H1, (IH H2). reflexivity.
Qed.

Lemma store_ok_write_files st fs : store_ok st = true -> names_ok fs = true -> store_ok (write_files st fs) = true.
Proof.
  unfold write_files. revert st; induction fs as [|f r IH]; intros st H Hf; simpl in *; [exact H|].
  apply andb_true_iff in Hf as [H1 H2]. apply IH; [|exact H2]. apply store_ok_put; assumption.
Qed.

(** strictly increasing names: what Dir.Files() returns *)
Fixpoint sorted_strict (l : list file) : bool :=
  match l with
  | [] => true
  | f :: r => forallb (fun g => bytes_ltb (fst f) (fst g)) r && sorted_strict r
  end.

Lemma sort_files_sorted l : sorted_strict l = true -> sort_files l = l.
Proof.
  induction l as [|f r IH]; simpl; intros H; [reflexivity|].
  apply andb_true_iff in H as [H1 H2]. rewrite (IH H2).
  destruct r as [|g r']; [reflexivity|]. simpl in *.
  apply andb_true_iff in H1 as [H1 _]. rewrite H1. reflexivity.
Qed.

Lemma sorted_strict_nodup l : sorted_strict l = true -> NoDup (map fst l).
Proof.
  induction l as [|f r IH]; simpl; intros H; [constructor|].
  apply andb_true_iff in H as [H1 H2]. constructor; [|apply IH; exact H2].
  intros A. apply in_map_iff in A as [g [E G]]. rewrite forallb_forall in H1.
  specialize (H1 g G). rewrite E, bytes_ltb_irrefl in H1. discriminate.
Qed.

Lemma sort_files_nil l : sort_files l = [] -> l = [].
Proof.
  destruct l as [|f r]; [reflexivity|]. simpl.
  destruct (sort_files r) as [|g q]; simpl; [discriminate|].
  destruct (bytes_ltb (fst f) (fst g)); discriminate.
Qed.

Lemma store_get_none_app st n m c : store_get st n = None -> m <> n -> store_get (st ++ [(m, c)]) n = None.
Proof.
  intros H Ne. induction st as [|[k d] r IH]; simpl in *.
  - destruct (bytes_eqb m n) eqn:E; [apply bytes_eqb_eq in E; contradiction|reflexivity].
  - destruct (bytes_eqb k n); [discriminate|]. apply IH; exact H.
Qed.

Lemma store_put_fresh st n c : store_get st n = None -> store_put st n c = st ++ [(n, c)].
Proof.
  induction st as [|[k d] r IH]; simpl; intros H; [reflexivity|].
  destruct (bytes_eqb k n); [discriminate|]. rewrite (IH H). reflexivity.
Qed.

Lemma filter_write_files fs st :
  forallb sqlf fs = true -> NoDup (map fst fs) ->
  (forall f, In f fs -> store_get st (fst f) = None) ->
  filter sqlf (write_files st fs) = filter sqlf st ++ fs.
Proof.
  unfold write_files. revert st; induction fs as [|[n c] r IH]; intros st S ND G; simpl.
  - rewrite app_nil_r. reflexivity.
  - simpl in S. apply andb_true_iff in S as [S1 S2]. inversion ND as [|? ? N1 N2]; subst.
    rewrite (store_put_fresh st n c) by (apply (G (n, c)); left; reflexivity).
    rewrite IH; [| exact S2 | exact N2 |].
    + rewrite filter_app. simpl. rewrite S1. rewrite <- app_assoc. reflexivity.
    + intros f F. apply store_get_none_app; [apply G; right; exact F|].
      intros E. apply N1. rewrite E. apply in_map. exact F.
Qed.

Lemma store_get_no_sql st n :
  filter sqlf st = [] -> is_sql n = true -> store_get st n = None.
Proof.
  induction st as [|[k d] r IH]; simpl; intros H S; [reflexivity|].
  unfold sqlf in H at 1. simpl in H. destruct (is_sql k) eqn:K; [discriminate|].
  destruct (bytes_eqb k n) eqn:E; [apply bytes_eqb_eq in E; congruence|]. apply IH; assumption.
Qed.

(** CopyFiles into a MemDir without *.sql files: the directory is the argument list *)
Lemma files_of_copy st fs :
  files_of st = [] -> forallb sqlf fs = true -> sorted_strict fs = true ->
  files_of (write_files st fs) = fs.
Proof.
  intros E S O. unfold files_of in *. apply sort_files_nil in E.
  change (fun f : bytes * bytes => is_sql (fst f)) with sqlf in *.
  rewrite filter_write_files; auto.
  - rewrite E. simpl. apply sort_files_sorted; exact O.
  - apply sorted_strict_nodup; exact O.
  - intros f F. apply store_get_no_sql; [exact E|].
    rewrite forallb_forall in S. apply (S f F).
Qed.

(** ** what each writer is called with *)
Definition op_pre (st : store) (o : op) : Prop :=
  match o with
  | OpWritePlan fs => names_ok fs = true
  | OpWriteCheckpoint n tag c => name_ok n = true
  | OpCopyFiles fs =>
      (* Executor.ExecuteTo: a fresh MemDir, a prefix of dir.Files() *)
      names_ok fs = true /\ files_of st = [] /\ forallb sqlf fs = true /\ sorted_strict fs = true
  end.

Section Hash.
Variable HS : bytes -> bytes.
Hypothesis HS_shape : forall x, hash_ok (HS x).

Fixpoint ops_pre (st : store) (ops : list op) : Prop :=
  match ops with
  | [] => True
  | o :: r => op_pre st o /\ ops_pre (apply_op HS st o) r
  end.


Lemma write_sum_valid st : store_ok st = true -> validate_store HS (write_sum HS st) = VOk.
Proof.
  intros H. unfold validate_store, write_sum. rewrite store_get_put, files_of_put_sum.
  apply (untouched_validates_lemma HS HS_shape). apply store_ok_files; exact H.
Qed.

Lemma write_sum_ok st : store_ok st = true -> store_ok (write_sum HS st) = true.
Proof. intros H. apply store_ok_put; [exact H|reflexivity]. Qed.

Lemma apply_op_inv st o :
  store_ok st = true -> op_pre st o ->
  store_ok (apply_op HS st o) = true /\ validate_store HS (apply_op HS st o) = VOk.
Proof.
  intros H P. destruct o as [fs|n tag c|fs]; simpl in *.
  - assert (K : store_ok (write_files st fs) = true) by (apply store_ok_write_files; assumption).
    split; [apply write_sum_ok|apply write_sum_valid]; exact K.
  - assert (K : store_ok (store_put st n (add_directive s_checkpoint tag c)) = true) by (apply store_ok_put; assumption).
    split; [apply write_sum_ok|apply write_sum_valid]; exact K.
  - destruct P as [P1 [P2 [P3 P4]]].
    assert (K : store_ok (write_files st fs) = true) by (apply store_ok_write_files; assumption).
    split; [apply store_ok_put; [exact K|reflexivity]|].
    unfold validate_store. rewrite store_get_put, files_of_put_sum, (files_of_copy _ _ P2 P3 P4).
    apply (untouched_validates_lemma HS HS_shape). exact P1.
Qed.

(** item 6: after every op of every sequence the directory validates *)
Lemma writers_inv_lemma ops st :
  store_ok st = true -> ops_pre st ops ->
  Forall (fun s => validate_store HS s = VOk) (run_ops HS st ops).
Proof.
  revert st; induction ops as [|o r IH]; intros st H P; simpl; [constructor|].
  destruct P as [P1 P2]. destruct (apply_op_inv st o H P1) as [K V].
  constructor; [exact V|]. apply IH; assumption.
Qed.

(** without the CopyFiles precondition it is false: CopyFiles writes the sum
    of its argument list, not of the directory *)
Definition wc_ops : list op :=
  [OpWritePlan [(bs "2.sql", bs "x")]; OpCopyFiles [(bs "8.sql", bs "y")]].

Lemma writers_refuted_lemma :
  exists ops x y,
    Forall (fun o => match o with
                     | OpWritePlan fs | OpCopyFiles fs => names_ok fs = true /\ forallb sqlf fs = true /\ sorted_strict fs = true
                     | OpWriteCheckpoint n _ _ => name_ok n = true
                     end) ops /\
    x <> y /\
    (Exists (fun s => validate_store HS s <> VOk) (run_ops HS [] ops) \/ HS x = HS y).
Proof.
  set (e := newhash HS [(bs "8.sql", bs "y")]).
  set (d' := [(bs "2.sql", bs "x"); (bs "8.sql", bs "y")] : list file).
  exists wc_ops, (cat_entries e), (cat_entries (newhash HS d')).
  split; [repeat constructor|]. split.
  - intros Q. apply (f_equal (@List.length N)) in Q. unfold e, d', cat_entries in Q. simpl in Q.
    rewrite !app_length in Q. simpl in Q. rewrite !(proj1 (HS_shape _)) in Q. simpl in Q. lia.
  - destruct (validate HS d' (Some (marshal HS e))) eqn:V.
    1:{ right. apply (validate_ok_header HS HS_shape) in V. exact V. }
    all: left; unfold wc_ops; cbn [run_ops apply_op]; apply Exists_cons_tl, Exists_cons_hd;
      unfold validate_store; rewrite store_get_put, files_of_put_sum;
      change (files_of _) with d'; fold e; rewrite V; discriminate.
Qed.

End Hash.
