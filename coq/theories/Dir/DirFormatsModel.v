(** M-DIR, round 5: every reader of a directory that was still outside the
    model -- which files of a local directory tree each directory *format*
    reads (and therefore hashes, validates and executes), the tar archive
    round trip, and the checkpoint readers.

    Go code followed (function names kept):
      sql/migrate/dir.go      LocalDir.Files (fs.Glob "*.sql" + ReadFile), Validate/readHashFile on
                              a format directory, WriteSumFile(dir, dir.Checksum()),
                              ArchiveDirTo / UnarchiveDirFrom / append2Tar,
                              checkpointFiles / filesFromCheckpoint / FilesFromLastCheckpoint
      sql/sqltool/tool.go     GolangMigrateDir.Files (Glob "*.up.sql"), GooseDir / DBMateDir /
                              LiquibaseDir .Files (= LocalDir.Files), FlywayDir.Files
                              (fs.WalkDir, hidden, the V/B/R prefix filter), flywayFiles.add / names,
                              flywayVersion, flywaySort, flywayVersionCompare (strconv.Atoi)
      cmd/atlas/internal/migrate/migrate.go  DirURL: the switch on ?format=

    A local directory is a flat list of entries (path components relative to
    the root, regular file with its bytes | directory).  Intermediate
    directories are implicit.  archive/tar itself is trusted: an archive is the
    ordered list of (name, bytes) entries the code writes / reads.
    sort.Slice is modelled as a stable insertion sort: that is what Go's
    pdqsort does for slices of at most 12 elements (sort.insertionSortLessFunc),
    and only the order of files with *equal* Flyway versions depends on it.

    This file contains no proofs. *)
From Coq Require Import List NArith ZArith Bool Arith.
From Atlas Require Import Base.Bytes Dir.DirModel.
Import ListNotations.

Inductive kind := KFile (c : bytes) | KDir.
Definition fsentry := (list bytes * kind)%type.     (* path components, kind *)
Definition tree := list fsentry.

(** Files(): the files, or an I/O error (fs.ReadFile on a directory whose name matches the pattern) *)
Inductive fres := FOk (fs : list file) | FErr.

Definition s_up_sql : bytes := [46;117;112;46;115;113;108]%N.          (* ".up.sql" *)
Definition SLASH : N := 47%N.

(** the entries of the root directory: what ReadDir(".") lists *)
Definition top (t : tree) : list (bytes * kind) :=
  flat_map (fun e => match fst e with [n] => [(n, snd e)] | _ => [] end) t.

(** fs.ReadFile of each matched name *)
Fixpoint read_all (l : list (bytes * kind)) : option (list file) :=
  match l with
  | [] => Some []
  | (n, KFile c) :: r => match read_all r with Some fs => Some ((n, c) :: fs) | None => None end
  | (_, KDir) :: _ => None
  end.

Definition matches (suf : bytes) (e : bytes * kind) : bool := ends_with suf (fst e).

(** fs.Glob(d, "*" ++ suf), sort.Slice by name, ReadFile *)
Definition glob_files (suf : bytes) (t : tree) : fres :=
  match read_all (filter (matches suf) (top t)) with
  | Some fs => FOk (sort_files fs)
  | None => FErr
  end.

Definition local_files : tree -> fres := glob_files s_sql.              (* dir.go: LocalDir.Files *)
Definition golang_migrate_files : tree -> fres := glob_files s_up_sql.  (* tool.go: GolangMigrateDir.Files *)

(** ** tool.go: FlywayDir.Files *)
Definition join_path (p : list bytes) : bytes :=
  match p with [] => [] | a :: r => a ++ flat_map (fun x => SLASH :: x) r end.
Definition base_of (p : list bytes) : bytes := last p [].

(** hidden.go: filepath.Base(path)[0] == '.' *)
Definition hidden (n : bytes) : bool := match n with c :: _ => N.eqb c 46 | [] => false end.

(** fs.WalkDir order: the entries of each directory by name, a directory
    right before its content = component-wise lexicographic order of the paths *)
Fixpoint path_ltb (p q : list bytes) : bool :=
  match p, q with
  | [], [] => false
  | [], _ :: _ => true
  | _ :: _, [] => false
  | a :: p', b :: q' =>
      match bytes_compare a b with Lt => true | Gt => false | Eq => path_ltb p' q' end
  end.

(** reached by the walk: no proper ancestor is hidden (fs.SkipDir) *)
Definition visited (p : list bytes) : bool := forallb (fun c => negb (hidden c)) (removelast p).

Definition vbr (n : bytes) : bool :=
  match n with c :: _ => N.eqb c 86 || N.eqb c 66 || N.eqb c 82 | [] => false end.   (* 'V' 'B' 'R' *)

Definition pfile := (list bytes * bytes)%type.     (* path, content *)

(** the WalkDir callback reaches ff.add(path) *)
Definition flyway_candidate (e : fsentry) : option pfile :=
  match snd e with
  | KDir => None
  | KFile c =>
      if visited (fst e) && is_sql (base_of (fst e)) && vbr (base_of (fst e)) then Some (fst e, c) else None
  end.

Fixpoint before_dunder (s : bytes) : bytes :=      (* strings.SplitN(s, "__", 2)[0] *)
  match s with
  | [] => []
  | c :: r => if starts_with [95;95]%N s then [] else c :: before_dunder r
  end.

Definition trim_suffix_sql (n : bytes) : bytes :=  (* strings.TrimSuffix(n, ".sql") *)
  if ends_with s_sql n then firstn (length n - 4) n else n.

Definition flyway_version (p : list bytes) : bytes :=
  match base_of p with
  | 82%N :: _ => []                                               (* 'R' *)
  | b => tl (before_dunder (trim_suffix_sql b))
  end.

(** strconv.Atoi with the error dropped: 0 on a syntax error, the value
    clamped to int64 on a range error *)
Definition digit (c : N) : option Z := if in_range 48 57 c then Some (Z.of_N c - 48)%Z else None.
Fixpoint digits_val (acc : Z) (s : bytes) : option Z :=
  match s with
  | [] => Some acc
  | c :: r => match digit c with Some d => digits_val (acc * 10 + d)%Z r | None => None end
  end.
Definition atoi (s : bytes) : Z :=
  let '(neg, ds) := match s with
                    | 45%N :: r => (true, r)
                    | 43%N :: r => (false, r)
                    | _ => (false, s)
                    end in
  match ds with
  | [] => 0%Z
  | _ => match digits_val 0%Z ds with
         | None => 0%Z
         | Some v => Z.max (-9223372036854775808)%Z (Z.min 9223372036854775807%Z (if neg then (- v)%Z else v))
         end
  end.

Fixpoint split_on (f : N -> bool) (s : bytes) : list bytes :=     (* strings.Split on one-byte separators *)
  match s with
  | [] => [[]]
  | c :: r =>
      if f c then [] :: split_on f r
      else match split_on f r with
           | [] => [[c]]
           | l :: ls => (c :: l) :: ls
           end
  end.

(** flywayVersionCompare's parse: ReplaceAll(s, "_", "."), Split ".", Atoi *)
Definition ver_key (v : bytes) : list Z :=
  map atoi (split_on (fun c => N.eqb c 46 || N.eqb c 95) v).

Fixpoint zlist_ltb (a b : list Z) : bool :=                        (* slices.Compare(a, b) < 0 *)
  match a, b with
  | _, [] => false
  | [], _ :: _ => true
  | x :: a', y :: b' => match Z.compare x y with Lt => true | Gt => false | Eq => zlist_ltb a' b' end
  end.

Definition fly_less (x y : pfile) : bool :=
  zlist_ltb (ver_key (flyway_version (fst x))) (ver_key (flyway_version (fst y))).

(** flywaySort: stable insertion sort (see the header) *)
(** Go's insertion sort moves element i left while it is less than its left
    neighbour: the elements are inserted left to right, each after every
    element that is not greater *)
Fixpoint vinsert_right (x : pfile) (l : list pfile) : list pfile :=
  match l with
  | [] => [x]
  | y :: r => if fly_less x y then x :: l else y :: vinsert_right x r
  end.
Definition vsort (l : list pfile) : list pfile := fold_left (fun acc x => vinsert_right x acc) l [].

Record ffs := mk_ffs { f_base : option pfile; f_ver : list pfile; f_rep : list pfile }.

(** flywayFiles.add.  As in the code: the versions are compared as *strings*
    here (numerically only in flywaySort), and the loop that drops the
    versioned files covered by a new baseline compares the *path* of the
    versioned file with the baseline's version. *)
Definition fly_add (s : ffs) (x : pfile) : ffs :=
  let v := flyway_version (fst x) in
  match base_of (fst x) with
  | [] => s
  | p :: _ =>
      if N.eqb p 66 then                                            (* 'B' *)
        let keep := match f_base s with
                    | Some b => bytes_ltb v (flyway_version (fst b))
                    | None => false
                    end in
        if keep then s
        else mk_ffs (Some x) (filter (fun y => bytes_ltb v (join_path (fst y))) (f_ver s)) (f_rep s)
      else if N.eqb p 86 then                                       (* 'V' *)
        let add := match f_base s with
                   | Some b => bytes_ltb (flyway_version (fst b)) v
                   | None => true
                   end in
        if add then mk_ffs (f_base s) (f_ver s ++ [x]) (f_rep s) else s
      else if N.eqb p 82 then mk_ffs (f_base s) (f_ver s) (f_rep s ++ [x])   (* 'R' *)
      else s                                    (* unreachable: the filter lets V B R through only *)
  end.

Definition fly_names (s : ffs) : list pfile :=
  (match f_base s with Some b => [b] | None => [] end) ++ vsort (f_ver s) ++ vsort (f_rep s).

Fixpoint pinsert (e : pfile) (l : list pfile) : list pfile :=
  match l with
  | [] => [e]
  | g :: r => if path_ltb (fst e) (fst g) then e :: l else g :: pinsert e r
  end.
Fixpoint psort (t : list pfile) : list pfile :=
  match t with [] => [] | e :: r => pinsert e (psort r) end.

(** the sequence of ff.add calls: the candidates in walk order *)
Definition flyway_walk (t : tree) : list pfile :=
  psort (flat_map (fun e => match flyway_candidate e with Some x => [x] | None => [] end) t).

Definition flyway_files (t : tree) : list file :=
  map (fun x => (join_path (fst x), snd x))
      (fly_names (fold_left fly_add (flyway_walk t) (mk_ffs None [] []))).

(** ** cmd/atlas/internal/migrate: DirURL's switch on the format *)
Inductive format := FAtlas | FGolangMigrate | FGoose | FFlyway | FLiquibase | FDBMate.

Definition format_files (f : format) (t : tree) : fres :=
  match f with
  | FGolangMigrate => golang_migrate_files t
  | FFlyway => FOk (flyway_files t)
  | FAtlas | FGoose | FLiquibase | FDBMate => local_files t
  end.

(** dir.Open("atlas.sum") + io.ReadAll: the root's regular file of that name *)
Fixpoint tree_sum (t : tree) : option bytes :=
  match t with
  | [] => None
  | (p, k) :: r =>
      match p, k with
      | [n], KFile c => if bytes_eqb n s_atlas_sum then Some c else tree_sum r
      | _, _ => tree_sum r
      end
  end.

(** LocalDir.WriteFile("atlas.sum", b) *)
Fixpoint tree_put_sum (t : tree) (b : bytes) : tree :=
  match t with
  | [] => [([s_atlas_sum], KFile b)]
  | (p, k) :: r =>
      match p, k with
      | [n], KFile c => if bytes_eqb n s_atlas_sum then (p, KFile b) :: r else (p, k) :: tree_put_sum r b
      | _, _ => (p, k) :: tree_put_sum r b
      end
  end.

Definition tree_of_store (st : store) : tree := map (fun f => ([fst f], KFile (snd f))) st.

(** ** archive: dir.go ArchiveDirTo / UnarchiveDirFrom *)
Definition archive (sum : option bytes) (fs : list file) : list file :=
  (match sum with Some b => [(s_atlas_sum, b)] | None => [] end) ++ fs.

(** UnarchiveDirFrom: md.WriteFile(h.Name, data) per tar entry into a fresh MemDir *)
Definition unarchive (arc : list file) : store := write_files [] arc.

Definition archive_store (st : store) : list file :=
  archive (store_get st s_atlas_sum) (files_of st).

Definition archive_tree (f : format) (t : tree) : option (list file) :=
  match format_files f t with
  | FOk fs => Some (archive (tree_sum t) fs)
  | FErr => None
  end.

Section Hash.
Variable HS : bytes -> bytes.

(** Validate returned a checksum outcome, or the error of Files() *)
Inductive tvres := TV (v : vresult) | TVErr.

(** dir.go: Validate(dir) on a directory of the given format *)
Definition validate_tree (f : format) (t : tree) : tvres :=
  match format_files f t with
  | FOk fs => TV (validate HS fs (tree_sum t))
  | FErr =>
      match tree_sum t with
      | Some b => match unmarshal HS b with
                  | UOk _ => TVErr
                  | UFormat => TV VFormat
                  | UMismatch => TV VMismatch
                  end
      | None => TVErr
      end
  end.

(** migrate hash on a format directory: WriteSumFile(dir, dir.Checksum()) *)
Definition write_sum_tree (f : format) (t : tree) : option tree :=
  match format_files f t with
  | FOk fs => Some (tree_put_sum t (marshal HS (newhash HS fs)))
  | FErr => None
  end.

End Hash.

(** ** checkpoint readers (dir.go: checkpointFiles, filesFromCheckpoint,
    FilesFromLastCheckpoint); [is_ck] = File.IsCheckpoint() *)
Section Checkpoint.
Variable is_ck : file -> bool.

Definition checkpoint_files (fs : list file) : list file := filter is_ck fs.

(** [files[i:]] for the LAST i with IsCheckpoint && Name == name *)
Fixpoint files_from_checkpoint (fs : list file) (name : bytes) : option (list file) :=
  match fs with
  | [] => None                                                    (* ErrCheckpointNotFound *)
  | f :: r =>
      match files_from_checkpoint r name with
      | Some s => Some s
      | None => if is_ck f && bytes_eqb (fst f) name then Some fs else None
      end
  end.

Definition files_from_last_checkpoint (fs : list file) : option (list file) :=
  match checkpoint_files fs with
  | [] => Some fs
  | c :: cks => files_from_checkpoint fs (fst (last cks c))
  end.

End Checkpoint.

(** ** cmd/atlas/internal/cmdapi: dirFormatBC + checkDir -> cmdmigrate.Dir / DirURL,
    the path every PreRunE takes before Validate.  url.Parse itself is trusted:
    the model starts from its result (parse error or scheme, host+path, the
    [format] query parameter if present). *)
Definition s_mem : bytes := [109;101;109]%N.                                   (* "mem" *)
Definition s_file : bytes := [102;105;108;101]%N.                              (* "file" *)
Definition s_atlas_scheme : bytes := [97;116;108;97;115]%N.                    (* "atlas" *)
Definition s_golang_migrate : bytes := [103;111;108;97;110;103;45;109;105;103;114;97;116;101]%N.
Definition s_goose : bytes := [103;111;111;115;101]%N.
Definition s_flyway : bytes := [102;108;121;119;97;121]%N.
Definition s_liquibase : bytes := [108;105;113;117;105;98;97;115;101]%N.
Definition s_dbmate : bytes := [100;98;109;97;116;101]%N.

(** DirURL: [switch f := u.Query().Get("format")] *)
Definition parse_format (b : bytes) : option format :=
  if bytes_eqb b [] || bytes_eqb b s_atlas_scheme then Some FAtlas
  else if bytes_eqb b s_golang_migrate then Some FGolangMigrate
  else if bytes_eqb b s_goose then Some FGoose
  else if bytes_eqb b s_flyway then Some FFlyway
  else if bytes_eqb b s_liquibase then Some FLiquibase
  else if bytes_eqb b s_dbmate then Some FDBMate
  else None.

Inductive dopen :=
| OMem                       (* migrate.OpenMemDir *)
| OLocal (f : format)        (* the format's New*Dir on the local path *)
| OCloud                     (* atlas:// -- outside the model *)
| OErr.                      (* missing scheme / unsupported driver / unknown dir format *)

Definition dir_url (scheme : bytes) (fmt : option bytes) : dopen :=
  if bytes_eqb scheme s_mem then OMem
  else if bytes_eqb scheme s_file then
    match parse_format (match fmt with Some x => x | None => [] end) with
    | Some f => OLocal f
    | None => OErr
    end
  else if bytes_eqb scheme s_atlas_scheme then OCloud
  else OErr.

(** dirFormatBC on a URL that parsed: [if !u.Query().Has("format") && flag != ""] *)
Definition dir_format_bc (flag : bytes) (fmt : option bytes) : option bytes :=
  match fmt with
  | Some _ => fmt
  | None => match flag with [] => None | _ => Some flag end
  end.

Section CheckDir.
Variable HS : bytes -> bytes.

Inductive prerun :=
| PErrParse                   (* url.Parse failed (dirFormatBC or cmdmigrate.Dir) *)
| PErrOpen                    (* DirURL refused the scheme or the format *)
| PErrNotExist                (* NewLocalDir: the path is not a directory *)
| PCloud
| PValidated (v : tvres).     (* migrate.Validate ran: its outcome *)

(** [parse_ok]: url.Parse succeeded; [is_dir]: os.Stat(path).IsDir(); [t]: the directory's content *)
Definition check_dir_url (parse_ok : bool) (scheme : bytes) (fmt : option bytes) (flag : bytes)
                     (is_dir : bool) (t : tree) : prerun :=
  if negb parse_ok then PErrParse
  else match dir_url scheme (dir_format_bc flag fmt) with
       | OErr => PErrOpen
       | OCloud => PCloud
       | OMem => PValidated (TV (validate HS [] None))
       | OLocal f => if is_dir then PValidated (validate_tree HS f t) else PErrNotExist
       end.
End CheckDir.
