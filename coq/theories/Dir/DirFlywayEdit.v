(** M-DIR proofs, round 5: FlywayDir.Files selects and orders by path only, so
    an edit of the bytes of a selected file changes what Files() returns. *)
From Coq Require Import List NArith ZArith Bool Arith Lia.
From Atlas Require Import Base.Bytes Base.ListX Dir.DirModel Dir.DirFormatsModel Dir.DirFormats.
Import ListNotations.

(** the selected files with their paths, before the paths are joined *)
Definition fly_select (l : list pfile) : list pfile :=
  fly_names (fold_left fly_add (psort l) (mk_ffs None [] [])).
Definition flyway_selected (t : tree) : list pfile := fly_select (flat_map cand t).
Definition joined (x : pfile) : file := (join_path (fst x), snd x).

Lemma flyway_files_selected t : flyway_files t = map joined (flyway_selected t).
Proof. reflexivity. Qed.

Section Relabel.
Variable g : list bytes -> bytes -> bytes.
Definition setc (x : pfile) : pfile := (fst x, g (fst x) (snd x)).
Definition mapffs (s : ffs) : ffs :=
  mk_ffs (option_map setc (f_base s)) (map setc (f_ver s)) (map setc (f_rep s)).

Lemma pinsert_setc e l : pinsert (setc e) (map setc l) = map setc (pinsert e l).
Proof.
  induction l as [|x r IH]; [reflexivity|]. simpl.
  destruct (path_ltb (fst e) (fst x)); simpl; [reflexivity|]. rewrite IH. reflexivity.
Qed.

Lemma psort_setc l : psort (map setc l) = map setc (psort l).
Proof. induction l as [|x r IH]; [reflexivity|]. simpl. rewrite IH. apply pinsert_setc. Qed.

Lemma filter_setc (P : list bytes -> bool) l :
  filter (fun y => P (fst y)) (map setc l) = map setc (filter (fun y => P (fst y)) l).
Proof.
  induction l as [|x r IH]; [reflexivity|]. simpl.
  destruct (P (fst x)); simpl; rewrite IH; reflexivity.
Qed.

Lemma fly_add_setc s x : fly_add (mapffs s) (setc x) = mapffs (fly_add s x).
Proof.
  unfold fly_add. cbn [setc fst].
  destruct (base_of (fst x)) as [|b r]; [reflexivity|].
  destruct (N.eqb b 66).
  { destruct s as [[bs0|] v rp]; cbn [mapffs f_base f_ver f_rep option_map setc fst].
    - destruct (bytes_ltb (flyway_version (fst x)) (flyway_version (fst bs0))); [reflexivity|].
      unfold mapffs. cbn [f_base f_ver f_rep option_map].
      rewrite (filter_setc (fun q => bytes_ltb (flyway_version (fst x)) (join_path q))). reflexivity.
    - unfold mapffs. cbn [f_base f_ver f_rep option_map].
      rewrite (filter_setc (fun q => bytes_ltb (flyway_version (fst x)) (join_path q))). reflexivity. }
  destruct (N.eqb b 86).
  { destruct s as [[bs0|] v rp]; cbn [mapffs f_base f_ver f_rep option_map setc fst].
    - destruct (bytes_ltb (flyway_version (fst bs0)) (flyway_version (fst x))); [|reflexivity].
      unfold mapffs. cbn [f_base f_ver f_rep option_map]. rewrite map_app. reflexivity.
    - unfold mapffs. cbn [f_base f_ver f_rep option_map]. rewrite map_app. reflexivity. }
  destruct (N.eqb b 82); [|reflexivity].
  unfold mapffs. cbn [f_base f_ver f_rep]. rewrite map_app. reflexivity.
Qed.

Lemma fly_fold_setc l s :
  fold_left fly_add (map setc l) (mapffs s) = mapffs (fold_left fly_add l s).
Proof.
  revert s; induction l as [|x r IH]; intros s; [reflexivity|]. simpl.
  rewrite fly_add_setc. apply IH.
Qed.

Lemma vinsert_right_setc e l : vinsert_right (setc e) (map setc l) = map setc (vinsert_right e l).
Proof.
  induction l as [|x r IH]; [reflexivity|]. simpl. unfold fly_less at 1. cbn [setc fst].
  fold (fly_less e x). destruct (fly_less e x); simpl; [reflexivity|]. rewrite IH. reflexivity.
Qed.

Lemma vsort_from_setc l acc :
  fold_left (fun a y => vinsert_right y a) (map setc l) (map setc acc)
  = map setc (fold_left (fun a y => vinsert_right y a) l acc).
Proof.
  revert acc; induction l as [|x r IH]; intros acc; [reflexivity|]. simpl.
  rewrite vinsert_right_setc. apply IH.
Qed.

Lemma vsort_setc l : vsort (map setc l) = map setc (vsort l).
Proof. unfold vsort. apply (vsort_from_setc l []). Qed.

Lemma fly_names_setc s : fly_names (mapffs s) = map setc (fly_names s).
Proof.
  unfold fly_names, mapffs. cbn [f_base f_ver f_rep]. rewrite !map_app, !vsort_setc.
  destruct (f_base s); reflexivity.
Qed.

Lemma fly_select_setc l : fly_select (map setc l) = map setc (fly_select l).
Proof.
  unfold fly_select. rewrite psort_setc.
  change (mk_ffs None [] []) with (mapffs (mk_ffs None [] [])) at 1.
  rewrite fly_fold_setc. apply fly_names_setc.
Qed.
End Relabel.

Definition path_eq_dec : forall p q : list bytes, {p = q} + {p <> q} := list_eq_dec bytes_eq_dec.

Lemma cand_path e x : In x (cand e) -> fst x = fst e.
Proof.
  unfold cand, flyway_candidate. destruct e as [p k]. destruct k as [c|]; simpl; [|tauto].
  destruct (visited p && is_sql (base_of p) && vbr (base_of p)); simpl; [|tauto].
  intros [H|[]]. subst. reflexivity.
Qed.

Lemma cand_setc_other g (t : tree) :
  (forall e x, In e t -> In x (cand e) -> g (fst x) (snd x) = snd x) ->
  map (setc g) (flat_map cand t) = flat_map cand t.
Proof.
  intros H. rewrite <- (map_id (flat_map cand t)) at 2. apply map_ext_in.
  intros x Hx. apply in_flat_map in Hx as [e [A B]]. unfold setc. rewrite (H e x A B).
  destruct x; reflexivity.
Qed.

Lemma flyway_read_edit_changes (t1 t2 : tree) p c c' :
  ~ In p (map fst (t1 ++ t2)) ->
  In (p, c) (flyway_selected (t1 ++ (p, KFile c) :: t2)) -> c <> c' ->
  flyway_files (t1 ++ (p, KFile c') :: t2) <> flyway_files (t1 ++ (p, KFile c) :: t2).
Proof.
  intros NI S Ne E.
  set (g := fun (q : list bytes) (x : bytes) => if path_eq_dec q p then c' else x).
  assert (C : flat_map cand (t1 ++ (p, KFile c') :: t2) = map (setc g) (flat_map cand (t1 ++ (p, KFile c) :: t2))).
  { rewrite !flat_map_app, !map_app. cbn [flat_map]. rewrite !map_app.
    rewrite (cand_setc_other g t1), (cand_setc_other g t2).
    - f_equal. f_equal. unfold cand, flyway_candidate. cbn [snd fst].
      destruct (visited p && is_sql (base_of p) && vbr (base_of p)); [|reflexivity].
      cbn [map]. unfold setc. cbn [fst snd]. unfold g. destruct (path_eq_dec p p); [reflexivity|contradiction].
    - intros e x A B. unfold g. destruct (path_eq_dec (fst x) p) as [Q|Q]; [|reflexivity].
      exfalso. apply NI. rewrite (cand_path e x B) in Q. rewrite <- Q. apply in_map. apply in_or_app. right. exact A.
    - intros e x A B. unfold g. destruct (path_eq_dec (fst x) p) as [Q|Q]; [|reflexivity].
      exfalso. apply NI. rewrite (cand_path e x B) in Q. rewrite <- Q. apply in_map. apply in_or_app. left. exact A. }
  rewrite !flyway_files_selected in E. unfold flyway_selected in E at 1. rewrite C, fly_select_setc in E.
  fold (flyway_selected (t1 ++ (p, KFile c) :: t2)) in E. rewrite map_map in E.
  apply map_ext_in_iff with (a := (p, c)) in E; [|exact S].
  unfold joined, setc in E. cbn [fst snd] in E. unfold g in E.
  destruct (path_eq_dec p p); [|contradiction]. inversion E. congruence.
Qed.
