(** M-DIR proofs, part 1: the sum file round trip
      unmarshal (marshal e) = UOk e
    and "an untouched directory validates" (C06 item 1).

    Everything about the hash is a section premise on its *shape* only
    ([hs_shape]: 44 base64 bytes); nothing is assumed about collisions. *)
From Coq Require Import List NArith Bool Arith Lia.
From Atlas Require Import Base.Bytes Base.ListX Dir.DirModel.
Import ListNotations.

(** ** generic byte-string lemmas *)
Lemma starts_with_app p s : starts_with p (p ++ s) = true.
Proof. induction p as [|x p IH]; simpl; [reflexivity|]. rewrite N.eqb_refl. exact IH. Qed.

Lemma starts_with_spec p s : starts_with p s = true <-> exists r, s = p ++ r.
Proof.
  split.
  - revert s; induction p as [|x p IH]; intros s H; simpl in *.
    + exists s; reflexivity.
    + destruct s as [|y s]; [discriminate|].
      apply andb_true_iff in H as [H1 H2]. apply N.eqb_eq in H1; subst.
      destruct (IH _ H2) as [r ->]. exists r; reflexivity.
  - intros [r ->]. apply starts_with_app.
Qed.

Lemma starts_with_length p s : starts_with p s = true -> length p <= length s.
Proof. intros H. apply starts_with_spec in H as [r ->]. rewrite app_length. lia. Qed.

Lemma trim_prefix_app p s : trim_prefix p (p ++ s) = s.
Proof.
  unfold trim_prefix. rewrite starts_with_app.
  rewrite skipn_app, skipn_all, Nat.sub_diag. reflexivity.
Qed.

(** ** the character classes of the hash *)
Definition b64 (c : N) : bool :=
  in_range 48 57 c || in_range 65 90 c || in_range 97 122 c || N.eqb c 43 || N.eqb c 47 || N.eqb c 61.

(** what [base64.StdEncoding.EncodeToString(sha256)] looks like *)
Definition hash_ok (h : bytes) : Prop := length h = 44 /\ forallb b64 h = true.

Lemma b64_cases c : b64 c = true ->
  c <> NL /\ c <> CR /\ c <> 58%N /\ c <> 46%N /\ ascii_space c = false /\ (c < 128)%N.
Proof.
  unfold b64, in_range, ascii_space, in_range, NL, CR. intros H.
  repeat (apply orb_true_iff in H as [H|H]);
    repeat match goal with
           | H : _ && _ = true |- _ => apply andb_true_iff in H as [? ?]
           | H : N.leb _ _ = true |- _ => apply N.leb_le in H
           | H : N.eqb _ _ = true |- _ => apply N.eqb_eq in H
           end;
    (repeat split; try lia;
     apply orb_false_iff; split; [apply andb_false_iff; first [left; apply N.leb_gt; lia | right; apply N.leb_gt; lia] | apply N.eqb_neq; lia]).
Qed.

(** ** bufio.Scanner lines *)
Definition no_nl (l : bytes) : Prop := Forall (fun c => c <> NL) l.

Lemma scan_lines_line l r : no_nl l -> scan_lines (l ++ NL :: r) = l :: scan_lines r.
Proof.
  induction 1 as [|c l Hc Hl IH]; simpl.
  - reflexivity.
  - destruct (N.eqb c NL) eqn:E; [apply N.eqb_eq in E; contradiction|].
    rewrite IH. reflexivity.
Qed.

Lemma drop_cr_cons c r : r <> [] -> drop_cr (c :: r) = c :: drop_cr r.
Proof. destruct r; [congruence|reflexivity]. Qed.

Lemma drop_cr_snoc l c : c <> CR -> drop_cr (l ++ [c]) = l ++ [c].
Proof.
  intros Hc. induction l as [|x l IH].
  - simpl. destruct (N.eqb c CR) eqn:E; [apply N.eqb_eq in E; contradiction|reflexivity].
  - change ((x :: l) ++ [c]) with (x :: (l ++ [c])). rewrite drop_cr_cons by (destruct l; discriminate). rewrite IH. reflexivity.
Qed.

Lemma hash_ok_snoc h : hash_ok h -> exists h' c, h = h' ++ [c] /\ c <> CR.
Proof.
  intros [L F]. destruct (exists_last (l := h)) as [h' [c E]].
  - intros ->. discriminate.
  - exists h', c. split; [exact E|]. subst h.
    rewrite forallb_app in F. apply andb_true_iff in F as [_ F]. simpl in F.
    rewrite andb_true_r in F. apply b64_cases in F. tauto.
Qed.

Lemma hash_ok_forall h : hash_ok h -> Forall (fun c => b64 c = true) h.
Proof. intros [_ F]. apply Forall_forall. apply forallb_forall. exact F. Qed.

Lemma hash_ok_no_nl h : hash_ok h -> no_nl h.
Proof.
  intros H. apply hash_ok_forall in H. unfold no_nl.
  eapply Forall_impl; [|exact H]. intros c Hc. apply b64_cases in Hc. tauto.
Qed.

(** ** strings.LastIndex(l, "h1:") *)
Lemma split_last_h1_cons c r :
  split_last_h1 (c :: r) =
  match split_last_h1 r with
  | Some (a, b) => Some (c :: a, b)
  | None => if starts_with s_h1 (c :: r) then Some ([], skipn 3 (c :: r)) else None
  end.
Proof. reflexivity. Qed.

Lemma split_last_h1_none l : Forall (fun c => c <> 58%N) l -> split_last_h1 l = None.
Proof.
  induction 1 as [|c l Hc Hl IH]; [reflexivity|].
  rewrite split_last_h1_cons, IH.
  destruct (starts_with s_h1 (c :: l)) eqn:E; [|reflexivity].
  apply starts_with_spec in E as [r E]. exfalso.
  assert (F : Forall (fun c => c <> 58%N) (c :: l)) by (constructor; assumption).
  rewrite E in F. unfold s_h1 in F. simpl in F.
  inversion F as [|? ? _ F1]; subst. inversion F1 as [|? ? _ F2]; subst.
  inversion F2 as [|? ? F3 _]; subst. congruence.
Qed.

Lemma split_last_h1_here h : Forall (fun c => c <> 58%N) h -> split_last_h1 (s_h1 ++ h) = Some ([], h).
Proof.
  intros H. unfold s_h1. simpl app.
  assert (E1 : split_last_h1 (58%N :: h) = None).
  { rewrite split_last_h1_cons, (split_last_h1_none _ H). reflexivity. }
  assert (E2 : split_last_h1 (49%N :: 58%N :: h) = None).
  { rewrite split_last_h1_cons, E1. reflexivity. }
  rewrite split_last_h1_cons, E2. reflexivity.
Qed.

Lemma split_last_h1_app p r a b :
  split_last_h1 r = Some (a, b) -> split_last_h1 (p ++ r) = Some (p ++ a, b).
Proof.
  intros H. induction p as [|c p IH]; simpl; [exact H|].
  rewrite IH. reflexivity.
Qed.

Lemma split_last_h1_line n h :
  Forall (fun c => c <> 58%N) h -> split_last_h1 (n ++ s_sp_h1 ++ h) = Some (n ++ [SP], h).
Proof.
  intros H. change s_sp_h1 with ([SP] ++ s_h1). rewrite <- app_assoc.
  rewrite (split_last_h1_app n ([SP] ++ s_h1 ++ h) [SP] h); [reflexivity|].
  rewrite (split_last_h1_app [SP] (s_h1 ++ h) [] h); [reflexivity|].
  apply split_last_h1_here; exact H.
Qed.

(** ** strings.TrimSpace *)
Lemma trim_left_length s : length (trim_left s) <= length s.
Proof.
  remember (length s) as k eqn:Hk. revert s Hk.
  induction k as [k IH] using lt_wf_ind. intros s Hk.
  destruct s as [|a r]; simpl; [lia|].
  destruct (ascii_space a).
  { simpl in Hk. specialize (IH (length r) ltac:(lia) r eq_refl). lia. }
  destruct r as [|b r']; [simpl in *; lia|].
  destruct (space2 a b).
  { simpl in Hk. specialize (IH (length r') ltac:(lia) r' eq_refl). simpl. lia. }
  destruct r' as [|c r'']; [simpl in *; lia|].
  destruct (space3 a b c).
  { simpl in Hk. specialize (IH (length r'') ltac:(lia) r'' eq_refl). simpl. lia. }
  simpl in *. lia.
Qed.

Lemma trim_left_rev_length s : length (trim_left_rev s) <= length s.
Proof.
  remember (length s) as k eqn:Hk. revert s Hk.
  induction k as [k IH] using lt_wf_ind. intros s Hk.
  destruct s as [|a r]; simpl; [lia|].
  destruct (ascii_space a).
  { simpl in Hk. specialize (IH (length r) ltac:(lia) r eq_refl). lia. }
  destruct r as [|b r']; [simpl in *; lia|].
  destruct (space2 b a).
  { simpl in Hk. specialize (IH (length r') ltac:(lia) r' eq_refl). simpl. lia. }
  destruct r' as [|c r'']; [simpl in *; lia|].
  destruct (space3 c b a).
  { simpl in Hk. specialize (IH (length r'') ltac:(lia) r'' eq_refl). simpl. lia. }
  simpl in *. lia.
Qed.

Lemma trim_right_length s : length (trim_right s) <= length s.
Proof.
  unfold trim_right. rewrite rev_length.
  pose proof (trim_left_rev_length (rev s)) as H. rewrite rev_length in H. exact H.
Qed.

(** [strings.TrimSpace(n) == n] splits into its two halves *)
Lemma trim_space_fix n : trim_space n = n -> trim_left n = n /\ trim_left_rev (rev n) = rev n.
Proof.
  intros H. unfold trim_space in H.
  assert (L1 : length (trim_left n) = length n).
  { pose proof (trim_right_length (trim_left n)) as A. pose proof (trim_left_length n) as B.
    rewrite H in A. lia. }
  assert (E : trim_left n = n).
  { clear H. destruct n as [|a r]; [reflexivity|].
    simpl in *. destruct (ascii_space a).
    { pose proof (trim_left_length r). lia. }
    destruct r as [|b r']; [reflexivity|].
    destruct (space2 a b).
    { pose proof (trim_left_length r'). simpl in *. lia. }
    destruct r' as [|c r'']; [reflexivity|].
    destruct (space3 a b c); [|reflexivity].
    pose proof (trim_left_length r''). simpl in *. lia. }
  split; [exact E|]. rewrite E in H. unfold trim_right in H.
  rewrite <- H at 2. rewrite rev_involutive. reflexivity.
Qed.

Lemma space2_sp a : space2 a SP = false.
Proof. unfold space2, SP. rewrite andb_false_iff. right. reflexivity. Qed.

Lemma space3_sp a b : space3 a b SP = false.
Proof.
  unfold space3, SP, in_range. simpl.
  rewrite !andb_false_r. reflexivity.
Qed.

(** the blank that MarshalText puts after the name is trimmed away again *)
Lemma trim_space_snoc_sp n : trim_space n = n -> trim_space (n ++ [SP]) = n.
Proof.
  intros H. apply trim_space_fix in H as [HL HR].
  unfold trim_space.
  assert (E : trim_left (n ++ [SP]) = match n with [] => [] | _ => n ++ [SP] end).
  { destruct n as [|a r]; [reflexivity|].
    simpl in HL |- *. destruct (ascii_space a).
    { pose proof (trim_left_length r) as A. rewrite HL in A. simpl in A. lia. }
    destruct r as [|b r']; simpl.
    { rewrite space2_sp. reflexivity. }
    destruct (space2 a b).
    { pose proof (trim_left_length r') as A. rewrite HL in A. simpl in A. lia. }
    destruct r' as [|c r'']; simpl.
    { rewrite space3_sp. reflexivity. }
    destruct (space3 a b c); [|reflexivity].
    pose proof (trim_left_length r'') as A. rewrite HL in A. simpl in A. lia. }
  rewrite E. destruct n as [|a r]; [reflexivity|].
  unfold trim_right. rewrite rev_app_distr.
  change (rev [SP] ++ rev (a :: r)) with (SP :: rev (a :: r)).
  remember (rev (a :: r)) as q eqn:Hq.
  change (trim_left_rev (SP :: q)) with (trim_left_rev q).
  rewrite HR, Hq. apply rev_involutive.
Qed.

(** ** names that survive the text format of atlas.sum:
    [strings.TrimSpace(n) == n && !strings.Contains(n, "\n")] *)
Definition name_ok (n : bytes) : bool :=
  bytes_eqb (trim_space n) n && forallb (fun c => negb (N.eqb c NL)) n.

Lemma name_ok_spec n : name_ok n = true <-> trim_space n = n /\ no_nl n.
Proof.
  unfold name_ok, no_nl. rewrite andb_true_iff, bytes_eqb_eq, forallb_forall, Forall_forall.
  split; intros [A B]; split; auto; intros c Hc; specialize (B c Hc).
  - intros ->. discriminate.
  - apply negb_true_iff. apply N.eqb_neq. exact B.
Qed.

(** what a hash field of a sum line must look like for the line to be read
    back as written: no line feed, no ':', does not end in '\r', not empty *)
Definition text_ok (h : bytes) : Prop :=
  Forall (fun c => c <> NL /\ c <> 58%N) h /\ exists h' c, h = h' ++ [c] /\ c <> CR.

Lemma hash_ok_text h : hash_ok h -> text_ok h.
Proof.
  intros H. split; [|apply hash_ok_snoc; exact H].
  apply hash_ok_forall in H. eapply Forall_impl; [|exact H].
  intros c Hc. apply b64_cases in Hc. tauto.
Qed.

Definition line_of (x : entry) : bytes := fst x ++ s_sp_h1 ++ snd x.

Lemma marshal_lines_cons x e : marshal_lines (x :: e) = line_of x ++ NL :: marshal_lines e.
Proof.
  unfold marshal_lines, line_of. cbn [map concat]. unfold s_sp_h1.
  rewrite <- !app_assoc. cbn [app]. repeat rewrite <- app_assoc. reflexivity.
Qed.

Lemma marshal_lines_scan e r :
  Forall (fun x => no_nl (line_of x)) e ->
  scan_lines (marshal_lines e ++ r) = map line_of e ++ scan_lines r.
Proof.
  induction 1 as [|x e Hx He IH]; [reflexivity|].
  rewrite marshal_lines_cons, <- app_assoc, <- app_comm_cons.
  rewrite scan_lines_line by exact Hx. rewrite IH. reflexivity.
Qed.

(** the well-formed entries: name passes [name_ok], hash field is [text_ok] *)
Definition entry_ok (x : entry) : Prop := name_ok (fst x) = true /\ text_ok (snd x).

Lemma text_ok_no_nl h : text_ok h -> no_nl h.
Proof. intros [F _]. unfold no_nl. eapply Forall_impl; [|exact F]. intros c [A _]; exact A. Qed.

Lemma entry_ok_line x : entry_ok x -> no_nl (line_of x).
Proof.
  intros [N H]. apply name_ok_spec in N as [_ N]. unfold line_of, no_nl in *.
  apply Forall_app; split; [exact N|]. apply Forall_app; split.
  - repeat constructor; discriminate.
  - apply text_ok_no_nl; exact H.
Qed.

Lemma entry_ok_drop_cr x : entry_ok x -> drop_cr (line_of x) = line_of x.
Proof.
  intros [_ [_ [h' [c [E Hc]]]]].
  unfold line_of. rewrite E. rewrite !app_assoc. apply drop_cr_snoc; exact Hc.
Qed.

Lemma entry_ok_split x : entry_ok x -> split_last_h1 (line_of x) = Some (fst x ++ [SP], snd x).
Proof.
  intros [_ [H _]]. apply split_last_h1_line.
  eapply Forall_impl; [|exact H]. intros c [_ A]; exact A.
Qed.

Lemma parse_lines_ok e : Forall entry_ok e -> parse_lines (map drop_cr (map line_of e)) = Some e.
Proof.
  induction 1 as [|x e Hx He IH]; simpl; [reflexivity|].
  rewrite (entry_ok_drop_cr _ Hx), (entry_ok_split _ Hx), IH.
  destruct Hx as [N _]. apply name_ok_spec in N as [N _].
  rewrite (trim_space_snoc_sp _ N). destruct x; reflexivity.
Qed.

(** a sum file with header sum [sum] and lines for [e] *)
Definition sumfile (sum : bytes) (e : list entry) : bytes := s_h1 ++ sum ++ [NL] ++ marshal_lines e.

Lemma header_line sum : text_ok sum -> no_nl (s_h1 ++ sum).
Proof.
  intros H. unfold no_nl. apply Forall_app; split.
  - repeat constructor; discriminate.
  - apply text_ok_no_nl. exact H.
Qed.

Lemma header_drop_cr sum : text_ok sum -> drop_cr (s_h1 ++ sum) = s_h1 ++ sum.
Proof.
  intros [_ [h' [c [E Hc]]]]. rewrite E, app_assoc. apply drop_cr_snoc; exact Hc.
Qed.

(** the lines bufio.Scanner sees *)
Lemma scan_sumfile sum e :
  text_ok sum -> Forall entry_ok e ->
  map drop_cr (scan_lines (sumfile sum e)) = (s_h1 ++ sum) :: map drop_cr (map line_of e).
Proof.
  intros Hs He. unfold sumfile.
  replace (s_h1 ++ sum ++ [NL] ++ marshal_lines e)
    with ((s_h1 ++ sum) ++ NL :: (marshal_lines e ++ []))
    by (rewrite app_nil_r, <- app_assoc; reflexivity).
  rewrite scan_lines_line by (apply header_line; exact Hs).
  rewrite marshal_lines_scan.
  - change (scan_lines []) with (@nil bytes). rewrite app_nil_r. cbn [map].
    rewrite header_drop_cr by exact Hs. reflexivity.
  - eapply Forall_impl; [|exact He]. apply entry_ok_line.
Qed.

Section Hash.
Variable HS : bytes -> bytes.

(** *** UnmarshalText of a well-formed sum file text: its entries, provided
    the header is their sum *)
Lemma unmarshal_sumfile sum e :
  text_ok sum -> Forall entry_ok e ->
  unmarshal HS (sumfile sum e) = if bytes_eqb sum (hf_sum HS e) then UOk e else UMismatch.
Proof.
  intros Hs He. unfold unmarshal. rewrite (scan_sumfile _ _ Hs He). simpl tl.
  rewrite (parse_lines_ok _ He). rewrite trim_prefix_app. reflexivity.
Qed.

Lemma marshal_sumfile e : marshal HS e = sumfile (hf_sum HS e) e.
Proof. reflexivity. Qed.

Hypothesis HS_shape : forall x, hash_ok (HS x).

(** *** UnmarshalText (MarshalText e) = e *)
Lemma unmarshal_marshal e : Forall entry_ok e -> unmarshal HS (marshal HS e) = UOk e.
Proof.
  intros He. rewrite marshal_sumfile, unmarshal_sumfile, bytes_eqb_refl; auto.
  apply hash_ok_text, HS_shape.
Qed.

(** ** NewHashFile *)
Lemma newhash_from_names acc fs x : In x (newhash_from HS acc fs) -> In (fst x) (map fst fs) /\ exists y, snd x = HS y.
Proof.
  revert acc; induction fs as [|[n c] r IH]; intros acc H; simpl in *; [contradiction|].
  destruct (sum_ignored c).
  - destruct (IH _ H) as [A B]. auto.
  - destruct H as [<-|H]; simpl; [eauto|]. destruct (IH _ H) as [A B]. auto.
Qed.

Definition names_ok (d : list file) : bool := forallb (fun f => name_ok (fst f)) d.

Lemma newhash_entries_ok d : names_ok d = true -> Forall entry_ok (newhash HS d).
Proof.
  intros H. apply Forall_forall. intros x Hx. apply newhash_from_names in Hx as [A [y B]].
  split.
  - apply in_map_iff in A as [f [E F]]. unfold names_ok in H. rewrite forallb_forall in H.
    rewrite <- E. apply H; exact F.
  - rewrite B. apply hash_ok_text, HS_shape.
Qed.

Lemma validate_hf_refl e : validate_hf HS e e = VOk.
Proof. unfold validate_hf. rewrite bytes_eqb_refl. reflexivity. Qed.

(** *** item 1: an untouched directory validates *)
Lemma untouched_validates_lemma d :
  names_ok d = true -> validate HS d (Some (marshal HS (newhash HS d))) = VOk.
Proof.
  intros H. unfold validate. rewrite unmarshal_marshal by (apply newhash_entries_ok; exact H).
  apply validate_hf_refl.
Qed.

End Hash.
