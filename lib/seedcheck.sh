#!/bin/bash
# usage: lib/seedcheck.sh <ID> <m> <module-rel-dir (. or cmd/atlas)> <pkg-rel-dir-in-module> <go test -run regex> [check ids...]
# Confirms a seeded change in the scratch worktree /tmp/seed/<ID>/repo: demo passes clean, patch applies+builds,
# demo fails with patch, the touched package's own tests still pass; then runs ./check for the given ids against it.
export GOFLAGS=-mod=mod GOPROXY=off
ID=$1; M=$2; MOD=$3; PKG=$4; RX=$5; shift 5
B=${SEEDBASE:-/tmp/seed}; R=$B/$ID/repo; O=$B/$ID/out/$M; L=$B/$ID/out/$M/confirm.log
: > $L
git -C $R checkout -q -- . && git -C $R clean -fdq && git -C $R checkout -q --detach $(git -C /repo rev-parse HEAD)
mkdir -p $R/$MOD/$PKG; cp $O/demo/*_test.go $R/$MOD/$PKG/ 2>/dev/null
(cd $R/$MOD && go test -vet=off -count=1 -run "$RX" ./$PKG/ ) >> $L 2>&1; clean_rc=$?
git -C $R apply $O/patch.diff || { echo "PATCH DOES NOT APPLY"; exit 2; }
(cd $R && go build ./... ) >> $L 2>&1; b1=$?
(cd $R/cmd/atlas && go build ./... ) >> $L 2>&1; b2=$?
(cd $R/$MOD && go test -vet=off -count=1 -run "$RX" ./$PKG/ ) >> $L 2>&1; mut_rc=$?
rm -f $R/$MOD/$PKG/seed*_test.go $R/$MOD/$PKG/*seed*_test.go
git -C $R status --short | grep -v '^ M' >> $L
(cd $R/$MOD && go test -vet=off -count=1 ./$PKG/ ) >> $L 2>&1; own_rc=$?
echo "SEED $ID/$M: demo clean rc=$clean_rc (want 0), build root=$b1 cli=$b2 (want 0), demo with patch rc=$mut_rc (want !=0), package tests with patch rc=$own_rc (want 0)"
for c in "$@"; do
  (cd ${VERIFDIR:-/verif} && VERIF_REPO=$R ./check $c --tier quick 2>&1 | grep -E "VIOLATION|KNOWN|class=|quick:|broken" | cut -c1-300)
done
git -C $R checkout -q -- . && git -C $R clean -fdq && git -C $R checkout -q --detach $(git -C /repo rev-parse HEAD)
git -C ${VERIFDIR:-/verif} checkout -- coq/theories/gen 2>/dev/null
