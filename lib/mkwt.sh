#!/bin/sh
# usage: lib/mkwt.sh <name>  -> /tmp/vw/<name>/{verif,repo}  (branch agent/<name> reset to main)
set -e
n=$1
mkdir -p /tmp/vw/$n
git -C /verif worktree prune; git -C /repo worktree prune
if [ ! -d /tmp/vw/$n/verif ]; then
  git -C /verif branch -f agent/$n main
  git -C /verif worktree add -q /tmp/vw/$n/verif agent/$n
fi
if [ ! -d /tmp/vw/$n/repo ]; then
  git -C /repo worktree add -q --detach /tmp/vw/$n/repo HEAD
fi
echo /tmp/vw/$n
