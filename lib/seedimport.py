#!/usr/bin/env python3
"""lib/seedimport.py <ID> <m> '<detected_by text>' ['<strengthened text>'] : copy a confirmed seeded change into seeded/<ID>-<m>/"""
import sys, os, json, shutil, glob
pid, m, det = sys.argv[1:4]
strengthened = sys.argv[4] if len(sys.argv) > 4 else ""
src = "%s/%s/out/%s" % (os.environ.get("SEEDBASE", "/tmp/seed"), pid, m)
dst = "/verif/seeded/%s-%s" % (pid, m)
shutil.rmtree(dst, ignore_errors=True)
os.makedirs(dst)
shutil.copy(src + "/patch.diff", dst)
for d in ["demo", "demo_cli"]:
    if os.path.isdir(src + "/" + d):
        shutil.copytree(src + "/" + d, dst + "/" + d)
meta = json.load(open(src + "/meta.json"))
meta["property"] = pid
meta["origin"] = "written by an independent sub-agent that saw only the property text and a scratch worktree of /repo"
conf = open(src + "/confirm.log").read()[-1500:] if os.path.exists(src + "/confirm.log") else ""
meta["confirmed_by_coordinator"] = {
    "how": "lib/seedcheck.sh in a scratch worktree: demo passes on the clean tree, patch applies, root module and cmd/atlas build, demo fails with the patch, the touched package's own tests pass with the patch (TestGitChangeDetector is environmental); the sub-agent ran the full suites of both modules",
    "log_tail": conf[-600:],
}
meta["detected_by"] = det
if strengthened:
    meta["strengthened"] = strengthened
json.dump(meta, open(dst + "/meta.json", "w"), indent=1)
print(dst)
