#!/usr/bin/env python3
"""lib/seedauto.py <base> <ID> <m> [check ids...] : derive module / package / -run regex from demo/RUN.md (or the demo test
file) and call lib/seedcheck.sh."""
import sys, os, re, glob, subprocess
base, pid, m = sys.argv[1:4]
checks = [c for c in sys.argv[4:] if c != "--nocheck"] or ([] if "--nocheck" in sys.argv else [pid])
d = "%s/%s/out/%s/demo" % (base, pid, m)
txt = open(d + "/RUN.md").read() if os.path.exists(d + "/RUN.md") else ""
tests = glob.glob(d + "/*_test.go")
funcs = []
for t in tests:
    funcs += re.findall(r"^func (Test\w+)\(", open(t).read(), re.M)
pkgdecl = re.search(r"^package (\w+)", open(tests[0]).read(), re.M).group(1) if tests else ""
line = next((l for l in txt.splitlines() if "go test" in l), "")
mrun = re.search(r"-run[ =]+'?\"?([^'\" ]+)", line)
rx = mrun.group(1) if mrun else "|".join(funcs)
mp = re.search(r"(\./[\w/\.-]+)/?\s*`?$", line.strip().rstrip("`"))
pkg = mp.group(1)[2:].rstrip("/") if mp else ""
mod = "."
if pkg.startswith("internal/") or pkg.startswith("cmd/atlas"):
    mod = "cmd/atlas"
    pkg = pkg.replace("cmd/atlas/", "")
if not pkg:
    # fall back: directory named in RUN.md
    mdir = re.search(r"`((?:cmd/atlas/|sql/|schemahcl)[\w/\.-]*)/?`", txt)
    if mdir:
        p = mdir.group(1).rstrip("/")
        if p.startswith("cmd/atlas/"):
            mod, pkg = "cmd/atlas", p[len("cmd/atlas/"):]
        else:
            pkg = p
print("seedauto: %s %s module=%s pkg=%s run=%s (package %s)" % (pid, m, mod, pkg, rx, pkgdecl), flush=True)
env = dict(os.environ, SEEDBASE=base)
sys.exit(subprocess.call(["/verif/lib/seedcheck.sh", pid, m, mod, pkg, rx] + checks, env=env))
