"""Shared logic of ./check (see its docstring)."""
import sys, os, json, subprocess, time, hashlib, re, glob, fcntl, shutil

REPO = os.environ.get("VERIF_REPO", "/repo")
ALLOWED_AXIOMS = {
    # standard-library axioms that may appear (named in DESIGN.md section 5); none is used so far
    "functional_extensionality_dep", "proof_irrelevance", "JMeq_eq", "eq_rect_eq", "classic",
    "FunctionalExtensionality.functional_extensionality_dep", "ProofIrrelevance.proof_irrelevance",
    "Eqdep.Eq_rect_eq.eq_rect_eq", "Classical_Prop.classic", "JMeq.JMeq_eq",
}
FORBIDDEN = re.compile(
    r"\b(Admitted|admit|Axiom|Axioms|Parameter|Parameters|Conjecture|Conjectures|bypass_check)\b"
    r"|Unset\s+Guard|Unset\s+Positivity|Unset\s+Universe|Admit\s+Obligations|type-in-type|impredicative-set")


def log(*a):
    print(*a, flush=True)


def goenv():
    e = dict(os.environ)
    e["GOFLAGS"] = "-mod=mod"
    e["GOPROXY"] = "off"
    # never set GOSUMDB / GOTOOLCHAIN here: cmd/atlas needs the cached go1.23.6 toolchain
    e.pop("GOSUMDB", None)
    e.pop("GOTOOLCHAIN", None)
    e["CGO_ENABLED"] = "1"
    return e


def run(cmd, cwd=None, env=None, timeout=3600, stdin=None, stdout=None):
    t0 = time.time()
    try:
        p = subprocess.run(cmd, cwd=cwd, env=env, timeout=timeout, stdin=stdin,
                           stdout=stdout if stdout is not None else subprocess.PIPE,
                           stderr=subprocess.STDOUT if stdout is None else subprocess.PIPE, text=True)
        out = p.stdout if stdout is None else (p.stderr or "")
        return p.returncode, out or "", time.time() - t0
    except subprocess.TimeoutExpired as ex:
        return 124, "TIMEOUT after %ss: %s" % (timeout, ex), time.time() - t0


class Lock:
    def __init__(self, root, name="build"):
        os.makedirs(os.path.join(root, "build"), exist_ok=True)
        self.path = os.path.join(root, "build", "." + name + ".lock")

    def __enter__(self):
        self.f = open(self.path, "w")
        fcntl.flock(self.f, fcntl.LOCK_EX)
        return self

    def __exit__(self, *a):
        fcntl.flock(self.f, fcntl.LOCK_UN)
        self.f.close()


def strip_comments(src):
    out, depth, i, n = [], 0, 0, len(src)
    instr = False
    while i < n:
        if depth == 0 and src[i] == '"':
            instr = not instr
            out.append(src[i]); i += 1; continue
        if not instr and src.startswith("(*", i):
            depth += 1; i += 2; continue
        if not instr and depth > 0 and src.startswith("*)", i):
            depth -= 1; i += 2; continue
        if depth == 0:
            out.append(src[i])
        i += 1
    return "".join(out)


def write_if_changed(path, content):
    try:
        if open(path).read() == content:
            return False
    except FileNotFoundError:
        pass
    os.makedirs(os.path.dirname(path), exist_ok=True)
    with open(path, "w") as f:
        f.write(content)
    return True


# --------------------------------------------------------------------------- Coq

def coq_files(root):
    fs = sorted(glob.glob(os.path.join(root, "coq", "theories", "**", "*.v"), recursive=True))
    return [os.path.relpath(f, os.path.join(root, "coq")) for f in fs]


def coq_build(root, clean=False):
    """Full .vo build of coq/ through coq_makefile + make. Returns (ok, log, cmd)."""
    cq = os.path.join(root, "coq")
    files = coq_files(root)
    proj = "-Q theories Atlas\n" + "\n".join(files) + "\n"
    changed = write_if_changed(os.path.join(cq, "_CoqProject"), proj)
    if changed or not os.path.exists(os.path.join(cq, "Makefile")):
        rc, out, _ = run(["coq_makefile", "-f", "_CoqProject", "-o", "Makefile"], cwd=cq)
        if rc != 0:
            return False, out, "coq_makefile"
    if clean:
        run(["make", "clean"], cwd=cq)
    cmd = "cd coq && coq_makefile -f _CoqProject -o Makefile && make -k -j16"
    rc, out, _ = run(["make", "-k", "-j16"], cwd=cq, timeout=3000)
    return rc == 0, out, cmd


def coq_closure(root, rel):
    """Set of theories/*.v files the given file transitively depends on (through coqdep), itself included."""
    cq = os.path.join(root, "coq")
    files = coq_files(root)
    rc, out, _ = run(["coqdep", "-Q", "theories", "Atlas"] + files, cwd=cq, timeout=600)
    deps = {}
    for line in out.splitlines():
        if ":" not in line:
            continue
        lhs, rhs = line.split(":", 1)
        tg = [t for t in lhs.split() if t.endswith(".vo")]
        if not tg:
            continue
        src = tg[0][:-1]
        deps.setdefault(src, set()).update(d[:-1] for d in rhs.split() if d.endswith(".vo"))
    seen, todo = set(), [rel]
    while todo:
        f = todo.pop()
        if f in seen:
            continue
        seen.add(f)
        todo += list(deps.get(f, ()))
    return seen


def coq_failed_files(out):
    """theories/*.v files whose compilation failed in a `make -k` log."""
    bad = set()
    for m in re.finditer(r"\*\*\* \[[^\]]*?:\s*(theories/\S+?)\.vo\]", out):
        bad.add(m.group(1) + ".v")
    for m in re.finditer(r'File "\./(theories/[^"]+\.v)", line \d+, characters [\d-]+:\s*\nError', out):
        bad.add(m.group(1))
    return bad


def forbidden_scan(root):
    bad = []
    for f in coq_files(root) + [os.path.relpath(p, os.path.join(root, "coq")) for p in glob.glob(os.path.join(root, "ocaml", "*", "Extract.v"))]:
        p = os.path.join(root, "coq", f)
        src = strip_comments(open(p).read())
        for m in FORBIDDEN.finditer(src):
            bad.append("%s: %s" % (f, m.group(0)))
    return bad


def props_check(root, cfg):
    """Recompile Props_Cxx.v, return dict with obligations/discharged/assumption blocks."""
    cq = os.path.join(root, "coq")
    rel = cfg["props_file"]
    src = open(os.path.join(cq, rel)).read()
    code = strip_comments(src)
    theorems = re.findall(r"^\s*Theorem\s+([A-Za-z0-9_']+)", code, re.M)
    prints = re.findall(r"^\s*Print\s+Assumptions\s+([A-Za-z0-9_'.]+)\s*\.", code, re.M)
    examples = re.findall(r"^\s*Example\s+([A-Za-z0-9_']+)", code, re.M)
    tmpdir = os.path.join(root, "build", "props")
    os.makedirs(tmpdir, exist_ok=True)
    vo = os.path.join(tmpdir, os.path.basename(rel) + "o")
    cmd = ["coqc", "-Q", "theories", "Atlas", rel, "-o", vo]
    rc, out, secs = run(cmd, cwd=cq, timeout=1800)
    blocks, cur = [], None
    for line in out.splitlines():
        if line.startswith("Closed under the global context"):
            blocks.append({"closed": True, "axioms": []}); cur = None
        elif line.startswith("Axioms:"):
            cur = {"closed": False, "axioms": []}; blocks.append(cur)
        elif cur is not None and re.match(r"^[A-Za-z_][A-Za-z0-9_.']*\s*:", line):
            cur["axioms"].append(line.split(":")[0].strip())
    problems = []
    if rc != 0:
        problems.append("coqc failed on %s: %s" % (rel, out[-1500:]))
    if len(prints) != len(theorems) or set(prints) != set(theorems):
        problems.append("every Theorem needs its Print Assumptions (theorems=%s prints=%s)" % (theorems, prints))
    if rc == 0 and len(blocks) != len(prints):
        problems.append("expected %d assumption blocks, got %d" % (len(prints), len(blocks)))
    axioms_used = sorted({a for b in blocks for a in b["axioms"]})
    for a in axioms_used:
        if a not in ALLOWED_AXIOMS and a.split(".")[-1] not in ALLOWED_AXIOMS:
            problems.append("theorem depends on non-allowed axiom %s" % a)
    discharged = len(theorems) if not problems else 0
    return {
        "theorems": theorems, "examples": examples, "obligations": len(theorems), "discharged": discharged,
        "assumption_blocks": blocks, "axioms_used": axioms_used, "problems": problems,
        "checker_cmd": "cd coq && make -j16 && coqc -Q theories Atlas %s" % rel, "coqc_s": round(secs, 1),
    }


# --------------------------------------------------------------------------- builds

def sha_files(paths):
    h = hashlib.sha1()
    for p in sorted(paths):
        h.update(p.encode()); h.update(open(p, "rb").read())
    return h.hexdigest()


def model_build(root, engine):
    src = os.path.join(root, "ocaml", engine)
    bdir = os.path.join(root, "build", "ocaml", engine)
    binp = os.path.join(root, "build", "model_" + engine)
    inputs = glob.glob(os.path.join(src, "*")) + glob.glob(os.path.join(root, "ocaml", "common", "*.ml")) + \
        [p for p in glob.glob(os.path.join(root, "coq", "theories", "**", "*.v"), recursive=True) if "/Props/" not in p]
    inputs = [p for p in inputs if os.path.isfile(p)]
    stamp = sha_files(inputs)
    sp = os.path.join(bdir, ".stamp")
    if os.path.exists(binp) and os.path.exists(sp) and open(sp).read() == stamp:
        return True, "up to date"
    shutil.rmtree(bdir, ignore_errors=True)
    os.makedirs(bdir)
    for p in glob.glob(os.path.join(src, "*")) + glob.glob(os.path.join(root, "ocaml", "common", "*.ml")):
        if os.path.isfile(p):
            shutil.copy(p, bdir)
    rc, out, _ = run(["coqc", "-Q", os.path.join(root, "coq", "theories"), "Atlas", "Extract.v"], cwd=bdir, timeout=1200)
    if rc != 0:
        return False, "extraction failed: " + out[-2000:]
    commons = [os.path.basename(p) for p in sorted(glob.glob(os.path.join(root, "ocaml", "common", "*.ml")))]
    extra = [f for f in sorted(os.listdir(bdir)) if f.endswith(".ml") and f not in commons + ["model.ml", "driver.ml"]]
    cmd = ["ocamlfind", "ocamlopt", "-O3", "-w", "-a", "-package", "str,unix", "-linkpkg"] + commons + ["model.mli", "model.ml"] + extra + ["driver.ml", "-o", binp]
    rc, out, _ = run(cmd, cwd=bdir, timeout=1200)
    if rc != 0 and "-O3" in out:
        pass
    if rc != 0:
        cmd.remove("-O3")
        rc, out, _ = run(cmd, cwd=bdir, timeout=1200)
    if rc != 0:
        return False, "ocaml build failed: " + out[-2000:]
    open(sp, "w").write(stamp)
    return True, "built"


def harness_prepare(root):
    """Write build/harness.mod + build/harness.sum (the tracked harness/go.mod with its replace pointed at REPO);
    the tracked go.mod / go.sum are never rewritten."""
    hs = os.path.join(root, "harness")
    os.makedirs(os.path.join(root, "build"), exist_ok=True)
    sums = set()
    for p in [os.path.join(REPO, "go.sum"), os.path.join(REPO, "cmd", "atlas", "go.sum"), os.path.join(hs, "go.sum.extra")]:
        if os.path.exists(p):
            sums.update(l for l in open(p).read().splitlines() if l.strip())
    write_if_changed(os.path.join(root, "build", "harness.sum"), "\n".join(sorted(sums)) + "\n")
    mod = open(os.path.join(hs, "go.mod")).read()
    mod2 = re.sub(r"replace ariga\.io/atlas => \S+", "replace ariga.io/atlas => " + REPO, mod)
    write_if_changed(os.path.join(root, "build", "harness.mod"), mod2)
    return os.path.join(root, "build", "harness.mod")


def harness_build(root, engine):
    modfile = harness_prepare(root)
    binp = os.path.join(root, "build", "h_" + engine)
    rc, out, _ = run(["go", "build", "-modfile=" + modfile, "-tags", "verif", "-o", binp, "./cmd/" + engine],
                     cwd=os.path.join(root, "harness"), env=goenv(), timeout=1800)
    return rc == 0, out


def run_gen(root, g):
    """Run a generator harness: h_<harness> <args> -out coq/theories/gen (it must rewrite files only when content changes)."""
    okh, outh = harness_build(root, g["harness"])
    if not okh:
        return False, "harness build failed: " + outh[-1500:]
    env = goenv(); env["VERIF_ROOT"] = root; env["VERIF_REPO"] = REPO
    gdir = os.path.join(root, "coq", "theories", "gen")
    os.makedirs(gdir, exist_ok=True)
    rc, out, _ = run([os.path.join(root, "build", "h_" + g["harness"])] + g["args"] + ["-out", gdir], env=env, timeout=900)
    if rc != 0:
        return False, "generator failed: " + out[-1500:]
    return True, "ok"


def cli_build(root):
    binp = os.path.join(root, "build", "atlas")
    rc, out, _ = run(["go", "build", "-tags", "verif", "-o", binp, "."],
                     cwd=os.path.join(REPO, "cmd", "atlas"), env=goenv(), timeout=2400)
    return rc == 0, out


# --------------------------------------------------------------------------- findings

def load_known(root, pid):
    """Open findings of a property: known_findings.json plus known_findings.d/*.json (same format)."""
    out = []
    for p in [os.path.join(root, "known_findings.json")] + sorted(glob.glob(os.path.join(root, "known_findings.d", "*.json"))):
        if not os.path.exists(p):
            continue
        data = json.load(open(p))
        out += [f for f in data.get("findings", []) if f.get("property") == pid and f.get("status", "open") == "open"]
    return out


def match_known(known, cls, msg):
    for k in known:
        if k.get("class") == cls and (not k.get("match") or re.search(k["match"], msg)):
            return k
    return None


# --------------------------------------------------------------------------- main pipeline

def load_cfg(root, pid):
    p = os.path.join(root, "props", pid + ".json")
    if not os.path.exists(p):
        raise SystemExit("unknown property %s (no %s)" % (pid, p))
    return json.load(open(p))


def read_lines(p):
    if not os.path.exists(p):
        return []
    with open(p, errors="replace") as f:
        return f.read().splitlines()


def diff_obs(impl, model, limit=20):
    """Compare observation lines keyed by case id (first token); order-insensitive between cases."""
    def index(lines):
        d = {}
        for l in lines:
            k = l.split(" ", 1)[0]
            d.setdefault(k, []).append(l)
        return d
    a, b = index(impl), index(model)
    bad = []
    for k in a:
        if a[k] != b.get(k):
            bad.append(k)
    for k in b:
        if k not in a:
            bad.append(k)
    return bad, len(impl)


def run_stage(root, cfg, stage, tier, seed, work):
    """Run one harness stage (+ model). Returns dict."""
    os.makedirs(work, exist_ok=True)
    for f in ["cases.txt", "impl.txt", "model.txt", "oracle.txt", "stats.json"]:
        try:
            os.remove(os.path.join(work, f))
        except FileNotFoundError:
            pass
    env = goenv()
    env["VERIF_SEED"] = str(seed)
    env["VERIF_TIER"] = tier
    env["ATLAS_BIN"] = os.path.join(root, "build", "atlas")
    env["VERIF_ROOT"] = root
    env["VERIF_REPO"] = REPO
    hbin = os.path.join(root, "build", "h_" + stage["harness"])
    cmd = [hbin] + stage.get("harness_args", []) + ["-tier", tier, "-out", work]
    tmo = stage.get("timeout_quick", 900) if tier == "quick" else stage.get("timeout_thorough", 7200)
    rc, out, secs = run(cmd, env=env, timeout=tmo, cwd=work)
    res = {"harness_rc": rc, "harness_out": out[-3000:], "harness_s": round(secs, 1), "problems": []}
    if rc != 0:
        res["problems"].append("harness %s exited %d: %s" % (" ".join(cmd), rc, out[-1500:]))
    stats = {}
    sp = os.path.join(work, "stats.json")
    if os.path.exists(sp):
        stats = json.load(open(sp))
    res["stats"] = stats
    # model
    mism, compared = [], 0
    if stage.get("model"):
        mbin = os.path.join(root, "build", "model_" + stage["model"])
        cpath = os.path.join(work, "cases.txt")
        if not os.path.exists(cpath):
            # the harness died before writing any case (e.g. the real code panics or exits in package init)
            res["problems"].append("harness wrote no cases.txt (it exited %d before generating cases)" % rc)
            open(cpath, "w").close()
        with open(cpath) as fin, open(os.path.join(work, "model.txt"), "w") as fout:
            rc2, err, msecs = run([mbin] + stage.get("model_args", []), stdin=fin, stdout=fout, timeout=tmo)
        res["model_s"] = round(msecs, 1)
        if rc2 != 0:
            res["problems"].append("model exited %d: %s" % (rc2, err[-1500:]))
        impl = read_lines(os.path.join(work, "impl.txt"))
        model = read_lines(os.path.join(work, "model.txt"))
        mism, compared = diff_obs(impl, model)
    res["mismatch_ids"] = mism
    res["compared_lines"] = compared
    # oracle
    viol = []
    for l in read_lines(os.path.join(work, "oracle.txt")):
        parts = l.split("\t", 2)
        if len(parts) == 3:
            viol.append(parts)
    res["oracle"] = viol
    return res


def case_lines(work, cid):
    d = {}
    for f in ["cases.txt", "impl.txt", "model.txt", "oracle.txt"]:
        ls = [l for l in read_lines(os.path.join(work, f)) if l.split(" ", 1)[0].split("\t", 1)[0] == cid]
        d[f] = [l[:20000] for l in ls[:50]]
    return d


def main(root, argv):
    if not argv:
        print(__doc__); return 2
    if argv[0] == "--setup":
        return setup(root)
    pid = argv[0]
    tier = os.environ.get("VERIF_TIER", "quick")
    replay = None
    i = 1
    while i < len(argv):
        if argv[i] == "--tier":
            tier = argv[i + 1]; i += 2
        elif argv[i] == "--replay":
            replay = argv[i + 1]; i += 2
        else:
            print("unknown argument", argv[i]); return 2
    if tier not in ("quick", "thorough"):
        tier = "quick"
    try:
        seed = int(os.environ.get("VERIF_SEED", "1"))
    except ValueError:
        seed = 1
    if replay:
        return do_replay(root, pid, replay)
    return check(root, pid, tier, seed)


def setup(root):
    t0 = time.time()
    with Lock(root):
        for p in sorted(glob.glob(os.path.join(root, "props", "C*.json"))):
            cfg = json.load(open(p))
            if cfg.get("claimed") is False or not cfg.get("gen"):
                continue
            ok, out = run_gen(root, cfg["gen"])
            log("gen", cfg["id"], "ok" if ok else "FAILED " + out)
            if not ok:
                return 1
        ok, out, _ = coq_build(root)
        log("coq build:", "ok" if ok else "FAILED")
        if not ok:
            log(out[-3000:]); return 1
        engines, harnesses, need_cli = set(), set(), False
        for p in sorted(glob.glob(os.path.join(root, "props", "C*.json"))):
            cfg = json.load(open(p))
            if cfg.get("claimed") is False:
                continue
            for st in cfg["stages"]:
                if st.get("model"):
                    engines.add(st["model"])
                harnesses.add(st["harness"])
            need_cli = need_cli or cfg.get("needs_cli", False)
        for e in sorted(engines):
            ok, out = model_build(root, e)
            log("model", e, "ok" if ok else "FAILED " + out)
            if not ok:
                return 1
        for h in sorted(harnesses):
            ok, out = harness_build(root, h)
            log("harness", h, "ok" if ok else "FAILED " + out)
            if not ok:
                return 1
        if need_cli:
            ok, out = cli_build(root)
            log("atlas cli", "ok" if ok else "FAILED " + out)
            if not ok:
                return 1
    log("setup done in %.0fs" % (time.time() - t0))
    return 0


def check(root, pid, tier, seed, write_evidence=True):
    t0 = time.time()
    cfg = load_cfg(root, pid)
    known = load_known(root, pid)
    problems_proof, problems_corr = [], []
    # ---- 1. proofs
    with Lock(root):
        if cfg.get("gen"):
            # regenerate the table-driven model parts from the running Go code (the translator, DESIGN 2.4)
            okg, outg = run_gen(root, cfg["gen"])
            if not okg:
                problems_corr.append(outg)
        ok, out, cmd = coq_build(root, clean=(tier == "thorough" and os.environ.get("VERIF_NO_CLEAN") != "1"))
        if not ok:
            # a file outside this property's dependency closure may be broken (another property's obligation):
            # that is not this property's concern. Only failures inside the closure count.
            failed = coq_failed_files(out)
            closure = coq_closure(root, cfg["props_file"])
            mine = sorted(failed & closure)
            if mine or not failed:
                problems_proof.append("coq build failed (%s): %s" % (", ".join(mine) or "make", out[-2500:]))
            else:
                log("  note: coq files outside %s's closure fail to build: %s" % (pid, ", ".join(sorted(failed))))
                ok = True
        bad = forbidden_scan(root)
        if bad:
            problems_proof.append("forbidden vernacular: " + "; ".join(bad[:10]))
        pc = props_check(root, cfg) if ok else {"theorems": [], "examples": [], "obligations": len(re.findall(r"^\s*Theorem\s", strip_comments(open(os.path.join(root, "coq", cfg["props_file"])).read()), re.M)), "discharged": 0, "assumption_blocks": [], "axioms_used": [], "problems": [], "checker_cmd": cmd, "coqc_s": 0}
        problems_proof += pc["problems"]
        coqchk_out = None
        if tier == "thorough" and ok and os.environ.get("VERIF_NO_COQCHK") != "1":
            lib = "Atlas." + cfg["props_file"][len("theories/"):-2].replace("/", ".")
            rc, out, secs = run(["coqchk", "-silent", "-o", "-Q", "theories", "Atlas", lib], cwd=os.path.join(root, "coq"), timeout=5400)
            coqchk_out = out[-4000:]
            if rc != 0:
                problems_proof.append("coqchk failed: " + out[-1500:])
        # ---- 2. builds
        for st in cfg["stages"]:
            if st.get("model"):
                okm, outm = model_build(root, st["model"])
                if not okm:
                    problems_corr.append("model build failed: " + outm[-1500:])
            okh, outh = harness_build(root, st["harness"])
            if not okh:
                problems_corr.append("harness build failed (does /repo still compile with -tags verif?): " + outh[-1500:])
        if cfg.get("needs_cli"):
            okc, outc = cli_build(root)
            if not okc:
                problems_corr.append("atlas CLI build failed: " + outc[-1500:])
    # ---- 3. run
    stage_results = []
    new_viol, known_hits = [], {}
    evals = nontriv = compared = 0
    samples, dist, rules = [], {}, []
    exhaustive = True
    for idx, st in enumerate(cfg["stages"]):
        work = os.path.join(root, "work", pid, st.get("name", "s%d" % idx))
        if any("build failed" in p for p in problems_corr):
            break
        r = run_stage(root, cfg, st, tier, seed, work)
        r["work"] = work
        stage_results.append(r)
        problems_corr += r["problems"]
        if r["mismatch_ids"]:
            problems_corr.append("stage %s: model and implementation disagree on %d case(s), first: %s" % (st.get("name", idx), len(r["mismatch_ids"]), r["mismatch_ids"][:5]))
        s = r["stats"]
        evals += s.get("evaluations") or 0; nontriv += s.get("distinct_nontrivial") or 0
        compared += r["compared_lines"]
        samples += (s.get("samples") or [])[:4]
        for k, v in (s.get("distribution") or {}).items():
            dist["%s/%s" % (st.get("name", idx), k)] = v
        if s.get("rule"):
            rules.append("[%s] %s" % (st.get("name", idx), s["rule"]))
        exhaustive = exhaustive and bool(s.get("exhaustive"))
        for cid, cls, msg in r["oracle"]:
            k = match_known(known, cls, msg)
            if k is not None:
                known_hits.setdefault(k["id"], [k, 0, cid, msg])[1] += 1
            else:
                new_viol.append((cid, cls, msg, work))
    # ---- 4. verdict
    os.makedirs(os.path.join(root, "replay"), exist_ok=True)
    rc = 0
    for kid, (k, n, cid, msg) in sorted(known_hits.items()):
        log("KNOWN-FINDING: property=%s %s [%s; %d case(s), e.g. %s]" % (pid, k["what_fails"], kid, n, cid))
    viol_lines = 0
    if new_viol:
        seen_cls = set()
        for cid, cls, msg, work in new_viol:
            if cls in seen_cls or len(seen_cls) >= 5:
                continue
            seen_cls.add(cls)
            h = hashlib.sha1((pid + cid + cls).encode()).hexdigest()[:10]
            rp = os.path.join(root, "replay", "%s-%s.json" % (pid, h))
            json.dump({"property": pid, "kind": "failing-input", "class": cls, "message": msg, "case_id": cid,
                       "tier": tier, "seed": seed, "stage_work": os.path.relpath(work, root), "lines": case_lines(work, cid),
                       "how_to_replay": "./check %s --replay %s" % (pid, os.path.relpath(rp, root))}, open(rp, "w"), indent=1)
            log("VIOLATION property=%s replay=%s" % (pid, rp))
            log("  class=%s case=%s: %s" % (cls, cid, msg[:500]))
            viol_lines += 1
        rc = 1
    elif problems_proof or problems_corr:
        h = hashlib.sha1((pid + json.dumps(problems_proof + problems_corr)).encode()).hexdigest()[:10]
        rp = os.path.join(root, "replay", "%s-%s.json" % (pid, h))
        first = None
        for r in stage_results:
            if r["mismatch_ids"]:
                first = {"case_id": r["mismatch_ids"][0], "lines": case_lines(r["work"], r["mismatch_ids"][0])}
                break
        json.dump({"property": pid, "kind": "no-failing-input-found",
                   "broken_proof_obligations": problems_proof, "broken_correspondence": problems_corr,
                   "theorems": pc["theorems"], "first_disagreement": first, "tier": tier, "seed": seed,
                   "note": "a proof obligation or the model/implementation correspondence no longer checks; the oracle "
                           "found no input on which the real code violates the property in %d evaluations" % evals},
                  open(rp, "w"), indent=1)
        for p in (problems_proof + problems_corr)[:6]:
            log("  broken: " + p[:1200])
        log("VIOLATION property=%s replay=%s no-failing-input-found" % (pid, rp))
        viol_lines += 1
        rc = 1
    wall = time.time() - t0
    if write_evidence:
        ev = {
            "property_id": pid, "tier": tier, "seed": seed, "level": "proof",
            "coverage": {
                "obligations": pc["obligations"], "discharged": pc["discharged"] if not problems_proof else 0,
                "checker_cmd": pc["checker_cmd"] + (" ; coqchk -silent -o (thorough)" if tier == "thorough" else ""),
                "trusted_base": cfg.get("trusted_base", []),
                "theorems": pc["theorems"], "nonvacuity_examples": pc["examples"],
                "print_assumptions": [("Closed under the global context" if b["closed"] else "Axioms: " + ", ".join(b["axioms"])) for b in pc["assumption_blocks"]],
                "axioms_used": pc["axioms_used"],
                "coqchk": coqchk_out,
                "evaluations": evals, "distinct_nontrivial": nontriv,
                "rule": " ".join(rules), "samples": samples[:8], "exhaustive": exhaustive,
                "traces_validated_against_impl": compared,
                "correspondence": {"observation_lines_compared": compared,
                                   "disagreeing_cases": sum(len(r["mismatch_ids"]) for r in stage_results),
                                   "stages": [{"name": st.get("name", i), "harness_s": r.get("harness_s"), "model_s": r.get("model_s")} for i, (st, r) in enumerate(zip(cfg["stages"], stage_results))]},
                "oracle": {"new_violations": len(new_viol), "known_finding_hits": {k: v[1] for k, v in known_hits.items()}},
                "distribution": dist,
                "broken": (problems_proof + problems_corr)[:6],
                "explanation": cfg.get("explanation", ""),
            },
            "assumptions": cfg.get("assumptions", []),
            "wall_s": round(wall, 1),
            "violations": viol_lines,
        }
        # evidence describes /repo itself; runs against another tree (VERIF_REPO=<scratch worktree>, used to
        # try seeded changes) leave the committed evidence alone
        evdir = os.path.join(root, "evidence") if os.path.realpath(REPO) == "/repo" else os.path.join(root, "work", "evidence-scratch")
        os.makedirs(evdir, exist_ok=True)
        json.dump(ev, open(os.path.join(evdir, pid + ".json"), "w"), indent=1)
    log("%s %s: theorems %d/%d, %d cases (%d non-trivial), %d observation lines compared, %d new violation(s), %d known; %.0fs -> %s"
        % (pid, tier, pc["discharged"] if not problems_proof else 0, pc["obligations"], evals, nontriv, compared, len(new_viol), len(known_hits), wall, "OK" if rc == 0 else "FAIL"))
    return rc


def do_replay(root, pid, path):
    rp = json.load(open(path))
    log("replaying %s (kind=%s) with tier=%s seed=%s" % (path, rp.get("kind"), rp.get("tier"), rp.get("seed")))
    rc = check(root, pid, rp.get("tier", "quick"), rp.get("seed", 1), write_evidence=False)
    cid = rp.get("case_id") or (rp.get("first_disagreement") or {}).get("case_id")
    if cid:
        cfg = load_cfg(root, pid)
        for idx, st in enumerate(cfg["stages"]):
            work = os.path.join(root, "work", pid, st.get("name", "s%d" % idx))
            ls = case_lines(work, cid)
            if any(ls.values()):
                log("case %s now:" % cid)
                for f, l in ls.items():
                    for x in l:
                        log("  %s: %s" % (f, x[:2000]))
    return rc
