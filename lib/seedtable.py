#!/usr/bin/env python3
"""lib/seedtable.py : markdown table of seeded/*/meta.json (id, what it needs, first verdict, verdict now)."""
import json, glob, os, re
def txt(v):
    return v if isinstance(v, str) else json.dumps(v)
rows = []
for p in sorted(glob.glob("/verif/seeded/*/meta.json")):
    d = os.path.basename(os.path.dirname(p))
    m = json.load(open(p))
    need = re.sub(r"\s+", " ", txt(m.get("needs_to_manifest", "")))[:230]
    what = re.sub(r"\s+", " ", txt(m.get("summary", "")))[:170]
    first = re.sub(r"\s+", " ", txt(m.get("detected_by", "")))[:200]
    now = re.sub(r"\s+", " ", txt(m.get("detected_by_now", m.get("status_now", ""))))[:200]
    rows.append("| %s | %s — needs: %s | %s | %s |" % (d, what.replace("|", "/"), need.replace("|", "/"), first.replace("|", "/"), (now or "same").replace("|", "/")))
print("| id | change (needs …) | first | now |\n|----|------------------|-------|-----|")
print("\n".join(rows))
