#!/usr/bin/env python3
"""Regenerates MANIFEST.json from props/*.json (single source of truth)."""
import json, glob, os
ROOT = os.path.dirname(os.path.dirname(os.path.abspath(__file__)))
ALL = ["C%02d" % i for i in range(1, 21)]
checks, claimed = [], set()
for p in sorted(glob.glob(os.path.join(ROOT, "props", "C*.json"))):
    c = json.load(open(p))
    pid = c["id"]
    if c.get("claimed") is False:
        continue
    claimed.add(pid)
    checks.append({
        "property_id": pid,
        "quick_cmd": "./check %s --tier quick" % pid,
        "thorough_cmd": "./check %s --tier thorough" % pid,
        "evidence_file": "/verif/evidence/%s.json" % pid,
        "replay_cmd_template": "./check %s --replay {path}" % pid,
        "engine": ",".join(sorted({s.get("model") or s["harness"] for s in c["stages"]})),
        "level_claimed": {"category": "proof", "text": c["level_text"], "design_ref": c.get("design_ref", "DESIGN.md section 4, " + pid)},
        "level_note": c["level_note"],
        "technique": c["technique"],
    })
eng = {}
for p in sorted(glob.glob(os.path.join(ROOT, "props", "C*.json"))):
    c = json.load(open(p))
    if c.get("claimed") is False:
        continue
    for st in c["stages"]:
        for kind, name in (("model", st.get("model")), ("harness", st["harness"])):
            if not name:
                continue
            key = (kind, name)
            e = eng.setdefault(key, {"name": "%s:%s" % (kind, name),
                                     "path": ("/verif/ocaml/%s (extracted from /verif/coq/theories by Extract.v)" % name) if kind == "model" else "/verif/harness/cmd/%s" % name,
                                     "serves_properties": [],
                                     "kind_free_text": "Coq model extracted to OCaml (ExtrOcamlBasic), run on the harness' cases" if kind == "model" else "Go generator + runner of the real code (-tags verif, replace ariga.io/atlas => /repo) + property oracle"})
            if c["id"] not in e["serves_properties"]:
                e["serves_properties"].append(c["id"])
engines = [eng[k] for k in sorted(eng)]
na_path = os.path.join(ROOT, "props", "not_applicable.json")
na = json.load(open(na_path)) if os.path.exists(na_path) else {}
not_applicable = [{"property_id": p, "reason": na.get(p, "check not built yet in this revision of /verif (planned, see DESIGN.md section 4); not claimed until its theorem and correspondence run exist")} for p in ALL if p not in claimed]
m = {
    "version": 1,
    "setup_cmd": "./check --setup",
    "hooks": {
        "guard": "verif",
        "enable": "go build -tags verif (the harness under /verif/harness and /repo/cmd/atlas are built with -tags verif by ./check)",
        "baseline_off_cmd": "cd /repo && for m in . cmd/atlas internal/integration; do (cd $m && GOFLAGS=-mod=mod go test -json -vet=off -count=1 -timeout 25m ./...); done",
        "source_commits": json.load(open(os.path.join(ROOT, "props", "hooks.json")))["source_commits"] if os.path.exists(os.path.join(ROOT, "props", "hooks.json")) else [],
        "add_only": True,
    },
    "engines": engines,
    "checks": checks,
    "notes": "Technique family: machine-checked proof in Coq 8.16.1 over hand-written executable Gallina models, tied to /repo on every run by a correspondence check (extracted OCaml model vs the real Go code on the same generated cases) plus a property oracle evaluated on the real code. See DESIGN.md. Fix commits in /repo: see known_findings.json ('fixed').",
    "not_applicable": not_applicable,
}
json.dump(m, open(os.path.join(ROOT, "MANIFEST.json"), "w"), indent=1)
print("claimed:", sorted(claimed), "not claimed:", [x["property_id"] for x in not_applicable])
