#!/usr/bin/env python3
"""lib/seednote.py <ID-m> key=value ... : set fields of seeded/<ID-m>/meta.json"""
import sys, json
d = sys.argv[1]; p = "/verif/seeded/%s/meta.json" % d
m = json.load(open(p))
for kv in sys.argv[2:]:
    k, v = kv.split("=", 1); m[k] = v
json.dump(m, open(p, "w"), indent=1)
