#!/bin/bash
# usage: lib/mergeagent.sh <name>... : merge agent/<name> into main, resolving evidence conflicts with theirs, go.mod with ours
cd /verif; git diff --quiet || { git add -A; git commit -q -m "wip before merge"; }
for b in "$@"; do
  echo "== merge $b"
  git merge --no-edit agent/$b 2>&1 | grep -i "conflict\|fatal"
  if git status --short | grep -q "^UU\|^AA\|^DU\|^UD"; then
    for f in $(git status --short | grep "^UU\|^AA" | awk '{print $2}'); do
      if [ "$f" = harness/go.mod ]; then git checkout --ours $f; else git checkout --theirs $f; fi; git add $f; done
    for f in $(git status --short | grep "^DU\|^UD" | awk '{print $2}'); do git add $f; done
    git commit -q --no-edit
  fi
done
sed -i 's#^replace ariga.io/atlas => .*#replace ariga.io/atlas => /repo#' harness/go.mod
git add harness/go.mod; git commit -q -m "go.mod replace path" 2>/dev/null
python3 lib/mkmanifest.py
