#!/bin/bash
# usage: lib/seedreg.sh <k> <seed-id e.g. C05-m9> <check ids...> : regression of a stored seeded change against the checks of
# /verif as synced into the build copy /tmp/vreg/<k> (rsync first: lib/seedreg.sh <k> --sync), in the scratch worktree /tmp/reg/<k>/repo.
export GOFLAGS=-mod=mod GOPROXY=off
k=$1; shift
V=/tmp/vreg/$k; R=/tmp/reg/$k/repo
if [ "$1" = "--sync" ]; then mkdir -p $V; rsync -a --delete --exclude work --exclude replay --exclude .git /verif/ $V/; exit 0; fi
id=$1; shift
mkdir -p /tmp/reg/$k
[ -d $R ] || git -C /repo worktree add -q --detach $R HEAD
git -C $R checkout -q -- . && git -C $R clean -fdq && git -C $R checkout -q --detach $(git -C /repo rev-parse HEAD)
git -C $R apply /verif/seeded/$id/patch.diff || { echo "$id: PATCH DOES NOT APPLY"; exit 2; }
for c in "$@"; do
  out=$(cd $V && VERIF_REPO=$R ./check $c --tier quick 2>&1)
  echo "$id $c: $(echo "$out" | grep -c '^VIOLATION') VIOLATION line(s), nfi=$(echo "$out" | grep -c 'no-failing-input-found') | $(echo "$out" | grep 'quick:' | cut -c1-160)"
  echo "$out" | grep -E "^VIOLATION" | head -2
done
git -C $R checkout -q -- . && git -C $R clean -fdq
