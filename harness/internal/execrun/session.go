package execrun

import (
	"context"
	"fmt"
	"strings"

	"ariga.io/atlas/sql/migrate"
)

// Op is one method call on an Executor.
type Op struct {
	Kind   string // "N" = ExecuteN(N), "T" = ExecuteTo(To), "P" = Pending
	N      int
	To     string
	Faults []bool
}

// OpResult is what one call did: outcome class, fallible calls it made, the revision table after it.
type OpResult struct {
	Outcome string
	Events  []string
	Table   string
}

func (o OpResult) Show(i int, kind string) string {
	if kind == "P" {
		return fmt.Sprintf("op%d pending=%s table=[%s]", i, o.Outcome, o.Table)
	}
	return fmt.Sprintf("op%d outcome=%s events=[%s] table=[%s]", i, o.Outcome, strings.Join(o.Events, " "), o.Table)
}

func (op Op) Tokens() []string {
	fb := "-"
	if len(op.Faults) > 0 {
		var b strings.Builder
		for _, f := range op.Faults {
			b.WriteString(b2s(f))
		}
		fb = b.String()
	}
	switch op.Kind {
	case "N":
		return []string{"N", fmt.Sprint(op.N), fb}
	case "T":
		return []string{"T", Hex(op.To), fb}
	}
	return []string{"P"}
}

func (op Op) Desc() string {
	switch op.Kind {
	case "N":
		return fmt.Sprintf("ExecuteN(%d)%s", op.N, faultDesc(op.Faults))
	case "T":
		return fmt.Sprintf("ExecuteTo(%q)%s", op.To, faultDesc(op.Faults))
	}
	return "Pending()"
}

func faultDesc(f []bool) string {
	for i, b := range f {
		if b {
			return fmt.Sprintf("[call %d fails]", i+1)
		}
	}
	return ""
}

func runOp(ex *migrate.Executor, op Op, fs *faultState, st *Store) (res OpResult) {
	defer func() {
		if p := recover(); p != nil {
			res = OpResult{Outcome: "panic", Events: fs.events, Table: st.ShowTable()}
		}
	}()
	ctx := context.Background()
	var out string
	switch op.Kind {
	case "N":
		out = Classify(ex.ExecuteN(ctx, op.N))
	case "T":
		out = Classify(ex.ExecuteTo(ctx, op.To))
	default:
		files, err := ex.Pending(ctx)
		if err == nil {
			out = "files:" + versions(files)
		} else {
			out = Classify(err)
		}
	}
	if strings.HasPrefix(out, "other:") && strings.Contains(out, "not found") {
		out = "notfound"
	}
	return OpResult{Outcome: out, Events: fs.events, Table: st.ShowTable()}
}

// Session performs ops on ONE Executor (created once, over one store that starts empty). Before each
// call the same call is made on a NEW Executor over the same directory and a copy of the store as it
// is at that moment: fresh[i] is what a user who does not reuse the Executor value observes.
func (r Run) Session(dir migrate.Dir, ops []Op) (reused, fresh []OpResult, err error) {
	mk := func(fs *faultState, st *Store) (*migrate.Executor, error) {
		drv := &Driver{fs: fs, dirty: r.Dirty}
		opts := []migrate.ExecutorOption{migrate.WithExecOrder(OrderOf(r.Order)), migrate.WithAllowDirty(r.AllowDirty)}
		if r.Baseline != "" {
			opts = append(opts, migrate.WithBaselineVersion(r.Baseline))
		}
		return migrate.NewExecutor(drv, dir, st, opts...)
	}
	st := NewStore()
	fs := &faultState{}
	st.fs = fs
	ex, err := mk(fs, st)
	if err != nil {
		return nil, nil, err
	}
	for _, op := range ops {
		stc := st.Clone()
		fsc := &faultState{faults: op.Faults}
		stc.fs = fsc
		exc, err := mk(fsc, stc)
		if err != nil {
			return nil, nil, err
		}
		fresh = append(fresh, runOp(exc, op, fsc, stc))
		fs.faults, fs.calls, fs.events = op.Faults, 0, nil
		reused = append(reused, runOp(ex, op, fs, st))
	}
	return reused, fresh, nil
}
