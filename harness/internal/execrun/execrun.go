// Package execrun runs histories of Executor.ExecuteN calls against the real
// sql/migrate package with a recording driver and a recording revision
// store, and prints cases/observations in the canonical text shared with the
// extracted Coq model (ocaml/exec/driver.ml).
package execrun

import (
	"context"
	"database/sql"
	"encoding/hex"
	"errors"
	"fmt"
	"sort"
	"strings"

	"ariga.io/atlas/sql/migrate"
)

// FileSpec is one migration file of a generated directory.
type FileSpec struct {
	Name  string   // file name, e.g. "1_a.sql"
	Stmts []string // statements, written one per line
	Ckpt  bool     // carries the atlas:checkpoint directive
}

// Run is one ExecuteN invocation.
type Run struct {
	Order      string // linear | linear-skip | non-linear
	Baseline   string
	AllowDirty bool
	Dirty      bool
	N          int
	Faults     []bool // k-th fallible call (ExecContext / WriteRevision) fails
	Files      []FileSpec
}

func Hex(s string) string {
	if s == "" {
		return "-"
	}
	return hex.EncodeToString([]byte(s))
}

// CkptHeader is the header of a checkpoint file. Every shape below makes the file a checkpoint
// (LocalFile.Directive looks at every line of the leading comment group, the tag is optional); the
// shape is chosen by the file name so that a directory mixes them.
func CkptHeader(name string) string {
	n := 0
	for _, c := range []byte(name) {
		n += int(c)
	}
	switch n % 5 {
	case 4: // re-tagged: WriteCheckpoint over the bytes of an existing checkpoint leaves two directives
		return "-- atlas:checkpoint v2\n-- atlas:checkpoint v1\n\n"
	case 1:
		return "-- written by hand\n-- atlas:checkpoint\n\n"
	case 2:
		return "-- atlas:checkpoint v1\n\n"
	case 3:
		return "-- atlas:nolint\n-- atlas:checkpoint\n-- trailing note\n\n"
	}
	return "-- atlas:checkpoint\n\n"
}

// Content renders a file body.
func (f FileSpec) Content() string {
	var b strings.Builder
	if f.Ckpt {
		b.WriteString(CkptHeader(f.Name))
	}
	for _, s := range f.Stmts {
		b.WriteString(s)
		b.WriteString("\n")
	}
	return b.String()
}

// BuildDir creates a MemDir with the files and a fresh atlas.sum.
func BuildDir(files []FileSpec) (*migrate.MemDir, error) {
	d := &migrate.MemDir{}
	for _, f := range files {
		if err := d.WriteFile(f.Name, []byte(f.Content())); err != nil {
			return nil, err
		}
	}
	sum, err := d.Checksum()
	if err != nil {
		return nil, err
	}
	if err := migrate.WriteSumFile(d, sum); err != nil {
		return nil, err
	}
	return d, nil
}

// ---- recording driver / revision store ------------------------------------

type faultState struct {
	faults []bool
	calls  int
	events []string
}

func (fs *faultState) next() bool {
	k := fs.calls
	fs.calls++
	return k < len(fs.faults) && fs.faults[k]
}

type Driver struct {
	migrate.Driver
	fs    *faultState
	dirty bool
}

func (d *Driver) ExecContext(_ context.Context, q string, _ ...any) (sql.Result, error) {
	if d.fs.next() {
		d.fs.events = append(d.fs.events, "x:"+Hex(q)+":0")
		return nil, errors.New("injected statement failure")
	}
	d.fs.events = append(d.fs.events, "x:"+Hex(q)+":1")
	return nil, nil
}

// SetDirty makes CheckClean report a non-clean database.
func (d *Driver) SetDirty(b bool) { d.dirty = b }

func (d *Driver) CheckClean(context.Context, *migrate.TableIdent) error {
	if d.dirty {
		return &migrate.NotCleanError{Reason: "found table"}
	}
	return nil
}

// Store is an in-memory RevisionReadWriter with database semantics: it stores
// and returns copies, and lists revisions ordered by version (as the CLI's
// Ent-based store does).
type Store struct {
	fs   *faultState
	revs map[string]*migrate.Revision
}

func NewStore() *Store { return &Store{revs: map[string]*migrate.Revision{}} }

func cp(r *migrate.Revision) *migrate.Revision {
	c := *r
	c.PartialHashes = append([]string(nil), r.PartialHashes...)
	return &c
}

func (s *Store) Ident() *migrate.TableIdent { return &migrate.TableIdent{Name: "revs"} }
func (s *Store) ReadRevisions(context.Context) ([]*migrate.Revision, error) {
	return s.Sorted(), nil
}
func (s *Store) Sorted() []*migrate.Revision {
	var out []*migrate.Revision
	for _, r := range s.revs {
		out = append(out, cp(r))
	}
	sort.Slice(out, func(i, j int) bool { return out[i].Version < out[j].Version })
	return out
}
func (s *Store) ReadRevision(_ context.Context, v string) (*migrate.Revision, error) {
	r, ok := s.revs[v]
	if !ok {
		return nil, migrate.ErrRevisionNotExist
	}
	return cp(r), nil
}
func (s *Store) WriteRevision(_ context.Context, r *migrate.Revision) error {
	if s.fs != nil && s.fs.next() {
		s.fs.events = append(s.fs.events, "w:"+ShowRev(r)+":0")
		return errors.New("injected write failure")
	}
	if s.fs != nil {
		s.fs.events = append(s.fs.events, "w:"+ShowRev(r)+":1")
	}
	s.revs[r.Version] = cp(r)
	return nil
}
func (s *Store) DeleteRevision(_ context.Context, v string) error {
	delete(s.revs, v)
	return nil
}

// Put stores a revision directly (used to seed tables for Pending cases).
func (s *Store) Put(r *migrate.Revision) { s.revs[r.Version] = cp(r) }

func b2s(b bool) string {
	if b {
		return "1"
	}
	return "0"
}

// ShowRev prints version:applied:total:hashes:err:type.
func ShowRev(r *migrate.Revision) string {
	hs := "-"
	if len(r.PartialHashes) > 0 {
		parts := make([]string, len(r.PartialHashes))
		for i, h := range r.PartialHashes {
			parts[i] = strings.TrimPrefix(h, "h1:")
		}
		hs = strings.Join(parts, ",")
	}
	return fmt.Sprintf("%s:%d:%d:%s:%s:%d", Hex(r.Version), r.Applied, r.Total, hs, b2s(r.Error != ""), uint(r.Type))
}

func (s *Store) ShowTable() string {
	var parts []string
	for _, r := range s.Sorted() {
		parts = append(parts, ShowRev(r))
	}
	return strings.Join(parts, " ")
}

func versions(fs []migrate.File) string {
	vs := make([]string, len(fs))
	for i, f := range fs {
		vs[i] = Hex(f.Version())
	}
	return strings.Join(vs, ",")
}

// Classify maps an ExecuteN / Pending error to the small enum shared with the model.
func Classify(err error) string {
	var (
		hc  migrate.HistoryChangedError
		se  *migrate.StmtExecError
		we  *migrate.WriteRevisionError
		nl  *migrate.HistoryNonLinearError
		mm  *migrate.MissingMigrationError
		nce *migrate.NotCleanError
	)
	switch {
	case err == nil:
		return "done"
	case errors.As(err, &hc):
		return fmt.Sprintf("history:%d", hc.Stmt)
	case errors.As(err, &se):
		return "stmterr"
	case errors.As(err, &we):
		return "writeerr"
	case errors.Is(err, migrate.ErrNoPendingFiles):
		return "nopending"
	case errors.As(err, &nl):
		return fmt.Sprintf("nonlinear:%s:%s", versions(nl.OutOfOrder), versions(nl.Pending))
	case errors.As(err, &mm):
		return "missing:" + Hex(mm.Version)
	case errors.As(err, &nce):
		return "notclean"
	case strings.Contains(err.Error(), "baseline version"):
		return "baselinenotfound"
	}
	return "other:" + err.Error()
}

// Result of one run.
type Result struct {
	Outcome string
	Events  []string
	Table   string
}

// OrderOf maps the flag value to the executor option.
func OrderOf(s string) migrate.ExecOrder {
	switch s {
	case "linear-skip":
		return migrate.ExecOrderLinearSkip
	case "non-linear":
		return migrate.ExecOrderNonLinear
	}
	return migrate.ExecOrderLinear
}

// CaseLine renders the run as the model's input: the file list is what
// Dir.Files() returns, with the version / checkpoint flag / statements the
// real code extracts.
func (r Run) CaseTokens(dir migrate.Dir) ([]string, error) {
	files, err := dir.Files()
	if err != nil {
		return nil, err
	}
	fb := "-"
	if len(r.Faults) > 0 {
		var b strings.Builder
		for _, f := range r.Faults {
			b.WriteString(b2s(f))
		}
		fb = b.String()
	}
	toks := []string{r.Order, Hex(r.Baseline), b2s(r.AllowDirty), b2s(r.Dirty), fmt.Sprint(r.N), fb, fmt.Sprint(len(files))}
	for _, f := range files {
		ck := false
		if c, ok := f.(migrate.CheckpointFile); ok && c.IsCheckpoint() {
			ck = true
		}
		stmts, err := f.StmtDecls()
		if err != nil {
			return nil, err
		}
		toks = append(toks, Hex(f.Version()), b2s(ck), fmt.Sprint(len(stmts)))
		for _, s := range stmts {
			toks = append(toks, Hex(s.Text))
		}
	}
	return toks, nil
}

// Execute performs one run on the store.
func (r Run) Execute(dir migrate.Dir, st *Store) (res Result) {
	fs := &faultState{faults: r.Faults}
	st.fs = fs
	defer func() { st.fs = nil }()
	drv := &Driver{fs: fs, dirty: r.Dirty}
	opts := []migrate.ExecutorOption{migrate.WithExecOrder(OrderOf(r.Order)), migrate.WithAllowDirty(r.AllowDirty)}
	if r.Baseline != "" {
		opts = append(opts, migrate.WithBaselineVersion(r.Baseline))
	}
	defer func() {
		if p := recover(); p != nil {
			res = Result{Outcome: "panic", Events: fs.events, Table: st.ShowTable()}
		}
	}()
	ex, err := migrate.NewExecutor(drv, dir, st, opts...)
	if err != nil {
		return Result{Outcome: "other:" + err.Error()}
	}
	err = ex.ExecuteN(context.Background(), r.N)
	return Result{Outcome: Classify(err), Events: fs.events, Table: st.ShowTable()}
}

// Clone copies the store (without fault state).
func (s *Store) Clone() *Store {
	c := NewStore()
	for v, r := range s.revs {
		c.revs[v] = cp(r)
	}
	return c
}

// Reuse calls, on ONE Executor over a copy of the store: op (ExecuteTo(to) when to != "", else ExecuteN(n)),
// ignoring its outcome, and then Pending; and Pending of a fresh Executor over the same directory and the
// store as op left it. The decision must be a function of (directory, history, options): both must agree.
func (r Run) Reuse(dir migrate.Dir, st0 *Store, to string, n int) (reused, fresh []migrate.File, rerr, ferr error, opOutcome string) {
	st := st0.Clone()
	fs := &faultState{}
	st.fs = fs
	mk := func() (*migrate.Executor, error) {
		drv := &Driver{fs: fs, dirty: r.Dirty}
		opts := []migrate.ExecutorOption{migrate.WithExecOrder(OrderOf(r.Order)), migrate.WithAllowDirty(r.AllowDirty)}
		if r.Baseline != "" {
			opts = append(opts, migrate.WithBaselineVersion(r.Baseline))
		}
		return migrate.NewExecutor(drv, dir, st, opts...)
	}
	ex, err := mk()
	if err != nil {
		return nil, nil, err, err, "other"
	}
	func() {
		defer func() {
			if p := recover(); p != nil {
				opOutcome = "panic"
			}
		}()
		var e error
		if to != "" {
			e = ex.ExecuteTo(context.Background(), to)
		} else {
			e = ex.ExecuteN(context.Background(), n)
		}
		opOutcome = Classify(e)
	}()
	pend := func(x *migrate.Executor) (fl []migrate.File, e error) {
		defer func() {
			if p := recover(); p != nil {
				e = fmt.Errorf("panic: %v", p)
			}
		}()
		return x.Pending(context.Background())
	}
	reused, rerr = pend(ex)
	ex2, err := mk()
	if err != nil {
		return reused, nil, rerr, err, opOutcome
	}
	fresh, ferr = pend(ex2)
	return
}

// History runs the runs in sequence on one store. It returns the case line
// (without id) and one observation line per run (without id).
func History(runs []Run) (caseLine string, obs []string, results []Result, err error) {
	st := NewStore()
	toks := []string{fmt.Sprint(len(runs))}
	for i, r := range runs {
		dir, err := BuildDir(r.Files)
		if err != nil {
			return "", nil, nil, err
		}
		t, err := r.CaseTokens(dir)
		if err != nil {
			return "", nil, nil, err
		}
		toks = append(toks, t...)
		res := r.Execute(dir, st)
		results = append(results, res)
		obs = append(obs, fmt.Sprintf("run%d outcome=%s events=[%s] table=[%s]", i, res.Outcome, strings.Join(res.Events, " "), res.Table))
	}
	return strings.Join(toks, " "), obs, results, nil
}
