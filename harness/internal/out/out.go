// Package out writes the files every harness command produces in its -out
// directory: cases.txt (model input), impl.txt (observations of the real
// code, same canonical text as the model prints), oracle.txt (property
// violations seen directly on the real code) and stats.json (measured
// coverage for the evidence file).
package out

import (
	"bufio"
	"encoding/json"
	"fmt"
	"os"
	"path/filepath"
	"sort"
)

type W struct {
	dir      string
	cases    *bufio.Writer
	impl     *bufio.Writer
	oracle   *bufio.Writer
	files    []*os.File
	Evals    int
	nontriv  map[string]struct{}
	Dist     map[string]int
	Samples  []string
	Viol     int
	Exhaust  bool
	Rule     string
	maxSamp  int
	extra    map[string]any
}

func New(dir string) *W {
	if err := os.MkdirAll(dir, 0o755); err != nil {
		panic(err)
	}
	w := &W{dir: dir, nontriv: map[string]struct{}{}, Dist: map[string]int{}, maxSamp: 6, extra: map[string]any{}}
	open := func(n string) *bufio.Writer {
		f, err := os.Create(filepath.Join(dir, n))
		if err != nil {
			panic(err)
		}
		w.files = append(w.files, f)
		return bufio.NewWriterSize(f, 1<<20)
	}
	w.cases, w.impl, w.oracle = open("cases.txt"), open("impl.txt"), open("oracle.txt")
	return w
}

// Case records one case: its model input line and the implementation's
// observation lines (each is prefixed with the id).
func (w *W) Case(id, caseLine string, obs []string) {
	w.Evals++
	fmt.Fprintf(w.cases, "%s %s\n", id, caseLine)
	for _, o := range obs {
		fmt.Fprintf(w.impl, "%s %s\n", id, o)
	}
	if len(w.Samples) < w.maxSamp && (w.Evals == 1 || w.Evals%997 == 0) {
		w.Samples = append(w.Samples, id+" "+trunc(caseLine, 400)+" => "+trunc(fmt.Sprint(obs), 600))
	}
}

// ImplOnly records an observation that has no model counterpart (oracle-only cases).
func (w *W) ImplOnly(id, what string) {
	w.Evals++
	if len(w.Samples) < w.maxSamp && (w.Evals == 1 || w.Evals%997 == 0) {
		w.Samples = append(w.Samples, id+" "+trunc(what, 800))
	}
}

func trunc(s string, n int) string {
	if len(s) > n {
		return s[:n] + "…"
	}
	return s
}

// NonTrivial marks a canonical case key as non-trivial by the stated rule.
func (w *W) NonTrivial(key string) { w.nontriv[key] = struct{}{} }

// Count increments a distribution counter.
func (w *W) Count(k string) { w.Dist[k]++ }

// Set records an extra stats value.
func (w *W) Set(k string, v any) { w.extra[k] = v }

// Violation records that the real code violates the property on case id.
// class identifies the failing input class (matched against known_findings.json).
func (w *W) Violation(id, class, msg string) {
	w.Viol++
	fmt.Fprintf(w.oracle, "%s\t%s\t%s\n", id, class, msg)
}

func (w *W) Close() {
	w.cases.Flush()
	w.impl.Flush()
	w.oracle.Flush()
	for _, f := range w.files {
		f.Close()
	}
	keys := make([]string, 0, len(w.Dist))
	for k := range w.Dist {
		keys = append(keys, k)
	}
	sort.Strings(keys)
	st := map[string]any{
		"evaluations":         w.Evals,
		"distinct_nontrivial": len(w.nontriv),
		"distribution":        w.Dist,
		"samples":             w.Samples,
		"oracle_violations":   w.Viol,
		"exhaustive":          w.Exhaust,
		"rule":                w.Rule,
	}
	for k, v := range w.extra {
		st[k] = v
	}
	b, _ := json.MarshalIndent(st, "", " ")
	os.WriteFile(filepath.Join(w.dir, "stats.json"), b, 0o644)
}
