// Package rng is the single source of randomness of the harness: a
// splitmix64 stream seeded from VERIF_SEED, so every case replays exactly.
package rng

import (
	"os"
	"strconv"
)

type R struct{ s uint64 }

func New(seed uint64) *R { return &R{s: seed} }

// FromEnv seeds from VERIF_SEED (default 1), mixed with a per-stream salt.
func FromEnv(salt uint64) *R {
	seed := uint64(1)
	if v := os.Getenv("VERIF_SEED"); v != "" {
		if n, err := strconv.ParseUint(v, 10, 64); err == nil {
			seed = n
		}
	}
	return New(seed*0x9E3779B97F4A7C15 ^ salt)
}

func Seed() int64 {
	if v := os.Getenv("VERIF_SEED"); v != "" {
		if n, err := strconv.ParseInt(v, 10, 64); err == nil {
			return n
		}
	}
	return 1
}

func (r *R) U64() uint64 {
	r.s += 0x9E3779B97F4A7C15
	z := r.s
	z = (z ^ (z >> 30)) * 0xBF58476D1CE4E5B9
	z = (z ^ (z >> 27)) * 0x94D049BB133111EB
	return z ^ (z >> 31)
}

// Intn returns a value in [0,n).
func (r *R) Intn(n int) int {
	if n <= 0 {
		return 0
	}
	return int(r.U64() % uint64(n))
}

func (r *R) Bool() bool { return r.U64()&1 == 1 }

// Chance returns true with probability num/den.
func (r *R) Chance(num, den int) bool { return r.Intn(den) < num }

func Pick[T any](r *R, xs []T) T { return xs[r.Intn(len(xs))] }
