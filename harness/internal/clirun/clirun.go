// Package clirun drives the real `atlas` binary ($ATLAS_BIN, built from
// /repo/cmd/atlas with -tags verif) on SQLite files and reads the database
// back with an independent client (database/sql + go-sqlite3).
package clirun

import (
	"bytes"
	"context"
	"database/sql"
	"fmt"
	"os"
	"os/exec"
	"path/filepath"
	"sort"
	"strings"
	"sync"
	"time"

	"ariga.io/atlas/sql/migrate"
	_ "github.com/mattn/go-sqlite3"
)

// Bin returns the path of the CLI under test.
func Bin() string {
	b := os.Getenv("ATLAS_BIN")
	if b == "" {
		b = "/verif/build/atlas"
	}
	return b
}

// Result of one CLI invocation.
type Result struct {
	Exit   int
	Stdout string
	Stderr string
	Points []string // crash points passed (from VERIF_CRASH_LOG)
}

// Run executes the CLI in dir with extra environment.
func Run(dir string, env []string, args ...string) Result {
	ctx, cancel := context.WithTimeout(context.Background(), 120*time.Second)
	defer cancel()
	cmd := exec.CommandContext(ctx, Bin(), args...)
	cmd.Dir = dir
	plog := filepath.Join(dir, fmt.Sprintf("points-%d.log", time.Now().UnixNano()))
	cmd.Env = append([]string{
		"HOME=" + dir, "PATH=" + os.Getenv("PATH"), "ATLAS_NO_UPDATE_NOTIFIER=1", "ATLAS_NO_UPGRADE_SUGGESTIONS=1",
		"VERIF_CRASH_LOG=" + plog, "TMPDIR=" + dir,
	}, env...)
	var so, se bytes.Buffer
	cmd.Stdout, cmd.Stderr = &so, &se
	err := cmd.Run()
	r := Result{Stdout: so.String(), Stderr: se.String()}
	if err != nil {
		if ee, ok := err.(*exec.ExitError); ok {
			r.Exit = ee.ExitCode()
		} else {
			r.Exit = -1
			r.Stderr += "\n" + err.Error()
		}
	}
	if b, err := os.ReadFile(plog); err == nil {
		for _, l := range strings.Split(strings.TrimSpace(string(b)), "\n") {
			if l != "" {
				r.Points = append(r.Points, l[:strings.LastIndexByte(l, ':')])
			}
		}
		os.Remove(plog)
	}
	return r
}

// WriteDir (re)writes the migration directory and its atlas.sum.
func WriteDir(path string, files map[string]string) error {
	os.RemoveAll(path)
	if err := os.MkdirAll(path, 0o755); err != nil {
		return err
	}
	for n, c := range files {
		if err := os.WriteFile(filepath.Join(path, n), []byte(c), 0o644); err != nil {
			return err
		}
	}
	d, err := migrate.NewLocalDir(path)
	if err != nil {
		return err
	}
	sum, err := d.Checksum()
	if err != nil {
		return err
	}
	return migrate.WriteSumFile(d, sum)
}

// Exec runs statements on a SQLite file with the independent client.
func Exec(dbPath string, stmts ...string) error {
	db, err := sql.Open("sqlite3", "file:"+dbPath)
	if err != nil {
		return err
	}
	defer db.Close()
	for _, s := range stmts {
		if _, err := db.Exec(s); err != nil {
			return fmt.Errorf("%s: %w", s, err)
		}
	}
	return nil
}

// Query returns all rows of a query as strings joined by '|'.
func Query(dbPath, q string) ([]string, error) {
	db, err := sql.Open("sqlite3", "file:"+dbPath)
	if err != nil {
		return nil, err
	}
	defer db.Close()
	rows, err := db.Query(q)
	if err != nil {
		return nil, err
	}
	defer rows.Close()
	cols, _ := rows.Columns()
	var out []string
	for rows.Next() {
		vals := make([]any, len(cols))
		ptrs := make([]any, len(cols))
		for i := range vals {
			ptrs[i] = &vals[i]
		}
		if err := rows.Scan(ptrs...); err != nil {
			return nil, err
		}
		parts := make([]string, len(cols))
		for i, v := range vals {
			switch x := v.(type) {
			case nil:
				parts[i] = "NULL"
			case []byte:
				parts[i] = string(x)
			default:
				parts[i] = fmt.Sprint(x)
			}
		}
		out = append(out, strings.Join(parts, "|"))
	}
	return out, rows.Err()
}

// TableExists reports whether a table exists in the file.
func TableExists(dbPath, name string) bool {
	r, err := Query(dbPath, "SELECT name FROM sqlite_master WHERE type='table' AND name='"+name+"'")
	return err == nil && len(r) == 1
}

// Dump is a logical dump of a SQLite file: schema objects and all rows of all
// tables; timestamps/durations of the revisions table are dropped when
// maskRevTimes is set.
func Dump(dbPath string, maskRevTimes bool) (string, error) {
	if _, err := os.Stat(dbPath); err != nil {
		return "<no file>", nil
	}
	objs, err := Query(dbPath, "SELECT type, name, tbl_name, ifnull(sql,'') FROM sqlite_master ORDER BY type, name")
	if err != nil {
		return "", err
	}
	var b strings.Builder
	for _, o := range objs {
		b.WriteString("obj " + o + "\n")
	}
	tabs, err := Query(dbPath, "SELECT name FROM sqlite_master WHERE type='table' ORDER BY name")
	if err != nil {
		return "", err
	}
	for _, t := range tabs {
		q := "SELECT * FROM `" + t + "` ORDER BY rowid"
		if t == "atlas_schema_revisions" && maskRevTimes {
			q = "SELECT version, description, type, applied, total, error, error_stmt, hash, partial_hashes FROM atlas_schema_revisions ORDER BY version"
		}
		rows, err := Query(dbPath, q)
		if err != nil {
			rows, err = Query(dbPath, "SELECT * FROM `"+t+"`")
			if err != nil {
				return "", err
			}
			sort.Strings(rows)
		}
		for _, r := range rows {
			b.WriteString("row " + t + " " + r + "\n")
		}
	}
	return b.String(), nil
}

// Parallel runs jobs on n workers.
func Parallel(n int, jobs []func()) {
	var wg sync.WaitGroup
	ch := make(chan func())
	for i := 0; i < n; i++ {
		wg.Add(1)
		go func() {
			defer wg.Done()
			for j := range ch {
				j()
			}
		}()
	}
	for _, j := range jobs {
		ch <- j
	}
	close(ch)
	wg.Wait()
}
