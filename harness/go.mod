module verifharness

go 1.22.12

require ariga.io/atlas v0.0.0

replace ariga.io/atlas => /repo
