module verifharness

go 1.22.12

require ariga.io/atlas v0.0.0

require golang.org/x/mod v0.17.0 // indirect

require (
	github.com/agext/levenshtein v1.2.1 // indirect
	github.com/apparentlymart/go-textseg/v13 v13.0.0 // indirect
	github.com/apparentlymart/go-textseg/v15 v15.0.0 // indirect
	github.com/bmatcuk/doublestar v1.3.4 // indirect
	github.com/go-openapi/inflect v0.19.0 // indirect
	github.com/google/go-cmp v0.6.0 // indirect
	github.com/hashicorp/hcl/v2 v2.13.0
	github.com/mattn/go-sqlite3 v1.14.24
	github.com/mitchellh/go-wordwrap v0.0.0-20150314170334-ad45545899c7 // indirect
	github.com/zclconf/go-cty v1.14.4 // indirect
	github.com/zclconf/go-cty-yaml v1.1.0 // indirect
	golang.org/x/text v0.21.0 // indirect
)

replace ariga.io/atlas => /repo
