// Round 5, goal 2: the per-site targeted generator (stage `persite`, oracle only).
//
// For every map range of the census (coq/theories/gen/Gen_MapRanges.v, read at run time) that is not
// syntactically commutative, a driver calls the public entry point that reaches that loop with a
// map of >= 4 entries, `persiteRuns` times in this process; every run must give the bytes of the
// first (class `site-order-leak`, the message names the census sites the driver reaches and shows
// the first differing line: the failing input is the driver's fixed input).  A census site without
// a driver is counted (`persite_undriven` in stats.json): resetFromEnv (internal package of the
// cmd/atlas module), inspect.addIndexes (needs a PostgreSQL server) -- and any NEW site a change
// of the tree introduces; for those the census obligation breaks and the search for a failing
// input is left to the `repeat` / `source` / `sites` stages, which run whether or not Coq builds.
//
// Detection: Go starts a map iteration at a random bucket/offset; a map of n <= 8 entries is
// delivered in one of n rotations, the identity with probability (9-n)/8.  With n >= 4 entries and
// R runs a leak that reaches the compared output survives with probability <= (5/8)^(R-1)
// (R = 24: 2e-5); most drivers use > 8 entries.
package main

import (
	"context"
	"fmt"
	"os"
	"path/filepath"
	"regexp"
	"sort"
	"strings"

	"ariga.io/atlas/schemahcl"
	"ariga.io/atlas/sql/migrate"
	"ariga.io/atlas/sql/schema"
	"ariga.io/atlas/sql/verifx"
	"github.com/hashicorp/hcl/v2"
	"github.com/hashicorp/hcl/v2/hclsyntax"
	"github.com/zclconf/go-cty/cty"

	"verifharness/internal/out"
)

type siteDriver struct {
	name  string
	sites []string // "file:func#ord" of the census
	n     int      // entries of the smallest iterated map
	run   func() (string, error)
}

// hclEval: 10 tables with a chain of foreign keys (+ a second key on some), marshalled, cut into 4
// files, evaluated: EvalOptions ranges over 4 files, evalReferences / blockVars / bodyVars /
// typeRefs over 10 table blocks with >= 4 attributes/children each, Scan links 9 tables with keys.
func hclEval(d *dialect) func() (string, error) {
	return func() (string, error) {
		src, err := d.marshal.MarshalSpec(mkSchema(d, 1, nil))
		if err != nil {
			return "", err
		}
		files := map[string]string{}
		for i, b := range splitBlocks(string(src)) {
			files[fmt.Sprintf("f%d.hcl", i%4)] += b + "\n"
		}
		s, err := evalFiles(d, files)
		if err != nil {
			return "error: " + err.Error(), nil
		}
		return dumpSchema(s), nil
	}
}

type psItem struct {
	Name string `spec:",name"`
	A1   string `spec:"a1"`
	A2   string `spec:"a2"`
	A3   string `spec:"a3"`
	A4   string `spec:"a4"`
	A5   string `spec:"a5"`
	schemahcl.DefaultExtension
}

// forEach: a block with for_each and 7 attributes, three of which are not fields (remainder):
// copyBlock ranges over the 7 attributes per element, toAttrs over the same.
func forEach() (string, error) {
	var doc struct {
		Items []*psItem `spec:"item"`
	}
	src := `
locals {
  p = "v"
}
item "x" {
  for_each = toset(["k1", "k2", "k3", "k4"])
  a1 = "${each.value}-${local.p}1"
  a2 = "${each.value}-2"
  a3 = upper(each.value)
  a4 = "4"
  a5 = "${each.key}5"
  z1 = "extra-${each.value}"
  z2 = 2
}
`
	if err := schemahcl.New().EvalBytes([]byte(src), &doc, nil); err != nil {
		return "error: " + err.Error(), nil
	}
	var b strings.Builder
	for _, it := range doc.Items {
		fmt.Fprintf(&b, "%s %s %s %s %s %s |", it.Name, it.A1, it.A2, it.A3, it.A4, it.A5)
		var ex []string
		for _, a := range it.Extra.Attrs {
			ex = append(ex, a.K)
		}
		sort.Strings(ex) // the order of the remainder is known finding C20-hcl-remain-order (fixed)
		fmt.Fprintf(&b, " %v\n", ex)
	}
	return b.String(), nil
}

type (
	psAnimal interface{ isAnimal() }
	psDog    struct {
		psAnimal
		Name string `spec:",name"`
		Boss string `spec:"boss"`
	}
	psCat struct {
		psAnimal
		Name string `spec:",name"`
		Boss string `spec:"boss"`
	}
	psFox struct {
		psAnimal
		Name string `spec:",name"`
		Boss string `spec:"boss"`
	}
	psOwl struct {
		psAnimal
		Name string `spec:",name"`
		Boss string `spec:"boss"`
	}
	psZoo struct {
		Name    string     `spec:",name"`
		Animals []psAnimal `spec:""`
	}
)

func init() {
	schemahcl.Register("psdog", &psDog{})
	schemahcl.Register("pscat", &psCat{})
	schemahcl.Register("psfox", &psFox{})
	schemahcl.Register("psowl", &psOwl{})
}

// refsAndImpls: 6 locals that refer to each other, 4 data blocks (nodes of evalReferences, edges
// from bodyVars over bodies of 4 attributes), and a block with an interface-slice field whose four
// implementers (registry.implementers over the whole extension registry) each occur once.
func refsAndImpls() (string, error) {
	src := `
locals {
  a = "${local.b}-a"
  b = "${local.c}-b"
  c = "c"
  d = "${local.a}+${local.b}"
  e = data.ds.one
  f = "${data.ds.four}/${local.e}"
}
data "ds" "one" {
  x1 = local.c
  x2 = local.b
  x3 = "k"
  x4 = local.c
}
data "ds" "two" {
  x1 = data.ds.one
  x2 = local.a
  x3 = "k"
  x4 = "l"
}
data "ds" "three" {
  x1 = data.ds.two
  x2 = data.ds.one
  x3 = local.d
  x4 = "m"
}
data "ds" "four" {
  x1 = data.ds.three
  x2 = "n"
  x3 = local.b
  x4 = local.c
}
zoo "z" {
  psowl "o" {
    boss = local.f
  }
  psdog "d" {
    boss = local.d
  }
  psfox "f" {
    boss = data.ds.three
  }
  pscat "c" {
    boss = local.e
  }
}
`
	var doc struct {
		Zoo *psZoo `spec:"zoo"`
	}
	h := func(_ context.Context, ctx *hcl.EvalContext, b *hclsyntax.Block) (cty.Value, error) {
		var ks []string
		for k := range b.Body.Attributes {
			ks = append(ks, k)
		}
		sort.Strings(ks)
		var parts []string
		for _, k := range ks {
			v, diags := b.Body.Attributes[k].Expr.Value(ctx)
			if diags.HasErrors() {
				return cty.NilVal, diags
			}
			parts = append(parts, k+"="+v.AsString())
		}
		return cty.StringVal("<" + strings.Join(parts, ",") + ">"), nil
	}
	if err := schemahcl.New(schemahcl.WithDataSource("ds", h)).EvalBytes([]byte(src), &doc, nil); err != nil {
		return "error: " + err.Error(), nil
	}
	var b strings.Builder
	for _, a := range doc.Zoo.Animals {
		switch a := a.(type) {
		case *psDog:
			fmt.Fprintf(&b, "dog %s %s\n", a.Name, a.Boss)
		case *psCat:
			fmt.Fprintf(&b, "cat %s %s\n", a.Name, a.Boss)
		case *psFox:
			fmt.Fprintf(&b, "fox %s %s\n", a.Name, a.Boss)
		case *psOwl:
			fmt.Fprintf(&b, "owl %s %s\n", a.Name, a.Boss)
		}
	}
	return b.String(), nil
}

// qualifyWide: 5 schemas that all hold `users` and `tags` (inner maps of 5 entries).
func qualifyWide(d *dialect) func() (string, error) {
	return func() (string, error) {
		r := schema.NewRealm()
		for _, sn := range []string{"s4", "s1", "s5", "s2", "s3"} {
			s := schema.New(sn)
			for _, tn := range []string{"users", "tags", "s1"} {
				if tn == "s1" && sn != "s5" {
					continue
				}
				t := schema.NewTable(tn).AddColumns(schema.NewIntColumn("id", d.intT))
				t.SetPrimaryKey(schema.NewPrimaryKey(t.Columns[0]))
				s.AddTables(t)
			}
			r.AddSchemas(s)
		}
		doc, err := d.marshal.MarshalSpec(r)
		return string(doc), err
	}
}

// qualifyBig: 3 schemas x 6 labels, all conflicting, + one table per schema named like a schema.
func qualifyBig(d *dialect) func() (string, error) {
	return func() (string, error) {
		q := qRealm{}
		for i := range q.tables {
			q.tables[i] = []string{"users", "tags", "status", "kind", qSchemas[(i+1)%3]}
		}
		doc, err := d.marshal.MarshalSpec(q.build(d, []int{2, 0, 1}, false))
		return string(doc), err
	}
}

// scopeError: changes in 6 schemas: the error of CheckChangesScope lists them.
func scopeError() (string, error) {
	var cs []schema.Change
	for i, s := range []string{"zeta", "alpha", "mid", "beta", "omega", "gamma"} {
		t := schema.NewTable(fmt.Sprintf("t%d", i)).SetSchema(schema.New(s)).AddColumns(schema.NewIntColumn("id", "int"))
		cs = append(cs, &schema.AddTable{T: t}, &schema.ModifyTable{T: t})
	}
	err := verifx.CheckChangesScope(migrate.PlanOptions{}, cs)
	if err == nil {
		return "ok", nil
	}
	return err.Error(), nil
}

func planOf(d *dialect, v int, scenario string) func() (string, error) {
	return func() (string, error) {
		p, err := mkPlan(d, v, scenario)
		if err != nil {
			return "", err
		}
		return string(planBytes(p)), nil
	}
}

// memDir: 12 files written in a fixed order into a named in-memory directory next to 5 other open
// directories; Files, Checksum, then Close of all (MemDir.Close ranges over the 6 open names).
func memDir() (string, error) {
	var others []*migrate.MemDir
	for i := 0; i < 5; i++ {
		others = append(others, migrate.OpenMemDir(fmt.Sprintf("persite/other%d", i)))
	}
	d := migrate.OpenMemDir("persite/main")
	var b strings.Builder
	for _, f := range dirFiles(1) {
		if err := d.WriteFile(f[0], []byte(f[1])); err != nil {
			return "", err
		}
	}
	fs, err := d.Files()
	if err != nil {
		return "", err
	}
	b.Write(filesBytes(fs))
	sum, err := d.Checksum()
	if err != nil {
		return "", err
	}
	txt, _ := sum.MarshalText()
	b.Write(txt)
	for i, o := range append(others, d) {
		if err := o.Close(); err != nil {
			fmt.Fprintf(&b, "close %d: %v\n", i, err)
		}
	}
	// all closed: a directory opened again under the same name is empty
	d2 := migrate.OpenMemDir("persite/main")
	fs2, _ := d2.Files()
	fmt.Fprintf(&b, "reopened: %d files\n", len(fs2))
	d2.Close()
	return b.String(), nil
}

// alterEnum: an enum of 6 values gets 3 more (in the middle, in front, at the end).
func alterEnum() (string, error) {
	d := dialectByName("postgres")
	s := schema.New("public")
	from := &schema.EnumType{T: "state", Schema: s, Values: []string{"f", "b", "e", "c", "a", "d"}}
	to := &schema.EnumType{T: "state", Schema: s, Values: []string{"x0", "f", "b", "x1", "e", "c", "a", "d", "x2"}}
	p, err := d.planner.PlanChanges(context.Background(), "p", []schema.Change{&schema.ModifyObject{From: from, To: to}})
	if err != nil {
		return "error: " + err.Error(), nil
	}
	return string(planBytes(p)), nil
}

func siteDrivers() []siteDriver {
	my, pg := dialectByName("mysql"), dialectByName("postgres")
	hclSites := []string{
		"schemahcl/context.go:blockVars#1", "schemahcl/context.go:typeRefs#1", "schemahcl/schemahcl.go:State.EvalOptions#1", "schemahcl/schemahcl.go:State.toAttrs#1",
		"sql/internal/specutil/convert.go:Scan#1",
	}
	qSites := []string{"sql/internal/specutil/spec.go:QualifyObjects#1", "sql/internal/specutil/spec.go:QualifyObjects#2"}
	var plans []siteDriver
	for _, d := range dialects { // FK forest / chain / cycle over 9-11 tables: sortMap -> byKeys over the dependency map
		for v := 0; v < nVariants; v++ {
			for _, sc := range []string{"create", "modify", "drop"} {
				plans = append(plans, siteDriver{fmt.Sprintf("plan-%s-%s-%d", d.name, sc, v), []string{"sql/internal/sqlx/plan.go:byKeys#1"}, 9, planOf(d, v, sc)})
			}
		}
	}
	return append(plans, []siteDriver{
		{"hcl-eval-mysql", hclSites, 4, hclEval(my)},
		{"hcl-eval-postgres", hclSites, 4, hclEval(pg)},
		{"hcl-for-each", []string{"schemahcl/schemahcl.go:State.copyBlock#1", "schemahcl/schemahcl.go:State.toAttrs#1"}, 7, forEach},
		{"hcl-refs-impls", []string{"schemahcl/context.go:State.evalReferences#3", "schemahcl/context.go:bodyVars#1", "schemahcl/extension.go:registry.implementers#1"}, 4, refsAndImpls},
		{"qualify-wide-mysql", qSites, 5, qualifyWide(my)},
		{"qualify-wide-postgres", qSites, 5, qualifyWide(pg)},
		{"qualify-mysql", qSites, 5, qualifyBig(my)},
		{"qualify-postgres", qSites, 5, qualifyBig(pg)},
		{"scope-error", []string{"sql/internal/sqlx/plan.go:CheckChangesScope#1"}, 6, scopeError},
		{"memdir", []string{"sql/migrate/dir.go:MemDir.Files#1", "sql/migrate/dir.go:MemDir.Close#1"}, 6, memDir},
		{"alter-enum", []string{"sql/postgres/migrate_oss.go:state.alterEnum#1"}, 6, alterEnum},
	}...)
}

var reMR = regexp.MustCompile(`^\s*MR "([^"]+)" "([^"]+)" (\d+) "(?:[^"]|"")*" (Comm|SortedAfter|Sens) `)

// censusSites reads the generated census next to the binary (build/h_det -> coq/theories/gen).
func censusSites() ([]string, error) {
	exe, err := os.Executable()
	if err != nil {
		return nil, err
	}
	p := filepath.Join(filepath.Dir(filepath.Dir(exe)), "coq", "theories", "gen", "Gen_MapRanges.v")
	if e := os.Getenv("VERIF_CENSUS"); e != "" {
		p = e
	}
	data, err := os.ReadFile(p)
	if err != nil {
		return nil, err
	}
	var res []string
	for _, ln := range strings.Split(string(data), "\n") {
		if m := reMR.FindStringSubmatch(ln); m != nil && m[4] != "Comm" {
			res = append(res, fmt.Sprintf("%s:%s#%s", m[1], m[2], m[3]))
		}
	}
	return res, nil
}

func persiteMain(w *out.W, tier string) {
	runs := 24
	if tier == "thorough" {
		runs = 200
	}
	w.Rule = "a case is non-trivial when it is a repetition (run >= 2) of a driver whose iterated maps have >= 4 entries"
	driven := map[string]bool{}
	for _, dr := range siteDrivers() {
		for _, s := range dr.sites {
			driven[s] = true
		}
		var first string
		for i := 0; i < runs; i++ {
			id := fmt.Sprintf("persite/%s/%d", dr.name, i)
			got, err := dr.run()
			if err != nil {
				w.Violation(id, "persite-setup", dr.name+": "+err.Error())
				break
			}
			w.ImplOnly(id, dr.name)
			w.Count("persite:" + dr.name)
			if i == 0 {
				first = got
				continue
			}
			if dr.n >= 4 {
				w.NonTrivial(id)
			}
			if got != first {
				w.Violation(id, "site-order-leak", fmt.Sprintf("driver %s (census sites %s; >= %d map entries): run %d differs from run 1: %s",
					dr.name, strings.Join(dr.sites, ", "), dr.n, i+1, firstDiff([]byte(first), []byte(got))))
				break
			}
		}
	}
	sites, err := censusSites()
	if err != nil {
		w.Set("persite_census", "unreadable: "+err.Error())
		return
	}
	var undriven []string
	inCensus := map[string]bool{}
	for _, s := range sites {
		inCensus[s] = true
		if !driven[s] {
			undriven = append(undriven, s)
			w.Count("persite-undriven")
		}
	}
	var stale []string
	for s := range driven {
		if !inCensus[s] {
			stale = append(stale, s)
		}
	}
	sort.Strings(stale)
	w.Set("persite_census_sites", len(sites))
	w.Set("persite_undriven", undriven)
	w.Set("persite_driver_sites_not_in_census", stale)
}
