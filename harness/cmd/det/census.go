package main

// Map-range census (DESIGN.md §2.4, C20): every `range` over a map-typed expression in the
// packages the property depends on, with a syntactic classification of the loop body.
// Type information comes from go/types; dependencies are imported from the export data that
// `go list -export -deps` produces (standard library only, no x/tools).

import (
	"bytes"
	"encoding/json"
	"fmt"
	"go/ast"
	"go/importer"
	"go/parser"
	"go/printer"
	"go/token"
	"go/types"
	"io"
	"os"
	"os/exec"
	"path/filepath"
	"sort"
	"strings"
)

// censusPkgs: module directory (relative to the repo) -> package patterns.
var censusPkgs = []struct {
	modDir string
	prefix string // path of modDir relative to the repo root, "" for the root module
	pkgs   []string
}{
	{".", "", []string{
		"./sql/internal/sqlx", "./sql/migrate", "./sql/schema", "./sql/internal/specutil", "./schemahcl",
		"./sql/sqlite", "./sql/mysql", "./sql/postgres", "./sql/sqltool",
	}},
	{"cmd/atlas", "cmd/atlas/", []string{"./internal/cmdapi"}},
}

type listPkg struct {
	ImportPath string
	Dir        string
	Export     string
	GoFiles    []string
	DepOnly    bool
	Standard   bool
	Error      *struct{ Err string }
}

type site struct {
	File  string // path relative to the repo root
	Func  string // enclosing declaration: Recv.Name, Name, or the package-level var
	Ord   int    // 1-based ordinal of the map range inside Func (source order)
	Expr  string // the ranged expression
	Class string // Comm | SortedAfter | Sens
	Why   string // what decided (first order-sensitive statement / the sort call)
	App   int    // slices (declared outside the loop) the body appends to
	Srt   int    // ... of which are passed to a sort call later in the same declaration
	Line  int    // not written to the Coq file
}

func repoDir() string {
	if d := os.Getenv("VERIF_REPO"); d != "" {
		return d
	}
	return "/repo"
}

func goList(dir string, pats []string) ([]listPkg, error) {
	args := append([]string{"list", "-tags", "verif", "-e", "-export", "-deps",
		"-json=ImportPath,Dir,Export,GoFiles,DepOnly,Standard,Error"}, pats...)
	cmd := exec.Command("go", args...)
	cmd.Dir = dir
	env := []string{}
	for _, e := range os.Environ() {
		if strings.HasPrefix(e, "GOSUMDB=") || strings.HasPrefix(e, "GOTOOLCHAIN=") || strings.HasPrefix(e, "GOFLAGS=") || strings.HasPrefix(e, "GOPROXY=") {
			continue
		}
		env = append(env, e)
	}
	cmd.Env = append(env, "GOFLAGS=-mod=mod", "GOPROXY=off", "CGO_ENABLED=1")
	var stderr bytes.Buffer
	cmd.Stderr = &stderr
	outp, err := cmd.Output()
	if err != nil {
		return nil, fmt.Errorf("go list in %s: %v: %s", dir, err, stderr.String())
	}
	var res []listPkg
	dec := json.NewDecoder(bytes.NewReader(outp))
	for {
		var p listPkg
		if err := dec.Decode(&p); err == io.EOF {
			break
		} else if err != nil {
			return nil, err
		}
		res = append(res, p)
	}
	return res, nil
}

func runCensus() ([]site, error) {
	repo := repoDir()
	var sites []site
	for _, m := range censusPkgs {
		pkgs, err := goList(filepath.Join(repo, m.modDir), m.pkgs)
		if err != nil {
			return nil, err
		}
		exports := map[string]string{}
		for _, p := range pkgs {
			if p.Export != "" {
				exports[p.ImportPath] = p.Export
			}
		}
		fset := token.NewFileSet()
		imp := importer.ForCompiler(fset, "gc", func(path string) (io.ReadCloser, error) {
			f, ok := exports[path]
			if !ok {
				return nil, fmt.Errorf("no export data for %q", path)
			}
			return os.Open(f)
		})
		for _, p := range pkgs {
			if p.DepOnly {
				continue
			}
			if p.Error != nil {
				return nil, fmt.Errorf("package %s: %s", p.ImportPath, p.Error.Err)
			}
			var files []*ast.File
			for _, gf := range p.GoFiles {
				if strings.HasSuffix(gf, "_test.go") {
					continue
				}
				f, err := parser.ParseFile(fset, filepath.Join(p.Dir, gf), nil, parser.SkipObjectResolution)
				if err != nil {
					return nil, err
				}
				files = append(files, f)
			}
			info := &types.Info{Types: map[ast.Expr]types.TypeAndValue{}, Defs: map[*ast.Ident]types.Object{}, Uses: map[*ast.Ident]types.Object{}}
			var terrs []string
			conf := types.Config{Importer: imp, Error: func(err error) { terrs = append(terrs, err.Error()) }}
			if _, _ = conf.Check(p.ImportPath, fset, files, info); len(terrs) > 0 {
				return nil, fmt.Errorf("type-checking %s: %s", p.ImportPath, strings.Join(terrs[:min(len(terrs), 5)], "; "))
			}
			for _, f := range files {
				name, _ := filepath.Rel(repo, fset.Position(f.Pos()).Filename)
				sites = append(sites, censusFile(fset, info, f, filepath.ToSlash(name))...)
			}
		}
	}
	sort.SliceStable(sites, func(i, j int) bool {
		if sites[i].File != sites[j].File {
			return sites[i].File < sites[j].File
		}
		if sites[i].Func != sites[j].Func {
			return sites[i].Func < sites[j].Func
		}
		return sites[i].Ord < sites[j].Ord
	})
	return sites, nil
}

func exprString(fset *token.FileSet, e ast.Node) string {
	var b bytes.Buffer
	printer.Fprint(&b, fset, e)
	return strings.Join(strings.Fields(b.String()), " ")
}

func declName(d ast.Decl) (string, ast.Node) {
	switch d := d.(type) {
	case *ast.FuncDecl:
		if d.Recv != nil && len(d.Recv.List) > 0 {
			t := d.Recv.List[0].Type
			for {
				switch x := t.(type) {
				case *ast.StarExpr:
					t = x.X
					continue
				case *ast.IndexExpr:
					t = x.X
					continue
				case *ast.IndexListExpr:
					t = x.X
					continue
				}
				break
			}
			if id, ok := t.(*ast.Ident); ok {
				return id.Name + "." + d.Name.Name, d
			}
		}
		return d.Name.Name, d
	case *ast.GenDecl:
		if d.Tok == token.VAR || d.Tok == token.CONST {
			for _, s := range d.Specs {
				if vs, ok := s.(*ast.ValueSpec); ok && len(vs.Names) > 0 {
					return "var " + vs.Names[0].Name, d
				}
			}
		}
	}
	return "", d
}

func censusFile(fset *token.FileSet, info *types.Info, f *ast.File, name string) []site {
	var res []site
	for _, d := range f.Decls {
		if gd, ok := d.(*ast.GenDecl); ok && gd.Tok == token.VAR {
			// one entry per spec so that function literals in `var ( a = func… ; b = func… )` get their own name
			for _, s := range gd.Specs {
				vs := s.(*ast.ValueSpec)
				res = append(res, censusDecl(fset, info, "var "+vs.Names[0].Name, vs, name)...)
			}
			continue
		}
		fn, node := declName(d)
		if fn == "" {
			continue
		}
		res = append(res, censusDecl(fset, info, fn, node, name)...)
	}
	return res
}

func censusDecl(fset *token.FileSet, info *types.Info, fn string, node ast.Node, file string) []site {
	var res []site
	ord := 0
	ast.Inspect(node, func(n ast.Node) bool {
		rs, ok := n.(*ast.RangeStmt)
		if !ok {
			return true
		}
		t := info.TypeOf(rs.X)
		if t == nil {
			return true
		}
		if _, isMap := t.Underlying().(*types.Map); !isMap {
			return true
		}
		ord++
		c := &classifier{fset: fset, info: info, loop: rs, fn: node}
		class, why := c.classify()
		res = append(res, site{File: file, Func: fn, Ord: ord, Expr: exprString(fset, rs.X), Class: class, Why: why, App: len(c.appends), Srt: c.nsorted, Line: fset.Position(rs.Pos()).Line})
		return true
	})
	return res
}

// ---------------------------------------------------------------- classification

type classifier struct {
	fset    *token.FileSet
	info    *types.Info
	loop    *ast.RangeStmt
	fn      ast.Node
	appends []types.Object // non-local slices appended to in the body
	appExpr []string
	why     string
	failed  bool
	nsorted int
}

// classify returns Comm when every effect of the body is a map insert/delete, a commutative
// accumulation (numeric += / ++ / |=, boolean or/and, constant store), a per-element update through
// the loop variables, or an early exit that does not carry the element; Sorted when, in addition,
// the only other effects are appends to slices each of which is passed to a sort call later in
// the same function; Sens otherwise.
func (c *classifier) classify() (string, string) {
	// the whole body is scanned even after the first order-sensitive statement, so that the
	// appends (and whether they are sorted later) are counted for every site
	c.block(c.loop.Body.List)
	c.closureCalls()
	var sorts []string
	unsorted := ""
	for i, o := range c.appends {
		s := c.sortedLater(o, c.appExpr[i])
		if s == "" {
			if unsorted == "" {
				unsorted = "append to " + c.appExpr[i] + " never sorted in this function"
			}
			continue
		}
		c.nsorted++
		sorts = append(sorts, s)
	}
	switch {
	case c.failed:
		return "Sens", c.why
	case unsorted != "":
		return "Sens", unsorted
	case len(c.appends) == 0:
		return "Comm", ""
	}
	return "SortedAfter", strings.Join(sorts, "; ")
}

// closureCalls: a call of a function-typed variable declared outside the loop (a closure such as
// sortMap's visit) may carry state from one iteration to the next, wherever it occurs (conditions
// included): order-sensitive.
func (c *classifier) closureCalls() {
	ast.Inspect(c.loop.Body, func(n ast.Node) bool {
		call, ok := n.(*ast.CallExpr)
		if !ok {
			return true
		}
		id, ok := call.Fun.(*ast.Ident)
		if !ok {
			return true
		}
		if v, ok := c.info.Uses[id].(*types.Var); ok && !(v.Pos() >= c.loop.Pos() && v.Pos() < c.loop.End()) {
			if _, isFn := v.Type().Underlying().(*types.Signature); isFn {
				c.fail(call, "call of a closure variable")
			}
		}
		return true
	})
}

// fail records the first order-sensitive statement; scanning continues.
func (c *classifier) fail(n ast.Node, what string) bool {
	if c.why == "" {
		c.why = what + ": " + trunc(exprString(c.fset, n), 80)
	}
	c.failed = true
	return true
}

func trunc(s string, n int) string {
	if len(s) > n {
		return s[:n] + "..."
	}
	return s
}

func (c *classifier) block(stmts []ast.Stmt) bool {
	for _, s := range stmts {
		if !c.stmt(s) {
			return false
		}
	}
	return true
}

// local reports whether the root identifier of e is declared inside the range statement
// (loop variables included): stores through it touch only per-iteration state or the element.
func (c *classifier) local(e ast.Expr) bool {
	for {
		switch x := e.(type) {
		case *ast.SelectorExpr:
			e = x.X
			continue
		case *ast.IndexExpr:
			e = x.X
			continue
		case *ast.StarExpr:
			e = x.X
			continue
		case *ast.ParenExpr:
			e = x.X
			continue
		}
		break
	}
	id, ok := e.(*ast.Ident)
	if !ok {
		return false
	}
	if id.Name == "_" {
		return true
	}
	o := c.info.Uses[id]
	if o == nil {
		o = c.info.Defs[id]
	}
	return o != nil && o.Pos() >= c.loop.Pos() && o.Pos() < c.loop.End()
}

func (c *classifier) isMapIndex(e ast.Expr) bool {
	ix, ok := e.(*ast.IndexExpr)
	if !ok {
		return false
	}
	t := c.info.TypeOf(ix.X)
	if t == nil {
		return false
	}
	_, isMap := t.Underlying().(*types.Map)
	return isMap
}

func (c *classifier) isNumeric(e ast.Expr) bool {
	t := c.info.TypeOf(e)
	if t == nil {
		return false
	}
	b, ok := t.Underlying().(*types.Basic)
	return ok && b.Info()&(types.IsInteger|types.IsFloat|types.IsComplex) != 0
}

func (c *classifier) isConst(e ast.Expr) bool {
	if tv, ok := c.info.Types[e]; ok && (tv.Value != nil || tv.IsNil()) {
		return true
	}
	if id, ok := e.(*ast.Ident); ok && (id.Name == "true" || id.Name == "false" || id.Name == "nil") {
		return true
	}
	return false
}

// mentionsLoopVars: does e use an object declared inside the range statement?
func (c *classifier) mentionsLocal(e ast.Node) bool {
	found := false
	ast.Inspect(e, func(n ast.Node) bool {
		if id, ok := n.(*ast.Ident); ok {
			if o := c.info.Uses[id]; o != nil && o.Pos() >= c.loop.Pos() && o.Pos() < c.loop.End() {
				found = true
			}
		}
		return !found
	})
	return found
}

func (c *classifier) stmt(s ast.Stmt) bool {
	switch s := s.(type) {
	case nil, *ast.EmptyStmt:
		return true
	case *ast.BlockStmt:
		return c.block(s.List)
	case *ast.DeclStmt:
		return true
	case *ast.BranchStmt:
		if s.Tok == token.CONTINUE {
			return true
		}
		if s.Tok == token.BREAK {
			// leaving the loop early after only commutative effects: the state reached depends on which
			// element was met first only through effects already classified; accepted when unlabelled.
			if s.Label == nil {
				return true
			}
		}
		return c.fail(s, "branch")
	case *ast.ReturnStmt:
		for _, r := range s.Results {
			if c.mentionsLocal(r) {
				return c.fail(s, "return of an element-dependent value")
			}
		}
		return true
	case *ast.IncDecStmt:
		if c.isNumeric(s.X) {
			return true
		}
		return c.fail(s, "incdec")
	case *ast.IfStmt:
		if s.Init != nil && !c.stmt(s.Init) {
			return false
		}
		if !c.block(s.Body.List) {
			return false
		}
		if s.Else != nil {
			return c.stmt(s.Else)
		}
		return true
	case *ast.SwitchStmt:
		if s.Init != nil && !c.stmt(s.Init) {
			return false
		}
		for _, cc := range s.Body.List {
			if !c.block(cc.(*ast.CaseClause).Body) {
				return false
			}
		}
		return true
	case *ast.TypeSwitchStmt:
		for _, cc := range s.Body.List {
			if !c.block(cc.(*ast.CaseClause).Body) {
				return false
			}
		}
		return true
	case *ast.ForStmt:
		if s.Init != nil && !c.stmt(s.Init) {
			return false
		}
		if s.Post != nil && !c.stmt(s.Post) {
			return false
		}
		return c.block(s.Body.List)
	case *ast.RangeStmt:
		return c.block(s.Body.List)
	case *ast.ExprStmt:
		if call, ok := s.X.(*ast.CallExpr); ok {
			if id, ok := call.Fun.(*ast.Ident); ok && id.Name == "delete" && len(call.Args) == 2 {
				return true
			}
		}
		return c.fail(s, "call for effect")
	case *ast.AssignStmt:
		return c.assign(s)
	}
	return c.fail(s, fmt.Sprintf("%T", s))
}

func (c *classifier) assign(s *ast.AssignStmt) bool {
	if s.Tok == token.DEFINE {
		return true
	}
	for i, lhs := range s.Lhs {
		var rhs ast.Expr
		if len(s.Rhs) == len(s.Lhs) {
			rhs = s.Rhs[i]
		}
		switch {
		case c.local(lhs):
			// per-iteration variable or a store through the loop variable (the element itself)
		case c.isMapIndex(lhs):
			// insert / update of another map
		case s.Tok == token.ADD_ASSIGN || s.Tok == token.SUB_ASSIGN || s.Tok == token.MUL_ASSIGN:
			if !c.isNumeric(lhs) {
				return c.fail(s, "non-numeric accumulation")
			}
		case s.Tok == token.OR_ASSIGN || s.Tok == token.AND_ASSIGN || s.Tok == token.XOR_ASSIGN:
		case s.Tok == token.ASSIGN && rhs != nil && c.isConst(rhs):
			// constant store (found = true)
		case s.Tok == token.ASSIGN && rhs != nil && c.isBoolAccum(lhs, rhs):
		case s.Tok == token.ASSIGN && rhs != nil && c.isAppendTo(lhs, rhs):
			c.noteAppend(lhs)
		default:
			return c.fail(s, "store to a variable that outlives the iteration")
		}
	}
	return true
}

// x = x || e, x = x && e
func (c *classifier) isBoolAccum(lhs, rhs ast.Expr) bool {
	b, ok := rhs.(*ast.BinaryExpr)
	if !ok || (b.Op != token.LOR && b.Op != token.LAND) {
		return false
	}
	l := exprString(c.fset, lhs)
	return exprString(c.fset, b.X) == l || exprString(c.fset, b.Y) == l
}

func (c *classifier) isAppendTo(lhs, rhs ast.Expr) bool {
	call, ok := rhs.(*ast.CallExpr)
	if !ok || len(call.Args) == 0 {
		return false
	}
	id, ok := call.Fun.(*ast.Ident)
	if !ok || id.Name != "append" {
		return false
	}
	return exprString(c.fset, call.Args[0]) == exprString(c.fset, lhs)
}

func (c *classifier) noteAppend(lhs ast.Expr) {
	txt := exprString(c.fset, lhs)
	for _, e := range c.appExpr {
		if e == txt {
			return
		}
	}
	var o types.Object
	if id, ok := lhs.(*ast.Ident); ok {
		o = c.info.Uses[id]
	}
	c.appends = append(c.appends, o)
	c.appExpr = append(c.appExpr, txt)
}

var sortFuncs = map[string]bool{
	"sort.Slice": true, "sort.SliceStable": true, "sort.Strings": true, "sort.Ints": true, "sort.Sort": true, "sort.Stable": true,
	"slices.Sort": true, "slices.SortFunc": true, "slices.SortStableFunc": true,
}

// sortedLater: is there, after the loop and inside the same declaration, a sort call whose first
// argument mentions the slice?
func (c *classifier) sortedLater(o types.Object, txt string) string {
	found := ""
	ast.Inspect(c.fn, func(n ast.Node) bool {
		if found != "" {
			return false
		}
		call, ok := n.(*ast.CallExpr)
		if !ok || call.Pos() < c.loop.End() || len(call.Args) == 0 {
			return true
		}
		name := exprString(c.fset, call.Fun)
		if i := strings.Index(name, "["); i >= 0 {
			name = name[:i]
		}
		if !sortFuncs[name] {
			return true
		}
		hit := false
		ast.Inspect(call.Args[0], func(m ast.Node) bool {
			switch m := m.(type) {
			case *ast.Ident:
				if o != nil && c.info.Uses[m] == o {
					hit = true
				}
			case ast.Expr:
				if o == nil && exprString(c.fset, m) == txt {
					hit = true
				}
			}
			return !hit
		})
		if hit {
			found = name + "(" + exprString(c.fset, call.Args[0]) + ")"
		}
		return true
	})
	return found
}

// ---------------------------------------------------------------- Coq output

func coqString(s string) string { return `"` + strings.ReplaceAll(s, `"`, `""`) + `"` }

func censusCoq(sites []site) string {
	var b strings.Builder
	b.WriteString("(* GENERATED by `h_det -mode census` (harness/cmd/det/census.go) from the Go tree in $VERIF_REPO.\n")
	b.WriteString("   Do not edit: ./check C20 rewrites this file before `make` whenever the tree changes.\n")
	b.WriteString("   One entry per `range` over a map-typed expression (non-test files, build tag verif). *)\n")
	b.WriteString("From Coq Require Import String List.\nFrom Atlas Require Import Det.Census.\nImport ListNotations.\nLocal Open Scope string_scope.\n\n")
	b.WriteString("Definition map_ranges : list map_range := [\n")
	for i, s := range sites {
		sep := ";"
		if i == len(sites)-1 {
			sep = ""
		}
		fmt.Fprintf(&b, "  MR %s %s %d %s %s %d %d%s\n", coqString(s.File), coqString(s.Func), s.Ord, coqString(s.Expr), s.Class, s.App, s.Srt, sep)
	}
	b.WriteString("].\n")
	return b.String()
}

func writeIfChanged(path, content string) (bool, error) {
	if old, err := os.ReadFile(path); err == nil && string(old) == content {
		return false, nil
	}
	if err := os.MkdirAll(filepath.Dir(path), 0o755); err != nil {
		return false, err
	}
	return true, os.WriteFile(path, []byte(content), 0o644)
}

func censusMain(outDir string, verbose bool) int {
	sites, err := runCensus()
	if err != nil {
		fmt.Fprintln(os.Stderr, "census:", err)
		return 1
	}
	if verbose {
		for _, s := range sites {
			fmt.Printf("%-11s app=%d srt=%d %s:%d %s #%d range %s   %s\n", s.Class, s.App, s.Srt, s.File, s.Line, s.Func, s.Ord, s.Expr, s.Why)
		}
	}
	changed, err := writeIfChanged(filepath.Join(outDir, "Gen_MapRanges.v"), censusCoq(sites))
	if err != nil {
		fmt.Fprintln(os.Stderr, "census:", err)
		return 1
	}
	n := map[string]int{}
	for _, s := range sites {
		n[s.Class]++
	}
	fmt.Printf("census: %d map ranges (Comm %d, Sorted %d, Sens %d); Gen_MapRanges.v %s\n", len(sites), n["Comm"], n["SortedAfter"], n["Sens"],
		map[bool]string{true: "rewritten", false: "unchanged"}[changed])
	return pkgStateMain(outDir, verbose) // Gen_PkgState.v (pkgstate.go)
}
