package main

// Package-level mutable state census (C20, round 5). Two differs / planners of one process can only
// influence each other through state that outlives them: package-level variables. This pass lists,
// with the go/types machinery of the map-range census (census.go: goList + export data), every
// package-level `var` of the packages below (non-test files, build tag verif) whose type can carry
// state that is shared by reference or guarded for one-time initialisation:
//
//	map | slice | pointer | a named type of package sync or sync/atomic | a struct (or array) with a
//	field of those kinds (nested structs included)
//
// and classifies it:
//
//	Immutable  nothing in the package writes it after its declaration, outside func init():
//	           no `v = …`, `v[k] = …`, `v.f = …`, `v[k]++`, `v op= …`, `delete(v, …)`, `clear(v)`,
//	           `copy(v, …)`, no `&v` (nor `&v.f`, `&v[i]`, `v[:]` of an array), no call of a
//	           pointer-receiver method on v or on a field of v (v.Do, v.Store, v.Lock: the implicit &v),
//	           not used as the key/value variable of a `range … =`;
//	Mutable    anything else.
//
// What the pass cannot see: a map / slice / pointer value passed
// to a function that writes through it; the pointee of a pointer variable mutated through its methods
// (a pointer variable is Immutable when the variable itself is never re-assigned and nothing is stored
// through it syntactically: `v.f = …` counts as a write); variables of interface type that hold a
// pointer (mysql.DefaultDiff: its per-differ sync.Once fields are reached by the history stage, not
// by this census); variables of basic type (`var last string`) and of function type. Writes in
// func init() run once before main and are part of the declaration for this purpose.
//
// Output: coq/theories/gen/Gen_PkgState.v (Det/PkgState.v has the types, Det/PkgStateCovered.v the
// table of Mutable variables the history stage exercises, and the vm_compute obligation).

import (
	"fmt"
	"go/ast"
	"go/importer"
	"go/parser"
	"go/token"
	"go/types"
	"io"
	"os"
	"path/filepath"
	"sort"
	"strings"
)

var pkgStatePkgs = []struct {
	modDir string
	pkgs   []string
}{
	{".", []string{
		"./sql/mysql", "./sql/mysql/internal/mysqlversion", "./sql/postgres", "./sql/sqlite",
		"./sql/internal/sqlx", "./sql/internal/specutil", "./sql/migrate", "./schemahcl",
	}},
	{"cmd/atlas", []string{"./internal/cmdapi"}},
}

type pkgVar struct {
	File  string
	Name  string
	Kind  string // map | slice | pointer | sync.X | struct
	Class string // Immutable | Mutable
	Why   string // first write seen (not written to the Coq file)
	Line  int
}

// stateKind: "" when the type cannot carry shared state in the sense above.
func stateKind(t types.Type, depth int) string {
	if n, ok := t.(*types.Named); ok && n.Obj().Pkg() != nil {
		if p := n.Obj().Pkg().Path(); p == "sync" || p == "sync/atomic" {
			return n.Obj().Pkg().Name() + "." + n.Obj().Name()
		}
	}
	switch u := t.Underlying().(type) {
	case *types.Map:
		return "map"
	case *types.Slice:
		return "slice"
	case *types.Pointer:
		return "pointer"
	case *types.Array:
		if depth < 4 && stateKind(u.Elem(), depth+1) != "" {
			return "struct"
		}
	case *types.Struct:
		if depth >= 4 {
			return ""
		}
		for i := 0; i < u.NumFields(); i++ {
			if stateKind(u.Field(i).Type(), depth+1) != "" {
				return "struct"
			}
		}
	}
	return ""
}

// rootVar: the package-level candidate at the root of an lvalue-like expression.
func rootVar(info *types.Info, cands map[types.Object]*pkgVar, e ast.Expr) *pkgVar {
	for {
		switch x := e.(type) {
		case *ast.SelectorExpr:
			e = x.X
			continue
		case *ast.IndexExpr:
			e = x.X
			continue
		case *ast.SliceExpr:
			e = x.X
			continue
		case *ast.StarExpr:
			e = x.X
			continue
		case *ast.ParenExpr:
			e = x.X
			continue
		}
		break
	}
	id, ok := e.(*ast.Ident)
	if !ok {
		return nil
	}
	return cands[info.Uses[id]]
}

func pkgStateWrites(fset *token.FileSet, info *types.Info, files []*ast.File, cands map[types.Object]*pkgVar) {
	mark := func(e ast.Expr, n ast.Node, what string) {
		if v := rootVar(info, cands, e); v != nil && v.Class != "Mutable" {
			p := fset.Position(n.Pos())
			v.Class, v.Why = "Mutable", fmt.Sprintf("%s at %s:%d: %s", what, filepath.Base(p.Filename), p.Line, trunc(exprString(fset, n), 70))
		}
	}
	visit := func(n ast.Node) bool {
		switch s := n.(type) {
		case *ast.AssignStmt:
			if s.Tok != token.DEFINE {
				for _, l := range s.Lhs {
					mark(l, s, "assignment")
				}
			}
		case *ast.IncDecStmt:
			mark(s.X, s, "incdec")
		case *ast.RangeStmt:
			if s.Tok == token.ASSIGN {
				if s.Key != nil {
					mark(s.Key, s, "range variable")
				}
				if s.Value != nil {
					mark(s.Value, s, "range variable")
				}
			}
		case *ast.UnaryExpr:
			if s.Op == token.AND {
				mark(s.X, s, "address taken")
			}
		case *ast.SliceExpr:
			// v[:] of an array shares the variable's storage
			if t := info.TypeOf(s.X); t != nil {
				if _, isArr := t.Underlying().(*types.Array); isArr {
					mark(s.X, s, "array sliced")
				}
			}
		case *ast.CallExpr:
			switch f := s.Fun.(type) {
			case *ast.Ident:
				if _, builtin := info.Uses[f].(*types.Builtin); builtin && len(s.Args) > 0 && (f.Name == "delete" || f.Name == "clear" || f.Name == "copy") {
					mark(s.Args[0], s, f.Name)
				}
			case *ast.SelectorExpr:
				// a pointer-receiver method called on an addressable, non-pointer operand: implicit &v
				sel := info.Selections[f]
				if sel == nil || sel.Kind() != types.MethodVal {
					break
				}
				fn, ok := sel.Obj().(*types.Func)
				if !ok {
					break
				}
				recv := fn.Type().(*types.Signature).Recv()
				if recv == nil {
					break
				}
				if _, ptrRecv := recv.Type().(*types.Pointer); !ptrRecv {
					break
				}
				if t := info.TypeOf(f.X); t != nil {
					if _, isPtr := t.Underlying().(*types.Pointer); !isPtr {
						mark(f.X, s, "pointer-receiver method "+fn.Name())
					}
				}
			}
		}
		return true
	}
	for _, f := range files {
		for _, d := range f.Decls {
			if fd, ok := d.(*ast.FuncDecl); ok && fd.Recv == nil && fd.Name.Name == "init" {
				continue
			}
			ast.Inspect(d, visit)
		}
	}
}

func runPkgState() ([]pkgVar, error) {
	repo := repoDir()
	var res []pkgVar
	for _, m := range pkgStatePkgs {
		pkgs, err := goList(filepath.Join(repo, m.modDir), m.pkgs)
		if err != nil {
			return nil, err
		}
		exports := map[string]string{}
		for _, p := range pkgs {
			if p.Export != "" {
				exports[p.ImportPath] = p.Export
			}
		}
		fset := token.NewFileSet()
		imp := importer.ForCompiler(fset, "gc", func(path string) (io.ReadCloser, error) {
			f, ok := exports[path]
			if !ok {
				return nil, fmt.Errorf("no export data for %q", path)
			}
			return os.Open(f)
		})
		for _, p := range pkgs {
			if p.DepOnly {
				continue
			}
			if p.Error != nil {
				return nil, fmt.Errorf("package %s: %s", p.ImportPath, p.Error.Err)
			}
			var files []*ast.File
			for _, gf := range p.GoFiles {
				if strings.HasSuffix(gf, "_test.go") {
					continue
				}
				f, err := parser.ParseFile(fset, filepath.Join(p.Dir, gf), nil, parser.SkipObjectResolution)
				if err != nil {
					return nil, err
				}
				files = append(files, f)
			}
			info := &types.Info{Types: map[ast.Expr]types.TypeAndValue{}, Defs: map[*ast.Ident]types.Object{}, Uses: map[*ast.Ident]types.Object{},
				Selections: map[*ast.SelectorExpr]*types.Selection{}}
			var terrs []string
			conf := types.Config{Importer: imp, Error: func(err error) { terrs = append(terrs, err.Error()) }}
			if _, _ = conf.Check(p.ImportPath, fset, files, info); len(terrs) > 0 {
				return nil, fmt.Errorf("type-checking %s: %s", p.ImportPath, strings.Join(terrs[:min(len(terrs), 5)], "; "))
			}
			cands := map[types.Object]*pkgVar{}
			var order []*pkgVar
			for _, f := range files {
				name, _ := filepath.Rel(repo, fset.Position(f.Pos()).Filename)
				for _, d := range f.Decls {
					gd, ok := d.(*ast.GenDecl)
					if !ok || gd.Tok != token.VAR {
						continue
					}
					for _, s := range gd.Specs {
						for _, id := range s.(*ast.ValueSpec).Names {
							o, ok := info.Defs[id].(*types.Var)
							if !ok || id.Name == "_" {
								continue
							}
							k := stateKind(o.Type(), 0)
							if k == "" {
								continue
							}
							v := &pkgVar{File: filepath.ToSlash(name), Name: id.Name, Kind: k, Class: "Immutable", Line: fset.Position(id.Pos()).Line}
							cands[o] = v
							order = append(order, v)
						}
					}
				}
			}
			pkgStateWrites(fset, info, files, cands)
			for _, v := range order {
				res = append(res, *v)
			}
		}
	}
	sort.SliceStable(res, func(i, j int) bool {
		if res[i].File != res[j].File {
			return res[i].File < res[j].File
		}
		return res[i].Name < res[j].Name
	})
	return res, nil
}

func pkgStateCoq(vs []pkgVar) string {
	var b strings.Builder
	b.WriteString("(* GENERATED by `h_det -mode census` (harness/cmd/det/pkgstate.go) from the Go tree in $VERIF_REPO.\n")
	b.WriteString("   Do not edit: ./check C20 rewrites this file before `make` whenever the tree changes.\n")
	b.WriteString("   One entry per package-level var of map / slice / pointer / sync type (or a struct holding one),\n")
	b.WriteString("   non-test files, build tag verif. *)\n")
	b.WriteString("From Coq Require Import String List.\nFrom Atlas Require Import Det.PkgState.\nImport ListNotations.\nLocal Open Scope string_scope.\n\n")
	b.WriteString("Definition pkg_state : list pkg_var := [\n")
	for i, v := range vs {
		sep := ";"
		if i == len(vs)-1 {
			sep = ""
		}
		fmt.Fprintf(&b, "  PV %s %s %s %s%s\n", coqString(v.File), coqString(v.Name), coqString(v.Kind), v.Class, sep)
	}
	b.WriteString("].\n")
	return b.String()
}

// pkgStateMain is called by censusMain after Gen_MapRanges.v was written.
func pkgStateMain(outDir string, verbose bool) int {
	vs, err := runPkgState()
	if err != nil {
		fmt.Fprintln(os.Stderr, "pkgstate:", err)
		return 1
	}
	n := map[string]int{}
	var mut []string
	for _, v := range vs {
		n[v.Class]++
		if v.Class == "Mutable" {
			mut = append(mut, v.File+":"+v.Name)
		}
		if verbose {
			fmt.Printf("%-9s %-10s %s:%d %s   %s\n", v.Class, v.Kind, v.File, v.Line, v.Name, v.Why)
		}
	}
	changed, err := writeIfChanged(filepath.Join(outDir, "Gen_PkgState.v"), pkgStateCoq(vs))
	if err != nil {
		fmt.Fprintln(os.Stderr, "pkgstate:", err)
		return 1
	}
	fmt.Printf("pkgstate: %d package-level vars of reference / sync kind (Immutable %d, Mutable %d: %s); Gen_PkgState.v %s\n", len(vs), n["Immutable"], n["Mutable"],
		strings.Join(mut, ", "), map[bool]string{true: "rewritten", false: "unchanged"}[changed])
	return 0
}
