package main

// First use under concurrency (C20, round 4). The package-level values behind MarshalHCL / EvalHCL (the
// schemahcl.State of each dialect, its type registry) may build indexes on first use. The concurrent part of
// the stage `repeat` runs after the sequential one has used everything once; here every measurement is a FRESH
// process (the harness re-executes itself, -mode coldchild) in which the very first operations on those values
// are started at the same instant in 12 goroutines, on schemas with many distinct column types. Every output
// must be the sequential one of the parent, and the child must not die (fatal error: concurrent map read and
// map write). The same children also run in the -race binary (stage repeat, raceRun).

import (
	"bytes"
	"context"
	"fmt"
	"os"
	"os/exec"
	"path/filepath"
	"runtime"
	"sort"
	"strings"
	"sync"
	"sync/atomic"
	"time"

	"ariga.io/atlas/sql/schema"

	"verifharness/internal/out"
)

// typesSchema: 6 tables x all the column types of the list (each type in several tables, with different
// names), built with the schema package only (no dialect code runs).
func typesSchema(d *dialect) *schema.Schema {
	var ts []schema.Type
	i := func(t string) schema.Type { return &schema.IntegerType{T: t} }
	s := func(t string, n int) schema.Type { return &schema.StringType{T: t, Size: n} }
	tm := func(t string) schema.Type { return &schema.TimeType{T: t} }
	switch d.name {
	case "mysql":
		ts = []schema.Type{i("bigint"), i("int"), i("smallint"), i("tinyint"), i("mediumint"),
			&schema.DecimalType{T: "decimal", Precision: 10, Scale: 2}, &schema.FloatType{T: "float"}, &schema.FloatType{T: "double"},
			s("varchar", 255), s("char", 10), s("text", 0), s("mediumtext", 0), s("longtext", 0), s("tinytext", 0),
			&schema.BinaryType{T: "blob"}, &schema.BinaryType{T: "longblob"}, tm("date"), tm("datetime"), tm("timestamp"), tm("time"), tm("year"),
			&schema.JSONType{T: "json"}, &schema.BoolType{T: "bool"}, &schema.EnumType{T: "enum", Values: []string{"a", "b"}}}
	case "postgres":
		ts = []schema.Type{i("bigint"), i("integer"), i("smallint"),
			&schema.DecimalType{T: "numeric", Precision: 10, Scale: 2}, &schema.FloatType{T: "real"}, &schema.FloatType{T: "double precision"},
			s("character varying", 255), s("character", 10), s("text", 0), &schema.BinaryType{T: "bytea"},
			tm("date"), tm("time without time zone"), tm("timestamp without time zone"), tm("timestamp with time zone"),
			&schema.JSONType{T: "json"}, &schema.JSONType{T: "jsonb"}, &schema.BoolType{T: "boolean"}, &schema.UUIDType{T: "uuid"}}
	default:
		ts = []schema.Type{i("integer"), i("int"), i("bigint"), i("smallint"), i("tinyint"), &schema.FloatType{T: "real"}, &schema.FloatType{T: "double"},
			&schema.DecimalType{T: "decimal", Precision: 10, Scale: 2}, s("text", 0), s("varchar", 255), &schema.BinaryType{T: "blob"},
			tm("date"), tm("datetime"), &schema.JSONType{T: "json"}, &schema.BoolType{T: "boolean"}, &schema.UUIDType{T: "uuid"}}
	}
	sc := schema.New(d.schema)
	for t := 0; t < 6; t++ {
		tab := schema.NewTable(fmt.Sprintf("types_%d", t))
		id := schema.NewIntColumn("id", d.intT)
		tab.AddColumns(id)
		for k := range ts {
			typ := ts[(k+3*t)%len(ts)]
			c := schema.NewColumn(fmt.Sprintf("c%d_%d", t, k)).SetType(typ)
			c.Type.Null = k%2 == 0
			tab.AddColumns(c)
		}
		tab.SetPrimaryKey(schema.NewPrimaryKey(id))
		sc.AddTables(tab)
	}
	return sc
}

type coldOp struct {
	name string
	// prep builds the input without touching any dialect code (schema values, the bytes of the HCL source);
	// the function it returns is the operation proper: the first thing it does is enter the dialect's code.
	prep func(hclDir string) func() ([]byte, error)
}

func (o coldOp) run(dir string) ([]byte, error) { return o.prep(dir)() }

// coldOps: per dialect -- marshal the types schema; evaluate its HCL source (written by the parent to
// hclDir/<dialect>.hcl, so that the child does not marshal before it evaluates) and print the column types;
// diff the types schema against the empty schema and plan.
func coldOps() []coldOp {
	var ops []coldOp
	for _, d := range dialects {
		d := d
		ops = append(ops, coldOp{"marshal-" + d.name, func(string) func() ([]byte, error) {
			sc := typesSchema(d)
			return func() ([]byte, error) { return d.marshal.MarshalSpec(sc) }
		}})
		ops = append(ops, coldOp{"eval-" + d.name, func(dir string) func() ([]byte, error) {
			src, rerr := os.ReadFile(filepath.Join(dir, d.name+".hcl"))
			return func() ([]byte, error) {
				if rerr != nil {
					return nil, rerr
				}
				s, err := evalFiles(d, map[string]string{"types.hcl": string(src)})
				if err != nil {
					return nil, fmt.Errorf("eval: %w", err)
				}
				var b bytes.Buffer
				for _, t := range s.Tables {
					for _, c := range t.Columns {
						fmt.Fprintf(&b, "%s.%s %T %s null=%v\n", t.Name, c.Name, c.Type.Type, c.Type.Raw, c.Type.Null)
					}
				}
				return b.Bytes(), nil
			}
		}})
		ops = append(ops, coldOp{"plan-" + d.name, func(string) func() ([]byte, error) {
			from, to := schema.New(d.schema), typesSchema(d)
			return func() ([]byte, error) {
				changes, err := d.differ.SchemaDiff(from, to)
				if err != nil {
					return nil, fmt.Errorf("diff: %w", err)
				}
				p, err := d.planner.PlanChanges(context.Background(), "cold", changes)
				if err != nil {
					return nil, fmt.Errorf("plan: %w", err)
				}
				return planBytes(p), nil
			}
		}})
	}
	return ops
}

// coldPairs: which two kinds of operation share the first use of each dialect's state in a fresh process.
func coldPairs() [][2]string {
	return [][2]string{{"marshal", "marshal"}, {"eval", "eval"}, {"marshal", "eval"}, {"plan", "marshal"}, {"plan", "eval"}, {"plan", "plan"}}
}

const coldGoroutines = 12

// coldChildMain: `-mode coldchild -pair kindA,kindB -rot k -out DIR`. Three phases, one per dialect (rotated by
// k): coldGoroutines goroutines prepare their input, meet at a spin barrier, and enter the dialect's code within
// the same microsecond -- even ones run kindA, odd ones kindB, each twice. Prints
// "<op> <goroutine> <round> <sha256>" and stores each distinct output under DIR.
func coldChildMain(pair string, rot int, dir string) int {
	kinds := strings.SplitN(pair, ",", 2)
	if len(kinds) != 2 {
		fmt.Fprintln(os.Stderr, "coldchild: -pair kindA,kindB")
		return 2
	}
	ops := map[string]coldOp{}
	for _, o := range coldOps() {
		ops[o.name] = o
	}
	var (
		mu    sync.Mutex
		lines []string
	)
	for ph := range dialects {
		d := dialects[(ph+rot)%len(dialects)]
		a, okA := ops[kinds[0]+"-"+d.name]
		b, okB := ops[kinds[1]+"-"+d.name]
		if !okA || !okB {
			fmt.Fprintln(os.Stderr, "coldchild: unknown operation")
			return 2
		}
		var (
			wg      sync.WaitGroup
			arrived atomic.Int32
		)
		for g := 0; g < coldGoroutines; g++ {
			g := g
			o := a
			if g%2 == 1 {
				o = b
			}
			wg.Add(1)
			go func() {
				defer wg.Done()
				runtime.LockOSThread()
				defer runtime.UnlockOSThread()
				f := o.prep(dir)
				f2 := o.prep(dir)
				arrived.Add(1)
				for spins := 0; arrived.Load() < coldGoroutines; spins++ { // spin barrier (bounded: fall through after ~2 s)
					if spins > 1<<28 {
						break
					}
				}
				for round, fn := range []func() ([]byte, error){f, f2} {
					res, err := func() (res []byte, err error) {
						defer func() {
							if r := recover(); r != nil {
								err = fmt.Errorf("panic: %v", r)
							}
						}()
						return fn()
					}()
					if err != nil {
						res = []byte("ERR " + errClass(err))
					}
					h := sha(string(res))
					os.WriteFile(filepath.Join(dir, o.name+"."+h[:16]), res, 0o644)
					mu.Lock()
					lines = append(lines, fmt.Sprintf("%s %d %d %s", o.name, g, round, h))
					mu.Unlock()
				}
			}()
		}
		wg.Wait()
	}
	sort.Strings(lines)
	fmt.Println(strings.Join(lines, "\n"))
	return 0
}

// coldPrepare: the sequential outputs (this process; warm or not does not matter for a sequential run) and the HCL
// sources the children evaluate.
func coldPrepare(dir string) (map[string][]byte, error) {
	for _, d := range dialects {
		src, err := d.marshal.MarshalSpec(typesSchema(d))
		if err != nil {
			return nil, fmt.Errorf("marshal %s: %w", d.name, err)
		}
		if err := os.WriteFile(filepath.Join(dir, d.name+".hcl"), src, 0o644); err != nil {
			return nil, err
		}
	}
	base := map[string][]byte{}
	for _, o := range coldOps() {
		b, err := o.run(dir)
		if err != nil {
			return nil, fmt.Errorf("%s: %w", o.name, err)
		}
		base[o.name] = b
	}
	return base, nil
}

// coldRun runs one child (binary bin) on one pair and judges it. It returns the combined output for the caller
// that looks for race reports.
func coldRun(w *out.W, bin string, env []string, id string, pair [2]string, rot int, dir string, base map[string][]byte) string {
	cmd := exec.Command(bin, "-mode", "coldchild", "-pair", pair[0]+","+pair[1], "-rot", fmt.Sprint(rot), "-out", dir)
	cmd.Env = env
	var so, se bytes.Buffer
	cmd.Stdout, cmd.Stderr = &so, &se
	err := cmd.Start()
	if err == nil {
		done := make(chan error, 1)
		go func() { done <- cmd.Wait() }()
		select {
		case err = <-done:
		case <-time.After(2 * time.Minute):
			cmd.Process.Kill()
			err = fmt.Errorf("timeout")
		}
	}
	what := fmt.Sprintf("fresh process, per dialect (rotation %d) %d goroutines released together, first use: %s next to %s", rot, coldGoroutines, pair[0], pair[1])
	txt := se.String()
	if err != nil && !strings.Contains(txt, "WARNING: DATA RACE") {
		msg := strings.Join(strings.Fields(txt), " ")
		if i := strings.Index(msg, "fatal error"); i >= 0 {
			msg = msg[i:]
		}
		w.Violation(id, "cold-start-crash", fmt.Sprintf("%s: the process died (%v): %s", what, err, trunc(msg, 300)))
		return txt
	}
	bad := map[string]bool{}
	n := 0
	for _, l := range strings.Split(strings.TrimSpace(so.String()), "\n") {
		f := strings.Fields(l)
		if len(f) != 4 {
			continue
		}
		n++
		want, ok := base[f[0]]
		if !ok || f[3] == sha(string(want)) || bad[f[0]+f[3]] {
			continue
		}
		bad[f[0]+f[3]] = true
		got, _ := os.ReadFile(filepath.Join(dir, f[0]+"."+f[3][:16]))
		w.Violation(id, "cold-start-different-output", fmt.Sprintf("%s: %s in goroutine %s (round %s) differs from the sequential output: %s", what, f[0], f[1], f[2], firstDiff(want, got)))
	}
	if want := 2 * coldGoroutines * len(dialects); n != want && err == nil {
		w.Violation(id, "cold-start-crash", fmt.Sprintf("%s: the process reported %d of %d results", what, n, want))
	}
	return txt
}

func coldMain(w *out.W, tier string) {
	reps := 6
	if tier == "thorough" {
		reps = 60
	}
	w.Rule = "every case is a fresh process in which, for each dialect in turn, the first operations on its package-level HCL state / type registry are 12 goroutines released together from a spin barrier (two kinds of operation per process out of marshal, eval, plan of a schema with 16..24 distinct column types in 6 tables; 6 pairs x 6 processes x 3 dialects, thorough x 60); outputs compared with the sequential bytes of the parent, a dead child is a violation; all cases count as non-trivial"
	dir, err := os.MkdirTemp("", "detcold")
	if err != nil {
		w.Violation("cold", "cold-setup", err.Error())
		return
	}
	defer os.RemoveAll(dir)
	base, err := coldPrepare(dir)
	if err != nil {
		w.Violation("cold", "cold-setup", "sequential run failed: "+err.Error())
		return
	}
	self, _ := os.Executable()
	for pi, pair := range coldPairs() {
		for r := 0; r < reps; r++ {
			id := fmt.Sprintf("cold/%s+%s/%d", pair[0], pair[1], r)
			coldRun(w, self, os.Environ(), id, pair, r, dir, base)
			w.ImplOnly(id, fmt.Sprintf("pair %d: %d results compared", pi, 2*coldGoroutines*len(dialects)))
			w.NonTrivial(id)
			w.Count("cold-process")
		}
	}
}
