package main

// Repeated-run oracle of C20: every operation of ops.go, on every variant,
//   (a) 20 times in this process,
//   (b) in 4 fresh processes (the harness re-executes itself: -mode child),
//   (c) concurrently, in goroutines, next to unrelated operations,
//   (d) the same concurrent schedule in a binary built with -race (built on demand, cached by go).
// must give byte-identical output. Go randomises map iteration per range statement and seeds
// it per process, so an output that leaks a map order shows up here (probabilities: notes/C20.md).

import (
	"bufio"
	"bytes"
	"context"
	"fmt"
	"os"
	"os/exec"
	"path/filepath"
	"strings"
	"sync"
	"time"

	"ariga.io/atlas/sql/migrate"
	"ariga.io/atlas/sql/schema"
	"ariga.io/atlas/sql/verifx"

	"verifharness/internal/out"
)

func opHashes() map[string]string {
	res := map[string]string{}
	for _, o := range allOps() {
		for v := 0; v < nVariants; v++ {
			b, err := runOp(o, v)
			k := fmt.Sprintf("%s/%d", o.name, v)
			if err != nil {
				res[k] = "ERR " + errClass(err)
			} else {
				res[k] = sha(string(b))
			}
		}
	}
	return res
}

func errClass(err error) string {
	s := err.Error()
	if strings.HasPrefix(s, "panic") {
		return "panic"
	}
	if i := strings.Index(s, ":"); i > 0 {
		return s[:i]
	}
	return "error"
}

// childMain prints "<op>/<variant> <sha256>" for every operation: one fresh process = one map seed.
func childMain() int {
	h := opHashes()
	w := bufio.NewWriter(os.Stdout)
	for k, v := range h {
		fmt.Fprintf(w, "%s %s\n", k, v)
	}
	w.Flush()
	return 0
}

func firstDiff(a, b []byte) string {
	la, lb := strings.Split(string(a), "\n"), strings.Split(string(b), "\n")
	for i := 0; i < len(la) && i < len(lb); i++ {
		if la[i] != lb[i] {
			return fmt.Sprintf("line %d: %q vs %q", i+1, trunc(la[i], 160), trunc(lb[i], 160))
		}
	}
	return fmt.Sprintf("lengths %d vs %d lines", len(la), len(lb))
}

func repeatMain(w *out.W, tier string) {
	runs, procs := 20, 4
	if tier == "thorough" {
		runs, procs = 200, 12
	}
	w.Rule = "an operation/variant counts as non-trivial when its output is produced without error and is longer than 200 bytes (so that at least one iterated map of the implementation has >= 4 entries: 9-11 tables, 11-15 files)"
	base := map[string][]byte{}
	for _, o := range allOps() {
		for v := 0; v < nVariants; v++ {
			id := fmt.Sprintf("%s/%d", o.name, v)
			first, err := runOp(o, v)
			if err != nil {
				// an input the planner rejects is not a determinism observation, but it must be rejected every time
				first = []byte("ERR " + errClass(err))
				w.Count("rejected:" + errClass(err))
			} else if len(first) > 200 {
				w.NonTrivial(id)
			}
			base[id] = first
			w.Count("op:" + strings.SplitN(o.name, "-", 2)[0])
			for i := 1; i < runs; i++ {
				b, err := runOp(o, v)
				if err != nil {
					b = []byte("ERR " + errClass(err))
				}
				if !bytes.Equal(b, first) {
					w.Violation(id, "nondeterministic-"+strings.SplitN(o.name, "-", 2)[0], fmt.Sprintf("%s variant %d: run %d differs from run 1 in the same process: %s", o.name, v, i+1, firstDiff(first, b)))
					break
				}
			}
			w.ImplOnly(id, fmt.Sprintf("%d in-process runs, sha256=%s len=%d", runs, sha(string(first))[:16], len(first)))
		}
	}
	// (a') isolation: what an operation returned must not change when unrelated operations run
	// afterwards (shared buffers, pooled state): the files a formatter returned are read again
	// after the same formatter has formatted two other plans
	for _, f := range formatters {
		for v := 0; v < nVariants; v++ {
			id := fmt.Sprintf("isolated-format-%s/%d", f.name, v)
			p1, err1 := mkPlan(dialects[1+v%2], v, []string{"create", "modify", "drop"}[v%3])
			p2, err2 := mkPlan(dialects[1+(v+1)%2], (v+1)%nVariants, "create")
			p3, err3 := mkPlan(dialects[0], (v+2)%nVariants, "drop")
			if err1 != nil || err2 != nil || err3 != nil {
				continue
			}
			fs1, err := f.f.Format(p1)
			if err != nil {
				continue
			}
			snap := sha(string(filesBytes(fs1)))
			f.f.Format(p2)
			f.f.Format(p3)
			after := sha(string(filesBytes(fs1)))
			w.ImplOnly(id, "files re-read after two unrelated Format calls")
			w.Count("isolation")
			if snap != after {
				w.Violation(id, "output-not-isolated", fmt.Sprintf("%s formatter, variant %d: the files returned by Format change after formatting two unrelated plans (shared state between calls)", f.name, v))
			}
		}
	}
	// (a2) the same input VALUE, used again: an operation must not consume or rewrite its argument.
	// The same []schema.Change is planned three times (`schema apply` plans once to show the plan and again in
	// ApplyChanges), the same *migrate.Plan is formatted twice.
	for _, d := range dialects {
		for _, sc := range []string{"create", "modify", "drop"} {
			for v := 0; v < nVariants; v++ {
				id := fmt.Sprintf("same-value-plan-%s-%s/%d", d.name, sc, v)
				changes, err := mkChanges(d, v, sc)
				if err != nil {
					continue
				}
				sameValuePlan(w, id, fmt.Sprintf("%s %s variant %d", d.name, sc, v), d, changes)
			}
		}
		// the same with schema-level changes in the list (what a realm diff / a hand-made list holds): two
		// schemas with the same tables, the schema-level changes in front or between the table changes
		if d.name == "sqlite" {
			continue // one schema per connection
		}
		for _, sc := range realmScenarios {
			for v := 0; v < nVariants; v++ {
				id := fmt.Sprintf("same-value-plan-%s-%s/%d", d.name, sc, v)
				changes, err := mkRealmChanges(d, v, sc)
				if err != nil {
					w.Violation(id, "same-value-setup", fmt.Sprintf("%s %s variant %d: %v", d.name, sc, v, err))
					continue
				}
				sameValuePlan(w, id, fmt.Sprintf("%s %s variant %d", d.name, sc, v), d, changes)
			}
		}
	}
	for _, f := range formatters {
		for v := 0; v < nVariants; v++ {
			id := fmt.Sprintf("same-value-format-%s/%d", f.name, v)
			p, err := mkPlan(dialects[1+v%2], v, []string{"create", "modify", "drop"}[v%3])
			if err != nil {
				continue
			}
			fs1, e1 := f.f.Format(p)
			fs2, e2 := f.f.Format(p)
			w.ImplOnly(id, "the same plan value formatted twice")
			w.Count("same-value")
			if e1 != nil || e2 != nil {
				continue
			}
			if a, b := filesBytes(fs1), filesBytes(fs2); !bytes.Equal(a, b) {
				w.Violation(id, "same-value-different-files", fmt.Sprintf("%s formatter, variant %d: formatting the same plan value again gives different files: %s", f.name, v, firstDiff(a, b)))
			}
		}
	}
	// (a3) history independence of the directory checksum: a MemDir that was listed and hashed, then had files
	// overwritten and one added, hashes like a new MemDir holding the same final content
	for v := 0; v < nVariants; v++ {
		id := fmt.Sprintf("hash-after-rewrite/%d", v)
		files := dirFiles(v)
		d := &migrate.MemDir{}
		for _, f := range files {
			d.WriteFile(f[0], []byte(f[1]))
		}
		d.Files()
		d.Checksum()
		final := map[string]string{}
		for _, f := range files {
			final[f[0]] = f[1]
		}
		k := 0
		for _, f := range files {
			if strings.HasSuffix(f[0], ".sql") && k < 2 {
				final[f[0]] = f[1] + "-- edited\nALTER TABLE x ADD COLUMN y int;\n"
				d.WriteFile(f[0], []byte(final[f[0]]))
				d.Checksum()
				k++
			}
		}
		if v%2 == 1 { // also with a file added after the overwrites
			final["2099_zz.sql"] = "CREATE TABLE zz (id int);\n"
			d.WriteFile("2099_zz.sql", []byte(final["2099_zz.sql"]))
		}
		h1, err1 := d.Checksum()
		fresh := &migrate.MemDir{}
		for n, b := range final {
			fresh.WriteFile(n, []byte(b))
		}
		h2, err2 := fresh.Checksum()
		w.ImplOnly(id, "MemDir hashed, two files overwritten, one added, hashed again vs a new MemDir with the same content")
		w.Count("hash-history")
		if err1 != nil || err2 != nil {
			w.Violation(id, "hash-history-error", fmt.Sprintf("variant %d: %v / %v", v, err1, err2))
			continue
		}
		b1, _ := h1.MarshalText()
		b2, _ := h2.MarshalText()
		if !bytes.Equal(b1, b2) {
			w.Violation(id, "hash-depends-on-history", fmt.Sprintf("variant %d: the checksum of a MemDir after overwriting files differs from the checksum of a new MemDir with the same files: %s", v, firstDiff(b1, b2)))
		}
	}
	// (a4) the same for a LocalDir: files written, hashed (sum file written), then a file rewritten with SHORTER
	// content, one deleted, the sum written again -> files, sum file and Validate as for a new directory
	for v := 0; v < nVariants; v++ {
		id := fmt.Sprintf("localdir-after-rewrite/%d", v)
		w.ImplOnly(id, "LocalDir written, hashed, files rewritten shorter / removed, hashed again vs a new LocalDir with the same content")
		w.Count("hash-history")
		if msg := localDirHistory(v); msg != "" {
			w.Violation(id, "hash-depends-on-history", fmt.Sprintf("variant %d: %s", v, msg))
		}
	}
	// (b) fresh processes
	self, _ := os.Executable()
	for p := 0; p < procs; p++ {
		cmd := exec.Command(self, "-mode", "child", "-out", os.TempDir())
		cmd.Env = os.Environ()
		outp, err := cmd.Output()
		if err != nil {
			w.Violation(fmt.Sprintf("proc%d", p), "child-failed", "fresh process failed: "+err.Error())
			continue
		}
		n := 0
		for _, l := range strings.Split(strings.TrimSpace(string(outp)), "\n") {
			f := strings.Fields(l)
			if len(f) < 2 {
				continue
			}
			n++
			want := sha(string(base[f[0]]))
			if strings.HasPrefix(string(base[f[0]]), "ERR ") {
				want = string(base[f[0]])
			}
			got := strings.Join(f[1:], " ")
			if got != want {
				w.Violation(f[0], "nondeterministic-"+strings.SplitN(f[0], "-", 2)[0], fmt.Sprintf("%s: fresh process %d produced sha256 %s, this process %s", f[0], p, got[:min(16, len(got))], want[:min(16, len(want))]))
			}
		}
		w.ImplOnly(fmt.Sprintf("proc%d", p), fmt.Sprintf("fresh process compared %d outputs", n))
		w.Count("fresh-process")
	}
	// (c) goroutines
	concurrent(w, base, 4, "conc")
	// (d) the same under the race detector
	raceRun(w, tier)
}

var realmScenarios = []string{"realm-create", "realm-create-interleaved", "realm-modify", "realm-drop"}

// mkRealmChanges: change lists over two schemas that hold the same tables (same names), with
// schema-level changes. realm-create: AddSchema x2, then the tables of both; realm-create-interleaved:
// AddSchema, its tables, AddSchema, its tables; realm-modify: ModifySchema of the first and AddSchema of
// the second schema, then the modifications of the first and the tables of the second; realm-drop:
// DropSchema of the second schema, then the drops of the tables of the first.
func mkRealmChanges(d *dialect, v int, scenario string) ([]schema.Change, error) {
	to1 := mkSchema(d, v, nil)
	to2 := mkSchema(d, v, nil)
	to2.Name = d.schema + "2"
	diff := func(from, to *schema.Schema) ([]schema.Change, error) {
		cs, err := d.differ.SchemaDiff(from, to)
		if err != nil {
			return nil, fmt.Errorf("diff: %w", err)
		}
		return cs, nil
	}
	attr := func() schema.Change {
		if d.name == "mysql" {
			return &schema.ModifyAttr{From: &schema.Charset{V: "latin1"}, To: &schema.Charset{V: "utf8mb4"}}
		}
		return &schema.ModifyAttr{From: &schema.Comment{Text: "old"}, To: &schema.Comment{Text: "new"}}
	}
	var out []schema.Change
	switch scenario {
	case "realm-create", "realm-create-interleaved":
		c1, err := diff(schema.New(to1.Name), to1)
		if err != nil {
			return nil, err
		}
		c2, err := diff(schema.New(to2.Name), to2)
		if err != nil {
			return nil, err
		}
		if scenario == "realm-create" {
			out = append(out, &schema.AddSchema{S: to1}, &schema.AddSchema{S: to2})
			out = append(append(out, c1...), c2...)
		} else {
			out = append(append(out, &schema.AddSchema{S: to1}), c1...)
			out = append(append(out, &schema.AddSchema{S: to2}), c2...)
		}
	case "realm-modify":
		c1, err := diff(fromSchema(d, v), to1)
		if err != nil {
			return nil, err
		}
		c2, err := diff(schema.New(to2.Name), to2)
		if err != nil {
			return nil, err
		}
		out = append(out, &schema.ModifySchema{S: to1, Changes: []schema.Change{attr()}}, &schema.AddSchema{S: to2})
		out = append(append(out, c1...), c2...)
	case "realm-drop":
		c1, err := diff(to1, schema.New(to1.Name))
		if err != nil {
			return nil, err
		}
		out = append(append(out, &schema.DropSchema{S: to2}), c1...)
	}
	return out, nil
}

// valueIdentity: the identity of a change list a planner must leave alone: the elements of the slice
// and, for every ModifyTable / ModifySchema, the elements of its Changes; for every table its
// foreign keys.
func valueIdentity(cs []schema.Change) string {
	var b strings.Builder
	tab := func(t *schema.Table) {
		fmt.Fprintf(&b, "%p:%s[", t, t.Name)
		for _, f := range t.ForeignKeys {
			fmt.Fprintf(&b, "%p,", f)
		}
		b.WriteString("]")
	}
	for _, c := range cs {
		fmt.Fprintf(&b, "%T@%p", c, c)
		switch c := c.(type) {
		case *schema.AddTable:
			tab(c.T)
		case *schema.DropTable:
			tab(c.T)
		case *schema.ModifyTable:
			tab(c.T)
			for _, x := range c.Changes {
				fmt.Fprintf(&b, " %T@%p", x, x)
			}
		case *schema.ModifySchema:
			for _, x := range c.Changes {
				fmt.Fprintf(&b, " %T@%p", x, x)
			}
		}
		b.WriteString(";")
	}
	return b.String()
}

func changeKinds(cs []schema.Change) string {
	var ss []string
	for _, c := range cs {
		s := strings.TrimPrefix(fmt.Sprintf("%T", c), "*schema.")
		switch c := c.(type) {
		case *schema.AddTable:
			s += ":" + c.T.Name
		case *schema.DropTable:
			s += ":" + c.T.Name
		case *schema.ModifyTable:
			s += fmt.Sprintf(":%s/%d", c.T.Name, len(c.Changes))
			if c.T.Schema != nil {
				s += "@" + c.T.Schema.Name
			}
		}
		ss = append(ss, s)
	}
	return strings.Join(ss, " ")
}

// sameValuePlan: the same []schema.Change value is planned three times (`schema apply` plans once to
// show the plan and again in ApplyChanges) and its table changes go through DetachCycles + SortChanges
// twice: every plan must be the first one, and the value must be what it was.
func sameValuePlan(w *out.W, id, what string, d *dialect, changes []schema.Change) {
	ident := valueIdentity(changes)
	var outs [3][]byte
	for k := range outs {
		func() {
			defer func() {
				if r := recover(); r != nil {
					outs[k] = []byte("ERR panic")
				}
			}()
			p, err := d.planner.PlanChanges(context.Background(), "det_plan", changes)
			if err != nil {
				outs[k] = []byte("ERR " + errClass(fmt.Errorf("plan: %w", err)))
				return
			}
			outs[k] = planBytes(p)
		}()
	}
	w.ImplOnly(id, "the same change-set value planned three times")
	w.Count("same-value")
	for k := 1; k < len(outs); k++ {
		if !bytes.Equal(outs[0], outs[k]) {
			w.Violation(id, "same-value-different-plan", fmt.Sprintf("%s: planning the same []schema.Change value again gives a different plan (call %d vs call 1): %s", what, k+1, firstDiff(outs[0], outs[k])))
			break
		}
	}
	if valueIdentity(changes) != ident {
		w.Violation(id, "same-value-input-mutated", fmt.Sprintf("%s: PlanChanges changed the []schema.Change value it was given (its elements, the Changes of a ModifyTable / ModifySchema, or a table's foreign keys)", what))
		ident = valueIdentity(changes)
	}
	if d.name == "sqlite" {
		return // the SQLite planner does not use DetachCycles / SortChanges
	}
	// the sort itself, on what topLevel leaves: the table changes
	var tables []schema.Change
	for _, c := range changes {
		switch c.(type) {
		case *schema.AddSchema, *schema.DropSchema, *schema.ModifySchema:
		default:
			tables = append(tables, c)
		}
	}
	tident := valueIdentity(tables)
	var sorts [2]string
	for k := range sorts {
		func() {
			defer func() {
				if r := recover(); r != nil {
					sorts[k] = "ERR panic"
				}
			}()
			dc, err := verifx.DetachCycles(tables)
			if err != nil {
				sorts[k] = "ERR detach"
				return
			}
			di := valueIdentity(dc)
			s1 := changeKinds(verifx.SortChanges(dc, nil))
			s2 := changeKinds(verifx.SortChanges(dc, nil))
			if s1 != s2 {
				w.Violation(id, "same-value-different-plan", fmt.Sprintf("%s: SortChanges of the same detached list gives %s, then %s", what, trunc(s1, 300), trunc(s2, 300)))
			}
			if valueIdentity(dc) != di {
				w.Violation(id, "same-value-input-mutated", fmt.Sprintf("%s: SortChanges changed the slice it was given", what))
			}
			sorts[k] = s1
		}()
	}
	w.Count("same-value-sort")
	if sorts[0] != sorts[1] {
		w.Violation(id, "same-value-different-plan", fmt.Sprintf("%s: DetachCycles+SortChanges of the same value gives %s, then %s", what, trunc(sorts[0], 300), trunc(sorts[1], 300)))
	}
	if valueIdentity(tables) != tident {
		w.Violation(id, "same-value-input-mutated", fmt.Sprintf("%s: DetachCycles+SortChanges changed the []schema.Change value it was given", what))
	}
}

// concurrent runs every operation in its own goroutine, `rounds` times, all at once, next to
// unrelated operations (HCL evaluation, checksum validation of another directory).
func concurrent(w *out.W, base map[string][]byte, rounds int, tag string) int {
	type res struct {
		id  string
		out []byte
	}
	var (
		wg   sync.WaitGroup
		mu   sync.Mutex
		all  []res
		stop = make(chan struct{})
	)
	// unrelated background load
	for g := 0; g < 3; g++ {
		g := g
		go func() {
			for i := 0; ; i++ {
				select {
				case <-stop:
					return
				default:
				}
				unrelated(g, i)
			}
		}()
	}
	for _, o := range allOps() {
		for v := 0; v < nVariants; v++ {
			o, v := o, v
			wg.Add(1)
			go func() {
				defer wg.Done()
				for r := 0; r < rounds; r++ {
					b, err := runOp(o, v)
					if err != nil {
						b = []byte("ERR " + errClass(err))
					}
					mu.Lock()
					all = append(all, res{fmt.Sprintf("%s/%d", o.name, v), b})
					mu.Unlock()
				}
			}()
		}
	}
	wg.Wait()
	close(stop)
	bad := 0
	for _, r := range all {
		want, ok := base[r.id]
		if !ok {
			continue
		}
		if !bytes.Equal(want, r.out) {
			bad++
			if w != nil {
				w.Violation(r.id, "nondeterministic-concurrent", fmt.Sprintf("%s: output under concurrent execution differs from the sequential one: %s", r.id, firstDiff(want, r.out)))
			}
		}
	}
	if w != nil {
		w.ImplOnly(tag, fmt.Sprintf("%d concurrent executions in %d goroutines compared with the sequential outputs", len(all), len(all)/rounds))
		w.Count("concurrent-executions")
	}
	return bad
}

// concChild is what the -race binary runs: sequential baseline, then the concurrent schedule.
func concChildMain() int {
	base := map[string][]byte{}
	for _, o := range allOps() {
		for v := 0; v < nVariants; v++ {
			b, err := runOp(o, v)
			if err != nil {
				b = []byte("ERR " + errClass(err))
			}
			base[fmt.Sprintf("%s/%d", o.name, v)] = b
		}
	}
	if bad := concurrent(nil, base, 2, "race"); bad > 0 {
		fmt.Printf("MISMATCH %d\n", bad)
		return 3
	}
	fmt.Println("OK")
	return 0
}

// raceRun builds cmd/det with -race (go caches the instrumented packages; the first build takes
// 1-2 minutes, later ones seconds) and runs the concurrent schedule under the detector.
func raceRun(w *out.W, tier string) {
	root := os.Getenv("VERIF_ROOT")
	if root == "" {
		w.Set("race", "skipped: VERIF_ROOT not set")
		return
	}
	bin := filepath.Join(root, "build", "h_det_race")
	t0 := time.Now()
	args := []string{"build", "-race", "-tags", "verif", "-o", bin}
	// build against the tree under test: build/harness.mod is harness/go.mod with its replace pointed at $VERIF_REPO
	// (written by the driver before it builds the harnesses)
	if mf := filepath.Join(root, "build", "harness.mod"); fileExists(mf) {
		args = append(args, "-modfile="+mf)
	}
	cmd := exec.Command("go", append(args, "./cmd/det")...)
	cmd.Dir = filepath.Join(root, "harness")
	cmd.Env = append(os.Environ(), "CGO_ENABLED=1")
	if outp, err := runTimeout(cmd, 10*time.Minute); err != nil {
		// a tree that does not build is reported by the driver's own build step; here only note it
		w.Set("race", "unavailable: go build -race failed: "+trunc(string(outp), 300))
		w.Count("race-build-failed")
		return
	}
	buildS := time.Since(t0).Seconds()
	run := exec.Command(bin, "-mode", "concchild", "-out", os.TempDir())
	run.Env = append(os.Environ(), "GORACE=exitcode=66 halt_on_error=0")
	outp, err := runTimeout(run, 10*time.Minute)
	txt := string(outp)
	switch {
	case strings.Contains(txt, "WARNING: DATA RACE"):
		i := strings.Index(txt, "WARNING: DATA RACE")
		w.Violation("race", "data-race", "race detector: "+trunc(strings.Join(strings.Fields(txt[i:]), " "), 900))
	case strings.Contains(txt, "MISMATCH"):
		w.Violation("race", "nondeterministic-concurrent", "outputs differ under the -race build: "+trunc(strings.Join(strings.Fields(txt), " "), 300))
	case err != nil:
		w.Violation("race", "race-run-failed", "the -race binary failed: "+err.Error()+": "+trunc(strings.Join(strings.Fields(txt), " "), 300))
	}
	// the same binary, cold: the concurrent schedule above runs after a sequential pass has used every
	// package-level value once; here each process starts with the concurrent first use (cold.go)
	if dir, derr := os.MkdirTemp("", "detcoldrace"); derr == nil {
		defer os.RemoveAll(dir)
		if base, perr := coldPrepare(dir); perr == nil {
			env := append(os.Environ(), "GORACE=exitcode=66 halt_on_error=0")
			for pi, pair := range coldPairs() {
				id := fmt.Sprintf("race-cold/%s+%s", pair[0], pair[1])
				ctxt := coldRun(w, bin, env, id, pair, pi, dir, base)
				if i := strings.Index(ctxt, "WARNING: DATA RACE"); i >= 0 {
					w.Violation(id, "data-race", fmt.Sprintf("race detector, fresh process, first use of %s next to %s in 12 goroutines: %s", pair[0], pair[1], trunc(strings.Join(strings.Fields(ctxt[i:]), " "), 700)))
				}
				w.ImplOnly(id, "cold start under the race detector")
				w.Count("race-cold-process")
			}
		}
	}
	w.ImplOnly("race", fmt.Sprintf("go build -race %.0fs; concurrent schedule under the race detector: %s", buildS, trunc(strings.TrimSpace(txt), 80)))
	w.Set("race", fmt.Sprintf("built in %.0fs, ran in %.0fs", buildS, time.Since(t0).Seconds()-buildS))
	w.Count("race-run")
}

func fileExists(p string) bool {
	_, err := os.Stat(p)
	return err == nil
}

func runTimeout(cmd *exec.Cmd, d time.Duration) ([]byte, error) {
	var b bytes.Buffer
	cmd.Stdout, cmd.Stderr = &b, &b
	if err := cmd.Start(); err != nil {
		return nil, err
	}
	done := make(chan error, 1)
	go func() { done <- cmd.Wait() }()
	select {
	case err := <-done:
		return b.Bytes(), err
	case <-time.After(d):
		cmd.Process.Kill()
		return b.Bytes(), fmt.Errorf("timeout after %s", d)
	}
}

// localDirHistory returns "" when a LocalDir that went through a write history equals a new one with the same files.
func localDirHistory(v int) string {
	mk := func() (*migrate.LocalDir, string, error) {
		tmp, err := os.MkdirTemp("", "detldir")
		if err != nil {
			return nil, "", err
		}
		d, err := migrate.NewLocalDir(tmp)
		return d, tmp, err
	}
	sum := func(d *migrate.LocalDir) error {
		h, err := d.Checksum()
		if err != nil {
			return err
		}
		return migrate.WriteSumFile(d, h)
	}
	files := dirFiles(v)
	d1, t1, err := mk()
	if err != nil {
		return err.Error()
	}
	defer os.RemoveAll(t1)
	final := map[string]string{}
	for _, f := range files {
		if strings.HasSuffix(f[0], ".sql") {
			d1.WriteFile(f[0], []byte(f[1]+"-- a long trailer that will be cut off again .........................................\n"))
			final[f[0]] = f[1]
		}
	}
	if err := sum(d1); err != nil {
		return "first sum: " + err.Error()
	}
	k := 0
	for _, f := range files {
		if !strings.HasSuffix(f[0], ".sql") {
			continue
		}
		if k%3 == 2 {
			os.Remove(filepath.Join(t1, f[0]))
			delete(final, f[0])
		} else {
			d1.WriteFile(f[0], []byte(final[f[0]])) // shorter than before
		}
		k++
	}
	if err := sum(d1); err != nil {
		return "second sum: " + err.Error()
	}
	d2, t2, err := mk()
	if err != nil {
		return err.Error()
	}
	defer os.RemoveAll(t2)
	for n, b := range final {
		d2.WriteFile(n, []byte(b))
	}
	if err := sum(d2); err != nil {
		return "fresh sum: " + err.Error()
	}
	if err := migrate.Validate(d1); err != nil {
		return "the rewritten directory does not validate right after its sum was written: " + err.Error()
	}
	for n := range final {
		b1, _ := os.ReadFile(filepath.Join(t1, n))
		b2, _ := os.ReadFile(filepath.Join(t2, n))
		if !bytes.Equal(b1, b2) {
			return fmt.Sprintf("file %s differs from a newly written one: %s", n, firstDiff(b2, b1))
		}
	}
	s1, _ := os.ReadFile(filepath.Join(t1, migrate.HashFileName))
	s2, _ := os.ReadFile(filepath.Join(t2, migrate.HashFileName))
	if !bytes.Equal(s1, s2) {
		return "atlas.sum differs from the one of a new directory with the same files: " + firstDiff(s2, s1)
	}
	return ""
}
